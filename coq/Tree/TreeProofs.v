(** Tree/TreeProofs — what invalidateSubtree / revalidateSubtree and every other operation do to the
    failure flags: the C07 flag invariant is preserved by every step, and the C08 algebra follows from it. *)
From Coq Require Import ZArith NArith List Bool Lia.
From VB Require Import Tree.TreeDefs Tree.TreeInv Tree.TreePass.
Import ListNotations.

(* ------------------------------------------------------------------ the invariant *)
Record Inv_flags (s : tree) : Prop := {
  i_wf : wf (blocks s);          (* a proper tree: unique ids, parents exist, one root *)
  i_ht : ht_ok (blocks s);       (* heights follow parents *)
  i_fl : fl_ok (blocks s);       (* every child of a failed block carries FAILED_CHILD (hence: every descendant of a failed block is failed) *)
  i_lv : lv_ok (blocks s)        (* a live block is at least BLOCK_VALID_TREE *)
}.

Lemma inv_of_fl_eq s l : Inv_flags s -> fl_eq (blocks s) l -> wf l /\ ht_ok l /\ fl_ok l /\ lv_ok l.
Proof.
  intros [W H F L] E. pose proof (fl_eq_skel _ _ E) as S. repeat split.
  - eapply same_skel_wf; eauto.
  - eapply same_skel_ht; eauto.
  - eapply fl_eq_ok; eauto.
  - eapply fl_eq_lv; eauto.
Qed.

(* ------------------------------------------------------------------ wf helpers *)
Lemma wf_In_find l : wf l -> forall y, In y l -> find_blk (bid y) l = Some y.
Proof.
  induction l as [|x r IH]; simpl; intros W y Hy; [contradiction|].
  destruct W as (Wr & Hx & _). destruct Hy as [->|Hy]; [rewrite N.eqb_refl; reflexivity|].
  destruct (N.eqb_spec (bid x) (bid y)) as [E|E]; auto.
  exfalso. apply (find_blk_none_In _ _ Hx y Hy). auto.
Qed.

(* replacing the status of the block found under id by one with the same failure flags *)
Lemma upd_const_fl_eq l id x c : wf l -> find_blk id l = Some x ->
  fblock c = fblock (bst x) -> fpop c = fpop (bst x) -> fchild c = fchild (bst x) -> (lvP (bst x) -> lvP c) ->
  deleted c = deleted (bst x) ->
  fl_eq l (upd id (fun _ => c) l).
Proof.
  intros W F B P C LV DD. unfold upd.
  assert (G : forall y, In y l -> bid y = id -> y = x).
  { intros y Hy E. pose proof (wf_In_find l W y Hy) as F2. rewrite E, F in F2. congruence. }
  clear F W. induction l as [|z r IH]; simpl; constructor.
  - destruct (N.eqb_spec (bid z) id) as [E|E]; simpl.
    + rewrite (G z (or_introl eq_refl) E). (split; [|split; [|split; [|split; [|split]]]]); auto.
    + (split; [|split; [|split; [|split; [|split]]]]); auto.
  - apply IH. intros y Hy. apply G. right; auto.
Qed.

(* ------------------------------------------------------------------ the state machine keeps the failure flags *)
Lemma raise_validity_fl l x u s b : raise_validity l x u = Done (s, b) ->
  fblock s = fblock (bst x) /\ fpop s = fpop (bst x) /\ fchild s = fchild (bst x) /\ (lvP (bst x) -> lvP s)
  /\ deleted s = deleted (bst x).
Proof.
  assert (R : (level (bst x) <? u)%N = true ->
              fblock (set_level u (bst x)) = fblock (bst x) /\ fpop (set_level u (bst x)) = fpop (bst x) /\
              fchild (set_level u (bst x)) = fchild (bst x) /\ (lvP (bst x) -> lvP (set_level u (bst x))) /\
              deleted (set_level u (bst x)) = deleted (bst x)).
  { intros L. repeat split; auto; destruct H as [H1 H2]; simpl; auto.
    intros D. apply N.ltb_lt in L. specialize (H1 D). lia. }
  assert (Z : fblock (bst x) = fblock (bst x) /\ fpop (bst x) = fpop (bst x) /\ fchild (bst x) = fchild (bst x) /\
              (lvP (bst x) -> lvP (bst x)) /\ deleted (bst x) = deleted (bst x)) by (repeat split; auto; apply H).
  unfold raise_validity. destruct (fpop (bst x)) eqn:P.
  - intros H; inversion H; subst; auto.
  - destruct (level (bst x) <? u)%N eqn:L.
    + destruct (bparent x) as [p|].
      * destruct (st_of l p) as [ps|]; [|discriminate]. destruct (u <=? level ps)%N; [|discriminate].
        intros H; inversion H; subst; auto.
      * intros H; inversion H; subst; auto.
    + intros H; inversion H; subst; auto.
Qed.

Ltac bind_inv H :=
  match type of H with
  | bind ?o _ = Done _ => let E := fresh "E" in destruct o eqn:E; simpl in H; [|discriminate|discriminate]
  end.

Lemma unapply_block_fl l ap id l' ap' : unapply_block (l, ap) id = Done (l', ap') -> fl_eq l l'.
Proof.
  unfold unapply_block. destruct (find_blk id l) as [x|]; [|discriminate].
  destruct (bparent x); [|discriminate].
  intros H. repeat bind_inv H. inversion H; subst. apply upd_fl_eq, keeps_set_active.
Qed.

Lemma unapply_list_fl ids : forall l ap l' ap', unapply_list (l, ap) ids = Done (l', ap') -> fl_eq l l'.
Proof.
  induction ids as [|i r IH]; simpl; intros l ap l' ap' H.
  - inversion H; subst. apply fl_eq_refl.
  - bind_inv H. destruct a as [l1 ap1].
    eapply fl_eq_trans; [eapply unapply_block_fl; eauto | eapply IH; eauto].
Qed.

Lemma apply_block_fl W l ap id l' ap' ok : wf l -> W = wf l -> apply_block (l, ap) id = Done (l', ap', ok) -> fl_eq l l'.
Proof.
  intros Wl _. unfold apply_block. destruct (find_blk id l) as [x|] eqn:F; [|discriminate].
  destruct (bparent x); [|discriminate]. destruct (st_of l n) as [ps|]; [|discriminate].
  intros H. repeat bind_inv H.
  destruct (negb (is_valid L_TREE (bst x))).
  - inversion H; subst. apply fl_eq_refl.
  - repeat bind_inv H.
    match goal with R : raise_validity _ _ _ = Done ?a |- _ => destruct a as [s1 b1];
      destruct (raise_validity_fl _ _ _ _ _ R) as (B & P & C & LV & DD) end.
    inversion H; subst. simpl.
    eapply upd_const_fl_eq; eauto.
Qed.

Lemma apply_list_fl ids : forall l ap dn l' ap' ok, wf l ->
  apply_list (l, ap) dn ids = Done (l', ap', ok) -> fl_eq l l'.
Proof.
  induction ids as [|i r IH]; simpl; intros l ap dn l' ap' ok W H.
  - inversion H; subst. apply fl_eq_refl.
  - bind_inv H. destruct a as [[l1 ap1] ok1].
    pose proof (apply_block_fl _ _ _ _ _ _ _ W eq_refl E) as F1.
    destruct ok1.
    + eapply fl_eq_trans; [exact F1|]. eapply IH; eauto. eapply same_skel_wf; [apply fl_eq_skel; eauto|auto].
    + bind_inv H. destruct a as [l2 ap2]. inversion H; subst.
      eapply unapply_list_fl; eauto.
Qed.

Lemma sm_apply_fl l ap from to l' ap' ok : wf l -> sm_apply (l, ap) from to = Done (l', ap', ok) -> fl_eq l l'.
Proof.
  intros W. unfold sm_apply. destruct (from =? to)%N.
  - intros H; inversion H; subst; apply fl_eq_refl.
  - simpl. destruct (st_of l to); [|discriminate]. destruct (negb (is_valid L_TREE s)).
    + intros H; inversion H; subst; apply fl_eq_refl.
    + apply apply_list_fl; auto.
Qed.

Lemma sm_set_state_fl l ap from to l' ap' ok : wf l -> sm_set_state (l, ap) from to = Done (l', ap', ok) -> fl_eq l l'.
Proof.
  intros W. unfold sm_set_state. destruct (from =? to)%N.
  - intros H; inversion H; subst; apply fl_eq_refl.
  - simpl. destruct (fork_of l from to); [|discriminate]. intros H.
    bind_inv H. destruct a as [l1 ap1].
    pose proof (unapply_list_fl _ _ _ _ _ E) as F1.
    assert (W1 : wf l1) by (eapply same_skel_wf; [apply fl_eq_skel; eauto|auto]).
    bind_inv H. destruct a as [[l2 ap2] ok2].
    pose proof (sm_apply_fl _ _ _ _ _ _ _ W1 E0) as F2.
    destruct ok2.
    + inversion H; subst. eapply fl_eq_trans; eauto.
    + assert (W2 : wf l2) by (eapply same_skel_wf; [apply fl_eq_skel; eauto|auto]).
      bind_inv H. destruct a as [[l3 ap3] ok3]. bind_inv H. inversion H; subst.
      pose proof (sm_apply_fl _ _ _ _ _ _ _ W2 E1) as F3.
      eapply fl_eq_trans; [exact F1|]. eapply fl_eq_trans; eauto.
Qed.

Lemma alt_set_state_fl s to s1 ok : wf (blocks s) -> alt_set_state s to = Done (s1, ok) ->
  fl_eq (blocks s) (blocks s1) /\ tkind s1 = tkind s.
Proof.
  intros W. unfold alt_set_state.
  destruct (find_blk (tip s) (blocks s)); [|discriminate]. destruct (find_blk to (blocks s)); [|discriminate].
  intros H. repeat bind_inv H.
  match goal with R : sm_set_state _ _ _ = Done ?a |- _ => destruct a as [[l1 ap1] ok1];
    pose proof (sm_set_state_fl _ _ _ _ _ _ _ W R) as F end.
  destruct (st_of l1 to); [|discriminate]. destruct ok1; repeat bind_inv H; inversion H; subst; simpl; auto.
Qed.

Lemma set_state_to_fl s to s1 : wf (blocks s) -> set_state_to s to = Done s1 ->
  fl_eq (blocks s) (blocks s1) /\ tkind s1 = tkind s.
Proof.
  intros W. unfold set_state_to. destruct (tkind s) eqn:K.
  - intros H. bind_inv H. destruct a as [s2 ok]. bind_inv H. inversion H; subst.
    rewrite <- K. eapply alt_set_state_fl; eauto.
  - intros H; inversion H; subst; simpl. split; [apply fl_eq_refl|auto].
Qed.

Lemma pow_determine_best_blocks s c : blocks (pow_determine_best s c) = blocks s /\ tkind (pow_determine_best s c) = tkind s.
Proof.
  unfold pow_determine_best. destruct (tip s =? c)%N; auto.
  destruct (find_blk c (blocks s)); auto. destruct (find_blk (tip s) (blocks s)); auto.
  destruct (negb (is_valid L_TREE (bst b))); auto. destruct (bwork b0 <? bwork b)%Z; auto.
Qed.

Lemma update_tips_blocks s ord : blocks (update_tips s ord) = blocks s /\ tkind (update_tips s ord) = tkind s.
Proof.
  unfold update_tips. destruct (tkind s) eqn:K; auto.
  revert s K. induction ord as [|t r IH]; simpl; intros s K; auto.
  destruct (memN t (tips s)).
  - destruct (pow_determine_best_blocks s t) as [B T].
    destruct (IH (pow_determine_best s t)) as [B2 T2]; [congruence|]. split; congruence.
  - apply IH; auto.
Qed.

(* ------------------------------------------------------------------ pre_ok after changing the target's own flag *)
Lemma pre_ok_upd v t g : forall l, wf l -> fl_ok l ->
  (forall s, fchild (g s) = fchild s) ->
  (forall y, In y l -> bid y = t -> failed (g (bst y)) = v) ->
  pre_ok v t (upd t g l).
Proof.
  induction l as [|x r IH]; simpl; intros W F G V; auto.
  destruct W as (Wr & Hx & Hp). destruct F as (Fr & Fx).
  split; [apply IH; auto|].
  assert (P : bparent (if (bid x =? t)%N then with_st x (g (bst x)) else x) = bparent x)
    by (destruct (bid x =? t)%N; reflexivity).
  assert (C : fchild (bst (if (bid x =? t)%N then with_st x (g (bst x)) else x)) = fchild (bst x))
    by (destruct (bid x =? t)%N; simpl; auto).
  rewrite P, C. destruct (bparent x) as [p|]; auto.
  fold (upd t g r). rewrite find_upd.
  destruct (find_blk p r) as [y|] eqn:Fy; [|contradiction]. simpl.
  pose proof (find_blk_bid _ _ _ Fy) as By. rewrite By.
  destruct (N.eqb_spec p t) as [E|E]; simpl; auto.
  apply V; [right; eapply find_blk_In; eauto | congruence].
Qed.

(* ------------------------------------------------------------------ invalidateSubtree *)
Lemma set_reason_fchild r b s : fchild (set_reason r b s) = fchild s.
Proof. destruct r; reflexivity. Qed.
Lemma set_reason_true_failed r s : failed (set_reason r true s) = true.
Proof. destruct r; unfold failed; simpl; [reflexivity | rewrite orb_true_r; reflexivity]. Qed.

(* changing the own flags of a block without changing its failed-ness keeps the invariant *)
Lemma upd_samefailed_fl_ok g : (forall s, fchild (g s) = fchild s) -> forall l id, wf l -> fl_ok l ->
  (forall y, In y l -> bid y = id -> failed (g (bst y)) = failed (bst y)) ->
  fl_ok (upd id g l).
Proof.
  intros G. induction l as [|x rr IH]; simpl; intros id W F V; auto.
  destruct W as (Wr & Hx & Hp). destruct F as (Fr & Fx).
  split; [apply IH; auto|].
  assert (P : bparent (if (bid x =? id)%N then with_st x (g (bst x)) else x) = bparent x)
    by (destruct (bid x =? id)%N; reflexivity).
  assert (C : fchild (bst (if (bid x =? id)%N then with_st x (g (bst x)) else x)) = fchild (bst x))
    by (destruct (bid x =? id)%N; simpl; auto).
  rewrite P, C. destruct (bparent x) as [p|]; auto.
  fold (upd id g rr). rewrite find_upd.
  destruct (find_blk p rr) as [y|] eqn:Fy; [|contradiction]. simpl.
  destruct (N.eqb_spec (bid y) id) as [E|E]; simpl; auto.
  intros Fg. apply Fx. rewrite <- Fg. symmetry. apply V; auto. right. eapply find_blk_In; eauto.
Qed.

Lemma upd_lv id f l : (forall s, lvP s -> lvP (f s)) -> lv_ok l -> lv_ok (upd id f l).
Proof.
  intros K. unfold lv_ok, upd. induction 1; simpl; constructor; auto.
  destruct (bid x =? id)%N; simpl; auto.
Qed.

Lemma gpass_lv f stop t l : (forall s, lvP s -> lvP (f s)) -> lv_ok l -> lv_ok (fst (gpass f stop t l)).
Proof.
  intros K. unfold lv_ok. induction 1 as [|x r Hx Hr IH]; simpl; [constructor|].
  destruct (gpass f stop t r) as [o c]. simpl in IH.
  destruct (vis c x); simpl; constructor; auto. simpl. auto.
Qed.

Lemma lvP_set_reason r b s : lvP s -> deleted s = false -> lvP (set_reason r b s).
Proof. unfold lvP. destruct r; simpl; intros [H1 H2] D; split; auto; rewrite D; discriminate. Qed.
Lemma lvP_unset_reason r s : lvP s -> lvP (set_reason r false s).
Proof. unfold lvP. destruct r; simpl; intros [H1 H2]; split; auto. Qed.

Lemma upd_lv_at id f l : (forall y, In y l -> bid y = id -> lvP (f (bst y))) -> lv_ok l -> lv_ok (upd id f l).
Proof.
  unfold lv_ok, upd. intros K H. induction H as [|x r Hx Hr IH]; simpl; constructor.
  - destruct (N.eqb_spec (bid x) id); simpl; auto. apply K; simpl; auto.
  - apply IH. intros y Hy. apply K. right; auto.
Qed.
Lemma lvP_set_fchild b s : lvP s -> lvP (set_fchild b s).
Proof. intros [H1 H2]; split; auto. Qed.

Lemma wf_unique l id x : wf l -> find_blk id l = Some x -> forall y, In y l -> bid y = id -> y = x.
Proof.
  intros Wl Fl y Hy Ey. pose proof (wf_In_find l Wl y Hy) as F2. rewrite Ey, Fl in F2. congruence.
Qed.

Lemma mk_inv k l tp t a : wf l -> ht_ok l -> fl_ok l -> lv_ok l -> Inv_flags (mkTree k l tp t a).
Proof. intros; constructor; auto. Qed.

Lemma inv_same_blocks s s' : blocks s' = blocks s -> Inv_flags s -> Inv_flags s'.
Proof. intros E [W H F L]. constructor; rewrite E; auto. Qed.

Theorem invalidate_inv s id r ord s' : Inv_flags s -> invalidate s id r ord = Done s' -> Inv_flags s'.
Proof.
  intros I. pose proof I as [W H F L]. unfold invalidate.
  destruct (find_blk id (blocks s)) as [x|] eqn:Fx; [|discriminate].
  destruct (deleted (bst x)) eqn:Dx; [discriminate|]. destruct (bparent x) as [p|] eqn:Px; [|discriminate].
  destruct (has_reason r (bst x)); [intros E; inversion E; subst; exact I|].
  intros E. bind_inv E.
  destruct (negb (is_valid L_TREE (bst x))) eqn:V.
  - (* already invalid: only the flag of the block itself *)
    inversion E; subst; clear E.
    assert (Fd : failed (bst x) = true).
    { unfold is_valid in V. destruct (failed (bst x)); auto. simpl in V. exfalso.
      unfold lv_ok in L. rewrite Forall_forall in L. destruct (L x (find_blk_In _ _ _ Fx)) as [L1 _]. specialize (L1 Dx).
      unfold valid_upto, L_TREE in V. apply negb_true_iff, N.leb_gt in V. lia. }
    apply mk_inv.
    + eapply same_skel_wf; [apply upd_skel|auto].
    + eapply same_skel_ht; [apply upd_skel|auto].
    + apply upd_samefailed_fl_ok; auto using set_reason_fchild.
      intros y Hy Ey. rewrite (wf_unique _ _ _ W Fx y Hy Ey), set_reason_true_failed; auto.
    + apply upd_lv_at; auto. intros y Hy Ey. rewrite (wf_unique _ _ _ W Fx y Hy Ey).
      apply lvP_set_reason; auto. unfold lv_ok in L. rewrite Forall_forall in L. apply L. eapply find_blk_In; eauto.
  - assert (S1 : exists s1, (if on_chain s id then set_state_to s p else Done s) = Done s1 /\
                            fl_eq (blocks s) (blocks s1) /\ tkind s1 = tkind s).
    { destruct (on_chain s id).
      - destruct (set_state_to s p) as [s1| |] eqn:SS; simpl in E; try discriminate.
        exists s1. destruct (set_state_to_fl _ _ _ W SS); auto.
      - exists s. repeat split; auto using fl_eq_refl. }
    destruct S1 as (s1 & ES & FE & K1). rewrite ES in E. simpl in E.
    destruct (inv_of_fl_eq _ _ I FE) as (W1 & H1 & F1 & L1).
    set (l1 := upd id (set_reason r true) (blocks s1)) in *.
    assert (Wl1 : wf l1) by (eapply same_skel_wf; [apply upd_skel|auto]).
    destruct (mark_pass id l1) as [[l2 c] vs] eqn:M.
    pose proof (mark_pass_gpass id l1) as [G1 _]. rewrite M in G1. simpl in G1.
    inversion E; subst s'; clear E.
    eapply inv_same_blocks; [apply update_tips_blocks|]. simpl. rewrite G1.
    apply mk_inv.
    + eapply same_skel_wf; [apply gpass_skel|auto].
    + eapply same_skel_ht; [apply gpass_skel|]. eapply same_skel_ht; [apply upd_skel|auto].
    + apply mark_fl_ok; auto. apply pre_ok_upd; auto using set_reason_fchild.
      intros; apply set_reason_true_failed.
    + apply gpass_lv; auto using lvP_set_fchild. apply upd_lv_at; auto.
      intros y Hy Ey. apply lvP_set_reason.
      * unfold lv_ok in L1. rewrite Forall_forall in L1. auto.
      * destruct (fl_eq_sym_flags _ _ FE id x Fx) as (x1 & Fx1 & _ & _ & _ & _ & Dx1).
        rewrite (wf_unique _ _ _ W1 Fx1 y Hy Ey). congruence.
Qed.

(* ------------------------------------------------------------------ revalidateSubtree *)
Lemma failed_unset_reason r s : has_reason r s = true ->
  failed (set_reason r false s) = has_other_failure r s.
Proof.
  destruct r; unfold failed, has_other_failure; simpl; intros _.
  - reflexivity.
  - destruct (fblock s), (fchild s); reflexivity.
Qed.

Lemma revalidate_core_inv s id r : Inv_flags s -> Inv_flags (revalidate_core s id r).
Proof.
  intros I. pose proof I as [W H F L]. unfold revalidate_core.
  destruct (find_blk id (blocks s)) as [x|] eqn:Fx; auto.
  destruct (has_reason r (bst x)) eqn:HR; simpl; auto.
  set (l1 := upd id (set_reason r false) (blocks s)).
  assert (Wl1 : wf l1) by (eapply same_skel_wf; [apply upd_skel|auto]).
  assert (Hl1 : ht_ok l1) by (eapply same_skel_ht; [apply upd_skel|auto]).
  assert (Ll1 : lv_ok l1) by (apply upd_lv; auto using lvP_unset_reason).
  destruct (has_other_failure r (bst x)) eqn:HO.
  - apply mk_inv; auto.
    apply upd_samefailed_fl_ok; auto using set_reason_fchild.
    intros y Hy Ey. rewrite (wf_unique _ _ _ W Fx y Hy Ey), failed_unset_reason, HO; auto.
    unfold failed. destruct r; simpl in HR; rewrite HR; auto. rewrite orb_true_r. reflexivity.
  - destruct (reval_pass (tkind s) l1 id l1 (try_add_tip (tkind s) l1 (tips s) id)) as [[l2 tp] c] eqn:M.
    pose proof (reval_pass_gpass (tkind s) l1 id l1 (try_add_tip (tkind s) l1 (tips s) id)) as [G1 _].
    rewrite M in G1. simpl in G1. rewrite G1.
    apply mk_inv.
    + eapply same_skel_wf; [apply gpass_skel|auto].
    + eapply same_skel_ht; [apply gpass_skel|auto].
    + apply reval_fl_ok; auto. apply pre_ok_upd; auto using set_reason_fchild.
      intros y Hy Ey. rewrite (wf_unique _ _ _ W Fx y Hy Ey), failed_unset_reason, HO; auto.
    + apply gpass_lv; auto using lvP_set_fchild.
Qed.

Theorem revalidate_inv s id r ord s' : Inv_flags s -> revalidate s id r ord = Done s' -> Inv_flags s'.
Proof.
  intros I. unfold revalidate.
  destruct (find_blk id (blocks s)) as [x|] eqn:Fx; [|discriminate].
  destruct (deleted (bst x)); [discriminate|]. destruct (bparent x); [|discriminate].
  destruct (negb (has_reason r (bst x))); [intros E; inversion E; subst; exact I|].
  destruct (has_other_failure r (bst x)); intros E; inversion E; subst.
  - apply revalidate_core_inv; auto.
  - eapply inv_same_blocks; [apply update_tips_blocks|]. apply revalidate_core_inv; auto.
Qed.

(* ------------------------------------------------------------------ setState, removeSubtree *)
Lemma inv_of_fl_eq_tree s s' : Inv_flags s -> fl_eq (blocks s) (blocks s') -> Inv_flags s'.
Proof. intros I E. destruct (inv_of_fl_eq _ _ I E) as (?&?&?&?). constructor; auto. Qed.

Theorem alt_set_inv s id s' res : Inv_flags s -> alt_set s id = Done (s', res) -> Inv_flags s'.
Proof.
  intros I. unfold alt_set. destruct (find_blk id (blocks s)) as [x|]; [|discriminate].
  destruct (deleted (bst x)); [discriminate|]. destruct (negb (valid_upto L_CONNECTED (bst x))); [discriminate|].
  intros H. bind_inv H. destruct a as [s1 ok]. inversion H; subst. simpl.
  eapply inv_of_fl_eq_tree; eauto. eapply alt_set_state_fl; eauto. apply I.
Qed.

Lemma inv_of_fl_le_tree s s' : Inv_flags s -> fl_le (blocks s) (blocks s') -> Inv_flags s'.
Proof.
  intros [W H F L] E. pose proof (fl_le_skel _ _ E) as S. constructor.
  - eapply same_skel_wf; eauto.
  - eapply same_skel_ht; eauto.
  - eapply fl_le_ok; eauto.
  - eapply fl_le_lv; eauto.
Qed.

(* removeSubtree: deleteTemporarily keeps FAILED_BLOCK / FAILED_CHILD and drops FAILED_POP *)
Lemma remove_pass_fl_le t l : fl_le l (fst (remove_pass t l)).
Proof.
  induction l as [|x r IH]; simpl; [constructor|].
  destruct (remove_pass t r) as [o v]. simpl in IH.
  destruct ((bid x =? t)%N || (match bparent x with Some p => memN p v | None => false end && negb (deleted (bst x))));
    simpl; constructor; auto.
  split; [reflexivity|]. split; [|split; [reflexivity|]].
  - unfold failed; simpl. destruct (fblock (bst x)), (fpop (bst x)), (fchild (bst x)); auto.
  - intros _. split; simpl; [discriminate|reflexivity].
Qed.

Theorem remove_subtree_inv s id ord s' : Inv_flags s -> remove_subtree s id ord = Done s' -> Inv_flags s'.
Proof.
  intros I. unfold remove_subtree. destruct (find_blk id (blocks s)) as [x|]; [|discriminate].
  destruct (deleted (bst x)); [discriminate|]. destruct (bparent x) as [p|]; [|discriminate].
  intros E. bind_inv E.
  assert (S1 : fl_eq (blocks s) (blocks a)).
  { destruct (on_chain s id); [eapply set_state_to_fl; eauto; apply I | inversion E0; subst; apply fl_eq_refl]. }
  pose proof (remove_pass_fl_le id (blocks a)) as R.
  destruct (remove_pass id (blocks a)) as [l2 vs]. simpl in R.
  inversion E; subst; clear E.
  assert (I2 : Inv_flags (mkTree (tkind s) l2 (try_add_tip (tkind s) l2 (filter (fun t => negb (memN t vs)) (tips a)) p)
                                 (tip a) (applied a))).
  { eapply inv_of_fl_le_tree; [exact I|]. simpl. eapply fl_le_trans; [apply fl_eq_le; eauto|eauto]. }
  destruct (on_chain s id); auto. eapply inv_same_blocks; [apply update_tips_blocks|]. exact I2.
Qed.

(* ------------------------------------------------------------------ initial states *)
Lemma lvP_root : lvP st_root.
Proof. split; simpl; [intros _; unfold L_APPLIED; lia | discriminate]. Qed.
Lemma alt_init_inv h : Inv_flags (alt_init h).
Proof. constructor; simpl; auto. repeat constructor; apply lvP_root. Qed.
Lemma pow_init_inv h w : Inv_flags (pow_init h w).
Proof. constructor; simpl; auto. repeat constructor; apply lvP_root. Qed.

(* ------------------------------------------------------------------ consequences of the invariant *)
(* a failed parent implies FAILED_CHILD on the child *)
Lemma fl_ok_find l : wf l -> fl_ok l -> forall p x q y, find_blk p l = Some x -> bparent x = Some q ->
  find_blk q l = Some y -> failed (bst y) = true -> fchild (bst x) = true.
Proof.
  induction l as [|z r IH]; simpl; intros W F p x q y Fx Px Fy; [discriminate|].
  pose proof W as W0. destruct W as (Wr & Hz & Hp). destruct F as (Fr & Fz).
  destruct (N.eqb_spec (bid z) p) as [E|E].
  - inversion Fx; subst x. rewrite Px in Fz, Hp.
    destruct (N.eqb_spec (bid z) q) as [E2|E2].
    + exfalso. subst q. rewrite Hz in Hp. auto.
    + rewrite Fy in Fz. exact Fz.
  - destruct (N.eqb_spec (bid z) q) as [E2|E2].
    + exfalso. apply (wf_parent_not_head z r W0 p x q Fx Px). auto.
    + eapply IH; eauto.
Qed.

Theorem failed_parent_failed_child s : Inv_flags s -> forall p x q y,
  find_blk p (blocks s) = Some x -> bparent x = Some q -> find_blk q (blocks s) = Some y ->
  failed (bst y) = true -> fchild (bst x) = true.
Proof.
  intros [W _ F _] p x q y Fx Px Fy. apply (fl_ok_find _ W F p x q y Fx Px Fy).
Qed.

(* a block is valid only if its parent is not failed *)
Theorem valid_parent_not_failed s : Inv_flags s -> forall p x q y,
  find_blk p (blocks s) = Some x -> bparent x = Some q -> find_blk q (blocks s) = Some y ->
  is_valid L_TREE (bst x) = true -> failed (bst y) = false.
Proof.
  intros I p x q y Fx Px Fy V. destruct I as [W _ F _].
  destruct (failed (bst y)) eqn:Fd; auto.
  pose proof (fl_ok_find _ W F p x q y Fx Px Fy Fd) as C.
  unfold is_valid in V. apply andb_true_iff in V. destruct V as [V _]. apply negb_true_iff in V.
  unfold failed in V. rewrite C in V. rewrite orb_true_r in V. discriminate.
Qed.

(* the steps proved so far, lifted over arbitrary interleavings *)
Definition flag_op (o : op) : Prop :=
  match o with OInv _ _ _ | OReval _ _ _ | ORm _ _ | OSet _ => True | _ => False end.

Theorem step_inv_partial s o : Inv_flags s -> flag_op o -> Inv_flags (step s o).
Proof.
  intros I FO. unfold step, step_out.
  destruct o; simpl in FO; try contradiction; destruct (tkind s) eqn:K.
  - destruct (alt_set s id) as [[s1 r]| |] eqn:E; auto. eapply alt_set_inv; eauto.
  - exact I.
  - destruct (invalidate s id r ord) as [s1| |] eqn:E; simpl; auto. eapply invalidate_inv; eauto.
  - destruct (invalidate s id r ord) as [s1| |] eqn:E; simpl; auto. eapply invalidate_inv; eauto.
  - destruct (revalidate s id r ord) as [s1| |] eqn:E; simpl; auto. eapply revalidate_inv; eauto.
  - destruct (revalidate s id r ord) as [s1| |] eqn:E; simpl; auto. eapply revalidate_inv; eauto.
  - destruct (remove_subtree s id ord) as [s1| |] eqn:E; simpl; auto. eapply remove_subtree_inv; eauto.
  - destruct (remove_subtree s id ord) as [s1| |] eqn:E; simpl; auto. eapply remove_subtree_inv; eauto.
Qed.

Theorem run_inv_partial ops : Forall flag_op ops -> forall s, Inv_flags s -> Inv_flags (run s ops).
Proof.
  unfold run. induction 1 as [|o r Ho Hr IH]; simpl; intros s I; auto.
  apply IH. apply step_inv_partial; auto.
Qed.

(* non-vacuity: a concrete history (PoW tree: 0 <- 1 <- 2, 0 <- 3) with nested invalidations *)
Example run_example :
  let s0 := step (step (step (pow_init 0 1) (OHdr 1 0 1)) (OHdr 2 1 1)) (OHdr 3 0 1) in
  let s1 := run s0 [OInv 1 RBlock [3%N; 2%N]; OInv 2 RPop []; OReval 1 RBlock [2%N; 3%N]] in
  map (fun b => (bid b, encode (bst b))) (blocks s1) = [(3, 2); (2, 66); (1, 2); (0, 532)]%N /\ tip s1 = 3%N.
Proof. vm_compute. split; reflexivity. Qed.
