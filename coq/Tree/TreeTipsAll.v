(** Tree/TreeTipsAll — the tips conjunct for re-adding the header of a removed block (ALT) and for the PoW
    acceptBlockHeader; the tips conjunct is then preserved by EVERY operation of both trees. *)
From Coq Require Import ZArith NArith List Bool Lia.
From VB Require Import Tree.TreeDefs Tree.TreeInv Tree.TreePass Tree.TreeProofs Tree.TreeExact Tree.TreeRestore Tree.TreeMono
  Tree.TreeSteps Tree.TreeTips Tree.TreeTipsOps Tree.TreeTipsUp Tree.TreeTipsAlt Tree.TreeDeleted.
Import ListNotations.

Lemma cbt_deleted k st : deleted st = true -> can_be_tip k st = false.
Proof. intros D. unfold can_be_tip. rewrite D. reflexivity. Qed.

Lemma level0_not_tip k st : level st = 0%N -> can_be_tip k st = false.
Proof.
  intros L. unfold can_be_tip, is_valid, valid_upto. rewrite L. destruct k; simpl; rewrite !andb_false_r; reflexivity.
Qed.

(* tryAddTip on an exact tip set changes nothing (as a set) *)
Lemma try_add_tip_ok k l tps id : wf l -> tips_ok k l tps -> tips_ok k l (try_add_tip k l tps id).
Proof.
  intros W T q. unfold try_add_tip. destruct (find_blk id l) as [x|] eqn:Fx; [|apply T].
  destruct (is_valid_tip k l id (bst x)) eqn:V; [|apply T].
  assert (S : spec k l id = true) by (unfold spec; rewrite Fx; exact V).
  rewrite memN_set_add. destruct (N.eqb_spec q id) as [->|Nq]; [simpl; congruence|]. simpl.
  destruct (bparent x) as [p|] eqn:Px; [|apply T].
  rewrite memN_set_remove. destruct (N.eqb_spec p q) as [->|Np]; [|rewrite andb_true_r; apply T].
  rewrite andb_false_r. symmetry. destruct (spec k l q) eqn:Sq; auto.
  apply (spec_true k l q W) in Sq. destruct Sq as [_ Sq].
  pose proof (Sq id x Fx Px) as E. unfold is_valid_tip in V. rewrite E in V. discriminate.
Qed.

Lemma raise_validity_low l x u c b : raise_validity l x u = Done (c, b) -> (level (bst x) <= u)%N -> (level c <= u)%N.
Proof.
  unfold raise_validity. destruct (fpop (bst x)); [intros H; inversion H; subst; auto|].
  destruct (level (bst x) <? u)%N.
  - destruct (bparent x) as [p|].
    + destruct (st_of l p) as [ps|]; [|discriminate]. destruct (u <=? level ps)%N; [|discriminate].
      intros H; inversion H; subst; simpl; lia.
    + intros H; inversion H; subst; simpl; lia.
  - intros H; inversion H; subst; auto.
Qed.

(* ------------------------------------------------------------------ ALT: the header of a removed block comes back *)
Theorem alt_hdr_tips_ok s id parent s' res : Inv_flags s -> S3_ok (blocks s) -> tkind s = ALT -> tips_ok ALT (blocks s) (tips s) ->
  alt_hdr s id parent = Done (s', res) -> tips_ok ALT (blocks s') (tips s') /\ tkind s' = ALT.
Proof.
  intros I [Z C] K T E. destruct (find_blk id (blocks s)) as [x|] eqn:Fx.
  2:{ eapply alt_hdr_fresh_tips_ok; eauto. }
  pose proof I as [W _ _ _]. unfold alt_hdr in E. rewrite Fx in E.
  destruct (deleted (bst x)) eqn:Dx; [|discriminate]. destruct (bparent x) as [p0|] eqn:Px; [|discriminate].
  destruct (find_blk p0 (blocks s)) as [p|] eqn:Fp; [|discriminate].
  destruct (deleted (bst p)); [inversion E; subst; auto|].
  bind_inv E. unfold insert_header in E0. rewrite Fx, Dx in E0.
  pose proof (find_blk_bid _ _ _ Fx) as Bx.
  rewrite find_upd, Fx in E0. simpl in E0. rewrite Bx, N.eqb_refl in E0.
  bind_inv E0. destruct a0 as [c b]. inversion E0; subst a; clear E0. simpl in *. rewrite upd_upd in *.
  destruct (Z id x Fx Dx) as (Lx & _ & _).
  assert (Lc : (level c <= 1)%N).
  { eapply raise_tree_level; eauto. simpl. lia. }
  assert (Cc : can_be_tip ALT c = false) by (apply low_level_not_tip; auto).
  set (l1 := upd id (set_deleted false) (blocks s)) in *.
  assert (TA : try_add_tip (tkind s) l1 (tips s) id = tips s).
  { rewrite K. apply try_add_tip_noop. unfold cbt, l1. rewrite find_upd, Fx. simpl. rewrite Bx, N.eqb_refl. simpl.
    apply low_level_not_tip. simpl. lia. }
  rewrite TA in *.
  set (l2 := upd id (fun _ => c) (blocks s)) in *.
  assert (CB : cb_eq ALT (blocks s) l2).
  { apply cbt_upd. intros y Fy. rewrite Fx in Fy. inversion Fy; subst y. rewrite Cc. symmetry. apply cbt_deleted. exact Dx. }
  pose proof (tips_ok_cb _ _ _ _ W CB T) as T2.
  assert (C2 : cbt ALT l2 id = false).
  { unfold cbt, l2. rewrite find_upd, Fx. simpl. rewrite Bx, N.eqb_refl. exact Cc. }
  destruct (st_of l2 id); [|discriminate].
  destruct (is_valid L_TREE s0); inversion E; subst s'; simpl; rewrite K; split; auto.
  rewrite try_add_tip_noop; auto.
Qed.

(* ------------------------------------------------------------------ PoW acceptBlockHeader *)
Lemma upd_notfound id f l : find_blk id l = None -> upd id f l = l.
Proof.
  intros N. unfold upd. rewrite <- (map_id l) at 2. apply map_ext_in. intros y Hy.
  destruct (N.eqb_spec (bid y) id) as [E|E]; auto. exfalso. apply (find_blk_none_In _ _ N y Hy E).
Qed.

Lemma try_add_tip_unfold k l tps id x : find_blk id l = Some x ->
  (forall c y, find_blk c l = Some y -> bparent y = Some id -> can_be_tip k (bst y) = false) -> wf l ->
  try_add_tip k l tps id =
  (if can_be_tip k (bst x) then set_add id (match bparent x with Some p => set_remove p tps | None => tps end) else tps).
Proof.
  intros F CH W. unfold try_add_tip. rewrite F. unfold is_valid_tip.
  rewrite (proj2 (nochild_spec k l id W) CH), andb_true_r. reflexivity.
Qed.

Lemma pow_determine_best_tips s c : tips (pow_determine_best s c) = tips s.
Proof.
  unfold pow_determine_best. destruct (tip s =? c)%N; auto. destruct (find_blk c (blocks s)); auto.
  destruct (find_blk (tip s) (blocks s)); auto. destruct (negb (is_valid L_TREE (bst b))); auto. destruct (bwork b0 <? bwork b)%Z; auto.
Qed.

Theorem pow_hdr_tips_ok s id parent w s' res : Inv_flags s -> S3_ok (blocks s) -> tkind s = POW ->
  tips_ok POW (blocks s) (tips s) -> pow_hdr s id parent w = Done (s', res) ->
  tips_ok POW (blocks s') (tips s') /\ tkind s' = POW.
Proof.
  intros I [Z C] K T E. pose proof I as [W _ F L].
  assert (KS : tkind s' = POW).
  { destruct (pow_hdr_inv _ _ _ _ _ _ I E) as [_ _].
    unfold pow_hdr in E. clear -E K.
    assert (G : forall par s1, insert_header s id par w = Done s1 -> tkind s1 = tkind s).
    { intros par s1. unfold insert_header. destruct (find_blk id (blocks s)) as [x|].
      - destruct (deleted (bst x)); [|intros H; inversion H; subst; auto].
        destruct (find_blk id _); [|discriminate]. intros H. bind_inv H. inversion H; subst; auto.
      - destruct (find_blk par (blocks s)); [|discriminate]. intros H. bind_inv H. inversion H; subst; auto. }
    set (par := match find_blk id (blocks s) with
                | Some x => match bparent x with Some p0 => p0 | None => parent end | None => parent end) in *.
    assert (H : forall p s1 x1, insert_header s id par w = Done s1 ->
              (do rv <- raise_validity (blocks s1) x1 L_CONNECTED;
               (let l2 := upd id (fun _ => fst rv) (blocks s1) in
                if negb (is_valid L_TREE (bst p)) then Done (with_blocks s1 (upd id (set_fchild true) l2), RFailChain)
                else Done (pow_determine_best (mkTree (tkind s) l2 (try_add_tip (tkind s) l2 (tips s1) id) (tip s1) (applied s1)) id, ROk)))
              = Done (s', res) -> tkind s' = POW).
    { intros p s1 x1 E1 E2. bind_inv E2. simpl in E2. destruct (negb (is_valid L_TREE (bst p))); inversion E2; subst; simpl.
      - rewrite (G _ _ E1). exact K.
      - rewrite (proj2 (pow_determine_best_blocks _ id)). simpl. exact K. }
    destruct (find_blk id (blocks s)) as [x|].
    - destruct (bparent x); [|discriminate]. destruct (find_blk par (blocks s)) as [p|]; [|inversion E; subst; auto].
      destruct (deleted (bst p)); [inversion E; subst; auto|]. bind_inv E.
      destruct (find_blk id (blocks a)) as [x1|]; [|discriminate]. eapply H; eauto.
    - destruct (find_blk par (blocks s)) as [p|]; [|inversion E; subst; auto].
      destruct (deleted (bst p)); [inversion E; subst; auto|]. bind_inv E.
      destruct (find_blk id (blocks a)) as [x1|]; [|discriminate]. eapply H; eauto. }
  split; auto.
  (* canBeATip in the PoW tree *)
  assert (CP : forall st, can_be_tip POW st = negb (deleted st) && (negb (failed st) && (1 <=? level st)%N)) by reflexivity.
  unfold pow_hdr in E.
  destruct (find_blk id (blocks s)) as [x|] eqn:Fx.
  - destruct (bparent x) as [p0|] eqn:Px; [|discriminate].
    destruct (find_blk p0 (blocks s)) as [p|] eqn:Fp; [|inversion E; subst; auto].
    destruct (deleted (bst p)) eqn:Dp; [inversion E; subst; auto|].
    bind_inv E. pose proof (find_blk_bid _ _ _ Fx) as Bx.
    unfold insert_header in E0. rewrite Fx in E0.
    destruct (deleted (bst x)) eqn:Dx.
    + (* a removed block comes back *)
      rewrite find_upd, Fx in E0. simpl in E0. rewrite Bx, N.eqb_refl in E0.
      bind_inv E0. destruct a0 as [c1 b1]. inversion E0; subst a; clear E0. simpl in E. rewrite upd_upd in E.
      destruct (Z id x Fx Dx) as (Lx & _ & _).
      assert (TA : try_add_tip (tkind s) (upd id (set_deleted false) (blocks s)) (tips s) id = tips s).
      { rewrite K. apply try_add_tip_noop. unfold cbt. rewrite find_upd, Fx. simpl. rewrite Bx, N.eqb_refl. simpl.
        apply level0_not_tip. simpl. exact Lx. }
      rewrite TA in E. rewrite find_upd, Fx in E. simpl in E. rewrite Bx, N.eqb_refl in E.
      bind_inv E. destruct a as [c b]. simpl in E. rewrite upd_upd in E.
      set (l := blocks s) in *.
      assert (CH : forall c0 y, find_blk c0 l = Some y -> bparent y = Some id -> can_be_tip POW (bst y) = false).
      { intros c0 y Fc P. apply cbt_deleted. eapply (C c0 y id x); eauto. }
      assert (IMP : forall st', can_be_tip POW (bst x) = true -> can_be_tip POW st' = true).
      { intros st' H. rewrite cbt_deleted in H; auto. discriminate. }
      destruct (negb (is_valid L_TREE (bst p))).
      * inversion E; subst s'; clear E. simpl. rewrite !upd_upd. cbv beta.
        eapply tips_ok_cb; eauto. apply cbt_upd. intros y Fy. rewrite Fx in Fy. inversion Fy; subst y.
        rewrite (cbt_deleted _ _ Dx). apply can_be_tip_fchild. reflexivity.
      * inversion E; subst s'; clear E. rewrite (proj1 (pow_determine_best_blocks _ id)), pow_determine_best_tips. simpl. rewrite K.
        rewrite !upd_upd. cbv beta.
        set (l2 := upd id (fun _ => c) l).
        assert (W2 : wf l2) by (eapply same_skel_wf; [apply upd_skel|auto]).
        assert (F2 : find_blk id l2 = Some (with_st x c)).
        { unfold l2. rewrite find_upd, Fx. simpl. rewrite Bx, N.eqb_refl. reflexivity. }
        assert (CH2 : forall c0 y, find_blk c0 l2 = Some y -> bparent y = Some id -> can_be_tip POW (bst y) = false).
        { intros c0 y Fc P. unfold l2 in Fc. rewrite find_upd in Fc. destruct (find_blk c0 l) as [y0|] eqn:Fc0; [|discriminate].
          simpl in Fc. destruct (N.eqb_spec (bid y0) id) as [Ey|Ey].
          - exfalso. inversion Fc; subst y. simpl in P. rewrite (find_blk_bid _ _ _ Fc0) in Ey. subst c0.
            eapply (wf_parent_ne l W id y0 id); eauto.
          - inversion Fc; subst y. eapply CH; eauto. }
        rewrite (try_add_tip_unfold POW l2 (tips s) id _ F2 CH2 W2). simpl.
        apply (tips_improve POW l id x c (tips s) W Fx (IMP c) CH T).
    + (* a block that is in the tree already *)
      inversion E0; subst a; clear E0. rewrite Fx in E. bind_inv E. destruct a as [c b]. simpl in E.
      destruct (raise_validity_fl _ _ _ _ _ E0) as (RB & RP & RC & _ & RD).
      destruct (raise_validity_level _ _ _ _ _ E0) as (RL & RF & _).
      set (l := blocks s) in *.
      assert (Lx : (1 <= level (bst x))%N).
      { unfold lv_ok in L. rewrite Forall_forall in L. destruct (L x (find_blk_In _ _ _ Fx)) as [L1 _]. auto. }
      assert (CC : can_be_tip POW c = can_be_tip POW (bst x)).
      { rewrite !CP. rewrite RF, RD. f_equal. f_equal.
        replace (1 <=? level c)%N with true by (symmetry; apply N.leb_le; lia).
        symmetry. apply N.leb_le. exact Lx. }
      assert (CB : cb_eq POW l (upd id (fun _ => c) l)).
      { apply cbt_upd. intros y Fy. rewrite Fx in Fy. inversion Fy; subst y. exact CC. }
      pose proof (tips_ok_cb _ _ _ _ W CB T) as T2.
      assert (W2 : wf (upd id (fun _ => c) l)) by (eapply same_skel_wf; [apply upd_skel|auto]).
      destruct (negb (is_valid L_TREE (bst p))) eqn:V.
      * inversion E; subst s'; clear E. simpl. rewrite upd_upd.
        assert (Fd : failed (bst p) = true).
        { unfold is_valid in V. destruct (failed (bst p)); auto. simpl in V. exfalso.
          unfold lv_ok in L. rewrite Forall_forall in L. destruct (L p (find_blk_In _ _ _ Fp)) as [La _]. specialize (La Dp).
          unfold valid_upto, L_TREE in V. apply negb_true_iff, N.leb_gt in V. lia. }
        pose proof (fl_ok_find l W F id x p0 p Fx Px Fp Fd) as Cx. cbv beta.
        apply (tips_ok_cb POW l _ (tips s) W); [|exact T]. apply cbt_upd. intros y Fy. rewrite Fx in Fy. inversion Fy; subst y.
        rewrite (can_be_tip_fchild POW (bst x) Cx). apply can_be_tip_fchild. reflexivity.
      * inversion E; subst s'; clear E. rewrite (proj1 (pow_determine_best_blocks _ id)), pow_determine_best_tips. simpl. rewrite K.
        apply try_add_tip_ok; auto.
  - (* a new block *)
    destruct (find_blk parent (blocks s)) as [p|] eqn:Fp; [|inversion E; subst; auto].
    destruct (deleted (bst p)) eqn:Dp; [inversion E; subst; auto|].
    bind_inv E. unfold insert_header in E0. rewrite Fx, Fp, K in E0.
    bind_inv E0. destruct a0 as [c1 b1]. inversion E0; subst a; clear E0. simpl in E. rewrite N.eqb_refl in E.
    match goal with R : raise_validity _ ?x0 _ = Done _ |- _ => set (X0 := x0) in * end.
    set (l := blocks s) in *.
    assert (W0 : wf (X0 :: l)).
    { simpl. split; auto. split; auto. rewrite Fp. discriminate. }
    assert (C0 : can_be_tip POW (bst X0) = false) by (apply level0_not_tip; reflexivity).
    assert (TA : try_add_tip POW (X0 :: l) (tips s) id = tips s).
    { apply try_add_tip_noop. unfold cbt. simpl. rewrite N.eqb_refl. exact C0. }
    rewrite TA in E.
    bind_inv E. destruct a as [c b]. simpl in E. rewrite N.eqb_refl in E. simpl in E.
    rewrite (upd_notfound id _ l Fx) in E.
    pose proof (tips_ok_cons POW l X0 (tips s) W0 C0 T) as T0.
    assert (CH : forall c0 y, find_blk c0 (X0 :: l) = Some y -> bparent y = Some id -> can_be_tip POW (bst y) = false).
    { intros c0 y Fc P. exfalso. simpl in Fc. destruct (N.eqb_spec id c0) as [Ec|Ec].
      - inversion Fc; subst y. simpl in P. inversion P. subst parent. congruence.
      - apply (wf_parent_found l W c0 y id Fc P). exact Fx. }
    assert (F0 : find_blk id (X0 :: l) = Some X0) by (simpl; rewrite N.eqb_refl; reflexivity).
    destruct (negb (is_valid L_TREE (bst p))).
    + inversion E; subst s'; clear E. simpl. rewrite (upd_notfound id _ l Fx).
      apply tips_ok_cons; [| |exact T].
      * eapply same_skel_wf; [|exact W0]. unfold same_skel. reflexivity.
      * apply can_be_tip_fchild. reflexivity.
    + inversion E; subst s'; clear E. rewrite (proj1 (pow_determine_best_blocks _ id)), pow_determine_best_tips. simpl.
      set (l2 := with_st X0 c :: l).
      assert (E2 : upd id (fun _ => c) (X0 :: l) = l2).
      { unfold l2. simpl. rewrite N.eqb_refl. rewrite (upd_notfound id _ l Fx). reflexivity. }
      assert (W2 : wf l2) by (eapply same_skel_wf; [|exact W0]; unfold same_skel; reflexivity).
      assert (F2 : find_blk id l2 = Some (with_st X0 c)) by (unfold l2; simpl; rewrite N.eqb_refl; reflexivity).
      assert (CH2 : forall c0 y, find_blk c0 l2 = Some y -> bparent y = Some id -> can_be_tip POW (bst y) = false).
      { intros c0 y Fc P. unfold l2 in Fc. simpl in Fc. destruct (N.eqb_spec id c0) as [Ec|Ec].
        - exfalso. inversion Fc; subst y. simpl in P. inversion P. subst parent. congruence.
        - apply (CH c0 y); auto. simpl. rewrite (proj2 (N.eqb_neq _ _) Ec). exact Fc. }
      rewrite K. change (with_st (with_st X0 c1) c :: l) with l2.
      rewrite (try_add_tip_unfold POW l2 (tips s) id _ F2 CH2 W2). simpl.
      pose proof (tips_improve POW (X0 :: l) id X0 c (tips s) W0 F0) as TI. rewrite E2 in TI. simpl in TI.
      apply TI; auto. intros H. exfalso. rewrite level0_not_tip in H; [discriminate|reflexivity].
Qed.

(* ------------------------------------------------------------------ the tips conjunct for EVERY operation *)
Theorem step_out_tips s o s' res : Inv_flags s -> S3_ok (blocks s) -> Tips_ok s ->
  step_out s o = Done (s', res) -> Tips_ok s'.
Proof.
  intros I S3 T E. destruct o; try (eapply step_out_tips_partial; eauto; exact Logic.I).
  unfold Tips_ok in *. unfold step_out in E. destruct (tkind s) eqn:K.
  - destruct (alt_hdr_tips_ok _ _ _ _ _ I S3 K T E) as [T' K']. rewrite K'. exact T'.
  - destruct (pow_hdr_tips_ok _ _ _ _ _ _ I S3 K T E) as [T' K']. rewrite K'. exact T'.
Qed.

(* Inv_tree, the part proved for the model: flags + S3 + tips *)
Definition Inv_tree (s : tree) : Prop := Inv_flags s /\ S3_ok (blocks s) /\ Tips_ok s.

Theorem Inv_tree_init_alt h : Inv_tree (alt_init h).
Proof. split; [apply alt_init_inv|]. split; [apply S3_init_alt|apply init_tips_ok_alt]. Qed.
Theorem Inv_tree_init_pow h w : Inv_tree (pow_init h w).
Proof. split; [apply pow_init_inv|]. split; [apply S3_init_pow|apply init_tips_ok_pow]. Qed.

Theorem Inv_tree_step s o : Inv_tree s -> Inv_tree (step s o).
Proof.
  intros (I & S3 & T). split; [apply step_inv, I|]. split; [apply step_S3; auto|].
  unfold step. destruct (step_out s o) as [[s1 r]| |] eqn:E; auto. eapply step_out_tips; eauto.
Qed.

Theorem Inv_tree_run ops : forall s, Inv_tree s -> Inv_tree (run s ops).
Proof.
  unfold run. induction ops as [|o r IH]; simpl; intros s I; auto. apply IH, Inv_tree_step, I.
Qed.
