(** Tree/TreeTipsOps — the tips conjunct is preserved by setState, invalidateSubtree and removeSubtree. *)
From Coq Require Import ZArith NArith List Bool Lia.
From VB Require Import Tree.TreeDefs Tree.TreeInv Tree.TreePass Tree.TreeProofs Tree.TreeExact Tree.TreeMono Tree.TreeSteps Tree.TreeTips.
Import ListNotations.

(* same skeleton and the same canBeATip everywhere *)
Definition cb_eq (k : kind) (l l' : list blk) : Prop := same_skel l l' /\ forall p, cbt k l' p = cbt k l p.

Lemma cb_eq_refl k l : cb_eq k l l.
Proof. split; [apply same_skel_refl|auto]. Qed.
Lemma cb_eq_trans k a b c : cb_eq k a b -> cb_eq k b c -> cb_eq k a c.
Proof. intros [S1 C1] [S2 C2]. split; [eapply same_skel_trans; eauto|]. intros p. rewrite C2, C1. reflexivity. Qed.

Lemma cbt_upd k id f l : (forall y, find_blk id l = Some y -> can_be_tip k (f (bst y)) = can_be_tip k (bst y)) ->
  cb_eq k l (upd id f l).
Proof.
  intros H. split; [apply upd_skel|]. intros p. unfold cbt. rewrite find_upd.
  destruct (find_blk p l) as [y|] eqn:F; simpl; auto.
  destruct (N.eqb_spec (bid y) id) as [E|E]; simpl; auto.
  apply H. rewrite <- E, (find_blk_bid _ _ _ F). exact F.
Qed.

Lemma tips_ok_cb k l l' tps : wf l -> cb_eq k l l' -> tips_ok k l tps -> tips_ok k l' tps.
Proof. intros W [S C]. apply tips_ok_ext; auto. Qed.

Lemma raise_validity_level l x u c b : raise_validity l x u = Done (c, b) ->
  (level (bst x) <= level c)%N /\ failed c = failed (bst x) /\ deleted c = deleted (bst x).
Proof.
  unfold raise_validity. destruct (fpop (bst x)).
  - intros H; inversion H; subst. repeat split; auto. lia.
  - destruct (level (bst x) <? u)%N eqn:L.
    + apply N.ltb_lt in L. destruct (bparent x) as [p|].
      * destruct (st_of l p) as [ps|]; [|discriminate]. destruct (u <=? level ps)%N; [|discriminate].
        intros H; inversion H; subst; simpl. repeat split; auto. lia.
      * intros H; inversion H; subst; simpl. repeat split; auto. lia.
    + intros H; inversion H; subst. repeat split; auto. lia.
Qed.

(* ------------------------------------------------------------------ the ALT state machine does not change canBeATip *)
Lemma unapply_block_cb l ap id l' ap' : unapply_block (l, ap) id = Done (l', ap') -> cb_eq ALT l l'.
Proof.
  unfold unapply_block. destruct (find_blk id l) as [x|]; [|discriminate].
  destruct (bparent x); [|discriminate].
  intros H. repeat bind_inv H. inversion H; subst. apply cbt_upd. intros y _. reflexivity.
Qed.

Lemma unapply_list_cb ids : forall l ap l' ap', unapply_list (l, ap) ids = Done (l', ap') -> cb_eq ALT l l'.
Proof.
  induction ids as [|i r IH]; simpl; intros l ap l' ap' H.
  - inversion H; subst. apply cb_eq_refl.
  - bind_inv H. destruct a as [l1 ap1].
    eapply cb_eq_trans; [eapply unapply_block_cb; eauto | eapply IH; eauto].
Qed.

Lemma apply_block_cb l ap id l' ap' ok : apply_block (l, ap) id = Done (l', ap', ok) -> cb_eq ALT l l'.
Proof.
  unfold apply_block. destruct (find_blk id l) as [x|] eqn:F; [|discriminate].
  destruct (bparent x); [|discriminate]. destruct (st_of l n) as [ps|]; [|discriminate].
  intros H. repeat bind_inv H.
  destruct (negb (is_valid L_TREE (bst x))).
  - inversion H; subst. apply cb_eq_refl.
  - bind_inv H. unfold assert in E2. destruct (is_valid L_CONNECTED (bst x)) eqn:V; [|discriminate].
    bind_inv H.
    match goal with R : raise_validity _ _ _ = Done ?a |- _ => destruct a as [c b];
      destruct (raise_validity_level _ _ _ _ _ R) as (Lv & Fd & Dl) end.
    inversion H; subst; clear H. simpl.
    apply cbt_upd. intros y Fy. rewrite F in Fy. inversion Fy; subst y.
    change (can_be_tip ALT (set_active true c)) with
      (negb (deleted c) && (negb (failed c) && (L_CONNECTED <=? level c)%N)).
    change (can_be_tip ALT (bst x)) with
      (negb (deleted (bst x)) && (negb (failed (bst x)) && (L_CONNECTED <=? level (bst x))%N)).
    rewrite Fd, Dl. f_equal. f_equal.
    unfold is_valid, valid_upto in V. apply andb_true_iff in V. destruct V as [_ V2]. rewrite V2.
    apply N.leb_le in V2. apply N.leb_le. lia.
Qed.

Lemma apply_list_cb ids : forall l ap dn l' ap' ok, apply_list (l, ap) dn ids = Done (l', ap', ok) -> cb_eq ALT l l'.
Proof.
  induction ids as [|i r IH]; simpl; intros l ap dn l' ap' ok H.
  - inversion H; subst. apply cb_eq_refl.
  - bind_inv H. destruct a as [[l1 ap1] ok1].
    pose proof (apply_block_cb _ _ _ _ _ _ E) as F1.
    destruct ok1.
    + eapply cb_eq_trans; [exact F1|]. eapply IH; eauto.
    + bind_inv H. destruct a as [l2 ap2]. inversion H; subst. eapply unapply_list_cb; eauto.
Qed.

Lemma sm_apply_cb l ap from to l' ap' ok : sm_apply (l, ap) from to = Done (l', ap', ok) -> cb_eq ALT l l'.
Proof.
  unfold sm_apply. destruct (from =? to)%N.
  - intros H; inversion H; subst; apply cb_eq_refl.
  - simpl. destruct (st_of l to); [|discriminate]. destruct (negb (is_valid L_TREE s)).
    + intros H; inversion H; subst; apply cb_eq_refl.
    + apply apply_list_cb.
Qed.

Lemma sm_set_state_cb l ap from to l' ap' ok : sm_set_state (l, ap) from to = Done (l', ap', ok) -> cb_eq ALT l l'.
Proof.
  unfold sm_set_state. destruct (from =? to)%N.
  - intros H; inversion H; subst; apply cb_eq_refl.
  - simpl. destruct (fork_of l from to); [|discriminate]. intros H.
    bind_inv H. destruct a as [l1 ap1]. pose proof (unapply_list_cb _ _ _ _ _ E) as F1.
    bind_inv H. destruct a as [[l2 ap2] ok2]. pose proof (sm_apply_cb _ _ _ _ _ _ _ E0) as F2.
    destruct ok2.
    + inversion H; subst. eapply cb_eq_trans; eauto.
    + bind_inv H. destruct a as [[l3 ap3] ok3]. bind_inv H. inversion H; subst.
      pose proof (sm_apply_cb _ _ _ _ _ _ _ E1) as F3.
      eapply cb_eq_trans; [exact F1|]. eapply cb_eq_trans; eauto.
Qed.

Lemma alt_set_state_cb s to s1 ok : alt_set_state s to = Done (s1, ok) ->
  cb_eq ALT (blocks s) (blocks s1) /\ tips s1 = tips s /\ tkind s1 = tkind s.
Proof.
  unfold alt_set_state.
  destruct (find_blk (tip s) (blocks s)); [|discriminate]. destruct (find_blk to (blocks s)); [|discriminate].
  intros H. repeat bind_inv H.
  match goal with R : sm_set_state _ _ _ = Done ?a |- _ => destruct a as [[l1 ap1] ok1];
    pose proof (sm_set_state_cb _ _ _ _ _ _ _ R) as F end.
  destruct (st_of l1 to); [|discriminate]. destruct ok1; repeat bind_inv H; inversion H; subst; simpl; auto.
Qed.

Lemma set_state_to_cb s to s1 : set_state_to s to = Done s1 ->
  cb_eq (tkind s) (blocks s) (blocks s1) /\ tips s1 = tips s /\ tkind s1 = tkind s.
Proof.
  unfold set_state_to. destruct (tkind s) eqn:K.
  - intros H. bind_inv H. destruct a as [s2 ok]. bind_inv H. inversion H; subst.
    destruct (alt_set_state_cb _ _ _ _ E) as (C & T & K2). rewrite K in K2. auto.
  - intros H; inversion H; subst; simpl. split; [apply cb_eq_refl|auto].
Qed.

Theorem alt_set_tips_ok s id s' res : wf (blocks s) -> tkind s = ALT -> tips_ok ALT (blocks s) (tips s) ->
  alt_set s id = Done (s', res) -> tips_ok ALT (blocks s') (tips s').
Proof.
  intros W K T. unfold alt_set. destruct (find_blk id (blocks s)) as [x|]; [|discriminate].
  destruct (deleted (bst x)); [discriminate|]. destruct (negb (valid_upto L_CONNECTED (bst x))); [discriminate|].
  intros H. bind_inv H. destruct a as [s1 ok]. inversion H; subst; clear H. simpl.
  destruct (alt_set_state_cb _ _ _ _ E) as (C & Tp & _). rewrite Tp. eapply tips_ok_cb; eauto.
Qed.

(* ------------------------------------------------------------------ invalidateSubtree *)
Lemma can_be_tip_failed k st : failed st = true -> can_be_tip k st = false.
Proof. intros H. unfold can_be_tip, is_valid. rewrite H. simpl. apply andb_false_r. Qed.

Lemma update_tips_tips s ord : tips (update_tips s ord) = tips s.
Proof.
  unfold update_tips. destruct (tkind s); auto.
  revert s. induction ord as [|t r IH]; simpl; intros s; auto.
  destruct (memN t (tips s)); auto. rewrite IH. unfold pow_determine_best.
  destruct (tip s =? t)%N; auto. destruct (find_blk t (blocks s)); auto. destruct (find_blk (tip s) (blocks s)); auto.
  destruct (negb (is_valid L_TREE (bst b))); auto. destruct (bwork b0 <? bwork b)%Z; auto.
Qed.

(* the list of visited blocks of mark_pass *)
Lemma mark_vs_spec t : forall l, wf l ->
  (forall q, memN q (snd (mark_pass t l)) =
             match find_blk q l with Some y => vis (snd (fst (mark_pass t l))) y | None => false end) /\
  (forall q, memN q (snd (fst (mark_pass t l))) = true -> q = t \/ memN q (snd (mark_pass t l)) = true).
Proof.
  induction l as [|x r IH]; intros W.
  - simpl. split; auto. intros q H. rewrite orb_false_r in H. apply N.eqb_eq in H. auto.
  - pose proof W as W0. destruct W as (Wr & Hx & Hp). destruct (IH Wr) as [IH1 IH2]. clear IH.
    simpl. destruct (mark_pass t r) as [[o ct] v] eqn:M. simpl in IH1, IH2.
    assert (VX : forall c2, c2 = ct \/ c2 = bid x :: ct -> vis c2 x = vis ct x).
    { intros c2 [->| ->]; auto. unfold vis. destruct (bparent x) as [q|] eqn:Q; auto.
      rewrite memN_cons. destruct (N.eqb_spec q (bid x)) as [E2|E2]; auto.
      exfalso. apply (wf_own_parent x r q W0 Q E2). }
    assert (VY : forall q y, find_blk q r = Some y -> vis (bid x :: ct) y = vis ct y).
    { intros q y F. unfold vis. destruct (bparent y) as [p|] eqn:Q; auto. rewrite memN_cons.
      destruct (N.eqb_spec p (bid x)) as [E2|E2]; auto.
      exfalso. apply (wf_parent_not_head x r W0 q y p F Q E2). }
    fold (vis ct x). destruct (vis ct x) eqn:V; simpl.
    + split.
      * intros q. destruct (N.eqb_spec (bid x) q) as [E|E].
        -- subst q. rewrite N.eqb_refl. simpl. symmetry.
           destruct (failed (bst x)); [rewrite (VX ct); auto | rewrite (VX (bid x :: ct)); auto].
        -- rewrite (proj2 (N.eqb_neq q (bid x))); [|congruence]. simpl. rewrite IH1.
           destruct (find_blk q r) as [y|] eqn:F; auto.
           destruct (failed (bst x)); auto. symmetry. eapply VY; eauto.
      * intros q H.
        destruct (failed (bst x)).
        -- destruct (IH2 q H) as [->|K]; auto. right. rewrite K. apply orb_true_r.
        -- simpl in H. apply orb_true_iff in H. destruct H as [H|H].
           ++ right. rewrite H. reflexivity.
           ++ destruct (IH2 q H) as [->|K]; auto. right. rewrite K. apply orb_true_r.
    + split; auto. intros q. destruct (N.eqb_spec (bid x) q) as [E|E].
      * subst q. rewrite IH1, Hx. symmetry. exact V.
      * apply IH1.
Qed.

Theorem invalidate_tips_ok s id r ord s' : Inv_flags s -> tips_ok (tkind s) (blocks s) (tips s) ->
  invalidate s id r ord = Done s' -> tips_ok (tkind s') (blocks s') (tips s') /\ tkind s' = tkind s.
Proof.
  intros I T. pose proof I as [W H F L]. unfold invalidate.
  destruct (find_blk id (blocks s)) as [x|] eqn:Fx; [|discriminate].
  destruct (deleted (bst x)) eqn:Dx; [discriminate|]. destruct (bparent x) as [pp|] eqn:Px; [|discriminate].
  destruct (has_reason r (bst x)); [intros E; inversion E; subst; auto|].
  intros E. bind_inv E.
  destruct (negb (is_valid L_TREE (bst x))) eqn:V.
  - inversion E; subst s'; clear E. simpl. split; auto.
    assert (Fd : failed (bst x) = true).
    { unfold is_valid in V. destruct (failed (bst x)); auto. simpl in V. exfalso.
      unfold lv_ok in L. rewrite Forall_forall in L. destruct (L x (find_blk_In _ _ _ Fx)) as [L1 _]. specialize (L1 Dx).
      unfold valid_upto, L_TREE in V. apply negb_true_iff, N.leb_gt in V. lia. }
    assert (CB : cb_eq (tkind s) (blocks s) (upd id (set_reason r true) (blocks s))).
    { apply cbt_upd. intros y Fy. rewrite Fx in Fy. inversion Fy; subst y.
      rewrite !can_be_tip_failed; auto. apply set_reason_true_failed. }
    pose proof (tips_ok_cb _ _ _ _ W CB T) as T1.
    intros q. rewrite memN_set_remove, T1.
    destruct (N.eqb_spec id q) as [<-|Nq]; [|apply andb_true_r].
    rewrite andb_false_r. symmetry. unfold spec. rewrite find_upd, Fx. simpl.
    rewrite (find_blk_bid _ _ _ Fx), N.eqb_refl. simpl. unfold is_valid_tip.
    rewrite can_be_tip_failed; auto. apply set_reason_true_failed.
  - apply negb_false_iff in V.
    assert (S1 : exists s1, (if on_chain s id then set_state_to s pp else Done s) = Done s1 /\
                 cb_eq (tkind s) (blocks s) (blocks s1) /\ tips s1 = tips s /\ fl_eq (blocks s) (blocks s1)).
    { destruct (on_chain s id).
      - destruct (set_state_to s pp) as [s1| |] eqn:SS; simpl in E; try discriminate.
        exists s1. destruct (set_state_to_cb _ _ _ SS) as (C & Tp & _). destruct (set_state_to_fl _ _ _ W SS). auto.
      - exists s. repeat split; auto using cb_eq_refl, fl_eq_refl, same_skel_refl. }
    destruct S1 as (s1 & ES & CB & Tp & FE). rewrite ES in E. simpl in E.
    destruct (inv_of_fl_eq _ _ I FE) as (W1 & _ & _ & _).
    pose proof (tips_ok_cb _ _ _ _ W CB T) as T1. rewrite <- Tp in T1.
    destruct (fl_eq_sym_flags _ _ FE id x Fx) as (x1 & Fx1 & _ & _ & _ & Kx & _).
    assert (Px1 : bparent x1 = Some pp) by (unfold skel in Kx; congruence).
    set (l := blocks s1) in *. set (l1 := upd id (set_reason r true) l) in *.
    assert (Wl1 : wf l1) by (eapply same_skel_wf; [apply upd_skel|auto]).
    pose proof (mark_vs_spec id l1 Wl1) as [VS1 VS2].
    pose proof (mark_pass_gpass id l1) as [G1 G2].
    destruct (mark_pass id l1) as [[l2 c] vs] eqn:M. simpl in G1, G2, VS1, VS2.
    inversion E; subst s'; clear E.
    destruct (update_tips_blocks {| tkind := tkind s; blocks := l2;
                tips := try_add_tip (tkind s) l2 (filter (fun t : N => negb (memN t vs)) (set_remove id (tips s1))) pp;
                tip := tip s1; applied := applied s1 |} ord) as [UB UK].
    rewrite UB, UK, update_tips_tips. simpl. split; auto.
    assert (Fx2 : find_blk id l1 = Some (with_st x1 (set_reason r true (bst x1)))).
    { unfold l1. rewrite find_upd, Fx1. simpl. rewrite (find_blk_bid _ _ _ Fx1), N.eqb_refl. reflexivity. }
    assert (SK12 : same_skel l l2) by (rewrite G1; eapply same_skel_trans; [apply upd_skel|apply gpass_skel]).
    apply (tips_worsen (tkind s) l l2 (tips s1) _ (fun q => (q =? id)%N || memN q vs) pp); auto.
    + (* outside D nothing changes *)
      intros q Dq. apply orb_false_iff in Dq. destruct Dq as [Nq Vq]. apply N.eqb_neq in Nq.
      destruct (find_blk q l) as [y|] eqn:Fq.
      * assert (Fq1 : find_blk q l1 = Some y).
        { unfold l1. rewrite find_upd, Fq. simpl. rewrite (find_blk_bid _ _ _ Fq).
          rewrite (proj2 (N.eqb_neq _ _) Nq). reflexivity. }
        rewrite G1. apply gpass_unvisited; auto. rewrite <- G2. rewrite VS1, Fq1 in Vq. exact Vq.
      * pose proof (same_skel_find _ _ SK12 q) as SF. rewrite Fq in SF. destruct (find_blk q l2); [contradiction|reflexivity].
    + (* inside D nothing can be a tip *)
      intros q Dq. unfold cbt. rewrite G1.
      destruct (find_blk q l1) as [y1|] eqn:Fq1.
      * destruct (gpass_find (set_fchild true) failed id l1 Wl1 q y1 Fq1) as [HF _]. rewrite HF.
        apply orb_true_iff in Dq. destruct Dq as [Eq|Vq].
        -- apply N.eqb_eq in Eq. subst q. rewrite Fx2 in Fq1. inversion Fq1; subst y1.
           destruct (vis _ _); simpl; apply can_be_tip_failed.
           ++ unfold failed. simpl. rewrite orb_true_r. reflexivity.
           ++ apply set_reason_true_failed.
        -- rewrite VS1, Fq1, G2 in Vq. rewrite Vq. simpl. apply can_be_tip_failed.
           unfold failed. simpl. rewrite orb_true_r. reflexivity.
      * pose proof (same_skel_find _ _ (gpass_skel (set_fchild true) failed id l1) q) as SF. rewrite Fq1 in SF.
        destruct (find_blk q (fst (gpass (set_fchild true) failed id l1))); [contradiction|reflexivity].
    + (* D hangs below pp *)
      intros q y p Fq Dq Pq. apply orb_true_iff in Dq. destruct Dq as [Eq|Vq].
      * apply N.eqb_eq in Eq. subst q. rewrite Fx1 in Fq. inversion Fq; subst y. right. congruence.
      * left. pose proof (same_skel_find _ _ (upd_skel id (set_reason r true) l) q) as SF. fold l1 in SF. rewrite Fq in SF.
        destruct (find_blk q l1) as [y1|] eqn:Fq1; [|contradiction].
        rewrite VS1, Fq1 in Vq. unfold vis in Vq.
        assert (P1 : bparent y1 = Some p) by (unfold skel in SF; congruence). rewrite P1 in Vq.
        destruct (VS2 p Vq) as [->|K]; [rewrite N.eqb_refl; reflexivity|rewrite K; apply orb_true_r].
    + (* pp is outside D *)
      apply orb_false_iff. split.
      * apply N.eqb_neq. eapply wf_parent_ne; eauto.
      * destruct (memN pp vs) eqn:Vp; auto. exfalso.
        rewrite VS1 in Vp. destruct (find_blk pp l1) as [yp|] eqn:Fp1; [|discriminate]. rewrite G2 in Vp.
        destruct (gpass_vis_sub _ _ _ _ Wl1 pp yp Fp1 Vp) as [S _].
        rewrite (sub_parent_false l1 id Wl1 _ pp Fx2) in S; [discriminate|]. simpl. exact Px1.
    + intros q. rewrite memN_filter, memN_set_remove. rewrite (N.eqb_sym id q).
      destruct (memN q (tips s1)), (q =? id)%N, (memN q vs); reflexivity.
Qed.

(* ------------------------------------------------------------------ removeSubtree *)
Lemma remove_pass_spec t : forall l, wf l ->
  (forall q, find_blk q (fst (remove_pass t l)) =
     option_map (fun y => if memN q (snd (remove_pass t l)) then with_st y (st_delete (bst y)) else y) (find_blk q l)) /\
  (forall q, memN q (snd (remove_pass t l)) = true ->
     exists y, find_blk q l = Some y /\
       (q = t \/ exists p, bparent y = Some p /\ memN p (snd (remove_pass t l)) = true)) /\
  (forall q, memN q (snd (remove_pass t l)) = true -> sub l t q = true).
Proof.
  induction l as [|x r IH]; intros W.
  - simpl. repeat split; intros; discriminate.
  - pose proof W as W0. destruct W as (Wr & Hx & Hp). destruct (IH Wr) as (A & B & C). clear IH.
    simpl. destruct (remove_pass t r) as [o v] eqn:M. simpl in A, B, C.
    assert (NV : memN (bid x) v = false).
    { destruct (memN (bid x) v) eqn:E; auto. destruct (B _ E) as (y & Fy & _). congruence. }
    set (visit := (bid x =? t)%N || (match bparent x with Some p => memN p v | None => false end && negb (deleted (bst x)))).
    destruct visit eqn:V; simpl.
    + split; [|split].
      * intros q. destruct (N.eqb_spec (bid x) q) as [E|E].
        -- subst q. rewrite N.eqb_refl. reflexivity.
        -- rewrite (proj2 (N.eqb_neq q (bid x))); [|congruence]. simpl. apply A.
      * intros q H. apply orb_true_iff in H. destruct H as [H|H].
        -- apply N.eqb_eq in H. subst q. rewrite N.eqb_refl. exists x. split; auto.
           unfold visit in V. apply orb_true_iff in V. destruct V as [V|V].
           ++ left. apply N.eqb_eq in V. auto.
           ++ right. apply andb_true_iff in V. destruct V as [V _].
              destruct (bparent x) as [p|]; [|discriminate]. exists p. split; auto. rewrite V. apply orb_true_r.
        -- destruct (B q H) as (y & Fy & K). exists y.
           destruct (N.eqb_spec (bid x) q) as [E|E]; [congruence|]. split; auto.
           destruct K as [K|(p & Pp & Mp)]; auto. right. exists p. split; auto. rewrite Mp. apply orb_true_r.
      * intros q H. apply orb_true_iff in H. destruct H as [H|H].
        -- apply N.eqb_eq in H. subst q.
           unfold visit in V. apply orb_true_iff in V. destruct V as [V|V].
           ++ apply N.eqb_eq in V. rewrite <- V. eapply sub_self. simpl. rewrite N.eqb_refl. reflexivity.
           ++ apply andb_true_iff in V. destruct V as [V _].
              destruct (bparent x) as [p|] eqn:Q; [|discriminate].
              rewrite (sub_step (x :: r) t W0 (bid x) x p); [|simpl; rewrite N.eqb_refl; reflexivity|exact Q].
              apply orb_true_iff. right. unfold sub. rewrite path_skip; [apply (C p V)|].
              intros E. apply (wf_own_parent x r p W0 Q). auto.
        -- destruct (B q H) as (y & Fy & _). unfold sub. rewrite path_skip; [apply (C q H)|]. congruence.
    + split; [|split].
      * intros q. destruct (N.eqb_spec (bid x) q) as [E|E].
        -- subst q. rewrite NV. reflexivity.
        -- apply A.
      * intros q H. destruct (B q H) as (y & Fy & K). exists y.
        destruct (N.eqb_spec (bid x) q) as [E|E]; [congruence|]. auto.
      * intros q H. destruct (B q H) as (y & Fy & _). unfold sub. rewrite path_skip; [apply (C q H)|]. congruence.
Qed.

Theorem remove_subtree_tips_ok s id ord s' : Inv_flags s -> tips_ok (tkind s) (blocks s) (tips s) ->
  remove_subtree s id ord = Done s' -> tips_ok (tkind s') (blocks s') (tips s') /\ tkind s' = tkind s.
Proof.
  intros I T. pose proof I as [W H F L]. unfold remove_subtree.
  destruct (find_blk id (blocks s)) as [x|] eqn:Fx; [|discriminate].
  destruct (deleted (bst x)) eqn:Dx; [discriminate|]. destruct (bparent x) as [pp|] eqn:Px; [|discriminate].
  intros E. bind_inv E.
  assert (S1 : cb_eq (tkind s) (blocks s) (blocks a) /\ tips a = tips s /\ fl_eq (blocks s) (blocks a)).
  { destruct (on_chain s id).
    - destruct (set_state_to_cb _ _ _ E0) as (C & Tp & _). destruct (set_state_to_fl _ _ _ W E0). auto.
    - inversion E0; subst a. repeat split; auto using cb_eq_refl, fl_eq_refl, same_skel_refl. }
  destruct S1 as (CB & Tp & FE).
  destruct (inv_of_fl_eq _ _ I FE) as (W1 & _ & _ & _).
  pose proof (tips_ok_cb _ _ _ _ W CB T) as T1. rewrite <- Tp in T1.
  destruct (fl_eq_sym_flags _ _ FE id x Fx) as (x1 & Fx1 & _ & _ & _ & Kx & _).
  assert (Px1 : bparent x1 = Some pp) by (unfold skel in Kx; congruence).
  set (l := blocks a) in *.
  destruct (remove_pass_spec id l W1) as (RA & RB & RC).
  pose proof (remove_pass_fl_le id l) as RL.
  destruct (remove_pass id l) as [l2 vs] eqn:M. simpl in RA, RB, RC, RL.
  inversion E; subst s'; clear E.
  assert (K2 : tips_ok (tkind s) l2 (try_add_tip (tkind s) l2 (filter (fun t => negb (memN t vs)) (tips a)) pp)).
  { apply (tips_worsen (tkind s) l l2 (tips a) _ (fun q => memN q vs) pp); auto.
    - apply fl_le_skel, RL.
    - intros q Dq. rewrite RA, Dq. destruct (find_blk q l); reflexivity.
    - intros q Dq. unfold cbt. rewrite RA, Dq. destruct (find_blk q l); simpl; auto.
    - intros q y p Fq Dq Pq. destruct (RB q Dq) as (y' & Fy' & K). rewrite Fq in Fy'. inversion Fy'; subst y'.
      destruct K as [->|(p' & Pp' & Mp')].
      + right. rewrite Fx1 in Fq. inversion Fq; subst. congruence.
      + left. congruence.
    - destruct (memN pp vs) eqn:Vp; auto. exfalso.
      specialize (RC pp Vp). rewrite (sub_parent_false l id W1 x1 pp Fx1 Px1) in RC. discriminate.
    - intros q. apply memN_filter. }
  destruct (on_chain s id); simpl; auto.
  destruct (update_tips_blocks {| tkind := tkind s; blocks := l2;
              tips := try_add_tip (tkind s) l2 (filter (fun t : N => negb (memN t vs)) (tips a)) pp;
              tip := tip a; applied := applied a |} ord) as [UB UK].
  rewrite UB, UK, update_tips_tips. simpl. auto.
Qed.
