(** Tree/TreeDefs — executable model of BaseBlockTree (base_block_tree.hpp),
    BlockIndex status algebra (block_index.hpp, block_status.hpp) and its two
    instantiations used by C07/C08:

      ALT : AltBlockTree restricted to blocks with EMPTY PopData
            (acceptBlockHeader / acceptBlock / setState / invalidateSubtree /
             revalidateSubtree / removeSubtree / removePayloads)
      POW : BlockTree<BtcBlock> (acceptBlockHeader with determineBestChain by
            chain work / invalidateSubtree / revalidateSubtree / removeSubtree)

    No proofs here.  Conventions
    - a block is identified by a small N id; [blocks] is stored NEWEST FIRST, so
      the parent of a block is always found in the tail behind it (pnext of a
      block = the blocks in front of it that name it as parent, deleted ones
      included, exactly as BlockIndex::pnext keeps deleted blocks);
    - the status word is a record of the bit fields of block_status.hpp;
      [encode] gives the C++ uint32 (compared with getStatus() by the harness);
    - VBK_ASSERT failures are the explicit outcome [Abort]; calls the harness
      refuses because a documented precondition does not hold are [Skip];
    - the preorder traversals of invalidateSubtree / revalidateSubtree /
      acceptBlock / removeSubtree are written as ONE pass over the blocks,
      oldest first (structural recursion on the newest-first list, the tail is
      processed first).  A block is visited iff its parent was visited and let
      the traversal continue — the same set the recursive C++ traversal visits,
      and when a block is visited none of its descendants has been visited yet
      (what tryAddTip reads).  The correspondence run validates this reading. *)
From Coq Require Import ZArith NArith List Bool.
Import ListNotations.
Local Open Scope Z_scope.

(* ------------------------------------------------------------------ status *)
Inductive kind := ALT | POW.
Inductive reason := RBlock | RPop.

(* BlockStateStatus *)
Definition L_UNKNOWN : N := 0%N.
Definition L_TREE : N := 1%N.
Definition L_CONNECTED : N := 2%N.
Definition L_MAYBE : N := 3%N.
Definition L_APPLIED : N := 4%N.   (* BLOCK_CAN_BE_APPLIED *)

Record status := mkSt {
  level : N;            (* status & BLOCK_VALID_MASK *)
  bootstrap : bool;     (* 1<<4 *)
  fblock : bool;        (* 1<<5 BLOCK_FAILED_BLOCK *)
  fpop : bool;          (* 1<<6 BLOCK_FAILED_POP *)
  fchild : bool;        (* 1<<7 BLOCK_FAILED_CHILD *)
  haspl : bool;         (* 1<<8 BLOCK_HAS_PAYLOADS *)
  active : bool;        (* 1<<9 BLOCK_ACTIVE *)
  deleted : bool        (* 1<<10 BLOCK_DELETED *)
}.

Definition b2n (b : bool) : N := if b then 1%N else 0%N.
Definition encode (s : status) : N :=
  (level s + 16 * b2n (bootstrap s) + 32 * b2n (fblock s) + 64 * b2n (fpop s) + 128 * b2n (fchild s)
   + 256 * b2n (haspl s) + 512 * b2n (active s) + 1024 * b2n (deleted s))%N.

(* status of a freshly constructed BlockIndex: BLOCK_VALID_UNKNOWN | BLOCK_DELETED *)
Definition st_new (fc : bool) : status := mkSt L_UNKNOWN false false false fc false false true.

Definition set_level l s := mkSt l (bootstrap s) (fblock s) (fpop s) (fchild s) (haspl s) (active s) (deleted s).
Definition set_bootstrap v s := mkSt (level s) v (fblock s) (fpop s) (fchild s) (haspl s) (active s) (deleted s).
Definition set_fblock v s := mkSt (level s) (bootstrap s) v (fpop s) (fchild s) (haspl s) (active s) (deleted s).
Definition set_fpop v s := mkSt (level s) (bootstrap s) (fblock s) v (fchild s) (haspl s) (active s) (deleted s).
Definition set_fchild v s := mkSt (level s) (bootstrap s) (fblock s) (fpop s) v (haspl s) (active s) (deleted s).
Definition set_haspl v s := mkSt (level s) (bootstrap s) (fblock s) (fpop s) (fchild s) v (active s) (deleted s).
Definition set_active v s := mkSt (level s) (bootstrap s) (fblock s) (fpop s) (fchild s) (haspl s) v (deleted s).
Definition set_deleted v s := mkSt (level s) (bootstrap s) (fblock s) (fpop s) (fchild s) (haspl s) (active s) v.

Definition has_reason (r : reason) (s : status) : bool := match r with RBlock => fblock s | RPop => fpop s end.
Definition set_reason (r : reason) (v : bool) (s : status) : status :=
  match r with RBlock => set_fblock v s | RPop => set_fpop v s end.
(* hasFlags(BLOCK_FAILED_MASK & ~reason) *)
Definition has_other_failure (r : reason) (s : status) : bool :=
  match r with RBlock => fpop s || fchild s | RPop => fblock s || fchild s end.

Definition failed (s : status) : bool := fblock s || fpop s || fchild s.       (* isFailed *)
Definition own_failed (s : status) : bool := fblock s || fpop s.
Definition valid_upto (l : N) (s : status) : bool := (l <=? level s)%N.         (* isValidUpTo *)
Definition is_valid (l : N) (s : status) : bool := negb (failed s) && valid_upto l s.   (* isValid(upTo) *)

(* deleteTemporarily: status = (status & BLOCK_FAILED_MASK & ~BLOCK_FAILED_POP) | BLOCK_VALID_UNKNOWN | BLOCK_DELETED
   (/repo af8cb563; before that fix BLOCK_FAILED_POP was preserved: [st_delete_v0], see corpus/C08/readd_failed_pop.txt).
   Note: the removed descendants keep their FAILED_CHILD even when the POP flag was the only failure of the removed
   block - FAILED_CHILD may therefore be stale (carried below a block that is not failed). *)
Definition st_delete (s : status) : status := mkSt L_UNKNOWN false (fblock s) false (fchild s) false false true.
Definition st_delete_v0 (s : status) : status := mkSt L_UNKNOWN false (fblock s) (fpop s) (fchild s) false false true.

Definition tip_level (k : kind) : N := match k with ALT => L_CONNECTED | POW => L_TREE end.   (* addon_t::validTipLevel *)
Definition can_be_tip (k : kind) (s : status) : bool := negb (deleted s) && is_valid (tip_level k) s.

(* ------------------------------------------------------------------ blocks *)
Record blk := mkBlk {
  bid : N;
  bparent : option N;   (* None = root *)
  bheight : Z;
  bwork : Z;            (* chainWork (POW tree); 0 in the ALT tree *)
  bst : status
}.
Definition with_st (x : blk) (s : status) : blk := mkBlk (bid x) (bparent x) (bheight x) (bwork x) s.
Definition with_work (x : blk) (w : Z) : blk := mkBlk (bid x) (bparent x) (bheight x) w (bst x).

Fixpoint find_blk (id : N) (l : list blk) : option blk :=
  match l with
  | [] => None
  | x :: r => if (bid x =? id)%N then Some x else find_blk id r
  end.

Definition upd (id : N) (f : status -> status) (l : list blk) : list blk :=
  map (fun x => if (bid x =? id)%N then with_st x (f (bst x)) else x) l.

Definition memN (a : N) (l : list N) : bool := existsb (N.eqb a) l.
Definition set_remove (a : N) (l : list N) : list N := filter (fun b => negb (N.eqb a b)) l.
Definition set_add (a : N) (l : list N) : list N := if memN a l then l else a :: l.

Definition is_child_of (p : N) (x : blk) : bool :=
  match bparent x with Some q => (q =? p)%N | None => false end.
Definition children (l : list blk) (p : N) : list blk := filter (is_child_of p) l.

(* id, parent, grand-parent, ... root (parent pointers lead into the tail) *)
Fixpoint path (l : list blk) (id : N) : list N :=
  match l with
  | [] => []
  | x :: r => if (bid x =? id)%N then id :: match bparent x with Some p => path r p | None => [] end
              else path r id
  end.

Record tree := mkTree {
  tkind : kind;
  blocks : list blk;     (* newest first; last = root *)
  tips : list N;         (* tips_ (a set) *)
  tip : N;               (* activeChain_.tip() *)
  applied : Z            (* appliedBlockCount *)
}.
Definition with_blocks s l := mkTree (tkind s) l (tips s) (tip s) (applied s).
Definition with_tips s t := mkTree (tkind s) (blocks s) t (tip s) (applied s).

Definition root_height (l : list blk) : Z := match rev l with x :: _ => bheight x | [] => 0 end.
Definition st_of (l : list blk) (id : N) : option status := option_map bst (find_blk id l).
Definition on_chain (s : tree) (id : N) : bool := memN id (path (blocks s) (tip s)).   (* activeChain_.contains *)

(* ------------------------------------------------------------------ outcomes *)
Inductive outcome (A : Type) := Done (a : A) | Skip | Abort.
Arguments Done {A} _.
Arguments Skip {A}.
Arguments Abort {A}.
Definition bind {A B} (o : outcome A) (f : A -> outcome B) : outcome B :=
  match o with Done a => f a | Skip => Skip | Abort => Abort end.
Notation "'do' x <- o ; f" := (bind o (fun x => f)) (at level 200, x pattern, o at level 100, f at level 200).
Definition assert (b : bool) : outcome unit := if b then Done tt else Abort.

Inductive result := ROk | RFailPrev | RFailChain | RStored | RConnected | RTrue | RFalse.

(* ------------------------------------------------------------------ tips *)
(* isValidTip evaluated with the children's statuses taken from [l] *)
Definition is_valid_tip (k : kind) (l : list blk) (id : N) (s : status) : bool :=
  can_be_tip k s && forallb (fun c => negb (can_be_tip k (bst c))) (children l id).

(* tryAddTip(index) *)
Definition try_add_tip (k : kind) (l : list blk) (tps : list N) (id : N) : list N :=
  match find_blk id l with
  | None => tps
  | Some x =>
    if is_valid_tip k l id (bst x)
    then set_add id (match bparent x with Some p => set_remove p tps | None => tps end)
    else tps
  end.

(* raiseValidity(upTo): (new status, raised?) ; the assert on the parent's level -> Abort *)
Definition raise_validity (l : list blk) (x : blk) (upTo : N) : outcome (status * bool) :=
  let s := bst x in
  if fpop s then Done (s, false)
  else if (level s <? upTo)%N then
    match bparent x with
    | None => Done (set_level upTo s, true)
    | Some p =>
      match st_of l p with
      | Some ps => if (upTo <=? level ps)%N then Done (set_level upTo s, true) else Abort
      | None => Abort
      end
    end
  else Done (s, false).

(* lowerValidity(upTo) *)
Definition lower_validity (s : status) (upTo : N) : status * bool :=
  if fpop s then (s, false)
  else if (upTo <? level s)%N then (set_level upTo s, true) else (s, false).

(* ------------------------------------------------------------------ insertBlockHeader *)
(* precondition (checked by the callers): the parent exists and is not deleted.
   Returns the new state; a non-deleted duplicate is returned unchanged. *)
Definition insert_header (s : tree) (id parent : N) (proof : Z) : outcome tree :=
  let l := blocks s in
  match find_blk id l with
  | Some x =>
    if deleted (bst x) then
      (* restore(); tryAddTip; onBlockInserted; raiseValidity(BLOCK_VALID_TREE) *)
      let l1 := upd id (set_deleted false) l in
      let tps := try_add_tip (tkind s) l1 (tips s) id in
      match find_blk id l1 with
      | None => Abort
      | Some x1 =>
        do rv <- raise_validity l1 x1 L_TREE;
        Done (mkTree (tkind s) (upd id (fun _ => fst rv) l1) tps (tip s) (applied s))
      end
    else Done s
  | None =>
    match find_blk parent l with
    | None => Abort
    | Some p =>
      (* BlockIndex(prev): inherits BLOCK_FAILED_CHILD from a failed parent; created deleted; restore() *)
      let w := match tkind s with POW => bwork p + proof | ALT => 0 end in
      let x0 := mkBlk id (Some parent) (bheight p + 1) w (set_deleted false (st_new (failed (bst p)))) in
      let l1 := x0 :: l in
      let tps := try_add_tip (tkind s) l1 (tips s) id in
      do rv <- raise_validity l1 x0 L_TREE;
      Done (mkTree (tkind s) (with_st x0 (fst rv) :: l) tps (tip s) (applied s))
    end
  end.

(* ------------------------------------------------------------------ ALT: acceptBlockHeader *)
Definition alt_hdr (s : tree) (id parent : N) : outcome (tree * result) :=
  match find_blk id (blocks s) with
  | Some x => if deleted (bst x) then
      (* a deleted block keeps its own previousBlock *)
      match bparent x with
      | None => Skip
      | Some p0 =>
        match find_blk p0 (blocks s) with
        | None => Abort
        | Some p => if deleted (bst p) then Done (s, RFailPrev) else
          do s1 <- insert_header s id p0 0;
          match st_of (blocks s1) id with
          | None => Abort
          | Some st => if is_valid L_TREE st
                       then Done (with_tips s1 (try_add_tip (tkind s1) (blocks s1) (tips s1) id), ROk)
                       else Done (s1, RFailChain)
          end
        end
      end
    else Skip                                       (* Instance::hdr: "SKIP known" *)
  | None =>
    match find_blk parent (blocks s) with
    | None => Done (s, RFailPrev)
    | Some p => if deleted (bst p) then Done (s, RFailPrev) else
      do s1 <- insert_header s id parent 0;
      match st_of (blocks s1) id with
      | None => Abort
      | Some st => if is_valid L_TREE st
                   then Done (with_tips s1 (try_add_tip (tkind s1) (blocks s1) (tips s1) id), ROk)
                   else Done (s1, RFailChain)
      end
    end
  end.

(* ------------------------------------------------------------------ ALT: acceptBlock with empty PopData *)
(* connectBlock(x) evaluated while the blocks in [l0] in front of x are still untouched *)
Definition connect_block (l0 : list blk) (older : list blk) (tps : list N) (x : blk) : outcome (blk * list N) :=
  let s := bst x in
  do _ <- assert (haspl s);
  do _ <- assert (negb (valid_upto L_CONNECTED s));
  do _ <- assert (negb (active s));
  do _ <- assert (match bparent x with Some p => match st_of older p with Some ps => valid_upto L_CONNECTED ps | None => false end
                                      | None => false end);
  do _ <- assert (forallb (fun c => negb (valid_upto L_CONNECTED (bst c))) (children l0 (bid x)));
  do rv <- raise_validity older x L_CONNECTED;
  do _ <- assert (snd rv);
  let x' := with_st x (fst rv) in
  (* tryAddTip(&index): children are still unconnected, read from l0 *)
  let tps' := if is_valid_tip ALT l0 (bid x) (bst x')
              then set_add (bid x) (match bparent x with Some p => set_remove p tps | None => tps end) else tps in
  Done (x', tps').

(* the blocks connected by acceptBlock(index): index itself (it has just received HAS_PAYLOADS)
   and every descendant reachable through blocks that carry HAS_PAYLOADS.
   Result: new blocks, tips, ids connected by this call *)
Fixpoint connect_pass (l0 : list blk) (target : N) (l : list blk) (tps : list N) : outcome (list blk * list N * list N) :=
  match l with
  | [] => Done ([], tps, [])
  | x :: older =>
    do r <- connect_pass l0 target older tps;
    let '(older', tps1, cont) := r in
    let visit := (bid x =? target)%N ||
                 (match bparent x with Some p => memN p cont | None => false end && haspl (bst x)) in
    if visit then
      do c <- connect_block l0 older' tps1 x;
      Done (fst c :: older', snd c, bid x :: cont)
    else Done (x :: older', tps1, cont)
  end.

Definition alt_body (s : tree) (id : N) : outcome (tree * result) :=
  match find_blk id (blocks s) with
  | None => Skip
  | Some x =>
    let st := bst x in
    if deleted st then Skip else
    match bparent x with
    | None => Skip                                                  (* root *)
    | Some p =>
      if haspl st then Skip else
      if negb (valid_upto L_TREE st) then Skip else
      (* setPayloads *)
      do _ <- assert (negb (active st));
      let l1 := upd id (set_haspl true) (blocks s) in
      match st_of l1 p with
      | None => Abort
      | Some ps =>
        if negb (valid_upto L_CONNECTED ps) then Done (with_blocks s l1, RStored)
        else
          do r <- connect_pass l1 id l1 (tips s);
          let '(l2, tps, _) := r in
          Done (mkTree (tkind s) l2 tps (tip s) (applied s), RConnected)
      end
    end
  end.

(* ------------------------------------------------------------------ ALT: PopStateMachine with empty payloads *)
Fixpoint take_until (a : N) (l : list N) : list N :=    (* elements before the first occurrence of a *)
  match l with
  | [] => []
  | b :: r => if (a =? b)%N then [] else b :: take_until a r
  end.

Definition fork_of (l : list blk) (from to : N) : option N :=      (* getForkBlock *)
  let pf := path l from in
  find (fun a => memN a pf) (path l to).

(* unapplyBlock *)
Definition unapply_block (st : list blk * Z) (id : N) : outcome (list blk * Z) :=
  let '(l, ap) := st in
  match find_blk id l with
  | None => Abort
  | Some x =>
    match bparent x with
    | None => Abort                                          (* cannot unapply the root block *)
    | Some p =>
      do _ <- assert (active (bst x));
      do _ <- assert (match st_of l p with Some ps => active ps | None => false end);
      do _ <- assert (0 <? ap);
      Done (upd id (set_active false) l, ap - 1)
    end
  end.

Fixpoint unapply_list (st : list blk * Z) (ids : list N) : outcome (list blk * Z) :=
  match ids with
  | [] => Done st
  | i :: r => do st1 <- unapply_block st i; unapply_list st1 r
  end.

(* applyBlock: Done (state, true) | Done (state unchanged, false) | Abort *)
Definition apply_block (st : list blk * Z) (id : N) : outcome (list blk * Z * bool) :=
  let '(l, ap) := st in
  match find_blk id l with
  | None => Abort
  | Some x =>
    match bparent x with
    | None => Abort
    | Some p =>
      match st_of l p with
      | None => Abort
      | Some ps =>
        do _ <- assert (active ps);
        do _ <- assert (negb (active (bst x)));
        do _ <- assert (negb (fchild (bst x)));
        if negb (is_valid L_TREE (bst x)) then Done (l, ap, false)
        else
          do _ <- assert (is_valid L_CONNECTED (bst x));
          let upTo := if is_valid L_APPLIED ps && (bheight x =? root_height l + ap) then L_APPLIED else L_MAYBE in
          do rv <- raise_validity l x upTo;
          Done (upd id (fun _ => set_active true (fst rv)) l, ap + 1, true)
      end
    end
  end.

(* apply the ids (oldest first); on failure roll back the ones already applied *)
Fixpoint apply_list (st : list blk * Z) (done_rev : list N) (ids : list N) : outcome (list blk * Z * bool) :=
  match ids with
  | [] => Done (st, true)
  | i :: r =>
    do a <- apply_block st i;
    let '(l, ap, ok) := a in
    if ok then apply_list (l, ap) (i :: done_rev) r
    else do st1 <- unapply_list st done_rev; Done (st1, false)
  end.

(* sm_.apply(from, to): from is an ancestor of to *)
Definition sm_apply (st : list blk * Z) (from to : N) : outcome (list blk * Z * bool) :=
  if (from =? to)%N then Done (st, true)
  else
    match st_of (fst st) to with
    | None => Abort
    | Some ts =>
      if negb (is_valid L_TREE ts) then Done (st, false)
      else apply_list st [] (rev (take_until from (path (fst st) to)))
    end.

(* sm_.setState(from, to) *)
Definition sm_set_state (st : list blk * Z) (from to : N) : outcome (list blk * Z * bool) :=
  if (from =? to)%N then Done (st, true)
  else
    match fork_of (fst st) from to with
    | None => Abort
    | Some fork =>
      do st1 <- unapply_list st (take_until fork (path (fst st) from));
      do a <- sm_apply st1 fork to;
      let '(st2, ok) := a in
      if ok then Done (st2, true)
      else
        do b <- sm_apply st2 fork from;
        let '(st3, ok2) := b in
        do _ <- assert ok2;
        Done (st3, false)
    end.

(* AltBlockTree::setState(index) = comparator.setState + overrideTip *)
Definition alt_set_state (s : tree) (to : N) : outcome (tree * bool) :=
  let l := blocks s in
  match find_blk (tip s) l, find_blk to l with
  | Some t, Some x =>
    do _ <- assert (valid_upto L_CONNECTED (bst x));
    do _ <- assert (bheight t + 1 =? root_height l + applied s);
    do a <- sm_set_state (l, applied s) (tip s) to;
    let '(l1, ap1, ok) := a in
    match st_of l1 to with
    | None => Abort
    | Some ts =>
      if ok then
        (* overrideTip *)
        do _ <- assert (is_valid L_APPLIED ts);
        Done (mkTree (tkind s) l1 (tips s) to (Z.of_nat (length (path l1 to))), true)
      else
        do _ <- assert (negb (is_valid L_TREE ts));
        do _ <- assert (ap1 =? Z.of_nat (length (path l1 (tip s))));
        Done (mkTree (tkind s) l1 (tips s) (tip s) ap1, false)
    end
  | _, _ => Abort
  end.

(* Instance::setState guards + setState *)
Definition alt_set (s : tree) (id : N) : outcome (tree * result) :=
  match find_blk id (blocks s) with
  | None => Skip
  | Some x =>
    if deleted (bst x) then Skip else
    if negb (valid_upto L_CONNECTED (bst x)) then Skip else
    do r <- alt_set_state s id;
    Done (fst r, if snd r then RTrue else RFalse)
  end.

(* base setState of the POW tree: overrideTip only *)
Definition pow_set_state (s : tree) (to : N) : tree :=
  mkTree (tkind s) (blocks s) (tips s) to (Z.of_nat (length (path (blocks s) to))).

(* this->setState(pprev) as used by invalidateSubtree / removeSubtree: success is asserted *)
Definition set_state_to (s : tree) (to : N) : outcome tree :=
  match tkind s with
  | POW => Done (pow_set_state s to)
  | ALT => do r <- alt_set_state s to; do _ <- assert (snd r); Done (fst r)
  end.

(* ------------------------------------------------------------------ PoW best chain *)
(* BlockTree::determineBestChain *)
Definition pow_determine_best (s : tree) (cand : N) : tree :=
  if (tip s =? cand)%N then s
  else match find_blk cand (blocks s), find_blk (tip s) (blocks s) with
       | Some c, Some t =>
         if negb (is_valid L_TREE (bst c)) then s
         else if bwork t <? bwork c then pow_set_state s cand else s
       | _, _ => s
       end.

(* doUpdateTips: the ALT tree's determineBestChain does nothing; the POW tree walks tips_ in the
   (unspecified) iteration order [ord] of the unordered_set *)
Definition update_tips (s : tree) (ord : list N) : tree :=
  match tkind s with
  | ALT => s
  | POW => fold_left (fun s t => if memN t (tips s) then pow_determine_best s t else s) ord s
  end.

(* ------------------------------------------------------------------ invalidateSubtree *)
(* flag the children subtrees as BLOCK_FAILED_CHILD; [cont] = blocks below which the traversal continues *)
Fixpoint mark_pass (target : N) (l : list blk) : list blk * list N * list N :=   (* blocks, cont, visited *)
  match l with
  | [] => ([], [target], [])
  | x :: older =>
    let '(older', cont, vis) := mark_pass target older in
    if match bparent x with Some p => memN p cont | None => false end then
      let f := failed (bst x) in
      (with_st x (set_fchild true (bst x)) :: older', if f then cont else bid x :: cont, bid x :: vis)
    else (x :: older', cont, vis)
  end.

(* doInvalidate asserts !(isValidUpTo(CAN_BE_APPLIED) && reason == POP) *)
Definition invalidate (s : tree) (id : N) (r : reason) (ord : list N) : outcome tree :=
  match find_blk id (blocks s) with
  | None => Skip
  | Some x =>
    if deleted (bst x) then Skip else
    match bparent x with
    | None => Skip                                   (* cannot invalidate the root block *)
    | Some p =>
      let st := bst x in
      if has_reason r st then Done s
      else
        do _ <- assert (negb (valid_upto L_APPLIED st && match r with RPop => true | RBlock => false end));
        if negb (is_valid L_TREE st) then
          Done (mkTree (tkind s) (upd id (set_reason r true) (blocks s)) (set_remove id (tips s)) (tip s) (applied s))
        else
          do s1 <- (if on_chain s id then set_state_to s p else Done s);
          let l1 := upd id (set_reason r true) (blocks s1) in
          let tps1 := set_remove id (tips s1) in
          let '(l2, _, vis) := mark_pass id l1 in
          let tps2 := filter (fun t => negb (memN t vis)) tps1 in
          let tps3 := try_add_tip (tkind s) l2 tps2 p in
          Done (update_tips (mkTree (tkind s) l2 tps3 (tip s1) (applied s1)) ord)
    end
  end.

(* ------------------------------------------------------------------ revalidateSubtree *)
(* doReValidate(index, FAILED_CHILD) on the children subtrees; continue below blocks that are not failed any more *)
Fixpoint reval_pass (k : kind) (l0 : list blk) (target : N) (l : list blk) (tps : list N) : list blk * list N * list N :=
  match l with
  | [] => ([], tps, [target])
  | x :: older =>
    let '(older', tps1, cont) := reval_pass k l0 target older tps in
    if match bparent x with Some p => memN p cont | None => false end then
      let st' := set_fchild false (bst x) in
      let tps2 := if is_valid_tip k l0 (bid x) st'
                  then set_add (bid x) (match bparent x with Some p => set_remove p tps1 | None => tps1 end) else tps1 in
      (with_st x st' :: older', tps2, if failed st' then cont else bid x :: cont)
    else (x :: older', tps1, cont)
  end.

(* the part of revalidateSubtree before updateTips (removeAllPayloads calls it with do-fr = false) *)
Definition revalidate_core (s : tree) (id : N) (r : reason) : tree :=
  match find_blk id (blocks s) with
  | None => s
  | Some x =>
    let st := bst x in
    if negb (has_reason r st) then s
    else
      let l1 := upd id (set_reason r false) (blocks s) in
      let tps1 := try_add_tip (tkind s) l1 (tips s) id in
      if has_other_failure r st then mkTree (tkind s) l1 tps1 (tip s) (applied s)
      else
        let '(l2, tps2, _) := reval_pass (tkind s) l1 id l1 tps1 in
        mkTree (tkind s) l2 tps2 (tip s) (applied s)
  end.

Definition revalidate (s : tree) (id : N) (r : reason) (ord : list N) : outcome tree :=
  match find_blk id (blocks s) with
  | None => Skip
  | Some x =>
    if deleted (bst x) then Skip else
    match bparent x with
    | None => Skip
    | Some _ =>
      let st := bst x in
      if negb (has_reason r st) then Done s
      else if has_other_failure r st then Done (revalidate_core s id r)
      else Done (update_tips (revalidate_core s id r) ord)
    end
  end.

(* ------------------------------------------------------------------ removeSubtree *)
Fixpoint remove_pass (target : N) (l : list blk) : list blk * list N :=    (* blocks, removed ids *)
  match l with
  | [] => ([], [])
  | x :: older =>
    let '(older', vis) := remove_pass target older in
    if (bid x =? target)%N || (match bparent x with Some p => memN p vis | None => false end && negb (deleted (bst x)))
    then (with_st x (st_delete (bst x)) :: older', bid x :: vis)
    else (x :: older', vis)
  end.

Definition remove_subtree (s : tree) (id : N) (ord : list N) : outcome tree :=
  match find_blk id (blocks s) with
  | None => Skip
  | Some x =>
    if deleted (bst x) then Skip else
    match bparent x with
    | None => Skip
    | Some p =>
      let onmain := on_chain s id in
      do s1 <- (if onmain then set_state_to s p else Done s);
      let '(l2, vis) := remove_pass id (blocks s1) in
      let tps2 := filter (fun t => negb (memN t vis)) (tips s1) in
      let tps3 := try_add_tip (tkind s) l2 tps2 p in
      let s2 := mkTree (tkind s) l2 tps3 (tip s1) (applied s1) in
      Done (if onmain then update_tips s2 ord else s2)
    end
  end.

(* ------------------------------------------------------------------ ALT: removePayloads *)
Definition alt_rmpl (s : tree) (id : N) : outcome tree :=
  match find_blk id (blocks s) with
  | None => Skip
  | Some x =>
    let st := bst x in
    if deleted st then Skip else
    match bparent x with
    | None => Skip
    | Some p =>
      if negb (haspl st) || active st ||
         negb (forallb (fun c => negb (valid_upto L_CONNECTED (bst c))) (children (blocks s) id)) then Skip
      else
        let s1 := with_blocks s (upd id (set_haspl false) (blocks s)) in
        let s2 := revalidate_core s1 id RPop in
        match st_of (blocks s2) id with
        | None => Abort
        | Some st2 =>
          do l3 <- (if valid_upto L_CONNECTED st2 then
                      let lv := lower_validity st2 L_TREE in
                      do _ <- assert (snd lv); Done (upd id (fun _ => fst lv) (blocks s2))
                    else Done (blocks s2));
          let tps3 := set_remove id (tips s2) in
          let tps4 := try_add_tip (tkind s) l3 tps3 p in
          Done (mkTree (tkind s) l3 tps4 (tip s2) (applied s2))
        end
    end
  end.

(* ------------------------------------------------------------------ POW: acceptBlockHeader *)
Definition pow_hdr (s : tree) (id parent : N) (proof : Z) : outcome (tree * result) :=
  (* the parent named by the header: an existing (deleted or duplicate) block keeps its own *)
  let par := match find_blk id (blocks s) with
             | Some x => match bparent x with Some p0 => p0 | None => parent end
             | None => parent end in
  match find_blk id (blocks s) with
  | Some x => match bparent x with None => Skip | Some _ =>
    match find_blk par (blocks s) with
    | None => Done (s, RFailPrev)
    | Some p => if deleted (bst p) then Done (s, RFailPrev) else
      do s1 <- insert_header s id par proof;
      match find_blk id (blocks s1) with
      | None => Abort
      | Some x1 =>
        do rv <- raise_validity (blocks s1) x1 L_CONNECTED;
        let l2 := upd id (fun _ => fst rv) (blocks s1) in
        if negb (is_valid L_TREE (bst p)) then
          Done (with_blocks s1 (upd id (set_fchild true) l2), RFailChain)
        else
          let s2 := mkTree (tkind s) l2 (try_add_tip (tkind s) l2 (tips s1) id) (tip s1) (applied s1) in
          Done (pow_determine_best s2 id, ROk)
      end
    end end
  | None =>
    match find_blk par (blocks s) with
    | None => Done (s, RFailPrev)
    | Some p => if deleted (bst p) then Done (s, RFailPrev) else
      do s1 <- insert_header s id par proof;
      match find_blk id (blocks s1) with
      | None => Abort
      | Some x1 =>
        do rv <- raise_validity (blocks s1) x1 L_CONNECTED;
        let l2 := upd id (fun _ => fst rv) (blocks s1) in
        if negb (is_valid L_TREE (bst p)) then
          Done (with_blocks s1 (upd id (set_fchild true) l2), RFailChain)
        else
          let s2 := mkTree (tkind s) l2 (try_add_tip (tkind s) l2 (tips s1) id) (tip s1) (applied s1) in
          Done (pow_determine_best s2 id, ROk)
      end
    end
  end.

(* ------------------------------------------------------------------ initial states and steps *)
(* AltBlockTree::bootstrap(): root = id 0 at [h]: VALID_TREE -> ACTIVE, BOOTSTRAP, CAN_BE_APPLIED, a tip only
   once connected: tryAddTip(index) after raiseValidity(CAN_BE_APPLIED) *)
Definition st_root : status := mkSt L_APPLIED true false false false false true false.
Definition alt_init (h : Z) : tree := mkTree ALT [mkBlk 0%N None h 0 st_root] [0%N] 0%N 1.
(* BlockTree::bootstrap *)
Definition pow_init (h : Z) (proof : Z) : tree := mkTree POW [mkBlk 0%N None h proof st_root] [0%N] 0%N 1.

Inductive op :=
| OHdr (id parent : N) (proof : Z)
| OBody (id : N)
| OSet (id : N)
| OInv (id : N) (r : reason) (ord : list N)
| OReval (id : N) (r : reason) (ord : list N)
| ORm (id : N) (ord : list N)
| ORmpl (id : N).

Definition step_out (s : tree) (o : op) : outcome (tree * result) :=
  match tkind s, o with
  | ALT, OHdr id p _ => alt_hdr s id p
  | POW, OHdr id p w => pow_hdr s id p w
  | ALT, OBody id => alt_body s id
  | ALT, OSet id => alt_set s id
  | _, OInv id r ord => do s1 <- invalidate s id r ord; Done (s1, ROk)
  | _, OReval id r ord => do s1 <- revalidate s id r ord; Done (s1, ROk)
  | _, ORm id ord => do s1 <- remove_subtree s id ord; Done (s1, ROk)
  | ALT, ORmpl id => do s1 <- alt_rmpl s id; Done (s1, ROk)
  | POW, _ => Skip
  end.

(* a refused (Skip) or aborting (Abort: outside the documented preconditions) call leaves the state alone *)
Definition step (s : tree) (o : op) : tree :=
  match step_out s o with Done (s1, _) => s1 | _ => s end.
Definition run (s : tree) (ops : list op) : tree := fold_left step ops s.
