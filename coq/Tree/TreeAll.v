(** Tree/TreeAll — everything proved about the model as ONE invariant preserved by every operation of both trees. *)
From Coq Require Import ZArith NArith List Bool Lia.
From VB Require Import Tree.TreeDefs Tree.TreeInv Tree.TreeProofs Tree.TreeExact Tree.TreeMono Tree.TreeSteps Tree.TreeChain
  Tree.TreeTips Tree.TreeTipsAlt Tree.TreeDeleted Tree.TreeTipsAll Tree.TreeLevels.
Import ListNotations.

(* flags + S3 + tips + "level of a block <= level of its parent" + non-failed best-chain tip *)
Definition Inv_all (s : tree) : Prop := Inv_tree s /\ lm_ok (blocks s) /\ tip_ok s.

Theorem Inv_all_init_alt h : Inv_all (alt_init h).
Proof. split; [apply Inv_tree_init_alt|]. split; [apply lm_init_alt|apply init_tip_ok_alt]. Qed.
Theorem Inv_all_init_pow h w : Inv_all (pow_init h w).
Proof. split; [apply Inv_tree_init_pow|]. split; [apply lm_init_pow|apply init_tip_ok_pow]. Qed.

Theorem Inv_all_step s o : Inv_all s -> Inv_all (step s o).
Proof.
  intros (IT & M & T). pose proof IT as (I & S3 & _).
  split; [apply Inv_tree_step, IT|]. split; [apply step_lm; auto|].
  apply (step_good s o (conj I T)).
Qed.

Theorem Inv_all_run ops : forall s, Inv_all s -> Inv_all (run s ops).
Proof. unfold run. induction ops as [|o r IH]; simpl; intros s I; auto. apply IH, Inv_all_step, I. Qed.

(* a connected block has only connected ancestors, in every reachable state *)
Theorem connected_ancestors_connected s : Inv_all s -> forall c x, find_blk c (blocks s) = Some x ->
  valid_upto L_CONNECTED (bst x) = true ->
  forall a z, In a (path (blocks s) c) -> find_blk a (blocks s) = Some z -> valid_upto L_CONNECTED (bst z) = true.
Proof.
  intros ((I & _ & _) & M & _) c x Fc V a z Ha Fa. pose proof I as [W _ _ _].
  pose proof (connected_ancestors (blocks s) W M c x Fc a z Ha Fa) as L.
  unfold valid_upto in *. apply N.leb_le in V. apply N.leb_le. lia.
Qed.
