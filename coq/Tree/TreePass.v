(** Tree/TreePass — the traversal passes of invalidateSubtree / revalidateSubtree as one generic pass,
    its pointwise characterisation, and what it does to the flag invariant. *)
From Coq Require Import ZArith NArith List Bool Lia.
From VB Require Import Tree.TreeDefs Tree.TreeInv.
Import ListNotations.

(* visit x iff its parent is in cont; apply f; continue below x unless stop (old status) *)
Fixpoint gpass (f : status -> status) (stop : status -> bool) (t : N) (l : list blk) : list blk * list N :=
  match l with
  | [] => ([], [t])
  | x :: older =>
    let '(older', cont) := gpass f stop t older in
    if vis cont x
    then (with_st x (f (bst x)) :: older', if stop (bst x) then cont else bid x :: cont)
    else (x :: older', cont)
  end.

Lemma mark_pass_gpass t l :
  fst (fst (mark_pass t l)) = fst (gpass (set_fchild true) failed t l) /\
  snd (fst (mark_pass t l)) = snd (gpass (set_fchild true) failed t l).
Proof.
  induction l as [|x r IH]; simpl; auto.
  destruct (mark_pass t r) as [[o c] v]. destruct (gpass (set_fchild true) failed t r) as [o' c'].
  simpl in IH. destruct IH as [-> ->]. unfold vis.
  destruct (match bparent x with Some p => memN p c' | None => false end); simpl; auto.
Qed.

Definition reval_stop (s : status) : bool := failed (set_fchild false s).

Lemma reval_pass_gpass k l0 t l tps :
  fst (fst (reval_pass k l0 t l tps)) = fst (gpass (set_fchild false) reval_stop t l) /\
  snd (reval_pass k l0 t l tps) = snd (gpass (set_fchild false) reval_stop t l).
Proof.
  induction l as [|x r IH]; simpl; auto.
  destruct (reval_pass k l0 t r tps) as [[o tp] c]. destruct (gpass (set_fchild false) reval_stop t r) as [o' c'].
  simpl in IH. destruct IH as [-> ->]. unfold vis.
  destruct (match bparent x with Some p => memN p c' | None => false end); simpl; auto.
Qed.

Lemma gpass_skel f stop t l : same_skel l (fst (gpass f stop t l)).
Proof.
  unfold same_skel. induction l as [|x r IH]; simpl; auto.
  destruct (gpass f stop t r) as [o c]. simpl in IH.
  destruct (vis c x); simpl; rewrite <- IH; reflexivity.
Qed.

(* every id in cont is the target or the id of a block of the list *)
Lemma gpass_cont_found f stop t l c :
  memN c (snd (gpass f stop t l)) = true -> c = t \/ find_blk c l <> None.
Proof.
  revert c. induction l as [|x r IH]; simpl; intros c H.
  - rewrite orb_false_r in H. apply N.eqb_eq in H. auto.
  - destruct (gpass f stop t r) as [o ct]. simpl in IH.
    assert (G : memN c ct = true -> c = t \/ (if (bid x =? c)%N then Some x else find_blk c r) <> None).
    { intros M. destruct (IH c M) as [->|F]; auto. right. destruct (bid x =? c)%N; [discriminate|auto]. }
    destruct (vis ct x); simpl in H; auto.
    destruct (stop (bst x)); auto.
    rewrite memN_cons in H. apply orb_true_iff in H. destruct H as [H|H]; auto.
    apply N.eqb_eq in H. subst c. right. rewrite N.eqb_refl. discriminate.
Qed.

(* pointwise characterisation *)
Lemma gpass_find f stop t : forall l, wf l -> forall p y, find_blk p l = Some y ->
  find_blk p (fst (gpass f stop t l)) =
    Some (if vis (snd (gpass f stop t l)) y then with_st y (f (bst y)) else y)
  /\ memN p (snd (gpass f stop t l)) = (p =? t)%N || (vis (snd (gpass f stop t l)) y && negb (stop (bst y))).
Proof.
  induction l as [|x r IH]; intros W p y F; [discriminate|].
  pose proof W as W0. destruct W as (Wr & Hx & Hp). simpl in F. simpl.
  pose proof (gpass_cont_found f stop t r) as CF.
  destruct (gpass f stop t r) as [o ct] eqn:G. simpl in IH, CF.
  (* the id of the head is not in ct unless it is the target *)
  assert (HX : memN (bid x) ct = (bid x =? t)%N).
  { destruct (memN (bid x) ct) eqn:M.
    - destruct (CF _ M) as [E|E]; [rewrite E; symmetry; apply N.eqb_refl | contradiction].
    - destruct (N.eqb_spec (bid x) t) as [E|E]; auto.
      exfalso. clear -G M E. subst t.
      assert (memN (bid x) (snd (gpass f stop (bid x) r)) = true).
      { clear. induction r as [|z r IH]; simpl; [rewrite N.eqb_refl; auto|].
        destruct (gpass f stop (bid x) r) as [o c]. simpl in IH.
        destruct (vis c z); simpl; auto. destruct (stop (bst z)); auto. rewrite memN_cons, IH. apply orb_true_r. }
      rewrite G in H. simpl in H. congruence. }
  destruct (N.eqb_spec (bid x) p) as [E|E].
  - inversion F; subst y. clear F.
    (* vis is insensitive to adding bid x to cont *)
    assert (V : forall c2, c2 = ct \/ c2 = bid x :: ct -> vis c2 x = vis ct x).
    { intros c2 [->| ->]; auto. unfold vis. destruct (bparent x) as [q|] eqn:Q; auto.
      rewrite memN_cons. destruct (N.eqb_spec q (bid x)) as [E2|E2]; auto.
      exfalso. apply (wf_own_parent x r q W0 Q E2). }
    subst p.
    destruct (vis ct x) eqn:Vx.
    + destruct (stop (bst x)) eqn:St; simpl; rewrite N.eqb_refl.
      * rewrite Vx. split; auto. rewrite HX, orb_false_r. reflexivity.
      * rewrite (V _ (or_intror eq_refl)). split; auto. simpl. rewrite orb_true_r. reflexivity.
    + simpl. rewrite N.eqb_refl, Vx. split; auto. rewrite HX. simpl. rewrite orb_false_r. reflexivity.
  - specialize (IH Wr p y F). destruct IH as [IH1 IH2].
    assert (V : vis (bid x :: ct) y = vis ct y).
    { unfold vis. destruct (bparent y) as [q|] eqn:Q; auto. rewrite memN_cons.
      destruct (N.eqb_spec q (bid x)) as [E2|E2]; auto.
      exfalso. apply (wf_parent_not_head x r W0 p y q F Q E2). }
    assert (M : ((p =? bid x)%N || memN p ct) = memN p ct).
    { destruct (N.eqb_spec p (bid x)); auto. exfalso; auto. }
    destruct (vis ct x); simpl.
    + destruct (N.eqb_spec (bid x) p); [contradiction|].
      destruct (stop (bst x)); simpl; rewrite ?V, ?M; auto.
    + destruct (N.eqb_spec (bid x) p); [contradiction|]. auto.
Qed.

(* blocks that are not visited keep their status; visited blocks get f *)
Lemma gpass_unvisited f stop t l : wf l -> forall p y, find_blk p l = Some y ->
  vis (snd (gpass f stop t l)) y = false -> find_blk p (fst (gpass f stop t l)) = Some y.
Proof.
  intros W p y F V. destruct (gpass_find f stop t l W p y F) as [H _]. rewrite V in H. exact H.
Qed.

(* ------------------------------------------------------------------ the flag invariant after a pass *)
Section FlagPass.
  Variable v : bool.                      (* FAILED_CHILD value written: true = invalidate, false = revalidate *)
  Variable f : status -> status.
  Variable stop : status -> bool.
  Hypothesis A1 : forall s, fchild (f s) = v.
  Hypothesis A2 : forall s, stop s = false -> failed (f s) = v.
  Hypothesis A3 : forall s, stop s = true -> failed (f s) = failed s.

  (* the list is consistent everywhere except at the children of t, whose parent (t) has failed-ness v *)
  Fixpoint pre_ok (t : N) (l : list blk) : Prop :=
    match l with
    | [] => True
    | x :: r => pre_ok t r /\
      match bparent x with
      | None => True
      | Some p => match find_blk p r with
                  | Some y => if (p =? t)%N then failed (bst y) = v
                              else failed (bst y) = true -> fchild (bst x) = true
                  | None => False end
      end
    end.

  Lemma gpass_fl_ok t : forall l, wf l -> pre_ok t l -> fl_ok (fst (gpass f stop t l)).
  Proof.
    induction l as [|x r IH]; intros W H; simpl; auto.
    pose proof W as W0. destruct W as (Wr & Hx & Hp).
    destruct H as (Hpr & H).
    assert (IHr : fl_ok (fst (gpass f stop t r))) by (apply IH; auto).
    pose proof (gpass_find f stop t r Wr) as GF.
    destruct (gpass f stop t r) as [o ct] eqn:G. simpl in GF, IHr.
    assert (K : match bparent x with
      | None => True
      | Some p => match find_blk p o with
                  | Some y => failed (bst y) = true ->
                              fchild (bst (if vis ct x then with_st x (f (bst x)) else x)) = true
                  | None => False end
      end).
    { unfold vis. destruct (bparent x) as [p|] eqn:P; [|exact I].
      destruct (find_blk p r) as [y|] eqn:Fy; [|contradiction].
      destruct (GF p y Fy) as [F1 F2]. rewrite F1, F2.
      destruct (N.eqb_spec p t) as [E|E]; simpl.
      - rewrite A1. destruct (vis ct y); simpl; [|congruence].
        destruct (stop (bst y)) eqn:St; [rewrite A3; auto; congruence | rewrite A2; auto].
      - destruct (vis ct y) eqn:Vy; simpl; auto.
        destruct (stop (bst y)) eqn:St; simpl.
        + rewrite A3; auto.
        + rewrite A1, A2; auto. }
    destruct (vis ct x) eqn:Vx; simpl; split; auto; destruct (bparent x); auto.
  Qed.
End FlagPass.

(* instances *)
Lemma mark_fl_ok t l : wf l -> pre_ok true t l -> fl_ok (fst (gpass (set_fchild true) failed t l)).
Proof.
  apply gpass_fl_ok; intros s; auto.
  - intros H. unfold failed in *. simpl. rewrite orb_true_r. reflexivity.
  - intros H. unfold failed in *. simpl. rewrite orb_true_r. auto.
Qed.

Lemma reval_fl_ok t l : wf l -> pre_ok false t l -> fl_ok (fst (gpass (set_fchild false) reval_stop t l)).
Proof.
  apply gpass_fl_ok; intros s; auto.
  unfold reval_stop. intros H. rewrite H. unfold failed in *. simpl in *. rewrite orb_false_r in H.
  rewrite H. reflexivity.
Qed.
