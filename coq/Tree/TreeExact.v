(** Tree/TreeExact — invalidate_exact / revalidate_exact in descendant-closure form:
    the traversal touches only proper descendants of the target; outside the subtree nothing changes;
    inside, only FAILED_CHILD changes; after invalidation every proper descendant carries FAILED_CHILD. *)
From Coq Require Import ZArith NArith List Bool Lia.
From VB Require Import Tree.TreeDefs Tree.TreeInv Tree.TreePass Tree.TreeProofs.
Import ListNotations.

(* p is t or a descendant of t *)
Definition sub (l : list blk) (t p : N) : bool := memN t (path l p).

(* ------------------------------------------------------------------ paths *)
Lemma path_found l : forall p a, In a (path l p) -> find_blk a l <> None.
Proof.
  induction l as [|x r IH]; simpl; intros p a H; [contradiction|].
  destruct (N.eqb_spec (bid x) p) as [E|E].
  - destruct H as [<-|H].
    + rewrite E, N.eqb_refl. discriminate.
    + destruct (bparent x) as [q|]; [|contradiction].
      specialize (IH q a H). destruct (bid x =? a)%N; [discriminate|auto].
  - specialize (IH p a H). destruct (bid x =? a)%N; [discriminate|auto].
Qed.

Lemma path_skip x r p : bid x <> p -> path (x :: r) p = path r p.
Proof. intros E. simpl. destruct (N.eqb_spec (bid x) p); [contradiction|reflexivity]. Qed.

Lemma path_self l p y : find_blk p l = Some y -> exists rest, path l p = p :: rest.
Proof.
  induction l as [|x r IH]; simpl; [discriminate|].
  destruct (N.eqb_spec (bid x) p); intros H; eauto.
Qed.

Lemma path_step l : wf l -> forall p y q, find_blk p l = Some y -> bparent y = Some q -> path l p = p :: path l q.
Proof.
  induction l as [|x r IH]; intros W p y q F Q; [discriminate|].
  pose proof W as W0. destruct W as (Wr & Hx & Hp). simpl in F.
  destruct (N.eqb_spec (bid x) p) as [E|E].
  - inversion F; subst y. simpl. rewrite (proj2 (N.eqb_eq _ _) E), Q. f_equal.
    destruct (N.eqb_spec (bid x) q) as [E2|E2]; [|reflexivity].
    exfalso. apply (wf_own_parent x r q W0 Q). auto.
  - rewrite (path_skip x r p E). rewrite (IH Wr p y q F Q). f_equal.
    rewrite path_skip; auto. intros E2. apply (wf_parent_not_head x r W0 p y q F Q). auto.
Qed.

(* one step up *)
Lemma sub_step l t : wf l -> forall p y q, find_blk p l = Some y -> bparent y = Some q ->
  sub l t p = (t =? p)%N || sub l t q.
Proof.
  unfold sub. induction l as [|x r IH]; intros W p y q F Q; [discriminate|].
  pose proof W as W0. destruct W as (Wr & Hx & Hp). simpl in F.
  destruct (N.eqb_spec (bid x) p) as [E|E].
  - inversion F; subst y. simpl. rewrite (proj2 (N.eqb_eq _ _) E), Q.
    rewrite memN_cons. f_equal.
    destruct (N.eqb_spec (bid x) q) as [E2|E2]; [|reflexivity].
    exfalso. apply (wf_own_parent x r q W0 Q). auto.
  - rewrite (path_skip x r p E). rewrite (IH Wr p y q F Q). f_equal.
    rewrite path_skip; auto. intros E2. apply (wf_parent_not_head x r W0 p y q F Q). auto.
Qed.

Lemma sub_root l t p y : find_blk p l = Some y -> bparent y = None -> sub l t p = (t =? p)%N.
Proof.
  unfold sub. induction l as [|x r IH]; simpl; [discriminate|].
  destruct (N.eqb_spec (bid x) p) as [E|E]; intros F Q.
  - inversion F; subst y. rewrite Q. simpl. rewrite orb_false_r. reflexivity.
  - auto.
Qed.

(* a block is not below itself: its parent is outside its subtree *)
Lemma sub_parent_false l t : wf l -> forall y q, find_blk t l = Some y -> bparent y = Some q -> sub l t q = false.
Proof.
  unfold sub. induction l as [|x r IH]; intros W y q F Q; [discriminate|].
  pose proof W as W0. destruct W as (Wr & Hx & Hp). simpl in F.
  destruct (N.eqb_spec (bid x) t) as [E|E].
  - inversion F; subst y. rewrite path_skip; [|intros E2; apply (wf_own_parent x r q W0 Q); auto].
    apply memN_false_In. intros H. apply (path_found r q t H). rewrite <- E. exact Hx.
  - rewrite path_skip; [eapply IH; eauto|]. intros E2. apply (wf_parent_not_head x r W0 t y q F Q). auto.
Qed.

Lemma sub_self l t y : find_blk t l = Some y -> sub l t t = true.
Proof.
  intros F. unfold sub. destruct (path_self l t y F) as [rest ->]. rewrite memN_cons, N.eqb_refl. reflexivity.
Qed.

(* paths depend on the skeleton only *)
Lemma same_skel_path l : forall l', same_skel l l' -> forall p, path l p = path l' p.
Proof.
  induction l as [|x r IH]; intros [|x' r'] S p; unfold same_skel in S; try discriminate; simpl; auto.
  simpl in S. assert (Hx : skel x = skel x') by congruence. assert (Hr : map skel r = map skel r') by congruence.
  assert (E : bid x = bid x') by (unfold skel in Hx; congruence).
  assert (P : bparent x = bparent x') by (unfold skel in Hx; congruence).
  rewrite <- E, <- P. destruct (bid x =? p)%N; [|apply IH; exact Hr].
  destruct (bparent x); [f_equal; apply IH; exact Hr | reflexivity].
Qed.

Lemma same_skel_sub l l' t p : same_skel l l' -> sub l t p = sub l' t p.
Proof. intros S. unfold sub. rewrite (same_skel_path l l' S). reflexivity. Qed.

(* ------------------------------------------------------------------ the traversal stays inside the subtree *)
Lemma gpass_cont_sub f stop t : forall l, wf l -> forall c,
  memN c (snd (gpass f stop t l)) = true -> c = t \/ sub l t c = true.
Proof.
  induction l as [|x r IH]; intros W c H.
  - simpl in H. rewrite orb_false_r in H. apply N.eqb_eq in H. auto.
  - pose proof W as W0. destruct W as (Wr & Hx & Hp). simpl in H.
    pose proof (gpass_cont_found f stop t r) as CF.
    destruct (gpass f stop t r) as [o ct] eqn:G. simpl in IH, CF.
    assert (K : memN c ct = true -> c = t \/ sub (x :: r) t c = true).
    { intros M. destruct (IH Wr c M) as [->|S]; auto. destruct (N.eq_dec c t) as [->|N]; auto. right.
      unfold sub in *. rewrite path_skip; auto. intros E. subst c.
      destruct (CF _ M) as [E|E]; [contradiction|]. apply E. exact Hx. }
    destruct (vis ct x) eqn:V; simpl in H; auto.
    destruct (stop (bst x)); auto.
    rewrite memN_cons in H. apply orb_true_iff in H. destruct H as [H|H]; auto.
    apply N.eqb_eq in H. subst c.
    unfold vis in V. destruct (bparent x) as [q|] eqn:Q; [|discriminate].
    right. unfold sub. simpl. rewrite N.eqb_refl, Q. rewrite memN_cons. apply orb_true_iff. right.
    destruct (IH Wr q V) as [->|S]; [|exact S].
    destruct (find_blk t r) as [yt|] eqn:Ft; [|contradiction].
    exact (sub_self r t yt Ft).
Qed.

(* a visited block is a proper descendant of t *)
Lemma gpass_vis_sub f stop t l : wf l -> forall p y, find_blk p l = Some y ->
  vis (snd (gpass f stop t l)) y = true -> sub l t p = true /\ p <> t.
Proof.
  intros W p y F V. unfold vis in V. destruct (bparent y) as [q|] eqn:Q; [|discriminate].
  assert (S : sub l t q = true \/ q = t).
  { destruct (gpass_cont_sub f stop t l W q V); auto. }
  split.
  - rewrite (sub_step l t W p y q F Q). apply orb_true_iff. right.
    destruct S as [S| ->]; auto.
    destruct (find_blk t l) as [yt|] eqn:Ft; [exact (sub_self l t yt Ft)|].
    exfalso. exact (wf_parent_found l W p y t F Q Ft).
  - intros ->. rewrite (sub_parent_false l t W y q F Q) in S. destruct S as [S| ->]; [discriminate|].
    pose proof (wf_parent_found l W t y t F Q).
    (* the parent of t is t: impossible *)
    clear -W F Q. induction l as [|x r IH]; [discriminate|].
    pose proof W as W0. destruct W as (Wr & Hx & Hp). simpl in F.
    destruct (N.eqb_spec (bid x) t) as [E|E].
    + inversion F; subst y. apply (wf_own_parent x r t W0 Q). auto.
    + apply IH; auto.
Qed.

Definition ffl (s : status) := (fblock s, fpop s, fchild s).

(* outside the subtree of t the pass changes nothing; inside, only FAILED_CHILD; t itself is untouched *)
Theorem gpass_exact v stop t l : wf l -> forall p y, find_blk p l = Some y ->
  exists y', find_blk p (fst (gpass (set_fchild v) stop t l)) = Some y' /\
    (sub l t p = false \/ p = t -> y' = y) /\
    skel y' = skel y /\ fblock (bst y') = fblock (bst y) /\ fpop (bst y') = fpop (bst y) /\
    level (bst y') = level (bst y) /\ deleted (bst y') = deleted (bst y) /\ active (bst y') = active (bst y) /\
    haspl (bst y') = haspl (bst y) /\
    (fchild (bst y') = fchild (bst y) \/ fchild (bst y') = v).
Proof.
  intros W p y F. destruct (gpass_find (set_fchild v) stop t l W p y F) as [H _].
  destruct (vis (snd (gpass (set_fchild v) stop t l)) y) eqn:V.
  - exists (with_st y (set_fchild v (bst y))). split; auto. split.
    + destruct (gpass_vis_sub _ _ _ _ W p y F V) as [S N]. intros [S2| ->]; [congruence|contradiction].
    + simpl. repeat split; auto.
  - exists y. split; auto. repeat split; auto.
Qed.

(* ------------------------------------------------------------------ below a failed block everything carries FAILED_CHILD *)
Lemma desc_failed_fchild : forall l t yt, wf l -> fl_ok l -> find_blk t l = Some yt -> failed (bst yt) = true ->
  forall p y, find_blk p l = Some y -> sub l t p = true -> p <> t -> fchild (bst y) = true.
Proof.
  induction l as [|x r IH]; intros t yt W F Ft Fd p y Fp S N; [discriminate|].
  pose proof W as W0. destruct W as (Wr & Hx & Hp). destruct F as (Fr & Fx). simpl in Fp, Ft.
  destruct (N.eqb_spec (bid x) p) as [E|E].
  - inversion Fp; subst y. clear Fp.
    destruct (N.eqb_spec (bid x) t) as [E2|E2]; [exfalso; apply N; congruence|].
    destruct (bparent x) as [q|] eqn:Q.
    + assert (Sq : (t =? p)%N || sub (x :: r) t q = true).
      { rewrite <- (sub_step (x :: r) t W0 p x q); auto. simpl. rewrite (proj2 (N.eqb_eq _ _) E). reflexivity. }
      destruct (N.eqb_spec t p) as [E3|E3]; [exfalso; auto|]. simpl in Sq.
      assert (Sr : sub r t q = true).
      { unfold sub in *. rewrite path_skip in Sq; auto. intros E4. apply (wf_own_parent x r q W0 Q). auto. }
      destruct (find_blk q r) as [yq|] eqn:Fq; [|contradiction].
      apply Fx. destruct (N.eq_dec q t) as [->|Nq].
      * rewrite Ft in Fq. inversion Fq; subst. exact Fd.
      * pose proof (IH t yt Wr Fr Ft Fd q yq Fq Sr Nq) as C. unfold failed. rewrite C. apply orb_true_r.
    + rewrite (sub_root (x :: r) t p x) in S; [|simpl; rewrite (proj2 (N.eqb_eq _ _) E); reflexivity|exact Q].
      apply N.eqb_eq in S. exfalso; auto.
  - destruct (N.eqb_spec (bid x) t) as [E2|E2].
    + (* t is the head: nothing behind it is below it *)
      exfalso. unfold sub in S. rewrite path_skip in S; auto.
      apply memN_In in S. apply (path_found r p t S). rewrite <- E2. exact Hx.
    + unfold sub in *. rewrite path_skip in S; auto. apply (IH t yt Wr Fr Ft Fd p y Fp S N).
Qed.

(* ------------------------------------------------------------------ invalidateSubtree, exact *)
Definition flags_of (l : list blk) (p : N) : option (bool * bool * bool) := option_map (fun y => ffl (bst y)) (find_blk p l).

Lemma flags_of_fl_eq l l' p : fl_eq l l' -> flags_of l p = flags_of l' p.
Proof.
  intros E. unfold flags_of. destruct (find_blk p l) as [y|] eqn:F.
  - destruct (fl_eq_sym_flags _ _ E p y F) as (y' & F' & B & P & C & _). rewrite F'. simpl. unfold ffl. congruence.
  - pose proof (same_skel_find _ _ (fl_eq_skel _ _ E) p) as S. rewrite F in S.
    destruct (find_blk p l'); [contradiction|reflexivity].
Qed.

Theorem invalidate_exact s id r ord s' : Inv_flags s -> invalidate s id r ord = Done s' ->
  forall p y, find_blk p (blocks s) = Some y ->
  exists y', find_blk p (blocks s') = Some y' /\ skel y' = skel y /\
    (* outside the subtree: no failure flag changes *)
    (sub (blocks s) id p = false -> ffl (bst y') = ffl (bst y)) /\
    (* the block itself: it carries the reason, nothing else changes *)
    (p = id -> has_reason r (bst y') = true /\ fchild (bst y') = fchild (bst y) /\
               forall r', r' <> r -> has_reason r' (bst y') = has_reason r' (bst y)) /\
    (* proper descendants: own flags unchanged, FAILED_CHILD set *)
    (sub (blocks s) id p = true -> p <> id ->
       fblock (bst y') = fblock (bst y) /\ fpop (bst y') = fpop (bst y) /\ fchild (bst y') = true).
Proof.
  intros I E p y Fp.
  pose proof (invalidate_inv _ _ _ _ _ I E) as I'.
  pose proof I as [W H F L]. unfold invalidate in E.
  destruct (find_blk id (blocks s)) as [x|] eqn:Fx; [|discriminate].
  destruct (deleted (bst x)) eqn:Dx; [discriminate|]. destruct (bparent x) as [pp|] eqn:Px; [|discriminate].
  destruct (has_reason r (bst x)) eqn:HR.
  - (* early exit: nothing happens; the conclusions hold because the block is failed already *)
    inversion E; subst s'. exists y. split; auto. split; auto. split; auto. split.
    + intros ->. rewrite Fx in Fp. inversion Fp; subst. auto.
    + intros S N. repeat split; auto.
      apply (desc_failed_fchild (blocks s) id x W F Fx) with (p := p); auto.
      unfold failed. destruct r; simpl in HR; rewrite HR; auto. rewrite orb_true_r. reflexivity.
  - bind_inv E.
    destruct (negb (is_valid L_TREE (bst x))) eqn:V.
    + (* already invalid for another reason: only the flag of the block *)
      inversion E; subst s'; clear E. simpl. rewrite find_upd, Fp. simpl.
      assert (Fd : failed (bst x) = true).
      { unfold is_valid in V. destruct (failed (bst x)); auto. simpl in V. exfalso.
        unfold lv_ok in L. rewrite Forall_forall in L. destruct (L x (find_blk_In _ _ _ Fx)) as [L1 _]. specialize (L1 Dx).
        unfold valid_upto, L_TREE in V. apply negb_true_iff, N.leb_gt in V. lia. }
      pose proof (find_blk_bid _ _ _ Fp) as Bp.
      destruct (N.eqb_spec (bid y) id) as [Ey|Ey].
      * assert (Hpi : p = id) by congruence. clear Bp. subst p. rewrite Fx in Fp. inversion Fp; subst y.
        eexists. split; [reflexivity|]. split; [reflexivity|]. split.
        -- rewrite (sub_self _ _ _ Fx). discriminate.
        -- split.
           ++ intros _. destruct r; simpl; repeat split; auto; intros r' N; destruct r'; simpl; auto; congruence.
           ++ intros _ N. congruence.
      * exists y. split; auto. split; auto. split; auto. split; [intros ->; congruence|].
        intros S N. repeat split; auto. apply (desc_failed_fchild (blocks s) id x W F Fx Fd p y Fp S N).
    + assert (S1 : exists s1, (if on_chain s id then set_state_to s pp else Done s) = Done s1 /\
                              fl_eq (blocks s) (blocks s1)).
      { destruct (on_chain s id).
        - destruct (set_state_to s pp) as [s1| |] eqn:SS; simpl in E; try discriminate.
          exists s1. destruct (set_state_to_fl _ _ _ W SS); auto.
        - exists s. split; auto using fl_eq_refl. }
      destruct S1 as (s1 & ES & FE). rewrite ES in E. simpl in E.
      destruct (inv_of_fl_eq _ _ I FE) as (W1 & H1 & F1 & L1).
      destruct (fl_eq_sym_flags _ _ FE p y Fp) as (y1 & Fp1 & B1 & P1 & C1 & K1 & _).
      set (l1 := upd id (set_reason r true) (blocks s1)) in *.
      assert (Wl1 : wf l1) by (eapply same_skel_wf; [apply upd_skel|auto]).
      destruct (mark_pass id l1) as [[l2 c] vs] eqn:M.
      pose proof (mark_pass_gpass id l1) as [G1 _]. rewrite M in G1. simpl in G1.
      inversion E; subst s'; clear E.
      destruct (update_tips_blocks {| tkind := tkind s; blocks := l2;
                  tips := try_add_tip (tkind s) l2 (filter (fun t : N => negb (memN t vs)) (set_remove id (tips s1))) pp;
                  tip := tip s1; applied := applied s1 |} ord) as [UB _].
      rewrite UB. simpl. rewrite G1.
      (* status of p in l1 *)
      set (y2 := if (bid y1 =? id)%N then with_st y1 (set_reason r true (bst y1)) else y1).
      assert (Fp2 : find_blk p l1 = Some y2) by (unfold l1; rewrite find_upd, Fp1; reflexivity).
      destruct (gpass_exact true failed id l1 Wl1 p y2 Fp2) as (y3 & Fp3 & Hout & Sk3 & B3 & P3 & _ & _ & _ & _ & C3).
      assert (SUB : sub l1 id p = sub (blocks s) id p).
      { symmetry. apply same_skel_sub. eapply same_skel_trans; [apply fl_eq_skel; eauto|apply upd_skel]. }
      pose proof (find_blk_bid _ _ _ Fp1) as Bp1.
      exists y3. split; auto. split.
      { rewrite Sk3. unfold y2. destruct (bid y1 =? id)%N; rewrite ?skel_with_st; symmetry; exact K1. }
      split; [|split].
      * intros S. rewrite (Hout (or_introl (eq_trans SUB S))). unfold y2.
        destruct (N.eqb_spec (bid y1) id) as [Ey|Ey].
        -- exfalso. assert (Hpi : p = id) by congruence. rewrite Hpi in S. rewrite (sub_self _ _ _ Fx) in S. discriminate.
        -- unfold ffl. congruence.
      * intros ->. rewrite (Hout (or_intror eq_refl)). unfold y2. rewrite Bp1, N.eqb_refl. simpl.
        rewrite Fx in Fp. inversion Fp; subst y.
        destruct r; simpl; repeat split; auto; try congruence; intros r' N; destruct r'; simpl; congruence.
      * intros S N.
        assert (Ey : (bid y1 =? id)%N = false) by (apply N.eqb_neq; congruence).
        unfold y2 in *. rewrite Ey in *. repeat split; try congruence.
        (* FAILED_CHILD: from the invariant of the result, below the now failed block *)
        pose proof I' as [W' _ F' _]. rewrite UB in W', F'. simpl in W', F'. rewrite G1 in W', F'.
        assert (Fx1 : exists x1, find_blk id (blocks s1) = Some x1) by
          (destruct (fl_eq_sym_flags _ _ FE id x Fx) as (x1 & ? & _); eauto).
        destruct Fx1 as (x1 & Fx1).
        assert (Fx2 : find_blk id l1 = Some (with_st x1 (set_reason r true (bst x1)))).
        { unfold l1. rewrite find_upd, Fx1. simpl. rewrite (find_blk_bid _ _ _ Fx1), N.eqb_refl. reflexivity. }
        destruct (gpass_exact true failed id l1 Wl1 id _ Fx2) as (x3 & Fx3 & Hx3 & _).
        rewrite (Hx3 (or_intror eq_refl)) in Fx3.
        apply (desc_failed_fchild _ id _ W' F' Fx3) with (p := p); auto.
        -- simpl. apply set_reason_true_failed.
        -- rewrite <- (same_skel_sub l1 _ id p (gpass_skel _ _ _ _)). congruence.
Qed.
