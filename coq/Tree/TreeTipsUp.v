(** Tree/TreeTipsUp — the tips conjunct when ONE block becomes usable and tryAddTip runs on it
    (doReValidate, connectBlock, acceptBlockHeader), and its use for revalidateSubtree. *)
From Coq Require Import ZArith NArith List Bool Lia.
From VB Require Import Tree.TreeDefs Tree.TreeInv Tree.TreePass Tree.TreeProofs Tree.TreeExact Tree.TreeMono Tree.TreeSteps
  Tree.TreeTips Tree.TreeTipsOps.
Import ListNotations.

(* the spec of q looks at q and its children only *)
Lemma spec_local k l l' q : wf l -> same_skel l l' -> cbt k l' q = cbt k l q ->
  (forall c y, find_blk c l = Some y -> bparent y = Some q -> cbt k l' c = cbt k l c) ->
  spec k l' q = spec k l q.
Proof.
  intros W SK Cq Cc. pose proof (same_skel_wf _ _ SK W) as W'.
  assert (G : forall a b, wf a -> wf b -> same_skel a b -> cbt k b q = cbt k a q ->
              (forall c y, find_blk c a = Some y -> bparent y = Some q -> cbt k b c = cbt k a c) ->
              spec k a q = true -> spec k b q = true).
  { intros a b Wa Wb S Cq' Cb H. apply (spec_true k a q Wa) in H. destruct H as [H1 H2].
    apply (spec_true k b q Wb). split; [congruence|].
    intros c x Fc P. pose proof (same_skel_find _ _ S c) as SF. rewrite Fc in SF.
    destruct (find_blk c a) as [xa|] eqn:Fa; [|contradiction].
    assert (Pa : bparent xa = Some q) by (unfold skel in SF; congruence).
    pose proof (H2 c xa Fa Pa) as Ca. pose proof (Cb c xa Fa Pa) as E. unfold cbt in E. rewrite Fc, Fa in E. congruence. }
  destruct (spec k l q) eqn:S1, (spec k l' q) eqn:S2; auto.
  - rewrite (G l l' W W' SK Cq Cc S1) in S2. discriminate.
  - assert (Cc' : forall c y, find_blk c l' = Some y -> bparent y = Some q -> cbt k l c = cbt k l' c).
    { intros c y Fc P. pose proof (same_skel_find _ _ SK c) as SF. rewrite Fc in SF.
      destruct (find_blk c l) as [ya|] eqn:Fa; [|contradiction]. symmetry. apply (Cc c ya Fa). unfold skel in SF. congruence. }
    rewrite (G l' l W' W (same_skel_sym _ _ SK) (eq_sym Cq) Cc' S2) in S1. discriminate.
Qed.

(* one block gets the status st' (not less usable than before), none of its children can be a tip, tryAddTip *)
Lemma tips_improve k l id x st' tps : wf l -> find_blk id l = Some x ->
  (can_be_tip k (bst x) = true -> can_be_tip k st' = true) ->
  (forall c y, find_blk c l = Some y -> bparent y = Some id -> can_be_tip k (bst y) = false) ->
  tips_ok k l tps ->
  tips_ok k (upd id (fun _ => st') l)
    (if can_be_tip k st' then set_add id (match bparent x with Some p => set_remove p tps | None => tps end) else tps).
Proof.
  intros W Fx IMP CH T q. set (l' := upd id (fun _ => st') l).
  assert (SK : same_skel l l') by apply upd_skel. pose proof (same_skel_wf _ _ SK W) as W'.
  pose proof (find_blk_bid _ _ _ Fx) as Bx.
  assert (C' : forall p, cbt k l' p = if (p =? id)%N then can_be_tip k st' else cbt k l p).
  { intros p. unfold cbt, l'. rewrite find_upd. destruct (N.eqb_spec p id) as [->|E].
    - rewrite Fx. simpl. rewrite Bx, N.eqb_refl. reflexivity.
    - destruct (find_blk p l) as [y|] eqn:Fp; simpl; auto.
      rewrite (find_blk_bid _ _ _ Fp). rewrite (proj2 (N.eqb_neq _ _) E). reflexivity. }
  assert (Cx : cbt k l id = can_be_tip k (bst x)) by (unfold cbt; rewrite Fx; reflexivity).
  (* the block itself *)
  assert (Sid : spec k l' id = can_be_tip k st').
  { destruct (can_be_tip k st') eqn:B.
    - apply (spec_true k l' id W'). split; [rewrite C', N.eqb_refl; reflexivity|].
      intros c y Fc P. pose proof (same_skel_find _ _ SK c) as SF. rewrite Fc in SF.
      destruct (find_blk c l) as [ya|] eqn:Fa; [|contradiction].
      assert (Pa : bparent ya = Some id) by (unfold skel in SF; congruence).
      pose proof (CH c ya Fa Pa) as E. pose proof (C' c) as E2. unfold cbt in E2. rewrite Fc, Fa in E2.
      destruct (N.eqb_spec c id) as [->|Nc]; [|congruence].
      exfalso. eapply (wf_parent_ne l W id ya id); eauto.
    - destruct (spec k l' id) eqn:S; auto. apply (spec_true k l' id W') in S. destruct S as [S _].
      rewrite C', N.eqb_refl in S. discriminate. }
  destruct (N.eq_dec q id) as [->|Nq].
  - rewrite Sid. destruct (can_be_tip k st') eqn:B.
    + rewrite memN_set_add, N.eqb_refl. reflexivity.
    + rewrite T. destruct (spec k l id) eqn:S; auto. apply (spec_true k l id W) in S. destruct S as [S _].
      rewrite Cx in S. specialize (IMP S). discriminate.
  - destruct (can_be_tip k st') eqn:B.
    + rewrite memN_set_add. rewrite (proj2 (N.eqb_neq _ _) Nq). simpl.
      destruct (bparent x) as [p|] eqn:Px.
      * rewrite memN_set_remove. destruct (N.eqb_spec p q) as [->|Np]; simpl.
        -- rewrite andb_false_r. symmetry. destruct (spec k l' q) eqn:S; auto.
           apply (spec_true k l' q W') in S. destruct S as [_ S].
           assert (Fx' : find_blk id l' = Some (with_st x st')).
           { unfold l'. rewrite find_upd, Fx. simpl. rewrite Bx, N.eqb_refl. reflexivity. }
           pose proof (S id _ Fx' Px) as E. simpl in E. congruence.
        -- rewrite andb_true_r, T. symmetry. apply spec_local; auto.
           ++ rewrite C'. rewrite (proj2 (N.eqb_neq _ _) Nq). reflexivity.
           ++ intros c y Fc P. rewrite C'. destruct (N.eqb_spec c id) as [->|Nc]; auto.
              exfalso. rewrite Fx in Fc. inversion Fc; subst. congruence.
      * rewrite T. symmetry. apply spec_local; auto.
        -- rewrite C'. rewrite (proj2 (N.eqb_neq _ _) Nq). reflexivity.
        -- intros c y Fc P. rewrite C'. destruct (N.eqb_spec c id) as [->|Nc]; auto.
           exfalso. rewrite Fx in Fc. inversion Fc; subst. congruence.
    + (* nothing became usable: canBeATip is the same everywhere *)
      rewrite T. symmetry. apply spec_ext; auto. intros p. rewrite C'.
      destruct (N.eqb_spec p id) as [->|Np]; auto. rewrite Cx.
      destruct (can_be_tip k (bst x)) eqn:B0; auto.
Qed.
