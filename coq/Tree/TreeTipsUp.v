(** Tree/TreeTipsUp — the tips conjunct when ONE block becomes usable and tryAddTip runs on it
    (doReValidate, connectBlock, acceptBlockHeader), and its use for revalidateSubtree. *)
From Coq Require Import ZArith NArith List Bool Lia.
From VB Require Import Tree.TreeDefs Tree.TreeInv Tree.TreePass Tree.TreeProofs Tree.TreeExact Tree.TreeMono Tree.TreeSteps
  Tree.TreeTips Tree.TreeTipsOps.
Import ListNotations.

(* the spec of q looks at q and its children only *)
Lemma spec_local k l l' q : wf l -> same_skel l l' -> cbt k l' q = cbt k l q ->
  (forall c y, find_blk c l = Some y -> bparent y = Some q -> cbt k l' c = cbt k l c) ->
  spec k l' q = spec k l q.
Proof.
  intros W SK Cq Cc. pose proof (same_skel_wf _ _ SK W) as W'.
  assert (G : forall a b, wf a -> wf b -> same_skel a b -> cbt k b q = cbt k a q ->
              (forall c y, find_blk c a = Some y -> bparent y = Some q -> cbt k b c = cbt k a c) ->
              spec k a q = true -> spec k b q = true).
  { intros a b Wa Wb S Cq' Cb H. apply (spec_true k a q Wa) in H. destruct H as [H1 H2].
    apply (spec_true k b q Wb). split; [congruence|].
    intros c x Fc P. pose proof (same_skel_find _ _ S c) as SF. rewrite Fc in SF.
    destruct (find_blk c a) as [xa|] eqn:Fa; [|contradiction].
    assert (Pa : bparent xa = Some q) by (unfold skel in SF; congruence).
    pose proof (H2 c xa Fa Pa) as Ca. pose proof (Cb c xa Fa Pa) as E. unfold cbt in E. rewrite Fc, Fa in E. congruence. }
  destruct (spec k l q) eqn:S1, (spec k l' q) eqn:S2; auto.
  - rewrite (G l l' W W' SK Cq Cc S1) in S2. discriminate.
  - assert (Cc' : forall c y, find_blk c l' = Some y -> bparent y = Some q -> cbt k l c = cbt k l' c).
    { intros c y Fc P. pose proof (same_skel_find _ _ SK c) as SF. rewrite Fc in SF.
      destruct (find_blk c l) as [ya|] eqn:Fa; [|contradiction]. symmetry. apply (Cc c ya Fa). unfold skel in SF. congruence. }
    rewrite (G l' l W' W (same_skel_sym _ _ SK) (eq_sym Cq) Cc' S2) in S1. discriminate.
Qed.

(* one block gets the status st' (not less usable than before), none of its children can be a tip, tryAddTip *)
Lemma tips_improve k l id x st' tps : wf l -> find_blk id l = Some x ->
  (can_be_tip k (bst x) = true -> can_be_tip k st' = true) ->
  (forall c y, find_blk c l = Some y -> bparent y = Some id -> can_be_tip k (bst y) = false) ->
  tips_ok k l tps ->
  tips_ok k (upd id (fun _ => st') l)
    (if can_be_tip k st' then set_add id (match bparent x with Some p => set_remove p tps | None => tps end) else tps).
Proof.
  intros W Fx IMP CH T q. set (l' := upd id (fun _ => st') l).
  assert (SK : same_skel l l') by apply upd_skel. pose proof (same_skel_wf _ _ SK W) as W'.
  pose proof (find_blk_bid _ _ _ Fx) as Bx.
  assert (C' : forall p, cbt k l' p = if (p =? id)%N then can_be_tip k st' else cbt k l p).
  { intros p. unfold cbt, l'. rewrite find_upd. destruct (N.eqb_spec p id) as [->|E].
    - rewrite Fx. simpl. rewrite Bx, N.eqb_refl. reflexivity.
    - destruct (find_blk p l) as [y|] eqn:Fp; simpl; auto.
      rewrite (find_blk_bid _ _ _ Fp). rewrite (proj2 (N.eqb_neq _ _) E). reflexivity. }
  assert (Cx : cbt k l id = can_be_tip k (bst x)) by (unfold cbt; rewrite Fx; reflexivity).
  (* the block itself *)
  assert (Sid : spec k l' id = can_be_tip k st').
  { destruct (can_be_tip k st') eqn:B.
    - apply (spec_true k l' id W'). split; [rewrite C', N.eqb_refl; reflexivity|].
      intros c y Fc P. pose proof (same_skel_find _ _ SK c) as SF. rewrite Fc in SF.
      destruct (find_blk c l) as [ya|] eqn:Fa; [|contradiction].
      assert (Pa : bparent ya = Some id) by (unfold skel in SF; congruence).
      pose proof (CH c ya Fa Pa) as E. pose proof (C' c) as E2. unfold cbt in E2. rewrite Fc, Fa in E2.
      destruct (N.eqb_spec c id) as [->|Nc]; [|congruence].
      exfalso. eapply (wf_parent_ne l W id ya id); eauto.
    - destruct (spec k l' id) eqn:S; auto. apply (spec_true k l' id W') in S. destruct S as [S _].
      rewrite C', N.eqb_refl in S. discriminate. }
  destruct (N.eq_dec q id) as [->|Nq].
  - rewrite Sid. destruct (can_be_tip k st') eqn:B.
    + rewrite memN_set_add, N.eqb_refl. reflexivity.
    + rewrite T. destruct (spec k l id) eqn:S; auto. apply (spec_true k l id W) in S. destruct S as [S _].
      rewrite Cx in S. specialize (IMP S). discriminate.
  - destruct (can_be_tip k st') eqn:B.
    + rewrite memN_set_add. rewrite (proj2 (N.eqb_neq _ _) Nq). simpl.
      destruct (bparent x) as [p|] eqn:Px.
      * rewrite memN_set_remove. destruct (N.eqb_spec p q) as [->|Np]; simpl.
        -- rewrite andb_false_r. symmetry. destruct (spec k l' q) eqn:S; auto.
           apply (spec_true k l' q W') in S. destruct S as [_ S].
           assert (Fx' : find_blk id l' = Some (with_st x st')).
           { unfold l'. rewrite find_upd, Fx. simpl. rewrite Bx, N.eqb_refl. reflexivity. }
           pose proof (S id _ Fx' Px) as E. simpl in E. congruence.
        -- rewrite andb_true_r, T. symmetry. apply spec_local; auto.
           ++ rewrite C'. rewrite (proj2 (N.eqb_neq _ _) Nq). reflexivity.
           ++ intros c y Fc P. rewrite C'. destruct (N.eqb_spec c id) as [->|Nc]; auto.
              exfalso. rewrite Fx in Fc. inversion Fc; subst. congruence.
      * rewrite T. symmetry. apply spec_local; auto.
        -- rewrite C'. rewrite (proj2 (N.eqb_neq _ _) Nq). reflexivity.
        -- intros c y Fc P. rewrite C'. destruct (N.eqb_spec c id) as [->|Nc]; auto.
           exfalso. rewrite Fx in Fc. inversion Fc; subst. congruence.
    + (* nothing became usable: canBeATip is the same everywhere *)
      rewrite T. symmetry. apply spec_ext; auto. intros p. rewrite C'.
      destruct (N.eqb_spec p id) as [->|Np]; auto. rewrite Cx.
      destruct (can_be_tip k (bst x)) eqn:B0; auto.
Qed.

(* ------------------------------------------------------------------ lists with a distinguished position *)
Lemma find_app c pre l : find_blk c (pre ++ l) = match find_blk c pre with Some y => Some y | None => find_blk c l end.
Proof.
  induction pre as [|z r IH]; simpl; auto. destruct (bid z =? c)%N; auto.
Qed.

Lemma wf_app_tail pre l : wf (pre ++ l) -> wf l.
Proof. induction pre as [|z r IH]; simpl; auto. intros (W & _ & _). auto. Qed.

Lemma wf_mid pre x r : wf (pre ++ x :: r) -> find_blk (bid x) pre = None.
Proof.
  induction pre as [|z p IH]; simpl; auto. intros (W & Hz & _).
  destruct (N.eqb_spec (bid z) (bid x)) as [E|E]; auto.
  exfalso. rewrite find_app in Hz. rewrite E in Hz. destruct (find_blk (bid x) p); [discriminate|].
  simpl in Hz. rewrite N.eqb_refl in Hz. discriminate.
Qed.

Lemma find_mid pre x r : wf (pre ++ x :: r) -> find_blk (bid x) (pre ++ x :: r) = Some x.
Proof. intros W. rewrite find_app, (wf_mid pre x r W). simpl. rewrite N.eqb_refl. reflexivity. Qed.

Lemma upd_mid pre x r f : wf (pre ++ x :: r) ->
  upd (bid x) f (pre ++ x :: r) = pre ++ with_st x (f (bst x)) :: r.
Proof.
  intros W. unfold upd. rewrite map_app. simpl. rewrite N.eqb_refl. f_equal.
  - pose proof (wf_mid pre x r W) as N. clear W. induction pre as [|z p IH]; simpl; auto.
    simpl in N. destruct (N.eqb_spec (bid z) (bid x)); [discriminate|]. f_equal. auto.
  - f_equal. pose proof (wf_app_tail pre _ W) as (_ & N & _). clear W.
    induction r as [|z p IH]; simpl; auto.
    simpl in N. destruct (N.eqb_spec (bid z) (bid x)); [discriminate|]. f_equal. auto.
Qed.

Lemma same_skel_app pre l l' : same_skel l l' -> same_skel (pre ++ l) (pre ++ l').
Proof. unfold same_skel. intros H. rewrite !map_app. congruence. Qed.

Lemma can_be_tip_unfail k st : can_be_tip k st = true -> can_be_tip k (set_fchild false st) = true.
Proof.
  unfold can_be_tip, is_valid, failed, valid_upto. simpl. intros H.
  apply andb_true_iff in H. destruct H as [D H]. apply andb_true_iff in H. destruct H as [Fd V].
  apply negb_true_iff in Fd. apply orb_false_iff in Fd. destruct Fd as [Fd _].
  rewrite D, Fd, V. reflexivity.
Qed.

Lemma can_be_tip_fchild k st : fchild st = true -> can_be_tip k st = false.
Proof. intros H. apply can_be_tip_failed. unfold failed. rewrite H. apply orb_true_r. Qed.

(* ------------------------------------------------------------------ the revalidation pass *)
Section RevalPass.
  Variable k : kind.
  Variable t : N.
  Variable l0 : list blk.
  Hypothesis W0 : wf l0.
  (* the children of the target carry FAILED_CHILD; everywhere else a failed parent implies FAILED_CHILD *)
  Hypothesis H1 : forall c y, find_blk c l0 = Some y -> bparent y = Some t -> fchild (bst y) = true.
  Hypothesis H2 : forall c y p yp, find_blk c l0 = Some y -> bparent y = Some p -> p <> t ->
                    find_blk p l0 = Some yp -> failed (bst yp) = true -> fchild (bst y) = true.

  (* the children of a block that carries FAILED_CHILD (or of the target) carry it as well *)
  Lemma children_marked q yq : find_blk q l0 = Some yq -> (q = t \/ fchild (bst yq) = true) ->
    forall c y, find_blk c l0 = Some y -> bparent y = Some q -> can_be_tip k (bst y) = false.
  Proof.
    intros Fq Hq c y Fc P. apply can_be_tip_fchild.
    destruct (N.eq_dec q t) as [->|Nq]; [eapply H1; eauto|].
    destruct Hq as [->|Cq]; [contradiction|].
    eapply (H2 c y q yq); eauto. unfold failed. rewrite Cq. apply orb_true_r.
  Qed.

  Lemma reval_pass_tips tps : tips_ok k l0 tps -> forall l pre, l0 = pre ++ l ->
    tips_ok k (pre ++ fst (fst (reval_pass k l0 t l tps))) (snd (fst (reval_pass k l0 t l tps))) /\
    same_skel l (fst (fst (reval_pass k l0 t l tps))) /\
    (forall q, memN q (snd (reval_pass k l0 t l tps)) = true ->
       q = t \/ exists y, find_blk q l0 = Some y /\ fchild (bst y) = true).
  Proof.
    intros T. induction l as [|x r IH]; intros pre E.
    - simpl. rewrite app_nil_r in *. subst pre. split; auto. split; [reflexivity|].
      intros q H. rewrite orb_false_r in H. apply N.eqb_eq in H. auto.
    - assert (E' : l0 = (pre ++ [x]) ++ r) by (rewrite <- app_assoc; exact E).
      destruct (IH (pre ++ [x]) E') as (IT & IS & IC). clear IH.
      simpl. destruct (reval_pass k l0 t r tps) as [[r' tps1] ct] eqn:M. simpl in IT, IS, IC.
      rewrite <- app_assoc in IT. simpl in IT.
      set (lm := pre ++ x :: r') in *.
      assert (SKm : same_skel l0 lm).
      { rewrite E. apply same_skel_app. unfold same_skel in *. simpl. congruence. }
      pose proof (same_skel_wf _ _ SKm W0) as Wm.
      assert (Fx0 : find_blk (bid x) l0 = Some x) by (rewrite E; apply find_mid; rewrite <- E; exact W0).
      destruct (match bparent x with Some p => memN p ct | None => false end) eqn:V; simpl.
      + (* visited *)
        destruct (bparent x) as [p|] eqn:Px; [|discriminate].
        assert (Cx : fchild (bst x) = true).
        { destruct (IC p V) as [->|(yp & Fp & Cp)]; [eapply H1; eauto|].
          destruct (N.eq_dec p t) as [->|Np]; [eapply H1; eauto|].
          eapply (H2 (bid x) x p yp); eauto. unfold failed. rewrite Cp. apply orb_true_r. }
        set (st' := set_fchild false (bst x)).
        (* the children of x are in front of x: they are the blocks of l0 *)
        assert (CH0 : forall c y, find_blk c l0 = Some y -> bparent y = Some (bid x) -> can_be_tip k (bst y) = false).
        { apply (children_marked (bid x) x Fx0). auto. }
        assert (CHm : forall c y, find_blk c lm = Some y -> bparent y = Some (bid x) -> can_be_tip k (bst y) = false).
        { intros c y Fc P. unfold lm in Fc. rewrite find_app in Fc.
          destruct (find_blk c pre) as [yc|] eqn:Fpre.
          - inversion Fc; subst yc. apply (CH0 c y); auto. rewrite E, find_app, Fpre. reflexivity.
          - exfalso. pose proof (wf_app_tail pre _ Wm) as Wt. simpl in Fc.
            destruct (N.eqb_spec (bid x) c) as [Ec|Ec].
            + inversion Fc; subst y. eapply (wf_parent_ne _ Wt (bid x) x (bid x)); eauto. simpl. rewrite N.eqb_refl. reflexivity.
            + destruct Wt as (Wr' & Nx & _). apply (wf_parent_found r' Wr' c y (bid x) Fc P). exact Nx. }
        assert (VT : is_valid_tip k l0 (bid x) st' = can_be_tip k st').
        { unfold is_valid_tip. rewrite (proj2 (nochild_spec k l0 (bid x) W0) CH0). apply andb_true_r. }
        rewrite VT.
        pose proof (tips_improve k lm (bid x) x st' tps1 Wm (find_mid pre x r' Wm)
                      (can_be_tip_unfail k (bst x)) CHm IT) as TI.
        unfold lm in TI. rewrite (upd_mid pre x r' (fun _ => st') Wm) in TI. rewrite Px in TI.
        split; [exact TI|]. split.
        * unfold same_skel in *. simpl. rewrite skel_with_st. congruence.
        * intros q Hq. destruct (failed st').
          -- apply IC, Hq.
          -- simpl in Hq. apply orb_true_iff in Hq. destruct Hq as [Hq|Hq]; [|apply IC, Hq].
             apply N.eqb_eq in Hq. subst q. right. exists x. auto.
      + split; [exact IT|]. split; [|exact IC]. unfold same_skel in *. simpl. congruence.
  Qed.
End RevalPass.
