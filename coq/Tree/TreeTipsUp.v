(** Tree/TreeTipsUp — the tips conjunct when ONE block becomes usable and tryAddTip runs on it
    (doReValidate, connectBlock, acceptBlockHeader), and its use for revalidateSubtree. *)
From Coq Require Import ZArith NArith List Bool Lia.
From VB Require Import Tree.TreeDefs Tree.TreeInv Tree.TreePass Tree.TreeProofs Tree.TreeExact Tree.TreeMono Tree.TreeSteps
  Tree.TreeTips Tree.TreeTipsOps.
Import ListNotations.

(* the spec of q looks at q and its children only *)
Lemma spec_local k l l' q : wf l -> same_skel l l' -> cbt k l' q = cbt k l q ->
  (forall c y, find_blk c l = Some y -> bparent y = Some q -> cbt k l' c = cbt k l c) ->
  spec k l' q = spec k l q.
Proof.
  intros W SK Cq Cc. pose proof (same_skel_wf _ _ SK W) as W'.
  assert (G : forall a b, wf a -> wf b -> same_skel a b -> cbt k b q = cbt k a q ->
              (forall c y, find_blk c a = Some y -> bparent y = Some q -> cbt k b c = cbt k a c) ->
              spec k a q = true -> spec k b q = true).
  { intros a b Wa Wb S Cq' Cb H. apply (spec_true k a q Wa) in H. destruct H as [H1 H2].
    apply (spec_true k b q Wb). split; [congruence|].
    intros c x Fc P. pose proof (same_skel_find _ _ S c) as SF. rewrite Fc in SF.
    destruct (find_blk c a) as [xa|] eqn:Fa; [|contradiction].
    assert (Pa : bparent xa = Some q) by (unfold skel in SF; congruence).
    pose proof (H2 c xa Fa Pa) as Ca. pose proof (Cb c xa Fa Pa) as E. unfold cbt in E. rewrite Fc, Fa in E. congruence. }
  destruct (spec k l q) eqn:S1, (spec k l' q) eqn:S2; auto.
  - rewrite (G l l' W W' SK Cq Cc S1) in S2. discriminate.
  - assert (Cc' : forall c y, find_blk c l' = Some y -> bparent y = Some q -> cbt k l c = cbt k l' c).
    { intros c y Fc P. pose proof (same_skel_find _ _ SK c) as SF. rewrite Fc in SF.
      destruct (find_blk c l) as [ya|] eqn:Fa; [|contradiction]. symmetry. apply (Cc c ya Fa). unfold skel in SF. congruence. }
    rewrite (G l' l W' W (same_skel_sym _ _ SK) (eq_sym Cq) Cc' S2) in S1. discriminate.
Qed.

(* one block gets the status st' (not less usable than before), none of its children can be a tip, tryAddTip *)
Lemma tips_improve k l id x st' tps : wf l -> find_blk id l = Some x ->
  (can_be_tip k (bst x) = true -> can_be_tip k st' = true) ->
  (forall c y, find_blk c l = Some y -> bparent y = Some id -> can_be_tip k (bst y) = false) ->
  tips_ok k l tps ->
  tips_ok k (upd id (fun _ => st') l)
    (if can_be_tip k st' then set_add id (match bparent x with Some p => set_remove p tps | None => tps end) else tps).
Proof.
  intros W Fx IMP CH T q. set (l' := upd id (fun _ => st') l).
  assert (SK : same_skel l l') by apply upd_skel. pose proof (same_skel_wf _ _ SK W) as W'.
  pose proof (find_blk_bid _ _ _ Fx) as Bx.
  assert (C' : forall p, cbt k l' p = if (p =? id)%N then can_be_tip k st' else cbt k l p).
  { intros p. unfold cbt, l'. rewrite find_upd. destruct (N.eqb_spec p id) as [->|E].
    - rewrite Fx. simpl. rewrite Bx, N.eqb_refl. reflexivity.
    - destruct (find_blk p l) as [y|] eqn:Fp; simpl; auto.
      rewrite (find_blk_bid _ _ _ Fp). rewrite (proj2 (N.eqb_neq _ _) E). reflexivity. }
  assert (Cx : cbt k l id = can_be_tip k (bst x)) by (unfold cbt; rewrite Fx; reflexivity).
  (* the block itself *)
  assert (Sid : spec k l' id = can_be_tip k st').
  { destruct (can_be_tip k st') eqn:B.
    - apply (spec_true k l' id W'). split; [rewrite C', N.eqb_refl; reflexivity|].
      intros c y Fc P. pose proof (same_skel_find _ _ SK c) as SF. rewrite Fc in SF.
      destruct (find_blk c l) as [ya|] eqn:Fa; [|contradiction].
      assert (Pa : bparent ya = Some id) by (unfold skel in SF; congruence).
      pose proof (CH c ya Fa Pa) as E. pose proof (C' c) as E2. unfold cbt in E2. rewrite Fc, Fa in E2.
      destruct (N.eqb_spec c id) as [->|Nc]; [|congruence].
      exfalso. eapply (wf_parent_ne l W id ya id); eauto.
    - destruct (spec k l' id) eqn:S; auto. apply (spec_true k l' id W') in S. destruct S as [S _].
      rewrite C', N.eqb_refl in S. discriminate. }
  destruct (N.eq_dec q id) as [->|Nq].
  - rewrite Sid. destruct (can_be_tip k st') eqn:B.
    + rewrite memN_set_add, N.eqb_refl. reflexivity.
    + rewrite T. destruct (spec k l id) eqn:S; auto. apply (spec_true k l id W) in S. destruct S as [S _].
      rewrite Cx in S. specialize (IMP S). discriminate.
  - destruct (can_be_tip k st') eqn:B.
    + rewrite memN_set_add. rewrite (proj2 (N.eqb_neq _ _) Nq). simpl.
      destruct (bparent x) as [p|] eqn:Px.
      * rewrite memN_set_remove. destruct (N.eqb_spec p q) as [->|Np]; simpl.
        -- rewrite andb_false_r. symmetry. destruct (spec k l' q) eqn:S; auto.
           apply (spec_true k l' q W') in S. destruct S as [_ S].
           assert (Fx' : find_blk id l' = Some (with_st x st')).
           { unfold l'. rewrite find_upd, Fx. simpl. rewrite Bx, N.eqb_refl. reflexivity. }
           pose proof (S id _ Fx' Px) as E. simpl in E. congruence.
        -- rewrite andb_true_r, T. symmetry. apply spec_local; auto.
           ++ rewrite C'. rewrite (proj2 (N.eqb_neq _ _) Nq). reflexivity.
           ++ intros c y Fc P. rewrite C'. destruct (N.eqb_spec c id) as [->|Nc]; auto.
              exfalso. rewrite Fx in Fc. inversion Fc; subst. congruence.
      * rewrite T. symmetry. apply spec_local; auto.
        -- rewrite C'. rewrite (proj2 (N.eqb_neq _ _) Nq). reflexivity.
        -- intros c y Fc P. rewrite C'. destruct (N.eqb_spec c id) as [->|Nc]; auto.
           exfalso. rewrite Fx in Fc. inversion Fc; subst. congruence.
    + (* nothing became usable: canBeATip is the same everywhere *)
      rewrite T. symmetry. apply spec_ext; auto. intros p. rewrite C'.
      destruct (N.eqb_spec p id) as [->|Np]; auto. rewrite Cx.
      destruct (can_be_tip k (bst x)) eqn:B0; auto.
Qed.

(* ------------------------------------------------------------------ lists with a distinguished position *)
Lemma find_app c pre l : find_blk c (pre ++ l) = match find_blk c pre with Some y => Some y | None => find_blk c l end.
Proof.
  induction pre as [|z r IH]; simpl; auto. destruct (bid z =? c)%N; auto.
Qed.

Lemma wf_app_tail pre l : wf (pre ++ l) -> wf l.
Proof. induction pre as [|z r IH]; simpl; auto. intros (W & _ & _). auto. Qed.

Lemma wf_mid pre x r : wf (pre ++ x :: r) -> find_blk (bid x) pre = None.
Proof.
  induction pre as [|z p IH]; simpl; auto. intros (W & Hz & _).
  destruct (N.eqb_spec (bid z) (bid x)) as [E|E]; auto.
  exfalso. rewrite find_app in Hz. rewrite E in Hz. destruct (find_blk (bid x) p); [discriminate|].
  simpl in Hz. rewrite N.eqb_refl in Hz. discriminate.
Qed.

Lemma find_mid pre x r : wf (pre ++ x :: r) -> find_blk (bid x) (pre ++ x :: r) = Some x.
Proof. intros W. rewrite find_app, (wf_mid pre x r W). simpl. rewrite N.eqb_refl. reflexivity. Qed.

Lemma upd_mid pre x r f : wf (pre ++ x :: r) ->
  upd (bid x) f (pre ++ x :: r) = pre ++ with_st x (f (bst x)) :: r.
Proof.
  intros W. unfold upd. rewrite map_app. simpl. rewrite N.eqb_refl. f_equal.
  - pose proof (wf_mid pre x r W) as N. clear W. induction pre as [|z p IH]; simpl; auto.
    simpl in N. destruct (N.eqb_spec (bid z) (bid x)); [discriminate|]. f_equal. auto.
  - f_equal. pose proof (wf_app_tail pre _ W) as (_ & N & _). clear W.
    induction r as [|z p IH]; simpl; auto.
    simpl in N. destruct (N.eqb_spec (bid z) (bid x)); [discriminate|]. f_equal. auto.
Qed.

Lemma same_skel_app pre l l' : same_skel l l' -> same_skel (pre ++ l) (pre ++ l').
Proof. unfold same_skel. intros H. rewrite !map_app. congruence. Qed.

Lemma can_be_tip_unfail k st : can_be_tip k st = true -> can_be_tip k (set_fchild false st) = true.
Proof.
  unfold can_be_tip, is_valid, failed, valid_upto. simpl. intros H.
  apply andb_true_iff in H. destruct H as [D H]. apply andb_true_iff in H. destruct H as [Fd V].
  apply negb_true_iff in Fd. apply orb_false_iff in Fd. destruct Fd as [Fd _].
  rewrite D, Fd, V. reflexivity.
Qed.

Lemma can_be_tip_fchild k st : fchild st = true -> can_be_tip k st = false.
Proof. intros H. apply can_be_tip_failed. unfold failed. rewrite H. apply orb_true_r. Qed.

(* ------------------------------------------------------------------ the revalidation pass *)
Section RevalPass.
  Variable k : kind.
  Variable t : N.
  Variable l0 : list blk.
  Hypothesis W0 : wf l0.
  (* the children of the target carry FAILED_CHILD; everywhere else a failed parent implies FAILED_CHILD *)
  Hypothesis H1 : forall c y, find_blk c l0 = Some y -> bparent y = Some t -> fchild (bst y) = true.
  Hypothesis H2 : forall c y p yp, find_blk c l0 = Some y -> bparent y = Some p -> p <> t ->
                    find_blk p l0 = Some yp -> failed (bst yp) = true -> fchild (bst y) = true.

  (* the children of a block that carries FAILED_CHILD (or of the target) carry it as well *)
  Lemma children_marked q yq : find_blk q l0 = Some yq -> (q = t \/ fchild (bst yq) = true) ->
    forall c y, find_blk c l0 = Some y -> bparent y = Some q -> can_be_tip k (bst y) = false.
  Proof.
    intros Fq Hq c y Fc P. apply can_be_tip_fchild.
    destruct (N.eq_dec q t) as [->|Nq]; [eapply H1; eauto|].
    destruct Hq as [->|Cq]; [contradiction|].
    eapply (H2 c y q yq); eauto. unfold failed. rewrite Cq. apply orb_true_r.
  Qed.

  Lemma reval_pass_tips tps : tips_ok k l0 tps -> forall l pre, l0 = pre ++ l ->
    tips_ok k (pre ++ fst (fst (reval_pass k l0 t l tps))) (snd (fst (reval_pass k l0 t l tps))) /\
    same_skel l (fst (fst (reval_pass k l0 t l tps))) /\
    (forall q, memN q (snd (reval_pass k l0 t l tps)) = true ->
       q = t \/ exists y, find_blk q l0 = Some y /\ fchild (bst y) = true).
  Proof.
    intros T. induction l as [|x r IH]; intros pre E.
    - simpl. rewrite app_nil_r in *. subst pre. split; auto. split; [reflexivity|].
      intros q H. rewrite orb_false_r in H. apply N.eqb_eq in H. auto.
    - assert (E' : l0 = (pre ++ [x]) ++ r) by (rewrite <- app_assoc; exact E).
      destruct (IH (pre ++ [x]) E') as (IT & IS & IC). clear IH.
      simpl. destruct (reval_pass k l0 t r tps) as [[r' tps1] ct] eqn:M. simpl in IT, IS, IC.
      rewrite <- app_assoc in IT. simpl in IT.
      set (lm := pre ++ x :: r') in *.
      assert (SKm : same_skel l0 lm).
      { rewrite E. apply same_skel_app. unfold same_skel in *. simpl. congruence. }
      pose proof (same_skel_wf _ _ SKm W0) as Wm.
      assert (Fx0 : find_blk (bid x) l0 = Some x) by (rewrite E; apply find_mid; rewrite <- E; exact W0).
      destruct (match bparent x with Some p => memN p ct | None => false end) eqn:V; simpl.
      + (* visited *)
        destruct (bparent x) as [p|] eqn:Px; [|discriminate].
        assert (Cx : fchild (bst x) = true).
        { destruct (IC p V) as [->|(yp & Fp & Cp)]; [eapply H1; eauto|].
          destruct (N.eq_dec p t) as [->|Np]; [eapply H1; eauto|].
          eapply (H2 (bid x) x p yp); eauto. unfold failed. rewrite Cp. apply orb_true_r. }
        set (st' := set_fchild false (bst x)).
        (* the children of x are in front of x: they are the blocks of l0 *)
        assert (CH0 : forall c y, find_blk c l0 = Some y -> bparent y = Some (bid x) -> can_be_tip k (bst y) = false).
        { apply (children_marked (bid x) x Fx0). auto. }
        assert (CHm : forall c y, find_blk c lm = Some y -> bparent y = Some (bid x) -> can_be_tip k (bst y) = false).
        { intros c y Fc P. unfold lm in Fc. rewrite find_app in Fc.
          destruct (find_blk c pre) as [yc|] eqn:Fpre.
          - inversion Fc; subst yc. apply (CH0 c y); auto. rewrite E, find_app, Fpre. reflexivity.
          - exfalso. pose proof (wf_app_tail pre _ Wm) as Wt. simpl in Fc.
            destruct (N.eqb_spec (bid x) c) as [Ec|Ec].
            + inversion Fc; subst y. eapply (wf_parent_ne _ Wt (bid x) x (bid x)); eauto. simpl. rewrite N.eqb_refl. reflexivity.
            + destruct Wt as (Wr' & Nx & _). apply (wf_parent_found r' Wr' c y (bid x) Fc P). exact Nx. }
        assert (VT : is_valid_tip k l0 (bid x) st' = can_be_tip k st').
        { unfold is_valid_tip. rewrite (proj2 (nochild_spec k l0 (bid x) W0) CH0). apply andb_true_r. }
        rewrite VT.
        pose proof (tips_improve k lm (bid x) x st' tps1 Wm (find_mid pre x r' Wm)
                      (can_be_tip_unfail k (bst x)) CHm IT) as TI.
        unfold lm in TI. rewrite (upd_mid pre x r' (fun _ => st') Wm) in TI. rewrite Px in TI.
        split; [exact TI|]. split.
        * unfold same_skel in *. simpl. rewrite skel_with_st. congruence.
        * intros q Hq. destruct (failed st').
          -- apply IC, Hq.
          -- simpl in Hq. apply orb_true_iff in Hq. destruct Hq as [Hq|Hq]; [|apply IC, Hq].
             apply N.eqb_eq in Hq. subst q. right. exists x. auto.
      + split; [exact IT|]. split; [|exact IC]. unfold same_skel in *. simpl. congruence.
  Qed.
End RevalPass.

(* ------------------------------------------------------------------ revalidateSubtree *)
Lemma upd_const_eq l id x f : wf l -> find_blk id l = Some x -> upd id f l = upd id (fun _ => f (bst x)) l.
Proof.
  intros W F. unfold upd. apply map_ext_in. intros y Hy.
  destruct (N.eqb_spec (bid y) id) as [E|E]; auto.
  pose proof (wf_In_find l W y Hy) as F2. rewrite E, F in F2. inversion F2; subst. reflexivity.
Qed.

Lemma can_be_tip_unreason k r st : can_be_tip k st = true -> can_be_tip k (set_reason r false st) = true.
Proof.
  unfold can_be_tip, is_valid, failed, valid_upto. destruct r; simpl;
    destruct (deleted st), (fblock st), (fpop st), (fchild st); simpl; auto; discriminate.
Qed.

Theorem revalidate_core_tips_ok s id r : Inv_flags s -> tips_ok (tkind s) (blocks s) (tips s) ->
  (forall x, find_blk id (blocks s) = Some x -> bparent x <> None) ->
  tips_ok (tkind s) (blocks (revalidate_core s id r)) (tips (revalidate_core s id r)) /\
  tkind (revalidate_core s id r) = tkind s.
Proof.
  intros I T NR. pose proof I as [W H F L]. unfold revalidate_core.
  destruct (find_blk id (blocks s)) as [x|] eqn:Fx; auto.
  destruct (has_reason r (bst x)) eqn:HR; simpl; auto.
  set (k := tkind s) in *. set (l := blocks s) in *.
  set (l1 := upd id (set_reason r false) l).
  set (st' := set_reason r false (bst x)).
  assert (Fdx : failed (bst x) = true).
  { unfold failed. destruct r; simpl in HR; rewrite HR; auto. destruct (fblock (bst x)); reflexivity. }
  (* children of the block carry FAILED_CHILD *)
  assert (CH : forall c y, find_blk c l = Some y -> bparent y = Some id -> fchild (bst y) = true).
  { intros c y Fc P. eapply (fl_ok_find l W F c y id x); eauto. }
  assert (E1 : l1 = upd id (fun _ => st') l) by (apply upd_const_eq; auto).
  assert (Wl1 : wf l1) by (eapply same_skel_wf; [apply upd_skel|auto]).
  assert (Fx1 : find_blk id l1 = Some (with_st x st')).
  { unfold l1. rewrite find_upd, Fx. simpl. rewrite (find_blk_bid _ _ _ Fx), N.eqb_refl. reflexivity. }
  (* children in l1 are the children in l *)
  assert (CH1 : forall c y, find_blk c l1 = Some y -> bparent y = Some id -> fchild (bst y) = true).
  { intros c y Fc P. unfold l1 in Fc. rewrite find_upd in Fc.
    destruct (find_blk c l) as [y0|] eqn:Fc0; [|discriminate]. simpl in Fc.
    destruct (N.eqb_spec (bid y0) id) as [Ey|Ey].
    - exfalso. inversion Fc; subst y. simpl in P. rewrite (find_blk_bid _ _ _ Fc0) in Ey. subst c.
      eapply (wf_parent_ne l W id y0 id); eauto.
    - inversion Fc; subst y. eapply CH; eauto. }
  (* doReValidate(b, reason): unsetFlag + tryAddTip *)
  assert (T1 : tips_ok k l1 (try_add_tip k l1 (tips s) id)).
  { unfold try_add_tip. rewrite Fx1. simpl.
    assert (VT : is_valid_tip k l1 id st' = can_be_tip k st').
    { unfold is_valid_tip. rewrite (proj2 (nochild_spec k l1 id Wl1)); [apply andb_true_r|].
      intros c y Fc P. apply can_be_tip_fchild. eapply CH1; eauto. }
    rewrite VT. rewrite E1.
    apply (tips_improve k l id x st' (tips s) W Fx (can_be_tip_unreason k r (bst x))); auto.
    intros c y Fc P. apply can_be_tip_fchild. eapply CH; eauto. }
  destruct (has_other_failure r (bst x)) eqn:HO; simpl; auto.
  (* the traversal of the children subtrees *)
  pose proof (reval_pass_tips k id l1 Wl1 CH1) as RP.
  assert (H2 : forall c y p yp, find_blk c l1 = Some y -> bparent y = Some p -> p <> id ->
                find_blk p l1 = Some yp -> failed (bst yp) = true -> fchild (bst y) = true).
  { intros c y p yp Fc P Np Fp Fd. unfold l1 in Fc, Fp. rewrite find_upd in Fc, Fp.
    destruct (find_blk c l) as [y0|] eqn:Fc0; [|discriminate].
    destruct (find_blk p l) as [yp0|] eqn:Fp0; [|discriminate]. simpl in Fc, Fp.
    assert (Ep : (bid yp0 =? id)%N = false) by (apply N.eqb_neq; rewrite (find_blk_bid _ _ _ Fp0); exact Np).
    rewrite Ep in Fp. inversion Fp; subst yp.
    assert (C0 : fchild (bst y0) = true).
    { eapply (fl_ok_find l W F c y0 p yp0); eauto.
      inversion Fc; subst y. destruct (bid y0 =? id)%N; simpl in P; auto. }
    inversion Fc; subst y. destruct (bid y0 =? id)%N; simpl; auto. rewrite set_reason_fchild. exact C0. }
  specialize (RP H2 (try_add_tip k l1 (tips s) id) T1 l1 [] eq_refl). simpl in RP.
  destruct (reval_pass k l1 id l1 (try_add_tip k l1 (tips s) id)) as [[l2 tp] c] eqn:M. simpl in RP. simpl.
  destruct RP as (RT & _ & _). auto.
Qed.

Lemma update_tips_kind s ord : tkind (update_tips s ord) = tkind s.
Proof. apply update_tips_blocks. Qed.

Theorem revalidate_tips_ok s id r ord s' : Inv_flags s -> tips_ok (tkind s) (blocks s) (tips s) ->
  revalidate s id r ord = Done s' -> tips_ok (tkind s') (blocks s') (tips s') /\ tkind s' = tkind s.
Proof.
  intros I T. unfold revalidate. destruct (find_blk id (blocks s)) as [x|] eqn:Fx; [|discriminate].
  destruct (deleted (bst x)); [discriminate|]. destruct (bparent x) as [pp|] eqn:Px; [|discriminate].
  assert (K : tips_ok (tkind s) (blocks (revalidate_core s id r)) (tips (revalidate_core s id r)) /\
              tkind (revalidate_core s id r) = tkind s).
  { apply revalidate_core_tips_ok; auto. intros x0 F0. rewrite Fx in F0. inversion F0; subst. congruence. }
  destruct (negb (has_reason r (bst x))); [intros E; inversion E; subst; auto|].
  destruct K as [K1 K2].
  destruct (has_other_failure r (bst x)); intros E; inversion E; subst.
  - rewrite K2. auto.
  - destruct (update_tips_blocks (revalidate_core s id r) ord) as [UB UK].
    rewrite UB, UK, update_tips_tips. rewrite K2. auto.
Qed.
