Require Extraction.
Require Import ExtrOcamlBasic.
From Coq Require Import ZArith NArith.
From VB Require Import Arith.CompactDefs.
Extraction "C18_model.ml" Nat.pred N.succ Z.succ fromBits toBits.
