Require Extraction.
Require Import ExtrOcamlBasic.
From Coq Require Import ZArith NArith.
From VB Require Import Arith.CompactDefs Arith.U256Defs.
From VB Require Import Text.TextCommon Text.HexDefs Text.Base58Defs Text.Base59Defs Text.AddressDefs.
Extraction "C18_model.ml" Nat.pred N.succ Z.succ fromBits toBits
  of_u64 getLow64 bnot inc dec neg uadd usub mul32 umul cmp ubits shl shr shl_g shr_g ubits_g udiv fromBits_b toBits_b uval
  hex_str parse_hex is_hex b58_encode b58_decode b59_encode b59_decode
  addr_from_public_key addr_to_string addr_is_derived_from_public_key addr_from_string.
