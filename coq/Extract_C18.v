Require Extraction.
Require Import ExtrOcamlBasic.
From Coq Require Import ZArith NArith.
From VB Require Import Arith.CompactDefs Arith.U256Defs.
Extraction "C18_model.ml" Nat.pred N.succ Z.succ fromBits toBits
  of_u64 getLow64 bnot inc dec neg uadd usub mul32 umul cmp ubits shl shr udiv fromBits_b toBits_b uval.
