(** Bit-level lemmas over Z that turn masks/shifts of the C++ code into
    arithmetic ([mod], [/], [*], [+]) so that [lia] can finish. Shared by the
    compact-target, serde and U256 proofs. *)
From Coq Require Import ZArith Lia Bool.
Local Open Scope Z_scope.

Lemma land_ones_mod a n : 0 <= n -> Z.land a (2 ^ n - 1) = a mod 2 ^ n.
Proof.
  intros Hn. rewrite <- Z.land_ones by exact Hn. f_equal.
  rewrite Z.ones_equiv. lia.
Qed.

Lemma testbit_high a n : 0 <= n -> 2 ^ n <= a < 2 ^ (n + 1) -> Z.testbit a n = true.
Proof.
  intros Hn [Hlo Hhi].
  assert (Hpos : 0 < a) by (pose proof (Z.pow_pos_nonneg 2 n); lia).
  assert (Hl : Z.log2 a = n).
  { apply Z.log2_unique; [exact Hn | split; [exact Hlo | replace (Z.succ n) with (n + 1) by lia; exact Hhi]]. }
  rewrite <- Hl. apply Z.bit_log2. exact Hpos.
Qed.

Lemma testbit_low a n : 0 <= a < 2 ^ n -> Z.testbit a n = false.
Proof.
  intros [Hlo Hhi].
  destruct (Z.eq_dec a 0) as [->|Hne]; [apply Z.testbit_0_l|].
  destruct (Z_lt_le_dec n 0) as [Hneg|Hn]; [apply Z.testbit_neg_r; exact Hneg|].
  apply Z.bits_above_log2; [exact Hlo|].
  apply Z.log2_lt_pow2; lia.
Qed.

Lemma land_pow2 a n : 0 <= n -> Z.land a (2 ^ n) = if Z.testbit a n then 2 ^ n else 0.
Proof.
  intros Hn. apply Z.bits_inj'. intros k Hk.
  rewrite Z.land_spec, Z.pow2_bits_eqb by exact Hn.
  destruct (Z.eqb_spec n k) as [->|Hne].
  - destruct (Z.testbit a k) eqn:E; cbn [andb].
    + rewrite Z.pow2_bits_eqb by exact Hk. symmetry. apply Z.eqb_refl.
    + symmetry. apply Z.testbit_0_l.
  - rewrite andb_false_r.
    destruct (Z.testbit a n).
    + rewrite Z.pow2_bits_eqb by exact Hn. symmetry. apply Z.eqb_neq. exact Hne.
    + symmetry. apply Z.testbit_0_l.
Qed.

Lemma land_low_mul_pow2 a b n : 0 <= n -> 0 <= a < 2 ^ n -> Z.land a (b * 2 ^ n) = 0.
Proof.
  intros Hn Ha. apply Z.bits_inj'. intros k Hk.
  rewrite Z.land_spec, Z.testbit_0_l.
  destruct (Z_lt_le_dec k n) as [Hlt|Hge].
  - rewrite Z.mul_pow2_bits_low by exact Hlt. apply andb_false_r.
  - assert (Z.testbit a k = false) as ->; [|reflexivity].
    destruct (Z.eq_dec a 0) as [->|Hne]; [apply Z.testbit_0_l|].
    apply Z.bits_above_log2; [lia|].
    assert (Z.log2 a < n) by (apply Z.log2_lt_pow2; lia). lia.
Qed.

Lemma lor_add_disjoint a b : Z.land a b = 0 -> Z.lor a b = a + b.
Proof.
  intros H. rewrite <- (Z.lxor_lor a b H). symmetry. apply Z.add_nocarry_lxor. exact H.
Qed.

Lemma lor_shiftl_add a b n : 0 <= n -> 0 <= a < 2 ^ n -> Z.lor a (Z.shiftl b n) = a + b * 2 ^ n.
Proof.
  intros Hn Ha. rewrite Z.shiftl_mul_pow2 by exact Hn.
  apply lor_add_disjoint. apply land_low_mul_pow2; assumption.
Qed.

Lemma shiftr_mul_pow2 a n : 0 <= n -> Z.shiftr (a * 2 ^ n) n = a.
Proof.
  intros Hn. rewrite Z.shiftr_div_pow2 by exact Hn.
  apply Z.div_mul. pose proof (Z.pow_pos_nonneg 2 n). lia.
Qed.

Lemma pow2_split a b : 0 <= a -> 0 <= b -> 2 ^ (a + b) = 2 ^ a * 2 ^ b.
Proof. intros. apply Z.pow_add_r; assumption. Qed.
