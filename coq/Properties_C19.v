(** C19 — property theorems only; each closed by [exact] of a lemma proved in Rules/RulesProofs.v. *)
From Coq Require Import ZArith List.
From VB Require Import Rules.RulesDefs Rules.RulesProofs.
Import ListNotations.
Local Open Scope Z_scope.

(** publication data generated for block e (context info = createFromPrevious of e's parent), delivered with a
    connecting block of proof into any block c that has e on its own chain no more than the settlement interval
    below — on any fork — satisfies the contextual rules *)
Theorem C19_honest_satisfies_ctx_valid :
  forall W P c K id e bop,
    alt_known W e = true -> is_anc_or_eq (alts W) e c -> within (alts W) c e (p_settle P) ->
    vbk_connects W K bop ->
    atv_valid W P c K (honest_atv W (p_ki P) id e bop).
Proof. exact honest_satisfies_ctx_valid. Qed.
Print Assumptions C19_honest_satisfies_ctx_valid.

(** a block whose body is honest (connecting VBK context, valid VTBs, honest ATVs, fresh ids) is accepted by the
    commands as coded *)
Theorem C19_honest_block_accepted :
  forall W P s c ctx vtbs specs,
    let b := mkBody ctx vtbs (mk_honest W P specs) in
    no_dup_on_chain s b -> ctx_connects W (vknown s) ctx ->
    vtbs_valid W P (mkSt (known_after (vknown s) ctx) (brefs s) (vin s) (seen s)) vtbs ->
    honest_atvs W P c (known_after (vknown s) ctx) specs ->
    exec_block W P s c b = inl (after_block s b).
Proof. exact honest_block_accepted. Qed.
Print Assumptions C19_honest_block_accepted.

(** honest activity never gets a block refused: a chain of valid blocks applies completely *)
Theorem C19_valid_chain_never_refused :
  forall W P s ch, chain_valid W P s ch -> apply_chain W P s ch = VOk (after_chain s ch).
Proof. exact valid_chain_never_refused. Qed.
Print Assumptions C19_valid_chain_never_refused.
