(** C19 — property theorems only; each closed by [exact] of a lemma proved in Rules/RulesProofs.v. *)
From Coq Require Import ZArith List.
From VB Require Import Rules.RulesDefs Rules.RulesProofs.
Import ListNotations.
Local Open Scope Z_scope.

(** publication data generated for block e (context info = createFromPrevious of e's parent), delivered with a
    connecting block of proof into any block c that has e on its own chain no more than the settlement interval
    below — on any fork — satisfies the contextual rules *)
Theorem C19_honest_satisfies_ctx_valid :
  forall W P c K id e bop,
    alt_known W e = true -> is_anc_or_eq (alts W) e c -> within (alts W) c e (p_settle P) ->
    vbk_connects W K bop ->
    atv_valid W P c K (honest_atv W (p_ki P) id e bop).
Proof. exact honest_satisfies_ctx_valid. Qed.
Print Assumptions C19_honest_satisfies_ctx_valid.

(** a block whose body is honest (connecting VBK context, valid VTBs, honest ATVs, fresh ids) is accepted by the
    commands as coded *)
Theorem C19_honest_block_accepted :
  forall W P s c ctx vtbs specs,
    let b := mkBody ctx vtbs (mk_honest W P specs) in
    no_dup_on_chain s b -> ctx_connects W (vknown s) ctx ->
    vtbs_valid W P (mkSt (known_after (vknown s) ctx) (brefs s) (vin s) (seen s)) vtbs ->
    honest_atvs W P c (known_after (vknown s) ctx) specs ->
    exec_block W P s c b = inl (after_block s b).
Proof. exact honest_block_accepted. Qed.
Print Assumptions C19_honest_block_accepted.

(** honest activity never gets a block refused: a chain of valid blocks applies completely *)
Theorem C19_valid_chain_never_refused :
  forall W P s ch, chain_valid W P s ch -> apply_chain W P s ch = VOk (after_chain s ch).
Proof. exact valid_chain_never_refused. Qed.
Print Assumptions C19_valid_chain_never_refused.

(** * Honest VTBs, exact settlement windows, fork independence (Rules/C19HonestDefs.v, C19Honest.v, C19Window.v) *)
From VB Require Import Rules.C19HonestDefs Rules.C19Honest Rules.C19Window.

(** the VTBs an honest pop miner builds for one ALT block (endorsed block = the block of the containing block's own
    chain at the chosen height; BTC context = MockMiner::getBlocks from the block of proof down to the nearest BTC
    block the chain already references, each VTB knowing the blocks of the earlier ones) satisfy the contextual
    rules in the state after the block's VBK context.  Premises: containing block delivered, timeliness, at most
    MAX_VBKPOPTX_PER_VBK_BLOCK per VBK block, honest BTC clocks, the known VBK blocks are parent-closed. *)
Theorem C19_honest_vtbs_valid :
  forall W P, btc_clock_ok W ->
  forall sps s ws,
    honest_vtbs W s sps = Some ws ->
    honest_vtb_specs W P s sps -> vclosed W (vknown s) ->
    vtbs_valid W P s ws.
Proof. exact honest_vtbs_valid. Qed.
Print Assumptions C19_honest_vtbs_valid.

(** the construction exists whenever the miner's chain has a block at the endorsed height and some strict ancestor
    of the block of proof is referenced by the chain before the block's VTBs *)
Theorem C19_honest_vtbs_buildable :
  forall W sps s,
    (forall sp, In sp sps -> spec_buildable W (brefs s) sp) -> exists ws, honest_vtbs W s sps = Some ws.
Proof. exact honest_vtbs_succeed. Qed.
Print Assumptions C19_honest_vtbs_buildable.

(** parent-closure of the known VBK blocks holds in every state reached by a valid chain *)
Theorem C19_known_vbk_parent_closed :
  forall W P ch,
    parent_of (vbks W) 0 = None -> chain_valid W P st0 ch -> vclosed W (vknown (after_chain st0 ch)).
Proof. exact vclosed_reachable. Qed.
Print Assumptions C19_known_vbk_parent_closed.

(** FULL: a block whose whole body is honest is accepted by the commands as coded — no validity premise about any
    payload: honesty of the construction, timeliness, connecting context, no duplicate on the chain *)
Theorem C19_honest_block_accepted_full :
  forall W P s c ctx vspecs vtbs specs,
    let K := known_after (vknown s) ctx in
    let s1 := mkSt K (brefs s) (vin s) (seen s) in
    let b := mkBody ctx vtbs (mk_honest W P specs) in
    honest_vtbs W s1 vspecs = Some vtbs ->
    honest_vtb_specs W P s1 vspecs ->
    honest_atvs W P c K specs ->
    ctx_connects W (vknown s) ctx ->
    no_dup_on_chain s b ->
    vclosed W (vknown s) -> btc_clock_ok W ->
    exec_block W P s c b = inl (after_block s b).
Proof. exact honest_block_accepted_full. Qed.
Print Assumptions C19_honest_block_accepted_full.

(** ... at the end of any valid chain from the bootstrap state (the closure premise is discharged) *)
Theorem C19_honest_block_accepted_on_any_chain :
  forall W P pre c ctx vspecs vtbs specs,
    let s := after_chain st0 pre in
    let K := known_after (vknown s) ctx in
    let s1 := mkSt K (brefs s) (vin s) (seen s) in
    let b := mkBody ctx vtbs (mk_honest W P specs) in
    parent_of (vbks W) 0 = None -> btc_clock_ok W ->
    chain_valid W P st0 pre ->
    honest_vtbs W s1 vspecs = Some vtbs ->
    honest_vtb_specs W P s1 vspecs ->
    honest_atvs W P c K specs ->
    ctx_connects W (vknown s) ctx ->
    no_dup_on_chain s b ->
    apply_chain W P st0 (pre ++ [(c, b)]) = VOk (after_block s b).
Proof. exact honest_block_accepted_reachable. Qed.
Print Assumptions C19_honest_block_accepted_on_any_chain.

(** "timely" is exact: an otherwise honest ATV is accepted iff the endorsed block is on the containing block's chain
    within the settlement interval ... *)
Theorem C19_atv_accepted_iff_timely :
  forall W P c K id e bop,
    alt_known W e = true -> vbk_connects W K bop ->
    ((exists K', exec_atv W P c K (honest_atv W (p_ki P) id e bop) = inl K')
     <-> is_anc_or_eq (alts W) e c /\ within (alts W) c e (p_settle P)).
Proof. exact honest_atv_accepted_iff. Qed.
Print Assumptions C19_atv_accepted_iff_timely.

(** ... the inequality is NON-strict, height(containing) - height(endorsed) <= settle (as AddEndorsement::Execute:
    refused iff the difference > settle), and beyond it the verdict is exactly "expired" *)
Theorem C19_atv_window_exact :
  forall W P c K id e bop he hc,
    alt_known W e = true -> vbk_connects W K bop -> is_anc_or_eq (alts W) e c ->
    height_of (alts W) e = Some he -> height_of (alts W) c = Some hc ->
    let t := honest_atv W (p_ki P) id e bop in
    (exec_atv W P c K t = inl (add_known K bop) <-> hc - he <= p_settle P)
    /\ (exec_atv W P c K t = inr EExpired <-> p_settle P < hc - he).
Proof. exact honest_atv_window_exact. Qed.
Print Assumptions C19_atv_window_exact.

Theorem C19_atv_window_plus_one_accepted_refuted :
  ~ (forall W P c K id e bop he hc,
       alt_known W e = true -> vbk_connects W K bop -> is_anc_or_eq (alts W) e c ->
       height_of (alts W) e = Some he -> height_of (alts W) c = Some hc ->
       hc - he <= p_settle P + 1 ->
       exists K', exec_atv W P c K (honest_atv W (p_ki P) id e bop) = inl K').
Proof. exact atv_window_plus_one_accepted_refuted. Qed.
Print Assumptions C19_atv_window_plus_one_accepted_refuted.

Theorem C19_atv_window_exactly_rejected_refuted :
  ~ (forall W P c K id e bop he hc,
       alt_known W e = true -> vbk_connects W K bop -> is_anc_or_eq (alts W) e c ->
       height_of (alts W) e = Some he -> height_of (alts W) c = Some hc ->
       p_settle P <= hc - he ->
       exists err, exec_atv W P c K (honest_atv W (p_ki P) id e bop) = inr err).
Proof. exact atv_window_exactly_rejected_refuted. Qed.
Print Assumptions C19_atv_window_exactly_rejected_refuted.

(** the VBK settlement interval of an honestly built VTB: same non-strict inequality, same template in the code *)
Theorem C19_vtb_window_exact :
  forall W P s sp w hc,
    honest_vtb W (brefs s) sp = Some w ->
    In (vs_cont sp) (vknown s) -> vclosed W (vknown s) -> btc_clock_ok W ->
    count (vs_cont sp) (vin s) < p_maxvtb P ->
    height_of (vbks W) (vs_cont sp) = Some hc ->
    (exec_vtb W P s w = inl (after_vtb s w) <-> hc - vs_eh sp <= p_vsettle P)
    /\ (exec_vtb W P s w = inr EVExpired <-> p_vsettle P < hc - vs_eh sp).
Proof. exact honest_vtb_window_exact. Qed.
Print Assumptions C19_vtb_window_exact.

Theorem C19_vtb_window_plus_one_accepted_refuted :
  ~ (forall W P s sp w hc,
       honest_vtb W (brefs s) sp = Some w ->
       In (vs_cont sp) (vknown s) -> vclosed W (vknown s) -> btc_clock_ok W ->
       count (vs_cont sp) (vin s) < p_maxvtb P ->
       height_of (vbks W) (vs_cont sp) = Some hc ->
       hc - vs_eh sp <= p_vsettle P + 1 ->
       exists s', exec_vtb W P s w = inl s').
Proof. exact vtb_window_plus_one_accepted_refuted. Qed.
Print Assumptions C19_vtb_window_plus_one_accepted_refuted.

Theorem C19_vtb_window_exactly_rejected_refuted :
  ~ (forall W P s sp w hc,
       honest_vtb W (brefs s) sp = Some w ->
       In (vs_cont sp) (vknown s) -> vclosed W (vknown s) -> btc_clock_ok W ->
       count (vs_cont sp) (vin s) < p_maxvtb P ->
       height_of (vbks W) (vs_cont sp) = Some hc ->
       p_vsettle P <= hc - vs_eh sp ->
       exists err, exec_vtb W P s w = inr err).
Proof. exact vtb_window_exactly_rejected_refuted. Qed.
Print Assumptions C19_vtb_window_exactly_rejected_refuted.

(** fork independence: at the end of ANY valid chain of bodies, in ANY block that has the endorsed block on its
    chain within the window, the honest endorsement is accepted *)
Theorem C19_honest_atv_any_fork :
  forall W P s0 pre c id e bop,
    let s := after_chain s0 pre in
    let b := mkBody [] [] [honest_atv W (p_ki P) id e bop] in
    chain_valid W P s0 pre ->
    alt_known W e = true -> is_anc_or_eq (alts W) e c -> within (alts W) c e (p_settle P) ->
    vbk_connects W (vknown s) bop -> ~ In (2, id) (seen s) ->
    apply_chain W P s0 (pre ++ [(c, b)]) = VOk (after_block s b).
Proof. exact honest_atv_any_fork. Qed.
Print Assumptions C19_honest_atv_any_fork.

Theorem C19_honest_atv_two_forks :
  forall W P pre1 pre2 c1 c2 id e bop,
    let b := mkBody [] [] [honest_atv W (p_ki P) id e bop] in
    alt_known W e = true ->
    (forall pre c, In (pre, c) [(pre1, c1); (pre2, c2)] ->
       chain_valid W P st0 pre /\ is_anc_or_eq (alts W) e c /\ within (alts W) c e (p_settle P)
       /\ vbk_connects W (vknown (after_chain st0 pre)) bop /\ ~ In (2, id) (seen (after_chain st0 pre))) ->
    apply_chain W P st0 (pre1 ++ [(c1, b)]) = VOk (after_block (after_chain st0 pre1) b)
    /\ apply_chain W P st0 (pre2 ++ [(c2, b)]) = VOk (after_block (after_chain st0 pre2) b).
Proof. exact honest_atv_two_forks. Qed.
Print Assumptions C19_honest_atv_two_forks.

(** acceptance transfers between containing blocks: what block c accepts, every block c' with the endorsed block
    on its chain and height <= endorsed + settle accepts with the same result (any ATV, same connecting context) *)
Theorem C19_atv_accept_transfers :
  forall W P c c' K t K' he h',
    exec_atv W P c K t = inl K' ->
    is_anc_or_eq (alts W) (t_endorsed t) c' ->
    height_of (alts W) (t_endorsed t) = Some he -> height_of (alts W) c' = Some h' ->
    h' <= he + p_settle P ->
    exec_atv W P c' K t = inl K'.
Proof. exact atv_accept_transfers. Qed.
Print Assumptions C19_atv_accept_transfers.

(** along c's own chain: the block at every height from the endorsed height up to c accepts it too *)
Theorem C19_atv_accept_monotone_along_chain :
  forall W P c K t K' he hc h' c',
    exec_atv W P c K t = inl K' ->
    height_of (alts W) (t_endorsed t) = Some he -> height_of (alts W) c = Some hc ->
    he <= h' -> h' <= hc -> ancestor_at (alts W) c h' = Some c' ->
    exec_atv W P c' K t = inl K'.
Proof. exact atv_accept_monotone_below. Qed.
Print Assumptions C19_atv_accept_monotone_along_chain.

(** until the window closes: above endorsed + settle the same ATV is refused as expired *)
Theorem C19_atv_window_closes :
  forall W P c c' K t K' he h',
    exec_atv W P c K t = inl K' ->
    is_anc_or_eq (alts W) (t_endorsed t) c' ->
    height_of (alts W) (t_endorsed t) = Some he -> height_of (alts W) c' = Some h' ->
    he + p_settle P < h' ->
    exec_atv W P c' K t = inr EExpired.
Proof. exact atv_window_closes. Qed.
Print Assumptions C19_atv_window_closes.

(** the premises of the full theorem are satisfiable by a block with VBK context, three VTBs (one at the exact VBK
    window boundary, two in one VBK block, a BTC fork) and two ATVs (one at the exact ALT window boundary) *)
Theorem C19_full_premises_satisfiable :
  let ctx := [1; 2; 3; 4; 5] in
  let vtbs := [mkVtb 11 2 3 0 [1; 2]; mkVtb 12 2 4 2 [3; 4]; mkVtb 13 3 4 2 [5]] in
  let specs := [(21, 1, 5); (22, 3, 4)] in
  honest_vtbs hxW hx_s1 hx_specs = Some vtbs
  /\ honest_vtb_specs hxW hxP hx_s1 hx_specs
  /\ honest_atvs hxW hxP 4 (known_after (vknown st0) ctx) specs
  /\ ctx_connects hxW (vknown st0) ctx
  /\ no_dup_on_chain st0 (mkBody ctx vtbs (mk_honest hxW hxP specs))
  /\ vclosed hxW (vknown st0) /\ btc_clock_ok hxW.
Proof. exact hx_full_premises. Qed.
Print Assumptions C19_full_premises_satisfiable.

(** * The honest construction is the shortest connecting one (Rules/C19Minimal.v) — the construction that the
    correspondence stage runs against MockMiner::createVTB (extracted [honest_vtbs] vs the payloads the library built) *)
From VB Require Import Rules.C19Minimal.

(** an honestly built VTB sits in the chosen containing block, endorses the block of the containing block's own chain
    at the chosen height, its BTC context starts right after a block the chain references at or below the containing
    block, ends with the block of proof, and re-sends NO block the chain already references there *)
Theorem C19_honest_vtb_context_minimal :
  forall W R sp w,
    honest_vtb W R sp = Some w ->
    w_containing w = vs_cont sp
    /\ ancestor_at (vbks W) (vs_cont sp) (vs_eh sp) = Some (w_endorsed w)
    /\ btc_ref_ok W R (w_conn w) (vs_cont sp) = true
    /\ exists pre, w_bctx w = pre ++ [vs_bop sp] /\ forall b, In b pre -> btc_ref_ok W R b (vs_cont sp) = false.
Proof. exact honest_vtb_context_minimal. Qed.
Print Assumptions C19_honest_vtb_context_minimal.

(** witness: two VTBs of one block in the example world; the second one skips the two BTC blocks the first made known *)
Theorem C19_honest_vtb_context_minimal_satisfiable :
  honest_vtbs hxW (mkSt [0; 1; 2; 3; 4; 5] [(0, -1)] [] [])
              [mkVtbSpec 11 3 2 2; mkVtbSpec 12 4 2 4]
  = Some [mkVtb 11 2 3 0 [1; 2]; mkVtb 12 2 4 2 [3; 4]].
Proof. exact honest_vtb_context_minimal_ex. Qed.
Print Assumptions C19_honest_vtb_context_minimal_satisfiable.

(** * "... and then counts in fork resolution" in the comparator as coded (Rules/C19ForkRes.v, on the model of
    comparePopScoreImpl of Score/CmpDefs.v — ONE template for the ALT tree and the VBK tree) *)
From VB Require Import Score.CInt Score.CmpDefs Score.CmpProofs Rules.C19ForkRes.

(** a chain whose first compared keystone has a publication (at height p of the chain below: BTC for VBK forks, VBK
    for ALT forks) beats a chain whose keystone was never published — positive when it is the first argument,
    negative when it is the second; for every configuration with a non-zero first table weight *)
Theorem C19_endorsement_counts_in_comparator :
  forall c p,
    table_ok c -> fd_ok c -> 0 < tbl c 0 ->
    0 <= p -> p + fd c < NO_ENDORSEMENT -> p + Z.of_nat (length (table c)) <= NO_ENDORSEMENT ->
    budget_ok c 1 ->
    (exists r, impl c (real_view [Some p]) (real_view [None]) = Ok r /\ 0 < r)
    /\ (exists r, impl c (real_view [None]) (real_view [Some p]) = Ok r /\ r < 0).
Proof. exact endorsement_counts. Qed.
Print Assumptions C19_endorsement_counts_in_comparator.

(** ... unconditionally for the parameters of the library's VBK tree (VTB endorsements published in BTC) and ALT tree *)
Theorem C19_endorsement_counts_vbk_and_alt_params :
  forall p, 0 <= p <= 2000000000 ->
  forall c, c = vbk_cfg \/ c = alt_cfg ->
    (exists r, impl c (real_view [Some p]) (real_view [None]) = Ok r /\ 0 < r)
    /\ (exists r, impl c (real_view [None]) (real_view [Some p]) = Ok r /\ r < 0).
Proof. exact endorsement_counts_default. Qed.
Print Assumptions C19_endorsement_counts_vbk_and_alt_params.

Theorem C19_endorsement_counts_satisfiable :
  table_ok vbk_cfg /\ fd_ok vbk_cfg /\ 0 < tbl vbk_cfg 0 /\ 7 + fd vbk_cfg < NO_ENDORSEMENT
  /\ 7 + Z.of_nat (length (table vbk_cfg)) <= NO_ENDORSEMENT /\ budget_ok vbk_cfg 1
  /\ impl vbk_cfg (real_view [Some 7]) (real_view [None]) = Ok (tbl vbk_cfg 0).
Proof. exact endorsement_counts_ex. Qed.
Print Assumptions C19_endorsement_counts_satisfiable.
