Require Extraction.
Require Import ExtrOcamlBasic.
From Coq Require Import ZArith NArith Strings.Byte.
From VB Require Import Bfi.BfiDefs.
Extraction "Bfi_model.ml" Nat.pred N.succ Z.succ Byte.to_N byte_of_N
  MAX_SIZE write_compact read_compact size_of_compact
  c_uint c_sint c_compact c_blob c_bytes c_vec c_pair c_map
  c_outpoint c_txin c_txout c_wstack c_tx c_header c_block enc dec ssize.
