Require Extraction.
Require Import ExtrOcamlBasic.
From Coq Require Import ZArith NArith.
From VB Require Import Mempool.RelDefs.
Extraction "Rel_model.ml" Nat.pred N.succ Z.succ
  RelDefs.rstep RelDefs.mp0 RelDefs.knownA RelDefs.knownV RelDefs.knownB RelDefs.rel_of.
