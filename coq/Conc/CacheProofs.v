(** C17 — value transparency of the caches, for all request sequences and all interleavings *)
From Coq Require Import List Arith Bool NArith Lia.
From VB Require Import Conc.ValidatorDefs Conc.ListUpd Conc.CacheDefs.
Import ListNotations.

Lemma Forall_upd : forall A (P : A -> Prop) l i x, Forall P l -> P x -> Forall P (upd i (fun _ => x) l).
Proof.
  induction l; destruct i; simpl; intros; auto; inversion H; subst; constructor; auto.
Qed.

Lemma in_map_upd : forall A B (g : A -> B) l i x y,
  In y (map g (upd i (fun _ => x) l)) -> y = g x \/ In y (map g l).
Proof.
  induction l; destruct i; simpl; intros; auto.
  - destruct H; auto.
  - destruct H; auto. apply IHl in H. tauto.
Qed.

Lemma NoDup_map_upd : forall A B (g : A -> B) l i x,
  NoDup (map g l) -> ~ In (g x) (map g l) -> NoDup (map g (upd i (fun _ => x) l)).
Proof.
  induction l; destruct i; simpl; intros; auto.
  - inversion H; subst. constructor; auto.
  - inversion H; subst. constructor.
    + intros X. apply in_map_upd in X. destruct X as [X | X]; [apply H0; left; auto | contradiction].
    + apply IHl; auto.
Qed.

Lemma NoDup_app_one : forall A (l : list A) x, NoDup l -> ~ In x l -> NoDup (l ++ [x]).
Proof.
  induction l; simpl; intros.
  - constructor; auto; constructor.
  - inversion H; subst. constructor.
    + intros X. apply in_app_or in X. destruct X as [X | [X | []]]; [contradiction | subst; apply H0; auto].
    + apply IHl; auto.
Qed.

Lemma in_firstn : forall A (l : list A) n x, In x (firstn n l) -> In x l.
Proof. induction l; destruct n; simpl; intros; auto; try tauto. destruct H; auto. right; eauto. Qed.

Lemma NoDup_firstn : forall A (l : list A) n, NoDup l -> NoDup (firstn n l).
Proof.
  induction l; destruct n; simpl; intros; auto; try constructor.
  - inversion H; subst. intros X. apply in_firstn in X. auto.
  - inversion H; subst. auto.
Qed.

Lemma Forall_firstn : forall A (P : A -> Prop) (l : list A) n, Forall P l -> Forall P (firstn n l).
Proof. intros. apply Forall_forall. intros x Hx. apply in_firstn in Hx. rewrite Forall_forall in H. auto. Qed.

Section CacheProofs.
Variables Hdr Key Ep Ent V : Type.
Variable hk : Hdr -> Key.
Variable key_eqb : Key -> Key -> bool.
Variable ep : Hdr -> Ep.
Variable ep_eqb : Ep -> Ep -> bool.
Variable mk : Ep -> Ent.
Variable hash : Hdr -> Ent -> V.
Variable is_zero : V -> bool.
Variable zero : V.

Hypothesis key_eqb_spec : forall a b, key_eqb a b = true <-> a = b.
Hypothesis ep_eqb_spec : forall a b, ep_eqb a b = true <-> a = b.
(** sha256twice is treated as collision-free on headers *)
Hypothesis hk_inj : forall h1 h2, hk h1 = hk h2 -> h1 = h2.
Hypothesis zero_is_zero : is_zero zero = true.

Notation f := (f Hdr Ep Ent V ep mk hash).
Notation item := (item Ep Ent).
Notation lfru_get := (lfru_get Ep Ent ep_eqb).
Notation lfru_insert := (lfru_insert Ep Ent).
Notation lfru_get_or_default := (lfru_get_or_default Ep Ent ep_eqb mk).
Notation lfru_run := (lfru_run Ep Ent ep_eqb mk).
Notation lru_find := (lru_find Key V key_eqb).
Notation lru_insert := (lru_insert Key V key_eqb).
Notation lru_try_get := (lru_try_get Key V key_eqb).
Notation sys_step := (sys_step Hdr Key Ep Ent V hk key_eqb ep ep_eqb mk hash).
Notation sys_run := (sys_run Hdr Key Ep Ent V hk key_eqb ep ep_eqb mk hash).
Notation blk_step := (blk_step Hdr V is_zero zero).

(* ---------------- LFRU ---------------- *)

Definition item_ok (it : item) : Prop := ival _ _ it = mk (ikey _ _ it).

Definition lfru_ok (size : nat) (l : list item) : Prop :=
  Forall item_ok l /\ NoDup (map (ikey _ _) l) /\ (length l <= size)%nat.

Lemma lfru_get_some : forall k now l v l',
  lfru_get k now l = Some (v, l') ->
  (Forall item_ok l -> v = mk k /\ Forall item_ok l') /\
  map (ikey _ _) l' = map (ikey _ _) l /\ length l' = length l.
Proof.
  induction l as [| it r IH]; simpl; intros v l' H; try discriminate.
  destruct (ep_eqb (ikey _ _ it) k) eqn:E.
  - inversion H; subst; clear H. apply ep_eqb_spec in E. split; [| split; reflexivity].
    intros F. inversion F; subst. split.
    + unfold item_ok in H1. rewrite H1. reflexivity.
    + constructor; auto.
  - destruct (lfru_get k now r) as [[v' r'] |] eqn:G; try discriminate.
    inversion H; subst; clear H. destruct (IH _ _ eq_refl) as [A [B C]].
    split; [| split; simpl; congruence].
    intros F. inversion F; subst. destruct (A H2). split; auto.
Qed.

Lemma lfru_get_none : forall k now l, lfru_get k now l = None -> ~ In k (map (ikey _ _) l).
Proof.
  induction l as [| it r IH]; simpl; intros H; auto.
  destruct (ep_eqb (ikey _ _ it) k) eqn:E; try discriminate.
  destruct (lfru_get k now r) as [[v' r'] |] eqn:G; try discriminate.
  intros [X | X].
  - apply ep_eqb_spec in X. congruence.
  - apply IH; auto.
Qed.

Lemma lfru_insert_ok : forall size tw k now l,
  lfru_ok size l -> ~ In k (map (ikey _ _) l) -> lfru_ok size (lfru_insert size tw k (mk k) now l).
Proof.
  unfold lfru_ok, lfru_insert. intros size tw k now l [A [B C]] NI.
  destruct (length l <? size)%nat eqn:L.
  - apply Nat.ltb_lt in L. split; [| split].
    + apply Forall_app. split; auto. constructor; auto. reflexivity.
    + rewrite map_app. simpl. apply NoDup_app_one; auto.
    + rewrite app_length. simpl. lia.
  - split; [| split].
    + apply Forall_upd; auto. reflexivity.
    + apply NoDup_map_upd; auto.
    + rewrite upd_length. auto.
Qed.

Lemma lfru_god_ok : forall size tw k now l e hit l',
  lfru_ok size l -> lfru_get_or_default size tw k now l = (e, hit, l') ->
  e = mk k /\ lfru_ok size l'.
Proof.
  unfold CacheDefs.lfru_get_or_default. intros size tw k now l e hit l' OK H.
  destruct (lfru_get k now l) as [[v r] |] eqn:G.
  - inversion H; subst; clear H. destruct (lfru_get_some _ _ _ _ _ G) as [A [B C]].
    destruct OK as [O1 [O2 O3]]. destruct (A O1). split; auto.
    unfold lfru_ok. rewrite B, C. auto.
  - inversion H; subst; clear H. split; auto.
    apply lfru_insert_ok; auto. eapply lfru_get_none; eauto.
Qed.

Definition lfru_expected (ops : list (lfru_op Ep)) : list (option Ent) :=
  map (fun o => match o with FGet _ k _ => Some (mk k) | FClear _ => None end) ops.

Lemma lfru_transparent_lemma : forall size tw ops l,
  lfru_ok size l ->
  fst (lfru_run size tw ops l) = lfru_expected ops /\ lfru_ok size (snd (lfru_run size tw ops l)).
Proof.
  induction ops as [| o r IH]; simpl; intros l OK; auto.
  destruct o as [k now |]; simpl.
  - destruct (lfru_get_or_default size tw k now l) as [[e hit] l'] eqn:G.
    destruct (lfru_god_ok _ _ _ _ _ _ _ _ OK G) as [E OK'].
    destruct (IH l' OK') as [A B].
    destruct (lfru_run size tw r l') as [as_ l'']. simpl in *. subst. auto.
  - assert (OK' : lfru_ok size []). { unfold lfru_ok; simpl. split; [constructor |]. split; [constructor | lia]. }
    destruct (IH [] OK') as [A B].
    destruct (lfru_run size tw r []) as [as_ l'']. simpl in *. subst. auto.
Qed.

(* ---------------- LRU ---------------- *)

Definition kv_ok (kv : Key * V) : Prop := exists h, fst kv = hk h /\ snd kv = f h.

Definition lru_ok (maxsize elast : nat) (l : list (Key * V)) : Prop :=
  Forall kv_ok l /\ NoDup (map fst l) /\ (maxsize = O \/ length l <= maxsize + elast)%nat.

Lemma lru_find_some : forall k l v r,
  lru_find k l = Some (v, r) ->
  In (k, v) l /\ (forall P : Key * V -> Prop, Forall P l -> Forall P r) /\
  (NoDup (map fst l) -> NoDup (map fst r) /\ ~ In k (map fst r)) /\ length l = S (length r).
Proof.
  induction l as [| [k' v'] l IH]; simpl; intros v r H; try discriminate.
  destruct (key_eqb k' k) eqn:E.
  - inversion H; subst; clear H. apply key_eqb_spec in E. subst k'.
    split; [left; auto |]. split; [intros P F; inversion F; auto |]. split; auto.
    intros N. inversion N; subst. auto.
  - destruct (lru_find k l) as [[v'' r'] |] eqn:G; try discriminate.
    inversion H; subst; clear H. destruct (IH _ _ eq_refl) as [A [B [C D]]].
    split; [right; auto |]. split; [| split].
    + intros P F. inversion F; subst. constructor; auto.
    + intros N. inversion N; subst. destruct (C H2) as [C1 C2]. simpl. split.
      * constructor; auto. intros X. apply H1.
        apply in_map_iff in X. destruct X as [[a b] [X1 X2]]. simpl in X1. subst a.
        assert (Forall (fun kv => In kv l) r') by (apply (B (fun kv => In kv l)); apply Forall_forall; auto).
        rewrite Forall_forall in H. apply in_map_iff. exists (k', b). split; auto.
      * intros [X | X]; auto. apply key_eqb_spec in X. congruence.
    + simpl. lia.
Qed.

Lemma lru_find_none : forall k l, lru_find k l = None -> ~ In k (map fst l).
Proof.
  induction l as [| [k' v'] l IH]; simpl; intros H; auto.
  destruct (key_eqb k' k) eqn:E; try discriminate.
  destruct (lru_find k l) as [[v'' r'] |] eqn:G; try discriminate.
  intros [X | X].
  - apply key_eqb_spec in X. congruence.
  - apply IH; auto.
Qed.

Lemma lru_insert_ok : forall maxsize elast h l,
  lru_ok maxsize elast l -> lru_ok maxsize elast (lru_insert maxsize elast (hk h) (f h) l).
Proof.
  unfold lru_ok, CacheDefs.lru_insert. intros maxsize elast h l [A [B C]].
  assert (KV : kv_ok (hk h, f h)) by (exists h; auto).
  destruct (lru_find (hk h) l) as [[v r] |] eqn:G.
  - destruct (lru_find_some _ _ _ _ G) as [I [F [N L]]]. destruct (N B) as [N1 N2].
    split; [constructor; auto |]. split; [simpl; constructor; auto |]. simpl. lia.
  - apply lru_find_none in G. unfold lru_prune.
    destruct ((maxsize =? 0)%nat || (length ((hk h, f h) :: l) <? maxsize + elast)%nat) eqn:E.
    + split; [constructor; auto |]. split; [simpl; constructor; auto |].
      apply orb_prop in E. destruct E as [E | E].
      * left. now apply Nat.eqb_eq.
      * right. apply Nat.ltb_lt in E. lia.
    + split; [apply Forall_firstn; constructor; auto |]. split.
      * rewrite <- firstn_map. apply NoDup_firstn. simpl. constructor; auto.
      * right. rewrite firstn_length. lia.
Qed.

Lemma lru_try_get_ok : forall maxsize elast h l o l',
  lru_ok maxsize elast l -> lru_try_get (hk h) l = (o, l') ->
  lru_ok maxsize elast l' /\ (forall v, o = Some v -> v = f h).
Proof.
  unfold lru_ok, CacheDefs.lru_try_get. intros maxsize elast h l o l' [A [B C]] H.
  destruct (lru_find (hk h) l) as [[v r] |] eqn:G.
  - inversion H; subst; clear H. destruct (lru_find_some _ _ _ _ G) as [I [F [N L]]]. destruct (N B) as [N1 N2].
    assert (KV : kv_ok (hk h, v)). { rewrite Forall_forall in A. apply A; auto. }
    split.
    + split; [constructor; auto |]. split; [simpl; constructor; auto |]. simpl. lia.
    + intros v' E. inversion E; subst. destruct KV as [h' [K1 K2]]. simpl in *.
      apply hk_inj in K1. subst h'. auto.
  - inversion H; subst; clear H. split; auto. intros; discriminate.
Qed.

Lemma lru_ok_nil : forall maxsize elast, lru_ok maxsize elast [].
Proof. intros. unfold lru_ok. split; [constructor |]. split; [constructor |]. right. simpl. lia. Qed.

Lemma lfru_ok_nil : forall size, lfru_ok size [].
Proof. intros. unfold lfru_ok. split; [constructor |]. split; [constructor |]. simpl. lia. Qed.

(* ---------------- all interleavings of the lock-granular steps ---------------- *)

Definition thr_ok (t : tstate Hdr V) : Prop :=
  match t with TGot _ _ h v | TRet _ _ h v => v = f h | _ => True end.

Definition sys_ok (size maxsize elast : nat) (s : sys Hdr Key Ep Ent V) : Prop :=
  lru_ok maxsize elast (hdrc _ _ _ _ _ s) /\ lfru_ok size (ethc _ _ _ _ _ s) /\ Forall thr_ok (thr _ _ _ _ _ s).

(** premise of the precomputed-hash path: what insertHeaderCacheEntry is given is the hash of that header *)
Definition sop_ok (o : sop Hdr V) : Prop :=
  match o with OInsertHdr _ _ h v => v = f h | _ => True end.

Lemma sys_step_ok : forall size tw maxsize elast o s,
  sop_ok o -> sys_ok size maxsize elast s -> sys_ok size maxsize elast (sys_step size tw maxsize elast o s).
Proof.
  intros size tw maxsize elast o s PO [A [B C]]. destruct o; simpl.
  - destruct (nth_error (thr _ _ _ _ _ s) t) as [[] |]; try (split; auto; fail);
      (split; [| split]; simpl; auto; apply Forall_upd; simpl; auto).
  - destruct (nth_error (thr _ _ _ _ _ s) t) as [[] |] eqn:T; try (split; auto; fail).
    destruct (lru_try_get (hk h) (hdrc _ _ _ _ _ s)) as [o c'] eqn:G.
    destruct (lru_try_get_ok _ _ _ _ _ _ A G) as [A' R].
    destruct o as [v |]; (split; [| split]; simpl; auto; apply Forall_upd; simpl; auto).
  - destruct (nth_error (thr _ _ _ _ _ s) t) as [[] |] eqn:T; try (split; auto; fail).
    destruct (lfru_get_or_default size tw (ep h) now (ethc _ _ _ _ _ s)) as [[e hit] c'] eqn:G.
    destruct (lfru_god_ok _ _ _ _ _ _ _ _ B G) as [E B'].
    split; [| split]; simpl; auto. apply Forall_upd; simpl; auto. subst e. reflexivity.
  - destruct (nth_error (thr _ _ _ _ _ s) t) as [[] |] eqn:T; try (split; auto; fail).
    assert (TV : thr_ok (TGot _ _ h v)).
    { rewrite Forall_forall in C. apply C. eapply nth_error_In; eauto. }
    simpl in TV. subst v.
    split; [| split]; simpl; auto.
    + apply lru_insert_ok; auto.
    + apply Forall_upd; simpl; auto.
  - split; [| split]; simpl; auto. apply lru_ok_nil.
  - split; [| split]; simpl; auto. apply lfru_ok_nil.
  - simpl in PO. subst v. split; [| split]; simpl; auto. apply lru_insert_ok; auto.
Qed.

Lemma sys_init_ok : forall size maxsize elast n, sys_ok size maxsize elast (sys_init Hdr Key Ep Ent V n).
Proof.
  intros. unfold sys_ok, sys_init; simpl. split; [| split].
  - apply lru_ok_nil.
  - apply lfru_ok_nil.
  - apply Forall_forall. intros x Hx. apply repeat_spec in Hx. subst. simpl. auto.
Qed.

Lemma sys_run_ok : forall size tw maxsize elast ops s,
  Forall sop_ok ops -> sys_ok size maxsize elast s -> sys_ok size maxsize elast (sys_run size tw maxsize elast ops s).
Proof.
  unfold CacheDefs.sys_run. induction ops; simpl; intros; auto.
  inversion H; subst. apply IHops; auto. apply sys_step_ok; auto.
Qed.

Lemma lookup_transparent_lemma : forall size tw maxsize elast nthreads ops t h v,
  Forall sop_ok ops ->
  let s := sys_run size tw maxsize elast ops (sys_init Hdr Key Ep Ent V nthreads) in
  nth_error (thr _ _ _ _ _ s) t = Some (TRet _ _ h v) -> v = f h.
Proof.
  intros. pose proof (sys_run_ok size tw maxsize elast ops _ H (sys_init_ok size maxsize elast nthreads)) as [_ [_ C]].
  fold s in C. rewrite Forall_forall in C. apply nth_error_In in H0. apply C in H0. exact H0.
Qed.

Lemma capacity_lemma : forall size tw maxsize elast nthreads ops,
  Forall sop_ok ops ->
  let s := sys_run size tw maxsize elast ops (sys_init Hdr Key Ep Ent V nthreads) in
  (length (ethc _ _ _ _ _ s) <= size)%nat /\ NoDup (map (ikey _ _) (ethc _ _ _ _ _ s)) /\
  (maxsize = O \/ length (hdrc _ _ _ _ _ s) <= maxsize + elast)%nat /\ NoDup (map fst (hdrc _ _ _ _ _ s)).
Proof.
  intros. pose proof (sys_run_ok size tw maxsize elast ops _ H (sys_init_ok size maxsize elast nthreads)) as [[_ [A B]] [[_ [C D]] _]].
  fold s in A, B, C, D. auto.
Qed.

(* ---------------- VbkBlock memo ---------------- *)

Definition blk_ok (b : blk Hdr V) : Prop :=
  is_zero (memo _ _ b) = true \/ memo _ _ b = f (content _ _ b).

(** premises of the operations: a supplied precalculated hash is the hash of the content it is attached to
    (deserialisation may also pass the all-zero default = no hash); an assigned-from block is itself consistent *)
Definition bop_pre (o : bop Hdr V) (b : blk Hdr V) : Prop :=
  match o with
  | BPrecalc _ _ v => v = f (content _ _ b)
  | BDeser _ _ h v => is_zero v = true \/ v = f h
  | BAssign _ _ src => blk_ok src
  | _ => True
  end.

Fixpoint bops_ok (ops : list (bop Hdr V)) (b : blk Hdr V) : Prop :=
  match ops with
  | [] => True
  | o :: r => bop_pre o b /\ bops_ok r (snd (blk_step f o b))
  end.

Fixpoint answers_ok (ops : list (bop Hdr V)) (b : blk Hdr V) : Prop :=
  match ops with
  | [] => True
  | o :: r => (match fst (blk_step f o b) with Some v => v = f (content _ _ b) | None => True end) /\
              answers_ok r (snd (blk_step f o b))
  end.

Lemma blk_step_ok : forall o b,
  blk_ok b -> bop_pre o b ->
  blk_ok (snd (blk_step f o b)) /\
  (match fst (blk_step f o b) with Some v => v = f (content _ _ b) | None => True end).
Proof.
  intros o b OK P. destruct o; simpl.
  - split; auto. left. simpl. exact zero_is_zero.
  - destruct (is_zero (memo _ _ b)) eqn:Z.
    + split; auto. right; reflexivity.
    + destruct OK as [OK | OK]; [congruence |]. split; auto. right. simpl. auto.
  - split; [right; exact P | exact I].
  - split; [exact P | exact I].
  - split; [exact P | exact I].
Qed.

(** deserialisation into an existing object without a precalculated hash leaves the memo empty, with one the memo
    is the supplied hash - whatever the object held before *)
Lemma deser_resets_memo_lemma : forall hf b h v,
  let b' := snd (CacheDefs.blk_step Hdr V is_zero zero hf (BDeser _ _ h v) b) in
  content _ _ b' = h /\ memo _ _ b' = v /\ ((is_zero v = true \/ v = f h) -> blk_ok b').
Proof. intros. simpl. repeat split; auto. Qed.

Lemma memo_transparent_lemma : forall ops b, blk_ok b -> bops_ok ops b -> answers_ok ops b.
Proof.
  induction ops as [| o r IH]; simpl; intros b OK H; auto. destruct H as [P Q].
  destruct (blk_step_ok o b OK P) as [A B]. split; auto.
Qed.

Lemma setter_invalidates_memo_lemma : forall hf b h,
  let b' := snd (CacheDefs.blk_step Hdr V is_zero zero hf (BSet _ _ h) b) in
  content _ _ b' = h /\ is_zero (memo _ _ b') = true /\ blk_ok b' /\
  (forall ops, bops_ok ops b' -> answers_ok ops b').
Proof.
  intros. simpl. split; auto. split; [exact zero_is_zero |].
  assert (blk_ok (mkBlk _ _ h zero)) by (left; exact zero_is_zero).
  split; auto. intros. apply memo_transparent_lemma; auto.
Qed.

End CacheProofs.

(** the hypotheses are satisfiable by a non-trivial instance, and the model really evicts *)
Module CacheExample.
  Definition Hdr := nat. Definition hk (h : nat) := h. Definition epx (h : nat) := Nat.div h 8.
  Definition mkx (e : nat) := (3 * e + 1)%nat. Definition hashx (h e : nat) := (h * 7 + e)%nat.
  Definition ops : list (sop nat nat) :=
    [ORequest _ _ 0 3; ORequest _ _ 1 17; OLookup _ _ 0; OLookup _ _ 1; OCompute _ _ 1 5%N; OCompute _ _ 0 6%N;
     OStore _ _ 0; OStore _ _ 1; ORequest _ _ 0 17; OLookup _ _ 0; ORequest _ _ 1 40; OLookup _ _ 1;
     OClearEth _ _; OCompute _ _ 1 700%N; OStore _ _ 1; OInsertHdr _ _ 99 (hashx 99 (mkx (epx 99)));
     ORequest _ _ 1 99; OLookup _ _ 1; ORequest _ _ 0 3; OLookup _ _ 0].
  Definition final := sys_run nat nat nat nat nat hk Nat.eqb epx Nat.eqb mkx hashx 2 600%N 2 1 ops (sys_init _ _ _ _ _ 2).
  Example hyps_satisfiable :
    (forall a b, Nat.eqb a b = true <-> a = b) /\ (forall h1 h2, hk h1 = hk h2 -> h1 = h2) /\
    Forall (sop_ok nat nat nat nat epx mkx hashx) ops.
  Proof. split; [exact Nat.eqb_eq |]. split; [auto |]. repeat constructor. Qed.
  Example final_threads :
    thr _ _ _ _ _ final = [TMissed _ _ 3; TRet _ _ 99 (hashx 99 (mkx (epx 99)))] /\
    map fst (hdrc _ _ _ _ _ final) = [99; 40].
  Proof. vm_compute. auto. Qed.
  (** without the mutex around getOrDefault (lookup / store epoch / store entry as separate steps of a
      last-epoch-only cache): two overlapping misses leave (epoch 1, entry of epoch 0) behind and the next
      request for epoch 1 is answered with a hash computed from the wrong epoch entry *)
  Definition unlocked_ops : list (uop nat) :=
    [UStart _ 0 3; UStart _ 1 9; UWriteEp _ 0; UWriteEp _ 1; UWriteEnt _ 1; UWriteEnt _ 0; UStart _ 2 10].
  Definition unlocked_final :=
    usys_run nat nat nat nat epx Nat.eqb mkx hashx unlocked_ops (usys_init _ _ _ _ 3).
  Lemma unlocked_getOrDefault_refuted_lemma :
    exists h v, nth_error (uthreads _ _ _ _ unlocked_final) 2 = Some (UDone _ _ _ h v) /\
                v <> f nat nat nat nat epx mkx hashx h.
  Proof. exists 10, (hashx 10 (mkx 0)). vm_compute. split; [reflexivity | discriminate]. Qed.
End CacheExample.
