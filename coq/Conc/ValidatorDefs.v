(** C16 — PopValidator / checkPopData as an interleaving transition system.

    Executable model, no proofs.  Sources modelled (at /repo HEAD):
      src/pop/pop_stateless_validator.cpp   PopValidator::start/stop/clear/addCheck
      src/pop/stateless_validation.cpp      checkPopData (end of file)
      include/veriblock/pop/third_party/thread_pool/{thread_pool,worker,mpmc_bounded_queue}.hpp

    * a task is the packaged_task posted by addCheck: it captures a reference
      into the caller's PopData (the [tok]en of the call) and the outcome of the
      pure payload check is precomputed in [tvalid];
    * every worker owns a bounded FIFO queue; the main thread posts round-robin
      (m_next_worker, never reset while the pool lives); a worker pops its own
      queue or steals the head of the queue of worker (i+1) mod w only;
    * [LRun] is the execution of the payload check (reads the PopData),
      [LFulfil] the promise becoming ready;
    * checkPopData as coded NOW: post everything, wait for every future, then
      scan the futures in submission order (first invalid wins, then the
      duplicates check); [v0 = true] selects the code before /repo 9e8bd1f5:
      get() the futures in order and return at the first invalid one;
      PopValidator::clear() is a no-op in both;
    * stop(): workers are told to stop and joined one after another (a worker
      finishes the task it is running, a stopped worker's queue can still be
      stolen from until the pool is destroyed); destroying the pool destroys
      the queued tasks, whose futures become broken promises (get() throws);
    * VBK_ASSERTs are explicit: posting to a full queue or to a stopped
      validator, or start() on a started validator, sets [aborted]. *)
From Coq Require Import List Arith Bool.
Import ListNotations.

Record task := mkTask { tid : nat; tok : nat; tvalid : bool }.

Inductive fut := FPending | FReady (v : bool) | FBroken.

Inductive wstate := WIdle | WRun (t : task) | WDone (t : task) | WExited.

Record worker := mkWorker { wq : list task; wst : wstate }.

Inductive verdict := VValid | VInvalid (i : nat) | VDuplicates.

Inductive mstate :=
| MIdle
| MPost (k : nat)          (* about to addCheck payload k *)
| MWait (k : nat)          (* current code: results[k].wait() *)
| MGet (k : nat)           (* v0: results[k].get() *)
| MReturned (v : verdict)
| MThrow.                  (* std::future_error (broken promise) left checkPopData *)

Inductive pool := PRun | PStopping (k : nat) | PStopped.

Record state := mkState {
  workers : list worker;
  pst : pool;
  qcap : nat;               (* capacity of every worker queue *)
  nextw : nat;              (* m_next_worker *)
  futures : list fut;       (* results[], indexed by tid *)
  cur : list task;          (* payload checks of the current call, in submission order *)
  curdup : bool;            (* the PopData of the current call contains duplicate ids *)
  token : nat;              (* identity of the caller's PopData of the current call *)
  main : mstate;
  aborted : bool
}.

Inductive label :=
| LCall (vs : list bool) (dup : bool)   (* enter checkPopData with payload verdicts vs *)
| LPost                                 (* one addCheck *)
| LPop (i : nat)
| LSteal (i : nat)
| LRun (i : nat)
| LFulfil (i : nat)
| LWait                                 (* one iteration of main's wait / get loop (or the final scan) *)
| LStopReq                              (* stop() entered *)
| LJoin                                 (* the next worker observes the flag while idle and is joined *)
| LStart (w : nat).                     (* start(w) *)

Fixpoint upd {A} (i : nat) (f : A -> A) (l : list A) : list A :=
  match l, i with
  | [], _ => []
  | x :: r, O => f x :: r
  | x :: r, S j => x :: upd j f r
  end.

Definition set_q (q : list task) (wk : worker) := mkWorker q (wst wk).
Definition set_st (st : wstate) (wk : worker) := mkWorker (wq wk) st.
Definition push_q (t : task) (wk : worker) := mkWorker (wq wk ++ [t]) (wst wk).

Definition idle_worker := mkWorker [] WIdle.

Fixpoint mk_tasks (tk : nat) (i : nat) (vs : list bool) : list task :=
  match vs with
  | [] => []
  | v :: r => mkTask i tk v :: mk_tasks tk (S i) r
  end.

(** sequential specification: index of the first invalid payload, else the duplicates check *)
Fixpoint first_invalid (i : nat) (ts : list task) : option nat :=
  match ts with
  | [] => None
  | t :: r => if tvalid t then first_invalid (S i) r else Some i
  end.

Definition seq_verdict (ts : list task) (dup : bool) : verdict :=
  match first_invalid 0 ts with
  | Some i => VInvalid i
  | None => if dup then VDuplicates else VValid
  end.

(** the second loop of checkPopData: r.get() in order *)
Inductive scanres := SVerdict (v : verdict) | SThrow | SBlocked.

Fixpoint scan (i : nat) (fs : list fut) (dup : bool) : scanres :=
  match fs with
  | [] => SVerdict (if dup then VDuplicates else VValid)
  | FReady true :: r => scan (S i) r dup
  | FReady false :: _ => SVerdict (VInvalid i)
  | FBroken :: _ => SThrow
  | FPending :: _ => SBlocked
  end.

Definition after_post (v0 : bool) (k n : nat) : mstate :=
  if k =? n then (if v0 then MGet 0 else MWait 0) else MPost k.

Definition break_all (ts : list task) (fs : list fut) : list fut :=
  fold_left (fun fs t => upd (tid t) (fun _ => FBroken) fs) ts fs.

Definition set_main (m : mstate) (s : state) : state :=
  mkState (workers s) (pst s) (qcap s) (nextw s) (futures s) (cur s) (curdup s) (token s) m (aborted s).
Definition set_workers (ws : list worker) (s : state) : state :=
  mkState ws (pst s) (qcap s) (nextw s) (futures s) (cur s) (curdup s) (token s) (main s) (aborted s).
Definition set_futures (fs : list fut) (s : state) : state :=
  mkState (workers s) (pst s) (qcap s) (nextw s) fs (cur s) (curdup s) (token s) (main s) (aborted s).
Definition set_pst (p : pool) (s : state) : state :=
  mkState (workers s) p (qcap s) (nextw s) (futures s) (cur s) (curdup s) (token s) (main s) (aborted s).
Definition set_aborted (s : state) : state :=
  mkState (workers s) (pst s) (qcap s) (nextw s) (futures s) (cur s) (curdup s) (token s) (main s) true.

Definition quiescent_main (m : mstate) : bool :=
  match m with MIdle | MReturned _ | MThrow => true | _ => false end.

Definition step_call (v0 : bool) (vs : list bool) (dup : bool) (s : state) : option state :=
  if quiescent_main (main s) then
    let tk := S (token s) in
    let ts := mk_tasks tk 0 vs in
    Some (mkState (workers s) (pst s) (qcap s) (nextw s) (repeat FPending (length ts)) ts dup tk
                  (after_post v0 0 (length ts)) false)
  else None.

Definition step_post (v0 : bool) (s : state) : option state :=
  match main s with
  | MPost k =>
    match nth_error (cur s) k with
    | None => None
    | Some t =>
      match pst s with
      | PRun =>
        let i := Nat.modulo (nextw s) (length (workers s)) in
        match nth_error (workers s) i with
        | None => None
        | Some wk =>
          if length (wq wk) <? qcap s then
            Some (mkState (upd i (push_q t) (workers s)) (pst s) (qcap s) (S (nextw s)) (futures s)
                          (cur s) (curdup s) (token s) (after_post v0 (S k) (length (cur s))) false)
          else Some (set_aborted s)           (* VBK_ASSERT_MSG(success, "Worker queue is full") *)
        end
      | _ => Some (set_aborted s)             (* VBK_ASSERT_MSG(workers != nullptr, "PopValidator is stopped") *)
      end
    end
  | _ => None
  end.

Definition step_pop (i : nat) (s : state) : option state :=
  match nth_error (workers s) i with
  | Some (mkWorker (t :: q) WIdle) => Some (set_workers (upd i (fun _ => mkWorker q (WRun t)) (workers s)) s)
  | _ => None
  end.

Definition step_steal (i : nat) (s : state) : option state :=
  match nth_error (workers s) i with
  | Some (mkWorker _ WIdle) =>
    let d := Nat.modulo (S i) (length (workers s)) in
    match nth_error (workers s) d with
    | Some (mkWorker (t :: q) _) =>
      Some (set_workers (upd i (set_st (WRun t)) (upd d (set_q q) (workers s))) s)
    | _ => None
    end
  | _ => None
  end.

Definition step_run (i : nat) (s : state) : option state :=
  match nth_error (workers s) i with
  | Some (mkWorker _ (WRun t)) => Some (set_workers (upd i (set_st (WDone t)) (workers s)) s)
  | _ => None
  end.

Definition step_fulfil (i : nat) (s : state) : option state :=
  match nth_error (workers s) i with
  | Some (mkWorker _ (WDone t)) =>
    Some (set_futures (upd (tid t) (fun _ => FReady (tvalid t)) (futures s))
                      (set_workers (upd i (set_st WIdle) (workers s)) s))
  | _ => None
  end.

Definition step_wait (s : state) : option state :=
  match main s with
  | MWait k =>
    match nth_error (futures s) k with
    | Some FPending => None
    | Some _ => Some (set_main (MWait (S k)) s)
    | None =>
      match scan 0 (futures s) (curdup s) with
      | SVerdict v => Some (set_main (MReturned v) s)   (* validator.clear() is a no-op *)
      | SThrow => Some (set_main MThrow s)
      | SBlocked => None
      end
    end
  | MGet k =>
    match nth_error (futures s) k with
    | Some FPending => None
    | Some (FReady true) => Some (set_main (MGet (S k)) s)
    | Some (FReady false) => Some (set_main (MReturned (VInvalid k)) s)   (* clear() no-op; return *)
    | Some FBroken => Some (set_main MThrow s)
    | None => Some (set_main (MReturned (if curdup s then VDuplicates else VValid)) s)
    end
  | _ => None
  end.

Definition step_stopreq (s : state) : option state :=
  match pst s with
  | PRun => Some (set_pst (PStopping 0) s)
  | _ => None
  end.

Definition step_join (s : state) : option state :=
  match pst s with
  | PStopping k =>
    match nth_error (workers s) k with
    | Some (mkWorker _ WIdle) =>
      let ws := upd k (set_st WExited) (workers s) in
      if S k =? length (workers s) then
        (* ~ThreadPoolImpl: all workers joined, the queues and the tasks in them are destroyed *)
        Some (set_pst PStopped (set_futures (break_all (flat_map wq ws) (futures s)) (set_workers [] s)))
      else Some (set_pst (PStopping (S k)) (set_workers ws s))
    | _ => None
    end
  | _ => None
  end.

Definition step_start (w : nat) (s : state) : option state :=
  match pst s with
  | PStopped =>
    Some (mkState (repeat idle_worker (Nat.max 1 w)) PRun (qcap s) 0 (futures s) (cur s) (curdup s)
                  (token s) (main s) false)
  | PRun => Some (set_aborted s)     (* VBK_ASSERT_MSG(workers == nullptr, "already been started") *)
  | PStopping _ => None
  end.

Definition step (v0 : bool) (l : label) (s : state) : option state :=
  if aborted s then None else
  match l with
  | LCall vs dup => step_call v0 vs dup s
  | LPost => step_post v0 s
  | LPop i => step_pop i s
  | LSteal i => step_steal i s
  | LRun i => step_run i s
  | LFulfil i => step_fulfil i s
  | LWait => step_wait s
  | LStopReq => step_stopreq s
  | LJoin => step_join s
  | LStart w => step_start w s
  end.

Definition step' (v0 : bool) (s : state) (l : label) : state :=
  match step v0 l s with Some s' => s' | None => s end.

(** a schedule is a list of labels; labels that are not enabled are skipped *)
Definition run (v0 : bool) (sched : list label) (s : state) : state := fold_left (step' v0) sched s.

Definition init (w c : nat) : state :=
  mkState (repeat idle_worker (Nat.max 1 w)) PRun c 0 [] [] false 0 MIdle false.

(** tasks that a worker may still dereference: queued, running, or finished but not yet fulfilled *)
Definition holders_w (wk : worker) : list task :=
  wq wk ++ match wst wk with WRun t | WDone t => [t] | _ => [] end.
Definition holders (s : state) : list task := flat_map holders_w (workers s).

Definition holds_token (s : state) : bool := existsb (fun t => tok t =? token s) (holders s).

(** number of accepted labels of a schedule, for trace validation *)
Fixpoint run_count (v0 : bool) (sched : list label) (s : state) (acc : nat) : state * nat * option nat :=
  match sched with
  | [] => (s, acc, None)
  | l :: r => match step v0 l s with
              | Some s' => run_count v0 r s' (S acc)
              | None => (s, acc, Some acc)         (* first rejected label *)
              end
  end.
