(** C17 — lru11::Cache as a lossy map: arbitrary (key, value) insertions (not only graph-of-f pairs), lookups and
    clears, next to the unbounded map it must refine.  Executable, no proofs.  Uses lru_insert / lru_try_get of
    CacheDefs (the modelled insert / tryGet of include/veriblock/pop/third_party/lru_cache.hpp). *)
From Coq Require Import List Arith Bool.
From VB Require Import Conc.CacheDefs.
Import ListNotations.

Section LruMap.
Variables Key V : Type.
Variable key_eqb : Key -> Key -> bool.

Inductive lop := LIns (k : Key) (v : V) | LGet (k : Key) | LClear.

(** answer: None for insert/clear, Some (tryGet result) for a lookup *)
Definition lop_step (maxsize elast : nat) (o : lop) (l : lru Key V) : option (option V) * lru Key V :=
  match o with
  | LIns k v => (None, lru_insert Key V key_eqb maxsize elast k v l)
  | LGet k => let '(r, l') := lru_try_get Key V key_eqb k l in (Some r, l')
  | LClear => (None, [])
  end.

Fixpoint lop_run (maxsize elast : nat) (ops : list lop) (l : lru Key V) : list (option (option V)) * lru Key V :=
  match ops with
  | [] => ([], l)
  | o :: r => let '(a, l') := lop_step maxsize elast o l in
              let '(as_, l'') := lop_run maxsize elast r l' in (a :: as_, l'')
  end.

(** the unbounded map: association list, newest binding first; clear empties it *)
Definition ideal := list (Key * V).
Fixpoint ideal_get (k : Key) (m : ideal) : option V :=
  match m with [] => None | (k', v) :: r => if key_eqb k' k then Some v else ideal_get k r end.
Definition ideal_step (o : lop) (m : ideal) : ideal :=
  match o with LIns k v => (k, v) :: m | LGet _ => m | LClear => [] end.

(** a lookup answer is admissible w.r.t. the unbounded map: a miss, or exactly the current binding of that key *)
Definition answer_ok (o : lop) (a : option (option V)) (m : ideal) (v_eqb : V -> V -> bool) : bool :=
  match o, a with
  | LGet k, Some None => true
  | LGet k, Some (Some v) => match ideal_get k m with Some w => v_eqb v w | None => false end
  | LGet _, None => false
  | _, None => true
  | _, Some _ => false
  end.

(** checks a whole run against the unbounded map (used by the driver on the real cache's answers too) *)
Fixpoint answers_admissible (v_eqb : V -> V -> bool) (ops : list lop) (ans : list (option (option V))) (m : ideal) : bool :=
  match ops, ans with
  | [], [] => true
  | o :: r, a :: ar => answer_ok o a m v_eqb && answers_admissible v_eqb r ar (ideal_step o m)
  | _, _ => false
  end.
End LruMap.
