(** C16 — the theorems about the step-level MPMC ring model, for every schedule, every number of threads and
    every program of pushes and pops (closed forms used by Properties_C16.v), and concrete interleavings. *)
From Coq Require Import List Arith Bool Lia.
From VB Require Import Conc.ValidatorDefs Conc.ListUpd Conc.RingDefs Conc.RingProofs Conc.RingSteps Conc.RingStepsInv
  Conc.RingStepsPres Conc.RingStepsPres2 Conc.RingLin Conc.RingLinear.
Import ListNotations.

Local Arguments cells {A} _.
Local Arguments enq {A} _.
Local Arguments deq {A} _.
Local Arguments PushOk {A}.
Local Arguments PushFull {A}.
Local Arguments PopOk {A} _.
Local Arguments PopEmpty {A}.
Local Arguments RPush {A} _.
Local Arguments RPop {A}.

Section Conc.
Variable A : Type.
Implicit Types s : rstate A.

Lemma reachable_invs : forall size (progs : nat -> list (rop A)) sched, 2 <= size ->
  Inv A size (rs_run sched (rs_init size progs)) /\ LinInv A size (rs_run sched (rs_init size progs)).
Proof. intros. apply run_invs; [apply Inv_init; auto | apply LinInv_init]. Qed.

(** (b) linearizability of the successful operations: the log written at the successful CASes is a legal history
    of the bounded FIFO (every logged push is accepted with fewer than [size] elements queued, every logged pop
    returns the oldest element), its final state is the abstract queue, and its restriction to a thread is exactly
    what that thread returned (program order) plus the call it has linearized but not yet returned from.  The log
    only grows during the call it belongs to ([ring_real_time_lemma]), hence it respects the real-time order. *)
Lemma ring_linearizable_lemma : forall size (progs : nat -> list (rop A)) sched, 2 <= size ->
  let s := rs_run sched (rs_init size progs) in
  fifo_run A size (map lev_op (rs_lin s)) [] = map lev_res (rs_lin s) /\
  Forall (fun e => is_ok (lev_res e) = true) (rs_lin s) /\
  fifo_state size (map lev_op (rs_lin s)) [] = rs_q s /\
  (forall t, proj t (rs_lin s) = succ_of (thist (rs_thr s t)) ++ pending (tpc (rs_thr s t))).
Proof.
  intros size progs sched H s. destruct (reachable_invs size progs sched H) as [_ [P L S V O]]. auto.
Qed.

(** (a) nothing lost, nothing duplicated, (d) capacity: the values pushed, in linearization order, are exactly the
    values popped so far followed by the queue contents (as lists, hence as multisets); the contents never exceed
    the capacity and equal the distance of the two counters *)
Lemma ring_conservation_lemma : forall size (progs : nat -> list (rop A)) sched, 2 <= size ->
  let s := rs_run sched (rs_init size progs) in
  map Some (pushed_vals (rs_lin s)) = popped_vals (rs_lin s) ++ map Some (rs_q s) /\
  length (rs_q s) <= size /\
  length (rs_q s) = enq (rs_mem s) - deq (rs_mem s) /\
  deq (rs_mem s) <= enq (rs_mem s) <= deq (rs_mem s) + size.
Proof.
  intros size progs sched H s. destruct (reachable_invs size progs sched H) as [I [P L S V O]].
  destruct I as [L0 S2 DE CAP LQ _ _ _ _ _ _ _]. fold s in DE, CAP, LQ. repeat split; auto; lia.
Qed.

(** log and per-thread histories only grow *)
Lemma step_extends : forall s t b,
  exists ext, rs_lin (rs_step t b s) = rs_lin s ++ ext /\
    forall t0, exists hext, thist (rs_thr (rs_step t b s) t0) = thist (rs_thr s t0) ++ hext.
Proof.
  intros s t b.
  assert (NOP : exists ext, rs_lin s = rs_lin s ++ ext /\
            forall t0, exists hext, thist (rs_thr s t0) = thist (rs_thr s t0) ++ hext).
  { exists []. split; [now rewrite app_nil_r |]. intros; exists []; now rewrite app_nil_r. }
  assert (UPD : forall p pr h' m e, (exists hext, h' = thist (rs_thr s t) ++ hext) ->
            exists ext, rs_lin (mkRS m (upd_thr (rs_thr s) t (mkThread p pr h')) (rs_lin s ++ e) (rs_q s)) = rs_lin s ++ ext /\
            forall t0, exists hext,
              thist (rs_thr (mkRS m (upd_thr (rs_thr s) t (mkThread p pr h')) (rs_lin s ++ e) (rs_q s)) t0) =
              thist (rs_thr s t0) ++ hext).
  { intros p pr h' m e [hx Hx]. exists e. split; auto. intros t0. cbn [rs_thr].
    destruct (Nat.eq_dec t0 t); [subst; rewrite upd_thr_same; cbn [thist]; eauto |].
    rewrite upd_thr_other by auto. exists []. now rewrite app_nil_r. }
  assert (H0 : exists hext, thist (rs_thr s t) = thist (rs_thr s t) ++ hext) by (exists []; now rewrite app_nil_r).
  assert (UPD0 : forall p pr h' m, (exists hext, h' = thist (rs_thr s t) ++ hext) ->
            exists ext, rs_lin (mkRS m (upd_thr (rs_thr s) t (mkThread p pr h')) (rs_lin s) (rs_q s)) = rs_lin s ++ ext /\
            forall t0, exists hext,
              thist (rs_thr (mkRS m (upd_thr (rs_thr s) t (mkThread p pr h')) (rs_lin s) (rs_q s)) t0) =
              thist (rs_thr s t0) ++ hext).
  { intros p pr h' m [hx Hx]. exists []. split; [cbn [rs_lin]; now rewrite app_nil_r |]. intros t0. cbn [rs_thr].
    destruct (Nat.eq_dec t0 t); [subst; rewrite upd_thr_same; cbn [thist]; eauto |].
    rewrite upd_thr_other by auto. exists []. now rewrite app_nil_r. }
  unfold rs_step, goto, goto_m, ret_m, commit.
  destruct (tpc (rs_thr s t)); try (apply UPD0; eauto; fail).
  - destruct (tprog (rs_thr s t)) as [| [x |] rest]; auto.
  - destruct (Nat.compare sq pos); apply UPD0; eauto.
  - destruct (Nat.eqb (enq (rs_mem s)) pos && negb b).
    + destruct (UPD (PushWrite x pos) (tprog (rs_thr s t)) (thist (rs_thr s t)) (set_enq (rs_mem s) (S pos))
                  [(t, RPush x, PushOk)] H0) as [ext [E1 E2]].
      exists ext. split; auto.
    + apply UPD0; eauto.
  - destruct (Nat.compare sq (S pos)); apply UPD0; eauto.
  - destruct (Nat.eqb (deq (rs_mem s)) pos && negb b).
    + destruct (UPD (PopMove pos (dat_at (rs_mem s) pos)) (tprog (rs_thr s t)) (thist (rs_thr s t))
                  (set_deq (rs_mem s) (S pos)) [(t, RPop, PopOk (dat_at (rs_mem s) pos))] H0) as [ext [E1 E2]].
      exists ext. split; auto.
    + apply UPD0; eauto.
Qed.

Lemma run_extends : forall sched s,
  exists ext, rs_lin (rs_run sched s) = rs_lin s ++ ext /\
    forall t0, exists hext, thist (rs_thr (rs_run sched s) t0) = thist (rs_thr s t0) ++ hext.
Proof.
  induction sched as [| e sched IH]; intros s.
  - exists []. split; [simpl; now rewrite app_nil_r |]. intros; exists []; simpl; now rewrite app_nil_r.
  - simpl. destruct (step_extends s (fst e) (snd e)) as [x1 [E1 H1]].
    destruct (IH (rs_step (fst e) (snd e) s)) as [x2 [E2 H2]].
    exists (x1 ++ x2). split; [rewrite E2, E1; now rewrite app_assoc |].
    intros t0. destruct (H1 t0) as [h1 Q1]. destruct (H2 t0) as [h2 Q2].
    exists (h1 ++ h2). rewrite Q2, Q1. now rewrite app_assoc.
Qed.

Lemma proj_app : forall t (l1 l2 : list (lev A)), proj t (l1 ++ l2) = proj t l1 ++ proj t l2.
Proof. intros. unfold proj. now rewrite filter_app, map_app. Qed.

Lemma succ_of_app : forall (h1 h2 : list (rop A * rres A)), succ_of (h1 ++ h2) = succ_of h1 ++ succ_of h2.
Proof. intros. unfold succ_of. now rewrite filter_app. Qed.

(** real-time order: take any moment s1 of an execution and any later moment s2.  The log at s2 extends the log at
    s1, and what thread t contributes to the extension is exactly: the calls of t that returned between s1 and s2
    or are linearized-but-unreturned at s2, minus the call that was already linearized-but-unreturned at s1.  So a
    call that has returned by s1 precedes, in the log, every call that is invoked (or linearized) after s1. *)
Lemma ring_real_time_lemma : forall size (progs : nat -> list (rop A)) sched1 sched2, 2 <= size ->
  let s1 := rs_run sched1 (rs_init size progs) in
  let s2 := rs_run sched2 s1 in
  exists ext, rs_lin s2 = rs_lin s1 ++ ext /\
    forall t, exists hext, thist (rs_thr s2 t) = thist (rs_thr s1 t) ++ hext /\
      pending (tpc (rs_thr s1 t)) ++ proj t ext = succ_of hext ++ pending (tpc (rs_thr s2 t)).
Proof.
  intros size progs sched1 sched2 H s1 s2.
  destruct (reachable_invs size progs sched1 H) as [_ [P1 _ _ _ _]]. fold s1 in P1.
  assert (R2 : s2 = rs_run (sched1 ++ sched2) (rs_init size progs)).
  { unfold s2, s1, rs_run. now rewrite fold_left_app. }
  destruct (reachable_invs size progs (sched1 ++ sched2) H) as [_ [P2 _ _ _ _]]. rewrite <- R2 in P2.
  destruct (run_extends sched2 s1) as [ext [E1 E2]]. fold s2 in E1, E2.
  exists ext. split; auto. intros t. destruct (E2 t) as [hext Hx]. exists hext. split; auto.
  specialize (P1 t). specialize (P2 t). rewrite E1, Hx in P2.
  rewrite proj_app, succ_of_app in P2.
  rewrite P1 in P2. rewrite <- !app_assoc in P2. apply app_inv_head in P2. exact P2.
Qed.

(** steps of other threads do not touch the record of thread t *)
Lemma step_other : forall s t t0 b, t0 <> t -> rs_thr (rs_step t0 b s) t = rs_thr s t.
Proof.
  intros s t t0 b H. unfold rs_step, goto, goto_m, ret_m, commit.
  destruct (tpc (rs_thr s t0)); cbn [rs_thr]; try (rewrite upd_thr_other by auto; reflexivity).
  - destruct (tprog (rs_thr s t0)) as [| [x |] rest]; cbn [rs_thr]; auto; rewrite upd_thr_other by auto; reflexivity.
  - destruct (Nat.compare sq pos); cbn [rs_thr]; rewrite upd_thr_other by auto; reflexivity.
  - destruct (Nat.eqb (enq (rs_mem s)) pos && negb b); cbn [rs_thr]; rewrite upd_thr_other by auto; reflexivity.
  - destruct (Nat.compare sq (S pos)); cbn [rs_thr]; rewrite upd_thr_other by auto; reflexivity.
  - destruct (Nat.eqb (deq (rs_mem s)) pos && negb b); cbn [rs_thr]; rewrite upd_thr_other by auto; reflexivity.
Qed.

Lemma run_other : forall mid s t, Forall (fun e => fst e <> t) mid -> rs_thr (rs_run mid s) t = rs_thr s t.
Proof.
  induction mid as [| e mid IH]; intros s t F; simpl; auto. inversion F; subst.
  rewrite IH by auto. apply step_other; auto.
Qed.

Lemma snoc_neq : forall X (l : list X) e, l <> l ++ [e].
Proof. intros X l e H. apply (f_equal (@length X)) in H. rewrite app_length in H. simpl in H. lia. Qed.

(** (c) a push answers "full" only on the strength of the sequence number loaded at [PushLoadSeq]; at that moment
    the enqueue counter still equals the position read before, and either the abstract queue holds [size] elements,
    or the cell is still owned by a pop that has claimed it (successful CAS) but not yet released it. *)
Lemma ring_full_justified_lemma : forall size (progs : nat -> list (rop A)) sched t x pos b mid b', 2 <= size ->
  let s := rs_run sched (rs_init size progs) in
  tpc (rs_thr s t) = PushLoadSeq x pos ->
  Forall (fun e => fst e <> t) mid ->
  let s' := rs_step t b' (rs_run mid (rs_step t b s)) in
  thist (rs_thr s' t) = thist (rs_thr s t) ++ [(RPush x, PushFull)] ->
  enq (rs_mem s) = pos /\
  (length (rs_q s) = size \/
   (size <= pos /\ exists t', ipop (tpc (rs_thr s t')) = Some (pos - size))).
Proof.
  intros size progs sched t x pos b mid b' H s Ht F s' Hh.
  destruct (reachable_invs size progs sched H) as [I _]. fold s in I.
  assert (SQ : seq_at (rs_mem s) pos < pos).
  { unfold s' in Hh. set (s1 := rs_step t b s) in *.
    assert (T1 : rs_thr s1 t = mkThread (PushCmp x pos (seq_at (rs_mem s) pos)) (tprog (rs_thr s t)) (thist (rs_thr s t))).
    { unfold s1, rs_step. rewrite Ht. unfold goto, goto_m. cbn [rs_thr]. now rewrite upd_thr_same. }
    set (s2 := rs_run mid s1) in *.
    assert (T2 : rs_thr s2 t = rs_thr s1 t) by (apply run_other; auto). rewrite T1 in T2.
    unfold rs_step in Hh. rewrite T2 in Hh. cbn [tpc] in Hh.
    destruct (Nat.compare_spec (seq_at (rs_mem s) pos) pos) as [C | C | C]; auto;
      unfold goto, goto_m in Hh; cbn [rs_thr] in Hh; rewrite upd_thr_same in Hh; cbn [thist] in Hh; rewrite T2 in Hh; cbn [thist] in Hh;
      exfalso; eapply snoc_neq; eauto. }
  pose proof (i_thr _ _ _ _ _ I t) as T. cbv beta in T. rewrite Ht in T. simpl in T.
  destruct I as [L S2 DE CAP LQ FULL FREE LOE LOD _ _ _].
  assert (E : enq (rs_mem s) = pos).
  { destruct (Nat.eq_dec (enq (rs_mem s)) pos); auto. specialize (LOE pos). lia. }
  split; auto.
  destruct (Nat.eq_dec (enq (rs_mem s)) (deq (rs_mem s) + size)) as [Q | Q]; [left; lia |].
  right. destruct (FREE pos) as [[Q1 Q2] | Q1]; [lia | auto | lia].
Qed.

(** (c) a pop answers "empty" only on the strength of the sequence number loaded at [PopLoadSeq]; at that moment the
    dequeue counter still equals the position read before, and either the abstract queue is empty, or its oldest
    element belongs to a push that has claimed the cell (successful CAS) but not yet published it. *)
Lemma ring_empty_justified_lemma : forall size (progs : nat -> list (rop A)) sched t pos b mid b', 2 <= size ->
  let s := rs_run sched (rs_init size progs) in
  tpc (rs_thr s t) = PopLoadSeq pos ->
  Forall (fun e => fst e <> t) mid ->
  let s' := rs_step t b' (rs_run mid (rs_step t b s)) in
  thist (rs_thr s' t) = thist (rs_thr s t) ++ [(RPop, PopEmpty)] ->
  deq (rs_mem s) = pos /\
  (rs_q s = [] \/ exists t', ipush (tpc (rs_thr s t')) = Some pos).
Proof.
  intros size progs sched t pos b mid b' H s Ht F s' Hh.
  destruct (reachable_invs size progs sched H) as [I _]. fold s in I.
  assert (SQ : seq_at (rs_mem s) pos < S pos).
  { unfold s' in Hh. set (s1 := rs_step t b s) in *.
    assert (T1 : rs_thr s1 t = mkThread (PopCmp pos (seq_at (rs_mem s) pos)) (tprog (rs_thr s t)) (thist (rs_thr s t))).
    { unfold s1, rs_step. rewrite Ht. unfold goto, goto_m. cbn [rs_thr]. now rewrite upd_thr_same. }
    set (s2 := rs_run mid s1) in *.
    assert (T2 : rs_thr s2 t = rs_thr s1 t) by (apply run_other; auto). rewrite T1 in T2.
    unfold rs_step in Hh. rewrite T2 in Hh. cbn [tpc] in Hh.
    destruct (Nat.compare_spec (seq_at (rs_mem s) pos) (S pos)) as [C | C | C]; auto;
      unfold goto, goto_m in Hh; cbn [rs_thr] in Hh; rewrite upd_thr_same in Hh; cbn [thist] in Hh; rewrite T2 in Hh; cbn [thist] in Hh;
      exfalso; eapply snoc_neq; eauto. }
  pose proof (i_thr _ _ _ _ _ I t) as T. cbv beta in T. rewrite Ht in T. simpl in T.
  destruct I as [L S2 DE CAP LQ FULL FREE LOE LOD _ _ _].
  assert (E : deq (rs_mem s) = pos).
  { destruct (Nat.eq_dec (deq (rs_mem s)) pos); auto. specialize (LOD pos). lia. }
  split; auto.
  destruct (Nat.eq_dec (enq (rs_mem s)) (deq (rs_mem s))) as [Q | Q].
  - left. destruct (rs_q s); auto. simpl in LQ. lia.
  - right. destruct (FULL pos) as [Q1 | [Q1 _]]; [lia | auto | lia].
Qed.

End Conc.
