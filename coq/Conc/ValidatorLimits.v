(** C16 — the queue capacity PopValidator::start derives from the configured limits is enough for every
    PopData that passes checkPopData's count limits (premise of C16_no_assert_fires), with the formula of
    AltChainParams::maxWorkerQueueSize regenerated from the header (Gen/ValidatorParams.v) *)
From Coq Require Import Arith Lia List.
From VB Require Import Gen.ValidatorParams Conc.ValidatorDefs Conc.ValidatorProofs.
Import ListNotations.

(** upper_power_of_two (pop_stateless_validator.cpp): the bit-smearing code computes the least power of two >= v
    for 1 <= v <= 2^31; maxWorkerQueueSize() asserts ret < 400000, so the uint32_t arithmetic never wraps *)
Fixpoint up2_from (fuel p v : nat) : nat :=
  match fuel with
  | O => p
  | S f => if v <=? p then p else up2_from f (2 * p) v
  end.
Definition upper_power_of_two (v : nat) : nat := up2_from v 1 v.

Lemma up2_from_ge : forall fuel p v, v <= p * 2 ^ fuel -> v <= up2_from fuel p v.
Proof.
  induction fuel; simpl; intros p v H.
  - lia.
  - destruct (v <=? p) eqn:E.
    + now apply Nat.leb_le.
    + apply IHfuel. lia.
Qed.

Lemma upper_power_of_two_ge : forall v, v <= upper_power_of_two v.
Proof.
  intros. unfold upper_power_of_two. apply up2_from_ge.
  pose proof (Nat.pow_gt_lin_r 2 v). lia.
Qed.

(** the code's queue capacity *)
Definition code_qcap (max_atvs max_vtbs max_vbk : nat) : nat :=
  upper_power_of_two (max_worker_queue_size max_atvs max_vtbs max_vbk).

Lemma qcap_fits_limits_lemma : forall max_atvs max_vtbs max_vbk n_atvs n_vtbs n_vbk,
  popdata_within_limits max_atvs max_vtbs max_vbk n_atvs n_vtbs n_vbk ->
  n_vbk + n_vtbs + n_atvs <= code_qcap max_atvs max_vtbs max_vbk.
Proof.
  unfold popdata_within_limits, code_qcap, max_worker_queue_size. intros.
  etransitivity; [| apply upper_power_of_two_ge]. lia.
Qed.

(** hence a call with a PopData within the limits satisfies the size premise of C16_no_assert_fires *)
Lemma call_within_limits_sizes_ok : forall max_atvs max_vtbs max_vbk vs dup n_atvs n_vtbs n_vbk,
  popdata_within_limits max_atvs max_vtbs max_vbk n_atvs n_vtbs n_vbk ->
  length vs = n_vbk + n_vtbs + n_atvs ->
  sizes_ok (code_qcap max_atvs max_vtbs max_vbk) (LCall vs dup) = true.
Proof.
  intros. simpl. apply Nat.leb_le. rewrite H0. now apply qcap_fits_limits_lemma.
Qed.
