(** C16 — preservation of the ring invariant by the steps that change shared memory:
    successful CAS on either counter, the data write, the two sequence stores. *)
From Coq Require Import List Arith Bool Lia.
From VB Require Import Conc.ValidatorDefs Conc.ListUpd Conc.RingDefs Conc.RingProofs Conc.RingSteps Conc.RingStepsInv.
Import ListNotations.

Local Arguments cells {A} _.
Local Arguments enq {A} _.
Local Arguments deq {A} _.
Local Arguments mkRing {A} _ _ _.

Section Pres.
Variable A : Type.
Implicit Types r : ring A.

Lemma enq_set_enq : forall r v, enq (set_enq r v) = v. Proof. reflexivity. Qed.
Lemma deq_set_enq : forall r v, deq (set_enq r v) = deq r. Proof. reflexivity. Qed.
Lemma enq_set_deq : forall r v, enq (set_deq r v) = enq r. Proof. reflexivity. Qed.
Lemma deq_set_deq : forall r v, deq (set_deq r v) = v. Proof. reflexivity. Qed.
Lemma enq_set_seq : forall r p v, enq (set_seq r p v) = enq r. Proof. reflexivity. Qed.
Lemma deq_set_seq : forall r p v, deq (set_seq r p v) = deq r. Proof. reflexivity. Qed.
Lemma enq_set_dat : forall r p v, enq (set_dat r p v) = enq r. Proof. reflexivity. Qed.
Lemma deq_set_dat : forall r p v, deq (set_dat r p v) = deq r. Proof. reflexivity. Qed.
Lemma rsize_set_enq : forall r v, rsize (set_enq r v) = rsize r. Proof. reflexivity. Qed.
Lemma rsize_set_deq : forall r v, rsize (set_deq r v) = rsize r. Proof. reflexivity. Qed.

End Pres.

Global Hint Rewrite enq_set_enq deq_set_enq enq_set_deq deq_set_deq enq_set_seq deq_set_seq enq_set_dat deq_set_dat
  rsize_set_enq rsize_set_deq rsize_set_seq rsize_set_dat seq_at_set_enq seq_at_set_deq dat_at_set_enq dat_at_set_deq : ringrw.

Ltac thr_cases t0 t Hoth Ht' :=
  destruct (Nat.eq_dec t0 t) as [?E | ?E]; [subst t0; rewrite Ht' | rewrite (Hoth t0) by assumption].

Section Pres2.
Variable A : Type.
Implicit Types r : ring A.

Lemma pres_push_cas : forall size r q (pcs pcs' : nat -> rpc A) t x p,
  InvC A size r q pcs -> pcs t = PushCas x p -> enq r = p ->
  (forall t0, t0 <> t -> pcs' t0 = pcs t0) -> pcs' t = PushWrite x p ->
  (p < deq r + size /\ seq_at r p = p) /\
  InvC A size (set_enq r (S p)) (q ++ [x]) pcs'.
Proof.
  intros size r q pcs pcs' t x p I Ht He Hoth Ht'.
  pose proof (i_thr _ _ _ _ _ I t) as Tt. rewrite Ht in Tt. simpl in Tt. destruct Tt as [_ Tseq].
  destruct I as [L S2 DE CAP LQ FULL FREE LOE LOD THR UP UO].
  assert (SZ : 0 < rsize r) by lia.
  assert (NOPOP : forall t0 p0, ipop (pcs t0) = Some p0 -> p0 + size <> p).
  { intros t0 p0 H0 E. destruct (ipop_inv _ _ _ _ _ _ (THR t0) H0) as [_ [_ Q]].
    assert (seq_at r p = seq_at r p0). { apply seq_at_idx. rewrite <- E, <- L. apply idx_plus; auto. } lia. }
  assert (F1 : p < deq r + size).
  { destruct (Nat.eq_dec p (deq r + size)) as [E | E]; [| lia]. exfalso.
    assert (SA: seq_at r p = seq_at r (deq r)). { apply seq_at_idx. rewrite E, <- L. apply idx_plus; auto. }
    destruct (FULL (deq r)) as [[t0 H0] | [Q _]]; [lia | | lia].
    destruct (ipush_inv _ _ _ _ _ _ (THR t0) H0) as [_ [Q _]]. lia. }
  assert (F2 : seq_at r p = p).
  { destruct (FREE p) as [[Q1 [t0 H0]] | Q]; [lia | | auto]. exfalso. apply (NOPOP t0 (p - size) H0). lia. }
  assert (NP : ipush (pcs t) = None) by (rewrite Ht; reflexivity).
  assert (NO : ipop (pcs t) = None) by (rewrite Ht; reflexivity).
  split; [auto |].
  constructor; autorewrite with ringrw; auto; try lia.
  - rewrite app_length. cbn [length]. lia.
  - intros p0 Hp0. autorewrite with ringrw. destruct (Nat.eq_dec p0 p) as [E | E].
    + subst p0. left. exists t. rewrite Ht'. reflexivity.
    + destruct (FULL p0) as [[t0 H0] | [Q1 [y [Q2 Q3]]]]; [lia | |].
      * left. exists t0. rewrite Hoth; auto. intros X; subst t0. congruence.
      * right. split; auto. exists y. split; auto. rewrite nth_error_app1; auto. lia.
  - intros p0 Hp0. autorewrite with ringrw. destruct (FREE p0) as [[Q1 [t0 H0]] | Q]; [lia | | auto].
    left. split; auto. exists t0. rewrite Hoth; auto. intros X; subst t0. congruence.
  - intros p0 Hp0. autorewrite with ringrw. destruct (Nat.eq_dec p0 p) as [E | E]; [subst; lia | apply LOE; lia].
  - intros t0. thr_cases t0 t Hoth Ht'.
    + simpl. autorewrite with ringrw. repeat split; auto; try lia.
      rewrite nth_error_app2 by lia. replace (p - deq r - length q) with 0 by lia. reflexivity.
    + pose proof (THR t0) as T0. pose proof (NOPOP t0) as NP0.
      destruct (pcs t0); simpl in *; autorewrite with ringrw; auto; try lia.
      * destruct T0 as [T1 [T2 T3]]. repeat split; auto; try lia. rewrite nth_error_app1; auto.
        apply nth_error_Some. congruence.
      * destruct T0 as [T1 [T2 [T3 T4]]]. repeat split; auto; try lia. rewrite nth_error_app1; auto.
        apply nth_error_Some. congruence.
      * destruct T0 as [T1 [T2 [T3 T4]]]. specialize (NP0 _ eq_refl). repeat split; auto; lia.
      * destruct T0 as [T1 [T2 T3]]. specialize (NP0 _ eq_refl). repeat split; auto; lia.
  - intros a b p0. thr_cases a t Hoth Ht'; thr_cases b t Hoth Ht'; simpl; intros Ha Hb; auto.
    + inversion Ha; subst p0. destruct (ipush_inv _ _ _ _ _ _ (THR b) Hb). lia.
    + inversion Hb; subst p0. destruct (ipush_inv _ _ _ _ _ _ (THR a) Ha). lia.
    + eapply UP; eauto.
  - intros a b p0. thr_cases a t Hoth Ht'; thr_cases b t Hoth Ht'; simpl; intros Ha Hb; try discriminate.
    eapply UO; eauto.
Qed.


Lemma idx_window2 : forall r a b, 0 < rsize r -> a < b + rsize r -> b < a + rsize r -> idx r a = idx r b -> a = b.
Proof.
  intros r a b H H1 H2 E. destruct (le_lt_dec a b).
  - apply (idx_window A r a b); auto.
  - symmetry. apply (idx_window A r b a); auto. lia.
Qed.

Lemma pres_pop_cas : forall size r q (pcs pcs' : nat -> rpc A) t p,
  InvC A size r q pcs -> pcs t = PopCas p -> deq r = p ->
  (forall t0, t0 <> t -> pcs' t0 = pcs t0) -> pcs' t = PopMove p (dat_at r p) ->
  (p < enq r /\ seq_at r p = S p /\ exists x, q = x :: tl q /\ dat_at r p = Some x) /\
  InvC A size (set_deq r (S p)) (tl q) pcs'.
Proof.
  intros size r q pcs pcs' t p I Ht He Hoth Ht'.
  pose proof (i_thr _ _ _ _ _ I t) as Tt. rewrite Ht in Tt. simpl in Tt. destruct Tt as [_ Tseq].
  destruct I as [L S2 DE CAP LQ FULL FREE LOE LOD THR UP UO].
  assert (SZ : 0 < rsize r) by lia.
  assert (F1 : p < enq r).
  { destruct (Nat.eq_dec p (enq r)) as [E | E]; [| lia]. exfalso.
    destruct (FREE p) as [[Q1 [t0 H0]] | Q]; [lia | | lia].
    destruct (ipop_inv _ _ _ _ _ _ (THR t0) H0) as [_ [_ Q]].
    assert (seq_at r p = seq_at r (p - size)).
    { apply seq_at_idx. replace p with (p - size + rsize r) at 1 by lia. apply idx_plus; auto. }
    lia. }
  assert (NOPUSH : forall t0 p0, ipush (pcs t0) = Some p0 -> p0 <> p).
  { intros t0 p0 H0 E. subst p0. destruct (ipush_inv _ _ _ _ _ _ (THR t0) H0) as [_ [Q _]]. lia. }
  assert (F2 : seq_at r p = S p /\ exists x, q = x :: tl q /\ dat_at r p = Some x).
  { destruct (FULL p) as [[t0 H0] | [Q1 [y [Q2 Q3]]]]; [lia | |].
    - exfalso. apply (NOPUSH t0 p H0); auto.
    - split; auto. exists y. split; auto. replace (p - deq r) with 0 in Q2 by lia.
      destruct q; simpl in Q2; inversion Q2; reflexivity. }
  assert (NP : ipush (pcs t) = None) by (rewrite Ht; reflexivity).
  assert (NO : ipop (pcs t) = None) by (rewrite Ht; reflexivity).
  split; [tauto |].
  destruct F2 as [F2 [x [F3 F4]]]. destruct q as [| x' q']; [discriminate |]. cbn [tl] in *. cbn [length] in LQ.
  constructor; autorewrite with ringrw; auto; try lia.
  - intros p0 Hp0. autorewrite with ringrw.
    destruct (FULL p0) as [[t0 H0] | [Q1 [y [Q2 Q3]]]]; [lia | |].
    + left. exists t0. rewrite Hoth; auto. intros X; subst t0. congruence.
    + right. split; auto. exists y. split; auto.
      replace (p0 - deq r) with (S (p0 - S p)) in Q2 by lia. exact Q2.
  - intros p0 Hp0. autorewrite with ringrw. destruct (Nat.eq_dec p0 (p + size)) as [E | E].
    + left. split; [lia |]. exists t. rewrite Ht'. simpl. f_equal. lia.
    + destruct (FREE p0) as [[Q1 [t0 H0]] | Q]; [lia | | auto].
      left. split; auto. exists t0. rewrite Hoth; auto. intros X; subst t0. congruence.
  - intros p0 Hp0. autorewrite with ringrw. destruct (Nat.eq_dec p0 p) as [E | E]; [subst; lia | apply LOD; lia].
  - intros t0. thr_cases t0 t Hoth Ht'.
    + simpl. autorewrite with ringrw. repeat split; auto; try lia.
    + pose proof (THR t0) as T0. pose proof (NOPUSH t0) as NP0.
      destruct (pcs t0); simpl in *; autorewrite with ringrw; auto; try lia.
      * destruct T0 as [T1 [T2 T3]]. specialize (NP0 _ eq_refl). repeat split; auto; try lia.
        replace (pos - deq r) with (S (pos - S p)) in T3 by lia. exact T3.
      * destruct T0 as [T1 [T2 [T3 T4]]]. specialize (NP0 _ eq_refl). repeat split; auto; try lia.
        replace (pos - deq r) with (S (pos - S p)) in T3 by lia. exact T3.
      * destruct T0 as [T1 [T2 [T3 T4]]]. repeat split; auto; lia.
  - intros a b p0. thr_cases a t Hoth Ht'; thr_cases b t Hoth Ht'; simpl; intros Ha Hb; try discriminate.
    eapply UP; eauto.
  - intros a b p0. thr_cases a t Hoth Ht'; thr_cases b t Hoth Ht'; simpl; intros Ha Hb; auto.
    + inversion Ha; subst p0. destruct (ipop_inv _ _ _ _ _ _ (THR b) Hb). lia.
    + inversion Hb; subst p0. destruct (ipop_inv _ _ _ _ _ _ (THR a) Ha). lia.
    + eapply UO; eauto.
Qed.

End Pres2.
