(** C17 — the caches in front of vProgPoW, as coded, over an abstract pure hash.

    Executable model, no proofs.  Sources modelled (at /repo HEAD):
      include/veriblock/pop/cache/small_lfru_cache.hpp   SmallLFRUCache (epoch -> light cache + DAG)
      include/veriblock/pop/third_party/lru_cache.hpp    lru11::Cache   (sha256d(header) -> hash)
      src/pop/crypto/progpow/progpow.cpp                 progPowHash / progPowHashImpl, insertHeaderCacheEntry,
                                                         clearHeaderCache, clearEthashCache (lock-granular steps)
      src/pop/entities/vbkblock.cpp                      hash_ memo, setters -> invalidateHash, getHash,
                                                         setPrecalculatedHash

    External pure functions are Section variables: [hk] (sha256twice of the header, the LRU key), [ep]
    (epoch of the header), [mk] (ethash_make_cache + createDagCache of an epoch), [hash] (the vProgPoW kernel
    on a header and an epoch entry).  The value a request must produce is [f h = hash h (mk (ep h))].
    The clock (currentTimestamp4) is an input of every operation (arbitrary, not even monotone). *)
From Coq Require Import List Arith Bool NArith.
From VB Require Import Conc.ValidatorDefs.
Import ListNotations.
Local Open Scope N_scope.

Definition wrap64 (x : N) : N := x mod 18446744073709551616.

Section Cache.
Variables Hdr Key Ep Ent V : Type.
Variable hk : Hdr -> Key.
Variable key_eqb : Key -> Key -> bool.
Variable ep : Hdr -> Ep.
Variable ep_eqb : Ep -> Ep -> bool.
Variable mk : Ep -> Ent.
Variable hash : Hdr -> Ent -> V.
Variable is_zero : V -> bool.        (* hash_ == empty, the "not computed" marker of VbkBlock *)
Variable zero : V.

Definition f (h : Hdr) : V := hash h (mk (ep h)).

(* ---------------- SmallLFRUCache<Ep, Ent, Size, TimeWindow> ---------------- *)

Record item := mkItem { ifreq : N; ilast : N; ikey : Ep; ival : Ent }.

(** the first size_ slots of container_; slots beyond size_ are never read *)
Definition lfru := list item.

Fixpoint lfru_get (k : Ep) (now : N) (l : lfru) : option (Ent * lfru) :=
  match l with
  | [] => None
  | it :: r =>
    if ep_eqb (ikey it) k
    then Some (ival it, mkItem (wrap64 (ifreq it + 1)) now (ikey it) (ival it) :: r)
    else match lfru_get k now r with
         | Some (v, r') => Some (v, it :: r')
         | None => None
         end
  end.

Definition lt_lr (a b : item) : bool :=
  (ilast a <? ilast b) || ((ilast a =? ilast b) && (ifreq a <? ifreq b)).

Fixpoint scan_evict (l : list item) (i : nat) (mn lr : nat * item) : (nat * item) * (nat * item) :=
  match l with
  | [] => (mn, lr)
  | it :: r =>
    let mn' := if ifreq it <? ifreq (snd mn) then (i, it) else mn in
    let lr' := if lt_lr it (snd lr) then (i, it) else lr in
    scan_evict r (S i) mn' lr'
  end.

(** slot chosen by insert() when the cache is full; [current - TimeWindow] is size_t arithmetic *)
Definition evict_index (tw : N) (l : lfru) (now : N) : nat :=
  match l with
  | [] => O
  | it0 :: _ =>
    let '(mn, lr) := scan_evict l O (O, it0) (O, it0) in
    if ilast (snd lr) <=? wrap64 (now + 18446744073709551616 - wrap64 tw) then fst lr else fst mn
  end.

Definition lfru_insert (size : nat) (tw : N) (k : Ep) (v : Ent) (now : N) (l : lfru) : lfru :=
  let it := mkItem 0 now k v in
  if (length l <? size)%nat then l ++ [it]
  else upd (evict_index tw l now) (fun _ => it) l.

(** getOrDefault(key, factory) with factory = the cache builder; returns (value, hit?, victim slot) *)
Definition lfru_get_or_default (size : nat) (tw : N) (k : Ep) (now : N) (l : lfru) : Ent * bool * lfru :=
  match lfru_get k now l with
  | Some (v, l') => (v, true, l')
  | None => let v := mk k in (v, false, lfru_insert size tw k v now l)
  end.

Definition lfru_clear (l : lfru) : lfru := [].

Inductive lfru_op := FGet (k : Ep) (now : N) | FClear.

Definition lfru_step (size : nat) (tw : N) (o : lfru_op) (l : lfru) : option Ent * lfru :=
  match o with
  | FGet k now => let '(v, _, l') := lfru_get_or_default size tw k now l in (Some v, l')
  | FClear => (None, [])
  end.

Fixpoint lfru_run (size : nat) (tw : N) (ops : list lfru_op) (l : lfru) : list (option Ent) * lfru :=
  match ops with
  | [] => ([], l)
  | o :: r => let '(a, l') := lfru_step size tw o l in
              let '(as_, l'') := lfru_run size tw r l' in (a :: as_, l'')
  end.

(* ---------------- lru11::Cache<Key, V> ---------------- *)

(** keys_ (front = most recently used); cache_ is the index of this list *)
Definition lru := list (Key * V).

Fixpoint lru_find (k : Key) (l : lru) : option (V * lru) :=   (* value and the list without the entry *)
  match l with
  | [] => None
  | (k', v) :: r =>
    if key_eqb k' k then Some (v, r)
    else match lru_find k r with
         | Some (v', r') => Some (v', (k', v) :: r')
         | None => None
         end
  end.

Definition lru_prune (maxsize elast : nat) (l : lru) : lru :=
  if ((maxsize =? 0) || (length l <? maxsize + elast))%nat then l else firstn maxsize l.

Definition lru_insert (maxsize elast : nat) (k : Key) (v : V) (l : lru) : lru :=
  match lru_find k l with
  | Some (_, r) => (k, v) :: r                       (* value replaced, spliced to the front *)
  | None => lru_prune maxsize elast ((k, v) :: l)
  end.

Definition lru_try_get (k : Key) (l : lru) : option V * lru :=
  match lru_find k l with
  | Some (v, r) => (Some v, (k, v) :: r)
  | None => (None, l)
  end.

(* ---------------- progPowHash: lock-granular steps of several threads ---------------- *)

Inductive tstate :=
| TIdle
| TReq (h : Hdr)            (* entered progPowHash(h) *)
| TMissed (h : Hdr)         (* header cache missed, lock released *)
| TGot (h : Hdr) (v : V)    (* progPowHashImpl returned *)
| TRet (h : Hdr) (v : V).   (* progPowHash returned v *)

Record sys := mkSys { hdrc : lru; ethc : lfru; thr : list tstate }.

Inductive sop :=
| ORequest (t : nat) (h : Hdr)
| OLookup (t : nat)               (* { lock; tryGet } *)
| OCompute (t : nat) (now : N)    (* progPowHashImpl: { lock; getOrDefault(epoch) } then the kernel *)
| OStore (t : nat)                (* { lock; insert } *)
| OClearHdr
| OClearEth
| OInsertHdr (h : Hdr) (v : V).   (* insertHeaderCacheEntry(header, hash) *)

Definition set_thr (t : nat) (x : tstate) (s : sys) : sys :=
  mkSys (hdrc s) (ethc s) (upd t (fun _ => x) (thr s)).

Definition sys_step (size : nat) (tw : N) (maxsize elast : nat) (o : sop) (s : sys) : sys :=
  match o with
  | ORequest t h =>
    match nth_error (thr s) t with
    | Some TIdle | Some (TRet _ _) => set_thr t (TReq h) s
    | _ => s
    end
  | OLookup t =>
    match nth_error (thr s) t with
    | Some (TReq h) =>
      match lru_try_get (hk h) (hdrc s) with
      | (Some v, c') => mkSys c' (ethc s) (upd t (fun _ => TRet h v) (thr s))
      | (None, c') => mkSys c' (ethc s) (upd t (fun _ => TMissed h) (thr s))
      end
    | _ => s
    end
  | OCompute t now =>
    match nth_error (thr s) t with
    | Some (TMissed h) =>
      let '(e, _, c') := lfru_get_or_default size tw (ep h) now (ethc s) in
      mkSys (hdrc s) c' (upd t (fun _ => TGot h (hash h e)) (thr s))
    | _ => s
    end
  | OStore t =>
    match nth_error (thr s) t with
    | Some (TGot h v) =>
      mkSys (lru_insert maxsize elast (hk h) v (hdrc s)) (ethc s) (upd t (fun _ => TRet h v) (thr s))
    | _ => s
    end
  | OClearHdr => mkSys [] (ethc s) (thr s)
  | OClearEth => mkSys (hdrc s) [] (thr s)
  | OInsertHdr h v => mkSys (lru_insert maxsize elast (hk h) v (hdrc s)) (ethc s) (thr s)
  end.

Definition sys_run (size : nat) (tw : N) (maxsize elast : nat) (ops : list sop) (s : sys) : sys :=
  fold_left (fun s o => sys_step size tw maxsize elast o s) ops s.

Definition sys_init (nthreads : nat) : sys := mkSys [] [] (repeat TIdle nthreads).

(* ---------------- what the ethash mutex is for ---------------- *)

(** In [sys_step] the whole of getOrDefault (lookup, factory, insert) is ONE step [OCompute]: that is the meaning of
    `LockGuard lock(GetEthashCacheMutex())` around it in progPowHashImpl.  The following variant documents what
    happens WITHOUT that serialisation, for an application-supplied cache that remembers only the last epoch
    (a legal EthashCacheI): its lookup, and the two stores of its insert, become separate steps of each thread. *)
Record lastc := mkLastc { lc_ep : option Ep; lc_ent : option Ent }.

Inductive uthr :=
| UIdle
| UBuilt (h : Hdr) (e : Ent)      (* lookup missed, factory returned e, nothing stored yet *)
| UWroteEp (h : Hdr) (e : Ent)    (* the epoch field of the slot is written, the entry not yet *)
| UDone (h : Hdr) (v : V).

Record usys := mkUsys { ucache : lastc; uthreads : list uthr }.

Inductive uop := UStart (t : nat) (h : Hdr) | UWriteEp (t : nat) | UWriteEnt (t : nat).

Definition usys_step (o : uop) (s : usys) : usys :=
  match o with
  | UStart t h =>
    match nth_error (uthreads s) t with
    | Some UIdle | Some (UDone _ _) =>
      match lc_ep (ucache s), lc_ent (ucache s) with
      | Some e, Some x =>
        if ep_eqb e (ep h) then mkUsys (ucache s) (upd t (fun _ => UDone h (hash h x)) (uthreads s))
        else mkUsys (ucache s) (upd t (fun _ => UBuilt h (mk (ep h))) (uthreads s))
      | _, _ => mkUsys (ucache s) (upd t (fun _ => UBuilt h (mk (ep h))) (uthreads s))
      end
    | _ => s
    end
  | UWriteEp t =>
    match nth_error (uthreads s) t with
    | Some (UBuilt h e) => mkUsys (mkLastc (Some (ep h)) (lc_ent (ucache s))) (upd t (fun _ => UWroteEp h e) (uthreads s))
    | _ => s
    end
  | UWriteEnt t =>
    match nth_error (uthreads s) t with
    | Some (UWroteEp h e) => mkUsys (mkLastc (lc_ep (ucache s)) (Some e)) (upd t (fun _ => UDone h (hash h e)) (uthreads s))
    | _ => s
    end
  end.

Definition usys_run (ops : list uop) (s : usys) : usys := fold_left (fun s o => usys_step o s) ops s.
Definition usys_init (n : nat) : usys := mkUsys (mkLastc None None) (repeat UIdle n).

(* ---------------- VbkBlock::hash_ ---------------- *)

Record blk := mkBlk { content : Hdr; memo : V }.

Inductive bop :=
| BSet (h : Hdr)             (* any setter: the field changes, invalidateHash() *)
| BGetHash
| BPrecalc (v : V)           (* setPrecalculatedHash *)
| BDeser (h : Hdr) (v : V)   (* DeserializeFromRaw / DeserializeFromVbkEncoding INTO THIS OBJECT: every header field is
                                overwritten and, as coded, block.hash_ = hash unconditionally, where [hash] is the
                                supplied precalculated hash or the all-zero default *)
| BAssign (src : blk).       (* copy / move assignment from another block: fields and memo are taken over *)

(** getHash: if (hash_ == empty) hash_ = calculateHash(); return hash_.  [hf] is the hash function in use
    (progPowHash through its caches; transparent by the theorems of this file) *)
Definition blk_step (hf : Hdr -> V) (o : bop) (b : blk) : option V * blk :=
  match o with
  | BSet h => (None, mkBlk h zero)
  | BGetHash => let m := if is_zero (memo b) then hf (content b) else memo b in (Some m, mkBlk (content b) m)
  | BPrecalc v => (None, mkBlk (content b) v)
  | BDeser h v => (None, mkBlk h v)
  | BAssign src => (None, src)
  end.

Fixpoint blk_run (hf : Hdr -> V) (ops : list bop) (b : blk) : list (option V) * blk :=
  match ops with
  | [] => ([], b)
  | o :: r => let '(a, b') := blk_step hf o b in
              let '(as_, b'') := blk_run hf r b' in (a :: as_, b'')
  end.

End Cache.
