(** C16 — obstruction freedom of the step-level MPMC ring model: from every reachable state, a thread that is inside
    a push or pop and runs alone (no other thread scheduled, no spurious CAS failure) returns within 8 of its own
    steps.  In particular the branch [dif > 0] (reload the position and retry) never spins on its own. *)
From Coq Require Import List Arith Bool Lia.
From VB Require Import Conc.ValidatorDefs Conc.ListUpd Conc.RingDefs Conc.RingProofs Conc.RingSteps Conc.RingStepsInv
  Conc.RingStepsPres Conc.RingStepsPres2 Conc.RingLin Conc.RingLinear Conc.RingConc.
Import ListNotations.

Local Arguments cells {A} _.
Local Arguments enq {A} _.
Local Arguments deq {A} _.

Section Solo.
Variable A : Type.
Implicit Types s : rstate A.

Definition solo (n t : nat) s : rstate A := rs_run (repeat (t, false) n) s.

Definition Fin (k t : nat) (h0 : list (rop A * rres A)) s : Prop :=
  exists n, n <= k /\ tpc (rs_thr (solo n t s) t) = PcIdle /\ exists e, thist (rs_thr (solo n t s) t) = h0 ++ [e].

Lemma Fin_step : forall k t h0 s, Fin k t h0 (rs_step t false s) -> Fin (S k) t h0 s.
Proof. intros k t h0 s [n [H1 H2]]. exists (S n). split; [lia | exact H2]. Qed.

Lemma Fin_mono : forall k k' t h0 s, Fin k t h0 s -> k <= k' -> Fin k' t h0 s.
Proof. intros k k' t h0 s [n [H1 H2]] H. exists n. split; [lia | exact H2]. Qed.

Lemma Fin_now : forall k t h0 s e, tpc (rs_thr s t) = PcIdle -> thist (rs_thr s t) = h0 ++ [e] -> Fin k t h0 s.
Proof. intros. exists 0. split; [lia |]. split; auto. exists e. auto. Qed.

Ltac facts Ht :=
  unfold rs_step; try rewrite Ht; cbn [andb negb]; unfold goto, goto_m, ret_m, commit; cbn [rs_thr rs_mem];
  rewrite ?upd_thr_same; cbn [tpc thist]; try reflexivity.

(** the cell of the enqueue position never runs ahead of it; the cell of the dequeue position at most by one *)
Lemma seq_le_enq : forall size s, Inv A size s -> seq_at (rs_mem s) (enq (rs_mem s)) <= enq (rs_mem s).
Proof.
  intros size s I. set (r := rs_mem s). destruct I as [L S2 DE CAP LQ FULL FREE LOE LOD THR UP UO]. fold r in L, DE, CAP, FULL, FREE, THR.
  assert (SZ : 0 < rsize r) by lia.
  destruct (Nat.eq_dec (enq r) (deq r + size)) as [E | E].
  - assert (SA : seq_at r (enq r) = seq_at r (deq r)). { apply seq_at_idx. rewrite E, <- L. apply idx_plus; auto. }
    destruct (FULL (deq r)) as [[t0 H0] | [Q _]]; [lia | | lia].
    destruct (ipush_inv _ _ _ _ _ _ (THR t0) H0) as [_ [Q _]]. lia.
  - destruct (FREE (enq r)) as [[Q1 [t0 H0]] | Q]; [lia | | lia].
    destruct (ipop_inv _ _ _ _ _ _ (THR t0) H0) as [_ [_ Q]].
    assert (SA : seq_at r (enq r) = seq_at r (enq r - size)).
    { apply seq_at_idx. replace (enq r) with (enq r - size + rsize r) at 1 by lia. apply idx_plus; auto. }
    lia.
Qed.

Lemma seq_le_deq : forall size s, Inv A size s -> seq_at (rs_mem s) (deq (rs_mem s)) <= S (deq (rs_mem s)).
Proof.
  intros size s I. set (r := rs_mem s). destruct I as [L S2 DE CAP LQ FULL FREE LOE LOD THR UP UO]. fold r in L, DE, CAP, FULL, FREE, THR.
  assert (SZ : 0 < rsize r) by lia.
  destruct (Nat.eq_dec (enq r) (deq r)) as [E | E].
  - destruct (FREE (deq r)) as [[Q1 [t0 H0]] | Q]; [lia | | lia].
    destruct (ipop_inv _ _ _ _ _ _ (THR t0) H0) as [_ [_ Q]].
    assert (SA : seq_at r (deq r) = seq_at r (deq r - size)).
    { apply seq_at_idx. replace (deq r) with (deq r - size + rsize r) at 1 by lia. apply idx_plus; auto. }
    lia.
  - destruct (FULL (deq r)) as [[t0 H0] | [Q _]]; [lia | | lia].
    destruct (ipush_inv _ _ _ _ _ _ (THR t0) H0) as [_ [Q _]]. lia.
Qed.

(** push *)
Lemma fin_push_store : forall s t x p, tpc (rs_thr s t) = PushStore x p -> Fin 1 t (thist (rs_thr s t)) s.
Proof. intros s t x p Ht. apply Fin_step. eapply Fin_now; facts Ht. Qed.

Lemma fin_push_write : forall s t x p, tpc (rs_thr s t) = PushWrite x p -> Fin 2 t (thist (rs_thr s t)) s.
Proof.
  intros s t x p Ht. apply Fin_step.
  replace (thist (rs_thr s t)) with (thist (rs_thr (rs_step t false s) t)) by (facts Ht).
  apply fin_push_store with x p. facts Ht.
Qed.

Lemma fin_push_cas_fresh : forall s t x, tpc (rs_thr s t) = PushCas x (enq (rs_mem s)) -> Fin 3 t (thist (rs_thr s t)) s.
Proof.
  intros s t x Ht. apply Fin_step.
  replace (thist (rs_thr s t)) with (thist (rs_thr (rs_step t false s) t)) by (facts Ht; rewrite Nat.eqb_refl; facts Ht).
  apply fin_push_write with x (enq (rs_mem s)). facts Ht. rewrite Nat.eqb_refl. facts Ht.
Qed.

Lemma fin_push_cmp_fresh : forall size s t x sq, Inv A size s ->
  tpc (rs_thr s t) = PushCmp x (enq (rs_mem s)) sq -> Fin 4 t (thist (rs_thr s t)) s.
Proof.
  intros size s t x sq I Ht.
  pose proof (i_thr _ _ _ _ _ I t) as T. cbv beta in T. rewrite Ht in T. simpl in T.
  pose proof (seq_le_enq size s I) as SL.
  apply Fin_step. destruct (Nat.compare_spec sq (enq (rs_mem s))) as [C | C | C]; [| | lia].
  - replace (thist (rs_thr s t)) with (thist (rs_thr (rs_step t false s) t))
      by (facts Ht; rewrite C, Nat.compare_refl; facts Ht).
    assert (M : rs_mem (rs_step t false s) = rs_mem s) by (facts Ht; rewrite C, Nat.compare_refl; facts Ht).
    apply Fin_mono with 3; [| lia]. apply fin_push_cas_fresh with x. rewrite M.
    facts Ht. rewrite C, Nat.compare_refl. facts Ht.
  - apply Nat.compare_lt_iff in C. eapply Fin_now; facts Ht; rewrite C; facts Ht.
Qed.

Lemma fin_push_loadseq_fresh : forall size s t x, Inv A size s ->
  tpc (rs_thr s t) = PushLoadSeq x (enq (rs_mem s)) -> Fin 5 t (thist (rs_thr s t)) s.
Proof.
  intros size s t x I Ht. apply Fin_step.
  replace (thist (rs_thr s t)) with (thist (rs_thr (rs_step t false s) t)) by (facts Ht).
  assert (M : rs_mem (rs_step t false s) = rs_mem s) by (facts Ht).
  apply fin_push_cmp_fresh with size x (seq_at (rs_mem s) (enq (rs_mem s))); [apply Inv_step; auto |].
  rewrite M. facts Ht.
Qed.

Lemma fin_push_loadpos : forall size s t x, Inv A size s ->
  tpc (rs_thr s t) = PushLoadPos x -> Fin 6 t (thist (rs_thr s t)) s.
Proof.
  intros size s t x I Ht. apply Fin_step.
  replace (thist (rs_thr s t)) with (thist (rs_thr (rs_step t false s) t)) by (facts Ht).
  assert (M : rs_mem (rs_step t false s) = rs_mem s) by (facts Ht).
  apply fin_push_loadseq_fresh with size x; [apply Inv_step; auto |]. rewrite M. facts Ht.
Qed.

Lemma fin_push_cas : forall size s t x pos, Inv A size s ->
  tpc (rs_thr s t) = PushCas x pos -> Fin 6 t (thist (rs_thr s t)) s.
Proof.
  intros size s t x pos I Ht. destruct (Nat.eq_dec (enq (rs_mem s)) pos) as [E | E].
  - apply Fin_mono with 3; [| lia]. apply fin_push_cas_fresh with x. now rewrite E.
  - apply Fin_step. apply Nat.eqb_neq in E.
    replace (thist (rs_thr s t)) with (thist (rs_thr (rs_step t false s) t)) by (facts Ht; rewrite E; facts Ht).
    assert (M : rs_mem (rs_step t false s) = rs_mem s) by (facts Ht; rewrite E; facts Ht).
    apply fin_push_loadseq_fresh with size x; [apply Inv_step; auto |]. rewrite M. facts Ht. rewrite E. facts Ht.
Qed.

Lemma fin_push_cmp : forall size s t x pos sq, Inv A size s ->
  tpc (rs_thr s t) = PushCmp x pos sq -> Fin 7 t (thist (rs_thr s t)) s.
Proof.
  intros size s t x pos sq I Ht. apply Fin_step. destruct (Nat.compare sq pos) eqn:C.
  - replace (thist (rs_thr s t)) with (thist (rs_thr (rs_step t false s) t)) by (facts Ht; rewrite C; facts Ht).
    apply fin_push_cas with size x pos; [apply Inv_step; auto |]. facts Ht. rewrite C. facts Ht.
  - eapply Fin_now; facts Ht; rewrite C; facts Ht.
  - replace (thist (rs_thr s t)) with (thist (rs_thr (rs_step t false s) t)) by (facts Ht; rewrite C; facts Ht).
    apply fin_push_loadpos with size x; [apply Inv_step; auto |]. facts Ht. rewrite C. facts Ht.
Qed.

Lemma fin_push_loadseq : forall size s t x pos, Inv A size s ->
  tpc (rs_thr s t) = PushLoadSeq x pos -> Fin 8 t (thist (rs_thr s t)) s.
Proof.
  intros size s t x pos I Ht. apply Fin_step.
  replace (thist (rs_thr s t)) with (thist (rs_thr (rs_step t false s) t)) by (facts Ht).
  apply fin_push_cmp with size x pos (seq_at (rs_mem s) pos); [apply Inv_step; auto |]. facts Ht.
Qed.

(** pop *)
Lemma fin_pop_store : forall s t v p, tpc (rs_thr s t) = PopStore p v -> Fin 1 t (thist (rs_thr s t)) s.
Proof. intros s t v p Ht. apply Fin_step. eapply Fin_now; facts Ht. Qed.

Lemma fin_pop_move : forall s t g p, tpc (rs_thr s t) = PopMove p g -> Fin 2 t (thist (rs_thr s t)) s.
Proof.
  intros s t g p Ht. apply Fin_step.
  replace (thist (rs_thr s t)) with (thist (rs_thr (rs_step t false s) t)) by (facts Ht).
  apply fin_pop_store with (dat_at (rs_mem s) p) p. facts Ht.
Qed.

Lemma fin_pop_cas_fresh : forall s t, tpc (rs_thr s t) = PopCas (deq (rs_mem s)) -> Fin 3 t (thist (rs_thr s t)) s.
Proof.
  intros s t Ht. apply Fin_step.
  replace (thist (rs_thr s t)) with (thist (rs_thr (rs_step t false s) t)) by (facts Ht; rewrite Nat.eqb_refl; facts Ht).
  apply fin_pop_move with (dat_at (rs_mem s) (deq (rs_mem s))) (deq (rs_mem s)). facts Ht. rewrite Nat.eqb_refl. facts Ht.
Qed.

Lemma fin_pop_cmp_fresh : forall size s t sq, Inv A size s ->
  tpc (rs_thr s t) = PopCmp (deq (rs_mem s)) sq -> Fin 4 t (thist (rs_thr s t)) s.
Proof.
  intros size s t sq I Ht.
  pose proof (i_thr _ _ _ _ _ I t) as T. cbv beta in T. rewrite Ht in T. simpl in T.
  pose proof (seq_le_deq size s I) as SL.
  apply Fin_step. destruct (Nat.compare_spec sq (S (deq (rs_mem s)))) as [C | C | C]; [| | lia].
  - replace (thist (rs_thr s t)) with (thist (rs_thr (rs_step t false s) t))
      by (facts Ht; rewrite C, Nat.compare_refl; facts Ht).
    assert (M : rs_mem (rs_step t false s) = rs_mem s) by (facts Ht; rewrite C, Nat.compare_refl; facts Ht).
    apply Fin_mono with 3; [| lia]. apply fin_pop_cas_fresh. rewrite M.
    facts Ht. rewrite C, Nat.compare_refl. facts Ht.
  - apply Nat.compare_lt_iff in C. eapply Fin_now; facts Ht; rewrite C; facts Ht.
Qed.

Lemma fin_pop_loadseq_fresh : forall size s t, Inv A size s ->
  tpc (rs_thr s t) = PopLoadSeq (deq (rs_mem s)) -> Fin 5 t (thist (rs_thr s t)) s.
Proof.
  intros size s t I Ht. apply Fin_step.
  replace (thist (rs_thr s t)) with (thist (rs_thr (rs_step t false s) t)) by (facts Ht).
  assert (M : rs_mem (rs_step t false s) = rs_mem s) by (facts Ht).
  apply fin_pop_cmp_fresh with size (seq_at (rs_mem s) (deq (rs_mem s))); [apply Inv_step; auto |].
  rewrite M. facts Ht.
Qed.

Lemma fin_pop_loadpos : forall size s t, Inv A size s ->
  tpc (rs_thr s t) = PopLoadPos -> Fin 6 t (thist (rs_thr s t)) s.
Proof.
  intros size s t I Ht. apply Fin_step.
  replace (thist (rs_thr s t)) with (thist (rs_thr (rs_step t false s) t)) by (facts Ht).
  assert (M : rs_mem (rs_step t false s) = rs_mem s) by (facts Ht).
  apply fin_pop_loadseq_fresh with size; [apply Inv_step; auto |]. rewrite M. facts Ht.
Qed.

Lemma fin_pop_cas : forall size s t pos, Inv A size s ->
  tpc (rs_thr s t) = PopCas pos -> Fin 6 t (thist (rs_thr s t)) s.
Proof.
  intros size s t pos I Ht. destruct (Nat.eq_dec (deq (rs_mem s)) pos) as [E | E].
  - apply Fin_mono with 3; [| lia]. apply fin_pop_cas_fresh. now rewrite E.
  - apply Fin_step. apply Nat.eqb_neq in E.
    replace (thist (rs_thr s t)) with (thist (rs_thr (rs_step t false s) t)) by (facts Ht; rewrite E; facts Ht).
    assert (M : rs_mem (rs_step t false s) = rs_mem s) by (facts Ht; rewrite E; facts Ht).
    apply fin_pop_loadseq_fresh with size; [apply Inv_step; auto |]. rewrite M. facts Ht. rewrite E. facts Ht.
Qed.

Lemma fin_pop_cmp : forall size s t pos sq, Inv A size s ->
  tpc (rs_thr s t) = PopCmp pos sq -> Fin 7 t (thist (rs_thr s t)) s.
Proof.
  intros size s t pos sq I Ht. apply Fin_step. destruct (Nat.compare sq (S pos)) eqn:C.
  - replace (thist (rs_thr s t)) with (thist (rs_thr (rs_step t false s) t)) by (facts Ht; rewrite C; facts Ht).
    apply fin_pop_cas with size pos; [apply Inv_step; auto |]. facts Ht. rewrite C. facts Ht.
  - eapply Fin_now; facts Ht; rewrite C; facts Ht.
  - replace (thist (rs_thr s t)) with (thist (rs_thr (rs_step t false s) t)) by (facts Ht; rewrite C; facts Ht).
    apply fin_pop_loadpos with size; [apply Inv_step; auto |]. facts Ht. rewrite C. facts Ht.
Qed.

Lemma fin_pop_loadseq : forall size s t pos, Inv A size s ->
  tpc (rs_thr s t) = PopLoadSeq pos -> Fin 8 t (thist (rs_thr s t)) s.
Proof.
  intros size s t pos I Ht. apply Fin_step.
  replace (thist (rs_thr s t)) with (thist (rs_thr (rs_step t false s) t)) by (facts Ht).
  apply fin_pop_cmp with size pos (seq_at (rs_mem s) pos); [apply Inv_step; auto |]. facts Ht.
Qed.

Lemma ring_obstruction_free_lemma : forall size (progs : nat -> list (rop A)) sched t, 2 <= size ->
  let s := rs_run sched (rs_init size progs) in
  tpc (rs_thr s t) <> PcIdle ->
  exists n, n <= 8 /\ tpc (rs_thr (solo n t s) t) = PcIdle /\
            exists e, thist (rs_thr (solo n t s) t) = thist (rs_thr s t) ++ [e].
Proof.
  intros size progs sched t H s NI.
  destruct (reachable_invs A size progs sched H) as [I _]. fold s in I.
  change (Fin 8 t (thist (rs_thr s t)) s).
  destruct (tpc (rs_thr s t)) eqn:Ht; try congruence.
  - eapply Fin_mono; [eapply fin_push_loadpos; eauto | lia].
  - eapply Fin_mono; [eapply fin_push_loadseq; eauto | lia].
  - eapply Fin_mono; [eapply fin_push_cmp; eauto | lia].
  - eapply Fin_mono; [eapply fin_push_cas; eauto | lia].
  - eapply Fin_mono; [eapply fin_push_write; eauto | lia].
  - eapply Fin_mono; [eapply fin_push_store; eauto | lia].
  - eapply Fin_mono; [eapply fin_pop_loadpos; eauto | lia].
  - eapply Fin_mono; [eapply fin_pop_loadseq; eauto | lia].
  - eapply Fin_mono; [eapply fin_pop_cmp; eauto | lia].
  - eapply Fin_mono; [eapply fin_pop_cas; eauto | lia].
  - eapply Fin_mono; [eapply fin_pop_move; eauto | lia].
  - eapply Fin_mono; [eapply fin_pop_store; eauto | lia].
Qed.

End Solo.
