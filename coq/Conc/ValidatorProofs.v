(** C16 — safety invariant of the validator transition system, for all schedules *)
From Coq Require Import List Arith Bool Lia Permutation.
From VB Require Import Conc.ValidatorDefs Conc.ListUpd.
Import ListNotations.

Definition fut_nonpending (fs : list fut) (n : nat) : Prop :=
  forall j, j < n -> nth_error fs j <> Some FPending.

Definition posted (s : state) : nat :=
  match main s with MPost k => k | _ => length (cur s) end.

Definition main_ok_m (m : mstate) (fs : list fut) (ts : list task) (dup : bool) : Prop :=
  match m with
  | MPost k => k < length ts
  | MWait k => k <= length ts /\ fut_nonpending fs k
  | MGet _ => False
  | MReturned v => v = seq_verdict ts dup /\ fut_nonpending fs (length ts)
  | MIdle | MThrow => fut_nonpending fs (length ts)
  end.

Definition main_ok (s : state) : Prop := main_ok_m (main s) (futures s) (cur s) (curdup s).

Record Inv (s : state) : Prop := mkInv {
  i_len : length (futures s) = length (cur s);
  i_cur : forall j t, nth_error (cur s) j = Some t -> tid t = j /\ tok t = token s;
  i_nodup : NoDup (map tid (holders s));
  i_hold : forall t, In t (holders s) ->
           tid t < posted s /\ nth_error (cur s) (tid t) = Some t /\
           nth_error (futures s) (tid t) = Some FPending;
  i_ready : forall j v, nth_error (futures s) j = Some (FReady v) ->
            exists t, nth_error (cur s) j = Some t /\ tvalid t = v;
  i_unposted : forall j, posted s <= j < length (cur s) -> nth_error (futures s) j = Some FPending;
  i_main : main_ok s
}.

(* ---------- small facts ---------- *)

Lemma holders_repeat_idle : forall n, flat_map holders_w (repeat idle_worker n) = [].
Proof. induction n; simpl; auto. Qed.

Lemma mk_tasks_nth : forall tk vs i j t,
  nth_error (mk_tasks tk i vs) j = Some t -> tid t = i + j /\ tok t = tk.
Proof.
  induction vs; intros i j t H; destruct j; simpl in *; try discriminate.
  - inversion H; subst; simpl; split; auto; lia.
  - apply IHvs in H. destruct H; split; auto; lia.
Qed.

Lemma mk_tasks_length : forall tk vs i, length (mk_tasks tk i vs) = length vs.
Proof. induction vs; simpl; intros; auto. Qed.

Lemma mk_tasks_valid : forall tk vs i, map tvalid (mk_tasks tk i vs) = vs.
Proof. induction vs; simpl; intros; auto. now rewrite IHvs. Qed.

Lemma quiescent_nonpending : forall s, Inv s -> quiescent_main (main s) = true ->
  fut_nonpending (futures s) (length (cur s)).
Proof.
  intros s I Q. pose proof (i_main _ I) as M. unfold main_ok, main_ok_m in M.
  destruct (main s); simpl in Q; try discriminate; tauto.
Qed.

Lemma nonpending_no_holders : forall s, Inv s ->
  (match main s with MPost _ => False | _ => True end) ->
  fut_nonpending (futures s) (length (cur s)) -> holders s = [].
Proof.
  intros s I NP F. destruct (holders s) as [| t r] eqn:E; auto.
  destruct (i_hold _ I t) as [H1 [H2 H3]]. { rewrite E; left; auto. }
  exfalso. apply (F (tid t)); auto.
  unfold posted in H1. destruct (main s); auto; tauto.
Qed.

Lemma quiescent_no_holders : forall s, Inv s -> quiescent_main (main s) = true -> holders s = [].
Proof.
  intros s I Q. apply nonpending_no_holders; auto.
  - destruct (main s); simpl in Q; auto; discriminate.
  - apply quiescent_nonpending; auto.
Qed.

(** the invariant only sees the multiset of held tasks *)
Lemma Inv_same : forall s s',
  Permutation (holders s') (holders s) ->
  futures s' = futures s -> cur s' = cur s -> curdup s' = curdup s -> token s' = token s ->
  main s' = main s -> Inv s -> Inv s'.
Proof.
  intros s s' P F C D T M I. destruct I.
  assert (PO : posted s' = posted s) by (unfold posted; now rewrite M, C).
  constructor; try rewrite F; try rewrite C; try rewrite T; try rewrite PO; auto.
  - eapply Permutation_NoDup; [| exact i_nodup0]. apply Permutation_map. symmetry; auto.
  - intros t H. apply i_hold0. eapply Permutation_in; eauto.
  - unfold main_ok, main_ok_m in *. rewrite M, F, C, D. auto.
Qed.

Lemma Inv_set_aborted : forall s, Inv s -> Inv (set_aborted s).
Proof. intros. apply (Inv_same s); auto. Qed.

Lemma Inv_set_pst : forall s p, Inv s -> Inv (set_pst p s).
Proof. intros. apply (Inv_same s); auto. Qed.

Lemma posted_after_post : forall ws p c nx fs ts d tk a k,
  k <= length ts ->
  posted (mkState ws p c nx fs ts d tk (after_post false k (length ts)) a) = k.
Proof.
  intros. unfold posted, after_post; simpl.
  destruct (k =? length ts) eqn:E; simpl; auto. apply Nat.eqb_eq in E; auto.
Qed.

Lemma main_ok_after_post : forall k fs ts dup,
  k <= length ts -> main_ok_m (after_post false k (length ts)) fs ts dup.
Proof.
  intros. unfold after_post. destruct (k =? length ts) eqn:E; simpl.
  - split; [lia | intros j Hj; lia].
  - apply Nat.eqb_neq in E. lia.
Qed.

Lemma nonpending_upd_ready : forall fs k j v,
  fut_nonpending fs k -> fut_nonpending (upd j (fun _ => FReady v) fs) k.
Proof.
  intros fs k j v H i Hi. rewrite nth_error_upd. destruct (j =? i) eqn:E.
  - destruct (nth_error fs i); simpl; congruence.
  - auto.
Qed.

(* ---------- break_all ---------- *)

Lemma break_all_length : forall ts fs, length (break_all ts fs) = length fs.
Proof.
  unfold break_all. induction ts; simpl; intros; auto. rewrite IHts. apply upd_length.
Qed.

Lemma break_all_nth : forall ts fs j,
  nth_error (break_all ts fs) j = nth_error fs j \/
  (nth_error (break_all ts fs) j = Some FBroken /\ exists t, In t ts /\ tid t = j).
Proof.
  unfold break_all. induction ts; simpl; intros; auto.
  destruct (IHts (upd (tid a) (fun _ => FBroken) fs) j) as [H | [H [t [H1 H2]]]].
  - rewrite H. rewrite nth_error_upd. destruct (tid a =? j) eqn:E; auto.
    destruct (nth_error fs j) eqn:F; simpl; auto.
    right. split; auto. exists a. split; auto. now apply Nat.eqb_eq.
  - right. split; auto. exists t; auto.
Qed.

(* ---------- scan ---------- *)

Lemma scan_correct : forall fs ts i dup v,
  length fs = length ts ->
  (forall j u, nth_error fs j = Some (FReady u) -> exists t, nth_error ts j = Some t /\ tvalid t = u) ->
  scan i fs dup = SVerdict v ->
  v = match first_invalid i ts with Some x => VInvalid x | None => if dup then VDuplicates else VValid end.
Proof.
  induction fs as [| f fs IH]; intros ts i dup v L R HS; destruct ts as [| t ts]; simpl in *; try discriminate.
  - congruence.
  - destruct f as [| u |]; try discriminate.
    destruct (R 0 u eq_refl) as [t' [E1 E2]]. simpl in E1. inversion E1; subst t'.
    rewrite E2. destruct u.
    + eapply IH; eauto. intros j u' Hj. apply (R (S j) u'). exact Hj.
    + congruence.
Qed.

Lemma scan_not_blocked : forall fs i dup, (forall j, nth_error fs j <> Some FPending) -> scan i fs dup <> SBlocked.
Proof.
  induction fs as [| f fs IH]; intros i dup H; simpl; try discriminate.
  destruct f as [| u |]; try discriminate.
  - exfalso. apply (H 0). reflexivity.
  - destruct u; try discriminate. apply IH. intros j. apply (H (S j)).
Qed.

(* ---------- preservation, label by label ---------- *)

Lemma Inv_init : forall w c, Inv (init w c).
Proof.
  intros. constructor; simpl; auto.
  - intros j t H. destruct j; discriminate.
  - unfold holders; simpl. rewrite holders_repeat_idle. constructor.
  - unfold holders; simpl. rewrite holders_repeat_idle. simpl; tauto.
  - intros j v H. destruct j; discriminate.
  - intros j H. unfold posted in H; simpl in H. lia.
  - unfold main_ok; simpl. intros j H; lia.
Qed.

Lemma Inv_call : forall vs dup s s', Inv s -> step_call false vs dup s = Some s' -> Inv s'.
Proof.
  unfold step_call. intros vs dup s s' I H.
  destruct (quiescent_main (main s)) eqn:Q; try discriminate. inversion H; subst s'; clear H.
  pose proof (quiescent_no_holders _ I Q) as NH.
  set (ts := mk_tasks (S (token s)) 0 vs).
  constructor; simpl.
  - now rewrite repeat_length.
  - intros j t H. apply mk_tasks_nth in H. simpl in H. auto.
  - unfold holders in *; simpl. rewrite NH. constructor.
  - unfold holders in *; simpl. rewrite NH. simpl; tauto.
  - intros j v H. apply nth_error_repeat_inv in H. destruct H; discriminate.
  - intros j H. apply nth_error_repeat. lia.
  - unfold main_ok; simpl. apply main_ok_after_post. lia.
Qed.

Lemma holders_w_push : forall t wk, Permutation (holders_w (push_q t wk)) (t :: holders_w wk).
Proof.
  intros. unfold holders_w, push_q; simpl. rewrite <- app_assoc. simpl.
  symmetry. apply Permutation_middle.
Qed.

Lemma Inv_post : forall s s', Inv s -> step_post false s = Some s' -> Inv s'.
Proof.
  unfold step_post. intros s s' I H.
  destruct (main s) as [| k | | | |] eqn:M; try discriminate.
  destruct (nth_error (cur s) k) as [t |] eqn:Ck; try discriminate.
  destruct (pst s) eqn:P; try (inversion H; subst; now apply Inv_set_aborted).
  set (i := nextw s mod length (workers s)) in *.
  destruct (nth_error (workers s) i) as [wk |] eqn:W; try discriminate.
  destruct (length (wq wk) <? qcap s); [| inversion H; subst; now apply Inv_set_aborted].
  inversion H; subst s'; clear H.
  assert (Kn : k < length (cur s)) by (apply nth_error_Some; congruence).
  assert (PH : Permutation (flat_map holders_w (upd i (push_q t) (workers s))) (t :: holders s)).
  { eapply flat_map_upd_add; eauto. apply holders_w_push. }
  destruct (i_cur _ I _ _ Ck) as [Tk Tt].
  assert (PO : posted s = k) by (unfold posted; now rewrite M).
  constructor; try rewrite posted_after_post by lia; simpl.
  - apply (i_len _ I).
  - apply (i_cur _ I).
  - unfold holders; simpl. eapply Permutation_NoDup.
    { apply Permutation_map. symmetry. exact PH. }
    simpl. constructor; [| apply (i_nodup _ I)].
    intros X. apply in_map_iff in X. destruct X as [t' [E1 E2]].
    apply (i_hold _ I) in E2. lia.
  - unfold holders; simpl. intros t' H. eapply Permutation_in in H; [| exact PH].
    destruct H as [H | H].
    + subst t'. rewrite Tk. split; [lia |]. split; auto. apply (i_unposted _ I). lia.
    + apply (i_hold _ I) in H. intuition lia.
  - apply (i_ready _ I).
  - intros j H. apply (i_unposted _ I). lia.
  - unfold main_ok; simpl. apply main_ok_after_post. lia.
Qed.

Lemma Inv_pop : forall i s s', Inv s -> step_pop i s = Some s' -> Inv s'.
Proof.
  unfold step_pop. intros i s s' I H.
  destruct (nth_error (workers s) i) as [[q st] |] eqn:W; try discriminate.
  destruct q as [| t q]; try discriminate. destruct st; try discriminate.
  inversion H; subst s'; clear H.
  apply (Inv_same s); auto. unfold holders; simpl.
  eapply flat_map_upd_perm; eauto. unfold holders_w; simpl.
  rewrite app_nil_r. rewrite Permutation_app_comm. reflexivity.
Qed.

Lemma Inv_steal : forall i s s', Inv s -> step_steal i s = Some s' -> Inv s'.
Proof.
  unfold step_steal. intros i s s' I H.
  destruct (nth_error (workers s) i) as [[qi sti] |] eqn:W; try discriminate.
  destruct sti; try discriminate.
  set (d := S i mod length (workers s)) in *.
  destruct (nth_error (workers s) d) as [[qd std] |] eqn:D; try discriminate.
  destruct qd as [| t q]; try discriminate.
  inversion H; subst s'; clear H.
  apply (Inv_same s); auto. unfold holders; simpl.
  set (ws1 := upd d (set_q q) (workers s)).
  assert (P1 : Permutation (flat_map holders_w (workers s)) (t :: flat_map holders_w ws1)).
  { apply (flat_map_upd_rem _ _ holders_w (set_q q) _ _ _ t D). reflexivity. }
  assert (W1 : exists wk', nth_error ws1 i = Some wk' /\ wst wk' = WIdle).
  { unfold ws1. rewrite nth_error_upd. destruct (d =? i) eqn:E.
    - rewrite W. simpl. eexists; split; eauto.
    - rewrite W. eexists; split; eauto. }
  destruct W1 as [wk' [W1 W2]].
  assert (P2 : Permutation (flat_map holders_w (upd i (set_st (WRun t)) ws1)) (t :: flat_map holders_w ws1)).
  { eapply flat_map_upd_add; eauto. unfold holders_w, set_st; simpl. rewrite W2.
    rewrite app_nil_r. rewrite Permutation_app_comm. reflexivity. }
  rewrite P2. symmetry. exact P1.
Qed.

Lemma Inv_run_step : forall i s s', Inv s -> step_run i s = Some s' -> Inv s'.
Proof.
  unfold step_run. intros i s s' I H.
  destruct (nth_error (workers s) i) as [[q st] |] eqn:W; try discriminate.
  destruct st; try discriminate.
  inversion H; subst s'; clear H.
  apply (Inv_same s); auto. unfold holders; simpl.
  eapply flat_map_upd_perm; eauto.
Qed.

Lemma Inv_fulfil : forall i s s', Inv s -> step_fulfil i s = Some s' -> Inv s'.
Proof.
  unfold step_fulfil. intros i s s' I H.
  destruct (nth_error (workers s) i) as [[q st] |] eqn:W; try discriminate.
  destruct st; try discriminate.
  inversion H; subst s'; clear H.
  set (ws1 := upd i (set_st WIdle) (workers s)).
  assert (P1 : Permutation (holders s) (t :: flat_map holders_w ws1)).
  { unfold holders. eapply flat_map_upd_rem; eauto. unfold holders_w, set_st; simpl.
    rewrite app_nil_r. rewrite Permutation_app_comm. reflexivity. }
  assert (ND : NoDup (tid t :: map tid (flat_map holders_w ws1))).
  { eapply Permutation_NoDup; [| apply (i_nodup _ I)]. apply (Permutation_map tid) in P1. exact P1. }
  assert (SUB : forall t', In t' (flat_map holders_w ws1) -> In t' (holders s)).
  { intros t' H. eapply Permutation_in; [symmetry; exact P1 | right; auto]. }
  destruct (i_hold _ I t) as [T1 [T2 T3]]. { eapply Permutation_in; [symmetry; exact P1 | left; auto]. }
  assert (PO : posted (set_futures (upd (tid t) (fun _ => FReady (tvalid t)) (futures s)) (set_workers ws1 s)) = posted s)
    by reflexivity.
  constructor; try rewrite PO; simpl.
  - rewrite upd_length. apply (i_len _ I).
  - apply (i_cur _ I).
  - unfold holders; simpl. inversion ND; auto.
  - unfold holders; simpl. intros t' H. pose proof (SUB _ H) as H'.
    destruct (i_hold _ I t' H') as [A [B C]]. split; auto. split; auto.
    rewrite nth_error_upd_neq; auto.
    intros E. inversion ND; subst. apply H2. rewrite E. apply in_map. exact H.
  - intros j v H. rewrite nth_error_upd in H. destruct (tid t =? j) eqn:E.
    + apply Nat.eqb_eq in E. subst j. rewrite T3 in H. simpl in H. inversion H; subst. eauto.
    + apply (i_ready _ I); auto.
  - intros j H. rewrite nth_error_upd_neq by lia. apply (i_unposted _ I); auto.
  - pose proof (i_main _ I) as M. unfold main_ok, main_ok_m in *; simpl.
    destruct (main s); auto; intuition auto using nonpending_upd_ready.
Qed.

Lemma Inv_wait : forall s s', Inv s -> step_wait s = Some s' -> Inv s'.
Proof.
  unfold step_wait. intros s s' I H.
  pose proof (i_main _ I) as M. unfold main_ok, main_ok_m in M.
  destruct (main s) as [| | k | k | |] eqn:E; try discriminate; [| tauto].
  destruct M as [M1 M2].
  assert (HS : forall m, (match m with MPost _ => False | _ => True end) ->
                 posted (set_main m s) = posted s).
  { intros m Hm. unfold posted; simpl. rewrite E. destruct m; auto; tauto. }
  destruct (nth_error (futures s) k) as [f |] eqn:F.
  - assert (Kn : k < length (cur s)) by (rewrite <- (i_len _ I); apply nth_error_Some; congruence).
    assert (f <> FPending -> Inv (set_main (MWait (S k)) s)).
    { intros NF. destruct I. constructor; try rewrite HS; simpl; auto.
      unfold main_ok; simpl. split; [lia |].
      intros j Hj. destruct (Nat.eq_dec j k); [subst; congruence | apply M2; lia]. }
    destruct f; try discriminate; inversion H; subst; apply H0; discriminate.
  - assert (Kn : k = length (cur s)).
    { apply nth_error_None in F. rewrite (i_len _ I) in F. lia. }
    subst k.
    destruct (scan 0 (futures s) (curdup s)) eqn:SC; try discriminate; inversion H; subst s'; clear H.
    + destruct I. constructor; try rewrite HS; simpl; auto.
      unfold main_ok; simpl. split; auto.
      unfold seq_verdict. eapply scan_correct; eauto.
    + destruct I. constructor; try rewrite HS; simpl; auto.
Qed.

Lemma Inv_join : forall s s', Inv s -> step_join s = Some s' -> Inv s'.
Proof.
  unfold step_join. intros s s' I H.
  destruct (pst s) as [| k |] eqn:P; try discriminate.
  destruct (nth_error (workers s) k) as [[q st] |] eqn:W; try discriminate.
  destruct st; try discriminate.
  set (ws := upd k (set_st WExited) (workers s)) in *.
  destruct (S k =? length (workers s)).
  - inversion H; subst s'; clear H.
    set (Q := flat_map wq ws).
    assert (QH : forall t, In t Q -> In t (holders s)).
    { intros t Ht. unfold Q in Ht. apply in_flat_map in Ht. destruct Ht as [wk' [H1 H2]].
      apply in_upd in H1. destruct H1 as [wk [H3 H4]].
      unfold holders. apply in_flat_map. exists wk. split; auto.
      unfold holders_w. apply in_or_app. left.
      destruct H4; subst wk'; auto. }
    assert (PO : forall fs, posted (set_pst PStopped (set_futures fs (set_workers [] s))) = posted s) by reflexivity.
    constructor; try rewrite PO; simpl.
    + rewrite break_all_length. apply (i_len _ I).
    + apply (i_cur _ I).
    + constructor.
    + simpl; tauto.
    + intros j v H. destruct (break_all_nth Q (futures s) j) as [B | [B _]]; rewrite B in H.
      * apply (i_ready _ I); auto.
      * discriminate.
    + intros j H. destruct (break_all_nth Q (futures s) j) as [B | [B [t [T1 T2]]]].
      * rewrite B. apply (i_unposted _ I); auto.
      * apply QH in T1. apply (i_hold _ I) in T1. lia.
    + pose proof (i_main _ I) as M. unfold main_ok, main_ok_m in *; simpl.
      assert (NP : forall n, fut_nonpending (futures s) n -> fut_nonpending (break_all Q (futures s)) n).
      { intros n Hn j Hj. destruct (break_all_nth Q (futures s) j) as [B | [B _]]; rewrite B; auto. discriminate. }
      destruct (main s); auto; intuition auto.
  - inversion H; subst s'; clear H.
    apply (Inv_same s); auto. unfold holders; simpl.
    eapply flat_map_upd_perm; eauto.
Qed.

Lemma Inv_start : forall w s s', Inv s -> step_start w s = Some s' -> Inv s'.
Proof.
  unfold step_start. intros w s s' I H.
  destruct (pst s) eqn:P; try discriminate; inversion H; subst s'; clear H.
  - now apply Inv_set_aborted.
  - destruct I. constructor; simpl; auto.
    + unfold holders; simpl. rewrite holders_repeat_idle. constructor.
    + unfold holders; simpl. rewrite holders_repeat_idle. simpl; tauto.
Qed.

Lemma Inv_step : forall l s s', Inv s -> step false l s = Some s' -> Inv s'.
Proof.
  unfold step. intros l s s' I H. destruct (aborted s); try discriminate.
  destruct l.
  - eapply Inv_call; eauto.
  - eapply Inv_post; eauto.
  - eapply Inv_pop; eauto.
  - eapply Inv_steal; eauto.
  - eapply Inv_run_step; eauto.
  - eapply Inv_fulfil; eauto.
  - eapply Inv_wait; eauto.
  - unfold step_stopreq in H. destruct (pst s); try discriminate. inversion H; subst. now apply Inv_set_pst.
  - eapply Inv_join; eauto.
  - eapply Inv_start; eauto.
Qed.

Lemma Inv_run : forall sched s, Inv s -> Inv (run false sched s).
Proof.
  unfold run. induction sched; simpl; intros; auto. apply IHsched.
  unfold step'. destruct (step false a s) eqn:E; auto. eapply Inv_step; eauto.
Qed.

Lemma Inv_reach : forall w c sched, Inv (run false sched (init w c)).
Proof. intros. apply Inv_run. apply Inv_init. Qed.

(* ---------- the property statements ---------- *)

Lemma verdict_schedule_independent_lemma : forall w c sched v,
  let s := run false sched (init w c) in
  main s = MReturned v -> v = seq_verdict (cur s) (curdup s).
Proof.
  intros w c sched v s H. pose proof (i_main _ (Inv_reach w c sched)) as M.
  fold s in M. unfold main_ok, main_ok_m in M. rewrite H in M. tauto.
Qed.

(** the arguments of the current call are exactly what the last accepted LCall supplied *)
Lemma call_sets_cur_lemma : forall vs dup s s',
  step false (LCall vs dup) s = Some s' ->
  map tvalid (cur s') = vs /\ curdup s' = dup /\ token s' = S (token s).
Proof.
  unfold step, step_call. intros vs dup s s' H. destruct (aborted s); try discriminate.
  destruct (quiescent_main (main s)); try discriminate. inversion H; subst; simpl.
  rewrite mk_tasks_valid. auto.
Qed.

Lemma holds_token_false : forall s, holders s = [] -> holds_token s = false.
Proof. unfold holds_token. intros s H. rewrite H. reflexivity. Qed.

Lemma released_on_return_lemma : forall w c sched,
  let s := run false sched (init w c) in
  quiescent_main (main s) = true -> holders s = [] /\ holds_token s = false.
Proof.
  intros w c sched s H. assert (holders s = []) by (apply quiescent_no_holders; auto; apply Inv_reach).
  split; auto. now apply holds_token_false.
Qed.

(** before /repo 9e8bd1f5: main returns while a queued task still references the PopData *)
Definition v0_witness_sched : list label :=
  [LCall [false; true] false; LPost; LPost; LPop 0; LRun 0; LFulfil 0; LWait].

Lemma released_on_return_v0_refuted_lemma :
  exists w c sched, let s := run true sched (init w c) in
    main s = MReturned (VInvalid 0) /\ holders s <> [] /\ holds_token s = true.
Proof.
  exists 1, 4, v0_witness_sched. vm_compute. split; auto. split; auto. discriminate.
Qed.

(** the same schedule under the current code: main is still waiting *)
Example current_code_waits :
  main (run false v0_witness_sched (init 1 4)) = MWait 1.
Proof. vm_compute. reflexivity. Qed.

(** no VBK_ASSERT fires as long as nobody stops/starts the validator and every call fits the queue
    (checkPopData rejects oversized PopData before posting; queue size >= max payload count) *)
Definition sizes_ok (c : nat) (l : label) : bool :=
  match l with
  | LCall vs _ => length vs <=? c
  | LStopReq | LJoin | LStart _ => false
  | _ => true
  end.
