(** C16 — concrete interleavings of the step-level MPMC ring model (capacity 2, values are naturals), evaluated by
    vm_compute: the model really contains colliding CAS loops, spurious CAS failures, and the two situations in
    which a failing answer is given although the abstract queue is neither full nor empty. *)
From Coq Require Import List Arith Bool.
From VB Require Import Conc.RingDefs Conc.RingSteps.
Import ListNotations.

Local Arguments PushOk {A}.
Local Arguments PushFull {A}.
Local Arguments PopOk {A} _.
Local Arguments PopEmpty {A}.
Local Arguments RPush {A} _.
Local Arguments RPop {A}.

Definition ex_progs (t : nat) : list (rop nat) :=
  match t with 0 => [RPush 10] | 1 => [RPush 20] | 2 => [RPop; RPop] | _ => [] end.

(** a schedule without spurious failures *)
Definition plain (l : list nat) : list (nat * bool) := map (fun t => (t, false)) l.

(** what the examples look at: cells, counters, (pc, returned answers) of threads 0..3, log, abstract queue *)
Definition view (s : rstate nat) :=
  (cells nat (rs_mem s), enq nat (rs_mem s), deq nat (rs_mem s),
   map (fun t => (tpc (rs_thr s t), thist (rs_thr s t))) [0; 1; 2; 3], rs_lin s, rs_q s).

(** threads 0 and 1 both read position 0 and the sequence number 0 of cell 0 and reach the CAS *)
Definition ex_collide := plain [0; 1; 0; 1; 0; 1; 0; 1; 0; 1].

(** thread 0 wins the CAS; the CAS of thread 1 fails, hands it the new position 1 and sends it back to load the
    sequence number of cell 1 *)
Lemma ring_cas_collision_example :
  view (rs_run ex_collide (rs_init 2 ex_progs)) =
  ([(0, None); (1, None)], 1, 0,
   [(PushWrite 10 0, []); (PushLoadSeq 20 1, []); (PcIdle, []); (PcIdle, [])],
   [(0, RPush 10, PushOk)], [10]).
Proof. vm_compute. reflexivity. Qed.

(** ... thread 1 retries and completes first, then thread 0 completes, then thread 2 pops both in FIFO order *)
Lemma ring_cas_collision_outcome_example :
  view (rs_run (ex_collide ++ plain [1; 1; 1; 1; 1] ++ plain [0; 0] ++ plain [2; 2; 2; 2; 2; 2; 2; 2; 2; 2; 2; 2; 2; 2])
               (rs_init 2 ex_progs)) =
  ([(2, Some 10); (3, Some 20)], 2, 2,
   [(PcIdle, [(RPush 10, PushOk)]); (PcIdle, [(RPush 20, PushOk)]);
    (PcIdle, [(RPop, PopOk (Some 10)); (RPop, PopOk (Some 20))]); (PcIdle, [])],
   [(0, RPush 10, PushOk); (1, RPush 20, PushOk); (2, RPop, PopOk (Some 10)); (2, RPop, PopOk (Some 20))], []).
Proof. vm_compute. reflexivity. Qed.

(** a spurious failure of compare_exchange_weak: a thread running alone retries and succeeds *)
Lemma ring_spurious_cas_example :
  view (rs_run (plain [0; 0; 0; 0]) (rs_init 2 ex_progs)) =
    ([(0, None); (1, None)], 0, 0, [(PushCas 10 0, []); (PcIdle, []); (PcIdle, []); (PcIdle, [])], [], []) /\
  view (rs_run (plain [0; 0; 0; 0] ++ [(0, true)]) (rs_init 2 ex_progs)) =
    ([(0, None); (1, None)], 0, 0, [(PushLoadSeq 10 0, []); (PcIdle, []); (PcIdle, []); (PcIdle, [])], [], []) /\
  view (rs_run (plain [0; 0; 0; 0] ++ [(0, true)] ++ plain [0; 0; 0; 0; 0]) (rs_init 2 ex_progs)) =
    ([(1, Some 10); (1, None)], 1, 0, [(PcIdle, [(RPush 10, PushOk)]); (PcIdle, []); (PcIdle, []); (PcIdle, [])],
     [(0, RPush 10, PushOk)], [10]).
Proof. vm_compute. repeat split; reflexivity. Qed.

(** "empty" is NOT linearizable in the strict sense.  Thread 0 has claimed position 0 but not yet published it;
    the push of thread 1 has completely returned (first state) BEFORE thread 2 even invokes its pop, no pop has
    taken anything - yet the pop of thread 2, running alone, answers "empty" (second state), because the oldest
    element is still in flight.  This is the case [exists t', ipush ... = Some pos] of the justification theorem;
    the worker loop of the pool treats "empty" as "try again later" (sleep 1 ms and poll), never as "done". *)
Lemma ring_empty_with_inflight_push_example :
  view (rs_run (ex_collide ++ plain [1; 1; 1; 1; 1]) (rs_init 2 ex_progs)) =
    ([(0, None); (2, Some 20)], 2, 0,
     [(PushWrite 10 0, []); (PcIdle, [(RPush 20, PushOk)]); (PcIdle, []); (PcIdle, [])],
     [(0, RPush 10, PushOk); (1, RPush 20, PushOk)], [10; 20]) /\
  view (rs_run (ex_collide ++ plain [1; 1; 1; 1; 1] ++ plain [2; 2; 2; 2]) (rs_init 2 ex_progs)) =
    ([(0, None); (2, Some 20)], 2, 0,
     [(PushWrite 10 0, []); (PcIdle, [(RPush 20, PushOk)]); (PcIdle, [(RPop, PopEmpty)]); (PcIdle, [])],
     [(0, RPush 10, PushOk); (1, RPush 20, PushOk)], [10; 20]).
Proof. vm_compute. split; reflexivity. Qed.

(** the mirror image for "full": thread 0 pushes 10 and 20 (capacity 2), thread 2 claims the oldest element but has
    not yet released the cell; one element is queued, yet the push of thread 3 answers "full" *)
Definition ex_progs2 (t : nat) : list (rop nat) :=
  match t with 0 => [RPush 10; RPush 20] | 2 => [RPop] | 3 => [RPush 30] | _ => [] end.

Lemma ring_full_with_inflight_pop_example :
  view (rs_run (plain [0; 0; 0; 0; 0; 0; 0; 0; 0; 0; 0; 0; 0; 0] ++ plain [2; 2; 2; 2; 2] ++ plain [3; 3; 3; 3])
               (rs_init 2 ex_progs2)) =
  ([(1, Some 10); (2, Some 20)], 2, 1,
   [(PcIdle, [(RPush 10, PushOk); (RPush 20, PushOk)]); (PcIdle, []); (PopMove 0 (Some 10), []);
    (PcIdle, [(RPush 30, PushFull)])],
   [(0, RPush 10, PushOk); (0, RPush 20, PushOk); (2, RPop, PopOk (Some 10))], [20]).
Proof. vm_compute. reflexivity. Qed.
