(** list-update lemmas shared by the Conc models *)
From Coq Require Import List Arith Lia Permutation.
From VB Require Import Conc.ValidatorDefs.
Import ListNotations.

Lemma upd_length : forall A (f : A -> A) l i, length (upd i f l) = length l.
Proof. induction l; destruct i; simpl; auto. Qed.

Lemma nth_error_upd : forall A (f : A -> A) l i j,
  nth_error (upd i f l) j = if i =? j then option_map f (nth_error l j) else nth_error l j.
Proof.
  induction l; intros i j.
  - assert (E : upd i f (@nil A) = []) by (destruct i; reflexivity). rewrite E.
    destruct (i =? j); destruct j; reflexivity.
  - destruct i, j; simpl; auto.
Qed.

Lemma nth_error_upd_eq : forall A (f : A -> A) l i x,
  nth_error l i = Some x -> nth_error (upd i f l) i = Some (f x).
Proof. intros. rewrite nth_error_upd, Nat.eqb_refl, H. reflexivity. Qed.

Lemma nth_error_upd_neq : forall A (f : A -> A) l i j,
  i <> j -> nth_error (upd i f l) j = nth_error l j.
Proof. intros. rewrite nth_error_upd. apply Nat.eqb_neq in H. now rewrite H. Qed.

Lemma upd_oob : forall A (f : A -> A) l i, length l <= i -> upd i f l = l.
Proof.
  induction l; destruct i; simpl; intros; auto; try lia. f_equal. apply IHl. lia.
Qed.

Lemma in_upd : forall A (f : A -> A) l i y, In y (upd i f l) -> exists x, In x l /\ (y = x \/ y = f x).
Proof.
  induction l; destruct i; simpl; intros; try tauto.
  - destruct H as [H | H]; [exists a; auto | exists y; auto].
  - destruct H as [H | H]; [exists a; auto |].
    apply IHl in H. destruct H as [x [H1 H2]]. exists x; auto.
Qed.

Lemma flat_map_upd_split : forall A B (g : A -> list B) l i x,
  nth_error l i = Some x ->
  exists R, Permutation (flat_map g l) (g x ++ R) /\
            forall f, Permutation (flat_map g (upd i f l)) (g (f x) ++ R).
Proof.
  induction l; intros i x H.
  - destruct i; discriminate.
  - destruct i; simpl in *.
    + inversion H; subst. exists (flat_map g l). split; [reflexivity | intros; reflexivity].
    + destruct (IHl _ _ H) as [R [P1 P2]].
      exists (g a ++ R). split.
      * rewrite P1. rewrite !app_assoc. apply Permutation_app_tail. apply Permutation_app_comm.
      * intros f. rewrite (P2 f). rewrite !app_assoc. apply Permutation_app_tail. apply Permutation_app_comm.
Qed.

Lemma flat_map_upd_perm : forall A B (g : A -> list B) f l i x,
  nth_error l i = Some x -> Permutation (g (f x)) (g x) ->
  Permutation (flat_map g (upd i f l)) (flat_map g l).
Proof.
  intros. destruct (flat_map_upd_split _ _ g _ _ _ H) as [R [P1 P2]].
  rewrite (P2 f), P1. now apply Permutation_app_tail.
Qed.

Lemma flat_map_upd_add : forall A B (g : A -> list B) f l i x t,
  nth_error l i = Some x -> Permutation (g (f x)) (t :: g x) ->
  Permutation (flat_map g (upd i f l)) (t :: flat_map g l).
Proof.
  intros. destruct (flat_map_upd_split _ _ g _ _ _ H) as [R [P1 P2]].
  rewrite (P2 f), P1, H0. reflexivity.
Qed.

Lemma flat_map_upd_rem : forall A B (g : A -> list B) f l i x t,
  nth_error l i = Some x -> Permutation (g x) (t :: g (f x)) ->
  Permutation (flat_map g l) (t :: flat_map g (upd i f l)).
Proof.
  intros. destruct (flat_map_upd_split _ _ g _ _ _ H) as [R [P1 P2]].
  rewrite (P2 f), P1, H0. reflexivity.
Qed.

Lemma nth_error_repeat_inv : forall A (a x : A) n j, nth_error (repeat a n) j = Some x -> x = a /\ j < n.
Proof.
  induction n; destruct j; simpl; intros; try discriminate.
  - inversion H; split; auto; lia.
  - apply IHn in H. destruct H; split; auto; lia.
Qed.

Lemma nth_error_repeat : forall A (a : A) n j, j < n -> nth_error (repeat a n) j = Some a.
Proof. induction n; destruct j; simpl; intros; try lia; auto. apply IHn; lia. Qed.
