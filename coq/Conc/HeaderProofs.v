(** C17 — header-field sensitivity: VbkBlock::toRaw is injective on the value ranges of the field types, and the
    three things progPowHashImpl extracts from the 65 bytes determine all of them. *)
From Coq Require Import List ZArith Lia Bool.
From VB Require Import Conc.HeaderDefs.
Import ListNotations.
Local Open Scope Z_scope.

Lemma le_length : forall n z, length (le n z) = n.
Proof. induction n; intros; cbn [le length]; [reflexivity | now rewrite IHn]. Qed.

Lemma be_length : forall n z, length (be n z) = n.
Proof. intros. unfold be. now rewrite rev_length, le_length. Qed.

Lemma unle_le : forall n z, unle (le n z) = z mod 256 ^ Z.of_nat n.
Proof.
  induction n; intros; cbn [le unle].
  - change (256 ^ Z.of_nat 0) with 1. now rewrite Z.mod_1_r.
  - rewrite IHn. rewrite Nat2Z.inj_succ, Z.pow_succ_r by lia.
    rewrite Z.rem_mul_r; [reflexivity | lia | apply Z.pow_pos_nonneg; lia].
Qed.

Lemma unbe_be : forall n z, unbe (be n z) = z mod 256 ^ Z.of_nat n.
Proof. intros. unfold unbe, be. now rewrite rev_involutive, unle_le. Qed.

Lemma le_bytes : forall n z, forallb is_byte (le n z) = true.
Proof.
  induction n; intros; cbn [le forallb]; [reflexivity|].
  rewrite IHn, andb_true_r. unfold is_byte.
  pose proof (Z.mod_pos_bound z 256 ltac:(lia)). apply andb_true_iff. split; [apply Z.leb_le | apply Z.ltb_lt]; lia.
Qed.

Lemma be_bytes : forall n z, forallb is_byte (be n z) = true.
Proof.
  intros. unfold be. apply forallb_forall. intros x Hx. apply in_rev in Hx.
  pose proof (le_bytes n z) as H. rewrite forallb_forall in H. now apply H.
Qed.

(** bytes of a list are recovered from its value *)
Lemma le_unle : forall l, forallb is_byte l = true -> le (length l) (unle l) = l.
Proof.
  induction l as [|b r IH]; intros H; cbn [length le unle]; [reflexivity|].
  cbn [forallb] in H. apply andb_true_iff in H. destruct H as [Hb Hr].
  unfold is_byte in Hb. apply andb_true_iff in Hb. destruct Hb as [H0 H1].
  apply Z.leb_le in H0. apply Z.ltb_lt in H1.
  replace ((b + 256 * unle r) mod 256) with b.
  2:{ replace (b + 256 * unle r) with (b + unle r * 256) by lia. rewrite Z.mod_add by lia. now rewrite Z.mod_small by lia. }
  replace ((b + 256 * unle r) / 256) with (unle r).
  2:{ replace (b + 256 * unle r) with (b + unle r * 256) by lia. rewrite Z.div_add by lia. rewrite (Z.div_small b 256) by lia. lia. }
  now rewrite IH.
Qed.

Lemma be_unbe : forall l, forallb is_byte l = true -> be (length l) (unbe l) = l.
Proof.
  intros l H. unfold be, unbe. rewrite <- (rev_length l).
  rewrite le_unle.
  - apply rev_involutive.
  - apply forallb_forall. intros x Hx. apply in_rev in Hx. rewrite forallb_forall in H. now apply H.
Qed.

Lemma be_inj_mod : forall n a b, be n a = be n b -> a mod 256 ^ Z.of_nat n = b mod 256 ^ Z.of_nat n.
Proof. intros n a b H. rewrite <- !unbe_be. now rewrite H. Qed.

Lemma mod_range_inj : forall m lo a b, 0 < m -> lo <= a < lo + m -> lo <= b < lo + m -> a mod m = b mod m -> a = b.
Proof.
  intros m lo a b Hm Ha Hb H.
  assert (E : (a - lo) mod m = (b - lo) mod m).
  { rewrite <- Zminus_mod_idemp_l, H, Zminus_mod_idemp_l. reflexivity. }
  rewrite !Z.mod_small in E by lia. lia.
Qed.

Lemma app_inv_len : forall (A : Type) (a a' b b' : list A),
  length a = length a' -> a ++ b = a' ++ b' -> a = a' /\ b = b'.
Proof.
  induction a as [|x a IH]; destruct a' as [|y a']; cbn; intros b b' HL H; try discriminate.
  - auto.
  - injection H as -> H. injection HL as HL. destruct (IH _ _ _ HL H) as [-> ->]. auto.
Qed.

Lemma bytes_n_len : forall n l, bytes_n n l = true -> length l = n /\ forallb is_byte l = true.
Proof. intros n l H. unfold bytes_n in H. apply andb_true_iff in H. destruct H as [H1 H2]. apply Nat.eqb_eq in H1. auto. Qed.

Ltac wf_split H :=
  unfold hdr_wf in H; repeat (apply andb_true_iff in H; let H' := fresh "W" in destruct H as [H H']);
  repeat match goal with
         | X : (_ <=? _) = true |- _ => apply Z.leb_le in X
         | X : (_ <? _) = true |- _ => apply Z.ltb_lt in X
         | X : bytes_n _ _ = true |- _ => apply bytes_n_len in X; destruct X as [? ?]
         end.

Lemma hdr_raw_length_lemma : forall h, hdr_wf h = true -> length (hdr_raw h) = 65%nat.
Proof.
  intros h H. wf_split H. unfold hdr_raw. rewrite !app_length, !be_length.
  repeat match goal with X : length _ = _ |- _ => rewrite X; clear X end. reflexivity.
Qed.

Lemma hdr_raw_bytes_lemma : forall h, hdr_wf h = true -> forallb is_byte (hdr_raw h) = true.
Proof.
  intros h H. wf_split H. unfold hdr_raw. rewrite !forallb_app, !be_bytes.
  repeat match goal with X : forallb is_byte _ = true |- _ => rewrite X; clear X end. reflexivity.
Qed.

(** toRaw is injective on well-typed headers whose nonce fits its 5 bytes *)
Lemma hdr_raw_injective_lemma : forall h1 h2,
  hdr_wf h1 = true -> hdr_wf h2 = true -> nonce40 h1 = true -> nonce40 h2 = true ->
  hdr_raw h1 = hdr_raw h2 -> h1 = h2.
Proof.
  intros h1 h2 H1 H2 N1 N2 E. wf_split H1. wf_split H2.
  unfold nonce40 in N1, N2. apply andb_true_iff in N1, N2. destruct N1 as [_ N1], N2 as [_ N2].
  apply Z.ltb_lt in N1, N2.
  unfold hdr_raw in E.
  repeat match type of E with
         | ?a ++ _ = ?b ++ _ =>
           let HL := fresh "HL" in
           assert (HL : length a = length b) by (rewrite ?be_length; congruence);
           let Ea := fresh "Ea" in destruct (app_inv_len _ _ _ _ _ HL E) as [Ea E']; clear E HL; rename E' into E
         end.
  repeat match goal with X : be _ _ = be _ _ |- _ => apply be_inj_mod in X end.
  destruct h1 as [a1 a2 a3 a4 a5 a6 a7 a8 a9], h2 as [b1 b2 b3 b4 b5 b6 b7 b8 b9]; cbn [h_height h_version h_prev h_ks1 h_ks2 h_merkle h_ts h_diff h_nonce] in *.
  f_equal; try assumption.
  - apply (mod_range_inj (256 ^ Z.of_nat 4) (-2147483648)); try assumption; cbn; lia.
  - apply (mod_range_inj (256 ^ Z.of_nat 2) (-32768)); try assumption; cbn; lia.
  - apply (mod_range_inj (256 ^ Z.of_nat 4) 0); try assumption; cbn; lia.
  - apply (mod_range_inj (256 ^ Z.of_nat 4) (-2147483648)); try assumption; cbn; lia.
  - apply (mod_range_inj (256 ^ Z.of_nat 5) 0); try assumption; cbn; lia.
Qed.

Lemma hdr_field_sensitive_lemma : forall h1 h2,
  hdr_wf h1 = true -> hdr_wf h2 = true -> nonce40 h1 = true -> nonce40 h2 = true ->
  h1 <> h2 -> hdr_raw h1 <> hdr_raw h2.
Proof. intros h1 h2 W1 W2 N1 N2 D E. apply D. now apply hdr_raw_injective_lemma. Qed.

(** the header-cache key sha256twice(toRaw) separates well-typed headers if sha256twice is collision-free *)
Lemma hdr_key_injective_lemma : forall (Key : Type) (sha : list Z -> Key),
  (forall a b, sha a = sha b -> a = b) ->
  forall h1 h2, hdr_wf h1 = true -> hdr_wf h2 = true -> nonce40 h1 = true -> nonce40 h2 = true ->
  sha (hdr_raw h1) = sha (hdr_raw h2) -> h1 = h2.
Proof. intros Key sha Hs h1 h2 W1 W2 N1 N2 E. apply hdr_raw_injective_lemma; auto. Qed.

(** without the 40-bit premise the statement is false: setNonce(2^40) and setNonce(0) serialise alike *)
Definition nonce_wit (n : Z) : vhdr :=
  mkVhdr 1 2 (repeat 0 12) (repeat 0 9) (repeat 0 9) (repeat 0 16) 5 6 n.
Lemma hdr_raw_injective_all_nonces_refuted_lemma :
  exists h1 h2, hdr_wf h1 = true /\ hdr_wf h2 = true /\ h1 <> h2 /\ hdr_raw h1 = hdr_raw h2.
Proof.
  exists (nonce_wit 0), (nonce_wit 1099511627776).
  split; [vm_compute; reflexivity|]. split; [vm_compute; reflexivity|].
  split; [intro E; discriminate E | vm_compute; reflexivity].
Qed.

(* ---- what progPowHashImpl reads back ---- *)

Lemma firstn_app_len : forall (A : Type) (a b : list A) n, length a = n -> firstn n (a ++ b) = a.
Proof. intros A a b n <-. rewrite firstn_app, Nat.sub_diag, firstn_all. cbn. apply app_nil_r. Qed.

Lemma raw_height_lemma : forall h, hdr_wf h = true -> raw_height (hdr_raw h) = h_height h.
Proof.
  intros h H. wf_split H. unfold raw_height, hdr_raw.
  rewrite firstn_app_len by apply be_length. rewrite unbe_be. unfold to_i32.
  change (256 ^ Z.of_nat 4) with 4294967296.
  destruct (Z_lt_le_dec (h_height h) 0) as [Hn|Hp].
  - replace (h_height h mod 4294967296) with (h_height h + 4294967296).
    2:{ apply Z.mod_unique with (-1); lia. }
    destruct (Z.ltb_spec (h_height h + 4294967296) 2147483648); lia.
  - rewrite Z.mod_small by lia. destruct (Z.ltb_spec (h_height h) 2147483648); lia.
Qed.

Lemma raw_epoch_lemma : forall h, hdr_wf h = true ->
  raw_epoch (hdr_raw h) = (((Z.quot (h_height h) 8000) mod 4294967296) + 323) mod 4294967296.
Proof. intros h H. unfold raw_epoch. now rewrite raw_height_lemma. Qed.

Lemma skipn_app_len : forall (A : Type) (a b : list A) n, length a = n -> skipn n (a ++ b) = b.
Proof. intros A a b n <-. rewrite skipn_app, Nat.sub_diag, skipn_all. reflexivity. Qed.

Lemma raw_nonce_lemma : forall h, hdr_wf h = true -> raw_nonce (hdr_raw h) = h_nonce h mod 1099511627776.
Proof.
  intros h H. wf_split H. unfold raw_nonce, hdr_raw.
  rewrite !app_assoc. rewrite skipn_app_len.
  - rewrite unbe_be. reflexivity.
  - rewrite !app_length, !be_length.
    repeat match goal with X : length _ = _ |- _ => rewrite X; clear X end. reflexivity.
Qed.

(** every byte reaches the kernel: (height, nonce, first 60 bytes) determine the 65-byte string *)
Lemma kernel_inputs_injective_lemma : forall r1 r2,
  bytes_n 65 r1 = true -> bytes_n 65 r2 = true -> kernel_inputs r1 = kernel_inputs r2 -> r1 = r2.
Proof.
  intros r1 r2 B1 B2 E. apply bytes_n_len in B1, B2. destruct B1 as [L1 Y1], B2 as [L2 Y2].
  unfold kernel_inputs in E. injection E as _ En Ep. unfold raw_nonce, raw_prefix in *.
  rewrite <- (firstn_skipn 60 r1), <- (firstn_skipn 60 r2). rewrite Ep. f_equal.
  assert (S1 : length (skipn 60 r1) = 5%nat) by (rewrite skipn_length; lia).
  assert (S2 : length (skipn 60 r2) = 5%nat) by (rewrite skipn_length; lia).
  assert (F : forall r, forallb is_byte r = true -> forallb is_byte (skipn 60 r) = true).
  { intros r Hr. apply forallb_forall. intros x Hx. rewrite forallb_forall in Hr. apply Hr.
    rewrite <- (firstn_skipn 60 r). apply in_or_app. now right. }
  rewrite <- (be_unbe (skipn 60 r1)) by auto. rewrite <- (be_unbe (skipn 60 r2)) by auto.
  now rewrite S1, S2, En.
Qed.

(** ... hence, through toRaw, all nine fields *)
Lemma kernel_inputs_field_sensitive_lemma : forall h1 h2,
  hdr_wf h1 = true -> hdr_wf h2 = true -> nonce40 h1 = true -> nonce40 h2 = true ->
  kernel_inputs (hdr_raw h1) = kernel_inputs (hdr_raw h2) -> h1 = h2.
Proof.
  intros h1 h2 W1 W2 N1 N2 E. apply hdr_raw_injective_lemma; auto.
  apply kernel_inputs_injective_lemma; auto; unfold bytes_n;
    rewrite hdr_raw_length_lemma, hdr_raw_bytes_lemma by assumption; reflexivity.
Qed.

(** the hypotheses are met by distinct concrete headers (negative height, all-ones bytes, maximal nonce) *)
Definition ex_hdr (hgt nn : Z) : vhdr :=
  mkVhdr hgt (-2) (repeat 255 12) (repeat 1 9) (repeat 2 9) (repeat 3 16) 4294967295 (-1) nn.
Example hdr_satisfiable :
  hdr_wf (ex_hdr (-8001) 1099511627775) = true /\ nonce40 (ex_hdr (-8001) 1099511627775) = true /\
  hdr_wf (ex_hdr 16000 7) = true /\ nonce40 (ex_hdr 16000 7) = true /\
  hdr_raw (ex_hdr (-8001) 1099511627775) <> hdr_raw (ex_hdr 16000 7) /\
  raw_epoch (hdr_raw (ex_hdr (-8001) 1099511627775)) = 322 /\ raw_epoch (hdr_raw (ex_hdr 16000 7)) = 325.
Proof. repeat split; try (vm_compute; reflexivity). vm_compute. intro E. discriminate E. Qed.

Lemma hdr_raw_shape_lemma : forall h, hdr_wf h = true -> length (hdr_raw h) = 65%nat /\ forallb is_byte (hdr_raw h) = true.
Proof. intros h W. split; [now apply hdr_raw_length_lemma | now apply hdr_raw_bytes_lemma]. Qed.

Lemma raw_reads_lemma : forall h, hdr_wf h = true ->
  raw_height (hdr_raw h) = h_height h /\
  raw_epoch (hdr_raw h) = (((Z.quot (h_height h) 8000) mod 4294967296) + 323) mod 4294967296 /\
  raw_nonce (hdr_raw h) = h_nonce h mod 1099511627776.
Proof. intros h W. split; [now apply raw_height_lemma |]. split; [now apply raw_epoch_lemma | now apply raw_nonce_lemma]. Qed.
