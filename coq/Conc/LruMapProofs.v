(** C17 — lru11::Cache refines the unbounded map for arbitrary inserted values: a hit for k returns the value most
    recently inserted under k since the last clear (never a value stored under another key, never a stale one);
    capacity and key-uniqueness hold in every reachable state. *)
From Coq Require Import List Arith Bool Lia.
From VB Require Import Conc.CacheDefs Conc.CacheProofs Conc.LruMapDefs.
Import ListNotations.

Section LruMapProofs.
Variables Key V : Type.
Variable key_eqb : Key -> Key -> bool.
Hypothesis key_eqb_spec : forall a b, key_eqb a b = true <-> a = b.

Notation ideal_get := (ideal_get Key V key_eqb).
Notation lop_step := (lop_step Key V key_eqb).
Notation lop_run := (lop_run Key V key_eqb).

(** every cached binding is the current binding of the unbounded map; keys unique; bounded *)
Definition lmap_inv (maxsize elast : nat) (l : lru Key V) (m : ideal Key V) : Prop :=
  (forall k v, In (k, v) l -> ideal_get k m = Some v) /\ NoDup (map fst l) /\
  (maxsize = O \/ length l <= maxsize + elast).

Lemma key_eqb_refl : forall k, key_eqb k k = true.
Proof. intros. now apply key_eqb_spec. Qed.

Lemma lop_step_inv : forall maxsize elast o l m a l',
  lmap_inv maxsize elast l m -> lop_step maxsize elast o l = (a, l') ->
  lmap_inv maxsize elast l' (ideal_step Key V o m) /\
  (forall k v, o = LGet Key V k -> a = Some (Some v) -> ideal_get k m = Some v) /\
  (forall k, o = LGet Key V k -> exists r, a = Some r).
Proof.
  intros maxsize elast o l m a l' [A [B C]] H. destruct o as [k v | k |]; cbn [LruMapDefs.lop_step ideal_step] in *.
  - inversion H; subst; clear H. split; [| split; intros; discriminate].
    unfold lru_insert. destruct (lru_find Key V key_eqb k l) as [[v0 r] |] eqn:G.
    + destruct (lru_find_some _ _ _ key_eqb_spec _ _ _ _ G) as [I [F [N L]]]. destruct (N B) as [N1 N2].
      split; [| split].
      * intros k' v' [E | E].
        -- inversion E; subst. cbn. now rewrite key_eqb_refl.
        -- assert (In (k', v') l).
           { assert (X : Forall (fun kv => In kv l) r) by (apply F; apply Forall_forall; auto).
             rewrite Forall_forall in X. now apply X. }
           cbn. destruct (key_eqb k k') eqn:Q.
           ++ apply key_eqb_spec in Q. subst k'. exfalso. apply N2. apply in_map_iff. exists (k, v'). auto.
           ++ now apply A.
      * cbn. constructor; auto.
      * cbn. lia.
    + pose proof (lru_find_none _ _ _ key_eqb_spec _ _ G) as NI.
      assert (A' : forall k' v', In (k', v') ((k, v) :: l) -> ideal_get k' ((k, v) :: m) = Some v').
      { intros k' v' [E | E].
        - inversion E; subst. cbn. now rewrite key_eqb_refl.
        - cbn. destruct (key_eqb k k') eqn:Q.
          + apply key_eqb_spec in Q. subst k'. exfalso. apply NI. apply in_map_iff. exists (k, v'). auto.
          + now apply A. }
      unfold lru_prune.
      destruct ((maxsize =? 0) || (length ((k, v) :: l) <? maxsize + elast)) eqn:E.
      * split; [exact A' |]. split; [cbn; constructor; auto |].
        apply orb_prop in E. destruct E as [E | E].
        -- left. now apply Nat.eqb_eq.
        -- right. apply Nat.ltb_lt in E. lia.
      * split; [intros k' v' I; apply A'; eapply in_firstn; eauto |]. split.
        -- rewrite <- firstn_map. apply NoDup_firstn. cbn. constructor; auto.
        -- right. rewrite firstn_length. lia.
  - unfold lru_try_get in H. destruct (lru_find Key V key_eqb k l) as [[v0 r] |] eqn:G.
    + inversion H; subst; clear H.
      destruct (lru_find_some _ _ _ key_eqb_spec _ _ _ _ G) as [I [F [N L]]]. destruct (N B) as [N1 N2].
      split; [| split].
      * split; [| split].
        -- intros k' v' [E | E].
           ++ inversion E; subst. now apply A.
           ++ apply A. assert (X : Forall (fun kv => In kv l) r) by (apply F; apply Forall_forall; auto).
              rewrite Forall_forall in X. now apply X.
        -- cbn. constructor; auto.
        -- cbn. lia.
      * intros k' v' E1 E2. inversion E1; subst. inversion E2; subst. now apply A.
      * intros. eauto.
    + inversion H; subst; clear H. split; [split; auto |]. split; [intros; discriminate | intros; eauto].
  - inversion H; subst; clear H. split; [| split; intros; discriminate].
    split; [intros k v []|]. split; [constructor | right; cbn; lia].
Qed.

Lemma lmap_inv_nil : forall maxsize elast, lmap_inv maxsize elast [] [].
Proof. intros. split; [intros k v []|]. split; [constructor | right; cbn; lia]. Qed.

(** for every op sequence, from every state satisfying the invariant: all answers admissible w.r.t. the unbounded
    map, and the invariant (capacity, unique keys) holds at the end *)
Lemma lru_refines_map_lemma : forall (v_eqb : V -> V -> bool), (forall v, v_eqb v v = true) ->
  forall maxsize elast ops l m,
  lmap_inv maxsize elast l m ->
  answers_admissible Key V key_eqb v_eqb ops (fst (lop_run maxsize elast ops l)) m = true /\
  lmap_inv maxsize elast (snd (lop_run maxsize elast ops l)) (fold_left (fun m o => ideal_step Key V o m) ops m).
Proof.
  intros v_eqb v_refl maxsize elast ops. induction ops as [| o r IH]; intros l m I; cbn [LruMapDefs.lop_run fold_left].
  - cbn. auto.
  - destruct (lop_step maxsize elast o l) as [a l'] eqn:S.
    destruct (lop_step_inv _ _ _ _ _ _ _ I S) as [I' [HG HS]].
    specialize (IH l' (ideal_step Key V o m) I').
    destruct (lop_run maxsize elast r l') as [as_ l''] eqn:R. cbn [fst snd] in *.
    destruct IH as [IH1 IH2]. split; [| exact IH2].
    cbn [answers_admissible]. rewrite IH1, andb_true_r.
    destruct o as [k v | k |]; cbn [answer_ok].
    + cbn in S. inversion S; subst. reflexivity.
    + destruct (HS k eq_refl) as [res ->]. destruct res as [v |]; [| reflexivity].
      rewrite (HG k v eq_refl eq_refl). apply v_refl.
    + cbn in S. inversion S; subst. reflexivity.
Qed.

(** the same in words of single answers: the i-th op is a lookup of k answered Some v  ->  v is the current binding *)
Lemma lru_key_confinement_lemma : forall maxsize elast ops l m k v l',
  lmap_inv maxsize elast l m ->
  lop_step maxsize elast (LGet Key V k)
           (snd (lop_run maxsize elast ops l)) = (Some (Some v), l') ->
  ideal_get k (fold_left (fun m o => ideal_step Key V o m) ops m) = Some v.
Proof.
  intros maxsize elast ops l m k v l' I H.
  assert (J : lmap_inv maxsize elast (snd (lop_run maxsize elast ops l))
                       (fold_left (fun m o => ideal_step Key V o m) ops m)).
  { apply (lru_refines_map_lemma (fun _ _ => true) (fun _ => eq_refl)); auto. }
  destruct (lop_step_inv _ _ _ _ _ _ _ J H) as [_ [HG _]]. now apply HG.
Qed.
End LruMapProofs.

(** concrete witness: capacity 2+0, keys 1..3; key 1 is re-bound, key 2 is evicted; the hit for 1 is the new value *)
Example lru_map_satisfiable :
  fst (lop_run nat nat Nat.eqb 2 0 [LIns nat nat 1 10; LIns nat nat 2 20; LIns nat nat 1 11; LIns nat nat 3 30;
                                     LGet nat nat 1; LGet nat nat 2; LGet nat nat 3] [])
  = [None; None; None; None; Some (Some 11); Some None; Some (Some 30)].
Proof. vm_compute. reflexivity. Qed.
