(** C16 — small-step model of tp::MPMCBoundedQueue (Vyukov bounded MPMC ring) under arbitrary interleavings.
    Source: include/veriblock/pop/third_party/thread_pool/mpmc_bounded_queue.hpp, push() / pop().

    Shared memory is the record [ring] of Conc/RingDefs.v (the same one the sequential model uses): a vector of
    cells (sequence number, data) and the two position counters.  Every access of a thread to shared memory is one
    step; thread-private computation is a step of its own as well:

      push(x):  PushLoadPos   pos = m_enqueue_pos.load()
                PushLoadSeq   seq = m_buffer[pos & mask].sequence.load()
                PushCmp       dif = (intptr_t)seq - (intptr_t)pos;  dif == 0 -> PushCas, dif < 0 -> return false,
                              dif > 0 -> PushLoadPos
                PushCas       m_enqueue_pos.compare_exchange_weak(pos, pos + 1): success -> PushWrite;
                              failure (somebody moved the counter, or a spurious failure of the weak CAS):
                              pos = current value, back to PushLoadSeq
                PushWrite     cell->data = x
                PushStore     cell->sequence.store(pos + 1); return true
      pop():    PopLoadPos / PopLoadSeq / PopCmp (dif = seq - (pos + 1)) / PopCas on m_dequeue_pos /
                PopMove (data = std::move(cell->data)) / PopStore (cell->sequence.store(pos + mask + 1); return true)

    A schedule is a list of (thread id, spurious-failure flag); the flag matters only at a CAS step.  Thread ids are
    all naturals; thread t runs the program [progs t] (a list of push/pop calls), so any number of threads with any
    programs is covered.

    ASSUMPTIONS OF THE MODEL (stated, not proved):
    - atomics are sequentially consistent: every load returns the latest store in the schedule order.  The code uses
      relaxed loads/CAS on the counters and acquire/release on the cell sequence; the effect of that weakening (the
      non-atomic [data] access being ordered by the release store / acquire load of [sequence]) is outside the model.
    - counters and sequence numbers are unbounded naturals, index = pos mod size.  In the code they are size_t and
      wrap at 2^64: (pos mod 2^64) mod size = pos mod size needs size | 2^64, i.e. the power-of-two capacity the
      constructor enforces, and the signed difference [dif] is right as long as fewer than 2^63 positions separate
      seq and pos (they never differ by more than size + 1 here, see the invariant).
    - the data of a popped cell stays in the cell (moved-from in the code); nobody reads it again.

    Ghost state (never read by the code steps): [rs_lin], the log of successful operations appended at the
    successful CAS (the linearization point), [rs_q], the abstract queue contents updated at the same moments, and
    the last argument of [PopMove] (the value the cell held at the CAS). *)
From Coq Require Import List Arith Bool.
From VB Require Import Conc.ValidatorDefs Conc.RingDefs.
Import ListNotations.

Local Arguments cells {A} _.
Local Arguments enq {A} _.
Local Arguments deq {A} _.
Local Arguments mkRing {A} _ _ _.
Local Arguments cell_at {A} _ _.
Local Arguments PushOk {A}.
Local Arguments PushFull {A}.
Local Arguments PopOk {A} _.
Local Arguments PopEmpty {A}.
Local Arguments RPush {A} _.
Local Arguments RPop {A}.

Section RingSteps.
Variable A : Type.
Notation ring := (ring A).
Notation rop := (rop A).
Notation rres := (rres A).

Inductive rpc :=
| PcIdle
| PushLoadPos (x : A)
| PushLoadSeq (x : A) (pos : nat)
| PushCmp (x : A) (pos sq : nat)
| PushCas (x : A) (pos : nat)
| PushWrite (x : A) (pos : nat)
| PushStore (x : A) (pos : nat)
| PopLoadPos
| PopLoadSeq (pos : nat)
| PopCmp (pos sq : nat)
| PopCas (pos : nat)
| PopMove (pos : nat) (ghost : option A)
| PopStore (pos : nat) (v : option A).

Record rthread := mkThread { tpc : rpc; tprog : list rop; thist : list (rop * rres) }.

Definition lev : Type := nat * rop * rres.

Record rstate := mkRS { rs_mem : ring; rs_thr : nat -> rthread; rs_lin : list lev; rs_q : list A }.

Definition rsize (r : ring) : nat := length (cells r).
Definition idx (r : ring) (p : nat) : nat := p mod rsize r.
Definition seq_at (r : ring) (p : nat) : nat := fst (cell_at r p).
Definition dat_at (r : ring) (p : nat) : option A := snd (cell_at r p).

Definition set_seq (r : ring) (p v : nat) : ring :=
  mkRing (upd (idx r p) (fun c => (v, snd c)) (cells r)) (enq r) (deq r).
Definition set_dat (r : ring) (p : nat) (d : option A) : ring :=
  mkRing (upd (idx r p) (fun c => (fst c, d)) (cells r)) (enq r) (deq r).
Definition set_enq (r : ring) (v : nat) : ring := mkRing (cells r) v (deq r).
Definition set_deq (r : ring) (v : nat) : ring := mkRing (cells r) (enq r) v.

Definition upd_thr (f : nat -> rthread) (t : nat) (th : rthread) : nat -> rthread :=
  fun t' => if Nat.eqb t' t then th else f t'.

(** thread t moves to program counter p; memory becomes m *)
Definition goto_m (s : rstate) (t : nat) (p : rpc) (m : ring) : rstate :=
  let th := rs_thr s t in
  mkRS m (upd_thr (rs_thr s) t (mkThread p (tprog th) (thist th))) (rs_lin s) (rs_q s).
Definition goto (s : rstate) (t : nat) (p : rpc) : rstate := goto_m s t p (rs_mem s).

(** thread t returns from the call [o] with answer [a]; memory becomes m *)
Definition ret_m (s : rstate) (t : nat) (o : rop) (a : rres) (m : ring) : rstate :=
  let th := rs_thr s t in
  mkRS m (upd_thr (rs_thr s) t (mkThread PcIdle (tprog th) (thist th ++ [(o, a)]))) (rs_lin s) (rs_q s).

(** successful CAS: counter moved, log and abstract queue updated (ghost), thread proceeds to p *)
Definition commit (s : rstate) (t : nat) (p : rpc) (m : ring) (e : lev) (q : list A) : rstate :=
  let th := rs_thr s t in
  mkRS m (upd_thr (rs_thr s) t (mkThread p (tprog th) (thist th))) (rs_lin s ++ [e]) q.

Definition rs_step (t : nat) (spur : bool) (s : rstate) : rstate :=
  let th := rs_thr s t in
  let r := rs_mem s in
  match tpc th with
  | PcIdle =>
      match tprog th with
      | [] => s
      | RPush x :: rest =>
          mkRS r (upd_thr (rs_thr s) t (mkThread (PushLoadPos x) rest (thist th))) (rs_lin s) (rs_q s)
      | RPop :: rest =>
          mkRS r (upd_thr (rs_thr s) t (mkThread PopLoadPos rest (thist th))) (rs_lin s) (rs_q s)
      end
  | PushLoadPos x => goto s t (PushLoadSeq x (enq r))
  | PushLoadSeq x pos => goto s t (PushCmp x pos (seq_at r pos))
  | PushCmp x pos sq =>
      match Nat.compare sq pos with
      | Eq => goto s t (PushCas x pos)
      | Lt => ret_m s t (RPush x) PushFull r
      | Gt => goto s t (PushLoadPos x)
      end
  | PushCas x pos =>
      if Nat.eqb (enq r) pos && negb spur
      then commit s t (PushWrite x pos) (set_enq r (S pos)) (t, RPush x, PushOk) (rs_q s ++ [x])
      else goto s t (PushLoadSeq x (enq r))
  | PushWrite x pos => goto_m s t (PushStore x pos) (set_dat r pos (Some x))
  | PushStore x pos => ret_m s t (RPush x) PushOk (set_seq r pos (S pos))
  | PopLoadPos => goto s t (PopLoadSeq (deq r))
  | PopLoadSeq pos => goto s t (PopCmp pos (seq_at r pos))
  | PopCmp pos sq =>
      match Nat.compare sq (S pos) with
      | Eq => goto s t (PopCas pos)
      | Lt => ret_m s t RPop PopEmpty r
      | Gt => goto s t PopLoadPos
      end
  | PopCas pos =>
      if Nat.eqb (deq r) pos && negb spur
      then commit s t (PopMove pos (dat_at r pos)) (set_deq r (S pos)) (t, RPop, PopOk (dat_at r pos)) (tl (rs_q s))
      else goto s t (PopLoadSeq (deq r))
  | PopMove pos _ => goto s t (PopStore pos (dat_at r pos))
  | PopStore pos v => ret_m s t RPop (PopOk v) (set_seq r pos (pos + (rsize r - 1) + 1))
  end.

Definition rs_run (sched : list (nat * bool)) (s : rstate) : rstate :=
  fold_left (fun s e => rs_step (fst e) (snd e) s) sched s.

Definition rs_init (size : nat) (progs : nat -> list rop) : rstate :=
  mkRS (ring_init A size) (fun t => mkThread PcIdle (progs t) []) [] [].

(** in-flight operations: between the successful CAS and the store of the sequence number *)
Definition ipush (p : rpc) : option nat :=
  match p with PushWrite _ pos | PushStore _ pos => Some pos | _ => None end.
Definition ipop (p : rpc) : option nat :=
  match p with PopMove pos _ | PopStore pos _ => Some pos | _ => None end.

(** the operation a thread has already linearized but not yet returned from *)
Definition pending (p : rpc) : list (rop * rres) :=
  match p with
  | PushWrite x _ | PushStore x _ => [(RPush x, PushOk)]
  | PopMove _ g => [(RPop, PopOk g)]
  | PopStore _ v => [(RPop, PopOk v)]
  | _ => []
  end.

Definition is_ok (a : rres) : bool :=
  match a with PushOk | PopOk _ => true | _ => false end.

(** the successful calls of a history *)
Definition succ_of (h : list (rop * rres)) : list (rop * rres) := filter (fun e => is_ok (snd e)) h.

(** projection of the linearization log on thread t *)
Definition proj (t : nat) (l : list lev) : list (rop * rres) :=
  map (fun e => (snd (fst e), snd e)) (filter (fun e => Nat.eqb (fst (fst e)) t) l).

Definition lev_op (e : lev) : rop := snd (fst e).
Definition lev_res (e : lev) : rres := snd e.

(** values pushed / popped, in linearization order *)
Definition pushed_vals (l : list lev) : list A :=
  flat_map (fun e => match lev_op e with RPush x => [x] | RPop => [] end) l.
Definition popped_vals (l : list lev) : list (option A) :=
  flat_map (fun e => match lev_res e with PopOk v => [v] | _ => [] end) l.

(** state of the bounded FIFO specification (Conc/RingDefs.v [fifo_step]) after a list of calls *)
Definition fifo_state (size : nat) (ops : list rop) (q : list A) : list A :=
  fold_left (fun q o => snd (fifo_step A size o q)) ops q.

End RingSteps.

Arguments PcIdle {A}.
Arguments PushLoadPos {A} _.
Arguments PushLoadSeq {A} _ _.
Arguments PushCmp {A} _ _ _.
Arguments PushCas {A} _ _.
Arguments PushWrite {A} _ _.
Arguments PushStore {A} _ _.
Arguments PopLoadPos {A}.
Arguments PopLoadSeq {A} _.
Arguments PopCmp {A} _ _.
Arguments PopCas {A} _.
Arguments PopMove {A} _ _.
Arguments PopStore {A} _ _.
Arguments mkThread {A} _ _ _.
Arguments tpc {A} _.
Arguments tprog {A} _.
Arguments thist {A} _.
Arguments mkRS {A} _ _ _ _.
Arguments rs_mem {A} _.
Arguments rs_thr {A} _ _.
Arguments rs_lin {A} _.
Arguments rs_q {A} _.
Arguments rsize {A} _.
Arguments idx {A} _ _.
Arguments seq_at {A} _ _.
Arguments dat_at {A} _ _.
Arguments set_seq {A} _ _ _.
Arguments set_dat {A} _ _ _.
Arguments set_enq {A} _ _.
Arguments set_deq {A} _ _.
Arguments upd_thr {A} _ _ _ _.
Arguments goto_m {A} _ _ _ _.
Arguments goto {A} _ _ _.
Arguments ret_m {A} _ _ _ _ _.
Arguments commit {A} _ _ _ _ _ _.
Arguments rs_step {A} _ _ _.
Arguments rs_run {A} _ _.
Arguments rs_init {A} _ _.
Arguments ipush {A} _.
Arguments ipop {A} _.
Arguments pending {A} _.
Arguments is_ok {A} _.
Arguments succ_of {A} _.
Arguments proj {A} _ _.
Arguments lev_op {A} _.
Arguments lev_res {A} _.
Arguments pushed_vals {A} _.
Arguments popped_vals {A} _.
Arguments fifo_state {A} _ _ _.
