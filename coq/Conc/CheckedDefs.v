(** C16 — the `checked` flags the workers write into the caller's payloads (ATV::checked, VTB::checked,
    PopData::checked), at the level of one PopData OBJECT checked repeatedly.
    checkATV/checkVTB: `if (x.checked) return true; ... all checks ...; x.checked = true; return true;` - the flag
    is set only after a complete success.  checkPopData: `if (popData.checked) return true;` first, and
    `popData.checked = true` only when everything (including the duplicates check) passed.  Every posted task has
    finished when checkPopData returns (C16_released_on_return), so after a call that posted, every payload has
    gone through its check once more. The verdict of a posting call is the one of the threaded system for the
    task verdicts [task_verdict] - by C16_verdict_schedule_independent it is [seq_verdict]. *)
From Coq Require Import List Bool.
From VB Require Import Conc.ValidatorDefs.
Import ListNotations.

Record payload := mkPayload { pvalid : bool;      (* what the full payload check computes (pure) *)
                              pchecked : bool }.  (* the mutable flag inside the caller's object *)

Record popdata := mkPopData { pitems : list payload; pdup : bool; pdchecked : bool }.

Definition task_verdict (p : payload) : bool := pchecked p || pvalid p.
Definition after_task (p : payload) : payload := mkPayload (pvalid p) (pchecked p || pvalid p).

Definition check_call (pd : popdata) : verdict * popdata :=
  if pdchecked pd then (VValid, pd)
  else
    let v := seq_verdict (mk_tasks 0 0 (map task_verdict (pitems pd))) (pdup pd) in
    (v, mkPopData (map after_task (pitems pd)) (pdup pd)
                  (match v with VValid => true | _ => false end)).

(** what checking each payload from scratch, one after another, reports *)
Definition spec_verdict (pd : popdata) : verdict :=
  seq_verdict (mk_tasks 0 0 (map pvalid (pitems pd))) (pdup pd).

Fixpoint check_n (n : nat) (pd : popdata) : list verdict :=
  match n with
  | O => []
  | S k => let '(v, pd') := check_call pd in v :: check_n k pd'
  end.

(** a copy takes the flags along; a fresh deserialisation has them all cleared *)
Definition fresh_copy (pd : popdata) : popdata :=
  mkPopData (map (fun p => mkPayload (pvalid p) false) (pitems pd)) (pdup pd) false.
