(** C16 — linearization log of the step-level MPMC ring model: for every schedule the log of successful CASes is a
    legal history of the bounded FIFO specification, agrees thread by thread with what the threads actually
    return, and accounts for every value exactly once. *)
From Coq Require Import List Arith Bool Lia.
From VB Require Import Conc.ValidatorDefs Conc.ListUpd Conc.RingDefs Conc.RingProofs Conc.RingSteps Conc.RingStepsInv
  Conc.RingStepsPres Conc.RingStepsPres2 Conc.RingLin.
Import ListNotations.

Local Arguments cells {A} _.
Local Arguments enq {A} _.
Local Arguments deq {A} _.
Local Arguments PushOk {A}.
Local Arguments PushFull {A}.
Local Arguments PopOk {A} _.
Local Arguments PopEmpty {A}.
Local Arguments RPush {A} _.
Local Arguments RPop {A}.

Section Linear.
Variable A : Type.
Implicit Types r : ring A.
Implicit Types s : rstate A.

Lemma fifo_run_snoc : forall size ops o (q0 : list A),
  fifo_run A size (ops ++ [o]) q0 = fifo_run A size ops q0 ++ [fst (fifo_step A size o (fifo_state size ops q0))].
Proof.
  induction ops as [| o' ops IH]; intros o q0.
  - cbn [app fifo_run fifo_state fold_left]. destruct (fifo_step A size o q0). reflexivity.
  - cbn [app fifo_run]. destruct (fifo_step A size o' q0) as [a q1] eqn:E.
    rewrite IH. unfold fifo_state. cbn [fold_left]. rewrite E. reflexivity.
Qed.

Lemma fifo_state_snoc : forall size ops o (q0 : list A),
  fifo_state size (ops ++ [o]) q0 = snd (fifo_step A size o (fifo_state size ops q0)).
Proof. intros. unfold fifo_state. rewrite fold_left_app. reflexivity. Qed.

Lemma proj_snoc : forall t0 (l : list (lev A)) t o a,
  proj t0 (l ++ [(t, o, a)]) = proj t0 l ++ (if Nat.eqb t t0 then [(o, a)] else []).
Proof.
  intros. unfold proj. rewrite filter_app, map_app. cbn [filter fst snd].
  destruct (Nat.eqb t t0); reflexivity.
Qed.

Lemma succ_of_snoc : forall (h : list (rop A * rres A)) o a,
  succ_of (h ++ [(o, a)]) = succ_of h ++ (if is_ok a then [(o, a)] else []).
Proof. intros. unfold succ_of. rewrite filter_app. cbn [filter snd]. destruct (is_ok a); reflexivity. Qed.

Record LinInv (size : nat) s : Prop := mkLinInv {
  l_proj : forall t, proj t (rs_lin s) = succ_of (thist (rs_thr s t)) ++ pending (tpc (rs_thr s t));
  l_legal : fifo_run A size (map lev_op (rs_lin s)) [] = map lev_res (rs_lin s);
  l_state : fifo_state size (map lev_op (rs_lin s)) [] = rs_q s;
  l_vals : map Some (pushed_vals (rs_lin s)) = popped_vals (rs_lin s) ++ map Some (rs_q s);
  l_ok : Forall (fun e => is_ok (lev_res e) = true) (rs_lin s)
}.

Lemma LinInv_init : forall size progs, LinInv size (rs_init size progs).
Proof. intros. constructor; try reflexivity. constructor. Qed.

Lemma LinInv_nolog : forall size s t th' m,
  LinInv size s ->
  succ_of (thist th') ++ pending (tpc th') = succ_of (thist (rs_thr s t)) ++ pending (tpc (rs_thr s t)) ->
  LinInv size (mkRS m (upd_thr (rs_thr s) t th') (rs_lin s) (rs_q s)).
Proof.
  intros size s t th' m [P L S V O] H. constructor; cbn [rs_lin rs_q rs_thr]; auto.
  intros t0. destruct (Nat.eq_dec t0 t) as [E | E].
  - subst. rewrite upd_thr_same. rewrite H. apply P.
  - rewrite upd_thr_other by auto. apply P.
Qed.

Lemma LinInv_commit_push : forall size s t th' m x,
  LinInv size s -> length (rs_q s) < size ->
  succ_of (thist th') ++ pending (tpc th') =
    (succ_of (thist (rs_thr s t)) ++ pending (tpc (rs_thr s t))) ++ [(RPush x, PushOk)] ->
  LinInv size (mkRS m (upd_thr (rs_thr s) t th') (rs_lin s ++ [(t, RPush x, PushOk)]) (rs_q s ++ [x])).
Proof.
  intros size s t th' m x [P L S V O] LQ H.
  assert (FS : fifo_step A size (RPush x) (rs_q s) = (PushOk, rs_q s ++ [x])).
  { cbn [fifo_step]. apply Nat.ltb_lt in LQ. now rewrite LQ. }
  constructor; cbn [rs_lin rs_q rs_thr].
  - intros t0. rewrite proj_snoc. destruct (Nat.eq_dec t0 t) as [E | E].
    + subst. rewrite upd_thr_same, Nat.eqb_refl. rewrite H. now rewrite P.
    + rewrite upd_thr_other by auto. apply Nat.eqb_neq in E. rewrite Nat.eqb_sym, E, app_nil_r. apply P.
  - rewrite !map_app. cbn [map]. rewrite fifo_run_snoc, L, S. unfold lev_op, lev_res. cbn [fst snd]. now rewrite FS.
  - rewrite !map_app. cbn [map]. rewrite fifo_state_snoc, S. unfold lev_op. cbn [fst snd]. now rewrite FS.
  - unfold pushed_vals, popped_vals in *. rewrite !flat_map_app, map_app, V. cbn [flat_map]. unfold lev_op, lev_res.
    cbn [fst snd]. rewrite ?app_nil_r, ?map_app. cbn [map app]. rewrite <- ?app_assoc. reflexivity.
  - apply Forall_app. split; auto.
Qed.

Lemma LinInv_commit_pop : forall size s t th' m x q',
  LinInv size s -> rs_q s = x :: q' ->
  succ_of (thist th') ++ pending (tpc th') =
    (succ_of (thist (rs_thr s t)) ++ pending (tpc (rs_thr s t))) ++ [(RPop, PopOk (Some x))] ->
  LinInv size (mkRS m (upd_thr (rs_thr s) t th') (rs_lin s ++ [(t, RPop, PopOk (Some x))]) q').
Proof.
  intros size s t th' m x q' [P L S V O] Q H.
  assert (FS : fifo_step A size RPop (rs_q s) = (PopOk (Some x), q')).
  { rewrite Q. reflexivity. }
  constructor; cbn [rs_lin rs_q rs_thr].
  - intros t0. rewrite proj_snoc. destruct (Nat.eq_dec t0 t) as [E | E].
    + subst. rewrite upd_thr_same, Nat.eqb_refl. rewrite H. now rewrite P.
    + rewrite upd_thr_other by auto. apply Nat.eqb_neq in E. rewrite Nat.eqb_sym, E, app_nil_r. apply P.
  - rewrite !map_app. cbn [map]. rewrite fifo_run_snoc, L, S. unfold lev_op, lev_res. cbn [fst snd]. now rewrite FS.
  - rewrite !map_app. cbn [map]. rewrite fifo_state_snoc, S. unfold lev_op. cbn [fst snd]. now rewrite FS.
  - unfold pushed_vals, popped_vals in *. rewrite !flat_map_app, map_app, V, Q. cbn [flat_map]. unfold lev_op, lev_res.
    cbn [fst snd]. rewrite ?app_nil_r. cbn [map app]. rewrite <- ?app_assoc. reflexivity.
  - apply Forall_app. split; auto.
Qed.

Ltac nolog Ht := apply LinInv_nolog; auto; cbn [thist tpc]; rewrite ?succ_of_snoc, ?Ht; cbn [pending is_ok]; rewrite ?app_nil_r; reflexivity.

Lemma LinInv_step : forall size s t b, Inv A size s -> LinInv size s -> LinInv size (rs_step t b s).
Proof.
  intros size s t b I LI. unfold rs_step.
  pose proof (i_thr _ _ _ _ _ I t) as T. cbv beta in T.
  assert (OTH : forall th' t0, t0 <> t -> tpc (upd_thr (rs_thr s) t th' t0) = tpc (rs_thr s t0)).
  { intros. now rewrite upd_thr_other. }
  destruct (tpc (rs_thr s t)) eqn:Ht; simpl in T;
    unfold goto, goto_m, ret_m, commit.
  - destruct (tprog (rs_thr s t)) as [| [x |] rest]; auto; nolog Ht.
  - nolog Ht.
  - nolog Ht.
  - destruct (Nat.compare sq pos); nolog Ht.
  - destruct (Nat.eqb_spec (enq (rs_mem s)) pos) as [E | E]; destruct b; cbn [andb negb];
      try (nolog Ht).
    destruct (pres_push_cas A size (rs_mem s) (rs_q s) (fun t0 => tpc (rs_thr s t0))
               (fun t0 => tpc (upd_thr (rs_thr s) t (mkThread (PushWrite x pos) (tprog (rs_thr s t)) (thist (rs_thr s t))) t0))
               t x pos I Ht E) as [[F1 F2] _]; auto.
    { cbv beta. now rewrite upd_thr_same. }
    apply LinInv_commit_push; auto.
    + rewrite (i_q _ _ _ _ _ I). pose proof (i_de _ _ _ _ _ I). lia.
    + cbn [thist tpc pending]. rewrite Ht. cbn [pending]. now rewrite app_nil_r.
  - nolog Ht.
  - nolog Ht.
  - nolog Ht.
  - nolog Ht.
  - destruct (Nat.compare sq (S pos)); nolog Ht.
  - destruct (Nat.eqb_spec (deq (rs_mem s)) pos) as [E | E]; destruct b; cbn [andb negb];
      try (nolog Ht).
    destruct (pres_pop_cas A size (rs_mem s) (rs_q s) (fun t0 => tpc (rs_thr s t0))
               (fun t0 => tpc (upd_thr (rs_thr s) t (mkThread (PopMove pos (dat_at (rs_mem s) pos)) (tprog (rs_thr s t)) (thist (rs_thr s t))) t0))
               t pos I Ht E) as [[F1 [F2 [y [F3 F4]]]] _]; auto.
    { cbv beta. now rewrite upd_thr_same. }
    rewrite F4. rewrite F3. apply LinInv_commit_pop; auto.
    cbn [thist tpc pending]. rewrite Ht. cbn [pending]. now rewrite app_nil_r.
  - destruct T as [_ [_ [_ T]]]. apply LinInv_nolog; auto. cbn [thist tpc]. rewrite Ht. cbn [pending]. now rewrite T.
  - nolog Ht.
Qed.

Lemma run_invs : forall size sched s, Inv A size s -> LinInv size s ->
  Inv A size (rs_run sched s) /\ LinInv size (rs_run sched s).
Proof.
  induction sched as [| e sched IH]; intros s I LI; simpl; auto.
  apply IH; [apply Inv_step | apply LinInv_step]; auto.
Qed.

End Linear.
