(** C16 — termination measure: every accepted main/worker step strictly decreases it, and from every
    reachable state main can be driven to its return within that many steps *)
From Coq Require Import List Arith Bool Lia Permutation.
From VB Require Import Conc.ValidatorDefs Conc.ListUpd Conc.ValidatorProofs Conc.ValidatorProgress.
Import ListNotations.

Definition wmeasure (wk : worker) : nat :=
  3 * length (wq wk) + match wst wk with WRun _ => 2 | WDone _ => 1 | _ => 0 end.

Definition mmeasure (s : state) : nat :=
  match main s with
  | MPost k => 4 * (length (cur s) - k) + S (length (cur s))
  | MWait k | MGet k => S (length (cur s)) - k
  | _ => 0
  end.

Definition measure (s : state) : nat := mmeasure s + list_sum (map wmeasure (workers s)).

Lemma sum_upd : forall (g : worker -> nat) f l i x,
  nth_error l i = Some x ->
  list_sum (map g (upd i f l)) + g x = list_sum (map g l) + g (f x).
Proof.
  induction l; destruct i; simpl; intros; try discriminate.
  - inversion H; subst. lia.
  - pose proof (IHl _ _ H). lia.
Qed.

Lemma mmeasure_after_post : forall ws p c nx fs ts d tk a k,
  S k <= length ts ->
  mmeasure (mkState ws p c nx fs ts d tk (after_post false (S k) (length ts)) a) + 4 =
  4 * (length ts - k) + S (length ts).
Proof.
  intros. unfold mmeasure, after_post. cbn [main cur].
  destruct (S k =? length ts) eqn:E.
  - apply Nat.eqb_eq in E. lia.
  - apply Nat.eqb_neq in E. lia.
Qed.

Lemma measure_decreases : forall l s s',
  Inv s -> inner l = true -> step false l s = Some s' -> aborted s' = false -> measure s' < measure s.
Proof.
  unfold step. intros l s s' I IN H AB. destruct (aborted s) eqn:A0; try discriminate.
  destruct l; simpl in IN; try discriminate.
  - (* post *)
    unfold step_post in H. destruct (main s) as [| k | | | |] eqn:M; try discriminate.
    destruct (nth_error (cur s) k) as [t |] eqn:Ck; try discriminate.
    destruct (pst s) eqn:P; try (inversion H; subst; simpl in AB; discriminate).
    set (i := nextw s mod length (workers s)) in *.
    destruct (nth_error (workers s) i) as [wk |] eqn:W; try discriminate.
    destruct (length (wq wk) <? qcap s); [| inversion H; subst; simpl in AB; discriminate].
    inversion H; subst s'; clear H.
    assert (Kn : k < length (cur s)) by (apply nth_error_Some; congruence).
    unfold measure. cbn [workers].
    pose proof (sum_upd wmeasure (push_q t) _ _ _ W) as SU.
    pose proof (mmeasure_after_post (upd i (push_q t) (workers s)) PRun (qcap s) (S (nextw s)) (futures s)
                  (cur s) (curdup s) (token s) false k Kn) as MA.
    assert (wmeasure (push_q t wk) = wmeasure wk + 3).
    { unfold wmeasure, push_q; simpl. rewrite app_length. simpl. lia. }
    assert (mmeasure s = 4 * (length (cur s) - k) + S (length (cur s))) by (unfold mmeasure; now rewrite M).
    lia.
  - (* pop *)
    unfold step_pop in H.
    destruct (nth_error (workers s) i) as [[q st] |] eqn:W; try discriminate.
    destruct q as [| t q]; try discriminate. destruct st; try discriminate.
    inversion H; subst s'; clear H.
    unfold measure. cbn [workers set_workers].
    pose proof (sum_upd wmeasure (fun _ => mkWorker q (WRun t)) _ _ _ W) as SU. cbv beta in SU.
    assert (wmeasure (mkWorker (t :: q) WIdle) = wmeasure (mkWorker q (WRun t)) + 1)
      by (unfold wmeasure; simpl; lia).
    assert (mmeasure (set_workers (upd i (fun _ => mkWorker q (WRun t)) (workers s)) s) = mmeasure s) by reflexivity.
    lia.
  - (* steal *)
    unfold step_steal in H.
    destruct (nth_error (workers s) i) as [[qi sti] |] eqn:W; try discriminate.
    destruct sti; try discriminate.
    set (d := S i mod length (workers s)) in *.
    destruct (nth_error (workers s) d) as [[qd std] |] eqn:D; try discriminate.
    destruct qd as [| t q]; try discriminate.
    inversion H; subst s'; clear H.
    set (ws1 := upd d (set_q q) (workers s)) in *.
    assert (W1 : exists wk', nth_error ws1 i = Some wk' /\ wst wk' = WIdle).
    { unfold ws1. rewrite nth_error_upd. destruct (d =? i) eqn:E.
      - rewrite W. simpl. eexists; split; eauto.
      - rewrite W. eexists; split; eauto. }
    destruct W1 as [wk' [W1 W2]].
    unfold measure. cbn [workers set_workers].
    pose proof (sum_upd wmeasure (set_q q) _ _ _ D) as S1. fold ws1 in S1.
    pose proof (sum_upd wmeasure (set_st (WRun t)) _ _ _ W1) as S2.
    assert (wmeasure (set_q q (mkWorker (t :: q) std)) + 3 = wmeasure (mkWorker (t :: q) std)).
    { unfold wmeasure, set_q; simpl. lia. }
    assert (wmeasure (set_st (WRun t) wk') = wmeasure wk' + 2).
    { unfold wmeasure, set_st; simpl. rewrite W2. lia. }
    assert (mmeasure (set_workers (upd i (set_st (WRun t)) ws1) s) = mmeasure s) by reflexivity.
    lia.
  - (* run *)
    unfold step_run in H.
    destruct (nth_error (workers s) i) as [[q st] |] eqn:W; try discriminate.
    destruct st; try discriminate.
    inversion H; subst s'; clear H.
    unfold measure. cbn [workers set_workers].
    pose proof (sum_upd wmeasure (set_st (WDone t)) _ _ _ W) as SU.
    assert (wmeasure (mkWorker q (WRun t)) = wmeasure (set_st (WDone t) (mkWorker q (WRun t))) + 1)
      by (unfold wmeasure, set_st; simpl; lia).
    assert (mmeasure (set_workers (upd i (set_st (WDone t)) (workers s)) s) = mmeasure s) by reflexivity.
    lia.
  - (* fulfil *)
    unfold step_fulfil in H.
    destruct (nth_error (workers s) i) as [[q st] |] eqn:W; try discriminate.
    destruct st; try discriminate.
    inversion H; subst s'; clear H.
    unfold measure. cbn [workers set_workers set_futures].
    pose proof (sum_upd wmeasure (set_st WIdle) _ _ _ W) as SU.
    assert (wmeasure (mkWorker q (WDone t)) = wmeasure (set_st WIdle (mkWorker q (WDone t))) + 1)
      by (unfold wmeasure, set_st; simpl; lia).
    assert (mmeasure (set_futures (upd (tid t) (fun _ => FReady (tvalid t)) (futures s))
                        (set_workers (upd i (set_st WIdle) (workers s)) s)) = mmeasure s) by reflexivity.
    lia.
  - (* wait *)
    unfold step_wait in H.
    pose proof (i_main _ I) as M. unfold main_ok, main_ok_m in M.
    destruct (main s) as [| | k | k | |] eqn:E; try discriminate; [| tauto].
    destruct M as [M1 M2].
    assert (MS : mmeasure s = S (length (cur s)) - k) by (unfold mmeasure; now rewrite E).
    unfold measure.
    destruct (nth_error (futures s) k) as [f |] eqn:F.
    + assert (Kn : k < length (cur s)) by (rewrite <- (i_len _ I); apply nth_error_Some; congruence).
      assert (G : measure (set_main (MWait (S k)) s) < measure s).
      { unfold measure. rewrite MS. unfold mmeasure. cbn [main cur workers set_main]. lia. }
      destruct f; try discriminate; inversion H; subst; exact G.
    + assert (Kn : k = length (cur s)).
      { apply nth_error_None in F. rewrite (i_len _ I) in F. lia. }
      destruct (scan 0 (futures s) (curdup s)); try discriminate; inversion H; subst s'; rewrite MS;
        unfold mmeasure; cbn [main cur workers set_main]; lia.
Qed.

(** from every state satisfying the invariants (in particular every reachable one, while nobody stops
    the pool and calls fit the queue), some schedule of at most [measure s] main/worker steps brings main
    out of checkPopData *)
Lemma inner_sizes_ok : forall c l, inner l = true -> sizes_ok c l = true.
Proof. destruct l; simpl; intros; auto; discriminate. Qed.

Lemma step_inner_ok : forall c s, Inv s -> Inv2 s -> NoAbortInv c s -> quiescent_main (main s) = false ->
  exists l s', inner l = true /\ step false l s = Some s' /\ Inv s' /\ Inv2 s' /\ NoAbortInv c s' /\
               measure s' < measure s.
Proof.
  intros c s I J N Q. pose proof N as [P [A _]].
  destruct (progress_state s I J A P Q) as [l [s' [IN ST]]].
  assert (N' : NoAbortInv c s') by (eapply NoAbort_step; eauto; apply inner_sizes_ok; auto).
  assert (A' : aborted s' = false) by (unfold NoAbortInv in N'; tauto).
  exists l, s'. split; [auto |]. split; [auto |]. split; [eapply Inv_step; eauto |].
  split; [eapply Inv2_step; eauto |]. split; [auto |]. eapply measure_decreases; eauto.
Qed.

Lemma eventually_returns_state : forall c n s,
  measure s <= n -> Inv s -> Inv2 s -> NoAbortInv c s ->
  exists sched, forallb inner sched = true /\ length sched <= measure s /\
                quiescent_main (main (run false sched s)) = true.
Proof.
  induction n; intros s LE I J N; destruct (quiescent_main (main s)) eqn:Q;
    try (exists []; simpl; repeat split; auto; lia).
  - destruct (step_inner_ok c s I J N Q) as [l [s' [_ [_ [_ [_ [_ D]]]]]]]. lia.
  - destruct (step_inner_ok c s I J N Q) as [l [s' [IN [ST [I' [J' [N' D]]]]]]].
    destruct (IHn s') as [sched [S1 [S2 S3]]]; auto; try lia.
    exists (l :: sched). simpl. rewrite IN, S1. split; auto. split; [lia |].
    unfold run in *. simpl. unfold step' at 2. rewrite ST. exact S3.
Qed.

Lemma NoAbort_run : forall c sched s, Inv s -> NoAbortInv c s -> forallb (sizes_ok c) sched = true ->
  NoAbortInv c (run false sched s).
Proof.
  unfold run. induction sched; simpl; intros s I N H; auto.
  apply andb_prop in H. destruct H as [H1 H2]. unfold step' at 2.
  destruct (step false a s) eqn:E.
  - apply IHsched; auto. eapply Inv_step; eauto. eapply NoAbort_step; eauto.
  - apply IHsched; auto.
Qed.

Lemma no_deadlock_full_lemma : forall w c sched,
  forallb (sizes_ok c) sched = true ->
  let s := run false sched (init w c) in
  (exists cont, forallb inner cont = true /\ length cont <= measure s /\
                quiescent_main (main (run false cont s)) = true) /\
  (forall l s', inner l = true -> step false l s = Some s' -> measure s' < measure s).
Proof.
  intros w c sched H s.
  assert (N : NoAbortInv c s).
  { apply NoAbort_run; auto. apply Inv_init. unfold NoAbortInv; simpl. repeat split; auto. lia. }
  pose proof (Inv_reach w c sched) as I. pose proof (Inv2_reach w c sched) as J. fold s in I, J.
  split.
  - eapply eventually_returns_state; eauto.
  - intros l s' IN ST. apply (measure_decreases l s s' I IN ST).
    assert (NoAbortInv c s'); [| unfold NoAbortInv in *; tauto].
    eapply NoAbort_step; eauto. destruct l; simpl in *; auto; discriminate.
Qed.
