(** C16 — the invariant of the step-level MPMC ring model (Conc/RingSteps.v) and its preservation by every step of
    every thread.  Positions: p < deq were claimed by a pop, deq <= p < enq hold the abstract queue contents,
    p >= enq are unclaimed.  A claimed position whose operation has not yet stored the sequence number is "in flight". *)
From Coq Require Import List Arith Bool Lia.
From VB Require Import Conc.ValidatorDefs Conc.ListUpd Conc.RingDefs Conc.RingProofs Conc.RingSteps.
Import ListNotations.

Local Arguments cells {A} _.
Local Arguments enq {A} _.
Local Arguments deq {A} _.
Local Arguments mkRing {A} _ _ _.
Local Arguments cell_at {A} _ _.

Section Cells.
Variable A : Type.
Implicit Types r : ring A.

Lemma rsize_set_seq : forall r p v, rsize (set_seq r p v) = rsize r.
Proof. intros. unfold rsize, set_seq. cbn [cells]. apply upd_length. Qed.
Lemma rsize_set_dat : forall r p d, rsize (set_dat r p d) = rsize r.
Proof. intros. unfold rsize, set_dat. cbn [cells]. apply upd_length. Qed.

Lemma idx_lt : forall r p, 0 < rsize r -> idx r p < rsize r.
Proof. intros. unfold idx. apply Nat.mod_upper_bound. lia. Qed.

Lemma seq_at_set_seq : forall r p v p', 0 < rsize r ->
  seq_at (set_seq r p v) p' = if Nat.eqb (idx r p') (idx r p) then v else seq_at r p'.
Proof.
  intros r p v p' H. unfold seq_at, cell_at. fold (rsize (set_seq r p v)). rewrite rsize_set_seq.
  fold (rsize r). fold (idx r p'). unfold set_seq. cbn [cells].
  destruct (Nat.eqb_spec (idx r p') (idx r p)) as [E | E].
  - rewrite E. rewrite nth_upd_eq by (apply idx_lt; auto). reflexivity.
  - rewrite nth_upd_neq by auto. reflexivity.
Qed.

Lemma dat_at_set_seq : forall r p v p', 0 < rsize r -> dat_at (set_seq r p v) p' = dat_at r p'.
Proof.
  intros r p v p' H. unfold dat_at, cell_at. fold (rsize (set_seq r p v)). rewrite rsize_set_seq.
  fold (rsize r). fold (idx r p'). unfold set_seq. cbn [cells].
  destruct (Nat.eq_dec (idx r p') (idx r p)) as [E | E].
  - rewrite E. rewrite nth_upd_eq by (apply idx_lt; auto). reflexivity.
  - rewrite nth_upd_neq by auto. reflexivity.
Qed.

Lemma seq_at_set_dat : forall r p d p', 0 < rsize r -> seq_at (set_dat r p d) p' = seq_at r p'.
Proof.
  intros r p v p' H. unfold seq_at, cell_at. fold (rsize (set_dat r p v)). rewrite rsize_set_dat.
  fold (rsize r). fold (idx r p'). unfold set_dat. cbn [cells].
  destruct (Nat.eq_dec (idx r p') (idx r p)) as [E | E].
  - rewrite E. rewrite nth_upd_eq by (apply idx_lt; auto). reflexivity.
  - rewrite nth_upd_neq by auto. reflexivity.
Qed.

Lemma dat_at_set_dat : forall r p d p', 0 < rsize r ->
  dat_at (set_dat r p d) p' = if Nat.eqb (idx r p') (idx r p) then d else dat_at r p'.
Proof.
  intros r p v p' H. unfold dat_at, cell_at. fold (rsize (set_dat r p v)). rewrite rsize_set_dat.
  fold (rsize r). fold (idx r p'). unfold set_dat. cbn [cells].
  destruct (Nat.eqb_spec (idx r p') (idx r p)) as [E | E].
  - rewrite E. rewrite nth_upd_eq by (apply idx_lt; auto). reflexivity.
  - rewrite nth_upd_neq by auto. reflexivity.
Qed.

Lemma seq_at_idx : forall r a b, idx r a = idx r b -> seq_at r a = seq_at r b.
Proof. intros r a b H. unfold seq_at, cell_at. fold (rsize r). fold (idx r a). fold (idx r b). now rewrite H. Qed.

Lemma dat_at_idx : forall r a b, idx r a = idx r b -> dat_at r a = dat_at r b.
Proof. intros r a b H. unfold dat_at, cell_at. fold (rsize r). fold (idx r a). fold (idx r b). now rewrite H. Qed.

Lemma idx_plus : forall r p, 0 < rsize r -> idx r (p + rsize r) = idx r p.
Proof.
  intros. unfold idx. rewrite <- (Nat.mul_1_l (rsize r)) at 1. rewrite Nat.mod_add by lia. reflexivity.
Qed.

(** two positions less than the capacity apart never share a cell *)
Lemma idx_window : forall r a b, 0 < rsize r -> a <= b -> b < a + rsize r -> idx r a = idx r b -> a = b.
Proof.
  intros r a b H Hab Hb E. destruct (Nat.eq_dec a b) as [Q | Q]; auto.
  exfalso. revert E. unfold idx. apply mod_distinct; lia.
Qed.

Lemma seq_at_set_enq : forall r v p, seq_at (set_enq r v) p = seq_at r p.
Proof. reflexivity. Qed.
Lemma seq_at_set_deq : forall r v p, seq_at (set_deq r v) p = seq_at r p.
Proof. reflexivity. Qed.
Lemma dat_at_set_enq : forall r v p, dat_at (set_enq r v) p = dat_at r p.
Proof. reflexivity. Qed.
Lemma dat_at_set_deq : forall r v p, dat_at (set_deq r v) p = dat_at r p.
Proof. reflexivity. Qed.

End Cells.

Section Inv.
Variable A : Type.
Implicit Types r : ring A.

Definition TInv (size : nat) r (q : list A) (p : rpc A) : Prop :=
  match p with
  | PushLoadSeq _ pos => pos <= enq r
  | PushCmp _ pos sq => pos <= enq r /\ sq <= seq_at r pos
  | PushCas _ pos => pos <= enq r /\ pos <= seq_at r pos
  | PushWrite x p => deq r <= p < enq r /\ seq_at r p = p /\ nth_error q (p - deq r) = Some x
  | PushStore x p => deq r <= p < enq r /\ seq_at r p = p /\ nth_error q (p - deq r) = Some x /\ dat_at r p = Some x
  | PopLoadSeq pos => pos <= deq r
  | PopCmp pos sq => pos <= deq r /\ sq <= seq_at r pos
  | PopCas pos => pos <= deq r /\ S pos <= seq_at r pos
  | PopMove p g => p < deq r /\ enq r <= p + size /\ seq_at r p = S p /\ dat_at r p = g
  | PopStore p _ => p < deq r /\ enq r <= p + size /\ seq_at r p = S p
  | _ => True
  end.

Record InvC (size : nat) r (q : list A) (pcs : nat -> rpc A) : Prop := mkInvC {
  i_len : rsize r = size;
  i_size : 2 <= size;
  i_de : deq r <= enq r;
  i_cap : enq r <= deq r + size;
  i_q : length q = enq r - deq r;
  i_full : forall p, deq r <= p < enq r ->
     (exists t, ipush (pcs t) = Some p) \/
     (seq_at r p = S p /\ exists x, nth_error q (p - deq r) = Some x /\ dat_at r p = Some x);
  i_free : forall p, enq r <= p < deq r + size ->
     (size <= p /\ exists t, ipop (pcs t) = Some (p - size)) \/ seq_at r p = p;
  i_lo_e : forall p, p < enq r -> p <= seq_at r p;
  i_lo_d : forall p, p < deq r -> S p <= seq_at r p;
  i_thr : forall t, TInv size r q (pcs t);
  i_upush : forall t t' p, ipush (pcs t) = Some p -> ipush (pcs t') = Some p -> t = t';
  i_upop : forall t t' p, ipop (pcs t) = Some p -> ipop (pcs t') = Some p -> t = t'
}.

Definition Inv (size : nat) (s : rstate A) : Prop :=
  InvC size (rs_mem s) (rs_q s) (fun t => tpc (rs_thr s t)).

Lemma ipush_inv : forall size r q pc p, TInv size r q pc -> ipush pc = Some p ->
  deq r <= p < enq r /\ seq_at r p = p /\ exists x, nth_error q (p - deq r) = Some x.
Proof.
  intros size r q pc p T H. destruct pc; simpl in H; try discriminate; inversion H; subst; simpl in T.
  - destruct T as [T1 [T2 T3]]. eauto.
  - destruct T as [T1 [T2 [T3 _]]]. eauto.
Qed.

Lemma ipop_inv : forall size r q pc p, TInv size r q pc -> ipop pc = Some p ->
  p < deq r /\ enq r <= p + size /\ seq_at r p = S p.
Proof.
  intros size r q pc p T H. destruct pc; simpl in H; try discriminate; inversion H; subst; simpl in T.
  - destruct T as [T1 [T2 [T3 _]]]. auto.
  - destruct T as [T1 [T2 T3]]. auto.
Qed.

Lemma Inv_init : forall size progs, 2 <= size -> Inv size (rs_init size progs).
Proof.
  intros size progs H. unfold Inv, rs_init. cbn [rs_mem rs_q rs_thr tpc].
  assert (L : rsize (ring_init A size) = size).
  { unfold rsize, ring_init. cbn [cells]. now rewrite map_length, seq_length. }
  constructor; auto; try (cbn [enq deq ring_init]; simpl; intros; try lia; try discriminate; auto; fail).
  - intros p Hp. right. cbn [enq deq ring_init] in Hp.
    unfold seq_at, cell_at. fold (rsize (ring_init A size)). rewrite L.
    rewrite Nat.mod_small by lia. unfold ring_init. cbn [cells].
    change (0, @None A) with ((fun i => (i, @None A)) 0). rewrite map_nth. cbn [fst]. rewrite seq_nth; lia.
Qed.

(** a step that touches neither the memory nor the in-flight status of any thread *)
Lemma InvC_frame : forall size r q pcs pcs',
  InvC size r q pcs ->
  (forall t, ipush (pcs' t) = ipush (pcs t)) ->
  (forall t, ipop (pcs' t) = ipop (pcs t)) ->
  (forall t, TInv size r q (pcs' t)) ->
  InvC size r q pcs'.
Proof.
  intros size r q pcs pcs' I HP HO HT. destruct I. constructor; auto.
  - intros p Hp. destruct (i_full0 p Hp) as [[t Ht] | R]; [left; exists t; now rewrite HP | right; auto].
  - intros p Hp. destruct (i_free0 p Hp) as [[S1 [t Ht]] | R]; [left; split; auto; exists t; now rewrite HO | right; auto].
  - intros t t' p. rewrite !HP. apply i_upush0.
  - intros t t' p. rewrite !HO. apply i_upop0.
Qed.

End Inv.
