(** C16 — repeated checks of the same PopData object always report the same (sequential) verdict *)
From Coq Require Import List Bool Lia.
From VB Require Import Conc.ValidatorDefs Conc.ValidatorProofs Conc.CheckedDefs.
Import ListNotations.

(** flags are truthful: a set flag means the payload (the whole PopData) really is valid *)
Definition flags_sound (pd : popdata) : Prop :=
  (forall p, In p (pitems pd) -> pchecked p = true -> pvalid p = true) /\
  (pdchecked pd = true -> spec_verdict pd = VValid).

Lemma task_verdict_sound : forall l,
  (forall p, In p l -> pchecked p = true -> pvalid p = true) -> map task_verdict l = map pvalid l.
Proof.
  induction l; simpl; intros H; auto. f_equal.
  - unfold task_verdict. destruct (pchecked a) eqn:E; simpl; auto. symmetry. apply H; auto.
  - apply IHl. intros; apply H; auto.
Qed.

Lemma after_task_props : forall l,
  (forall p, In p l -> pchecked p = true -> pvalid p = true) ->
  map pvalid (map after_task l) = map pvalid l /\
  (forall p, In p (map after_task l) -> pchecked p = true -> pvalid p = true).
Proof.
  intros l H. split.
  - rewrite map_map. apply map_ext. reflexivity.
  - intros p Hp C. apply in_map_iff in Hp. destruct Hp as [q [E Q]]. subst p. simpl in *.
    apply orb_prop in C. destruct C; auto.
Qed.

Lemma check_call_sound : forall pd, flags_sound pd ->
  fst (check_call pd) = spec_verdict pd /\ flags_sound (snd (check_call pd)) /\
  spec_verdict (snd (check_call pd)) = spec_verdict pd.
Proof.
  intros pd [F1 F2]. unfold check_call. destruct (pdchecked pd) eqn:C.
  - simpl. split; [symmetry; auto |]. split; [split; auto |]. reflexivity.
  - simpl. rewrite (task_verdict_sound _ F1). fold (spec_verdict pd).
    destruct (after_task_props _ F1) as [A1 A2].
    assert (S : spec_verdict (mkPopData (map after_task (pitems pd)) (pdup pd)
                 (match spec_verdict pd with VValid => true | _ => false end)) = spec_verdict pd).
    { unfold spec_verdict; simpl. now rewrite A1. }
    split; [reflexivity |]. split; [| exact S].
    split; simpl; auto. intros E. rewrite S.
    destruct (spec_verdict pd); auto; discriminate.
Qed.

Lemma repeated_checks_same_verdict_lemma : forall n pd, flags_sound pd ->
  Forall (fun v => v = spec_verdict pd) (check_n n pd).
Proof.
  induction n; simpl; intros pd F; [constructor |].
  destruct (check_call_sound pd F) as [A [B C]].
  destruct (check_call pd) as [v pd']. simpl in *. constructor; auto.
  rewrite <- C. apply IHn; auto.
Qed.

Lemma fresh_copy_sound : forall pd, flags_sound (fresh_copy pd) /\ spec_verdict (fresh_copy pd) = spec_verdict pd.
Proof.
  intros. split.
  - split; simpl; intros; try discriminate.
    apply in_map_iff in H. destruct H as [q [E Q]]. subst p. simpl in *. discriminate.
  - unfold spec_verdict, fresh_copy; simpl. rewrite map_map. reflexivity.
Qed.

(** the object under check, a copy of it after any number of checks, and a fresh deserialisation all give the
    same verdict, any number of times *)
Lemma checked_flags_transparent_lemma : forall pd n m k,
  flags_sound pd ->
  Forall (fun v => v = spec_verdict pd) (check_n n pd) /\
  Forall (fun v => v = spec_verdict pd) (check_n k (fresh_copy pd)) /\
  (forall pd', pd' = snd (check_call pd) -> Forall (fun v => v = spec_verdict pd) (check_n m pd')).
Proof.
  intros pd n m k F. split; [apply repeated_checks_same_verdict_lemma; auto |]. split.
  - destruct (fresh_copy_sound pd) as [A B]. rewrite <- B. apply repeated_checks_same_verdict_lemma; auto.
  - intros pd' E. subst pd'. destruct (check_call_sound pd F) as [_ [B C]]. rewrite <- C.
    apply repeated_checks_same_verdict_lemma; auto.
Qed.

(** a freshly built PopData (no flag set) is sound *)
Lemma no_flags_sound : forall l dup, flags_sound (mkPopData (map (fun v => mkPayload v false) l) dup false).
Proof.
  intros. split; simpl; intros; try discriminate.
  apply in_map_iff in H. destruct H as [q [E Q]]. subst p. discriminate.
Qed.

(** what breaks if a flag is set before the check has completely succeeded (documentation): an invalid payload
    with its flag set makes the second check of the same object report valid *)
Example premature_flag_refuted :
  let pd := mkPopData [mkPayload false true] false false in
  fst (check_call pd) = VValid /\ spec_verdict pd = VInvalid 0.
Proof. vm_compute. auto. Qed.
