(** C16 — preservation of the ring invariant by the data write and the two sequence stores *)
From Coq Require Import List Arith Bool Lia.
From VB Require Import Conc.ValidatorDefs Conc.ListUpd Conc.RingDefs Conc.RingProofs Conc.RingSteps Conc.RingStepsInv Conc.RingStepsPres.
Import ListNotations.

Local Arguments cells {A} _.
Local Arguments enq {A} _.
Local Arguments deq {A} _.

Section Pres3.
Variable A : Type.
Implicit Types r : ring A.

Lemma pres_push_write : forall size r q (pcs pcs' : nat -> rpc A) t x p,
  InvC A size r q pcs -> pcs t = PushWrite x p ->
  (forall t0, t0 <> t -> pcs' t0 = pcs t0) -> pcs' t = PushStore x p ->
  InvC A size (set_dat r p (Some x)) q pcs'.
Proof.
  intros size r q pcs pcs' t x p I Ht Hoth Ht'.
  pose proof (i_thr _ _ _ _ _ I t) as Tt. rewrite Ht in Tt. simpl in Tt. destruct Tt as [TR [TS TQ]].
  destruct I as [L S2 DE CAP LQ FULL FREE LOE LOD THR UP UO].
  assert (SZ : 0 < rsize r) by lia.
  assert (HP : forall t0, ipush (pcs' t0) = ipush (pcs t0)).
  { intros t0. thr_cases t0 t Hoth Ht'; auto. rewrite Ht. reflexivity. }
  assert (HO : forall t0, ipop (pcs' t0) = ipop (pcs t0)).
  { intros t0. thr_cases t0 t Hoth Ht'; auto. rewrite Ht. reflexivity. }
  assert (IT : ipush (pcs t) = Some p) by (rewrite Ht; reflexivity).
  constructor; autorewrite with ringrw; auto; try lia.
  - intros p0 Hp0. autorewrite with ringrw. rewrite seq_at_set_dat, dat_at_set_dat by lia.
    destruct (FULL p0) as [[t0 H0] | [Q1 [y [Q2 Q3]]]]; [lia | |].
    + left. exists t0. now rewrite HP.
    + right. split; auto. exists y. split; auto.
      destruct (Nat.eqb_spec (idx r p0) (idx r p)) as [EI | EI]; auto.
      apply idx_window2 in EI; [| lia | lia | lia]. subst p0. lia.
  - intros p0 Hp0. autorewrite with ringrw. rewrite seq_at_set_dat by lia.
    destruct (FREE p0) as [[Q1 [t0 H0]] | Q]; [lia | | auto].
    left. split; auto. exists t0. now rewrite HO.
  - intros p0 Hp0. rewrite seq_at_set_dat by lia. auto.
  - intros p0 Hp0. rewrite seq_at_set_dat by lia. auto.
  - intros t0. thr_cases t0 t Hoth Ht'.
    + simpl. autorewrite with ringrw. rewrite seq_at_set_dat, dat_at_set_dat by lia. rewrite Nat.eqb_refl.
      repeat split; auto; lia.
    + pose proof (THR t0) as T0. pose proof (UP t0 t) as U0.
      destruct (pcs t0); simpl in *; autorewrite with ringrw; try rewrite seq_at_set_dat by lia;
        try rewrite dat_at_set_dat by lia; auto.
      * destruct T0 as [T1 [T2 [T3 T4]]]. repeat split; auto; try lia.
        destruct (Nat.eqb_spec (idx r pos) (idx r p)) as [EI | EI]; auto.
        apply idx_window2 in EI; [| lia | lia | lia]. subst pos. exfalso. apply E. apply U0 with p; auto.
      * destruct T0 as [T1 [T2 [T3 T4]]]. repeat split; auto; try lia.
        destruct (Nat.eqb_spec (idx r pos) (idx r p)) as [EI | EI]; auto.
        apply idx_window2 in EI; [| lia | lia | lia]. lia.
  - intros a b p0. rewrite !HP. apply UP.
  - intros a b p0. rewrite !HO. apply UO.
Qed.

Lemma pres_push_store : forall size r q (pcs pcs' : nat -> rpc A) t x p,
  InvC A size r q pcs -> pcs t = PushStore x p ->
  (forall t0, t0 <> t -> pcs' t0 = pcs t0) -> pcs' t = PcIdle ->
  InvC A size (set_seq r p (S p)) q pcs'.
Proof.
  intros size r q pcs pcs' t x p I Ht Hoth Ht'.
  pose proof (i_thr _ _ _ _ _ I t) as Tt. rewrite Ht in Tt. simpl in Tt. destruct Tt as [TR [TS [TQ TD]]].
  destruct I as [L S2 DE CAP LQ FULL FREE LOE LOD THR UP UO].
  assert (SZ : 0 < rsize r) by lia.
  assert (HO : forall t0, ipop (pcs' t0) = ipop (pcs t0)).
  { intros t0. thr_cases t0 t Hoth Ht'; auto. rewrite Ht. reflexivity. }
  assert (IT : ipush (pcs t) = Some p) by (rewrite Ht; reflexivity).
  assert (MONO : forall p0, seq_at r p0 <= seq_at (set_seq r p (S p)) p0).
  { intros p0. rewrite seq_at_set_seq by lia. destruct (Nat.eqb_spec (idx r p0) (idx r p)) as [EI | EI]; auto.
    rewrite (seq_at_idx _ _ _ _ EI). lia. }
  constructor; autorewrite with ringrw; auto; try lia.
  - intros p0 Hp0. autorewrite with ringrw. rewrite seq_at_set_seq, dat_at_set_seq by lia.
    destruct (Nat.eq_dec p0 p) as [EP | EP].
    + subst p0. right. rewrite Nat.eqb_refl. split; auto. exists x. auto.
    + destruct (FULL p0) as [[t0 H0] | [Q1 [y [Q2 Q3]]]]; [lia | |].
      * left. exists t0. rewrite Hoth; auto. intros X; subst t0. congruence.
      * right. destruct (Nat.eqb_spec (idx r p0) (idx r p)) as [EI | EI].
        -- apply idx_window2 in EI; [| lia | lia | lia]. contradiction.
        -- split; auto. exists y. auto.
  - intros p0 Hp0. autorewrite with ringrw. rewrite seq_at_set_seq by lia.
    destruct (FREE p0) as [[Q1 [t0 H0]] | Q]; [lia | |].
    + left. split; auto. exists t0. now rewrite HO.
    + right. destruct (Nat.eqb_spec (idx r p0) (idx r p)) as [EI | EI]; auto.
      apply idx_window2 in EI; [| lia | lia | lia]. lia.
  - intros p0 Hp0. specialize (LOE p0 Hp0). specialize (MONO p0). lia.
  - intros p0 Hp0. specialize (LOD p0 Hp0). specialize (MONO p0). lia.
  - intros t0. thr_cases t0 t Hoth Ht'.
    + exact I.
    + pose proof (THR t0) as T0. pose proof (UP t0 t) as U0.
      destruct (pcs t0); simpl in *; autorewrite with ringrw; try rewrite dat_at_set_seq by lia; auto.
      * pose proof (MONO pos). lia.
      * pose proof (MONO pos). lia.
      * destruct T0 as [T1 [T2 T3]]. repeat split; auto; try lia. rewrite seq_at_set_seq by lia.
        destruct (Nat.eqb_spec (idx r pos) (idx r p)) as [EI | EI]; auto.
        apply idx_window2 in EI; [| lia | lia | lia]. subst pos. exfalso. apply E. apply U0 with p; auto.
      * destruct T0 as [T1 [T2 [T3 T4]]]. repeat split; auto; try lia. rewrite seq_at_set_seq by lia.
        destruct (Nat.eqb_spec (idx r pos) (idx r p)) as [EI | EI]; auto.
        apply idx_window2 in EI; [| lia | lia | lia]. subst pos. exfalso. apply E. apply U0 with p; auto.
      * pose proof (MONO pos). lia.
      * pose proof (MONO pos). lia.
      * destruct T0 as [T1 [T2 [T3 T4]]]. repeat split; auto; try lia. rewrite seq_at_set_seq by lia.
        destruct (Nat.eqb_spec (idx r pos) (idx r p)) as [EI | EI]; auto.
        apply idx_window2 in EI; [| lia | lia | lia]. lia.
      * destruct T0 as [T1 [T2 T3]]. repeat split; auto; try lia. rewrite seq_at_set_seq by lia.
        destruct (Nat.eqb_spec (idx r pos) (idx r p)) as [EI | EI]; auto.
        apply idx_window2 in EI; [| lia | lia | lia]. lia.
  - intros a b p0. thr_cases a t Hoth Ht'; thr_cases b t Hoth Ht'; simpl; intros Ha Hb; try discriminate.
    eapply UP; eauto.
  - intros a b p0. rewrite !HO. apply UO.
Qed.


Lemma pres_pop_store : forall size r q (pcs pcs' : nat -> rpc A) t v p,
  InvC A size r q pcs -> pcs t = PopStore p v ->
  (forall t0, t0 <> t -> pcs' t0 = pcs t0) -> pcs' t = PcIdle ->
  InvC A size (set_seq r p (p + (rsize r - 1) + 1)) q pcs'.
Proof.
  intros size r q pcs pcs' t v p I Ht Hoth Ht'.
  pose proof (i_thr _ _ _ _ _ I t) as Tt. rewrite Ht in Tt. simpl in Tt. destruct Tt as [TR [TS TQ]].
  destruct I as [L S2 DE CAP LQ FULL FREE LOE LOD THR UP UO].
  assert (SZ : 0 < rsize r) by lia.
  replace (p + (rsize r - 1) + 1) with (p + size) by lia.
  assert (HP : forall t0, ipush (pcs' t0) = ipush (pcs t0)).
  { intros t0. thr_cases t0 t Hoth Ht'; auto. rewrite Ht. reflexivity. }
  assert (IT : ipop (pcs t) = Some p) by (rewrite Ht; reflexivity).
  assert (IDX : idx r (p + size) = idx r p) by (rewrite <- L; apply idx_plus; auto).
  assert (MONO : forall p0, seq_at r p0 <= seq_at (set_seq r p (p + size)) p0).
  { intros p0. rewrite seq_at_set_seq by lia. destruct (Nat.eqb_spec (idx r p0) (idx r p)) as [EI | EI]; auto.
    rewrite (seq_at_idx _ _ _ _ EI). lia. }
  constructor; autorewrite with ringrw; auto; try lia.
  - intros p0 Hp0. autorewrite with ringrw. rewrite seq_at_set_seq, dat_at_set_seq by lia.
    destruct (FULL p0) as [[t0 H0] | [Q1 [y [Q2 Q3]]]]; [lia | |].
    + left. exists t0. now rewrite HP.
    + right. destruct (Nat.eqb_spec (idx r p0) (idx r p)) as [EI | EI].
      * apply idx_window2 in EI; [| lia | lia | lia]. lia.
      * split; auto. exists y. auto.
  - intros p0 Hp0. autorewrite with ringrw. rewrite seq_at_set_seq by lia.
    destruct (Nat.eq_dec p0 (p + size)) as [EP | EP].
    + right. subst p0. rewrite IDX, Nat.eqb_refl. reflexivity.
    + destruct (FREE p0) as [[Q1 [t0 H0]] | Q]; [lia | |].
      * left. split; auto. exists t0. rewrite Hoth; auto. intros X; subst t0.
        rewrite IT in H0. inversion H0. lia.
      * right. destruct (Nat.eqb_spec (idx r p0) (idx r p)) as [EI | EI]; auto.
        rewrite <- IDX in EI. apply idx_window2 in EI; [| lia | lia | lia]. contradiction.
  - intros p0 Hp0. specialize (LOE p0 Hp0). specialize (MONO p0). lia.
  - intros p0 Hp0. specialize (LOD p0 Hp0). specialize (MONO p0). lia.
  - intros t0. thr_cases t0 t Hoth Ht'.
    + exact I.
    + pose proof (THR t0) as T0. pose proof (UO t0 t) as U0.
      destruct (pcs t0); simpl in *; autorewrite with ringrw; try rewrite dat_at_set_seq by lia; auto.
      * pose proof (MONO pos). lia.
      * pose proof (MONO pos). lia.
      * destruct T0 as [T1 [T2 T3]]. repeat split; auto; try lia. rewrite seq_at_set_seq by lia.
        destruct (Nat.eqb_spec (idx r pos) (idx r p)) as [EI | EI]; auto.
        apply idx_window2 in EI; [| lia | lia | lia]. lia.
      * destruct T0 as [T1 [T2 [T3 T4]]]. repeat split; auto; try lia. rewrite seq_at_set_seq by lia.
        destruct (Nat.eqb_spec (idx r pos) (idx r p)) as [EI | EI]; auto.
        apply idx_window2 in EI; [| lia | lia | lia]. lia.
      * pose proof (MONO pos). lia.
      * pose proof (MONO pos). lia.
      * destruct T0 as [T1 [T2 [T3 T4]]]. repeat split; auto; try lia. rewrite seq_at_set_seq by lia.
        destruct (Nat.eqb_spec (idx r pos) (idx r p)) as [EI | EI]; auto.
        apply idx_window2 in EI; [| lia | lia | lia]. subst pos. exfalso. apply E. apply U0 with p; auto.
      * destruct T0 as [T1 [T2 T3]]. repeat split; auto; try lia. rewrite seq_at_set_seq by lia.
        destruct (Nat.eqb_spec (idx r pos) (idx r p)) as [EI | EI]; auto.
        apply idx_window2 in EI; [| lia | lia | lia]. subst pos. exfalso. apply E. apply U0 with p; auto.
  - intros a b p0. rewrite !HP. apply UP.
  - intros a b p0. thr_cases a t Hoth Ht'; thr_cases b t Hoth Ht'; simpl; intros Ha Hb; try discriminate.
    eapply UO; eauto.
Qed.

End Pres3.
