(** C16 — pool shape, progress (no deadlock), stop()/start() *)
From Coq Require Import List Arith Bool Lia Permutation.
From VB Require Import Conc.ValidatorDefs Conc.ListUpd Conc.ValidatorProofs.
Import ListNotations.

Definition ex (wk : worker) : bool := match wst wk with WExited => true | _ => false end.
Definition exs (s : state) : list bool := map ex (workers s).

Definition pool_ok (s : state) : Prop :=
  match pst s with
  | PRun => workers s <> [] /\ exs s = repeat false (length (workers s))
  | PStopping k => k < length (workers s) /\
                   exs s = repeat true k ++ repeat false (length (workers s) - k)
  | PStopped => workers s = []
  end.

Record Inv2 (s : state) : Prop := mkInv2 {
  j_pool : pool_ok s;
  j_conv : forall j, j < posted s -> nth_error (futures s) j = Some FPending ->
           exists t, In t (holders s) /\ tid t = j
}.

Lemma map_upd_same : forall A B (g : A -> B) f l i,
  (forall x, nth_error l i = Some x -> g (f x) = g x) -> map g (upd i f l) = map g l.
Proof.
  induction l; destruct i; simpl; intros; auto.
  - f_equal. apply H; auto.
  - f_equal. apply IHl. auto.
Qed.

Lemma pool_ok_same : forall s s',
  exs s' = exs s -> length (workers s') = length (workers s) -> pst s' = pst s -> pool_ok s -> pool_ok s'.
Proof.
  intros s s' E L PS J1. unfold pool_ok in *. rewrite PS, E, L.
  destruct (pst s); auto.
  - destruct J1; split; auto. intros X. apply H. destruct (workers s); auto.
    rewrite X in L; discriminate.
  - rewrite J1 in L. destruct (workers s'); auto; discriminate.
Qed.

Lemma Inv2_same : forall s s',
  Permutation (holders s') (holders s) -> exs s' = exs s -> length (workers s') = length (workers s) ->
  pst s' = pst s -> futures s' = futures s -> cur s' = cur s -> main s' = main s -> Inv2 s -> Inv2 s'.
Proof.
  intros s s' P E L PS F C M [J1 J2].
  assert (PO : posted s' = posted s) by (unfold posted; now rewrite M, C).
  constructor.
  - apply (pool_ok_same s); auto.
  - intros j H1 H2. rewrite PO in H1. rewrite F in H2. destruct (J2 j H1 H2) as [t [T1 T2]].
    exists t; split; auto. eapply Permutation_in; [symmetry; exact P | auto].
Qed.

Lemma map_ex_repeat_idle : forall n, map ex (repeat idle_worker n) = repeat false n.
Proof. induction n; simpl; auto. now rewrite IHn. Qed.

Lemma Inv2_init : forall w c, Inv2 (init w c).
Proof.
  intros. destruct (Nat.max 1 w) eqn:E; [lia |]. constructor.
  - unfold pool_ok, exs, init. cbn [pst workers]. rewrite E. split; [simpl; discriminate |].
    rewrite repeat_length. apply map_ex_repeat_idle.
  - unfold posted, init; cbn [main cur length]. intros; lia.
Qed.

Lemma upd_repeat_boundary_gen : forall k (l : list bool),
  upd k (fun _ => true) (repeat true k ++ false :: l) = repeat true (S k) ++ l.
Proof. induction k; intros; [reflexivity |]. change (repeat true (S k)) with (true :: repeat true k).
  change (repeat true (S (S k))) with (true :: repeat true (S k)). simpl app. simpl upd. now rewrite IHk. Qed.

Lemma upd_repeat_boundary : forall k m,
  upd k (fun _ => true) (repeat true k ++ repeat false (S m)) = repeat true (S k) ++ repeat false m.
Proof. intros. apply upd_repeat_boundary_gen. Qed.

Lemma map_upd_set : forall A B (g : A -> B) f l i b,
  (forall x, g (f x) = b) -> map g (upd i f l) = upd i (fun _ => b) (map g l).
Proof.
  induction l; destruct i; simpl; intros; auto.
  - now rewrite H.
  - now rewrite (IHl _ _ H).
Qed.

Lemma break_all_keeps_broken : forall ts fs j,
  nth_error fs j = Some FBroken -> nth_error (break_all ts fs) j = Some FBroken.
Proof.
  intros. destruct (break_all_nth ts fs j) as [B | [B _]]; congruence.
Qed.

Lemma break_all_breaks : forall ts fs t,
  In t ts -> tid t < length fs -> nth_error (break_all ts fs) (tid t) = Some FBroken.
Proof.
  induction ts; simpl; intros fs t H L; [tauto |].
  change (break_all (a :: ts) fs) with (break_all ts (upd (tid a) (fun _ => FBroken) fs)).
  destruct H as [H | H].
  - subst a. apply break_all_keeps_broken. rewrite nth_error_upd, Nat.eqb_refl.
    destruct (nth_error fs (tid t)) eqn:E; auto. apply nth_error_None in E. lia.
  - apply IHts; auto. now rewrite upd_length.
Qed.

Lemma nth_error_repeat_app : forall k m i b,
  nth_error (repeat true k ++ repeat false m) i = Some b -> (b = true <-> i < k).
Proof.
  induction k; simpl; intros.
  - apply nth_error_repeat_inv in H. destruct H; subst. split; [discriminate | lia].
  - destruct i; simpl in H.
    + inversion H; subst. split; auto; lia.
    + apply IHk in H. rewrite H. lia.
Qed.

Lemma Inv2_step : forall l s s', Inv s -> Inv2 s -> step false l s = Some s' -> Inv2 s'.
Proof.
  unfold step. intros l s s' I J H. destruct (aborted s); try discriminate.
  destruct l.
  - (* call *)
    unfold step_call in H. destruct (quiescent_main (main s)) eqn:Q; try discriminate.
    inversion H; subst s'; clear H. destruct J as [J1 J2]. constructor.
    + exact J1.
    + intros j H1. rewrite posted_after_post in H1; lia.
  - (* post *)
    unfold step_post in H.
    destruct (main s) as [| k | | | |] eqn:M; try discriminate.
    destruct (nth_error (cur s) k) as [t |] eqn:Ck; try discriminate.
    destruct (pst s) eqn:P; try (inversion H; subst; apply (Inv2_same s); auto; fail).
    set (i := nextw s mod length (workers s)) in *.
    destruct (nth_error (workers s) i) as [wk |] eqn:W; try discriminate.
    destruct (length (wq wk) <? qcap s); [| inversion H; subst; apply (Inv2_same s); auto].
    inversion H; subst s'; clear H.
    assert (Kn : k < length (cur s)) by (apply nth_error_Some; congruence).
    assert (PH : Permutation (flat_map holders_w (upd i (push_q t) (workers s))) (t :: holders s)).
    { eapply flat_map_upd_add; eauto. apply holders_w_push. }
    destruct (i_cur _ I _ _ Ck) as [Tk Tt].
    destruct J as [J1 J2]. constructor.
    + apply (pool_ok_same s); auto; unfold exs; simpl.
      * apply map_upd_same. intros; reflexivity.
      * apply upd_length.
    + rewrite posted_after_post by lia. simpl. intros j H1 H2. unfold holders; simpl.
      destruct (Nat.eq_dec j k).
      * subst j. exists t. split; auto. eapply Permutation_in; [symmetry; exact PH | left; auto].
      * destruct (J2 j) as [t' [T1 T2]]; auto. { unfold posted; rewrite M; lia. }
        exists t'. split; auto. eapply Permutation_in; [symmetry; exact PH | right; auto].
  - (* pop *)
    unfold step_pop in H.
    destruct (nth_error (workers s) i) as [[q st] |] eqn:W; try discriminate.
    destruct q as [| t q]; try discriminate. destruct st; try discriminate.
    inversion H; subst s'; clear H.
    apply (Inv2_same s); auto; unfold holders, exs; simpl.
    + eapply flat_map_upd_perm; eauto. unfold holders_w; simpl.
      rewrite app_nil_r. rewrite Permutation_app_comm. reflexivity.
    + apply map_upd_same. intros x Hx. rewrite W in Hx. inversion Hx; subst. reflexivity.
    + apply upd_length.
  - (* steal *)
    unfold step_steal in H.
    destruct (nth_error (workers s) i) as [[qi sti] |] eqn:W; try discriminate.
    destruct sti; try discriminate.
    set (d := S i mod length (workers s)) in *.
    destruct (nth_error (workers s) d) as [[qd std] |] eqn:D; try discriminate.
    destruct qd as [| t q]; try discriminate.
    pose proof (Inv_steal i s s' I) as IS.
    inversion H; subst s'; clear H.
    set (ws1 := upd d (set_q q) (workers s)) in *.
    assert (W1 : exists wk', nth_error ws1 i = Some wk' /\ wst wk' = WIdle).
    { unfold ws1. rewrite nth_error_upd. destruct (d =? i) eqn:E.
      - rewrite W. simpl. eexists; split; eauto.
      - rewrite W. eexists; split; eauto. }
    destruct W1 as [wk' [W1 W2]].
    apply (Inv2_same s); auto; unfold holders, exs; simpl.
    + assert (P1 : Permutation (flat_map holders_w (workers s)) (t :: flat_map holders_w ws1)).
      { apply (flat_map_upd_rem _ _ holders_w (set_q q) _ _ _ t D). reflexivity. }
      assert (P2 : Permutation (flat_map holders_w (upd i (set_st (WRun t)) ws1)) (t :: flat_map holders_w ws1)).
      { eapply flat_map_upd_add; eauto. unfold holders_w, set_st; simpl. rewrite W2.
        rewrite app_nil_r. rewrite Permutation_app_comm. reflexivity. }
      rewrite P2. symmetry. exact P1.
    + rewrite map_upd_same.
      * unfold ws1. apply map_upd_same. intros; reflexivity.
      * intros x Hx. rewrite W1 in Hx. inversion Hx; subst. unfold ex. rewrite W2. reflexivity.
    + unfold ws1. now rewrite !upd_length.
  - (* run *)
    unfold step_run in H.
    destruct (nth_error (workers s) i) as [[q st] |] eqn:W; try discriminate.
    destruct st; try discriminate.
    inversion H; subst s'; clear H.
    apply (Inv2_same s); auto; unfold holders, exs; simpl.
    + eapply flat_map_upd_perm; eauto.
    + apply map_upd_same. intros x Hx. rewrite W in Hx. inversion Hx; subst. reflexivity.
    + apply upd_length.
  - (* fulfil *)
    unfold step_fulfil in H.
    destruct (nth_error (workers s) i) as [[q st] |] eqn:W; try discriminate.
    destruct st; try discriminate.
    inversion H; subst s'; clear H.
    set (ws1 := upd i (set_st WIdle) (workers s)).
    assert (P1 : Permutation (holders s) (t :: flat_map holders_w ws1)).
    { unfold holders. eapply flat_map_upd_rem; eauto. unfold holders_w, set_st; simpl.
      rewrite app_nil_r. rewrite Permutation_app_comm. reflexivity. }
    destruct J as [J1 J2]. constructor.
    + apply (pool_ok_same s); auto; unfold exs; simpl.
      * apply map_upd_same. intros x Hx. rewrite W in Hx. inversion Hx; subst. reflexivity.
      * apply upd_length.
    + change (posted (set_futures (upd (tid t) (fun _ => FReady (tvalid t)) (futures s)) (set_workers ws1 s)))
        with (posted s). simpl. unfold holders; simpl.
      intros j H1 H2. rewrite nth_error_upd in H2. destruct (tid t =? j) eqn:E.
      * destruct (nth_error (futures s) j); simpl in H2; discriminate.
      * destruct (J2 j H1 H2) as [t' [T1 T2]]. exists t'. split; auto.
        eapply Permutation_in in T1; [| exact P1]. destruct T1 as [T1 | T1]; auto.
        subst t'. apply Nat.eqb_neq in E. congruence.
  - (* wait *)
    unfold step_wait in H.
    pose proof (i_main _ I) as M. unfold main_ok, main_ok_m in M.
    destruct (main s) as [| | k | k | |] eqn:E; try discriminate; [| tauto].
    assert (G : forall m, (match m with MPost _ => False | _ => True end) -> Inv2 (set_main m s)).
    { intros m Hm. destruct J as [J1 J2]. constructor; auto.
      assert (PO : posted (set_main m s) = posted s).
      { unfold posted; simpl. rewrite E. destruct m; auto; tauto. }
      rewrite PO. exact J2. }
    destruct (nth_error (futures s) k) as [f |].
    + destruct f; try discriminate; inversion H; subst; apply G; exact Logic.I.
    + destruct (scan 0 (futures s) (curdup s)); try discriminate; inversion H; subst; apply G; exact Logic.I.
  - (* stopreq *)
    unfold step_stopreq in H. destruct (pst s) eqn:P; try discriminate. inversion H; subst s'; clear H.
    destruct J as [J1 J2]. constructor; auto.
    unfold pool_ok in *; simpl. rewrite P in J1. destruct J1 as [A B]. split.
    + destruct (workers s); simpl; [tauto | lia].
    + rewrite Nat.sub_0_r. exact B.
  - (* join *)
    unfold step_join in H.
    destruct (pst s) as [| k |] eqn:P; try discriminate.
    destruct (nth_error (workers s) k) as [[q st] |] eqn:W; try discriminate.
    destruct st; try discriminate.
    set (ws := upd k (set_st WExited) (workers s)) in *.
    destruct J as [J1 J2]. pose proof J1 as J1'. unfold pool_ok in J1'. rewrite P in J1'. destruct J1' as [A B].
    destruct (S k =? length (workers s)) eqn:L.
    + apply Nat.eqb_eq in L.
      inversion H; subst s'; clear H. constructor.
      * unfold pool_ok; simpl. reflexivity.
      * change (posted (set_pst PStopped (set_futures (break_all (flat_map wq ws) (futures s)) (set_workers [] s))))
          with (posted s). simpl.
        intros j H1 H2. exfalso.
        destruct (break_all_nth (flat_map wq ws) (futures s) j) as [X | [X _]]; rewrite X in H2; try discriminate.
        destruct (J2 j H1 H2) as [t [T1 T2]].
        assert (TQ : In t (flat_map wq ws)).
        { unfold holders in T1. apply in_flat_map in T1. destruct T1 as [wk [K1 K2]].
          apply In_nth_error in K1. destruct K1 as [i K1].
          assert (wq_only : holders_w wk = wq wk).
          { destruct (Nat.eq_dec i k).
            - subst i. rewrite W in K1. inversion K1; subst. unfold holders_w; simpl. apply app_nil_r.
            - assert (i < length (workers s)) by (apply nth_error_Some; congruence).
              assert (EX : nth_error (exs s) i = Some (ex wk)).
              { unfold exs. rewrite nth_error_map, K1. reflexivity. }
              rewrite B in EX. apply nth_error_repeat_app in EX.
              assert (ex wk = true) by (apply EX; lia).
              unfold ex in H0. unfold holders_w. destruct (wst wk); try discriminate. apply app_nil_r. }
          rewrite wq_only in K2.
          apply in_flat_map.
          destruct (Nat.eq_dec i k).
          - subst i. exists (set_st WExited wk). split; auto.
            eapply nth_error_In. unfold ws. eapply nth_error_upd_eq; eauto.
          - exists wk. split; auto. eapply nth_error_In. unfold ws. rewrite nth_error_upd_neq; eauto. }
        assert (tid t < length (futures s)).
        { rewrite (i_len _ I). destruct (i_hold _ I t T1) as [_ [Y _]].
          apply nth_error_Some. congruence. }
        pose proof (break_all_breaks _ (futures s) _ TQ H) as BB.
        rewrite T2 in BB. destruct (break_all_nth (flat_map wq ws) (futures s) j) as [Z | [Z _]]; congruence.
    + apply Nat.eqb_neq in L.
      inversion H; subst s'; clear H. constructor.
      * unfold pool_ok, exs in *; simpl. unfold ws. rewrite upd_length. split; [lia |].
        rewrite (map_upd_set _ _ ex (set_st WExited) _ _ true) by reflexivity.
        rewrite B.
        replace (length (workers s) - k) with (S (length (workers s) - S k)) by lia.
        apply (upd_repeat_boundary k (length (workers s) - S k)).
      * change (posted (set_pst (PStopping (S k)) (set_workers ws s))) with (posted s). simpl.
        intros j H1 H2. destruct (J2 j H1 H2) as [t [T1 T2]]. exists t; split; auto.
        unfold holders; simpl. eapply Permutation_in; [| exact T1]. symmetry.
        eapply flat_map_upd_perm; eauto.
  - (* start *)
    unfold step_start in H. destruct (pst s) eqn:P; try discriminate; inversion H; subst s'; clear H.
    + apply (Inv2_same s); auto.
    + destruct J as [J1 J2]. unfold pool_ok in J1. rewrite P in J1. constructor.
      * unfold pool_ok, exs. cbn [pst workers]. rewrite repeat_length. split.
        -- destruct w; simpl; discriminate.
        -- apply map_ex_repeat_idle.
      * intros j H1 H2. destruct (J2 j H1 H2) as [t [T1 _]]. unfold holders in T1. rewrite J1 in T1. destruct T1.
Qed.

Lemma Inv12_run : forall sched s, Inv s -> Inv2 s -> Inv (run false sched s) /\ Inv2 (run false sched s).
Proof.
  unfold run. induction sched; simpl; intros; auto. apply IHsched; unfold step'.
  - destruct (step false a s) eqn:E; auto. eapply Inv_step; eauto.
  - destruct (step false a s) eqn:E; auto. eapply Inv2_step; eauto.
Qed.

Lemma Inv2_reach : forall w c sched, Inv2 (run false sched (init w c)).
Proof. intros. apply Inv12_run. apply Inv_init. apply Inv2_init. Qed.

(** labels of the main thread inside checkPopData and of the workers *)
Definition inner (l : label) : bool :=
  match l with LPost | LPop _ | LSteal _ | LRun _ | LFulfil _ | LWait => true | _ => false end.

(** no deadlock: while the pool runs and main is inside checkPopData, some step is enabled *)
Lemma progress_state : forall s, Inv s -> Inv2 s -> aborted s = false -> pst s = PRun ->
  quiescent_main (main s) = false -> exists l s', inner l = true /\ step false l s = Some s'.
Proof.
  intros s I [J1 J2] AB P Q. unfold step. rewrite AB.
  pose proof (i_main _ I) as M. unfold main_ok, main_ok_m in M.
  unfold pool_ok in J1. rewrite P in J1. destruct J1 as [WN EX].
  destruct (main s) as [| k | k | k | |] eqn:E; try discriminate; try tauto.
  - (* posting *)
    exists LPost. unfold step_post. rewrite E, P.
    destruct (nth_error (cur s) k) eqn:C. 2:{ apply nth_error_None in C. lia. }
    destruct (nth_error (workers s) (nextw s mod length (workers s))) eqn:W.
    + destruct (length (wq w) <? qcap s); eauto.
    + apply nth_error_None in W. destruct (workers s); [tauto |].
      pose proof (Nat.mod_upper_bound (nextw s) (length (w :: l))). simpl in *. lia.
  - (* waiting *)
    destruct M as [M1 M2].
    destruct (nth_error (futures s) k) as [f |] eqn:F.
    + destruct f.
      * (* pending: its task is held by a worker that can move *)
        assert (Kp : k < posted s).
        { unfold posted. rewrite E. rewrite <- (i_len _ I). apply nth_error_Some. congruence. }
        destruct (J2 k Kp F) as [t [T1 T2]].
        unfold holders in T1. apply in_flat_map in T1. destruct T1 as [wk [K1 K2]].
        apply In_nth_error in K1. destruct K1 as [i K1].
        assert (NE : ex wk = false).
        { assert (X : nth_error (exs s) i = Some (ex wk)) by (unfold exs; rewrite nth_error_map, K1; reflexivity).
          rewrite EX in X. apply nth_error_repeat_inv in X. tauto. }
        destruct wk as [q st]. unfold ex in NE; simpl in NE. unfold holders_w in K2; simpl in K2.
        destruct st; try discriminate.
        -- rewrite app_nil_r in K2. destruct q as [| t0 q]; [destruct K2 |].
           exists (LPop i). unfold step_pop. rewrite K1. eauto.
        -- exists (LRun i). unfold step_run. rewrite K1. eauto.
        -- exists (LFulfil i). unfold step_fulfil. rewrite K1. eauto.
      * exists LWait. unfold step_wait. rewrite E, F. eauto.
      * exists LWait. unfold step_wait. rewrite E, F. eauto.
    + exists LWait. unfold step_wait. rewrite E, F.
      assert (NB : scan 0 (futures s) (curdup s) <> SBlocked).
      { apply scan_not_blocked. intros j. destruct (lt_dec j k); [apply M2; auto |].
        assert (nth_error (futures s) j = None); [| congruence].
        apply nth_error_None. apply nth_error_None in F. lia. }
      destruct (scan 0 (futures s) (curdup s)); eauto. congruence.
Qed.

Lemma no_deadlock_lemma : forall w c sched,
  let s := run false sched (init w c) in
  aborted s = false -> pst s = PRun -> quiescent_main (main s) = false ->
  exists l s', inner l = true /\ step false l s = Some s'.
Proof. intros. apply progress_state; auto. apply Inv_reach. apply Inv2_reach. Qed.

(** stop() and start(): once no call is in progress, every join succeeds without waiting for a
    task, no promise is broken, nothing is left that references a PopData, and start() yields a
    fresh pool (from which the verdict/release theorems apply again, being schedule-universal) *)
Lemma stop_restart_safe_lemma : forall w c sched,
  let s := run false sched (init w c) in
  aborted s = false -> quiescent_main (main s) = true ->
  (forall k, pst s = PStopping k ->
     exists s', step false LJoin s = Some s' /\ futures s' = futures s /\ holders s' = [] /\ main s' = main s) /\
  (pst s = PStopped ->
     holders s = [] /\
     forall w', exists s', step false (LStart w') s = Some s' /\ pst s' = PRun /\
                workers s' = repeat idle_worker (Nat.max 1 w') /\ main s' = main s /\ aborted s' = false).
Proof.
  intros w c sched s AB Q.
  pose proof (Inv_reach w c sched) as I. pose proof (Inv2_reach w c sched) as J. fold s in I, J.
  pose proof (quiescent_no_holders _ I Q) as NH.
  split.
  - intros k P. destruct J as [J1 _]. unfold pool_ok in J1. rewrite P in J1. destruct J1 as [A B].
    destruct (nth_error (workers s) k) as [[q st] |] eqn:W. 2:{ apply nth_error_None in W. lia. }
    assert (HW : holders_w (mkWorker q st) = []).
    { destruct (holders_w (mkWorker q st)) as [| t r] eqn:E; auto. exfalso.
      assert (In t (holders s)).
      { unfold holders. apply in_flat_map. exists (mkWorker q st). split.
        - eapply nth_error_In; eauto.
        - rewrite E. left; auto. }
      rewrite NH in H. destruct H. }
    assert (NE : ex (mkWorker q st) = false).
    { assert (X : nth_error (exs s) k = Some (ex (mkWorker q st))) by (unfold exs; rewrite nth_error_map, W; reflexivity).
      rewrite B in X. apply nth_error_repeat_app in X. destruct (ex (mkWorker q st)); auto.
      assert (k < k) by (apply X; auto). lia. }
    unfold holders_w in HW; simpl in HW. apply app_eq_nil in HW. destruct HW as [Hq Hs]. subst q.
    unfold ex in NE; simpl in NE. destruct st; try discriminate.
    unfold step. rewrite AB. unfold step_join. rewrite P, W.
    assert (HQ : flat_map wq (upd k (set_st WExited) (workers s)) = []).
    { destruct (flat_map wq (upd k (set_st WExited) (workers s))) as [| t r] eqn:E; auto. exfalso.
      assert (In t (holders s)).
      { assert (X : In t (flat_map wq (upd k (set_st WExited) (workers s)))) by (rewrite E; left; auto).
        apply in_flat_map in X. destruct X as [wk' [H1 H2]].
        apply in_upd in H1. destruct H1 as [wk [H3 H4]].
        unfold holders. apply in_flat_map. exists wk. split; auto.
        unfold holders_w. apply in_or_app. left. destruct H4; subst wk'; auto. }
      rewrite NH in H. destruct H. }
    destruct (S k =? length (workers s)).
    + eexists; split; [reflexivity |]. simpl. rewrite HQ. simpl. auto.
    + eexists; split; [reflexivity |]. simpl. split; auto. split; auto.
      unfold holders; simpl.
      assert (P1 : Permutation (flat_map holders_w (upd k (set_st WExited) (workers s))) (holders s)).
      { unfold holders. eapply flat_map_upd_perm; eauto. }
      rewrite NH in P1. apply Permutation_sym, Permutation_nil in P1. exact P1.
  - intros P. split; auto. intros w'. unfold step. rewrite AB. unfold step_start. rewrite P.
    eexists; split; [reflexivity |]. simpl. auto.
Qed.

(** no VBK_ASSERT fires when nobody stops/starts the validator and every call fits the queue *)
Definition NoAbortInv (c : nat) (s : state) : Prop :=
  pst s = PRun /\ aborted s = false /\ qcap s = c /\ length (cur s) <= c.

Lemma holders_w_length : forall ws wk, In wk ws -> length (wq wk) <= length (flat_map holders_w ws).
Proof.
  induction ws; simpl; intros; [tauto |]. rewrite app_length. destruct H.
  - subst. unfold holders_w. rewrite app_length. lia.
  - apply IHws in H. lia.
Qed.

Lemma holders_bound : forall s, Inv s -> length (holders s) <= posted s.
Proof.
  intros s I.
  assert (incl (map tid (holders s)) (seq 0 (posted s))).
  { intros j H. apply in_map_iff in H. destruct H as [t [H1 H2]]. apply (i_hold _ I) in H2.
    apply in_seq. lia. }
  apply NoDup_incl_length in H; [| apply (i_nodup _ I)].
  now rewrite map_length, seq_length in H.
Qed.

Lemma NoAbort_step : forall c l s s', Inv s -> NoAbortInv c s -> sizes_ok c l = true ->
  step false l s = Some s' -> NoAbortInv c s'.
Proof.
  unfold step, NoAbortInv. intros c l s s' I [P [A [QC L]]] SZ H. rewrite A in H.
  destruct l; simpl in SZ; try discriminate.
  - unfold step_call in H. destruct (quiescent_main (main s)); try discriminate. inversion H; subst; simpl.
    rewrite mk_tasks_length. apply Nat.leb_le in SZ. auto.
  - unfold step_post in H. destruct (main s) as [| k | | | |] eqn:M; try discriminate.
    destruct (nth_error (cur s) k) eqn:Ck; try discriminate. rewrite P in H.
    destruct (nth_error (workers s) (nextw s mod length (workers s))) as [wk |] eqn:W; try discriminate.
    destruct (length (wq wk) <? qcap s) eqn:LT.
    + inversion H; subst; simpl; auto.
    + exfalso. apply Nat.ltb_ge in LT.
      pose proof (holders_w_length (workers s) wk (nth_error_In _ _ W)) as B1.
      pose proof (holders_bound s I) as B2. unfold holders in B2. unfold posted in B2. rewrite M in B2.
      assert (k < length (cur s)) by (apply nth_error_Some; congruence). lia.
  - unfold step_pop in H. destruct (nth_error (workers s) i) as [[[| t q] []] |]; inversion H; subst; simpl; auto.
  - unfold step_steal in H. destruct (nth_error (workers s) i) as [[? []] |]; try discriminate.
    destruct (nth_error (workers s) (S i mod length (workers s))) as [[[| t q] ?] |]; inversion H; subst; simpl; auto.
  - unfold step_run in H. destruct (nth_error (workers s) i) as [[? []] |]; inversion H; subst; simpl; auto.
  - unfold step_fulfil in H. destruct (nth_error (workers s) i) as [[? []] |]; inversion H; subst; simpl; auto.
  - unfold step_wait in H. destruct (main s); try discriminate.
    + destruct (nth_error (futures s) k) as [[] |]; try discriminate; try (inversion H; subst; simpl; auto; fail).
      destruct (scan 0 (futures s) (curdup s)); inversion H; subst; simpl; auto.
    + destruct (nth_error (futures s) k) as [[| [] |] |]; inversion H; subst; simpl; auto.
Qed.

Lemma no_assert_fires_lemma : forall w c sched,
  forallb (sizes_ok c) sched = true -> aborted (run false sched (init w c)) = false.
Proof.
  intros w c sched H.
  assert (G : forall sched s, Inv s -> NoAbortInv c s -> forallb (sizes_ok c) sched = true ->
              NoAbortInv c (run false sched s)).
  { clear. unfold run. induction sched; simpl; intros s I N H; auto.
    apply andb_prop in H. destruct H as [H1 H2]. unfold step' at 2.
    destruct (step false a s) eqn:E.
    - apply IHsched; auto. eapply Inv_step; eauto. eapply NoAbort_step; eauto.
    - apply IHsched; auto. }
  apply (G sched (init w c)); auto. apply Inv_init.
  unfold NoAbortInv; simpl. repeat split; auto. lia.
Qed.
