(** C16 — every step of every thread preserves the ring invariant; consequences for every schedule:
    the successful operations are linearizable (linearization point = the successful CAS) to the bounded FIFO of
    Conc/RingDefs.v, nothing is lost or duplicated, capacity is never exceeded, and a "full"/"empty" answer is
    justified at the moment the sequence number was loaded. *)
From Coq Require Import List Arith Bool Lia.
From VB Require Import Conc.ValidatorDefs Conc.ListUpd Conc.RingDefs Conc.RingProofs Conc.RingSteps Conc.RingStepsInv
  Conc.RingStepsPres Conc.RingStepsPres2.
Import ListNotations.

Local Arguments cells {A} _.
Local Arguments enq {A} _.
Local Arguments deq {A} _.
Local Arguments PushOk {A}.
Local Arguments PushFull {A}.
Local Arguments PopOk {A} _.
Local Arguments PopEmpty {A}.
Local Arguments RPush {A} _.
Local Arguments RPop {A}.

Section Lin.
Variable A : Type.
Implicit Types r : ring A.
Implicit Types s : rstate A.

Lemma tpc_upd_thr : forall (thr : nat -> rthread A) t th t0,
  tpc (upd_thr thr t th t0) = if Nat.eqb t0 t then tpc th else tpc (thr t0).
Proof. intros. unfold upd_thr. destruct (Nat.eqb t0 t); reflexivity. Qed.

Lemma upd_thr_same : forall (thr : nat -> rthread A) t th, upd_thr thr t th t = th.
Proof. intros. unfold upd_thr. now rewrite Nat.eqb_refl. Qed.

Lemma upd_thr_other : forall (thr : nat -> rthread A) t th t0, t0 <> t -> upd_thr thr t th t0 = thr t0.
Proof. intros. unfold upd_thr. apply Nat.eqb_neq in H. now rewrite H. Qed.

(** a step that changes only the record of thread t, keeping its in-flight status *)
Lemma Inv_frame_step : forall size s t th' l,
  Inv A size s ->
  ipush (tpc th') = ipush (tpc (rs_thr s t)) -> ipop (tpc th') = ipop (tpc (rs_thr s t)) ->
  TInv A size (rs_mem s) (rs_q s) (tpc th') ->
  Inv A size (mkRS (rs_mem s) (upd_thr (rs_thr s) t th') l (rs_q s)).
Proof.
  intros size s t th' l I HP HO HT. unfold Inv in *. cbn [rs_mem rs_q rs_thr].
  apply InvC_frame with (pcs := fun t0 => tpc (rs_thr s t0)); auto.
  - intros t0. rewrite tpc_upd_thr. destruct (Nat.eqb_spec t0 t); subst; auto.
  - intros t0. rewrite tpc_upd_thr. destruct (Nat.eqb_spec t0 t); subst; auto.
  - intros t0. rewrite tpc_upd_thr. destruct (Nat.eqb_spec t0 t); subst; auto.
    apply (i_thr _ _ _ _ _ I).
Qed.

Lemma Inv_step : forall size s t b, Inv A size s -> Inv A size (rs_step t b s).
Proof.
  intros size s t b I. unfold rs_step.
  pose proof (i_thr _ _ _ _ _ I t) as T. cbv beta in T.
  assert (OTH : forall th' t0, t0 <> t -> tpc (upd_thr (rs_thr s) t th' t0) = tpc (rs_thr s t0)).
  { intros. now rewrite upd_thr_other. }
  destruct (tpc (rs_thr s t)) eqn:Ht; simpl in T.
  - (* idle *)
    destruct (tprog (rs_thr s t)) as [| [x |] rest]; auto;
      apply Inv_frame_step; auto; rewrite Ht; reflexivity.
  - apply Inv_frame_step; auto; try (rewrite Ht; reflexivity). simpl. lia.
  - apply Inv_frame_step; auto; try (rewrite Ht; reflexivity). simpl. lia.
  - destruct T as [T1 T2]. destruct (Nat.compare_spec sq pos).
    + subst sq. apply Inv_frame_step; auto; try (rewrite Ht; reflexivity). simpl. lia.
    + apply Inv_frame_step; auto; try (rewrite Ht; reflexivity). simpl. auto.
    + apply Inv_frame_step; auto; try (rewrite Ht; reflexivity). simpl. auto.
  - destruct (Nat.eqb_spec (enq (rs_mem s)) pos) as [E | E]; destruct b; cbn [andb negb];
      try (apply Inv_frame_step; auto; try (rewrite Ht; reflexivity); simpl; lia).
    unfold commit, Inv. cbn [rs_mem rs_q rs_thr].
    apply (pres_push_cas A size (rs_mem s) (rs_q s) (fun t0 => tpc (rs_thr s t0)) _ t x pos); auto.
    cbv beta. now rewrite upd_thr_same.
  - unfold goto_m, Inv. cbn [rs_mem rs_q rs_thr].
    apply (pres_push_write A size (rs_mem s) (rs_q s) (fun t0 => tpc (rs_thr s t0)) _ t x pos); auto.
    cbv beta. now rewrite upd_thr_same.
  - unfold ret_m, Inv. cbn [rs_mem rs_q rs_thr].
    apply (pres_push_store A size (rs_mem s) (rs_q s) (fun t0 => tpc (rs_thr s t0)) _ t x pos); auto.
    cbv beta. now rewrite upd_thr_same.
  - apply Inv_frame_step; auto; try (rewrite Ht; reflexivity). simpl. lia.
  - apply Inv_frame_step; auto; try (rewrite Ht; reflexivity). simpl. lia.
  - destruct T as [T1 T2]. destruct (Nat.compare_spec sq (S pos)).
    + subst sq. apply Inv_frame_step; auto; try (rewrite Ht; reflexivity). simpl. lia.
    + apply Inv_frame_step; auto; try (rewrite Ht; reflexivity). simpl. auto.
    + apply Inv_frame_step; auto; try (rewrite Ht; reflexivity). simpl. auto.
  - destruct (Nat.eqb_spec (deq (rs_mem s)) pos) as [E | E]; destruct b; cbn [andb negb];
      try (apply Inv_frame_step; auto; try (rewrite Ht; reflexivity); simpl; lia).
    unfold commit, Inv. cbn [rs_mem rs_q rs_thr].
    apply (pres_pop_cas A size (rs_mem s) (rs_q s) (fun t0 => tpc (rs_thr s t0)) _ t pos); auto.
    cbv beta. now rewrite upd_thr_same.
  - apply Inv_frame_step; auto; try (rewrite Ht; reflexivity). simpl. tauto.
  - unfold ret_m, Inv. cbn [rs_mem rs_q rs_thr].
    apply (pres_pop_store A size (rs_mem s) (rs_q s) (fun t0 => tpc (rs_thr s t0)) _ t v pos); auto.
    cbv beta. now rewrite upd_thr_same.
Qed.

Lemma Inv_run : forall size sched s, Inv A size s -> Inv A size (rs_run sched s).
Proof.
  induction sched as [| e sched IH]; intros s I; simpl; auto. apply IH. apply Inv_step; auto.
Qed.

Lemma Inv_reachable : forall size progs sched, 2 <= size -> Inv A size (rs_run sched (rs_init size progs)).
Proof. intros. apply Inv_run. apply Inv_init; auto. Qed.

End Lin.
