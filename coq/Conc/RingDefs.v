(** C16 — the Vyukov bounded MPMC ring buffer of the thread pool, as coded in
    include/veriblock/pop/third_party/thread_pool/mpmc_bounded_queue.hpp, executed by ONE thread at a time
    (each push/pop runs to completion; concurrent interleavings of the CAS loops are not modelled).
    Cells carry a sequence number; positions are size_t counters that are never reduced; the index of a
    position is [pos mod size] (= pos & mask, size being a power of two >= 2 in the code).
    [dif = (intptr_t)seq - (intptr_t)pos] is modelled by comparing unbounded naturals: wrap-around of the
    64-bit position counters (2^64 operations) is outside the model.
    The [Spin] outcome is the branch [dif > 0]: the code reloads the position and retries; with a single
    thread the reload returns the same value, i.e. the call would never return. *)
From Coq Require Import List Arith.
From VB Require Import Conc.ValidatorDefs.
Import ListNotations.

Section Ring.
Variable A : Type.

Record ring := mkRing { cells : list (nat * option A); enq : nat; deq : nat }.

Inductive rres := PushOk | PushFull | PopOk (x : option A) | PopEmpty | Spin.

Definition ring_init (size : nat) : ring :=
  mkRing (map (fun i => (i, None)) (seq 0 size)) 0 0.

Definition cell_at (r : ring) (pos : nat) : nat * option A :=
  nth (pos mod length (cells r)) (cells r) (0, None).

Definition ring_push (x : A) (r : ring) : rres * ring :=
  let pos := enq r in
  let sq := fst (cell_at r pos) in
  match Nat.compare sq pos with
  | Eq => (PushOk, mkRing (upd (pos mod length (cells r)) (fun _ => (S pos, Some x)) (cells r)) (S pos) (deq r))
  | Lt => (PushFull, r)
  | Gt => (Spin, r)
  end.

Definition ring_pop (r : ring) : rres * ring :=
  let pos := deq r in
  let c := cell_at r pos in
  match Nat.compare (fst c) (S pos) with
  | Eq => (PopOk (snd c),
           mkRing (upd (pos mod length (cells r)) (fun _ => (pos + (length (cells r) - 1) + 1, snd c)) (cells r))
                  (enq r) (S pos))
  | Lt => (PopEmpty, r)
  | Gt => (Spin, r)
  end.

Inductive rop := RPush (x : A) | RPop.

Definition ring_step (o : rop) (r : ring) : rres * ring :=
  match o with RPush x => ring_push x r | RPop => ring_pop r end.

(** the specification: a FIFO holding at most [size] elements *)
Definition fifo_step (size : nat) (o : rop) (q : list A) : rres * list A :=
  match o with
  | RPush x => if length q <? size then (PushOk, q ++ [x]) else (PushFull, q)
  | RPop => match q with [] => (PopEmpty, []) | x :: t => (PopOk (Some x), t) end
  end.

Fixpoint ring_run (ops : list rop) (r : ring) : list rres :=
  match ops with [] => [] | o :: t => let '(a, r') := ring_step o r in a :: ring_run t r' end.

Fixpoint fifo_run (size : nat) (ops : list rop) (q : list A) : list rres :=
  match ops with [] => [] | o :: t => let '(a, q') := fifo_step size o q in a :: fifo_run size t q' end.

End Ring.
