(** C16 — the ring buffer refines a bounded FIFO (sequential executions) *)
From Coq Require Import List Arith Lia.
From VB Require Import Conc.ValidatorDefs Conc.ListUpd Conc.RingDefs.
Import ListNotations.

Lemma mod_distinct : forall s a b, 0 < s -> a < b -> b < a + s -> a mod s <> b mod s.
Proof.
  intros s a b Hs Hab Hb E.
  pose proof (Nat.div_mod a s ltac:(lia)). pose proof (Nat.div_mod b s ltac:(lia)).
  rewrite E in H. 
  assert (b - a = s * (b / s) - s * (a / s)) by lia.
  assert (a / s <= b / s) by (apply Nat.div_le_mono; lia).
  destruct (Nat.eq_dec (a / s) (b / s)) as [Q | Q]; [rewrite Q in *; lia |].
  assert (S (a / s) <= b / s) by lia.
  assert (s * S (a / s) <= s * (b / s)) by (apply Nat.mul_le_mono_l; lia).
  lia.
Qed.

Lemma nth_upd_eq : forall A (f : A -> A) l i d, i < length l -> nth i (upd i f l) d = f (nth i l d).
Proof. induction l; destruct i; simpl; intros; try lia; auto. apply IHl. lia. Qed.

Lemma nth_upd_neq : forall A (f : A -> A) l i j d, i <> j -> nth j (upd i f l) d = nth j l d.
Proof. induction l; destruct i, j; simpl; intros; try lia; auto. Qed.

Section RingProofs.
Variable A : Type.
Notation ring := (ring A).
Notation d0 := (0, @None A).

Definition RInv (size : nat) (r : ring) (q : list A) : Prop :=
  length (cells A r) = size /\ 2 <= size /\ deq A r <= enq A r /\ enq A r <= deq A r + size /\
  length q = enq A r - deq A r /\
  (forall p, deq A r <= p < enq A r ->
     exists x, nth_error q (p - deq A r) = Some x /\ nth (p mod size) (cells A r) d0 = (S p, Some x)) /\
  (forall p, enq A r <= p < deq A r + size -> fst (nth (p mod size) (cells A r) d0) = p).

Lemma RInv_init : forall size, 2 <= size -> RInv size (ring_init A size) [].
Proof.
  intros size H. unfold RInv, ring_init; simpl. rewrite map_length, seq_length.
  repeat split; auto; try lia.
  intros p Hp. rewrite Nat.mod_small by lia.
  change (0, @None A) with ((fun i => (i, @None A)) 0). rewrite map_nth. simpl. rewrite seq_nth; lia.
Qed.

Lemma ring_step_refines : forall size o r q,
  RInv size r q ->
  fst (ring_step A o r) = fst (fifo_step A size o q) /\
  RInv size (snd (ring_step A o r)) (snd (fifo_step A size o q)).
Proof.
  intros size o r q [L [S2 [DE [ED [LQ [FULLC EMPTYC]]]]]].
  assert (MS : forall p, p mod size < size) by (intros; apply Nat.mod_upper_bound; lia).
  destruct o as [x |]; simpl.
  - (* push *)
    unfold ring_push, cell_at. rewrite L.
    destruct (Nat.eq_dec (enq A r) (deq A r + size)) as [F | F].
    + (* full: the cell of enq is the cell of deq, whose sequence is deq+1 < enq *)
      assert (Q : length q <? size = false) by (apply Nat.ltb_ge; lia). rewrite Q.
      destruct (FULLC (deq A r)) as [y [_ C]]; [lia |].
      assert (M : enq A r mod size = deq A r mod size).
      { rewrite F. rewrite <- (Nat.mul_1_l size) at 1. rewrite Nat.mod_add by lia. reflexivity. }
      rewrite M, C. cbn [fst].
      destruct (Nat.compare_spec (S (deq A r)) (enq A r)); try lia.
      simpl. unfold RInv. repeat split; auto.
    + assert (Q : length q <? size = true) by (apply Nat.ltb_lt; lia). rewrite Q.
      rewrite (EMPTYC (enq A r)) by lia. rewrite Nat.compare_refl. cbn [fst snd].
      unfold RInv; cbn [cells enq deq]. rewrite upd_length. rewrite app_length. cbn [length].
      repeat split; auto; try lia.
      * intros p Hp. destruct (Nat.eq_dec p (enq A r)) as [E | E].
        -- subst p. exists x. split.
           ++ rewrite nth_error_app2 by lia. replace (enq A r - deq A r - length q) with 0 by lia. reflexivity.
           ++ rewrite nth_upd_eq by (rewrite L; auto). reflexivity.
        -- destruct (FULLC p) as [y [Y1 Y2]]; [lia |]. exists y. split.
           ++ rewrite nth_error_app1; auto. lia.
           ++ rewrite nth_upd_neq; auto. intros X. symmetry in X. revert X. apply mod_distinct; lia.
      * intros p Hp. rewrite nth_upd_neq; [apply EMPTYC; lia |]. apply mod_distinct; lia.
  - (* pop *)
    unfold ring_pop, cell_at. rewrite L.
    destruct (Nat.eq_dec (deq A r) (enq A r)) as [E | E].
    + (* empty *)
      destruct q as [| y t]; [| simpl in LQ; lia].
      rewrite (EMPTYC (deq A r)) by lia.
      destruct (Nat.compare_spec (deq A r) (S (deq A r))); try lia.
      simpl. unfold RInv. repeat split; auto.
    + destruct (FULLC (deq A r)) as [y [Y1 Y2]]; [lia |].
      rewrite Nat.sub_diag in Y1. destruct q as [| y' t]; [discriminate |]. simpl in Y1. inversion Y1; subst y'.
      rewrite Y2. cbn [fst snd]. rewrite Nat.compare_refl. cbn [fst snd].
      unfold RInv; cbn [cells enq deq]. rewrite upd_length. simpl in LQ.
      repeat split; auto; try lia.
      * intros p Hp. destruct (FULLC p) as [z [Z1 Z2]]; [lia |]. exists z. split.
        -- replace (p - deq A r) with (S (p - S (deq A r))) in Z1 by lia. exact Z1.
        -- rewrite nth_upd_neq; auto. apply mod_distinct; lia.
      * intros p Hp. destruct (Nat.eq_dec p (deq A r + size)) as [X | X].
        -- subst p. rewrite <- (Nat.mul_1_l size) at 1. rewrite Nat.mod_add by lia.
           rewrite nth_upd_eq by (rewrite L; auto). simpl. lia.
        -- rewrite nth_upd_neq; [apply EMPTYC; lia |]. apply mod_distinct; lia.
Qed.

Lemma ring_refines_fifo_lemma : forall size ops r q,
  RInv size r q -> ring_run A ops r = fifo_run A size ops q.
Proof.
  induction ops as [| o t IH]; simpl; intros r q I; auto.
  destruct (ring_step_refines size o r q I) as [E I'].
  destruct (ring_step A o r) as [a r']. destruct (fifo_step A size o q) as [a' q']. simpl in *.
  subst. f_equal. apply IH; auto.
Qed.

(** for every sequence of push/pop on a fresh ring of size >= 2: exactly the answers of a FIFO bounded by size
    (never "full" with fewer than size elements, never "empty" when non-empty, never spinning, FIFO order) *)
Lemma ring_refines_fifo_init : forall size ops,
  2 <= size -> ring_run A ops (ring_init A size) = fifo_run A size ops [].
Proof. intros. apply ring_refines_fifo_lemma. apply RInv_init; auto. Qed.

End RingProofs.
