(** C16 — with several clients on one pool, each client's verdict depends only on its own payloads *)
From Coq Require Import List Arith Bool Lia.
From VB Require Import Conc.ValidatorDefs Conc.ListUpd Conc.ValidatorProofs Conc.MultiDefs.
Import ListNotations.

Lemma in_remove_nth : forall A (l : list A) j x, In x (remove_nth j l) -> In x l.
Proof. induction l; destruct j; simpl; intros; auto. destruct H; auto. right; eauto. Qed.

Lemma mk_tasks_nth_some : forall tk vs i j b,
  nth_error vs j = Some b -> nth_error (mk_tasks tk i vs) j = Some (mkTask (i + j) tk b).
Proof.
  induction vs; intros i j b H; destruct j; simpl in *; try discriminate.
  - inversion H; subst. f_equal. f_equal. lia.
  - rewrite (IHvs (S i) j b H). f_equal. f_equal. lia.
Qed.

Lemma scan_throw_broken : forall fs i dup, scan i fs dup = SThrow -> exists j, nth_error fs j = Some FBroken.
Proof.
  induction fs as [| f fs IH]; simpl; intros i dup H; try discriminate.
  destruct f as [| u |].
  - discriminate.
  - destruct u; try discriminate. destruct (IH _ _ H) as [j Hj]. exists (S j). exact Hj.
  - exists 0. reflexivity.
Qed.

Definition client_spec (progs : list (list bool * bool)) (c : nat) (v : verdict) : Prop :=
  exists vs dup, nth_error progs c = Some (vs, dup) /\ v = seq_verdict (mk_tasks 0 0 vs) dup.

Record MInv (progs : list (list bool * bool)) (s : mstate) : Prop := mkMInv {
  m_futs : forall c fs, nth_error (mfuts s) c = Some fs ->
           exists vs dup, nth_error progs c = Some (vs, dup) /\ length fs = length vs /\
             (forall i b, nth_error fs i = Some (FReady b) -> nth_error vs i = Some b) /\
             (forall i, nth_error fs i <> Some FBroken);
  m_pend : forall t, In t (mpend s) ->
           exists vs dup, nth_error progs (mc t) = Some (vs, dup) /\ nth_error vs (mi t) = Some (mv t);
  m_res : forall c r, nth_error (mresults s) c = Some r ->
          match r with MRunning => True | MRet v => client_spec progs c v | MThrown => False end
}.

Lemma MInv_init : forall progs, MInv progs (minit progs).
Proof.
  intros. constructor; unfold minit; simpl.
  - intros c fs H. rewrite nth_error_map in H. destruct (nth_error progs c) as [[vs dup] |] eqn:E; try discriminate.
    simpl in H. inversion H; subst. exists vs, dup. split; auto. split; [apply repeat_length |]. split.
    + intros i b X. apply nth_error_repeat_inv in X. destruct X; discriminate.
    + intros i X. apply nth_error_repeat_inv in X. destruct X; discriminate.
  - intros t [].
  - intros c r H. rewrite nth_error_map in H. destruct (nth_error progs c); simpl in H; try discriminate.
    inversion H; subst. exact I.
Qed.

Lemma MInv_step : forall progs l s s', MInv progs s -> mstep false progs l s = Some s' -> MInv progs s'.
Proof.
  intros progs l s s' [F P R] H. destruct l as [c | j | c]; simpl in H.
  - destruct (nth_error progs c) as [[vs dup] |] eqn:EP; try discriminate.
    destruct (nth_error (mposted s) c) as [k |]; try discriminate.
    destruct (nth_error (mresults s) c) as [[] |]; try discriminate.
    destruct (nth_error vs k) as [v |] eqn:EV; try discriminate.
    inversion H; subst s'; clear H. constructor; simpl; auto.
    intros t Ht. apply in_app_or in Ht. destruct Ht as [Ht | [Ht | []]]; auto.
    subst t. simpl. exists vs, dup. auto.
  - destruct (nth_error (mpend s) j) as [t |] eqn:ET; try discriminate.
    inversion H; subst s'; clear H.
    destruct (P t (nth_error_In _ _ ET)) as [vs [dup [T1 T2]]].
    constructor; simpl; auto.
    + intros c fs H. rewrite nth_error_upd in H. destruct (mc t =? c) eqn:E.
      * apply Nat.eqb_eq in E. subst c.
        destruct (nth_error (mfuts s) (mc t)) as [fs0 |] eqn:E0; simpl in H; try discriminate.
        inversion H; subst fs; clear H.
        destruct (F _ _ E0) as [vs' [dup' [A [B [C D]]]]].
        rewrite T1 in A. inversion A; subst vs' dup'.
        exists vs, dup. split; auto. split; [rewrite upd_length; auto |]. split.
        -- intros i b X. rewrite nth_error_upd in X. destruct (mi t =? i) eqn:E1.
           ++ apply Nat.eqb_eq in E1. subst i. destruct (nth_error fs0 (mi t)); simpl in X; try discriminate.
              inversion X; subst. exact T2.
           ++ apply C; auto.
        -- intros i X. rewrite nth_error_upd in X. destruct (mi t =? i) eqn:E1.
           ++ destruct (nth_error fs0 i); simpl in X; discriminate.
           ++ revert X. apply D.
      * apply F; auto.
    + intros t' Ht'. apply P. eapply in_remove_nth; eauto.
  - destruct (nth_error progs c) as [[vs dup] |] eqn:EP; try discriminate.
    destruct (nth_error (mposted s) c) as [k |]; try discriminate.
    destruct (nth_error (mresults s) c) as [[] |]; try discriminate.
    destruct (nth_error (mfuts s) c) as [fs |] eqn:EF; try discriminate.
    destruct ((k =? length vs) && all_ready fs); try discriminate.
    destruct (F _ _ EF) as [vs' [dup' [A [B [C D]]]]]. rewrite EP in A. inversion A; subst vs' dup'.
    destruct (scan 0 fs dup) as [v | |] eqn:SC; try discriminate.
    + assert (SP : client_spec progs c v).
      { exists vs, dup. split; auto. unfold seq_verdict.
        eapply (scan_correct fs (mk_tasks 0 0 vs) 0 dup v); eauto.
        - now rewrite mk_tasks_length.
        - intros j0 u X. apply C in X. eexists. split; [apply mk_tasks_nth_some; eauto | reflexivity]. }
      assert (G : MInv progs (mkMS (mpend s) (mfuts s) (mposted s) (upd c (fun _ => MRet v) (mresults s)))).
      { constructor; simpl; auto. intros c' r X. rewrite nth_error_upd in X. destruct (c =? c') eqn:E.
        - apply Nat.eqb_eq in E. subst c'. destruct (nth_error (mresults s) c); simpl in X; try discriminate.
          inversion X; subst. exact SP.
        - apply R; auto. }
      destruct v; inversion H; subst; exact G.
    + exfalso. destruct (scan_throw_broken _ _ _ SC) as [j0 X]. revert X. apply D.
Qed.

Lemma MInv_run : forall progs sched s, MInv progs s -> MInv progs (mrun false progs sched s).
Proof.
  unfold mrun. induction sched; simpl; intros; auto. apply IHsched.
  destruct (mstep false progs a s) eqn:E; auto. eapply MInv_step; eauto.
Qed.

(** every client that has returned got the sequential verdict of ITS OWN payloads - for any number of clients, any
    payload lists of the others, any interleaving of posting, execution and returns; and no client ever throws *)
Lemma multi_client_verdict_lemma : forall progs sched c r,
  nth_error (mresults (mrun false progs sched (minit progs))) c = Some r ->
  match r with MRunning => True | MRet v => client_spec progs c v | MThrown => False end.
Proof. intros. eapply m_res; eauto. apply MInv_run. apply MInv_init. Qed.

(** if clear() restarted the pool: client 1's invalid PopData destroys client 0's two queued checks *)
Definition restart_witness_progs : list (list bool * bool) := [([true; true], false); ([false], false)].
Definition restart_witness_sched : list mlabel :=
  [MLPost 0; MLPost 0; MLPost 1; MLRun 2; MLReturn 1; MLReturn 0].

Lemma clear_restarts_pool_refuted_lemma :
  let s := mrun true restart_witness_progs restart_witness_sched (minit restart_witness_progs) in
  mresults s = [MThrown; MRet (VInvalid 0)] /\
  seq_verdict (mk_tasks 0 0 [true; true]) false = VValid.
Proof. vm_compute. auto. Qed.

Example same_schedule_current_code :
  mresults (mrun false restart_witness_progs (restart_witness_sched ++ [MLRun 0; MLRun 0; MLReturn 0])
                 (minit restart_witness_progs)) = [MRet VValid; MRet (VInvalid 0)].
Proof. vm_compute. reflexivity. Qed.
