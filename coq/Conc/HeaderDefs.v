(** C17 — the byte string that is hashed: VbkBlock::toRaw (src/pop/entities/vbkblock.cpp:84-94) and what
    progPowHashImpl reads back out of those 65 bytes (src/pop/crypto/progpow/progpow.cpp:119-145, 547-551, 712-720;
    include/veriblock/pop/crypto/progpow.hpp:58-65).  Executable model, no proofs.

    Numeric fields are mathematical integers; [le n z] are the n low-order bytes of z in two's complement
    (WriteStream::writeBE<T>(v, n) writes exactly those, most significant first).  Hash-typed fields
    (uint96, keystone_t = 9 bytes, uint128) are byte lists. *)
From Coq Require Import List ZArith.
Import ListNotations.
Local Open Scope Z_scope.

Fixpoint le (n : nat) (z : Z) : list Z :=
  match n with O => [] | S m => (z mod 256) :: le m (z / 256) end.
Definition be (n : nat) (z : Z) : list Z := rev (le n z).

Fixpoint unle (l : list Z) : Z := match l with [] => 0 | b :: r => b + 256 * unle r end.
Definition unbe (l : list Z) : Z := unle (rev l).

Record vhdr := mkVhdr {
  h_height : Z;      (* int32_t  *)
  h_version : Z;     (* int16_t  *)
  h_prev : list Z;   (* uint96   previousBlock          12 bytes *)
  h_ks1 : list Z;    (* keystone_t previousKeystone       9 bytes *)
  h_ks2 : list Z;    (* keystone_t secondPreviousKeystone 9 bytes *)
  h_merkle : list Z; (* uint128  merkleRoot             16 bytes *)
  h_ts : Z;          (* uint32_t, written as int32_t *)
  h_diff : Z;        (* int32_t  *)
  h_nonce : Z        (* uint64_t, only 5 bytes are written *)
}.

(** VbkBlock::toRaw *)
Definition hdr_raw (h : vhdr) : list Z :=
  be 4 (h_height h) ++ be 2 (h_version h) ++ h_prev h ++ h_ks1 h ++ h_ks2 h ++ h_merkle h ++
  be 4 (h_ts h) ++ be 4 (h_diff h) ++ be 5 (h_nonce h).

Definition is_byte (b : Z) : bool := (0 <=? b) && (b <? 256).
Definition bytes_n (n : nat) (l : list Z) : bool := Nat.eqb (length l) n && forallb is_byte l.

(** the value ranges of the C++ field types *)
Definition hdr_wf (h : vhdr) : bool :=
  (-2147483648 <=? h_height h) && (h_height h <? 2147483648) &&
  (-32768 <=? h_version h) && (h_version h <? 32768) &&
  bytes_n 12 (h_prev h) && bytes_n 9 (h_ks1 h) && bytes_n 9 (h_ks2 h) && bytes_n 16 (h_merkle h) &&
  (0 <=? h_ts h) && (h_ts h <? 4294967296) &&
  (-2147483648 <=? h_diff h) && (h_diff h <? 2147483648) &&
  (0 <=? h_nonce h) && (h_nonce h <? 18446744073709551616).

(** the nonce additionally fits the 5 bytes that are serialised *)
Definition nonce40 (h : vhdr) : bool := (0 <=? h_nonce h) && (h_nonce h <? 1099511627776).

(** getVbkBlockHeight: `int blockHeight` accumulated from the first four bytes (two's complement int32),
    returned as uint64_t and passed on as int64_t: the sign survives *)
Definition to_i32 (u : Z) : Z := if u <? 2147483648 then u else u - 4294967296.
Definition raw_height (raw : list Z) : Z := to_i32 (unbe (firstn 4 raw)).

(** ethashGetEpoch(int64_t height) = (uint32_t)(height / 8000) + 323U  (C++ division truncates towards zero),
    stored in a uint64_t *)
Definition epoch_length : Z := 8000.
Definition epoch_offset : Z := 323.
Definition raw_epoch (raw : list Z) : Z :=
  (((Z.quot (raw_height raw) epoch_length) mod 4294967296) + epoch_offset) mod 4294967296.

(** getVbkBlockNonce & 0xFFFFFFFFFF: the last five bytes; getVbkHeaderHash hashes the first 60 *)
Definition raw_nonce (raw : list Z) : Z := unbe (skipn 60 raw).
Definition raw_prefix (raw : list Z) : list Z := firstn 60 raw.

(** everything the vProgPoW kernel is given about a header *)
Definition kernel_inputs (raw : list Z) : Z * Z * list Z := (raw_height raw, raw_nonce raw, raw_prefix raw).
