(** C16 — several callers sharing one validator (PopContext::check from block validation and from the mempool at the
    same time).  The pool is abstracted to the bag of posted, not yet executed tasks (any worker may take any of
    them: this over-approximates the per-worker FIFO queues with stealing of Conc/ValidatorDefs.v); every task is
    tagged with its client and the index of the payload in that client's PopData.  A client returns after ALL its
    futures are ready (the wait loop), with the scan of its own futures.
    [restart = false] is the code as it is: PopValidator::clear(), called when an invalid payload was found, is a
    no-op.  [restart = true] documents the variant in which clear() tears the pool down and re-creates it
    (stop(); start()): the queues die with every task ANOTHER client still has in them, whose futures become
    broken promises. *)
From Coq Require Import List Arith Bool.
From VB Require Import Conc.ValidatorDefs.
Import ListNotations.

Record mtask := mkMT { mc : nat; mi : nat; mv : bool }.

Inductive mresult := MRunning | MRet (v : verdict) | MThrown.

Record mstate := mkMS {
  mpend : list mtask;            (* posted, not yet executed *)
  mfuts : list (list fut);       (* per client: results[] *)
  mposted : list nat;            (* per client: number of addCheck calls done *)
  mresults : list mresult        (* per client: outcome of its checkPopData *)
}.

Inductive mlabel := MLPost (c : nat) | MLRun (j : nat) | MLReturn (c : nat).

Fixpoint remove_nth {A} (j : nat) (l : list A) : list A :=
  match l, j with
  | [], _ => []
  | _ :: r, O => r
  | x :: r, S k => x :: remove_nth k r
  end.

Definition all_ready (fs : list fut) : bool :=
  forallb (fun f => match f with FPending => false | _ => true end) fs.

Definition break_tasks (ts : list mtask) (futs : list (list fut)) : list (list fut) :=
  fold_left (fun fu t => upd (mc t) (upd (mi t) (fun _ => FBroken)) fu) ts futs.

Definition mstep (restart : bool) (progs : list (list bool * bool)) (l : mlabel) (s : mstate) : option mstate :=
  match l with
  | MLPost c =>
    match nth_error progs c, nth_error (mposted s) c, nth_error (mresults s) c with
    | Some (vs, _), Some k, Some MRunning =>
      match nth_error vs k with
      | Some v => Some (mkMS (mpend s ++ [mkMT c k v]) (mfuts s) (upd c S (mposted s)) (mresults s))
      | None => None
      end
    | _, _, _ => None
    end
  | MLRun j =>
    match nth_error (mpend s) j with
    | Some t => Some (mkMS (remove_nth j (mpend s))
                           (upd (mc t) (upd (mi t) (fun _ => FReady (mv t))) (mfuts s))
                           (mposted s) (mresults s))
    | None => None
    end
  | MLReturn c =>
    match nth_error progs c, nth_error (mposted s) c, nth_error (mresults s) c, nth_error (mfuts s) c with
    | Some (vs, dup), Some k, Some MRunning, Some fs =>
      if (k =? length vs) && all_ready fs then
        match scan 0 fs dup with
        | SVerdict v =>
          let res := upd c (fun _ => MRet v) (mresults s) in
          match v, restart with
          | VInvalid _, true =>      (* validator.clear() = stop(); start(): every queued task is destroyed *)
            Some (mkMS [] (break_tasks (mpend s) (mfuts s)) (mposted s) res)
          | _, _ => Some (mkMS (mpend s) (mfuts s) (mposted s) res)
          end
        | SThrow => Some (mkMS (mpend s) (mfuts s) (mposted s) (upd c (fun _ => MThrown) (mresults s)))
        | SBlocked => None
        end
      else None
    | _, _, _, _ => None
    end
  end.

Definition mrun (restart : bool) (progs : list (list bool * bool)) (sched : list mlabel) (s : mstate) : mstate :=
  fold_left (fun s l => match mstep restart progs l s with Some s' => s' | None => s end) sched s.

Definition minit (progs : list (list bool * bool)) : mstate :=
  mkMS [] (map (fun p => repeat FPending (length (fst p))) progs)
       (map (fun _ => O) progs) (map (fun _ => MRunning) progs).
