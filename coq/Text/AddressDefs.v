(** Executable model of src/pop/entities/address.cpp: calculateChecksum,
    Address::fromPublicKey, isDerivedFromPublicKey, fromString, toString,
    decodeNumber and the substr helpers. sha256 is a Section variable.
    std::string::substr(pos, n) with pos <= size is [firstn n (skipn pos s)];
    every substr of the code has pos <= size (pos = 0, or pos = 25 on a string
    of length 30), so no std::out_of_range can be thrown.
    No proofs in this file. *)
From Coq Require Import ZArith List Bool.
From VB Require Import Gen.TextTables Text.TextCommon Text.Base58Defs Text.Base59Defs.
Import ListNotations.
Local Open Scope Z_scope.

(** enum class AddressType { ZERO_UNUSED = 0, STANDARD = 1, PROOF_OF_PROOF = 2, MULTISIG = 3 }
    (include/veriblock/pop/entities/address.hpp) *)
Definition ADDR_STANDARD : Z := 1.
Definition ADDR_MULTISIG : Z := 3.

Record address : Type := mk_address { addr_type : Z; addr_text : list Z }.

(** the literals [3 + 1] / [4 + 1] of calculateChecksum *)
Definition addr_checksum_len_multisig : nat := 4.
Definition addr_checksum_len_standard : nat := 5.

Fixpoint list_eqb (a b : list Z) : bool :=
  match a, b with
  | [], [] => true
  | x :: a', y :: b' => (x =? y) && list_eqb a' b'
  | _, _ => false
  end.

Definition obind {A B} (o : outcome A) (f : A -> outcome B) : outcome B :=
  match o with Ok a => f a | Invalid => Invalid | Abort => Abort end.

(** s[i] for an index that the code has already bounded by the length check *)
Definition char_at (s : list Z) (i : Z) : Z := nth (Z.to_nat i) s 0.

Section WithSha.
  Variable sha256 : list Z -> list Z.

  (** calculateChecksum(data, multisig): [Abort] iff EncodeBase58's assert fires *)
  Definition calculate_checksum (data : list Z) (multisig : bool) : outcome (list Z) :=
    obind (b58_encode (sha256 data)) (fun checksum =>
      Ok (firstn (if multisig then addr_checksum_len_multisig
                  else addr_checksum_len_standard) checksum)).

  (** Address::fromPublicKey *)
  Definition addr_from_public_key (pk : list Z) : outcome address :=
    obind (b58_encode (sha256 pk)) (fun enc =>
      let data := addr_starting_char
                  :: firstn (Z.to_nat addr_multisig_address_data_end) enc in
      obind (calculate_checksum data false) (fun checksum =>
        Ok (mk_address ADDR_STANDARD (data ++ checksum)))).

  (** Address::toString *)
  Definition addr_to_string (a : address) : list Z := addr_text a.

  (** addressChecksum(address) *)
  Definition address_checksum (a : address) : outcome (list Z) :=
    calculate_checksum (addr_to_string a) (addr_type a =? ADDR_MULTISIG).

  (** Address::isDerivedFromPublicKey; operator!= compares m_Address only *)
  Definition addr_is_derived_from_public_key (a : address) (pk : list Z) : outcome bool :=
    obind (addr_from_public_key pk) (fun expected =>
      if negb (list_eqb (addr_text a) (addr_text expected)) then Ok false
      else
        obind (address_checksum a) (fun c1 =>
          obind (address_checksum expected) (fun c2 =>
            Ok (list_eqb c1 c2)))).

  (** decodeNumber(in, num, state): DecodeBase58(in, ret); num = ret[0] + 1.
      [ret[0]] is an unchecked operator[]: if the decoded vector is EMPTY
      (DecodeBase58 of a single space character returns true with an empty
      vector) this is a read at index 0 of a vector of size 0 -> [Abort]. *)
  Definition decode_number (s : list Z) : outcome Z :=
    obind (b58_decode s) (fun ret =>
      match ret with
      | [] => Abort
      | x :: _ => Ok (x + 1)
      end).

  Definition is_base58_string (s : list Z) : outcome unit :=
    obind (b58_decode s) (fun _ => Ok tt).
  Definition is_base59_string (s : list Z) : outcome unit :=
    obind (b59_decode s) (fun _ => Ok tt).

  (** getDataPortionFromAddress / getChecksumPortionFromAddress / isMultisig
      (their VBK_ASSERT(length == VBK_ADDRESS_SIZE) is established by the
      length check of fromString before they are called) *)
  Definition addr_data_portion (s : list Z) : list Z :=
    firstn (Z.to_nat (addr_multisig_address_data_end + 1)) s.
  Definition addr_is_multisig (s : list Z) : bool :=
    char_at s (addr_size - 1) =? addr_multisig_ending_char.
  Definition addr_checksum_portion (s : list Z) (multisig : bool) : list Z :=
    let tail := skipn (Z.to_nat (addr_multisig_address_data_end + 1)) s in
    if multisig then
      firstn (Z.to_nat (addr_multisig_address_checksum_end
                        - addr_multisig_address_data_end)) tail
    else tail.

  (** Address::fromString, line by line *)
  Definition addr_from_string (input : list Z) : outcome address :=
    if negb (Z.of_nat (length input) =? addr_size) then Invalid
    else if negb (char_at input 0 =? addr_starting_char) then Invalid
    else
      let data := addr_data_portion input in
      let multisig := addr_is_multisig input in
      let checksum := addr_checksum_portion input multisig in
      obind
        (if multisig then
           obind (is_base59_string input) (fun _ =>
           obind (decode_number [char_at input addr_multisig_address_m_value]) (fun m =>
           obind (decode_number [char_at input addr_multisig_address_n_value]) (fun n =>
             if n <? addr_multisig_address_min_n_value then Invalid
             else if n <? m then Invalid
             else if (addr_multisig_address_max_n_value <? n)
                     || (addr_multisig_address_max_m_value <? m) then Invalid
             else is_base58_string (firstn (Z.to_nat (addr_size - 1)) input))))
         else is_base58_string input)
        (fun _ =>
           obind (calculate_checksum data multisig) (fun expected =>
             if negb (list_eqb expected checksum) then Invalid
             else Ok (mk_address (if multisig then ADDR_MULTISIG else ADDR_STANDARD)
                                 input))).
End WithSha.
