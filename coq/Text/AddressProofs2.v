(** Address, part 2: the multisig branch of Address::fromString and absence of
    Abort. Uses the Base59 lemmas of Text/Base59Proofs*.v (qualified names):
    b59_decode_rejects and b59_decode_no_abort.
    - decodeNumber on one character, swept over all 256 bytes: it is [Abort]
      (ret[0] on an EMPTY vector) exactly for the six space characters;
    - fromString never reaches that read, nor any assert, for any byte string;
    - what an accepted MULTISIG address guarantees (m, n ranges). *)
From Coq Require Import ZArith List Bool Lia.
From VB Require Import Gen.TextTables Text.TextCommon Text.Base58Defs
  Text.Base58Proofs Text.Base58Proofs3 Text.Base58Proofs4 Text.AddressDefs Text.AddressProofs.
From VB Require Text.Base59Defs Text.Base59Proofs Text.Base59Proofs2.
Import ListNotations.
Local Open Scope Z_scope.
Ltac Zify.zify_post_hook ::= Z.div_mod_to_equations.

(** ------------------------------------------------------------ decodeNumber *)

Definition outcome_Z_eqb (a b : outcome Z) : bool :=
  match a, b with
  | Ok x, Ok y => x =? y
  | Invalid, Invalid => true
  | Abort, Abort => true
  | _, _ => false
  end.

Lemma outcome_Z_eqb_eq a b : outcome_Z_eqb a b = true -> a = b.
Proof.
  destruct a, b; cbn [outcome_Z_eqb]; intros H; try discriminate; try reflexivity.
  apply Z.eqb_eq in H. subst. reflexivity.
Qed.

(** decodeNumber(std::string(1, c)): NUL -> invalid (ValidAsCString); a space ->
    DecodeBase58 succeeds with an EMPTY vector and [ret[0]] reads index 0 of it
    (Abort); a non-alphabet character -> invalid; a digit d -> d + 1 *)
Definition decode_number_expected (c : Z) : outcome Z :=
  if c =? 0 then Invalid
  else if is_space c then Abort
  else let d := lookup b58_map c in if d =? -1 then Invalid else Ok (d + 1).

Lemma decode_number_table_all :
  forallb (fun c => outcome_Z_eqb (decode_number [c]) (decode_number_expected c)) (zrange 0 256) = true.
Proof. vm_compute. reflexivity. Qed.

Lemma decode_number_char c : is_byte c -> decode_number [c] = decode_number_expected c.
Proof.
  intros H. pose proof decode_number_table_all as A. rewrite forallb_forall in A.
  apply outcome_Z_eqb_eq. apply A. apply byte_in_zrange. exact H.
Qed.

(** the Base59 alphabet contains neither NUL nor a space *)
Lemma b59_alphabet_no_space_nul_all :
  forallb (fun c => negb (is_space c) && negb (c =? 0)) b59_alphabet = true.
Proof. vm_compute. reflexivity. Qed.

Lemma decode_number_b59_char c : is_byte c -> In c b59_alphabet -> decode_number [c] <> Abort.
Proof.
  intros Hb Hin. rewrite (decode_number_char c Hb). unfold decode_number_expected.
  pose proof b59_alphabet_no_space_nul_all as A. rewrite forallb_forall in A.
  specialize (A c Hin). apply andb_true_iff in A. destruct A as [A1 A2].
  apply negb_true_iff in A1, A2. rewrite A1, A2. cbv zeta.
  destruct (lookup b58_map c =? -1); discriminate.
Qed.

(** ------------------------------------------------------------ helpers *)

Lemma obind_abort {A B} (o : outcome A) (f : A -> outcome B) :
  obind o f = Abort -> o = Abort \/ exists a, o = Ok a /\ f a = Abort.
Proof. destruct o as [a| |]; cbn [obind]; intros H; [right; exists a; split; [reflexivity|exact H]|discriminate|left; reflexivity]. Qed.

Lemma obind_ok {A B} (o : outcome A) (f : A -> outcome B) b :
  obind o f = Ok b -> exists a, o = Ok a /\ f a = Ok b.
Proof. destruct o as [a| |]; cbn [obind]; intros H; [exists a; split; [reflexivity|exact H]|discriminate|discriminate]. Qed.

Lemma char_at_byte s i : bytes s -> (Z.to_nat i < length s)%nat -> is_byte (char_at s i) /\ In (char_at s i) s.
Proof.
  intros Hb Hi. unfold char_at. assert (Hin : In (nth (Z.to_nat i) s 0) s) by (apply nth_In; exact Hi).
  split; [|exact Hin]. unfold bytes in Hb. rewrite Forall_forall in Hb. apply Hb. exact Hin.
Qed.

Lemma b59_ok_chars s w : bytes s -> Base59Defs.b59_decode s = Ok w -> forall c, In c s -> In c b59_alphabet.
Proof.
  intros Hb E c Hc. destruct (in_dec Z.eq_dec c b59_alphabet) as [Hin|Hn]; [exact Hin|exfalso].
  assert (R : Base59Defs.b59_decode s = Invalid).
  { apply Base59Proofs.b59_decode_rejects; [exact Hb|]. exists c. split; assumption. }
  rewrite R in E. discriminate.
Qed.

Lemma bytes_firstn n s : bytes s -> bytes (firstn n s).
Proof.
  intros H. unfold bytes in *. rewrite <- (firstn_skipn n s) in H. apply Forall_app in H. apply H.
Qed.

Section WithSha.
  Variable sha256 : list Z -> list Z.
  Hypothesis sha256_ok : forall x, length (sha256 x) = 32%nat /\ bytes (sha256 x).

  (** NO ABORT: Address::fromString reaches neither an assert nor the
      unchecked [ret[0]] of decodeNumber, for any byte string *)
  Theorem addr_from_string_never_aborts s : bytes s -> addr_from_string sha256 s <> Abort.
  Proof.
    intros Hb H. unfold addr_from_string in H. cbv zeta in H.
    destruct (Z.eqb_spec (Z.of_nat (length s)) addr_size) as [EL|]; [|discriminate]. cbn [negb] in H.
    destruct (char_at s 0 =? addr_starting_char); [|discriminate]. cbn [negb] in H.
    assert (L30 : length s = 30%nat) by (change addr_size with 30 in EL; lia).
    apply obind_abort in H. destruct H as [H|[[] [_ H]]].
    - destruct (addr_is_multisig s).
      + apply obind_abort in H. destruct H as [H|[[] [E59 H]]].
        * unfold is_base59_string in H. apply obind_abort in H. destruct H as [H|[w [_ H]]]; [|discriminate].
          exact (Base59Proofs2.b59_decode_no_abort s Hb H).
        * unfold is_base59_string in E59. apply obind_ok in E59. destruct E59 as [w [E59 _]].
          pose proof (b59_ok_chars s w Hb E59) as In59.
          assert (H1 : (Z.to_nat addr_multisig_address_m_value < length s)%nat) by (rewrite L30; vm_compute; lia).
          assert (H2 : (Z.to_nat addr_multisig_address_n_value < length s)%nat) by (rewrite L30; vm_compute; lia).
          destruct (char_at_byte s _ Hb H1) as [B1 I1]. destruct (char_at_byte s _ Hb H2) as [B2 I2].
          apply obind_abort in H. destruct H as [H|[m [_ H]]].
          { exact (decode_number_b59_char _ B1 (In59 _ I1) H). }
          apply obind_abort in H. destruct H as [H|[n [_ H]]].
          { exact (decode_number_b59_char _ B2 (In59 _ I2) H). }
          destruct (n <? addr_multisig_address_min_n_value); [discriminate|].
          destruct (n <? m); [discriminate|].
          destruct ((addr_multisig_address_max_n_value <? n) || (addr_multisig_address_max_m_value <? m));
            [discriminate|].
          unfold is_base58_string in H. apply obind_abort in H. destruct H as [H|[v [_ H]]]; [|discriminate].
          exact (b58_decode_never_aborts _ (bytes_firstn _ _ Hb) H).
      + unfold is_base58_string in H. apply obind_abort in H. destruct H as [H|[v [_ H]]]; [|discriminate].
        exact (b58_decode_never_aborts _ Hb H).
    - apply obind_abort in H.
      destruct (calculate_checksum_ok sha256 sha256_ok (addr_data_portion s) (addr_is_multisig s)) as [ck [C _]].
      rewrite C in H. destruct H as [H|[ck' [_ H]]]; [discriminate|].
      destruct (negb (list_eqb ck' (addr_checksum_portion s (addr_is_multisig s)))); discriminate.
  Qed.

  (** what an accepted MULTISIG address guarantees *)
  Theorem addr_multisig_sound s a :
    bytes s -> addr_from_string sha256 s = Ok a -> addr_is_multisig s = true ->
    let m := lookup b58_map (char_at s addr_multisig_address_m_value) + 1 in
    let n := lookup b58_map (char_at s addr_multisig_address_n_value) + 1 in
    addr_type a = ADDR_MULTISIG
    /\ 1 <= m <= n /\ addr_multisig_address_min_n_value <= n <= addr_multisig_address_max_n_value
    /\ (forall c, In c s -> In c b59_alphabet)
    /\ (exists v, b58_decode (firstn (Z.to_nat (addr_size - 1)) s) = Ok v).
  Proof.
    intros Hb H Hms. cbv zeta.
    destruct (addr_from_string_sound sha256 s a H) as [_ [EL [_ [Ety _]]]].
    rewrite Hms in Ety. split; [exact Ety|].
    assert (L30 : length s = 30%nat) by (change addr_size with 30 in EL; lia).
    unfold addr_from_string in H. cbv zeta in H.
    destruct (negb (Z.of_nat (length s) =? addr_size)); [discriminate|].
    destruct (negb (char_at s 0 =? addr_starting_char)); [discriminate|].
    rewrite Hms in H. apply obind_ok in H. destruct H as [[] [H _]].
    apply obind_ok in H. destruct H as [[] [E59 H]].
    unfold is_base59_string in E59. apply obind_ok in E59. destruct E59 as [w [E59 _]].
    pose proof (b59_ok_chars s w Hb E59) as In59.
    assert (H1 : (Z.to_nat addr_multisig_address_m_value < length s)%nat) by (rewrite L30; vm_compute; lia).
    assert (H2 : (Z.to_nat addr_multisig_address_n_value < length s)%nat) by (rewrite L30; vm_compute; lia).
    destruct (char_at_byte s _ Hb H1) as [B1 _]. destruct (char_at_byte s _ Hb H2) as [B2 _].
    apply obind_ok in H. destruct H as [m [Em H]].
    apply obind_ok in H. destruct H as [n [En H]].
    rewrite (decode_number_char _ B1) in Em. rewrite (decode_number_char _ B2) in En.
    unfold decode_number_expected in Em, En. cbv zeta in Em, En.
    set (c1 := char_at s addr_multisig_address_m_value) in *.
    set (c2 := char_at s addr_multisig_address_n_value) in *.
    destruct (c1 =? 0); [discriminate|]. destruct (is_space c1); [discriminate|].
    destruct (Z.eqb_spec (lookup b58_map c1) (-1)) as [|N1]; [discriminate|].
    destruct (c2 =? 0); [discriminate|]. destruct (is_space c2); [discriminate|].
    destruct (Z.eqb_spec (lookup b58_map c2) (-1)) as [|N2]; [discriminate|].
    inversion Em; subst m. inversion En; subst n. clear Em En.
    destruct (b58_map_inv c1 _ B1 eq_refl N1) as [R1 _].
    destruct (Z.ltb_spec (lookup b58_map c2 + 1) addr_multisig_address_min_n_value); [discriminate|].
    destruct (Z.ltb_spec (lookup b58_map c2 + 1) (lookup b58_map c1 + 1)); [discriminate|].
    destruct (Z.ltb_spec addr_multisig_address_max_n_value (lookup b58_map c2 + 1));
      [cbn [orb] in H; discriminate|].
    destruct (Z.ltb_spec addr_multisig_address_max_m_value (lookup b58_map c1 + 1));
      [cbn [orb] in H; discriminate|].
    cbn [orb] in H. unfold is_base58_string in H. apply obind_ok in H. destruct H as [v [Ev _]].
    split; [lia|]. split; [lia|]. split; [exact In59|]. exists v. exact Ev.
  Qed.
End WithSha.

(** concrete multisig address of test/pop/entities/address_test.cpp: the
    structural checks (everything except the sha-dependent checksum) hold *)
Example multisig_demo :
  let s := [86; 50; 51; 67; 117; 121; 99; 51; 52; 117; 53; 114; 100; 107; 57; 112;
            115; 74; 56; 54; 97; 70; 99; 119; 104; 66; 49; 109; 100; 48] in
  addr_is_multisig s = true
  /\ decode_number [char_at s addr_multisig_address_m_value] = Ok 2
  /\ decode_number [char_at s addr_multisig_address_n_value] = Ok 3.
Proof. vm_compute. repeat split. Qed.
