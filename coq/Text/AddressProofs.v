(** Lemmas about the address model (AddressDefs). sha256 is a Section variable;
    the only thing assumed about it is the explicit premise
      forall x, length (sha256 x) = 32 /\ bytes (sha256 x). *)
From Coq Require Import ZArith List Bool Lia.
From VB Require Import Gen.TextTables Text.TextCommon Text.Base58Defs
  Text.Base58Proofs Text.Base58Proofs3 Text.AddressDefs.
Import ListNotations.
Local Open Scope Z_scope.
Ltac Zify.zify_post_hook ::= Z.div_mod_to_equations.

(** ------------------------------------------------------------ helpers *)

Lemma list_eqb_refl l : list_eqb l l = true.
Proof. induction l as [|x l IH]; [reflexivity|]. cbn [list_eqb]. rewrite Z.eqb_refl, IH. reflexivity. Qed.

Lemma list_eqb_eq a : forall b, list_eqb a b = true -> a = b.
Proof.
  induction a as [|x a IH]; intros [|y b] H; try reflexivity; try discriminate.
  cbn [list_eqb] in H. apply andb_true_iff in H. destruct H as [H1 H2].
  apply Z.eqb_eq in H1. subst. f_equal. apply IH. exact H2.
Qed.

Lemma firstn_app_exact {A} n (l1 l2 : list A) : length l1 = n -> firstn n (l1 ++ l2) = l1.
Proof.
  intros <-. rewrite firstn_app, Nat.sub_diag, firstn_all. cbn [firstn]. apply app_nil_r.
Qed.

Lemma skipn_app_exact {A} n (l1 l2 : list A) : length l1 = n -> skipn n (l1 ++ l2) = l2.
Proof.
  intros <-. rewrite skipn_app, Nat.sub_diag, skipn_all. reflexivity.
Qed.

(** table facts used by fromString *)
Lemma starting_char_in_alphabet : In addr_starting_char b58_alphabet.
Proof. apply in_alphabet_In. vm_compute. reflexivity. Qed.

Lemma multisig_ending_char_not_in_alphabet : ~ In addr_multisig_ending_char b58_alphabet.
Proof. intros H. apply in_alphabet_In in H. vm_compute in H. discriminate. Qed.

Lemma addr_layout :
  addr_size = 1 + addr_multisig_address_data_end + Z.of_nat addr_checksum_len_standard
  /\ Z.to_nat addr_size = 30%nat /\ Z.to_nat addr_multisig_address_data_end = 24%nat.
Proof. vm_compute. repeat split. Qed.

Section WithSha.
  Variable sha256 : list Z -> list Z.
  Hypothesis sha256_ok : forall x, length (sha256 x) = 32%nat /\ bytes (sha256 x).

  (** EncodeBase58 of a hash: never aborts, at least 32 alphabet characters *)
  Lemma encode_hash x : exists enc,
    b58_encode (sha256 x) = Ok enc /\ (32 <= length enc)%nat
    /\ Forall (fun c => In c b58_alphabet) enc.
  Proof.
    destruct (sha256_ok x) as [L B].
    destruct (b58_encode_never_aborts _ B) as [enc E]. exists enc.
    split; [exact E|]. split.
    - rewrite <- L. apply (b58_encode_length _ _ B E).
    - apply (b58_encode_alphabet _ _ B E).
  Qed.

  Lemma calculate_checksum_ok data multisig : exists ck,
    calculate_checksum sha256 data multisig = Ok ck
    /\ length ck = (if multisig then addr_checksum_len_multisig else addr_checksum_len_standard)
    /\ Forall (fun c => In c b58_alphabet) ck.
  Proof.
    destruct (encode_hash data) as [enc [E [L A]]].
    unfold calculate_checksum. rewrite E. cbn [obind]. eexists. split; [reflexivity|]. split.
    - apply firstn_length_le. destruct multisig; unfold addr_checksum_len_multisig, addr_checksum_len_standard; lia.
    - apply Forall_forall. intros c Hc. rewrite Forall_forall in A. apply A.
      rewrite <- (firstn_skipn (if multisig then addr_checksum_len_multisig else addr_checksum_len_standard) enc).
      apply in_or_app. left. exact Hc.
  Qed.

  (** shape of a derived address: 'V' ++ 24 characters ++ 5 checksum characters *)
  Lemma addr_from_public_key_shape k a :
    addr_from_public_key sha256 k = Ok a ->
    exists data ck,
      a = mk_address ADDR_STANDARD (data ++ ck)
      /\ length data = 25%nat /\ length ck = 5%nat
      /\ hd 0 data = addr_starting_char
      /\ Forall (fun c => In c b58_alphabet) (data ++ ck)
      /\ calculate_checksum sha256 data false = Ok ck.
  Proof.
    unfold addr_from_public_key. intros H.
    destruct (encode_hash k) as [enc [E [L A]]]. rewrite E in H. cbn [obind] in H.
    set (data := addr_starting_char :: firstn (Z.to_nat addr_multisig_address_data_end) enc) in *.
    destruct (calculate_checksum_ok data false) as [ck [C [CL CA]]].
    rewrite C in H. cbn [obind] in H. inversion H; subst a. clear H.
    exists data, ck. split; [reflexivity|].
    assert (DL : length data = 25%nat).
    { unfold data. cbn [length]. rewrite firstn_length_le; [reflexivity|].
      change (Z.to_nat addr_multisig_address_data_end) with 24%nat. lia. }
    split; [exact DL|]. split; [exact CL|]. split; [reflexivity|]. split; [|exact C].
    apply Forall_app. split; [|exact CA]. unfold data. constructor; [exact starting_char_in_alphabet|].
    apply Forall_forall. intros c Hc. rewrite Forall_forall in A. apply A.
    rewrite <- (firstn_skipn (Z.to_nat addr_multisig_address_data_end) enc).
    apply in_or_app. left. exact Hc.
  Qed.

  (** fromString accepts every text 'V' ++ 24 alphabet chars ++ its own 5-char checksum *)
  Lemma addr_from_string_standard data ck :
    length data = 25%nat -> length ck = 5%nat -> hd 0 data = addr_starting_char ->
    Forall (fun c => In c b58_alphabet) (data ++ ck) ->
    calculate_checksum sha256 data false = Ok ck ->
    addr_from_string sha256 (data ++ ck) = Ok (mk_address ADDR_STANDARD (data ++ ck)).
  Proof.
    intros DL CL Hhd HA HC. set (text := data ++ ck).
    assert (TL : length text = 30%nat) by (unfold text; rewrite app_length; lia).
    unfold addr_from_string. cbv zeta.
    assert (E1 : (Z.of_nat (length text) =? addr_size) = true) by (rewrite TL; reflexivity).
    rewrite E1. cbn [negb].
    assert (E2 : (char_at text 0 =? addr_starting_char) = true).
    { unfold char_at, text. change (Z.to_nat 0) with 0%nat.
      destruct data as [|d0 data']; [discriminate DL|]. cbn [app nth]. cbn [hd] in Hhd.
      rewrite Hhd. apply Z.eqb_refl. }
    rewrite E2. cbn [negb].
    assert (E3 : addr_is_multisig text = false).
    { unfold addr_is_multisig, char_at. apply Z.eqb_neq. intros E.
      apply multisig_ending_char_not_in_alphabet. rewrite <- E.
      rewrite Forall_forall in HA. apply HA. apply nth_In. fold text. rewrite TL.
      change (Z.to_nat (addr_size - 1)) with 29%nat. lia. }
    rewrite E3.
    assert (E4 : addr_data_portion text = data).
    { unfold addr_data_portion, text. apply firstn_app_exact. rewrite DL. reflexivity. }
    assert (E5 : addr_checksum_portion text false = ck).
    { unfold addr_checksum_portion, text. apply skipn_app_exact. rewrite DL. reflexivity. }
    rewrite E4, E5.
    destruct (b58_decode_accepts text HA) as [v Hv].
    unfold is_base58_string. rewrite Hv. cbn [obind].
    rewrite HC. cbn [obind]. rewrite list_eqb_refl. cbn [negb]. reflexivity.
  Qed.

  (** (e.3) a derived address always parses back to itself *)
  Theorem addr_from_public_key_valid k a :
    addr_from_public_key sha256 k = Ok a ->
    addr_from_string sha256 (addr_to_string a) = Ok a.
  Proof.
    intros H. destruct (addr_from_public_key_shape k a H) as [data [ck [-> [DL [CL [Hhd [HA HC]]]]]]].
    unfold addr_to_string. cbn [addr_text]. apply addr_from_string_standard; assumption.
  Qed.

  (** fromPublicKey never aborts (EncodeBase58's assert is unreachable) *)
  Theorem addr_from_public_key_total k : exists a, addr_from_public_key sha256 k = Ok a.
  Proof.
    unfold addr_from_public_key.
    destruct (encode_hash k) as [enc [E _]]. rewrite E. cbn [obind].
    match goal with |- context [calculate_checksum sha256 ?d false] =>
      destruct (calculate_checksum_ok d false) as [ck [C _]]; rewrite C end.
    cbn [obind]. eexists. reflexivity.
  Qed.

  (** (e.1) an address derived from a key is recognised as derived from it *)
  Theorem addr_is_derived k a :
    addr_from_public_key sha256 k = Ok a ->
    addr_is_derived_from_public_key sha256 a k = Ok true.
  Proof.
    intros H. unfold addr_is_derived_from_public_key. rewrite H. cbn [obind].
    rewrite list_eqb_refl. cbn [negb].
    unfold address_checksum.
    destruct (calculate_checksum_ok (addr_to_string a) (addr_type a =? ADDR_MULTISIG)) as [ck [C _]].
    rewrite C. cbn [obind]. rewrite list_eqb_refl. reflexivity.
  Qed.

  (** isDerivedFromPublicKey = true only for the text fromPublicKey produces *)
  Theorem addr_is_derived_sound k a :
    addr_is_derived_from_public_key sha256 a k = Ok true ->
    exists e, addr_from_public_key sha256 k = Ok e /\ addr_text a = addr_text e.
  Proof.
    unfold addr_is_derived_from_public_key. intros H.
    destruct (addr_from_public_key sha256 k) as [e| |]; try discriminate. cbn [obind] in H.
    exists e. split; [reflexivity|].
    destruct (list_eqb (addr_text a) (addr_text e)) eqn:E; [|cbn [negb] in H; discriminate].
    apply list_eqb_eq. exact E.
  Qed.

  (** what fromString guarantees about an accepted text *)
  Theorem addr_from_string_sound s a :
    addr_from_string sha256 s = Ok a ->
    addr_text a = s /\ Z.of_nat (length s) = addr_size /\ char_at s 0 = addr_starting_char
    /\ addr_type a = (if addr_is_multisig s then ADDR_MULTISIG else ADDR_STANDARD)
    /\ calculate_checksum sha256 (addr_data_portion s) (addr_is_multisig s)
       = Ok (addr_checksum_portion s (addr_is_multisig s))
    /\ (addr_is_multisig s = false -> exists v, b58_decode s = Ok v).
  Proof.
    unfold addr_from_string. cbv zeta. intros H.
    destruct (Z.eqb_spec (Z.of_nat (length s)) addr_size) as [E1|]; [|discriminate]. cbn [negb] in H.
    destruct (Z.eqb_spec (char_at s 0) addr_starting_char) as [E2|]; [|discriminate]. cbn [negb] in H.
    match type of H with obind ?X _ = _ => destruct X as [[]| |] eqn:EX; try discriminate end.
    cbn [obind] in H.
    destruct (calculate_checksum sha256 (addr_data_portion s) (addr_is_multisig s)) as [ck| |] eqn:EC;
      try discriminate.
    cbn [obind] in H.
    destruct (list_eqb ck (addr_checksum_portion s (addr_is_multisig s))) eqn:EL;
      [|cbn [negb] in H; discriminate].
    cbn [negb] in H. inversion H; subst a. clear H. cbn [addr_text addr_type].
    apply list_eqb_eq in EL. subst ck.
    repeat split; try assumption; try reflexivity.
    intros Hms. rewrite Hms in EX. unfold is_base58_string in EX.
    destruct (b58_decode s) as [v| |]; try discriminate. exists v. reflexivity.
  Qed.

  (** (e.2) fromString / toString *)
  Theorem addr_from_to_string s a :
    addr_from_string sha256 s = Ok a ->
    addr_to_string a = s /\ addr_from_string sha256 (addr_to_string a) = Ok a.
  Proof.
    intros H. destruct (addr_from_string_sound s a H) as [E _].
    unfold addr_to_string. rewrite E. split; [reflexivity|exact H].
  Qed.

  (** a STANDARD address accepted by fromString consists of base-58 alphabet
      characters only: DecodeBase58 tolerates leading/trailing spaces, but the
      starting-character test, the checksum comparison and the inner-space
      rejection leave no room for one *)
  Theorem addr_standard_chars s a :
    bytes s -> addr_from_string sha256 s = Ok a -> addr_type a = ADDR_STANDARD ->
    Forall (fun c => In c b58_alphabet) s.
  Proof.
    intros Hb H Ht. destruct (addr_from_string_sound s a H) as [_ [EL [E0 [Ety [EC Hdec]]]]].
    destruct (addr_is_multisig s) eqn:Hms; [rewrite Ety in Ht; discriminate Ht|].
    destruct (Hdec eq_refl) as [v Hv].
    pose proof (b58_decode_chars s v Hb Hv) as F.
    destruct (calculate_checksum_ok (addr_data_portion s) false) as [ck [C [CL CA]]].
    rewrite EC in C. inversion C as [Eck]. clear C.
    unfold addr_checksum_portion in Eck.
    change (Z.to_nat (addr_multisig_address_data_end + 1)) with 25%nat in Eck.
    assert (Es : s = firstn 25 s ++ ck) by (rewrite <- Eck; symmetry; apply firstn_skipn).
    apply Forall_forall. intros c Hc. rewrite Forall_forall in F.
    destruct (F c Hc) as [Hsp|Ha]; [exfalso|exact Ha].
    assert (Hnsp : forall y, In y ck -> is_space y = false).
    { intros y Hy. rewrite Forall_forall in CA. apply b58_alphabet_no_space. apply CA. exact Hy. }
    rewrite Es in Hc. apply in_app_or in Hc. destruct Hc as [Hc|Hc];
      [|rewrite (Hnsp c Hc) in Hsp; discriminate].
    destruct (in_split _ _ Hc) as [pre [post Ed]].
    assert (Hy : exists y, In y (post ++ ck) /\ is_space y = false).
    { destruct ck as [|y ck']; [discriminate CL|]. exists y. split.
      - apply in_or_app. right. left. reflexivity.
      - apply Hnsp. left. reflexivity. }
    assert (Es2 : s = pre ++ c :: (post ++ ck)).
    { rewrite Es at 1. rewrite Ed. rewrite <- app_assoc. reflexivity. }
    assert (Hv0 : is_space (char_at s 0) = false).
    { rewrite E0. apply b58_alphabet_no_space. exact starting_char_in_alphabet. }
    destruct pre as [|p0 pre'].
    - rewrite Es2 in Hv0. unfold char_at in Hv0. cbn [app nth Z.to_nat] in Hv0. congruence.
    - assert (Hx : exists x, In x (p0 :: pre') /\ is_space x = false).
      { exists p0. split; [left; reflexivity|].
        rewrite Es2 in Hv0. unfold char_at in Hv0. cbn [app nth Z.to_nat] in Hv0. exact Hv0. }
      rewrite Es2 in Hv.
      exact (b58_decode_rejects_inner_space _ c _ Hsp Hx Hy v Hv).
  Qed.
End WithSha.

(** the premise on sha256 is satisfiable; a concrete derived address parses *)
Definition sha_demo (x : list Z) : list Z := repeat 7 32.

Example sha_demo_ok : forall x, length (sha_demo x) = 32%nat /\ bytes (sha_demo x).
Proof.
  intros x. split; [reflexivity|]. unfold sha_demo. apply Forall_forall.
  intros c Hc. apply repeat_spec in Hc. subst. unfold is_byte. lia.
Qed.

Example addr_demo :
  exists a, addr_from_public_key sha_demo [1; 2; 3] = Ok a
            /\ addr_from_string sha_demo (addr_to_string a) = Ok a
            /\ length (addr_text a) = 30%nat.
Proof. eexists. split; [vm_compute; reflexivity|]. split; vm_compute; reflexivity. Qed.
