(** Base58, part 3: the outer loops, what EncodeBase58 produces, what
    DecodeBase58 does on digit text, uniqueness of canonical digit lists, and
    the ROUND TRIP for all byte strings (leading zero bytes included).
    Also: the asserts never fire (encoder: for every byte string; decoder: for
    every alphabet-only string), and every alphabet-only string is accepted. *)
From Coq Require Import ZArith List Bool Lia.
From VB Require Import Gen.TextTables Text.TextCommon Text.Base58Defs
  Text.Base58Proofs Text.Base58Proofs2.
Import ListNotations.
Local Open Scope Z_scope.
Ltac Zify.zify_post_hook ::= Z.div_mod_to_equations.

(** ------------------------------------------------------------ constants *)

Lemma enc_base_gt1 : 1 < b58_enc_base. Proof. reflexivity. Qed.
Lemma enc_mul_ge1 : 1 <= b58_enc_mul. Proof. vm_compute. discriminate. Qed.
Lemma dec_base_gt1 : 1 < b58_dec_base. Proof. reflexivity. Qed.
Lemma dec_mul_ge1 : 1 <= b58_dec_mul. Proof. vm_compute. discriminate. Qed.

Lemma bytes_digits l : bytes l <-> digits b58_enc_mul l.
Proof. unfold bytes, digits, is_byte. change b58_enc_mul with 256. tauto. Qed.

(** ------------------------------------------------------------ list helpers *)

Lemma count_drop x l : l = repeat x (count_leading x l) ++ drop_leading x l.
Proof.
  induction l as [|c l IH]; [reflexivity|].
  cbn [count_leading drop_leading]. destruct (Z.eqb_spec c x) as [->|Hne].
  - cbn [repeat app]. f_equal. exact IH.
  - reflexivity.
Qed.

Lemma drop_leading_head x l : match drop_leading x l with [] => True | c :: _ => c <> x end.
Proof.
  induction l as [|c l IH]; [exact I|].
  cbn [drop_leading]. destruct (Z.eqb_spec c x) as [->|Hne]; [exact IH|exact Hne].
Qed.

Lemma drop_leading_Forall (P : Z -> Prop) x l : Forall P l -> Forall P (drop_leading x l).
Proof.
  induction 1 as [|c l Hc Hl IH]; [constructor|].
  cbn [drop_leading]. destruct (c =? x); [exact IH|constructor; assumption].
Qed.

Lemma drop_leading_length x l : (length (drop_leading x l) <= length l)%nat.
Proof.
  induction l as [|c l IH]; [cbn; lia|].
  cbn [drop_leading]. destruct (c =? x); cbn [length]; lia.
Qed.

Lemma val_be_drop0 b l : val_be b (drop_leading 0 l) = val_be b l.
Proof.
  induction l as [|c l IH]; [reflexivity|].
  cbn [drop_leading]. destruct (Z.eqb_spec c 0) as [->|Hne]; [|reflexivity].
  rewrite IH. unfold val_be. cbn [val_be_acc]. replace (0 * b + 0) with 0 by ring. reflexivity.
Qed.

(** ------------------------------------------------------------ canonical digit lists *)

(** little-endian list without superfluous top digits *)
Definition canon_le (b : Z) (l : list Z) : Prop :=
  l = [] \/ b ^ (Z.of_nat (length l) - 1) <= val_le b l.

Lemma val_le_inj_len b : 1 < b -> forall l1 l2,
  length l1 = length l2 -> digits b l1 -> digits b l2 ->
  val_le b l1 = val_le b l2 -> l1 = l2.
Proof.
  intros Hb. induction l1 as [|x l1 IH]; intros l2 Hl D1 D2 Hv.
  - destruct l2; [reflexivity|discriminate].
  - destruct l2 as [|y l2]; [discriminate|].
    inversion D1 as [|? ? Hx D1']; subst. inversion D2 as [|? ? Hy D2']; subst.
    cbn [val_le] in Hv. cbn [length] in Hl.
    assert (E : val_le b l1 = val_le b l2 /\ x = y).
    { apply (Z.div_mod_unique b); [left; exact Hx|left; exact Hy|]. lia. }
    destruct E as [E1 E2]. subst y. f_equal. apply IH; [lia|assumption|assumption|exact E1].
Qed.

Lemma canon_unique b l1 l2 : 1 < b ->
  digits b l1 -> digits b l2 -> canon_le b l1 -> canon_le b l2 ->
  val_le b l1 = val_le b l2 -> l1 = l2.
Proof.
  intros Hb D1 D2 C1 C2 Hv.
  pose proof (val_le_bound b l1 ltac:(lia) D1) as B1.
  pose proof (val_le_bound b l2 ltac:(lia) D2) as B2.
  assert (Hl : length l1 = length l2).
  { destruct (Nat.lt_trichotomy (length l1) (length l2)) as [Hlt|[E|Hgt]]; [exfalso|exact E|exfalso].
    - destruct C2 as [->|C2]; [cbn [length] in Hlt; lia|].
      assert (b ^ Z.of_nat (length l1) <= b ^ (Z.of_nat (length l2) - 1))
        by (apply Z.pow_le_mono_r; lia). lia.
    - destruct C1 as [->|C1]; [cbn [length] in Hgt; lia|].
      assert (b ^ Z.of_nat (length l2) <= b ^ (Z.of_nat (length l1) - 1))
        by (apply Z.pow_le_mono_r; lia). lia. }
  apply (val_le_inj_len b Hb); assumption.
Qed.

(** a big-endian list with non-zero head is canonical when reversed *)
Lemma canon_le_rev b l : 1 < b -> digits b l ->
  match l with [] => True | c :: _ => c <> 0 end -> canon_le b (rev l).
Proof.
  intros Hb D H. destruct l as [|c r]; [left; reflexivity|right].
  inversion D as [|? ? Hc Dr]; subst.
  cbn [rev]. rewrite app_length, val_le_app, !rev_length. cbn [length val_le].
  replace (Z.of_nat (length r + 1) - 1) with (Z.of_nat (length r)) by lia.
  pose proof (val_le_bound b (rev r) ltac:(lia) (digits_rev b r Dr)) as B.
  assert (0 < b ^ Z.of_nat (length r)) by (apply Z.pow_pos_nonneg; lia).
  assert (b ^ Z.of_nat (length r) * 1 <= b ^ Z.of_nat (length r) * (c + b * 0))
    by (apply Z.mul_le_mono_nonneg_l; lia).
  lia.
Qed.

(** what the outer-loop invariant says about the final [firstn length buf] *)
Lemma binv_result base len buf : 1 < base -> binv base len buf ->
  let L := firstn len buf in
  length L = len /\ digits base L /\ canon_le base L /\ val_le base L = val_le base buf.
Proof.
  intros Hb [D [Z0 [Hl C]]]. cbv zeta.
  assert (E : length (firstn len buf) = len) by (apply firstn_length_le; exact Hl).
  assert (V : val_le base (firstn len buf) = val_le base buf) by (apply val_le_firstn; exact Z0).
  split; [exact E|]. split; [apply digits_firstn; exact D|]. split; [|exact V].
  destruct C as [->|C]; [left; destruct buf; reflexivity|right].
  rewrite E, V. exact C.
Qed.

Lemma binv_init base n : 1 < base -> binv base 0 (repeat 0 n).
Proof.
  intros Hb. split; [apply digits_repeat0; lia|]. split; [cbn [skipn]; apply zeros_repeat|].
  split; [lia|left; reflexivity].
Qed.

(** ------------------------------------------------------------ encoder loop *)

Lemma enc_loop_spec : forall bs len buf,
  digits b58_enc_mul bs -> binv b58_enc_base len buf ->
  (val_le b58_enc_base buf + 1) * b58_enc_mul ^ Z.of_nat (length bs)
    <= b58_enc_base ^ Z.of_nat (length buf) ->
  exists len' buf',
    enc_loop len buf bs = Ok (len', buf') /\ binv b58_enc_base len' buf'
    /\ length buf' = length buf
    /\ val_le b58_enc_base buf' = val_be_acc b58_enc_mul (val_le b58_enc_base buf) bs.
Proof.
  induction bs as [|b r IH]; intros len buf Db Inv Fit.
  - exists len, buf. cbn [enc_loop val_be_acc]. repeat split; try apply Inv; reflexivity.
  - inversion Db as [|? ? Hb Dr]; subst.
    pose proof enc_mul_ge1 as Hm. pose proof enc_base_gt1 as Hbase.
    pose proof (val_le_bound b58_enc_base buf ltac:(lia) (proj1 Inv)) as VB.
    cbn [length] in Fit. rewrite Nat2Z.inj_succ, Z.pow_succ_r in Fit by lia.
    set (V := val_le b58_enc_base buf) in *.
    set (M := b58_enc_mul ^ Z.of_nat (length r)) in *.
    set (P := b58_enc_base ^ Z.of_nat (length buf)) in *.
    assert (HM : 1 <= M) by (unfold M; pose proof (Z.pow_pos_nonneg b58_enc_mul (Z.of_nat (length r))); lia).
    assert (H1 : (V + 1) * b58_enc_mul * 1 <= (V + 1) * b58_enc_mul * M).
    { apply Z.mul_le_mono_nonneg_l; [apply Z.mul_nonneg_nonneg; lia|exact HM]. }
    assert (H2 : (V + 1) * b58_enc_mul * M <= P) by (rewrite <- Z.mul_assoc; exact Fit).
    assert (Hfit : b + b58_enc_mul * V < P) by lia.
    destruct (push_digit_spec b58_enc_mul b58_enc_base Hbase Hm b len buf ltac:(lia) Inv Hfit)
      as [len1 [buf1 [E1 [Inv1 [L1 V1]]]]].
    cbn [enc_loop]. rewrite E1.
    assert (Fit1 : (val_le b58_enc_base buf1 + 1) * M <= b58_enc_base ^ Z.of_nat (length buf1)).
    { rewrite L1, V1. fold V. fold P.
      assert ((b + b58_enc_mul * V + 1) * M <= (V + 1) * b58_enc_mul * M)
        by (apply Z.mul_le_mono_nonneg_r; lia).
      lia. }
    destruct (IH len1 buf1 Dr Inv1 Fit1) as [len2 [buf2 [E2 [Inv2 [L2 V2]]]]].
    exists len2, buf2. split; [exact E2|]. split; [exact Inv2|]. split; [lia|].
    rewrite V2, V1. cbn [val_be_acc]. f_equal. fold V. ring.
Qed.

(** ENCODER SPECIFICATION: for every byte string EncodeBase58 does not assert
    and returns  '1' x (number of leading zero bytes) ++ the alphabet
    characters of the canonical base-58 digits D of the remaining bytes *)
Theorem b58_encode_spec bs :
  bytes bs ->
  exists D,
    b58_encode bs = Ok (repeat b58_one (count_leading 0 bs) ++ map b58_char D)
    /\ digits b58_enc_base D
    /\ match D with [] => True | d :: _ => d <> 0 end
    /\ val_be b58_enc_base D = val_be b58_enc_mul (drop_leading 0 bs)
    /\ (length D <= b58_enc_size (length (drop_leading 0 bs)))%nat.
Proof.
  intros Hb. unfold b58_encode.
  set (rest := drop_leading 0 bs). set (z := count_leading 0 bs).
  assert (Dr : digits b58_enc_mul rest).
  { apply bytes_digits. apply drop_leading_Forall. exact Hb. }
  pose proof enc_base_gt1 as Hbase.
  set (S := b58_enc_size (length rest)).
  assert (Fit : (val_le b58_enc_base (repeat 0 S) + 1) * b58_enc_mul ^ Z.of_nat (length rest)
                <= b58_enc_base ^ Z.of_nat (length (repeat 0 S))).
  { rewrite (val_le_zeros _ _ (zeros_repeat S)), repeat_length.
    pose proof (b58_enc_buffer_bound (length rest)). fold S in H. lia. }
  destruct (enc_loop_spec rest 0%nat (repeat 0 S) Dr (binv_init _ S Hbase) Fit)
    as [len [buf [E [Inv [L V]]]]].
  rewrite E.
  destruct (binv_result _ len buf Hbase Inv) as [RL [RD [_ RV]]].
  exists (drop_leading 0 (rev (firstn len buf))).
  split; [reflexivity|]. split; [|split; [|split]].
  - apply drop_leading_Forall. apply digits_rev. exact RD.
  - apply drop_leading_head.
  - rewrite val_be_drop0, val_be_le, rev_involutive, RV, V.
    rewrite (val_le_zeros _ _ (zeros_repeat S)). reflexivity.
  - eapply Nat.le_trans; [apply drop_leading_length|].
    rewrite rev_length, RL. destruct Inv as [_ [_ [Hl _]]]. rewrite L, repeat_length in Hl. exact Hl.
Qed.

Corollary b58_encode_never_aborts bs : bytes bs -> exists s, b58_encode bs = Ok s.
Proof. intros H. destruct (b58_encode_spec bs H) as [D [E _]]. eexists. exact E. Qed.

(** ------------------------------------------------------------ decoder loop *)

Lemma b58_char_props d : 0 <= d < b58_dec_mul ->
  is_space (b58_char d) = false /\ b58_char d <> 0 /\ lookup b58_map (b58_char d) = d.
Proof.
  intros H. change b58_dec_mul with b58_enc_base in H.
  destruct (b58_alphabet_no_space _ (b58_char_in_alphabet d H)) as [A B].
  split; [exact A|]. split; [exact B|apply b58_map_char; exact H].
Qed.

Lemma dec_loop_spec m z : forall D len buf,
  digits b58_dec_mul D -> binv b58_dec_base len buf ->
  (val_le b58_dec_base buf + 1) * b58_dec_mul ^ Z.of_nat (length D)
    <= b58_dec_base ^ Z.of_nat (length buf) ->
  (length buf + z <= m)%nat ->
  exists len' buf',
    dec_loop m z len buf (map b58_char D) = Ok (len', buf', []) /\ binv b58_dec_base len' buf'
    /\ length buf' = length buf
    /\ val_le b58_dec_base buf' = val_be_acc b58_dec_mul (val_le b58_dec_base buf) D.
Proof.
  induction D as [|d r IH]; intros len buf Dd Inv Fit Hm.
  - exists len, buf. cbn [map dec_loop val_be_acc]. repeat split; try apply Inv; reflexivity.
  - inversion Dd as [|? ? Hd Dr]; subst.
    pose proof dec_mul_ge1 as Hmul. pose proof dec_base_gt1 as Hbase.
    destruct (b58_char_props d Hd) as [Hsp [_ Hlk]].
    pose proof (val_le_bound b58_dec_base buf ltac:(lia) (proj1 Inv)) as VB.
    cbn [length] in Fit. rewrite Nat2Z.inj_succ, Z.pow_succ_r in Fit by lia.
    set (V := val_le b58_dec_base buf) in *.
    set (M := b58_dec_mul ^ Z.of_nat (length r)) in *.
    set (P := b58_dec_base ^ Z.of_nat (length buf)) in *.
    assert (HM : 1 <= M) by (unfold M; pose proof (Z.pow_pos_nonneg b58_dec_mul (Z.of_nat (length r))); lia).
    assert (H1 : (V + 1) * b58_dec_mul * 1 <= (V + 1) * b58_dec_mul * M).
    { apply Z.mul_le_mono_nonneg_l; [apply Z.mul_nonneg_nonneg; lia|exact HM]. }
    assert (H2 : (V + 1) * b58_dec_mul * M <= P) by (rewrite <- Z.mul_assoc; exact Fit).
    assert (Hfit : d + b58_dec_mul * V < P) by lia.
    destruct (push_digit_spec b58_dec_mul b58_dec_base Hbase Hmul d len buf ltac:(lia) Inv Hfit)
      as [len1 [buf1 [E1 [Inv1 [L1 V1]]]]].
    cbn [map dec_loop]. rewrite Hsp. cbv zeta. rewrite Hlk.
    destruct (Z.eqb_spec d (-1)) as [Em|_]; [lia|].
    rewrite E1.
    assert (Hl1 : (len1 <= length buf1)%nat) by (destruct Inv1 as [_ [_ [Hl _]]]; exact Hl).
    assert (Hchk : (m <? len1 + z)%nat = false) by (apply Nat.ltb_ge; lia).
    rewrite Hchk.
    assert (Fit1 : (val_le b58_dec_base buf1 + 1) * M <= b58_dec_base ^ Z.of_nat (length buf1)).
    { rewrite L1, V1. fold V. fold P.
      assert ((d + b58_dec_mul * V + 1) * M <= (V + 1) * b58_dec_mul * M)
        by (apply Z.mul_le_mono_nonneg_r; lia).
      lia. }
    destruct (IH len1 buf1 Dr Inv1 Fit1 ltac:(lia)) as [len2 [buf2 [E2 [Inv2 [L2 V2]]]]].
    exists len2, buf2. split; [exact E2|]. split; [exact Inv2|]. split; [lia|].
    rewrite V2, V1. cbn [val_be_acc]. f_equal. fold V. ring.
Qed.

Lemma count_ones_repeat m t : forall z k,
  (k + z <= m)%nat ->
  match t with [] => True | c :: _ => c <> b58_one end ->
  count_ones m k (repeat b58_one z ++ t) = Ok ((k + z)%nat, t).
Proof.
  induction z as [|z IH]; intros k Hk Ht.
  - cbn [repeat app]. rewrite Nat.add_0_r. destruct t as [|c t]; [reflexivity|].
    cbn [count_ones]. destruct (Z.eqb_spec c b58_one); [contradiction|reflexivity].
  - cbn [repeat app count_ones]. rewrite Z.eqb_refl.
    assert (E : (m <? S k)%nat = false) by (apply Nat.ltb_ge; lia). rewrite E.
    rewrite IH by (try lia; exact Ht). f_equal. f_equal. lia.
Qed.

Lemma existsb_nul_false l : Forall (fun c => c <> 0) l -> existsb (fun c => c =? 0) l = false.
Proof.
  induction 1 as [|c l Hc _ IH]; [reflexivity|].
  cbn [existsb]. rewrite IH. apply Z.eqb_neq in Hc. rewrite Hc. reflexivity.
Qed.

Lemma map_b58_char_props D : digits b58_dec_mul D ->
  Forall (fun c => c <> 0) (map b58_char D) /\ Forall (fun c => is_space c = false) (map b58_char D).
Proof.
  induction 1 as [|d D Hd _ [IH1 IH2]]; [split; constructor|].
  destruct (b58_char_props d Hd) as [A [B _]]. cbn [map]. split; constructor; assumption.
Qed.

(** DECODER ON DIGIT TEXT: '1' x z ++ characters of the digits D (any digits
    with a non-zero first one) is accepted, the assert does not fire, and the
    result is z zero bytes ++ the canonical base-256 digits of the value of D *)
Theorem b58_decode_text z D :
  digits b58_dec_mul D ->
  match D with [] => True | d :: _ => d <> 0 end ->
  exists L,
    b58_decode (repeat b58_one z ++ map b58_char D) = Ok (repeat 0 z ++ rev L)
    /\ digits b58_dec_base L /\ canon_le b58_dec_base L
    /\ val_le b58_dec_base L = val_be b58_dec_mul D.
Proof.
  intros Dd Hhead. set (T := map b58_char D). set (s := repeat b58_one z ++ T).
  destruct (map_b58_char_props D Dd) as [Tnz Tns]. fold T in Tnz, Tns.
  unfold b58_decode.
  assert (Enul : existsb (fun c => c =? 0) s = false).
  { apply existsb_nul_false. unfold s. apply Forall_app. split; [|exact Tnz].
    apply Forall_forall. intros c Hc. apply repeat_spec in Hc. subst. exact b58_one_nonzero. }
  rewrite Enul. change (Z.to_nat b58_max_ret_add) with 1%nat.
  set (m := (length s + 1)%nat).
  assert (Hlen : length s = (z + length D)%nat)
    by (unfold s, T; rewrite app_length, repeat_length, map_length; reflexivity).
  unfold b58_decode_c.
  assert (Esk : skip_spaces s = s).
  { unfold s. destruct z as [|z].
    - cbn [repeat app]. destruct T as [|c T'] eqn:ET; [reflexivity|].
      cbn [skip_spaces]. inversion Tns; subst.
      match goal with H : is_space c = false |- _ => rewrite H end. reflexivity.
    - cbn [repeat app skip_spaces].
      destruct (b58_alphabet_no_space _ b58_one_in_alphabet) as [A _]. rewrite A. reflexivity. }
  rewrite Esk.
  assert (Hhd : match T with [] => True | c :: _ => c <> b58_one end).
  { unfold T. destruct D as [|d D']; [exact I|]. cbn [map]. intros E.
    inversion Dd; subst. apply Hhead. apply b58_char_one; assumption. }
  unfold s at 1. rewrite (count_ones_repeat m T z 0%nat ltac:(lia) Hhd). cbn [Nat.add].
  set (S := b58_dec_size (length T)).
  pose proof dec_base_gt1 as Hbase.
  assert (HT : length T = length D) by (unfold T; apply map_length).
  assert (Fit : (val_le b58_dec_base (repeat 0 S) + 1) * b58_dec_mul ^ Z.of_nat (length D)
                <= b58_dec_base ^ Z.of_nat (length (repeat 0 S))).
  { rewrite (val_le_zeros _ _ (zeros_repeat S)), repeat_length.
    pose proof (b58_dec_buffer_bound (length D)). unfold S. rewrite HT. lia. }
  assert (Hm : (length (repeat 0%Z S) + z <= m)%nat).
  { rewrite repeat_length. unfold S, b58_dec_size, m. rewrite HT, Hlen.
    change b58_dec_size_num with 733. change b58_dec_size_den with 1000.
    change b58_dec_size_add with 1. lia. }
  destruct (dec_loop_spec m z D 0%nat (repeat 0 S) Dd (binv_init _ S Hbase) Fit Hm)
    as [len [buf [E [Inv [L V]]]]].
  fold T in E. rewrite E. cbn [skip_spaces].
  destruct (binv_result _ len buf Hbase Inv) as [RL [RD [RC RV]]].
  exists (firstn len buf). split; [reflexivity|]. split; [exact RD|]. split; [exact RC|].
  rewrite RV, V. rewrite (val_le_zeros _ _ (zeros_repeat S)). reflexivity.
Qed.

(** ------------------------------------------------------------ ROUND TRIP *)

Theorem b58_roundtrip bs :
  bytes bs -> exists s, b58_encode bs = Ok s /\ b58_decode s = Ok bs.
Proof.
  intros Hb.
  destruct (b58_encode_spec bs Hb) as [D [E [DD [Hhead [HV _]]]]].
  eexists. split; [exact E|].
  change b58_enc_base with b58_dec_mul in DD.
  destruct (b58_decode_text (count_leading 0 bs) D DD Hhead) as [L [E2 [LD [LC LV]]]].
  rewrite E2. f_equal.
  etransitivity; [|symmetry; apply (count_drop 0 bs)]. f_equal.
  set (rest := drop_leading 0 bs) in *.
  assert (Dr : digits b58_dec_base rest).
  { change b58_dec_base with b58_enc_mul. apply bytes_digits. apply drop_leading_Forall. exact Hb. }
  assert (L = rev rest); [|subst L; apply rev_involutive].
  apply (canon_unique b58_dec_base); [exact dec_base_gt1|exact LD|apply digits_rev; exact Dr|exact LC| |].
  - apply canon_le_rev; [exact dec_base_gt1|exact Dr|apply drop_leading_head].
  - rewrite LV. change b58_dec_mul with b58_enc_base. rewrite HV.
    change b58_enc_mul with b58_dec_base. apply val_be_le.
Qed.

(** the premises are satisfiable by non-trivial values  *)
Example b58_roundtrip_example :
  bytes [0; 0; 27; 53; 84; 6] /\
  b58_encode [0; 0; 27; 53; 84; 6] = Ok [49; 49; 104; 76; 97; 88; 88] /\
  b58_decode [49; 49; 104; 76; 97; 88; 88] = Ok [0; 0; 27; 53; 84; 6].
Proof.
  split; [|split]; [|vm_compute; reflexivity|vm_compute; reflexivity].
  repeat constructor; unfold is_byte; lia.
Qed.

(** ------------------------------------------------------------ acceptance *)

Lemma alphabet_text_digits t : Forall (fun c => In c b58_alphabet) t ->
  exists D, t = map b58_char D /\ digits b58_dec_mul D.
Proof.
  induction 1 as [|c t Hc _ [D [E DD]]].
  - exists []. split; [reflexivity|constructor].
  - destruct (In_nth _ _ 0 Hc) as [k [Hk Hn]].
    exists (Z.of_nat k :: D). split.
    + cbn [map]. unfold b58_char at 1. rewrite Nat2Z.id, Hn, E. reflexivity.
    + constructor; [|exact DD]. rewrite b58_alphabet_length in Hk.
      change b58_dec_mul with 58. lia.
Qed.

(** every string over the base-58 alphabet is accepted by DecodeBase58 (in
    particular the assert in the decoder cannot fire on it) *)
Theorem b58_decode_accepts s :
  Forall (fun c => In c b58_alphabet) s -> exists v, b58_decode s = Ok v.
Proof.
  intros H. rewrite (count_drop b58_one s).
  destruct (alphabet_text_digits (drop_leading b58_one s) (drop_leading_Forall _ _ _ H)) as [D [E DD]].
  rewrite E.
  assert (Hhead : match D with [] => True | d :: _ => d <> 0 end).
  { pose proof (drop_leading_head b58_one s) as Hh. rewrite E in Hh.
    destruct D as [|d D']; [exact I|]. cbn [map] in Hh. intros ->. apply Hh.
    symmetry. apply b58_one_is_digit0. }
  destruct (b58_decode_text (count_leading b58_one s) D DD Hhead) as [L [E2 _]].
  eexists. exact E2.
Qed.

(** length of the encoder output: at least one character per input byte *)
Theorem b58_encode_length bs s :
  bytes bs -> b58_encode bs = Ok s -> (length bs <= length s)%nat.
Proof.
  intros Hb Hs. destruct (b58_encode_spec bs Hb) as [D [E [DD [Hhead [HV _]]]]].
  rewrite E in Hs. inversion Hs; subst s. clear Hs E.
  rewrite (count_drop 0 bs) at 1. rewrite !app_length, !repeat_length, map_length.
  pose proof (drop_leading_head 0 bs) as Hh.
  assert (Dr : digits b58_enc_mul (drop_leading 0 bs))
    by (apply bytes_digits; apply drop_leading_Forall; exact Hb).
  remember (drop_leading 0 bs) as rest eqn:ER. clear ER.
  enough (length rest <= length D)%nat by lia.
  destruct rest as [|c r]; [cbn [length]; lia|].
  assert (Hb1 : 1 < b58_enc_mul) by reflexivity.
  destruct (canon_le_rev b58_enc_mul (c :: r) Hb1 Dr Hh) as [C|C].
  { apply (f_equal (@length Z)) in C. rewrite rev_length in C. discriminate C. }
  rewrite rev_length, <- val_be_le, <- HV, val_be_le in C.
  pose proof (val_le_bound b58_enc_base (rev D) ltac:(reflexivity) (digits_rev _ _ DD)) as B.
  rewrite rev_length in B.
  set (n := Z.of_nat (length (c :: r)) - 1) in *.
  assert (Hn : 0 <= n) by (unfold n; cbn [length]; lia).
  assert (Hle : b58_enc_base ^ n <= b58_enc_mul ^ n).
  { apply Z.pow_le_mono_l. split; [discriminate|vm_compute; discriminate]. }
  assert (Hlt : b58_enc_base ^ n < b58_enc_base ^ Z.of_nat (length D)) by lia.
  apply Z.pow_lt_mono_r_iff in Hlt; [|reflexivity|lia].
  unfold n in Hlt. lia.
Qed.

(** every character EncodeBase58 emits is an alphabet character *)
Theorem b58_encode_alphabet bs s :
  bytes bs -> b58_encode bs = Ok s -> Forall (fun c => In c b58_alphabet) s.
Proof.
  intros Hb Hs. destruct (b58_encode_spec bs Hb) as [D [E [DD _]]].
  rewrite E in Hs. inversion Hs; subst s. apply Forall_app. split.
  - apply Forall_forall. intros c Hc. apply repeat_spec in Hc. subst. exact b58_one_in_alphabet.
  - apply Forall_forall. intros c Hc. apply in_map_iff in Hc. destruct Hc as [d [<- Hd]].
    apply b58_char_in_alphabet. unfold digits in DD. rewrite Forall_forall in DD. apply DD. exact Hd.
Qed.
