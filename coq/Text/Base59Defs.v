(** Executable model of /repo/src/pop/base59.cpp (EncodeBase59(buf,nSize),
    DecodeBase59, divmod59, divmod256), AS CODED. No proofs in this file.

    Representation choices (all stated here, proved harmless in Base59Proofs.v):
    - a [std::vector<uint8_t>] / [std::string] is a [list Z] of numbers 0..255;
    - indices ([startAt], [zeroCount], [j]) are [nat] (they never exceed 2*nSize);
    - the buffer [temp] is filled from the back by [temp[--j] = x]. We keep the pair
      ([acc], [j]) where [acc] = the list temp[j..temp.size()) and [j] = the number
      of still free slots in front of it; [temp[--j] = x] is [x :: acc] with [j]
      decremented. [j] doubles as the FUEL of the loops: a write with [j = 0] is
      [temp[SIZE_MAX] = x] in the C++ code (out of range) and is [Abort] here, so
      "out of fuel" and "temp overflows" are the same event. It is proved
      unreachable ([b59_encode_o_no_abort], [b59_decode_no_abort]).
    - the slots of [temp] below [j] are all 0 when DecodeBase59 builds its result
      (never written since value-initialisation, or written with 0 and skipped by
      the "move j to first non null byte" loop); hence the range
      [temp.begin() + j - zeroCount, temp.begin() + j) is [repeat 0 zeroCount],
      provided [j >= zeroCount]; [j < zeroCount] is an iterator before begin():
      [Abort].
    - size_t arithmetic: [remainder * 256 + digit] is below 2^16, no wrap possible
      for any width; the only wrapping size_t operation is the leading-'1' loop
      [for (--zeroCount; zeroCount != SIZE_MAX; zeroCount--)], modelled with
      explicit arithmetic modulo 2^64.
    - DecodeBase59 on the empty string returns true WITHOUT touching [out]; the
      model returns [Ok []], i.e. it assumes the caller passed an empty [out]. *)
From Coq Require Import ZArith List Bool.
From VB Require Import Gen.TextTables Text.TextCommon.
Import ListNotations.
Local Open Scope Z_scope.

(** (uint8_t) x *)
Definition u8 (x : Z) : Z := x mod 256.
(** (int8_t) x for x a uint8_t value *)
Definition s8 (x : Z) : Z := if x <? 128 then x else x - 256.

(** body of the for loop of divmod59 over the not yet visited part [l] of the
    vector; returns (rewritten part, (uint8_t) remainder) *)
Fixpoint divmod59_go (l : list Z) (remainder : Z) : list Z * Z :=
  match l with
  | [] => ([], u8 remainder)
  | d :: r =>
      let digit256 := Z.land d 255 in                   (* (uint32_t)number[i] & 0xFF *)
      let temp := remainder * b59_base256 + digit256 in
      let qr := divmod59_go r (temp mod b59_base) in
      (u8 (temp / b59_base) :: fst qr, snd qr)          (* number[i] = (uint8_t)(temp / 59) *)
  end.

(** divmod59(number, startAt): (new contents of number, returned uint8_t) *)
Definition divmod59 (number : list Z) (startAt : nat) : list Z * Z :=
  let qr := divmod59_go (skipn startAt number) 0 in
  (firstn startAt number ++ fst qr, snd qr).

Fixpoint divmod256_go (l : list Z) (remainder : Z) : list Z * Z :=
  match l with
  | [] => ([], u8 remainder)
  | d :: r =>
      let digit59 := Z.land (s8 d) 255 in               (* (int8_t)number59[i] & 0xFF *)
      let temp := remainder * b59_base + digit59 in
      let qr := divmod256_go r (temp mod b59_base256) in
      (u8 (temp / b59_base256) :: fst qr, snd qr)
  end.

Definition divmod256 (number59 : list Z) (startAt : nat) : list Z * Z :=
  let qr := divmod256_go (skipn startAt number59) 0 in
  (firstn startAt number59 ++ fst qr, snd qr).

(** while (zeroCount < size && v[zeroCount] == 0) ++zeroCount; *)
Fixpoint zero_count (l : list Z) : nat :=
  match l with
  | x :: r => if x =? 0 then S (zero_count r) else O
  | [] => O
  end.

(** g_Base59Alphabet[mod]: raw index into the 59 characters + NUL *)
Definition char_of_digit (m : Z) : Z := nth (Z.to_nat m) b59_alphabet 0.

(** main loop of EncodeBase59; [j] = free slots of temp = fuel *)
Fixpoint enc_loop (j : nat) (input : list Z) (startAt : nat) (acc : list Z)
  : outcome (list Z * nat) :=
  if (startAt <? length input)%nat then
    match j with
    | O => Abort                                         (* temp[--j] with j = 0 *)
    | S j' =>
        let nm := divmod59 input startAt in
        let input' := fst nm in
        let startAt' := if nth startAt input' 0 =? 0 then S startAt else startAt in
        enc_loop j' input' startAt' (char_of_digit (snd nm) :: acc)
    end
  else Ok (acc, j).

(** while (j < temp.size() && temp[j] == x) ++j; *)
Fixpoint strip_lead (x : Z) (acc : list Z) (j : nat) : list Z * nat :=
  match acc with
  | c :: r => if c =? x then strip_lead x r (S j) else (acc, j)
  | [] => (acc, j)
  end.

Definition size_max : Z := 2 ^ 64 - 1.
Definition size_dec (x : Z) : Z := (x - 1) mod 2 ^ 64.

(** for (--zeroCount; zeroCount != SIZE_MAX; zeroCount--) temp[--j] = alphabet[0];
    called with [zc] = the already decremented counter *)
Fixpoint ones_loop (j : nat) (zc : Z) (acc : list Z) : outcome (list Z) :=
  if zc =? size_max then Ok acc
  else match j with
       | O => Abort                                      (* temp[--j] with j = 0 *)
       | S j' => ones_loop j' (size_dec zc) (char_of_digit 0 :: acc)
       end.

Definition b59_encode_o (buf : list Z) : outcome (list Z) :=
  match buf with
  | [] => Ok []                                          (* nSize == 0 *)
  | _ =>
      let input := buf in
      let nSize := length buf in
      let zeroCount := zero_count input in
      match enc_loop (2 * nSize) input zeroCount [] with  (* temp(nSize * 2) *)
      | Ok (acc, j) =>
          let aj := strip_lead (char_of_digit 0) acc j in (* strip extra '1' *)
          ones_loop (snd aj) (size_dec (Z.of_nat zeroCount)) (fst aj)
      | Invalid => Invalid
      | Abort => Abort
      end
  end.

(** EncodeBase59(buf, nSize) : bytes -> characters. The function cannot fail in
    C++; an out-of-range write of the model ([Abort], proved unreachable) is
    mapped to []. *)
Definition b59_encode (buf : list Z) : list Z :=
  match b59_encode_o buf with Ok v => v | _ => [] end.

(** the character loop of DecodeBase59 *)
Fixpoint dec_chars (s : list Z) : outcome (list Z) :=
  match s with
  | [] => Ok []
  | ch :: r =>
      let c := u8 ch in                                  (* static_cast<uint8_t>(input[i]) *)
      if c >=? Z.of_nat (length b59_indexes) then
        (* the range test of the CURRENT code; [b59_bounds_checked] is generated
           from the source (1 iff the test is present): without it the next line
           would read g_Indexes out of range *)
        (if b59_bounds_checked =? 1 then Invalid else Abort)
      else
        let digit59 := lookup b59_indexes c in
        if digit59 <? 0 then Invalid
        else match dec_chars r with
             | Ok ds => Ok (u8 digit59 :: ds)            (* input59[i] = digit59 *)
             | o => o
             end
  end.

(** main loop of DecodeBase59 *)
Fixpoint dec_loop (j : nat) (input59 : list Z) (startAt : nat) (acc : list Z)
  : outcome (list Z * nat) :=
  if (startAt <? length input59)%nat then
    match j with
    | O => Abort
    | S j' =>
        let nm := divmod256 input59 startAt in
        let input' := fst nm in
        let startAt' := if nth startAt input' 0 =? 0 then S startAt else startAt in
        dec_loop j' input' startAt' (snd nm :: acc)
    end
  else Ok (acc, j).

Definition b59_decode (s : list Z) : outcome (list Z) :=
  match s with
  | [] => Ok []                                          (* input.empty(): out untouched *)
  | _ =>
      match dec_chars s with
      | Ok input59 =>
          let zeroCount := zero_count input59 in
          match dec_loop (length s) input59 zeroCount [] with  (* temp(input.size()) *)
          | Ok (acc, j) =>
              let aj := strip_lead 0 acc j in            (* move j to first non null byte *)
              if (snd aj <? zeroCount)%nat then Abort    (* temp.begin() + j - zeroCount < begin *)
              else Ok (repeat 0 zeroCount ++ fst aj)
          | Invalid => Invalid
          | Abort => Abort
          end
      | Invalid => Invalid
      | Abort => Abort
      end
  end.
