(** Base58, part 1: facts about the GENERATED tables (vm_compute over the finite
    domains 0..57 / 0..255 only), the shape of every accepted DecodeBase58
    input, and the rejection theorems that follow from it.
    The arithmetic (carry loop, round trip) is in Base58Proofs2.v. *)
From Coq Require Import ZArith List Bool Lia.
From VB Require Import Gen.TextTables Text.TextCommon Text.Base58Defs.
Import ListNotations.
Local Open Scope Z_scope.
Ltac Zify.zify_post_hook ::= Z.div_mod_to_equations.

(** ------------------------------------------------------------ zrange *)

Lemma in_zrange x n : forall lo, lo <= x < lo + Z.of_nat n -> In x (zrange lo n).
Proof.
  induction n as [|n IH]; intros lo H; [lia|].
  cbn [zrange]. destruct (Z.eq_dec lo x) as [->|Hne]; [left; reflexivity|].
  right. apply IH. lia.
Qed.

Lemma byte_in_zrange b : is_byte b -> In b (zrange 0 256).
Proof. intros H. apply in_zrange. unfold is_byte in H. lia. Qed.

(** ------------------------------------------------------------ tables *)

Lemma b58_alphabet_length : length b58_alphabet = 58%nat.
Proof. vm_compute. reflexivity. Qed.

Lemma b58_map_length : length b58_map = 256%nat.
Proof. vm_compute. reflexivity. Qed.

(** the numeric constants of the two loops agree with the alphabet size and
    the byte range (re-checked against the generated file on every run) *)
Lemma b58_enc_base_is_alphabet_length : b58_enc_base = Z.of_nat (length b58_alphabet).
Proof. vm_compute. reflexivity. Qed.
Lemma b58_consts_dual : b58_dec_mul = b58_enc_base /\ b58_dec_base = b58_enc_mul /\ b58_enc_mul = 256.
Proof. vm_compute. repeat split. Qed.

Definition in_alphabet (c : Z) : bool := existsb (Z.eqb c) b58_alphabet.

Lemma in_alphabet_In c : in_alphabet c = true <-> In c b58_alphabet.
Proof.
  unfold in_alphabet. rewrite existsb_exists. split.
  - intros [x [Hin Hx]]. apply Z.eqb_eq in Hx. subst. exact Hin.
  - intros H. exists c. split; [exact H|apply Z.eqb_refl].
Qed.

(** mapBase58 inverts pszBase58 on the 58 digits ... *)
Lemma b58_map_char_all :
  forallb (fun d => lookup b58_map (b58_char d) =? d) (zrange 0 58) = true.
Proof. vm_compute. reflexivity. Qed.

Lemma b58_map_char d : 0 <= d < b58_enc_base -> lookup b58_map (b58_char d) = d.
Proof.
  intros H. change b58_enc_base with 58 in H.
  pose proof b58_map_char_all as A. rewrite forallb_forall in A.
  apply Z.eqb_eq. apply A. apply in_zrange. lia.
Qed.

(** ... and for every byte c: mapBase58[c] is -1 exactly outside the alphabet,
    otherwise a digit 0..57 whose alphabet character is c *)
Definition b58_map_entry_ok (c : Z) : bool :=
  let d := lookup b58_map c in
  if d =? -1 then negb (in_alphabet c)
  else (0 <=? d) && (d <? b58_enc_base) && (b58_char d =? c) && in_alphabet c.

Lemma b58_map_entry_ok_all : forallb b58_map_entry_ok (zrange 0 256) = true.
Proof. vm_compute. reflexivity. Qed.

Lemma b58_map_inv c d :
  is_byte c -> lookup b58_map c = d -> d <> -1 ->
  0 <= d < b58_enc_base /\ b58_char d = c /\ In c b58_alphabet.
Proof.
  intros Hc Hd Hne. pose proof b58_map_entry_ok_all as A. rewrite forallb_forall in A.
  specialize (A c (byte_in_zrange c Hc)). unfold b58_map_entry_ok in A. cbv zeta in A.
  rewrite Hd in A. destruct (Z.eqb_spec d (-1)) as [E|_]; [contradiction|].
  apply andb_true_iff in A. destruct A as [A A4]. apply andb_true_iff in A. destruct A as [A A3].
  apply andb_true_iff in A. destruct A as [A1 A2].
  apply in_alphabet_In in A4. apply Z.eqb_eq in A3. apply Z.leb_le in A1. apply Z.ltb_lt in A2.
  repeat split; assumption.
Qed.

Lemma b58_map_minus1 c : is_byte c -> (lookup b58_map c = -1 <-> ~ In c b58_alphabet).
Proof.
  intros Hc. pose proof b58_map_entry_ok_all as A. rewrite forallb_forall in A.
  specialize (A c (byte_in_zrange c Hc)). unfold b58_map_entry_ok in A. cbv zeta in A.
  destruct (Z.eqb_spec (lookup b58_map c) (-1)) as [E|E].
  - apply negb_true_iff in A. split; [|intros _; exact E].
    intros _ Hin. apply in_alphabet_In in Hin. congruence.
  - apply andb_true_iff in A. destruct A as [_ A4].
    apply in_alphabet_In in A4. split; [intros; contradiction|intros Hn; contradiction].
Qed.

(** no alphabet character is a space or NUL *)
Lemma b58_alphabet_no_space_nul_all :
  forallb (fun c => negb (is_space c) && negb (c =? 0)) b58_alphabet = true.
Proof. vm_compute. reflexivity. Qed.

Lemma b58_alphabet_no_space c : In c b58_alphabet -> is_space c = false /\ c <> 0.
Proof.
  intros H. pose proof b58_alphabet_no_space_nul_all as A. rewrite forallb_forall in A.
  specialize (A c H). apply andb_true_iff in A. destruct A as [A1 A2].
  apply negb_true_iff in A1, A2. apply Z.eqb_neq in A2. split; assumption.
Qed.

Lemma b58_char_in_alphabet_all :
  forallb (fun d => in_alphabet (b58_char d)) (zrange 0 58) = true.
Proof. vm_compute. reflexivity. Qed.

Lemma b58_char_in_alphabet d : 0 <= d < b58_enc_base -> In (b58_char d) b58_alphabet.
Proof.
  intros H. change b58_enc_base with 58 in H.
  pose proof b58_char_in_alphabet_all as A. rewrite forallb_forall in A.
  apply in_alphabet_In. apply A. apply in_zrange. lia.
Qed.

(** the literal '1' is digit 0 of the alphabet; NUL is neither a space nor '1' *)
Lemma b58_one_is_digit0 : b58_one = b58_char 0 /\ lookup b58_map b58_one = 0.
Proof. vm_compute. split; reflexivity. Qed.

Lemma b58_one_nonzero : b58_one <> 0.
Proof. vm_compute. discriminate. Qed.

Lemma nul_not_space : is_space 0 = false.
Proof. vm_compute. reflexivity. Qed.

Lemma b58_one_in_alphabet : In b58_one b58_alphabet.
Proof. apply in_alphabet_In. vm_compute. reflexivity. Qed.

Lemma b58_char_one d : 0 <= d < b58_enc_base -> b58_char d = b58_one -> d = 0.
Proof.
  intros H E. pose proof (b58_map_char d H) as M. rewrite E in M.
  destruct b58_one_is_digit0 as [_ M0]. congruence.
Qed.

(** ------------------------------------------------------------ shape of accepted inputs *)

Definition all_space (l : list Z) : Prop := Forall (fun c => is_space c = true) l.
(** a "digit character": not a space, and mapBase58 knows it *)
Definition digit_char (c : Z) : Prop := is_space c = false /\ lookup b58_map c <> -1.

Lemma skip_spaces_split s : exists sp, s = sp ++ skip_spaces s /\ all_space sp.
Proof.
  induction s as [|c s [sp [E A]]].
  - exists []. split; [reflexivity|constructor].
  - cbn [skip_spaces]. destruct (is_space c) eqn:Hc.
    + exists (c :: sp). split; [cbn [app]; f_equal; exact E|constructor; assumption].
    + exists []. split; [reflexivity|constructor].
Qed.

Lemma skip_spaces_nil s : skip_spaces s = [] -> all_space s.
Proof.
  induction s as [|c s IH]; intros H; [constructor|].
  cbn [skip_spaces] in H. destruct (is_space c) eqn:Hc; [|discriminate].
  constructor; [exact Hc|apply IH; exact H].
Qed.

Lemma count_ones_split m : forall s z z' s2,
  count_ones m z s = Ok (z', s2) ->
  exists ones, s = ones ++ s2 /\ Forall (fun c => c = b58_one) ones
               /\ (z' = z + length ones)%nat.
Proof.
  induction s as [|c s IH]; intros z z' s2 H.
  - cbn [count_ones] in H. inversion H; subst. exists [].
    split; [reflexivity|]. split; [constructor|]. cbn [length]. lia.
  - cbn [count_ones] in H. destruct (Z.eqb_spec c b58_one) as [->|Hne].
    + destruct (m <? S z)%nat eqn:Hm; [discriminate|].
      destruct (IH _ _ _ H) as [ones [E [F L]]].
      exists (b58_one :: ones).
      split; [cbn [app]; f_equal; exact E|].
      split; [constructor; [reflexivity|exact F]|]. cbn [length]. lia.
    + inversion H; subst. exists [].
      split; [reflexivity|]. split; [constructor|]. cbn [length]. lia.
Qed.

Lemma dec_loop_split m z : forall s len buf len' buf' s3,
  dec_loop m z len buf s = Ok (len', buf', s3) ->
  exists ds, s = ds ++ s3 /\ Forall digit_char ds
             /\ match s3 with [] => True | c :: _ => is_space c = true end.
Proof.
  induction s as [|c s IH]; intros len buf len' buf' s3 H.
  - cbn [dec_loop] in H. inversion H; subst. exists [].
    split; [reflexivity|]. split; [constructor|exact I].
  - cbn [dec_loop] in H. destruct (is_space c) eqn:Hc.
    + inversion H; subst. exists [].
      split; [reflexivity|]. split; [constructor|exact Hc].
    + cbv zeta in H. destruct (Z.eqb_spec (lookup b58_map c) (-1)) as [E|E]; [discriminate|].
      destruct (push_digit b58_dec_mul b58_dec_base (lookup b58_map c) len buf)
        as [[i bufi]| |]; try discriminate.
      destruct (m <? i + z)%nat; [discriminate|].
      destruct (IH _ _ _ _ _ H) as [ds [E1 [F S3]]].
      exists (c :: ds).
      split; [cbn [app]; f_equal; exact E1|].
      split; [constructor; [split; assumption|exact F]|exact S3].
Qed.

(** SHAPE: every input accepted by the inner DecodeBase58 is
    spaces ++ '1's ++ digit characters ++ spaces *)
Theorem b58_decode_c_shape s m v :
  b58_decode_c s m = Ok v ->
  exists sp1 ones ds sp2,
    s = sp1 ++ ones ++ ds ++ sp2 /\ all_space sp1 /\ all_space sp2
    /\ Forall (fun c => c = b58_one) ones /\ Forall digit_char ds.
Proof.
  unfold b58_decode_c. intros H.
  destruct (skip_spaces_split s) as [sp1 [E1 A1]].
  destruct (count_ones m 0 (skip_spaces s)) as [[z s2]| |] eqn:C; try discriminate.
  destruct (count_ones_split _ _ _ _ _ C) as [ones [E2 [F2 _]]].
  destruct (dec_loop m z 0 (repeat 0 (b58_dec_size (length s2))) s2) as [[[len buf] s3]| |] eqn:D;
    try discriminate.
  destruct (dec_loop_split _ _ _ _ _ _ _ _ D) as [ds [E3 [F3 _]]].
  destruct (skip_spaces s3) eqn:S3; [|discriminate].
  apply skip_spaces_nil in S3.
  exists sp1, ones, ds, s3. repeat split; try assumption.
  rewrite E1 at 1. rewrite E2 at 1. rewrite E3 at 1. reflexivity.
Qed.

Lemma b58_decode_no_nul s v : b58_decode s = Ok v -> ~ In 0 s.
Proof.
  unfold b58_decode. destruct (existsb (fun c => c =? 0) s) eqn:E; [discriminate|].
  intros _ Hin. assert (existsb (fun c => c =? 0) s = true); [|congruence].
  apply existsb_exists. exists 0. split; [exact Hin|reflexivity].
Qed.

Theorem b58_decode_shape s v :
  b58_decode s = Ok v ->
  ~ In 0 s /\
  exists sp1 ones ds sp2,
    s = sp1 ++ ones ++ ds ++ sp2 /\ all_space sp1 /\ all_space sp2
    /\ Forall (fun c => c = b58_one) ones /\ Forall digit_char ds.
Proof.
  intros H. split; [eapply b58_decode_no_nul; exact H|].
  unfold b58_decode in H. destruct (existsb (fun c => c =? 0) s); [discriminate|].
  eapply b58_decode_c_shape. exact H.
Qed.

(** ------------------------------------------------------------ rejection *)

(** every character of an accepted input is a space or an alphabet character *)
Theorem b58_decode_chars s v :
  bytes s -> b58_decode s = Ok v ->
  Forall (fun c => is_space c = true \/ In c b58_alphabet) s.
Proof.
  intros Hb H. destruct (b58_decode_shape s v H) as [_ [sp1 [ones [ds [sp2 [E [A1 [A2 [O D]]]]]]]]].
  apply Forall_forall. intros c Hin.
  assert (Hc : is_byte c) by (unfold bytes in Hb; rewrite Forall_forall in Hb; apply Hb; exact Hin).
  rewrite E in Hin. rewrite !in_app_iff in Hin.
  destruct Hin as [Hin|[Hin|[Hin|Hin]]].
  - left. unfold all_space in A1. rewrite Forall_forall in A1. apply A1. exact Hin.
  - right. rewrite Forall_forall in O. rewrite (O c Hin). apply b58_one_in_alphabet.
  - right. rewrite Forall_forall in D. destruct (D c Hin) as [_ Hd].
    destruct (b58_map_inv c _ Hc eq_refl Hd) as [_ [_ R]]. exact R.
  - left. unfold all_space in A2. rewrite Forall_forall in A2. apply A2. exact Hin.
Qed.

(** REJECTION: one character that is neither a space nor in the alphabet makes
    DecodeBase58 fail *)
Theorem b58_decode_rejects s :
  bytes s ->
  (exists c, In c s /\ ~ In c b58_alphabet /\ is_space c = false) ->
  forall v, b58_decode s <> Ok v.
Proof.
  intros Hb [c [Hin [Hna Hns]]] v H.
  pose proof (b58_decode_chars s v Hb H) as F. rewrite Forall_forall in F.
  destruct (F c Hin) as [Hs|Ha]; [congruence|contradiction].
Qed.

(** a space strictly inside the digits is rejected: if the input is
    [a ++ sp :: b] where [a] contains a non-space character and [sp] is a
    space, then acceptance forces [b] to consist of spaces only *)
Lemma strip_leading_spaces : forall sp1 rest a sp b,
  all_space sp1 -> sp1 ++ rest = a ++ sp :: b ->
  (exists x, In x a /\ is_space x = false) ->
  exists a', rest = a' ++ sp :: b /\ (exists x, In x a' /\ is_space x = false).
Proof.
  induction sp1 as [|c sp1 IH]; intros rest a sp b A E X.
  - exists a. split; [exact E|exact X].
  - destruct a as [|a0 a]; [destruct X as [x [[] _]]|].
    cbn [app] in E. inversion E; subst. inversion A as [|? ? Ac A']; subst.
    apply (IH rest a sp b A' H1).
    destruct X as [x [[Hx|Hx] Hn]]; [subst; congruence|exists x; split; assumption].
Qed.

Lemma body_then_spaces : forall body sp2 a sp b,
  Forall (fun c => is_space c = false) body -> all_space sp2 -> is_space sp = true ->
  body ++ sp2 = a ++ sp :: b -> all_space b.
Proof.
  induction body as [|c body IH]; intros sp2 a sp b Hb A Hs E.
  - cbn [app] in E. subst sp2. unfold all_space in A. apply Forall_app in A.
    destruct A as [_ A]. inversion A; assumption.
  - inversion Hb as [|? ? Hc Hb']; subst. destruct a as [|a0 a].
    + cbn [app] in E. inversion E; subst. congruence.
    + cbn [app] in E. inversion E; subst. eapply IH; eassumption.
Qed.

Theorem b58_decode_inner_space a sp b v :
  b58_decode (a ++ sp :: b) = Ok v -> is_space sp = true ->
  (exists x, In x a /\ is_space x = false) -> all_space b.
Proof.
  intros H Hs X.
  destruct (b58_decode_shape _ _ H) as [_ [sp1 [ones [ds [sp2 [E [A1 [A2 [O D]]]]]]]]].
  symmetry in E.
  destruct (strip_leading_spaces sp1 _ a sp b A1 E X) as [a' [E' _]].
  rewrite app_assoc in E'.
  eapply (body_then_spaces (ones ++ ds) sp2 a' sp b); try eassumption.
  apply Forall_app. split.
  - eapply Forall_impl; [|exact O]. intros c ->.
    apply b58_alphabet_no_space. apply b58_one_in_alphabet.
  - eapply Forall_impl; [|exact D]. intros c [Hc _]. exact Hc.
Qed.

Corollary b58_decode_rejects_inner_space a sp b :
  is_space sp = true ->
  (exists x, In x a /\ is_space x = false) ->
  (exists y, In y b /\ is_space y = false) ->
  forall v, b58_decode (a ++ sp :: b) <> Ok v.
Proof.
  intros Hs X [y [Hy Hn]] v H.
  pose proof (b58_decode_inner_space a sp b v H Hs X) as A.
  unfold all_space in A. rewrite Forall_forall in A. specialize (A y Hy). congruence.
Qed.

(** ------------------------------------------------------------ int width *)

(** The carry loop as C executes it: [int carry] is a 32-bit two's-complement
    int ([wrap32] after every operation), [%] and [/] truncate towards zero
    ([Z.rem], [Z.quot]), the digit is stored into an [unsigned char]
    ([mod 256]). [carry_loop_bounds] shows that for a start carry in [0, mul)
    and buffer digits in [0, base) nothing wraps or truncates:
    this is exactly [carry_loop] of Base58Defs. *)
Definition wrap32 (x : Z) : Z := (x + 2 ^ 31) mod 2 ^ 32 - 2 ^ 31.

Fixpoint carry_loop_c (mul base carry : Z) (i length : nat) (buf : list Z)
  : list Z * Z * nat :=
  match buf with
  | [] => ([], carry, i)
  | x :: r =>
      if negb (carry =? 0) || (i <? length)%nat then
        let c := wrap32 (carry + wrap32 (mul * x)) in
        match carry_loop_c mul base (Z.quot c base) (S i) length r with
        | (r', carry', i') => ((Z.rem c base) mod 256 :: r', carry', i')
        end
      else (buf, carry, i)
  end.

Lemma wrap32_id x : 0 <= x < 2 ^ 31 -> wrap32 x = x.
Proof. unfold wrap32. intros H. change (2 ^ 31) with 2147483648 in *. change (2 ^ 32) with 4294967296. lia. Qed.

Theorem carry_loop_bounds mul base len :
  0 < base <= 256 -> 0 < mul -> mul * base <= 2 ^ 31 ->
  forall buf carry i,
    0 <= carry < mul -> Forall (fun x => 0 <= x < base) buf ->
    carry_loop_c mul base carry i len buf = carry_loop mul base carry i len buf.
Proof.
  intros Hb Hm Hmb. induction buf as [|x r IH]; intros carry i Hc Hd; [reflexivity|].
  inversion Hd as [|? ? Hx Hr]; subst.
  cbn [carry_loop_c carry_loop]. destruct (negb (carry =? 0) || (i <? len)%nat); [|reflexivity].
  cbv zeta.
  assert (Hmx : 0 <= mul * x <= mul * (base - 1)).
  { split; [apply Z.mul_nonneg_nonneg; lia|apply Z.mul_le_mono_nonneg_l; lia]. }
  assert (Hc1 : 0 <= carry + mul * x < mul * base) by lia.
  rewrite (wrap32_id (mul * x)) by lia.
  rewrite (wrap32_id (carry + mul * x)) by lia.
  set (c := carry + mul * x) in *.
  rewrite Z.quot_div_nonneg, Z.rem_mod_nonneg by lia.
  assert (Hq : 0 <= c / base < mul).
  { split; [apply Z.div_pos; lia|apply Z.div_lt_upper_bound; lia]. }
  assert (Hr' : 0 <= c mod base < base) by (apply Z.mod_pos_bound; lia).
  rewrite (Z.mod_small (c mod base) 256) by lia.
  rewrite (IH (c / base) (S i) Hq Hr). reflexivity.
Qed.

(** the two instances used by the code: the start carry is a byte resp. a
    base-58 digit *)
Corollary carry_loop_bounds_enc len buf b i :
  0 <= b < 256 -> Forall (fun x => 0 <= x < b58_enc_base) buf ->
  carry_loop_c b58_enc_mul b58_enc_base b i len buf = carry_loop b58_enc_mul b58_enc_base b i len buf.
Proof.
  intros Hb Hd. apply carry_loop_bounds; try assumption; try (vm_compute; intuition discriminate).
Qed.

Corollary carry_loop_bounds_dec len buf d i :
  0 <= d < 58 -> Forall (fun x => 0 <= x < b58_dec_base) buf ->
  carry_loop_c b58_dec_mul b58_dec_base d i len buf = carry_loop b58_dec_mul b58_dec_base d i len buf.
Proof.
  intros Hb Hd. apply carry_loop_bounds; try assumption; try (vm_compute; intuition discriminate).
Qed.
