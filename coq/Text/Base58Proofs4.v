(** Base58, part 4: safety of DecodeBase58 on ARBITRARY byte strings: the
    VBK_ASSERT(carry == 0) in the decoder is unreachable (the b256 buffer is
    always large enough for the digits that follow), and an accepted input
    yields a byte vector. *)
From Coq Require Import ZArith List Bool Lia.
From VB Require Import Gen.TextTables Text.TextCommon Text.Base58Defs
  Text.Base58Proofs Text.Base58Proofs2 Text.Base58Proofs3.
Import ListNotations.
Local Open Scope Z_scope.
Ltac Zify.zify_post_hook ::= Z.div_mod_to_equations.

Lemma dec_loop_safe m z : forall s len buf,
  bytes s -> binv b58_dec_base len buf ->
  (val_le b58_dec_base buf + 1) * b58_dec_mul ^ Z.of_nat (length s)
    <= b58_dec_base ^ Z.of_nat (length buf) ->
  match dec_loop m z len buf s with
  | Abort => False
  | Invalid => True
  | Ok (len', buf', _) => binv b58_dec_base len' buf' /\ length buf' = length buf
  end.
Proof.
  induction s as [|c r IH]; intros len buf Hb Inv Fit.
  - cbn [dec_loop]. split; [exact Inv|reflexivity].
  - inversion Hb as [|? ? Hc Hr]; subst.
    cbn [dec_loop]. destruct (is_space c); [split; [exact Inv|reflexivity]|].
    cbv zeta. destruct (Z.eqb_spec (lookup b58_map c) (-1)) as [E|E]; [exact I|].
    destruct (b58_map_inv c _ Hc eq_refl E) as [Hd _].
    set (d := lookup b58_map c) in *. change b58_enc_base with b58_dec_mul in Hd.
    pose proof dec_mul_ge1 as Hmul. pose proof dec_base_gt1 as Hbase.
    pose proof (val_le_bound b58_dec_base buf ltac:(lia) (proj1 Inv)) as VB.
    cbn [length] in Fit. rewrite Nat2Z.inj_succ, Z.pow_succ_r in Fit by lia.
    set (V := val_le b58_dec_base buf) in *.
    set (M := b58_dec_mul ^ Z.of_nat (length r)) in *.
    set (P := b58_dec_base ^ Z.of_nat (length buf)) in *.
    assert (HM : 1 <= M) by (unfold M; pose proof (Z.pow_pos_nonneg b58_dec_mul (Z.of_nat (length r))); lia).
    assert (H1 : (V + 1) * b58_dec_mul * 1 <= (V + 1) * b58_dec_mul * M).
    { apply Z.mul_le_mono_nonneg_l; [apply Z.mul_nonneg_nonneg; lia|exact HM]. }
    assert (H2 : (V + 1) * b58_dec_mul * M <= P) by (rewrite <- Z.mul_assoc; exact Fit).
    assert (Hfit : d + b58_dec_mul * V < P) by lia.
    destruct (push_digit_spec b58_dec_mul b58_dec_base Hbase Hmul d len buf ltac:(lia) Inv Hfit)
      as [len1 [buf1 [E1 [Inv1 [L1 V1]]]]].
    rewrite E1. destruct (m <? len1 + z)%nat; [exact I|].
    assert (Fit1 : (val_le b58_dec_base buf1 + 1) * M <= b58_dec_base ^ Z.of_nat (length buf1)).
    { rewrite L1, V1. fold V. fold P.
      assert ((d + b58_dec_mul * V + 1) * M <= (V + 1) * b58_dec_mul * M)
        by (apply Z.mul_le_mono_nonneg_r; lia).
      lia. }
    specialize (IH len1 buf1 Hr Inv1 Fit1).
    destruct (dec_loop m z len1 buf1 r) as [[[len2 buf2] s3]| |]; [|exact I|exact IH].
    destruct IH as [I2 L2]. split; [exact I2|lia].
Qed.

(** the inner DecodeBase58 never asserts, whatever max_ret_len is; an accepted
    input yields bytes *)
Theorem b58_decode_c_safe s m :
  bytes s ->
  match b58_decode_c s m with
  | Abort => False
  | Invalid => True
  | Ok v => bytes v
  end.
Proof.
  intros Hb. unfold b58_decode_c.
  destruct (skip_spaces_split s) as [sp1 [E1 _]].
  assert (B1 : bytes (skip_spaces s)).
  { unfold bytes in *. rewrite E1 in Hb. apply Forall_app in Hb. apply Hb. }
  destruct (count_ones m 0 (skip_spaces s)) as [[z s2]| |] eqn:C; [|exact I|].
  2:{ (* count_ones never aborts *)
      exfalso. clear - C. revert C. generalize 0%nat. induction (skip_spaces s) as [|c l IH]; intros k C.
      - discriminate.
      - cbn [count_ones] in C. destruct (c =? b58_one); [|discriminate].
        destruct (m <? S k)%nat; [discriminate|]. eapply IH. exact C. }
  destruct (count_ones_split _ _ _ _ _ C) as [ones [E2 _]].
  assert (B2 : bytes s2).
  { unfold bytes in *. rewrite E2 in B1. apply Forall_app in B1. apply B1. }
  set (S := b58_dec_size (length s2)).
  pose proof dec_base_gt1 as Hbase.
  assert (Fit : (val_le b58_dec_base (repeat 0 S) + 1) * b58_dec_mul ^ Z.of_nat (length s2)
                <= b58_dec_base ^ Z.of_nat (length (repeat 0 S))).
  { rewrite (val_le_zeros _ _ (zeros_repeat S)), repeat_length.
    pose proof (b58_dec_buffer_bound (length s2)). fold S in H. lia. }
  pose proof (dec_loop_safe m z s2 0%nat (repeat 0 S) B2 (binv_init _ S Hbase) Fit) as D.
  destruct (dec_loop m z 0 (repeat 0 S) s2) as [[[len buf] s3]| |]; [|exact I|exact D].
  destruct D as [Inv _]. destruct (skip_spaces s3); [|exact I].
  destruct (binv_result _ len buf Hbase Inv) as [_ [RD _]].
  unfold bytes. apply Forall_app. split.
  - apply Forall_forall. intros c Hc. apply repeat_spec in Hc. subst. unfold is_byte. lia.
  - apply digits_rev in RD. exact RD.
Qed.

(** DecodeBase58(const std::string&): the assert is unreachable for every input *)
Theorem b58_decode_never_aborts s : bytes s -> b58_decode s <> Abort.
Proof.
  intros Hb. unfold b58_decode. destruct (existsb (fun c => c =? 0) s); [discriminate|].
  pose proof (b58_decode_c_safe s (length s + Z.to_nat b58_max_ret_add)%nat Hb) as H.
  destruct (b58_decode_c s (length s + Z.to_nat b58_max_ret_add)%nat); [discriminate|discriminate|destruct H].
Qed.

Theorem b58_decode_bytes s v : bytes s -> b58_decode s = Ok v -> bytes v.
Proof.
  intros Hb. unfold b58_decode. destruct (existsb (fun c => c =? 0) s); [discriminate|].
  pose proof (b58_decode_c_safe s (length s + Z.to_nat b58_max_ret_add)%nat Hb) as H.
  intros E. rewrite E in H. exact H.
Qed.
