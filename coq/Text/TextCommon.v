(** Shared vocabulary of the text-codec models (hex, base58, base59, address).
    Characters and bytes are numbers [0..255] (type [Z]); a C++ [std::string] /
    [std::vector<uint8_t>] is a [list Z]. Executable; no proofs in this file. *)
From Coq Require Import ZArith List Bool.
From VB Require Import Gen.TextTables.
Import ListNotations.
Local Open Scope Z_scope.

(** result of a decoder: [Ok v] = returned true with output [v]; [Invalid] =
    returned false (ValidationState invalid); [Abort] = a VBK_ASSERT fired or a
    raw index left its array (never totalised away) *)
Inductive outcome (A : Type) : Type :=
| Ok (a : A)
| Invalid
| Abort.
Arguments Ok {A} a.
Arguments Invalid {A}.
Arguments Abort {A}.

Definition is_byte (x : Z) : Prop := 0 <= x < 256.
Definition bytes (l : list Z) : Prop := Forall is_byte l.
Definition is_byteb (x : Z) : bool := (0 <=? x) && (x <? 256).

(** table lookup [t[c]]; outside the table the default is returned, callers that
    model a raw C++ index must test the range first and produce [Abort] *)
Definition lookup (t : list Z) (c : Z) : Z := nth (Z.to_nat c) t (-1).

(** IsSpace of strutil.hpp (generated set) *)
Definition is_space (c : Z) : bool := existsb (Z.eqb c) space_chars.

(** big-endian value of a digit list in base [b] *)
Fixpoint val_be_acc (b acc : Z) (l : list Z) : Z :=
  match l with [] => acc | x :: r => val_be_acc b (acc * b + x) r end.
Definition val_be (b : Z) (l : list Z) : Z := val_be_acc b 0 l.

(** [lo; lo+1; ...] ([n] elements) *)
Fixpoint zrange (lo : Z) (n : nat) : list Z :=
  match n with O => [] | S m => lo :: zrange (lo + 1) m end.
