(** Base58, part 5: the CONVERSE round trip. Whatever DecodeBase58 accepts is,
    up to leading/trailing spaces, exactly the text EncodeBase58 produces for
    the decoded bytes: there are no non-canonical encodings, and decoding is
    injective modulo surrounding white space. *)
From Coq Require Import ZArith List Bool Lia.
From VB Require Import Gen.TextTables Text.TextCommon Text.Base58Defs
  Text.Base58Proofs Text.Base58Proofs2 Text.Base58Proofs3.
Import ListNotations.
Local Open Scope Z_scope.
Ltac Zify.zify_post_hook ::= Z.div_mod_to_equations.

Definition tail_ok (tl : list Z) : Prop :=
  match tl with [] => True | c :: _ => is_space c = true end.

(** [dec_loop] on digit text followed by a tail that stops it *)
Lemma dec_loop_spec_tl m z tl : tail_ok tl -> forall D len buf,
  digits b58_dec_mul D -> binv b58_dec_base len buf ->
  (val_le b58_dec_base buf + 1) * b58_dec_mul ^ Z.of_nat (length D)
    <= b58_dec_base ^ Z.of_nat (length buf) ->
  (length buf + z <= m)%nat ->
  exists len' buf',
    dec_loop m z len buf (map b58_char D ++ tl) = Ok (len', buf', tl) /\ binv b58_dec_base len' buf'
    /\ length buf' = length buf
    /\ val_le b58_dec_base buf' = val_be_acc b58_dec_mul (val_le b58_dec_base buf) D.
Proof.
  intros Htl. induction D as [|d r IH]; intros len buf Dd Inv Fit Hm.
  - exists len, buf. cbn [map app val_be_acc].
    split; [|split; [exact Inv|split; reflexivity]].
    destruct tl as [|c tl']; [reflexivity|]. cbn [dec_loop]. cbn [tail_ok] in Htl. rewrite Htl. reflexivity.
  - inversion Dd as [|? ? Hd Dr]; subst.
    pose proof dec_mul_ge1 as Hmul. pose proof dec_base_gt1 as Hbase.
    destruct (b58_char_props d Hd) as [Hsp [_ Hlk]].
    pose proof (val_le_bound b58_dec_base buf ltac:(lia) (proj1 Inv)) as VB.
    cbn [length] in Fit. rewrite Nat2Z.inj_succ, Z.pow_succ_r in Fit by lia.
    set (V := val_le b58_dec_base buf) in *.
    set (M := b58_dec_mul ^ Z.of_nat (length r)) in *.
    set (P := b58_dec_base ^ Z.of_nat (length buf)) in *.
    assert (HM : 1 <= M) by (unfold M; pose proof (Z.pow_pos_nonneg b58_dec_mul (Z.of_nat (length r))); lia).
    assert (H1 : (V + 1) * b58_dec_mul * 1 <= (V + 1) * b58_dec_mul * M).
    { apply Z.mul_le_mono_nonneg_l; [apply Z.mul_nonneg_nonneg; lia|exact HM]. }
    assert (H2 : (V + 1) * b58_dec_mul * M <= P) by (rewrite <- Z.mul_assoc; exact Fit).
    assert (Hfit : d + b58_dec_mul * V < P) by lia.
    destruct (push_digit_spec b58_dec_mul b58_dec_base Hbase Hmul d len buf ltac:(lia) Inv Hfit)
      as [len1 [buf1 [E1 [Inv1 [L1 V1]]]]].
    cbn [map app dec_loop]. rewrite Hsp. cbv zeta. rewrite Hlk.
    destruct (Z.eqb_spec d (-1)) as [Em|_]; [lia|].
    rewrite E1.
    assert (Hl1 : (len1 <= length buf1)%nat) by (destruct Inv1 as [_ [_ [Hl _]]]; exact Hl).
    assert (Hchk : (m <? len1 + z)%nat = false) by (apply Nat.ltb_ge; lia).
    rewrite Hchk.
    assert (Fit1 : (val_le b58_dec_base buf1 + 1) * M <= b58_dec_base ^ Z.of_nat (length buf1)).
    { rewrite L1, V1. fold V. fold P.
      assert ((d + b58_dec_mul * V + 1) * M <= (V + 1) * b58_dec_mul * M)
        by (apply Z.mul_le_mono_nonneg_r; lia).
      lia. }
    destruct (IH len1 buf1 Dr Inv1 Fit1 ltac:(lia)) as [len2 [buf2 [E2 [Inv2 [L2 V2]]]]].
    exists len2, buf2. split; [exact E2|]. split; [exact Inv2|]. split; [lia|].
    rewrite V2, V1. cbn [val_be_acc]. f_equal. fold V. ring.
Qed.

Lemma skip_spaces_all_space sp : all_space sp -> skip_spaces sp = [].
Proof. induction 1 as [|c sp Hc _ IH]; [reflexivity|]. cbn [skip_spaces]. rewrite Hc. exact IH. Qed.

Lemma skip_spaces_app_space sp r : all_space sp -> skip_spaces (sp ++ r) = skip_spaces r.
Proof. induction 1 as [|c sp Hc _ IH]; [reflexivity|]. cbn [app skip_spaces]. rewrite Hc. exact IH. Qed.

Lemma all_space_tail_ok sp : all_space sp -> tail_ok sp.
Proof. intros H. destruct sp as [|c sp]; [exact I|]. inversion H; subst. assumption. Qed.

Lemma all_space_nonzero sp : all_space sp -> Forall (fun c => c <> 0) sp.
Proof.
  intros H. eapply Forall_impl; [|exact H]. intros c Hc E. subst.
  rewrite nul_not_space in Hc. discriminate.
Qed.

(** the part of the inner DecodeBase58 after the '1's have been counted *)
Lemma decode_after_ones m z D tl :
  all_space tl -> digits b58_dec_mul D ->
  (b58_dec_size (length (map b58_char D ++ tl)) + z <= m)%nat ->
  exists L,
    match dec_loop m z 0 (repeat 0 (b58_dec_size (length (map b58_char D ++ tl))))
                   (map b58_char D ++ tl) with
    | Ok (len, buf, s3) =>
        match skip_spaces s3 with
        | [] => Ok (repeat 0 z ++ rev (firstn len buf))
        | _ :: _ => Invalid
        end
    | Invalid => Invalid
    | Abort => Abort
    end = Ok (repeat 0 z ++ rev L)
    /\ digits b58_dec_base L /\ canon_le b58_dec_base L
    /\ val_le b58_dec_base L = val_be b58_dec_mul D.
Proof.
  intros Htl Dd Hm.
  set (S := b58_dec_size (length (map b58_char D ++ tl))) in *.
  pose proof dec_base_gt1 as Hbase.
  assert (Fit : (val_le b58_dec_base (repeat 0 S) + 1) * b58_dec_mul ^ Z.of_nat (length D)
                <= b58_dec_base ^ Z.of_nat (length (repeat 0 S))).
  { rewrite (val_le_zeros _ _ (zeros_repeat S)), repeat_length.
    pose proof (b58_dec_buffer_bound (length (map b58_char D ++ tl))) as B. fold S in B.
    assert (b58_dec_mul ^ Z.of_nat (length D) <= b58_dec_mul ^ Z.of_nat (length (map b58_char D ++ tl))).
    { apply Z.pow_le_mono_r; [reflexivity|]. rewrite app_length, map_length. lia. }
    lia. }
  assert (Hm' : (length (repeat 0%Z S) + z <= m)%nat) by (rewrite repeat_length; exact Hm).
  destruct (dec_loop_spec_tl m z tl (all_space_tail_ok _ Htl) D 0%nat (repeat 0 S) Dd
              (binv_init _ S Hbase) Fit Hm') as [len [buf [E [Inv [L V]]]]].
  rewrite E. rewrite (skip_spaces_all_space _ Htl).
  destruct (binv_result _ len buf Hbase Inv) as [RL [RD [RC RV]]].
  exists (firstn len buf). split; [reflexivity|]. split; [exact RD|]. split; [exact RC|].
  rewrite RV, V. rewrite (val_le_zeros _ _ (zeros_repeat S)). reflexivity.
Qed.

(** DECODER ON DIGIT TEXT SURROUNDED BY SPACES *)
Theorem b58_decode_text_sp sp1 z D sp2 :
  all_space sp1 -> all_space sp2 ->
  digits b58_dec_mul D ->
  match D with [] => True | d :: _ => d <> 0 end ->
  exists L,
    b58_decode (sp1 ++ repeat b58_one z ++ map b58_char D ++ sp2) = Ok (repeat 0 z ++ rev L)
    /\ digits b58_dec_base L /\ canon_le b58_dec_base L
    /\ val_le b58_dec_base L = val_be b58_dec_mul D.
Proof.
  intros A1 A2 Dd Hhead. set (T := map b58_char D).
  set (s := sp1 ++ repeat b58_one z ++ T ++ sp2).
  destruct (map_b58_char_props D Dd) as [Tnz Tns]. fold T in Tnz, Tns.
  unfold b58_decode.
  assert (Enul : existsb (fun c => c =? 0) s = false).
  { apply existsb_nul_false. unfold s. repeat (apply Forall_app; split);
      try (apply all_space_nonzero; assumption); try exact Tnz.
    apply Forall_forall. intros c Hc. apply repeat_spec in Hc. subst. exact b58_one_nonzero. }
  rewrite Enul. change (Z.to_nat b58_max_ret_add) with 1%nat.
  set (m := (length s + 1)%nat).
  assert (Hlen : length s = (length sp1 + (z + (length D + length sp2)))%nat)
    by (unfold s, T; rewrite !app_length, repeat_length, map_length; reflexivity).
  unfold b58_decode_c. unfold s at 1. rewrite (skip_spaces_app_space _ _ A1).
  destruct (b58_alphabet_no_space _ b58_one_in_alphabet) as [Hone_ns _].
  assert (Hsz : forall k, (b58_dec_size k <= k + 1)%nat).
  { intros k. unfold b58_dec_size. change b58_dec_size_num with 733.
    change b58_dec_size_den with 1000. change b58_dec_size_add with 1. lia. }
  (* is there anything between the spaces? *)
  destruct z as [|z'].
  - destruct D as [|d D'].
    + (* nothing: all spaces *)
      cbn [repeat app]. unfold T. cbn [map app]. rewrite (skip_spaces_all_space _ A2).
      cbn [count_ones].
      destruct (decode_after_ones m 0 [] [] ltac:(constructor) ltac:(constructor)) as [L [E R]].
      { cbn [map app length]. specialize (Hsz 0%nat). unfold m. lia. }
      exists L. split; [|exact R]. exact E.
    + (* digits only *)
      cbn [repeat app].
      assert (Hd0 : 0 <= d < b58_dec_mul) by (inversion Dd; assumption).
      destruct (b58_char_props d Hd0) as [Hc0 _].
      assert (Esk : skip_spaces (T ++ sp2) = T ++ sp2).
      { unfold T. cbn [map app skip_spaces]. rewrite Hc0. reflexivity. }
      rewrite Esk.
      assert (Hhd : match T ++ sp2 with [] => True | c :: _ => c <> b58_one end).
      { unfold T. cbn [map app]. intros E. inversion Dd; subst. apply Hhead. apply b58_char_one; assumption. }
      pose proof (count_ones_repeat m (T ++ sp2) 0 0%nat ltac:(lia) Hhd) as CO.
      cbn [repeat app Nat.add] in CO. rewrite CO.
      destruct (decode_after_ones m 0 (d :: D') sp2 A2 Dd) as [L [E R]].
      { fold T. specialize (Hsz (length (T ++ sp2))). rewrite app_length in *.
        unfold T in *. rewrite map_length in *. unfold m. rewrite Hlen. lia. }
      exists L. split; [|exact R]. exact E.
  - (* at least one '1' *)
    assert (Esk : skip_spaces (repeat b58_one (S z') ++ T ++ sp2) = repeat b58_one (S z') ++ T ++ sp2).
    { cbn [repeat app skip_spaces]. rewrite Hone_ns. reflexivity. }
    rewrite Esk.
    assert (Hhd : match T ++ sp2 with [] => True | c :: _ => c <> b58_one end).
    { unfold T. destruct D as [|d D'].
      - cbn [map app]. destruct sp2 as [|c sp2']; [exact I|]. inversion A2; subst.
        intros E. subst c. congruence.
      - cbn [map app]. intros E. inversion Dd; subst. apply Hhead. apply b58_char_one; assumption. }
    rewrite (count_ones_repeat m (T ++ sp2) (S z') 0%nat ltac:(unfold m; rewrite Hlen; lia) Hhd).
    cbn [Nat.add].
    destruct (decode_after_ones m (S z') D sp2 A2 Dd) as [L [E R]].
    { fold T. specialize (Hsz (length (T ++ sp2))). rewrite app_length in *.
      unfold T in *. rewrite map_length in *. unfold m. rewrite Hlen. lia. }
    exists L. split; [|exact R]. exact E.
Qed.

(** ------------------------------------------------------------ list facts *)

Lemma count_leading_repeat x z t :
  match t with [] => True | c :: _ => c <> x end ->
  count_leading x (repeat x z ++ t) = z /\ drop_leading x (repeat x z ++ t) = t.
Proof.
  intros Ht. induction z as [|z [IH1 IH2]].
  - cbn [repeat app]. destruct t as [|c t]; [split; reflexivity|].
    cbn [count_leading drop_leading]. destruct (Z.eqb_spec c x); [contradiction|split; reflexivity].
  - cbn [repeat app count_leading drop_leading]. rewrite Z.eqb_refl, IH1, IH2. split; reflexivity.
Qed.

(** a canonical little-endian list has a non-zero top digit *)
Lemma canon_le_top b L : 1 < b -> digits b L -> canon_le b L ->
  match rev L with [] => True | c :: _ => c <> 0 end.
Proof.
  intros Hb D C. destruct (rev L) as [|c r] eqn:E; [exact I|].
  assert (EL : L = rev r ++ [c]) by (rewrite <- (rev_involutive L), E; reflexivity).
  intros ->. destruct C as [C|C]; [rewrite EL in C; destruct (rev r); discriminate C|].
  rewrite EL in C, D. rewrite app_length, val_le_app in C. cbn [length val_le] in C.
  apply digits_app in D. destruct D as [D _].
  pose proof (val_le_bound b (rev r) ltac:(lia) D) as B.
  replace (Z.of_nat (length (rev r) + 1) - 1) with (Z.of_nat (length (rev r))) in C by lia.
  replace (0 + b * 0) with 0 in C by ring. lia.
Qed.

Lemma digit_chars_digits t : bytes t -> Forall digit_char t ->
  exists D, t = map b58_char D /\ digits b58_dec_mul D.
Proof.
  intros Hb H. apply alphabet_text_digits.
  apply Forall_forall. intros c Hc. unfold bytes in Hb. rewrite Forall_forall in Hb, H.
  destruct (H c Hc) as [_ Hd]. destruct (b58_map_inv c _ (Hb c Hc) eq_refl Hd) as [_ [_ R]]. exact R.
Qed.

(** ------------------------------------------------------------ CONVERSE ROUND TRIP *)

Theorem b58_decode_encode s v :
  bytes s -> b58_decode s = Ok v ->
  exists sp1 body sp2,
    s = sp1 ++ body ++ sp2 /\ all_space sp1 /\ all_space sp2 /\ b58_encode v = Ok body.
Proof.
  intros Hb Hv.
  destruct (b58_decode_shape s v Hv) as [_ [sp1 [ones [ds [sp2 [E [A1 [A2 [O Dc]]]]]]]]].
  exists sp1, (ones ++ ds), sp2. split; [rewrite <- app_assoc; exact E|]. split; [exact A1|].
  split; [exact A2|].
  set (body := ones ++ ds).
  assert (Bb : bytes body).
  { unfold bytes in *. rewrite E in Hb. apply Forall_app in Hb. destruct Hb as [_ Hb].
    rewrite app_assoc in Hb. apply Forall_app in Hb. apply Hb. }
  assert (Bd : Forall digit_char body).
  { unfold body. apply Forall_app. split; [|exact Dc].
    eapply Forall_impl; [|exact O]. intros c ->. split.
    - apply b58_alphabet_no_space. exact b58_one_in_alphabet.
    - destruct b58_one_is_digit0 as [_ M]. rewrite M. discriminate. }
  set (z := count_leading b58_one body). set (T := drop_leading b58_one body).
  assert (EB : body = repeat b58_one z ++ T) by apply count_drop.
  destruct (digit_chars_digits T (drop_leading_Forall _ _ _ Bb) (drop_leading_Forall _ _ _ Bd))
    as [D [ET DD]].
  assert (Hhead : match D with [] => True | d :: _ => d <> 0 end).
  { pose proof (drop_leading_head b58_one body) as Hh. fold T in Hh. rewrite ET in Hh.
    destruct D as [|d D']; [exact I|]. cbn [map] in Hh. intros ->. apply Hh.
    symmetry. apply b58_one_is_digit0. }
  assert (Es : s = sp1 ++ repeat b58_one z ++ map b58_char D ++ sp2).
  { rewrite E. f_equal. rewrite app_assoc. fold body. rewrite EB, ET, <- app_assoc. reflexivity. }
  destruct (b58_decode_text_sp sp1 z D sp2 A1 A2 DD Hhead) as [L [E2 [LD [LC LV]]]].
  rewrite <- Es, Hv in E2. inversion E2 as [Ev]. clear E2.
  assert (Bv : bytes v).
  { rewrite Ev. unfold bytes. apply Forall_app. split.
    - apply Forall_forall. intros c Hc. apply repeat_spec in Hc. subst. unfold is_byte. lia.
    - apply digits_rev in LD. exact LD. }
  destruct (b58_encode_spec v Bv) as [D' [EE [DD' [Hhead' [HV' _]]]]].
  pose proof (canon_le_top _ L dec_base_gt1 LD LC) as Htop.
  destruct (count_leading_repeat 0 z (rev L) Htop) as [CL DL].
  rewrite Ev in EE, HV'. rewrite CL in EE. rewrite DL in HV'.
  rewrite EE. f_equal. rewrite EB, ET. f_equal. f_equal.
  (* D' = D: both canonical base-58 digit lists of the same value *)
  assert (ER : rev D' = rev D).
  { apply (canon_unique b58_enc_base); [exact enc_base_gt1|apply digits_rev; exact DD'
      |apply digits_rev; exact DD|apply canon_le_rev; [exact enc_base_gt1|exact DD'|exact Hhead']
      |apply canon_le_rev; [exact enc_base_gt1|exact DD|exact Hhead]|].
    rewrite <- !val_be_le. rewrite HV'. change b58_enc_mul with b58_dec_base.
    rewrite val_be_le, rev_involutive. rewrite LV. reflexivity. }
  rewrite <- (rev_involutive D'), ER. apply rev_involutive.
Qed.

(** decoding is injective modulo surrounding white space *)
Corollary b58_decode_injective s1 s2 v :
  bytes s1 -> bytes s2 -> b58_decode s1 = Ok v -> b58_decode s2 = Ok v ->
  exists a1 b1 a2 b2 body,
    s1 = a1 ++ body ++ b1 /\ s2 = a2 ++ body ++ b2
    /\ all_space a1 /\ all_space b1 /\ all_space a2 /\ all_space b2.
Proof.
  intros B1 B2 H1 H2.
  destruct (b58_decode_encode s1 v B1 H1) as [a1 [body1 [b1 [E1 [A1 [A1' EN1]]]]]].
  destruct (b58_decode_encode s2 v B2 H2) as [a2 [body2 [b2 [E2 [A2 [A2' EN2]]]]]].
  rewrite EN1 in EN2. inversion EN2; subst body2.
  exists a1, b1, a2, b2, body1. repeat split; assumption.
Qed.
