(** Executable model of the hex helpers of strutil.hpp / strutil.cpp:
    HexStr, ParseHex(const char* ), IsHex. Characters/bytes are numbers 0..255,
    strings and vectors are [list Z]. All tables come from Gen.TextTables BY NAME.
    No proofs in this file. *)
From Coq Require Import ZArith List Bool.
From VB Require Import Gen.TextTables Text.TextCommon.
Import ListNotations.
Local Open Scope Z_scope.

(** hexmap[i] of HexStr: a raw index into a 16-entry array; the indices are
    [val >> 4] and [val & 15] of a uint8 and therefore always < 16. *)
Definition hex_char (i : Z) : Z := nth (Z.to_nat i) hex_map 0.

(** HexStr(begin, end): [val = (uint8_t)( *it)], push hexmap[val >> 4], hexmap[val & 15] *)
Fixpoint hex_str (bs : list Z) : list Z :=
  match bs with
  | [] => []
  | b :: r =>
      let v := b mod 256 in
      hex_char (Z.shiftr v 4) :: hex_char (Z.land v 15) :: hex_str r
  end.

(** HexDigit(c) = p_util_hexdigit[(unsigned char)c] *)
Definition hex_digit_of (c : Z) : Z := lookup hex_digit c.

(** the memory ParseHex(const char* ) walks over: the text up to the first NUL,
    followed by the NUL terminator *)
Fixpoint c_text (s : list Z) : list Z :=
  match s with
  | [] => []
  | c :: r => if c =? 0 then [] else c :: c_text r
  end.
Definition c_string (s : list Z) : list Z := c_text s ++ [0].

Definition ocons {A} (x : A) (o : outcome (list A)) : outcome (list A) :=
  match o with Ok l => Ok (x :: l) | Invalid => Invalid | Abort => Abort end.

(** The loop of ParseHex as a state machine over the characters of the C string
    [mem] (terminator included). [st = None]: at the top of the loop body
    (skipping spaces, then reading the high digit); [st = Some hi]: the high
    digit [hi] has been read, the low digit comes next. Running off the end of
    [mem] (= reading beyond the NUL terminator) is [Abort]; HexProofs shows it
    never happens because NUL is neither a space nor a hex digit.
      uint8_t n = (c << 4u);   -> (hi << 4) mod 256
      n |= c;                  -> lor
    A dangling single digit is dropped ([break] before push_back). *)
Fixpoint parse_hex_go (st : option Z) (mem : list Z) : outcome (list Z) :=
  match mem with
  | [] => Abort
  | c :: r =>
      match st with
      | None =>
          if is_space c then parse_hex_go None r
          else
            let d := hex_digit_of c in
            if d =? -1 then Ok [] else parse_hex_go (Some d) r
      | Some hi =>
          let d := hex_digit_of c in
          if d =? -1 then Ok []
          else ocons (Z.lor (Z.shiftl hi 4 mod 256) d) (parse_hex_go None r)
      end
  end.

(** ParseHex on explicit memory (outcome-valued) *)
Definition parse_hex_mem (mem : list Z) : outcome (list Z) := parse_hex_go None mem.

(** ParseHex(const char* ) / ParseHex(const std::string&) (the latter passes
    c_str(), so an embedded NUL cuts the text). [parse_hex_mem (c_string s)] is
    always [Ok] (HexProofs.parse_hex_no_overrun); the other branches are dead. *)
Definition parse_hex (s : list Z) : list Z :=
  match parse_hex_mem (c_string s) with
  | Ok v => v
  | _ => []
  end.

(** IsHex: every character a hex digit, non-empty, even length *)
Definition is_hex (s : list Z) : bool :=
  forallb (fun c => negb (hex_digit_of c <? 0)) s
  && negb (match s with [] => true | _ => false end)
  && (Z.of_nat (length s) mod 2 =? 0).
