(** Proofs about the base59 model (Text/Base59Defs.v): table lemmas over the
    GENERATED tables, rejection of foreign characters, digit-level correctness of
    the two in-place long divisions (with the C++ widths), absence of Abort
    (buffer overflow of [temp], negative iterator), and the round trip
    [b59_decode (b59_encode bs) = Ok bs] for all byte strings. *)
From Coq Require Import ZArith List Bool Lia.
From VB Require Import Base.Bits Gen.TextTables Text.TextCommon Text.Base59Defs.
Import ListNotations.
Local Open Scope Z_scope.
Ltac Zify.zify_post_hook ::= Z.div_mod_to_equations.

(** * Sanity examples (vectors of /repo/test/pop/base59_test.cpp) *)
Example ex_enc_001 : b59_encode [0;0;1] = [49;49;50].
Proof. vm_compute. reflexivity. Qed.
Example ex_dec_001 : b59_decode (b59_encode [0;0;1]) = Ok [0;0;1].
Proof. vm_compute. reflexivity. Qed.
Example ex_dec_high : b59_decode [49;200] = Invalid.
Proof. vm_compute. reflexivity. Qed.
Example ex_dec_I : b59_decode [49;73] = Invalid.   (* 'I' is not in the alphabet *)
Proof. vm_compute. reflexivity. Qed.
(* "b4df3138d6b98a5a6350e653f4d6cb0c" <-> "GcJp9rfcTQfG104YwUGAk9" *)
Example ex_vec_enc :
  b59_encode [180;223;49;56;214;185;138;90;99;80;230;83;244;214;203;12]
  = [71;99;74;112;57;114;102;99;84;81;102;71;49;48;52;89;119;85;71;65;107;57].
Proof. vm_compute. reflexivity. Qed.
Example ex_vec_dec :
  b59_decode [71;99;74;112;57;114;102;99;84;81;102;71;49;48;52;89;119;85;71;65;107;57]
  = Ok [180;223;49;56;214;185;138;90;99;80;230;83;244;214;203;12].
Proof. vm_compute. reflexivity. Qed.
(* 34 zero bytes <-> 34 times '1' *)
Example ex_zeros : b59_encode (repeat 0 34) = repeat 49 34
                   /\ b59_decode (repeat 49 34) = Ok (repeat 0 34).
Proof. vm_compute. split; reflexivity. Qed.

(** * Small generic facts *)
Definition dig (B : Z) (l : list Z) : Prop := Forall (fun d => 0 <= d < B) l.
(** no leading zero digit *)
Definition hd_nz (l : list Z) : Prop := forall d t, l = d :: t -> d <> 0.

Lemma bytes_dig l : bytes l <-> dig 256 l.
Proof. unfold bytes, dig, is_byte. reflexivity. Qed.

Lemma in_zrange n : forall lo x, lo <= x < lo + Z.of_nat n -> In x (zrange lo n).
Proof.
  induction n as [|n IH]; intros lo x H.
  - lia.
  - cbn [zrange]. destruct (Z.eq_dec lo x) as [->|Hne]; [left; reflexivity|].
    right. apply IH. lia.
Qed.

Lemma zrange_sweep (P : Z -> bool) lo n :
  forallb P (zrange lo n) = true ->
  forall x, lo <= x < lo + Z.of_nat n -> P x = true.
Proof.
  intros H x Hx. rewrite forallb_forall in H. apply H. apply in_zrange. exact Hx.
Qed.

Lemma b59_base_val : b59_base = 59. Proof. reflexivity. Qed.
Lemma b59_base256_val : b59_base256 = 256. Proof. reflexivity. Qed.

(** * (a) Table lemmas, checked on the generated tables *)
Lemma b59_alphabet_length : length b59_alphabet = 59%nat.
Proof. vm_compute. reflexivity. Qed.

Lemma b59_base_is_alphabet_length : b59_base = Z.of_nat (length b59_alphabet).
Proof. vm_compute. reflexivity. Qed.

Lemma b59_indexes_length : length b59_indexes = 128%nat.
Proof. vm_compute. reflexivity. Qed.

Lemma b59_alphabet_lt128 : Forall (fun c => 0 <= c < 128) b59_alphabet.
Proof.
  apply Forall_forall. intros c Hc.
  assert (H : forallb (fun c => (0 <=? c) && (c <? 128)) b59_alphabet = true)
    by (vm_compute; reflexivity).
  rewrite forallb_forall in H. specialize (H c Hc). lia.
Qed.

(** the index table maps every alphabet character back to its digit *)
Lemma b59_index_of_char d :
  0 <= d < 59 -> lookup b59_indexes (char_of_digit d) = d.
Proof.
  intros Hd.
  assert (H : forallb (fun d => lookup b59_indexes (char_of_digit d) =? d)
                      (zrange 0 59) = true) by (vm_compute; reflexivity).
  apply Z.eqb_eq. apply (zrange_sweep _ 0 59 H). lia.
Qed.

Lemma b59_char_range d : 0 <= d < 59 -> 0 <= char_of_digit d < 128.
Proof.
  intros Hd.
  assert (H : forallb (fun d => (0 <=? char_of_digit d) && (char_of_digit d <? 128))
                      (zrange 0 59) = true) by (vm_compute; reflexivity).
  pose proof (zrange_sweep _ 0 59 H d) as H1. cbv beta in H1. lia.
Qed.

(** every table entry is -1 or a digit whose alphabet character is the index:
    the table is -1 exactly outside the alphabet *)
Lemma b59_char_of_index c :
  0 <= c < 128 ->
  lookup b59_indexes c = -1 \/
  (0 <= lookup b59_indexes c < 59 /\ char_of_digit (lookup b59_indexes c) = c).
Proof.
  intros Hc.
  assert (H : forallb (fun c => let d := lookup b59_indexes c in
                         (d =? -1) || ((0 <=? d) && (d <? 59) && (char_of_digit d =? c)))
                      (zrange 0 128) = true) by (vm_compute; reflexivity).
  pose proof (zrange_sweep _ 0 128 H c) as H1. cbv beta zeta in H1.
  destruct (lookup b59_indexes c =? -1) eqn:E.
  - left. lia.
  - right. cbn [orb] in H1. specialize (H1 ltac:(lia)).
    apply andb_prop in H1. destruct H1 as [H1 H2]. lia.
Qed.

Lemma in_alphabet_iff c : In c b59_alphabet <-> exists d, 0 <= d < 59 /\ char_of_digit d = c.
Proof.
  split.
  - intros H. destruct (In_nth _ _ 0 H) as [n [Hn Hc]].
    rewrite b59_alphabet_length in Hn.
    exists (Z.of_nat n). split; [lia|]. unfold char_of_digit. rewrite Nat2Z.id. exact Hc.
  - intros [d [Hd <-]]. unfold char_of_digit. apply nth_In.
    rewrite b59_alphabet_length. lia.
Qed.

(** table <-> alphabet: a character below 128 has a non-negative entry iff it is
    in the alphabet *)
Lemma b59_index_nonneg_iff c :
  0 <= c < 128 -> (0 <= lookup b59_indexes c <-> In c b59_alphabet).
Proof.
  intros Hc. rewrite in_alphabet_iff. split.
  - intros H. destruct (b59_char_of_index c Hc) as [E|[Hr He]]; [lia|].
    exists (lookup b59_indexes c). split; assumption.
  - intros [d [Hd <-]]. rewrite b59_index_of_char by exact Hd. lia.
Qed.

Lemma char_of_digit_inj d1 d2 :
  0 <= d1 < 59 -> 0 <= d2 < 59 -> char_of_digit d1 = char_of_digit d2 -> d1 = d2.
Proof.
  intros H1 H2 E. rewrite <- (b59_index_of_char d1 H1), <- (b59_index_of_char d2 H2), E.
  reflexivity.
Qed.

Lemma b59_alphabet_NoDup : NoDup b59_alphabet.
Proof.
  apply (NoDup_nth b59_alphabet 0). intros i j Hi Hj E.
  rewrite b59_alphabet_length in Hi, Hj.
  assert (Z.of_nat i = Z.of_nat j); [|lia].
  apply char_of_digit_inj; [lia|lia|]. unfold char_of_digit. rewrite !Nat2Z.id. exact E.
Qed.

(** * C++ width facts *)
Lemma u8_id x : 0 <= x < 256 -> u8 x = x.
Proof. intros H. unfold u8. apply Z.mod_small. exact H. Qed.

Lemma land255 x : Z.land x 255 = x mod 256.
Proof. change 255 with (2 ^ 8 - 1). change 256 with (2 ^ 8). apply land_ones_mod. lia. Qed.

(** [(uint32_t)number[i] & 0xFF] is the byte itself *)
Lemma land255_byte x : 0 <= x < 256 -> Z.land x 255 = x.
Proof. intros H. rewrite land255. apply Z.mod_small. exact H. Qed.

(** [(int8_t)number59[i] & 0xFF] is the byte itself (sign extension undone) *)
Lemma s8_land255 x : 0 <= x < 256 -> Z.land (s8 x) 255 = x.
Proof.
  intros H. rewrite land255. unfold s8. destruct (x <? 128) eqn:E.
  - apply Z.mod_small. exact H.
  - lia.
Qed.

(** * (b) The character loop of the decoder *)
Lemma dec_chars_unfold ch r :
  dec_chars (ch :: r) =
  if u8 ch >=? Z.of_nat (length b59_indexes) then
    (if b59_bounds_checked =? 1 then Invalid else Abort)
  else if lookup b59_indexes (u8 ch) <? 0 then Invalid
       else match dec_chars r with Ok ds => Ok (u8 (lookup b59_indexes (u8 ch)) :: ds) | o => o end.
Proof. reflexivity. Qed.

(** a byte outside the alphabet fails one of the two tests *)
Lemma foreign_char_fails c :
  is_byte c -> ~ In c b59_alphabet ->
  (c >=? Z.of_nat (length b59_indexes)) = true \/
  ((c >=? Z.of_nat (length b59_indexes)) = false /\ (lookup b59_indexes c <? 0) = true).
Proof.
  intros Hb Hn. rewrite b59_indexes_length. change (Z.of_nat 128) with 128.
  destruct (c >=? 128) eqn:E; [left; reflexivity|right; split; [reflexivity|]].
  assert (Hc : 0 <= c < 128) by (unfold is_byte in Hb; lia).
  pose proof (b59_index_nonneg_iff c Hc) as Hi.
  destruct (lookup b59_indexes c <? 0) eqn:E2; [reflexivity|].
  exfalso. apply Hn, Hi. lia.
Qed.

(** never [Abort] in the character loop *)
Lemma dec_chars_no_abort s : dec_chars s <> Abort.
Proof.
  induction s as [|ch r IH]; [discriminate|].
  rewrite dec_chars_unfold.
  destruct (u8 ch >=? _); [discriminate|].
  destruct (_ <? 0); [discriminate|].
  destruct (dec_chars r); [discriminate|discriminate|exact IH].
Qed.

Lemma dec_chars_rejects s :
  bytes s -> (exists c, In c s /\ ~ In c b59_alphabet) -> dec_chars s = Invalid.
Proof.
  induction s as [|ch r IH]; intros Hb [c [Hin Hn]]; [destruct Hin|].
  inversion Hb as [|? ? Hch Hr]; subst.
  rewrite dec_chars_unfold, (u8_id ch Hch).
  destruct (ch >=? Z.of_nat (length b59_indexes)) eqn:E1; [reflexivity|].
  destruct (lookup b59_indexes ch <? 0) eqn:E2; [reflexivity|].
  destruct Hin as [->|Hin].
  - destruct (foreign_char_fails c Hch Hn) as [H|[_ H]]; congruence.
  - rewrite (IH Hr (ex_intro _ c (conj Hin Hn))). reflexivity.
Qed.

Lemma b59_decode_unfold s :
  b59_decode s =
  match dec_chars s with
  | Ok input59 =>
      let zeroCount := zero_count input59 in
      match dec_loop (length s) input59 zeroCount [] with
      | Ok (acc, j) =>
          let aj := strip_lead 0 acc j in
          if (snd aj <? zeroCount)%nat then Abort
          else Ok (repeat 0 zeroCount ++ fst aj)
      | Invalid => Invalid
      | Abort => Abort
      end
  | Invalid => Invalid
  | Abort => Abort
  end.
Proof. destruct s; reflexivity. Qed.

(** every character outside the alphabet (>= 128 included) is rejected *)
Theorem b59_decode_rejects s :
  bytes s -> (exists c, In c s /\ ~ In c b59_alphabet) -> b59_decode s = Invalid.
Proof.
  intros Hb He. rewrite b59_decode_unfold, (dec_chars_rejects s Hb He). reflexivity.
Qed.

(** on alphabet-only text the character loop yields the digits *)
Lemma dec_chars_map ds : dig 59 ds -> dec_chars (map char_of_digit ds) = Ok ds.
Proof.
  induction ds as [|d r IH]; intros H; [reflexivity|].
  inversion H as [|? ? Hd Hr]; subst. cbn [map]. rewrite dec_chars_unfold.
  pose proof (b59_char_range d Hd) as Hc.
  rewrite (u8_id (char_of_digit d)) by lia.
  rewrite b59_indexes_length. change (Z.of_nat 128) with 128.
  destruct (char_of_digit d >=? 128) eqn:E1; [lia|].
  rewrite (b59_index_of_char d Hd).
  destruct (d <? 0) eqn:E2; [lia|].
  rewrite (IH Hr), (u8_id d) by lia. reflexivity.
Qed.

Lemma alphabet_text_digits s :
  Forall (fun c => In c b59_alphabet) s -> exists ds, dig 59 ds /\ s = map char_of_digit ds.
Proof.
  induction s as [|c r IH]; intros H.
  - exists []. split; [constructor|reflexivity].
  - inversion H as [|? ? Hc Hr]; subst. destruct (IH Hr) as [ds [Hd ->]].
    apply in_alphabet_iff in Hc. destruct Hc as [d [Hd0 <-]].
    exists (d :: ds). split; [constructor; assumption|reflexivity].
Qed.

(** * Big-endian values *)
Lemma val_be_acc_spec b l : forall acc,
  val_be_acc b acc l = acc * b ^ Z.of_nat (length l) + val_be b l.
Proof.
  unfold val_be. induction l as [|x r IH]; intros acc.
  - cbn [val_be_acc length]. change (Z.of_nat 0) with 0. rewrite Z.pow_0_r. lia.
  - cbn [val_be_acc length]. rewrite (IH (acc * b + x)), (IH (0 * b + x)).
    rewrite Nat2Z.inj_succ, Z.pow_succ_r by lia. ring.
Qed.

Lemma val_be_nil b : val_be b [] = 0.
Proof. reflexivity. Qed.

Lemma val_be_cons b x l : val_be b (x :: l) = x * b ^ Z.of_nat (length l) + val_be b l.
Proof.
  unfold val_be at 1. cbn [val_be_acc]. rewrite val_be_acc_spec. ring.
Qed.

Lemma val_be_app b l1 l2 :
  val_be b (l1 ++ l2) = val_be b l1 * b ^ Z.of_nat (length l2) + val_be b l2.
Proof.
  induction l1 as [|x r IH].
  - cbn [app]. rewrite val_be_nil. ring.
  - cbn [app]. rewrite !val_be_cons, IH, app_length, Nat2Z.inj_add, Z.pow_add_r by lia. ring.
Qed.

Lemma val_be_snoc b l x : val_be b (l ++ [x]) = val_be b l * b + x.
Proof.
  rewrite val_be_app. cbn [length]. change (Z.of_nat 1) with 1.
  rewrite Z.pow_1_r, val_be_cons, val_be_nil. cbn [length]. change (Z.of_nat 0) with 0.
  rewrite Z.pow_0_r. ring.
Qed.

Lemma val_be_zero_cons b l : val_be b (0 :: l) = val_be b l.
Proof. rewrite val_be_cons. ring. Qed.

Lemma val_be_repeat0 b k l : val_be b (repeat 0 k ++ l) = val_be b l.
Proof.
  induction k as [|k IH]; [reflexivity|]. cbn [repeat app]. rewrite val_be_zero_cons. exact IH.
Qed.

Lemma val_be_bound b l : 0 < b -> dig b l -> 0 <= val_be b l < b ^ Z.of_nat (length l).
Proof.
  intros Hb. induction l as [|x r IH]; intros H.
  - rewrite val_be_nil. cbn [length]. change (Z.of_nat 0) with 0. rewrite Z.pow_0_r. lia.
  - inversion H as [|? ? Hx Hr]; subst. specialize (IH Hr).
    rewrite val_be_cons. cbn [length]. rewrite Nat2Z.inj_succ, Z.pow_succ_r by lia.
    set (P := b ^ Z.of_nat (length r)) in *. nia.
Qed.

(** a number with non-zero leading digit is at least b^(n-1) *)
Lemma val_be_lower b x r : 0 < b -> dig b (x :: r) -> x <> 0 ->
  b ^ Z.of_nat (length r) <= val_be b (x :: r).
Proof.
  intros Hb H Hx. inversion H as [|? ? Hx0 Hr]; subst.
  pose proof (val_be_bound b r Hb Hr) as Hv. rewrite val_be_cons.
  set (P := b ^ Z.of_nat (length r)) in *. nia.
Qed.

Lemma hd_nz_nil : hd_nz [].
Proof. intros d t H. discriminate. Qed.

Lemma hd_nz_cons x l : x <> 0 -> hd_nz (x :: l).
Proof. intros Hx d t H. injection H as -> _. exact Hx. Qed.

(** positional notation without leading zero is unique *)
Lemma val_be_inj_len b : 1 < b -> forall l1 l2,
  length l1 = length l2 -> dig b l1 -> dig b l2 -> val_be b l1 = val_be b l2 -> l1 = l2.
Proof.
  intros Hb. induction l1 as [|x1 r1 IH]; intros [|x2 r2] Hl H1 H2 Hv; try discriminate.
  - reflexivity.
  - cbn [length] in Hl. injection Hl as Hl.
    inversion H1 as [|? ? Hx1 Hr1]; inversion H2 as [|? ? Hx2 Hr2]; subst.
    rewrite !val_be_cons, Hl in Hv.
    pose proof (val_be_bound b r1 ltac:(lia) Hr1) as B1.
    pose proof (val_be_bound b r2 ltac:(lia) Hr2) as B2.
    rewrite Hl in B1. set (P := b ^ Z.of_nat (length r2)) in *.
    assert (x1 = x2) by nia. subst x2.
    f_equal. apply IH; [exact Hl|exact Hr1|exact Hr2|lia].
Qed.

Lemma canon_length_le b : 1 < b -> forall l1 l2,
  dig b l1 -> dig b l2 -> hd_nz l1 -> val_be b l1 <= val_be b l2 ->
  (length l1 <= length l2)%nat.
Proof.
  intros Hb l1 l2 H1 H2 N1 Hv.
  destruct l1 as [|x1 r1]; [cbn [length]; lia|].
  pose proof (val_be_lower b x1 r1 ltac:(lia) H1 (N1 x1 r1 eq_refl)) as L1.
  pose proof (val_be_bound b l2 ltac:(lia) H2) as B2.
  cbn [length].
  destruct (le_lt_dec (S (length r1)) (length l2)) as [Hle|Hgt]; [exact Hle|exfalso].
  assert (b ^ Z.of_nat (length l2) <= b ^ Z.of_nat (length r1))
    by (apply Z.pow_le_mono_r; lia).
  lia.
Qed.

Theorem canon_unique b : 1 < b -> forall l1 l2,
  dig b l1 -> dig b l2 -> hd_nz l1 -> hd_nz l2 -> val_be b l1 = val_be b l2 -> l1 = l2.
Proof.
  intros Hb l1 l2 H1 H2 N1 N2 Hv.
  apply (val_be_inj_len b Hb); try assumption.
  apply Nat.le_antisymm; apply (canon_length_le b Hb); try assumption; lia.
Qed.

(** * (c) The in-place long divisions *)
Lemma divmod59_go_cons d r rem :
  divmod59_go (d :: r) rem =
  let temp := rem * b59_base256 + Z.land d 255 in
  (u8 (temp / b59_base) :: fst (divmod59_go r (temp mod b59_base)),
   snd (divmod59_go r (temp mod b59_base))).
Proof. reflexivity. Qed.

Lemma divmod256_go_cons d r rem :
  divmod256_go (d :: r) rem =
  let temp := rem * b59_base + Z.land (s8 d) 255 in
  (u8 (temp / b59_base256) :: fst (divmod256_go r (temp mod b59_base256)),
   snd (divmod256_go r (temp mod b59_base256))).
Proof. reflexivity. Qed.

(** no-truncation facts: this is where the C++ widths matter *)
Lemma div59_fits rem d : 0 <= rem < 59 -> 0 <= d < 256 ->
  0 <= (rem * 256 + d) / 59 < 256 /\ 0 <= (rem * 256 + d) mod 59 < 59.
Proof. intros H1 H2. lia. Qed.

Lemma div256_fits rem d : 0 <= rem < 256 -> 0 <= d < 256 ->
  0 <= (rem * 59 + d) / 256 < 256 /\ 0 <= (rem * 59 + d) mod 256 < 256.
Proof. intros H1 H2. lia. Qed.

Lemma div256_fits59 rem d : 0 <= rem < 256 -> 0 <= d < 59 ->
  0 <= (rem * 59 + d) / 256 < 59.
Proof. intros H1 H2. lia. Qed.

Lemma divmod59_go_spec l : forall rem, 0 <= rem < 59 -> bytes l ->
  let q := fst (divmod59_go l rem) in
  let r := snd (divmod59_go l rem) in
  rem * 256 ^ Z.of_nat (length l) + val_be 256 l = 59 * val_be 256 q + r
  /\ 0 <= r < 59 /\ bytes q /\ length q = length l.
Proof.
  induction l as [|d t IH]; intros rem Hrem Hb.
  - cbn [divmod59_go fst snd length]. rewrite (u8_id rem) by lia.
    rewrite val_be_nil. change (Z.of_nat 0) with 0. rewrite Z.pow_0_r.
    repeat split; try lia; constructor.
  - inversion Hb as [|? ? Hd Ht]; subst. unfold is_byte in Hd.
    rewrite divmod59_go_cons. cbv zeta. cbn [fst snd].
    rewrite b59_base_val, b59_base256_val, (land255_byte d Hd).
    destruct (div59_fits rem d Hrem Hd) as [Hq Hm].
    rewrite (u8_id _ Hq).
    specialize (IH ((rem * 256 + d) mod 59) Hm Ht). cbv zeta in IH.
    destruct IH as [Hv [Hr [Hbq Hl]]].
    split; [|split; [exact Hr|split; [constructor; [exact Hq|exact Hbq]|cbn [length]; lia]]].
    rewrite !val_be_cons, Hl. cbn [length]. rewrite Nat2Z.inj_succ, Z.pow_succ_r by lia.
    set (P := 256 ^ Z.of_nat (length t)) in *.
    pose proof (Z.div_mod (rem * 256 + d) 59 ltac:(lia)) as E.
    set (Q := (rem * 256 + d) / 59) in *. set (M := (rem * 256 + d) mod 59) in *.
    assert (E2 : (rem * 256 + d) * P = (59 * Q + M) * P) by (rewrite <- E; reflexivity).
    lia.
Qed.

Lemma divmod256_go_spec l : forall rem, 0 <= rem < 256 -> bytes l ->
  let q := fst (divmod256_go l rem) in
  let r := snd (divmod256_go l rem) in
  rem * 59 ^ Z.of_nat (length l) + val_be 59 l = 256 * val_be 59 q + r
  /\ 0 <= r < 256 /\ bytes q /\ length q = length l /\ (dig 59 l -> dig 59 q).
Proof.
  induction l as [|d t IH]; intros rem Hrem Hb.
  - cbn [divmod256_go fst snd length]. rewrite (u8_id rem) by lia.
    rewrite val_be_nil. change (Z.of_nat 0) with 0. rewrite Z.pow_0_r.
    repeat split; try lia; constructor.
  - inversion Hb as [|? ? Hd Ht]; subst. unfold is_byte in Hd.
    rewrite divmod256_go_cons. cbv zeta. cbn [fst snd].
    rewrite b59_base_val, b59_base256_val, (s8_land255 d Hd).
    destruct (div256_fits rem d Hrem Hd) as [Hq Hm].
    rewrite (u8_id _ Hq).
    specialize (IH ((rem * 59 + d) mod 256) Hm Ht). cbv zeta in IH.
    destruct IH as [Hv [Hr [Hbq [Hl H59]]]].
    split; [|split; [exact Hr|split; [constructor; [exact Hq|exact Hbq]|split; [cbn [length]; lia|]]]].
    + rewrite !val_be_cons, Hl. cbn [length]. rewrite Nat2Z.inj_succ, Z.pow_succ_r by lia.
      set (P := 59 ^ Z.of_nat (length t)) in *.
      pose proof (Z.div_mod (rem * 59 + d) 256 ltac:(lia)) as E.
      set (Q := (rem * 59 + d) / 256) in *. set (M := (rem * 59 + d) mod 256) in *.
      assert (E2 : (rem * 59 + d) * P = (256 * Q + M) * P) by (rewrite <- E; reflexivity).
      lia.
    + intros H. inversion H as [|? ? Hd59 Ht59]; subst.
      constructor; [apply div256_fits59; assumption|apply H59; exact Ht59].
Qed.

Lemma skipn_len_app {A} (pre suf : list A) : skipn (length pre) (pre ++ suf) = suf.
Proof. induction pre as [|x r IH]; [reflexivity|exact IH]. Qed.

Lemma firstn_len_app {A} (pre suf : list A) : firstn (length pre) (pre ++ suf) = pre.
Proof. induction pre as [|x r IH]; [reflexivity|cbn [length app firstn]; f_equal; exact IH]. Qed.

Lemma nth_len_app {A} (pre suf : list A) d : nth (length pre) (pre ++ suf) d = hd d suf.
Proof. induction pre as [|x r IH]; [destruct suf; reflexivity|exact IH]. Qed.

Lemma divmod59_split pre suf :
  divmod59 (pre ++ suf) (length pre) =
  (pre ++ fst (divmod59_go suf 0), snd (divmod59_go suf 0)).
Proof. unfold divmod59. rewrite skipn_len_app, firstn_len_app. reflexivity. Qed.

Lemma divmod256_split pre suf :
  divmod256 (pre ++ suf) (length pre) =
  (pre ++ fst (divmod256_go suf 0), snd (divmod256_go suf 0)).
Proof. unfold divmod256. rewrite skipn_len_app, firstn_len_app. reflexivity. Qed.

(** divmod59(number, 0) on a base-256 number: quotient in place, remainder returned *)
Theorem divmod59_correct num q r :
  bytes num -> divmod59 num 0 = (q, r) ->
  val_be 256 num = 59 * val_be 256 q + r /\ 0 <= r < 59 /\ bytes q /\ length q = length num.
Proof.
  intros Hb E. change (divmod59 num 0) with (divmod59 ([] ++ num) (@length Z [])) in E.
  rewrite divmod59_split in E. cbn [app] in E. injection E as <- <-.
  pose proof (divmod59_go_spec num 0 ltac:(lia) Hb) as H. cbv zeta in H.
  rewrite Z.mul_0_l, Z.add_0_l in H. exact H.
Qed.

(** divmod256(number59, 0) on a base-59 number *)
Theorem divmod256_correct num q r :
  dig 59 num -> divmod256 num 0 = (q, r) ->
  val_be 59 num = 256 * val_be 59 q + r /\ 0 <= r < 256 /\ dig 59 q /\ length q = length num.
Proof.
  intros Hd E. change (divmod256 num 0) with (divmod256 ([] ++ num) (@length Z [])) in E.
  rewrite divmod256_split in E. cbn [app] in E. injection E as <- <-.
  assert (Hb : bytes num).
  { unfold bytes, is_byte. eapply Forall_impl; [|exact Hd]. cbv beta. intros; lia. }
  pose proof (divmod256_go_spec num 0 ltac:(lia) Hb) as H. cbv zeta in H.
  rewrite Z.mul_0_l, Z.add_0_l in H. destruct H as [H1 [H2 [_ [H4 H5]]]].
  repeat split; try assumption; try lia. apply H5. exact Hd.
Qed.

(** with a start index: the prefix is untouched, the suffix is divided *)
Theorem divmod59_suffix pre suf :
  bytes suf ->
  let q := fst (divmod59_go suf 0) in
  divmod59 (pre ++ suf) (length pre) = (pre ++ q, snd (divmod59_go suf 0))
  /\ val_be 256 suf = 59 * val_be 256 q + snd (divmod59_go suf 0)
  /\ 0 <= snd (divmod59_go suf 0) < 59 /\ bytes q /\ length q = length suf.
Proof.
  intros Hb. cbv zeta. split; [apply divmod59_split|].
  pose proof (divmod59_go_spec suf 0 ltac:(lia) Hb) as H. cbv zeta in H.
  rewrite Z.mul_0_l, Z.add_0_l in H. exact H.
Qed.
