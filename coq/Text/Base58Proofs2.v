(** Base58, part 2: the arithmetic of the carry loop. Little-endian value of a
    buffer, specification of [carry_loop] / [push_digit] (value, length
    invariant "length covers the non-zero part", canonicity of [length], the
    assert cannot fire when the value fits the buffer), and the two
    buffer-size inequalities
        256^n <= 58^(n*138/100+1)      58^n <= 256^(n*733/1000+1)
    for ALL n, stated with the generated constants. *)
From Coq Require Import ZArith List Bool Lia.
From VB Require Import Gen.TextTables Text.TextCommon Text.Base58Defs Text.Base58Proofs.
Import ListNotations.
Local Open Scope Z_scope.
Ltac Zify.zify_post_hook ::= Z.div_mod_to_equations.

(** little-endian value (the model buffers are little-endian) *)
Fixpoint val_le (b : Z) (l : list Z) : Z :=
  match l with [] => 0 | x :: r => x + b * val_le b r end.

Definition digits (b : Z) (l : list Z) : Prop := Forall (fun x => 0 <= x < b) l.
Definition zeros (l : list Z) : Prop := Forall (fun x => x = 0) l.

Lemma val_le_app b l1 l2 :
  val_le b (l1 ++ l2) = val_le b l1 + b ^ Z.of_nat (length l1) * val_le b l2.
Proof.
  induction l1 as [|x l1 IH].
  - cbn [app val_le length]. change (Z.of_nat 0) with 0. rewrite Z.pow_0_r. ring.
  - cbn [app val_le length]. rewrite IH, Nat2Z.inj_succ, Z.pow_succ_r by lia. ring.
Qed.

Lemma val_le_zeros b l : zeros l -> val_le b l = 0.
Proof.
  induction 1 as [|x l Hx _ IH]; [reflexivity|].
  cbn [val_le]. rewrite IH, Hx. ring.
Qed.

Lemma val_le_bound b l : 0 < b -> digits b l -> 0 <= val_le b l < b ^ Z.of_nat (length l).
Proof.
  intros Hb. induction 1 as [|x l Hx _ IH].
  - cbn [val_le length]. change (Z.of_nat 0) with 0. rewrite Z.pow_0_r. lia.
  - cbn [val_le length]. rewrite Nat2Z.inj_succ, Z.pow_succ_r by lia.
    set (P := b ^ Z.of_nat (length l)) in *. set (v := val_le b l) in *.
    assert (0 <= b * v) by (apply Z.mul_nonneg_nonneg; lia).
    assert (b * v <= b * (P - 1)) by (apply Z.mul_le_mono_nonneg_l; lia).
    lia.
Qed.

Lemma val_le_firstn b k l : zeros (skipn k l) -> val_le b (firstn k l) = val_le b l.
Proof.
  intros H. rewrite <- (firstn_skipn k l) at 2.
  rewrite val_le_app, (val_le_zeros b _ H). ring.
Qed.

Lemma val_be_acc_le b l : forall acc,
  val_be_acc b acc l = acc * b ^ Z.of_nat (length l) + val_le b (rev l).
Proof.
  induction l as [|x l IH]; intros acc.
  - cbn [val_be_acc length rev val_le]. change (Z.of_nat 0) with 0. rewrite Z.pow_0_r. ring.
  - cbn [val_be_acc length rev]. rewrite IH, val_le_app, rev_length.
    cbn [val_le]. rewrite Nat2Z.inj_succ, Z.pow_succ_r by lia. ring.
Qed.

Lemma val_be_le b l : val_be b l = val_le b (rev l).
Proof. unfold val_be. rewrite val_be_acc_le. ring. Qed.

Lemma digits_app b l1 l2 : digits b (l1 ++ l2) <-> digits b l1 /\ digits b l2.
Proof. unfold digits. apply Forall_app. Qed.

Lemma digits_rev b l : digits b l -> digits b (rev l).
Proof. unfold digits. intros H. apply Forall_forall. intros x Hx. apply in_rev in Hx.
  rewrite Forall_forall in H. apply H. exact Hx. Qed.

Lemma digits_firstn b k l : digits b l -> digits b (firstn k l).
Proof.
  intros H. revert k. induction H as [|x l Hx _ IH]; intros k.
  - destruct k; constructor.
  - destruct k; cbn [firstn]; constructor; [exact Hx|apply IH].
Qed.

Lemma zeros_repeat n : zeros (repeat 0 n).
Proof. induction n; cbn [repeat]; constructor; [reflexivity|assumption]. Qed.

Lemma digits_repeat0 b n : 0 < b -> digits b (repeat 0 n).
Proof. intros Hb. induction n; cbn [repeat]; constructor; [lia|assumption]. Qed.

Lemma zeros_skipn k l : zeros l -> zeros (skipn k l).
Proof.
  intros H. apply Forall_forall. intros x Hx. unfold zeros in H. rewrite Forall_forall in H.
  apply H. rewrite <- (firstn_skipn k l). apply in_or_app. right. exact Hx.
Qed.

(** ------------------------------------------------------------ the carry loop *)

Section Loop.
  Variables mul base : Z.
  Hypothesis Hbase : 1 < base.
  Hypothesis Hmul : 1 <= mul.
  Variable len : nat.

  (** [carry_loop] from position [i] over the remaining buffer [buf]; the
      premise [zeros (skipn (len - i) buf)] is "every position >= length holds 0" *)
  Lemma carry_loop_spec : forall buf carry i,
    digits base buf -> 0 <= carry -> zeros (skipn (len - i) buf) ->
    match carry_loop mul base carry i len buf with
    | (buf', carry', i') =>
        val_le base buf' + base ^ Z.of_nat (length buf) * carry' = carry + mul * val_le base buf
        /\ length buf' = length buf /\ digits base buf' /\ 0 <= carry'
        /\ (i <= i' <= i + length buf)%nat
        /\ zeros (skipn (i' - i) buf')
        /\ (i' = i -> carry' = carry)
        /\ ((i' < len)%nat -> i' = (i + length buf)%nat)
        /\ (carry' = 0 -> (len < i')%nat -> (i < i')%nat ->
            base ^ (Z.of_nat (i' - i) - 1) <= val_le base buf')
    end.
  Proof.
    induction buf as [|x r IH]; intros carry i Hd Hc Hz.
    - cbn [carry_loop val_le length]. change (Z.of_nat 0) with 0. rewrite Z.pow_0_r.
      repeat split; try lia; try constructor.
      destruct (i - i)%nat; constructor.
    - cbn [carry_loop].
      inversion Hd as [|? ? Hx Hr]; subst.
      destruct (negb (carry =? 0) || (i <? len)%nat) eqn:Cond.
      + cbv zeta. set (c := carry + mul * x).
        assert (Hmx : 0 <= mul * x) by (apply Z.mul_nonneg_nonneg; lia).
        assert (Hc0 : 0 <= c) by (unfold c; lia).
        assert (Hcd : 0 <= c / base) by (apply Z.div_pos; lia).
        assert (Hz' : zeros (skipn (len - S i) r)).
        { destruct (len - i)%nat as [|k] eqn:E.
          - cbn [skipn] in Hz. inversion Hz; subst.
            replace (len - S i)%nat with 0%nat by lia. cbn [skipn]. assumption.
          - cbn [skipn] in Hz. replace (len - S i)%nat with k by lia. exact Hz. }
        specialize (IH (c / base) (S i) Hr Hcd Hz').
        destruct (carry_loop mul base (c / base) (S i) len r) as [[r' carry'] i'].
        destruct IH as [Hv [Hl [Hd' [Hc' [Hi [Hzz [Hsame [Hshort Hcanon]]]]]]]].
        pose proof (val_le_bound base r' ltac:(lia) Hd') as Hvb.
        assert (Hmod : 0 <= c mod base < base) by (apply Z.mod_pos_bound; lia).
        pose proof (Z_div_mod_eq_full c base) as Hdm.
        split; [|split; [|split; [|split; [|split; [|split; [|split; [|split]]]]]]].
        * cbn [val_le length]. rewrite Nat2Z.inj_succ, Z.pow_succ_r by lia.
          set (P := base ^ Z.of_nat (length r)) in *.
          set (vr := val_le base r) in *. set (vr' := val_le base r') in *.
          assert (E : base * vr' + base * (P * carry') = base * (c / base) + base * (mul * vr))
            by (rewrite <- !Z.mul_add_distr_l; f_equal; exact Hv).
          unfold c in *. lia.
        * cbn [length]. lia.
        * constructor; [exact Hmod|exact Hd'].
        * exact Hc'.
        * cbn [length]. lia.
        * replace (i' - i)%nat with (S (i' - S i)) by lia. cbn [skipn]. exact Hzz.
        * intros E. lia.
        * intros Hlt. cbn [length]. specialize (Hshort Hlt). lia.
        * intros C0 Hlen Hii. cbn [val_le].
          destruct (Nat.eq_dec i' (S i)) as [Ei|Ni].
          -- subst i'. replace (Z.of_nat (S i - i) - 1) with 0 by lia. rewrite Z.pow_0_r.
             specialize (Hsame eq_refl). rewrite C0 in Hsame.
             assert (Hnl : (i <? len)%nat = false) by (apply Nat.ltb_ge; lia).
             rewrite Hnl, orb_false_r in Cond. apply negb_true_iff in Cond.
             apply Z.eqb_neq in Cond.
             assert (0 <= base * val_le base r') by (apply Z.mul_nonneg_nonneg; lia).
             assert (c mod base = c) by lia.
             unfold c in *. lia.
          -- assert (Hlt : (S i < i')%nat) by lia.
             specialize (Hcanon C0 Hlen Hlt).
             replace (Z.of_nat (i' - i) - 1) with (Z.succ (Z.of_nat (i' - S i) - 1)) by lia.
             rewrite Z.pow_succ_r by lia.
             assert (base * base ^ (Z.of_nat (i' - S i) - 1) <= base * val_le base r')
               by (apply Z.mul_le_mono_nonneg_l; lia).
             lia.
      + apply orb_false_iff in Cond. destruct Cond as [C1 C2].
        apply negb_false_iff in C1. apply Z.eqb_eq in C1. apply Nat.ltb_ge in C2.
        replace (len - i)%nat with 0%nat in Hz by lia. cbn [skipn] in Hz.
        pose proof (val_le_zeros base _ Hz) as V0.
        split; [|split; [|split; [|split; [|split; [|split; [|split; [|split]]]]]]].
        * rewrite V0, C1. ring.
        * reflexivity.
        * exact Hd.
        * lia.
        * lia.
        * rewrite Nat.sub_diag. cbn [skipn]. exact Hz.
        * intros _. reflexivity.
        * intros Hlt. lia.
        * intros _ _ Hii. lia.
  Qed.

  (** invariant of the outer loops on (length, buffer): digits in range, every
      position >= length is 0, length within the buffer, and length is
      CANONICAL (0, or the top covered digit position is needed) *)
  Definition binv (len0 : nat) (buf : list Z) : Prop :=
    digits base buf /\ zeros (skipn len0 buf) /\ (len0 <= length buf)%nat
    /\ (len0 = 0%nat \/ base ^ (Z.of_nat len0 - 1) <= val_le base buf).
End Loop.

Section Push.
  Variables mul base : Z.
  Hypothesis Hbase : 1 < base.
  Hypothesis Hmul : 1 <= mul.

  (** one outer-loop step: if the new value fits the buffer the assert does
      not fire, the value is d + mul * old, and the invariant is kept *)
  Lemma push_digit_spec d len buf :
    0 <= d -> binv base len buf ->
    d + mul * val_le base buf < base ^ Z.of_nat (length buf) ->
    exists len' buf',
      push_digit mul base d len buf = Ok (len', buf')
      /\ binv base len' buf' /\ length buf' = length buf
      /\ val_le base buf' = d + mul * val_le base buf.
  Proof.
    intros Hd [Hdig [Hz [Hlen Hcan]]] Hfit.
    unfold push_digit.
    pose proof (carry_loop_spec mul base Hbase Hmul len buf d 0%nat Hdig Hd) as S.
    rewrite Nat.sub_0_r in S. specialize (S Hz).
    destruct (carry_loop mul base d 0 len buf) as [[buf' carry'] i'].
    destruct S as [Hv [Hl [Hd' [Hc' [Hi [Hzz [_ [Hshort Hcanon]]]]]]]].
    rewrite Nat.sub_0_r in Hzz, Hcanon.
    pose proof (val_le_bound base buf' ltac:(lia) Hd') as Hvb.
    pose proof (val_le_bound base buf ltac:(lia) Hdig) as Hvb0.
    set (P := base ^ Z.of_nat (length buf)) in *.
    assert (C0 : carry' = 0).
    { destruct (Z.eq_dec carry' 0) as [E|E]; [exact E|exfalso].
      assert (P * 1 <= P * carry') by (apply Z.mul_le_mono_nonneg_l; lia). lia. }
    rewrite C0, Z.eqb_refl. rewrite C0 in Hv.
    exists i', buf'. split; [reflexivity|]. split; [|split; [exact Hl|lia]].
    split; [exact Hd'|]. split; [exact Hzz|]. split; [lia|].
    assert (Hmv : val_le base buf <= mul * val_le base buf).
    { replace (val_le base buf) with (1 * val_le base buf) at 1 by ring.
      apply Z.mul_le_mono_nonneg_r; lia. }
    destruct (Nat.eq_dec i' 0) as [E0|N0]; [left; exact E0|right].
    destruct (Nat.lt_ge_cases len i') as [Hgt|Hle].
    - apply Hcanon; [exact C0|exact Hgt|lia].
    - assert (i' = len).
      { destruct (Nat.eq_dec i' len) as [E|N]; [exact E|]. assert (Hlt : (i' < len)%nat) by lia.
        specialize (Hshort Hlt). lia. }
      subst i'. destruct Hcan as [Hcan|Hcan]; [contradiction|]. lia.
  Qed.
End Push.

(** ------------------------------------------------------------ buffer sizes *)

(** generic: from a^den <= b^num and the finitely many residues r < den,
    a^n <= b^(n*num/den + 1) for every n *)
Lemma size_bound_generic a b num den :
  1 <= a -> 1 <= b -> 0 < den -> 0 <= num ->
  a ^ den <= b ^ num ->
  (forall r, 0 <= r < den -> a ^ r <= b ^ (r * num / den + 1)) ->
  forall n, 0 <= n -> a ^ n <= b ^ (n * num / den + 1).
Proof.
  intros Ha Hb Hden Hnum Hpow Hres n Hn.
  pose proof (Z_div_mod_eq_full n den) as E.
  assert (Hr : 0 <= n mod den < den) by (apply Z.mod_pos_bound; lia).
  assert (Hq : 0 <= n / den) by (apply Z.div_pos; lia).
  set (q := n / den) in *. set (r := n mod den) in *.
  assert (Hdiv : n * num / den = q * num + r * num / den).
  { rewrite E. replace ((den * q + r) * num) with (q * num * den + r * num) by ring.
    rewrite Z.div_add_l by lia. reflexivity. }
  rewrite Hdiv.
  assert (Hrn : 0 <= r * num / den) by (apply Z.div_pos; [apply Z.mul_nonneg_nonneg; lia|lia]).
  replace (q * num + r * num / den + 1) with (num * q + (r * num / den + 1)) by ring.
  rewrite E at 1.
  rewrite (Z.pow_add_r a (den * q) r) by (try apply Z.mul_nonneg_nonneg; lia).
  rewrite (Z.pow_add_r b (num * q) (r * num / den + 1)) by (try apply Z.mul_nonneg_nonneg; lia).
  rewrite (Z.pow_mul_r a den q), (Z.pow_mul_r b num q) by lia.
  apply Z.mul_le_mono_nonneg.
  - apply Z.pow_nonneg. apply Z.pow_nonneg. lia.
  - apply Z.pow_le_mono_l. split; [apply Z.pow_nonneg; lia|exact Hpow].
  - apply Z.pow_nonneg. lia.
  - apply Hres. exact Hr.
Qed.

(** residue sweep with incrementally computed power tables (computing every
    a^r from scratch costs minutes inside Coq for den = 1000) *)
Fixpoint pows (a : Z) (n : nat) (cur : Z) : list Z :=
  match n with O => [] | S m => cur :: pows a m (cur * a) end.

Lemma pows_nth a : forall n cur k, (k < n)%nat -> nth k (pows a n cur) 0 = cur * a ^ Z.of_nat k.
Proof.
  induction n as [|n IH]; intros cur k Hk; [lia|].
  cbn [pows]. destruct k as [|k].
  - cbn [nth]. change (Z.of_nat 0) with 0. rewrite Z.pow_0_r. ring.
  - cbn [nth]. rewrite IH by lia. rewrite Nat2Z.inj_succ, Z.pow_succ_r by lia. ring.
Qed.

Definition residues_ok (a b num den add : Z) : bool :=
  let PA := pows a (Z.to_nat den) 1 in
  let PB := pows b (Z.to_nat (num + add + 1)) 1 in
  forallb (fun r => let e := r * num / den + add in
                    (e <? num + add + 1)
                    && (nth (Z.to_nat r) PA 0 <=? nth (Z.to_nat e) PB 0))
          (zrange 0 (Z.to_nat den)).

Lemma residues_ok_sound a b num den add :
  0 < den -> 0 <= num -> 0 <= add -> residues_ok a b num den add = true ->
  forall r, 0 <= r < den -> a ^ r <= b ^ (r * num / den + add).
Proof.
  intros Hden Hnum Hadd H r Hr. unfold residues_ok in H. cbv zeta in H.
  rewrite forallb_forall in H.
  assert (Hin : In r (zrange 0 (Z.to_nat den))) by (apply in_zrange; lia).
  specialize (H r Hin). apply andb_true_iff in H. destruct H as [H1 H2].
  apply Z.ltb_lt in H1. apply Z.leb_le in H2.
  assert (He : 0 <= r * num / den) by (apply Z.div_pos; [apply Z.mul_nonneg_nonneg; lia|lia]).
  rewrite !pows_nth in H2 by lia.
  rewrite !Z2Nat.id in H2 by lia. lia.
Qed.

(** the two period facts and the residue sweeps, on the GENERATED constants *)
Lemma b58_enc_period : b58_enc_mul ^ b58_enc_size_den <= b58_enc_base ^ b58_enc_size_num.
Proof. vm_compute. discriminate. Qed.

Lemma b58_enc_residues_all :
  residues_ok b58_enc_mul b58_enc_base b58_enc_size_num b58_enc_size_den b58_enc_size_add = true.
Proof. vm_compute. reflexivity. Qed.

Lemma b58_dec_period : b58_dec_mul ^ b58_dec_size_den <= b58_dec_base ^ b58_dec_size_num.
Proof. vm_compute. discriminate. Qed.

Lemma b58_dec_residues_all :
  residues_ok b58_dec_mul b58_dec_base b58_dec_size_num b58_dec_size_den b58_dec_size_add = true.
Proof. vm_compute. reflexivity. Qed.

(** ENCODER BUFFER: 256^n <= 58^(n*138/100+1) for all n *)
Theorem b58_enc_buffer_bound n :
  b58_enc_mul ^ Z.of_nat n <= b58_enc_base ^ Z.of_nat (b58_enc_size n).
Proof.
  unfold b58_enc_size.
  assert (H0 : 0 <= Z.of_nat n * b58_enc_size_num / b58_enc_size_den).
  { apply Z.div_pos; [|reflexivity]. apply Z.mul_nonneg_nonneg; [lia|discriminate]. }
  rewrite Z2Nat.id by (change b58_enc_size_add with 1; lia).
  change b58_enc_size_add with 1.
  apply size_bound_generic;
    [vm_compute; discriminate|vm_compute; discriminate|reflexivity|vm_compute; discriminate
    |exact b58_enc_period| |lia].
  intros r Hr.
  apply (residues_ok_sound b58_enc_mul b58_enc_base b58_enc_size_num b58_enc_size_den b58_enc_size_add);
    [reflexivity|vm_compute; discriminate|vm_compute; discriminate
    |exact b58_enc_residues_all|exact Hr].
Qed.

(** DECODER BUFFER: 58^n <= 256^(n*733/1000+1) for all n *)
Theorem b58_dec_buffer_bound n :
  b58_dec_mul ^ Z.of_nat n <= b58_dec_base ^ Z.of_nat (b58_dec_size n).
Proof.
  unfold b58_dec_size.
  assert (H0 : 0 <= Z.of_nat n * b58_dec_size_num / b58_dec_size_den).
  { apply Z.div_pos; [|reflexivity]. apply Z.mul_nonneg_nonneg; [lia|discriminate]. }
  rewrite Z2Nat.id by (change b58_dec_size_add with 1; lia).
  change b58_dec_size_add with 1.
  apply size_bound_generic;
    [vm_compute; discriminate|vm_compute; discriminate|reflexivity|vm_compute; discriminate
    |exact b58_dec_period| |lia].
  intros r Hr.
  apply (residues_ok_sound b58_dec_mul b58_dec_base b58_dec_size_num b58_dec_size_den b58_dec_size_add);
    [reflexivity|vm_compute; discriminate|vm_compute; discriminate
    |exact b58_dec_residues_all|exact Hr].
Qed.
