(** Lemmas about the hex model (HexDefs): table facts (vm_compute-checked over
    the GENERATED tables, finite domains only), ParseHex never reads beyond
    the NUL terminator, ParseHex (HexStr bs) = bs for every byte string, IsHex
    (HexStr bs), ParseHex stops at the first non-hex non-space character. *)
From Coq Require Import ZArith List Bool Lia.
From VB Require Import Gen.TextTables Text.TextCommon Text.HexDefs.
Import ListNotations.
Local Open Scope Z_scope.
Ltac Zify.zify_post_hook ::= Z.div_mod_to_equations.

(** ------------------------------------------------------------ zrange *)

Lemma in_zrange x n : forall lo, lo <= x < lo + Z.of_nat n -> In x (zrange lo n).
Proof.
  induction n as [|n IH]; intros lo H; [lia|].
  cbn [zrange]. destruct (Z.eq_dec lo x) as [->|Hne]; [left; reflexivity|].
  right. apply IH. lia.
Qed.

Lemma byte_in_zrange b : is_byte b -> In b (zrange 0 256).
Proof. intros H. apply in_zrange. unfold is_byte in H. lia. Qed.

(** ------------------------------------------------------------ tables *)

Lemma hex_digit_length : length hex_digit = 256%nat.
Proof. vm_compute. reflexivity. Qed.

Lemma hex_map_length : length hex_map = 16%nat.
Proof. vm_compute. reflexivity. Qed.

(** hex_digit inverts hex_map on 0..15 *)
Lemma hex_digit_of_hex_char_all :
  forallb (fun d => hex_digit_of (hex_char d) =? d) (zrange 0 16) = true.
Proof. vm_compute. reflexivity. Qed.

Lemma hex_digit_of_hex_char d : 0 <= d < 16 -> hex_digit_of (hex_char d) = d.
Proof.
  intros H. pose proof hex_digit_of_hex_char_all as A.
  rewrite forallb_forall in A. apply Z.eqb_eq. apply A. apply in_zrange. lia.
Qed.

(** every entry of hex_digit is in -1..15 *)
Lemma hex_digit_range_all :
  forallb (fun c => (-1 <=? hex_digit_of c) && (hex_digit_of c <=? 15)) (zrange 0 256) = true.
Proof. vm_compute. reflexivity. Qed.

Lemma hex_digit_range c : is_byte c -> -1 <= hex_digit_of c <= 15.
Proof.
  intros H. pose proof hex_digit_range_all as A. rewrite forallb_forall in A.
  specialize (A c (byte_in_zrange c H)). apply andb_true_iff in A. lia.
Qed.

(** NUL is not a hex digit and not a space; no space is a hex digit *)
Lemma nul_not_hex : hex_digit_of 0 = -1.
Proof. vm_compute. reflexivity. Qed.

Lemma nul_not_space : is_space 0 = false.
Proof. vm_compute. reflexivity. Qed.

Lemma spaces_not_hex_all : forallb (fun c => hex_digit_of c =? -1) space_chars = true.
Proof. vm_compute. reflexivity. Qed.

Lemma is_space_In c : is_space c = true -> In c space_chars.
Proof.
  unfold is_space. intros H. apply existsb_exists in H. destruct H as [x [Hin Hx]].
  apply Z.eqb_eq in Hx. subst. exact Hin.
Qed.

Lemma space_not_hex c : is_space c = true -> hex_digit_of c = -1.
Proof.
  intros H. pose proof spaces_not_hex_all as A. rewrite forallb_forall in A.
  apply Z.eqb_eq. apply A. apply is_space_In. exact H.
Qed.

(** per-byte fact behind the round trip: the two characters HexStr emits for
    the byte b are non-NUL, not spaces, hex digits, and recombine to b *)
Definition hex_byte_ok (b : Z) : bool :=
  let v := b mod 256 in
  let h := hex_char (Z.shiftr v 4) in
  let l := hex_char (Z.land v 15) in
  negb (is_space h) && negb (hex_digit_of h =? -1) && negb (hex_digit_of l =? -1)
  && negb (h =? 0) && negb (l =? 0)
  && negb (hex_digit_of h <? 0) && negb (hex_digit_of l <? 0)
  && (Z.lor (Z.shiftl (hex_digit_of h) 4 mod 256) (hex_digit_of l) =? b).

Lemma hex_byte_ok_all : forallb hex_byte_ok (zrange 0 256) = true.
Proof. vm_compute. reflexivity. Qed.

Lemma hex_byte_ok_byte b : is_byte b -> hex_byte_ok b = true.
Proof.
  intros H. pose proof hex_byte_ok_all as A. rewrite forallb_forall in A.
  apply A. apply byte_in_zrange. exact H.
Qed.

(** ------------------------------------------------------------ ParseHex *)

(** ParseHex never reads beyond the NUL terminator, in either loop state *)
Lemma parse_hex_go_terminated l : forall st, exists v, parse_hex_go st (l ++ [0]) = Ok v.
Proof.
  induction l as [|c l IH]; intros st.
  - cbn [app parse_hex_go]. destruct st as [hi|].
    + rewrite nul_not_hex. cbn [Z.eqb Pos.eqb]. eexists. reflexivity.
    + rewrite nul_not_space, nul_not_hex. cbn [Z.eqb Pos.eqb]. eexists. reflexivity.
  - cbn [app parse_hex_go]. destruct st as [hi|].
    + destruct (hex_digit_of c =? -1); [eexists; reflexivity|].
      destruct (IH None) as [v Hv]. rewrite Hv. cbn [ocons]. eexists. reflexivity.
    + destruct (is_space c); [apply IH|].
      destruct (hex_digit_of c =? -1); [eexists; reflexivity|]. apply IH.
Qed.

Theorem parse_hex_no_overrun s : exists v, parse_hex_mem (c_string s) = Ok v.
Proof. unfold parse_hex_mem, c_string. apply parse_hex_go_terminated. Qed.

Lemma parse_hex_spec s v : parse_hex_mem (c_string s) = Ok v -> parse_hex s = v.
Proof. unfold parse_hex. intros ->. reflexivity. Qed.

(** decoding the text of HexStr bs, whatever follows *)
Lemma parse_hex_go_hex_str bs : forall rest,
  bytes bs ->
  parse_hex_go None (hex_str bs ++ rest) = fold_right ocons (parse_hex_go None rest) bs.
Proof.
  induction bs as [|b bs IH]; intros rest Hb; [reflexivity|].
  inversion Hb as [|? ? Hb1 Hb2]; subst.
  pose proof (hex_byte_ok_byte b Hb1) as K. unfold hex_byte_ok in K.
  cbv zeta in K.
  repeat (apply andb_true_iff in K; destruct K as [K ?]).
  repeat match goal with H : negb _ = true |- _ => apply negb_true_iff in H end.
  match goal with H : (_ =? b) = true |- _ => apply Z.eqb_eq in H; rename H into Hv end.
  cbn [hex_str app fold_right parse_hex_go].
  rewrite K.
  match goal with H : (hex_digit_of (hex_char (Z.shiftr _ 4)) =? -1) = false |- _ => rewrite H end.
  match goal with H : (hex_digit_of (hex_char (Z.land _ 15)) =? -1) = false |- _ => rewrite H end.
  rewrite Hv. rewrite IH by exact Hb2. reflexivity.
Qed.

Lemma fold_ocons_ok {A} (l v : list A) : fold_right ocons (Ok v) l = Ok (l ++ v).
Proof. induction l as [|x l IH]; [reflexivity|]. cbn [fold_right app]. rewrite IH. reflexivity. Qed.

(** HexStr output contains no NUL, so the C string is the whole text *)
Lemma c_text_hex_str bs : forall rest, bytes bs -> c_text (hex_str bs ++ rest) = hex_str bs ++ c_text rest.
Proof.
  induction bs as [|b bs IH]; intros rest Hb; [reflexivity|].
  inversion Hb as [|? ? Hb1 Hb2]; subst.
  pose proof (hex_byte_ok_byte b Hb1) as K. unfold hex_byte_ok in K.
  cbv zeta in K.
  repeat (apply andb_true_iff in K; destruct K as [K ?]).
  repeat match goal with H : negb _ = true |- _ => apply negb_true_iff in H end.
  cbn [hex_str app c_text].
  match goal with H : (hex_char (Z.shiftr _ 4) =? 0) = false |- _ => rewrite H end.
  match goal with H : (hex_char (Z.land _ 15) =? 0) = false |- _ => rewrite H end.
  rewrite IH by exact Hb2. reflexivity.
Qed.

(** ROUND TRIP: ParseHex (HexStr bs) = bs for every byte vector *)
Theorem hex_roundtrip bs : bytes bs -> parse_hex (hex_str bs) = bs.
Proof.
  intros Hb. apply parse_hex_spec. unfold parse_hex_mem, c_string.
  rewrite <- (app_nil_r (hex_str bs)) at 1.
  rewrite c_text_hex_str by exact Hb. cbn [c_text]. rewrite app_nil_r.
  rewrite parse_hex_go_hex_str by exact Hb.
  cbn [parse_hex_go]. rewrite nul_not_space, nul_not_hex. cbn [Z.eqb Pos.eqb].
  rewrite fold_ocons_ok, app_nil_r. reflexivity.
Qed.

(** ParseHex stops at the first character that is neither a hex digit nor a
    space (NUL included), whatever follows it *)
Theorem parse_hex_stops bs c rest :
  bytes bs -> hex_digit_of c = -1 -> is_space c = false ->
  parse_hex (hex_str bs ++ c :: rest) = bs.
Proof.
  intros Hb Hc Hs. apply parse_hex_spec. unfold parse_hex_mem, c_string.
  rewrite c_text_hex_str by exact Hb. rewrite <- app_assoc.
  rewrite parse_hex_go_hex_str by exact Hb.
  assert (E : parse_hex_go None (c_text (c :: rest) ++ [0]) = Ok []).
  { cbn [c_text]. destruct (Z.eqb_spec c 0) as [->|Hne].
    - cbn [app parse_hex_go]. rewrite nul_not_space, nul_not_hex. reflexivity.
    - cbn [app parse_hex_go]. rewrite Hs, Hc. reflexivity. }
  rewrite E, fold_ocons_ok, app_nil_r. reflexivity.
Qed.

(** spaces between whole bytes are skipped: ParseHex (HexStr a ++ spaces ++ HexStr b) *)
Lemma parse_hex_go_spaces sp : forall rest,
  forallb is_space sp = true -> parse_hex_go None (sp ++ rest) = parse_hex_go None rest.
Proof.
  induction sp as [|c sp IH]; intros rest H; [reflexivity|].
  cbn [forallb] in H. apply andb_true_iff in H. destruct H as [H1 H2].
  cbn [app parse_hex_go]. rewrite H1. apply IH. exact H2.
Qed.

Lemma c_text_nonzero l : forall rest, forallb (fun c => negb (c =? 0)) l = true ->
  c_text (l ++ rest) = l ++ c_text rest.
Proof.
  induction l as [|c l IH]; intros rest H; [reflexivity|].
  cbn [forallb] in H. apply andb_true_iff in H. destruct H as [H1 H2].
  apply negb_true_iff in H1. cbn [app c_text]. rewrite H1, IH by exact H2. reflexivity.
Qed.

Lemma spaces_nonzero sp : forallb is_space sp = true -> forallb (fun c => negb (c =? 0)) sp = true.
Proof.
  induction sp as [|c sp IH]; intros H; [reflexivity|].
  cbn [forallb] in *. apply andb_true_iff in H. destruct H as [H1 H2].
  rewrite IH by exact H2. rewrite andb_true_r. apply negb_true_iff.
  destruct (Z.eqb_spec c 0) as [->|]; [|reflexivity].
  rewrite nul_not_space in H1. discriminate.
Qed.

Theorem hex_roundtrip_spaces a sp b :
  bytes a -> bytes b -> forallb is_space sp = true ->
  parse_hex (hex_str a ++ sp ++ hex_str b) = a ++ b.
Proof.
  intros Ha Hb Hs. apply parse_hex_spec. unfold parse_hex_mem, c_string.
  rewrite c_text_hex_str by exact Ha.
  rewrite c_text_nonzero by (apply spaces_nonzero; exact Hs).
  rewrite <- (app_nil_r (hex_str b)) at 1. rewrite c_text_hex_str by exact Hb.
  cbn [c_text]. rewrite app_nil_r. rewrite <- !app_assoc.
  rewrite parse_hex_go_hex_str by exact Ha.
  rewrite parse_hex_go_spaces by exact Hs.
  rewrite parse_hex_go_hex_str by exact Hb.
  cbn [parse_hex_go]. rewrite nul_not_space, nul_not_hex. cbn [Z.eqb Pos.eqb].
  rewrite !fold_ocons_ok, app_nil_r. reflexivity.
Qed.

(** ------------------------------------------------------------ IsHex *)

Lemma hex_str_length bs : length (hex_str bs) = (2 * length bs)%nat.
Proof. induction bs as [|b bs IH]; [reflexivity|]. cbn [hex_str length]. rewrite IH. lia. Qed.

Lemma hex_str_all_digits bs : bytes bs ->
  forallb (fun c => negb (hex_digit_of c <? 0)) (hex_str bs) = true.
Proof.
  induction bs as [|b bs IH]; intros Hb; [reflexivity|].
  inversion Hb as [|? ? Hb1 Hb2]; subst.
  pose proof (hex_byte_ok_byte b Hb1) as K. unfold hex_byte_ok in K.
  cbv zeta in K.
  repeat (apply andb_true_iff in K; destruct K as [K ?]).
  cbn [hex_str forallb].
  match goal with H : negb (hex_digit_of (hex_char (Z.shiftr _ 4)) <? 0) = true |- _ => rewrite H end.
  match goal with H : negb (hex_digit_of (hex_char (Z.land _ 15)) <? 0) = true |- _ => rewrite H end.
  rewrite IH by exact Hb2. reflexivity.
Qed.

Theorem is_hex_hex_str bs : bytes bs -> bs <> [] -> is_hex (hex_str bs) = true.
Proof.
  intros Hb Hne. unfold is_hex. rewrite hex_str_all_digits by exact Hb.
  rewrite hex_str_length.
  destruct bs as [|b bs]; [contradiction|].
  cbn [hex_str andb negb].
  apply Z.eqb_eq. rewrite Nat2Z.inj_mul. change (Z.of_nat 2) with 2. lia.
Qed.

(** IsHex accepts neither the empty string, nor odd lengths, nor any
    non-hex-digit character *)
Theorem is_hex_sound s : is_hex s = true ->
  s <> [] /\ Z.of_nat (length s) mod 2 = 0 /\ Forall (fun c => 0 <= hex_digit_of c) s.
Proof.
  unfold is_hex. intros H. apply andb_true_iff in H. destruct H as [H H3].
  apply andb_true_iff in H. destruct H as [H1 H2].
  split; [|split].
  - destruct s; [discriminate|discriminate].
  - apply Z.eqb_eq. exact H3.
  - apply Forall_forall. intros c Hin. rewrite forallb_forall in H1.
    specialize (H1 c Hin). apply negb_true_iff in H1. lia.
Qed.

(** the hypotheses of the round-trip theorems are satisfiable by non-trivial values *)
Example hex_roundtrip_example :
  bytes [0; 1; 171; 255] /\ parse_hex (hex_str [0; 1; 171; 255]) = [0; 1; 171; 255]
  /\ hex_str [0; 1; 171; 255] = [48; 48; 48; 49; 97; 98; 102; 102].
Proof.
  split; [|split]; [|vm_compute; reflexivity|vm_compute; reflexivity].
  repeat constructor; unfold is_byte; lia.
Qed.
