(** Base59, second part: the main loops, absence of Abort, and the round trip
    [b59_decode (b59_encode bs) = Ok bs] for ALL byte strings. *)
From Coq Require Import ZArith List Bool Lia.
From VB Require Import Base.Bits Gen.TextTables Text.TextCommon Text.Base59Defs Text.Base59Proofs.
Import ListNotations.
Local Open Scope Z_scope.
Ltac Zify.zify_post_hook ::= Z.div_mod_to_equations.

(** * Leading zeros *)
Definition strip0 (l : list Z) : list Z := skipn (zero_count l) l.

Lemma zero_count_cons x r :
  zero_count (x :: r) = if x =? 0 then S (zero_count r) else O.
Proof. reflexivity. Qed.

Lemma strip0_split l : l = repeat 0 (zero_count l) ++ strip0 l.
Proof.
  unfold strip0. induction l as [|x r IH]; [reflexivity|].
  rewrite zero_count_cons. destruct (x =? 0) eqn:E.
  - assert (x = 0) by lia. subst x. cbn [repeat skipn app]. f_equal. exact IH.
  - reflexivity.
Qed.

Lemma strip0_hd_nz l : hd_nz (strip0 l).
Proof.
  unfold strip0. induction l as [|x r IH]; [apply hd_nz_nil|].
  rewrite zero_count_cons. destruct (x =? 0) eqn:E.
  - cbn [skipn]. exact IH.
  - cbn [skipn]. apply hd_nz_cons. lia.
Qed.

Lemma strip0_val b l : val_be b (strip0 l) = val_be b l.
Proof. rewrite (strip0_split l) at 2. rewrite val_be_repeat0. reflexivity. Qed.

Lemma strip0_Forall (P : Z -> Prop) l : Forall P l -> Forall P (strip0 l).
Proof.
  intros H. rewrite (strip0_split l) in H. apply Forall_app in H. apply H.
Qed.

Lemma strip0_length l : (length l = zero_count l + length (strip0 l))%nat.
Proof. rewrite (strip0_split l) at 1. rewrite app_length, repeat_length. reflexivity. Qed.

Lemma zero_count_repeat k l : hd_nz l -> zero_count (repeat 0 k ++ l) = k.
Proof.
  intros H. induction k as [|k IH].
  - destruct l as [|x r]; [reflexivity|]. cbn [repeat app]. rewrite zero_count_cons.
    specialize (H x r eq_refl). destruct (x =? 0) eqn:E; [lia|reflexivity].
  - cbn [repeat app]. rewrite zero_count_cons. cbn [Z.eqb]. f_equal. exact IH.
Qed.

Lemma strip_lead0 l : forall j, strip_lead 0 l j = (strip0 l, (j + zero_count l)%nat).
Proof.
  unfold strip0. induction l as [|x r IH]; intros j.
  - cbn [strip_lead zero_count skipn]. rewrite Nat.add_0_r. reflexivity.
  - cbn [strip_lead]. rewrite zero_count_cons. destruct (x =? 0) eqn:E.
    + rewrite IH. cbn [skipn]. f_equal. lia.
    + cbn [skipn]. rewrite Nat.add_0_r. reflexivity.
Qed.

Lemma strip_lead_none x l j :
  (forall c t, l = c :: t -> c <> x) -> strip_lead x l j = (l, j).
Proof.
  intros H. destruct l as [|c t]; [reflexivity|]. cbn [strip_lead].
  specialize (H c t eq_refl). destruct (c =? x) eqn:E; [lia|reflexivity].
Qed.

Lemma repeat_snoc_cons {A} (x : A) k l : repeat x k ++ x :: l = x :: repeat x k ++ l.
Proof. induction k as [|k IH]; [reflexivity|]. cbn [repeat app]. f_equal. exact IH. Qed.

(** * The leading-'1' loop with its size_t wrap-around *)
Lemma ones_loop_unfold j zc acc :
  ones_loop j zc acc =
  if zc =? size_max then Ok acc
  else match j with
       | O => Abort
       | S j' => ones_loop j' (size_dec zc) (char_of_digit 0 :: acc)
       end.
Proof. destruct j; reflexivity. Qed.

Lemma ones_loop_spec z : forall e acc,
  Z.of_nat z <= size_max ->
  ones_loop (z + e) (size_dec (Z.of_nat z)) acc = Ok (repeat (char_of_digit 0) z ++ acc).
Proof.
  unfold size_max. induction z as [|z IH]; intros e acc Hz.
  - rewrite ones_loop_unfold. unfold size_dec, size_max. reflexivity.
  - rewrite ones_loop_unfold.
    assert (E : size_dec (Z.of_nat (S z)) = Z.of_nat z) by (unfold size_dec; lia).
    rewrite E. unfold size_max.
    destruct (Z.of_nat z =? 2 ^ 64 - 1) eqn:E2; [lia|].
    cbn [Nat.add]. rewrite IH by lia. cbn [repeat app]. rewrite repeat_snoc_cons. reflexivity.
Qed.

(** * Main loop of the encoder *)
Lemma enc_loop_unfold j input startAt acc :
  enc_loop j input startAt acc =
  if (startAt <? length input)%nat then
    match j with
    | O => Abort
    | S j' =>
        let nm := divmod59 input startAt in
        let input' := fst nm in
        let startAt' := if nth startAt input' 0 =? 0 then S startAt else startAt in
        enc_loop j' input' startAt' (char_of_digit (snd nm) :: acc)
    end
  else Ok (acc, j).
Proof. destruct j; reflexivity. Qed.

(** after a division whose leading quotient digit is 0, the next one is not:
    the loop advances [startAt] by at most one and never leaves a leading zero *)
Lemma divmod59_go_head_nz r rem :
  bytes r -> 1 <= rem < 59 -> hd_nz (fst (divmod59_go r rem)).
Proof.
  intros Hb Hrem. destruct r as [|d t]; [apply hd_nz_nil|].
  inversion Hb as [|? ? Hd Ht]; subst. unfold is_byte in Hd.
  rewrite divmod59_go_cons. cbv zeta. cbn [fst].
  rewrite b59_base_val, b59_base256_val, (land255_byte d Hd).
  apply hd_nz_cons. unfold u8. lia.
Qed.

Lemma pow59_fuel k : 256 ^ Z.of_nat k <= 59 ^ Z.of_nat (2 * k).
Proof.
  rewrite Nat2Z.inj_mul. change (Z.of_nat 2) with 2.
  rewrite Z.pow_mul_r by lia. change (59 ^ 2) with 3481.
  apply Z.pow_le_mono_l. lia.
Qed.

(** [k] = fuel needed, [e] = spare fuel; emitted digits [ds] (most significant
    first) are the base-59 digits of the suffix value, without leading zero *)
Lemma enc_loop_spec : forall k e pre suf acc,
  bytes suf -> hd_nz suf -> val_be 256 suf < 59 ^ Z.of_nat k ->
  exists ds,
    enc_loop (k + e) (pre ++ suf) (length pre) acc
      = Ok (map char_of_digit ds ++ acc, (k - length ds + e)%nat)
    /\ dig 59 ds /\ val_be 59 ds = val_be 256 suf
    /\ (length ds <= k)%nat /\ hd_nz ds.
Proof.
  induction k as [|k IH]; intros e pre suf acc Hb Hnz Hv.
  - (* no fuel needed: the value is 0, hence the suffix is empty *)
    destruct suf as [|d t].
    + exists []. rewrite enc_loop_unfold, app_nil_r, Nat.ltb_irrefl.
      repeat split; try reflexivity; try constructor. apply hd_nz_nil.
    + exfalso. pose proof (val_be_lower 256 d t ltac:(lia) Hb (Hnz d t eq_refl)) as L.
      change (Z.of_nat 0) with 0 in Hv. rewrite Z.pow_0_r in Hv.
      pose proof (Z.pow_pos_nonneg 256 (Z.of_nat (length t)) ltac:(lia) ltac:(lia)). lia.
  - destruct suf as [|d t].
    + exists []. rewrite enc_loop_unfold, app_nil_r, Nat.ltb_irrefl.
      cbn [length map app]. rewrite Nat.sub_0_r.
      repeat split; try reflexivity; try constructor. lia. apply hd_nz_nil.
    + pose proof (Hnz d t eq_refl) as Hd0.
      pose proof (val_be_lower 256 d t ltac:(lia) Hb Hd0) as L.
      pose proof (Z.pow_pos_nonneg 256 (Z.of_nat (length t)) ltac:(lia) ltac:(lia)) as Ppos.
      destruct (divmod59_suffix pre (d :: t) Hb) as [Ediv [Eval [Hm [Hbq Hlq]]]].
      cbv zeta in Ediv, Eval, Hbq, Hlq.
      set (q := fst (divmod59_go (d :: t) 0)) in *.
      set (m := snd (divmod59_go (d :: t) 0)) in *.
      rewrite enc_loop_unfold.
      assert (Hlt : (length pre <? length (pre ++ d :: t))%nat = true).
      { apply Nat.ltb_lt. rewrite app_length. cbn [length]. lia. }
      rewrite Hlt. cbn [Nat.add]. cbv zeta. rewrite Ediv. cbn [fst snd].
      rewrite nth_len_app.
      assert (Hvq : val_be 256 q < 59 ^ Z.of_nat k).
      { rewrite Nat2Z.inj_succ, Z.pow_succ_r in Hv by lia. lia. }
      (* shape of the quotient *)
      assert (Hq : q = u8 (d / 59) :: fst (divmod59_go t (d mod 59))).
      { subst q. rewrite divmod59_go_cons. cbv zeta. cbn [fst].
        pose proof (Forall_inv Hb) as Hd. unfold is_byte in Hd.
        rewrite b59_base_val, b59_base256_val, (land255_byte d Hd), Z.mul_0_l, Z.add_0_l.
        reflexivity. }
      pose proof (Forall_inv Hb) as Hd. pose proof (Forall_inv_tail Hb) as Ht.
      unfold is_byte in Hd.
      (* the recursive call, in either case, is on a canonical suffix of value val q *)
      assert (Hrec : exists pre' suf',
                 pre ++ q = pre' ++ suf'
                 /\ (if hd 0 q =? 0 then S (length pre) else length pre) = length pre'
                 /\ bytes suf' /\ hd_nz suf' /\ val_be 256 suf' = val_be 256 q).
      { rewrite Hq. cbn [hd]. destruct (u8 (d / 59) =? 0) eqn:E0.
        - exists (pre ++ [u8 (d / 59)]), (fst (divmod59_go t (d mod 59))).
          rewrite <- app_assoc. cbn [app]. rewrite app_length. cbn [length].
          split; [reflexivity|]. split; [lia|].
          rewrite Hq in Hbq. split; [exact (Forall_inv_tail Hbq)|].
          split.
          + apply divmod59_go_head_nz; [exact Ht|]. unfold u8 in E0. lia.
          + assert (u8 (d / 59) = 0) as -> by lia. rewrite val_be_zero_cons. reflexivity.
        - exists pre, (u8 (d / 59) :: fst (divmod59_go t (d mod 59))).
          split; [reflexivity|]. split; [reflexivity|].
          rewrite <- Hq. split; [exact Hbq|]. split; [|reflexivity].
          rewrite Hq. apply hd_nz_cons. lia. }
      destruct Hrec as [pre' [suf' [Eapp [Elen [Hb' [Hnz' Hv']]]]]].
      rewrite Eapp, Elen.
      destruct (IH e pre' suf' (char_of_digit m :: acc) Hb' Hnz' ltac:(lia))
        as [ds [Eloop [Hds [Hvds [Hlen Hnzds]]]]].
      exists (ds ++ [m]). rewrite Eloop.
      split.
      { rewrite map_app, <- app_assoc. cbn [map app]. rewrite app_length. cbn [length].
        f_equal. f_equal. lia. }
      split; [apply Forall_app; split; [exact Hds|constructor; [exact Hm|constructor]]|].
      split; [rewrite val_be_snoc; lia|].
      split; [rewrite app_length; cbn [length]; lia|].
      destruct ds as [|d' t'].
      * cbn [app]. apply hd_nz_cons. rewrite val_be_nil in Hvds. lia.
      * cbn [app]. apply hd_nz_cons. exact (Hnzds d' t' eq_refl).
Qed.

(** * Main loop of the decoder *)
Lemma dec_loop_unfold j input59 startAt acc :
  dec_loop j input59 startAt acc =
  if (startAt <? length input59)%nat then
    match j with
    | O => Abort
    | S j' =>
        let nm := divmod256 input59 startAt in
        let input' := fst nm in
        let startAt' := if nth startAt input' 0 =? 0 then S startAt else startAt in
        dec_loop j' input' startAt' (snd nm :: acc)
    end
  else Ok (acc, j).
Proof. destruct j; reflexivity. Qed.

(** every division by 256 of a byte-digit number leaves a leading 0, so the loop
    runs exactly [length suf] times and emits exactly that many bytes, whose
    base-256 value is the base-59 value of the suffix *)
Lemma dec_loop_spec : forall n suf e pre acc,
  length suf = n -> bytes suf ->
  exists bs,
    dec_loop (n + e) (pre ++ suf) (length pre) acc = Ok (bs ++ acc, e)
    /\ bytes bs /\ length bs = n /\ val_be 256 bs = val_be 59 suf.
Proof.
  induction n as [|n IH]; intros suf e pre acc Hn Hb.
  - destruct suf; [|discriminate]. exists [].
    rewrite dec_loop_unfold, app_nil_r, Nat.ltb_irrefl.
    repeat split; try reflexivity. constructor.
  - destruct suf as [|d t]; [discriminate|]. cbn [length] in Hn. injection Hn as Hn.
    pose proof (Forall_inv Hb) as Hd. pose proof (Forall_inv_tail Hb) as Ht.
    unfold is_byte in Hd.
    pose proof (divmod256_go_spec (d :: t) 0 ltac:(lia) Hb) as Hs. cbv zeta in Hs.
    rewrite Z.mul_0_l, Z.add_0_l in Hs. destruct Hs as [Eval [Hm [Hbq [Hlq _]]]].
    rewrite dec_loop_unfold.
    assert (Hlt : (length pre <? length (pre ++ d :: t))%nat = true).
    { apply Nat.ltb_lt. rewrite app_length. cbn [length]. lia. }
    rewrite Hlt. cbn [Nat.add]. cbv zeta. rewrite divmod256_split. cbn [fst snd].
    rewrite nth_len_app.
    set (m := snd (divmod256_go (d :: t) 0)) in *.
    assert (Hq : fst (divmod256_go (d :: t) 0) = 0 :: fst (divmod256_go t d)).
    { rewrite divmod256_go_cons. cbv zeta. cbn [fst].
      rewrite b59_base_val, b59_base256_val, (s8_land255 d Hd), Z.mul_0_l, Z.add_0_l.
      rewrite (Z.mod_small d 256) by lia. rewrite (Z.div_small d 256) by lia. reflexivity. }
    rewrite Hq in *. cbn [hd Z.eqb].
    set (q' := fst (divmod256_go t d)) in *.
    replace (pre ++ 0 :: q') with ((pre ++ [0]) ++ q') by (rewrite <- app_assoc; reflexivity).
    replace (S (length pre)) with (length (pre ++ [0])) by (rewrite app_length; cbn [length]; lia).
    cbn [length] in Hlq.
    destruct (IH q' e (pre ++ [0]) (m :: acc) ltac:(lia) (Forall_inv_tail Hbq))
      as [bs [Eloop [Hbs [Hlen Hv]]]].
    exists (bs ++ [m]). rewrite Eloop. rewrite <- app_assoc. cbn [app].
    split; [reflexivity|].
    split; [apply Forall_app; split; [exact Hbs|constructor; [exact Hm|constructor]]|].
    split; [rewrite app_length; cbn [length]; lia|].
    rewrite val_be_snoc, Hv. rewrite val_be_zero_cons in Eval. lia.
Qed.

(** * The encoder never overflows [temp] and has a closed form *)
Definition one : Z := char_of_digit 0.   (* g_Base59Alphabet[0], the character '1' *)

Lemma map_char_repeat0 k : map char_of_digit (repeat 0 k) = repeat one k.
Proof. induction k as [|k IH]; [reflexivity|]. cbn [repeat map]. rewrite IH. reflexivity. Qed.

Theorem b59_encode_o_spec bs :
  bytes bs -> Z.of_nat (length bs) <= size_max ->
  exists ds,
    b59_encode_o bs = Ok (repeat one (zero_count bs) ++ map char_of_digit ds)
    /\ dig 59 ds /\ hd_nz ds /\ val_be 59 ds = val_be 256 bs
    /\ (zero_count bs + length ds <= 2 * length bs)%nat.
Proof.
  intros Hb Hsz. destruct bs as [|b0 bt] eqn:Ebs.
  - exists []. repeat split; try reflexivity; try constructor. apply hd_nz_nil.
  - rewrite <- Ebs in *. clear Ebs b0 bt.
    assert (Eo : b59_encode_o bs =
                 match enc_loop (2 * length bs) bs (zero_count bs) [] with
                 | Ok (acc, j) =>
                     let aj := strip_lead (char_of_digit 0) acc j in
                     ones_loop (snd aj) (size_dec (Z.of_nat (zero_count bs))) (fst aj)
                 | Invalid => Invalid
                 | Abort => Abort
                 end).
    { destruct bs; [vm_compute; reflexivity|reflexivity]. }
    rewrite Eo. clear Eo.
    set (z := zero_count bs) in *. set (suf := strip0 bs).
    pose proof (strip0_split bs) as Esplit. fold z suf in Esplit.
    pose proof (strip0_length bs) as Elen. fold z suf in Elen.
    assert (Hbs : bytes suf) by (apply strip0_Forall; exact Hb).
    pose proof (strip0_hd_nz bs) as Hnz. fold suf in Hnz.
    pose proof (val_be_bound 256 suf ltac:(lia) Hbs) as Bv.
    pose proof (pow59_fuel (length suf)) as Pf.
    destruct (enc_loop_spec (2 * length suf) (2 * z) (repeat 0 z) suf [] Hbs Hnz ltac:(lia))
      as [ds [Eloop [Hds [Hvds [Hlen Hnzds]]]]].
    rewrite repeat_length, <- Esplit in Eloop.
    replace (2 * length bs)%nat with (2 * length suf + 2 * z)%nat by lia.
    rewrite Eloop, app_nil_r. cbv zeta.
    rewrite strip_lead_none.
    2:{ intros c t Ec. destruct ds as [|d0 dt]; [discriminate|]. cbn [map] in Ec.
        injection Ec as <- _. intros Ec.
        pose proof (Forall_inv Hds) as Hd0. cbv beta in Hd0.
        apply (Hnzds d0 dt eq_refl). apply char_of_digit_inj; [exact Hd0|lia|exact Ec]. }
    cbn [fst snd].
    replace (2 * length suf - length ds + 2 * z)%nat
      with (z + (2 * length suf - length ds + z))%nat by lia.
    rewrite ones_loop_spec by lia.
    exists ds. split; [reflexivity|]. split; [exact Hds|]. split; [exact Hnzds|].
    split; [rewrite Hvds; apply strip0_val|lia].
Qed.

(** no write past the front of [temp] (= out of fuel) for any input *)
Corollary b59_encode_o_no_abort bs :
  bytes bs -> Z.of_nat (length bs) <= size_max -> exists v, b59_encode_o bs = Ok v.
Proof.
  intros Hb Hsz. destruct (b59_encode_o_spec bs Hb Hsz) as [ds [E _]]. eexists. exact E.
Qed.

(** the output fits the buffer: at most 2 * nSize characters *)
Corollary b59_encode_length bs :
  bytes bs -> Z.of_nat (length bs) <= size_max ->
  (length (b59_encode bs) <= 2 * length bs)%nat.
Proof.
  intros Hb Hsz. destruct (b59_encode_o_spec bs Hb Hsz) as [ds [E [_ [_ [_ L]]]]].
  unfold b59_encode. rewrite E, app_length, repeat_length, map_length. exact L.
Qed.

(** * The decoder on alphabet-only text *)
Lemma dig59_bytes ds : dig 59 ds -> bytes ds.
Proof. intros H. eapply Forall_impl; [|exact H]. cbv beta. unfold is_byte. intros; lia. Qed.

Theorem b59_decode_digits ds :
  dig 59 ds ->
  exists bs,
    b59_decode (map char_of_digit ds) = Ok (repeat 0 (zero_count ds) ++ strip0 bs)
    /\ bytes bs /\ val_be 256 bs = val_be 59 ds
    /\ length bs = length (strip0 ds).
Proof.
  intros Hds. rewrite b59_decode_unfold, (dec_chars_map ds Hds). cbv zeta.
  set (z := zero_count ds). set (suf := strip0 ds).
  pose proof (strip0_split ds) as Esplit. fold z suf in Esplit.
  pose proof (strip0_length ds) as Elen. fold z suf in Elen.
  assert (Hbs : bytes suf) by (apply strip0_Forall, dig59_bytes; exact Hds).
  destruct (dec_loop_spec (length suf) suf z (repeat 0 z) [] eq_refl Hbs)
    as [bs [Eloop [Hb [Hlen Hv]]]].
  rewrite repeat_length, <- Esplit in Eloop.
  rewrite map_length. replace (length ds) with (length suf + z)%nat by lia.
  rewrite Eloop, app_nil_r, strip_lead0. cbn [fst snd].
  assert (Hlt : (z + zero_count bs <? z)%nat = false) by (apply Nat.ltb_ge; lia).
  rewrite Hlt. exists bs. split; [reflexivity|]. split; [exact Hb|].
  split; [|exact Hlen]. rewrite Hv. apply strip0_val.
Qed.

(** alphabet-only text is always accepted: never Invalid, never Abort (the
    iterator [temp.begin() + j - zeroCount] is never before begin, [temp] never
    overflows) *)
Theorem b59_decode_accepts s :
  Forall (fun c => In c b59_alphabet) s -> exists v, b59_decode s = Ok v.
Proof.
  intros H. destruct (alphabet_text_digits s H) as [ds [Hds ->]].
  destruct (b59_decode_digits ds Hds) as [bs [E _]]. eexists. exact E.
Qed.

Theorem b59_decode_no_abort s : bytes s -> b59_decode s <> Abort.
Proof.
  intros Hb.
  destruct (Forall_Exists_dec (fun c => In c b59_alphabet)
              (fun c => in_dec Z.eq_dec c b59_alphabet) s) as [Hall|Hex].
  - destruct (b59_decode_accepts s Hall) as [v E]. rewrite E. discriminate.
  - apply Exists_exists in Hex. destruct Hex as [c [Hin Hn]].
    rewrite (b59_decode_rejects s Hb (ex_intro _ c (conj Hin Hn))). discriminate.
Qed.

(** * (d) Round trip, for all byte strings (leading zero bytes included)

    The only side condition is that nSize is a size_t value
    ([length bs <= SIZE_MAX = 2^64-1]): the leading-'1' loop counts modulo 2^64.
    (In the C++ code [temp(nSize * 2)] would additionally wrap for
    nSize >= 2^63; such a buffer cannot exist -- the copy [input(buf, buf+nSize)]
    exceeds vector::max_size() -- and the model keeps [2 * nSize] unwrapped.)

    What really happens in the encoder (found while proving [enc_loop_spec]):
    at the head of the main loop [input[startAt]] is never 0, a division by 59
    produces at most ONE new leading zero, so the loop emits exactly the base-59
    digits of the number, most significant digit non-zero; the "strip extra '1'"
    loop is therefore dead code (it never removes anything, [strip_lead_none] in
    [b59_encode_o_spec]) and at most 2*(nSize - zeroCount) slots are used.
    In the decoder every division by 256 produces a leading zero, the loop runs
    exactly (size - zeroCount) times, [j = zeroCount] afterwards, so
    [temp.begin() + j - zeroCount] is never before [begin()]. *)
Theorem b59_roundtrip bs :
  bytes bs -> Z.of_nat (length bs) <= size_max -> b59_decode (b59_encode bs) = Ok bs.
Proof.
  intros Hb Hsz.
  destruct (b59_encode_o_spec bs Hb Hsz) as [ds [E [Hds [Hnz [Hv _]]]]].
  unfold b59_encode. rewrite E. rewrite <- map_char_repeat0, <- map_app.
  set (z := zero_count bs).
  assert (Hds' : dig 59 (repeat 0 z ++ ds)).
  { apply Forall_app. split; [|exact Hds]. apply Forall_forall. intros x Hx.
    apply repeat_spec in Hx. lia. }
  destruct (b59_decode_digits _ Hds') as [bs' [E' [Hb' [Hv' _]]]].
  rewrite E', (zero_count_repeat z ds Hnz). f_equal.
  transitivity (repeat 0 z ++ strip0 bs); [|symmetry; apply strip0_split]. f_equal.
  apply (canon_unique 256 ltac:(lia)).
  - apply strip0_Forall. exact Hb'.
  - apply strip0_Forall. exact Hb.
  - apply strip0_hd_nz.
  - apply strip0_hd_nz.
  - rewrite !strip0_val, Hv', val_be_repeat0. exact Hv.
Qed.

(** the hypotheses are satisfiable by a non-trivial value *)
Example b59_roundtrip_witness :
  bytes [0; 0; 255; 0; 7] /\ Z.of_nat (length [0; 0; 255; 0; 7]) <= size_max
  /\ b59_encode [0; 0; 255; 0; 7] = [49; 49; 50; 80; 78; 113; 120].
Proof.
  split; [repeat constructor; unfold is_byte; lia|]. split; [vm_compute; discriminate|].
  vm_compute. reflexivity.
Qed.

(** * Converse round trip: the decoder is injective on accepted text (every
    accepted string is the canonical encoding of its decoding; no malleability) *)
Lemma strip0_length_le l : (length (strip0 l) <= length l)%nat.
Proof. pose proof (strip0_length l). lia. Qed.

Theorem b59_encode_decode s v :
  bytes s -> Z.of_nat (length s) <= size_max -> b59_decode s = Ok v -> b59_encode v = s.
Proof.
  intros Hb Hsz E.
  destruct (Forall_Exists_dec (fun c => In c b59_alphabet)
              (fun c => in_dec Z.eq_dec c b59_alphabet) s) as [Hall|Hex].
  2:{ apply Exists_exists in Hex. destruct Hex as [c [Hin Hn]].
      rewrite (b59_decode_rejects s Hb (ex_intro _ c (conj Hin Hn))) in E. discriminate. }
  destruct (alphabet_text_digits s Hall) as [ds [Hds ->]].
  destruct (b59_decode_digits ds Hds) as [bs' [E' [Hb' [Hv' Hl']]]].
  rewrite E' in E. injection E as <-.
  set (z := zero_count ds) in *.
  assert (Hzc : zero_count (repeat 0 z ++ strip0 bs') = z)
    by (apply zero_count_repeat, strip0_hd_nz).
  assert (Hbv : bytes (repeat 0 z ++ strip0 bs')).
  { apply Forall_app. split; [|apply strip0_Forall; exact Hb'].
    apply Forall_forall. intros x Hx. apply repeat_spec in Hx. unfold is_byte. lia. }
  assert (Hlen : Z.of_nat (length (repeat 0 z ++ strip0 bs')) <= size_max).
  { rewrite app_length, repeat_length. rewrite map_length in Hsz.
    pose proof (strip0_length_le bs') as L1. pose proof (strip0_length ds) as L2.
    fold z in L2. lia. }
  destruct (b59_encode_o_spec _ Hbv Hlen) as [ds2 [E2 [Hds2 [Hnz2 [Hv2 _]]]]].
  unfold b59_encode. rewrite E2, Hzc.
  rewrite <- map_char_repeat0, <- map_app. f_equal.
  transitivity (repeat 0 z ++ strip0 ds); [|symmetry; apply strip0_split]. f_equal.
  apply (canon_unique 59 ltac:(lia)).
  - exact Hds2.
  - apply strip0_Forall. exact Hds.
  - exact Hnz2.
  - apply strip0_hd_nz.
  - rewrite Hv2, val_be_repeat0, !strip0_val. exact Hv'.
Qed.
