(** Executable model of src/pop/base58.cpp: EncodeBase58(pbegin, pend) and
    DecodeBase58(const std::string&, ...) (which calls the static
    DecodeBase58(const char*, vch, max_ret_len, state)).
    Characters/bytes are numbers 0..255; strings and vectors are [list Z].
    Tables and the numeric constants (138/100+1, 733/1000+1, 58, 256, +1) come
    from Gen.TextTables BY NAME. No proofs in this file.

    BUFFER REPRESENTATION. The C++ buffers [b58] / [b256] are big-endian
    vectors that are walked from the back ([rbegin .. rend]). The model keeps
    them LITTLE-ENDIAN, i.e. the model list is the REVERSE of the C++ vector,
    so that the walk [rbegin .. rend] is a structural recursion over the list
    and [it != rend] is "the list is not empty". The C++ suffix
    [begin + (size - length) .. end] is [rev (firstn length buf)].

    INT WIDTH. [int carry] is a 32-bit signed int. In the encoder
    carry <= 255 on loop entry and after every [/= 58], hence
    carry + 256 * digit <= 255 + 256*57 = 14847; in the decoder carry <= 57 and
    carry + 58 * byte <= 57 + 58*255 = 14847. Nothing can wrap and all values are
    non-negative, so C's truncating [%] and [/] coincide with [Z.modulo]/[Z.div]
    (Base58Proofs.carry_loop_bounds proves the bounds). *)
From Coq Require Import ZArith List Bool.
From VB Require Import Gen.TextTables Text.TextCommon.
Import ListNotations.
Local Open Scope Z_scope.

(** the character literal '1' used by [str.assign(zeroes, '1')] and
    [while ( *psz == '1')]; Base58Proofs.b58_one_is_digit0 checks that it is the
    digit 0 of the generated alphabet *)
Definition b58_one : Z := 49.

(** pszBase58[d]: a raw index into the 58-character string literal. Index 58 is
    the literal's NUL terminator (default 0); the digits produced by the
    encoder are [carry % 58] and therefore < 58. *)
Definition b58_char (d : Z) : Z := nth (Z.to_nat d) b58_alphabet 0.

(** The shared carry loop
      for (it = buf.rbegin(); (carry != 0 || i < length) && it != buf.rend(); ++it, ++i) {
        carry += mul * ( *it); *it = carry % base; carry /= base; }
    over the little-endian buffer; returns (buffer', carry', i'). *)
Fixpoint carry_loop (mul base carry : Z) (i length : nat) (buf : list Z)
  : list Z * Z * nat :=
  match buf with
  | [] => ([], carry, i)
  | x :: r =>
      if negb (carry =? 0) || (i <? length)%nat then
        let c := carry + mul * x in
        match carry_loop mul base (c / base) (S i) length r with
        | (r', carry', i') => ((c mod base) :: r', carry', i')
        end
      else (buf, carry, i)
  end.

(** one iteration of the outer loops: run the carry loop from i = 0,
    VBK_ASSERT(carry == 0), length = i *)
Definition push_digit (mul base d : Z) (length : nat) (buf : list Z)
  : outcome (nat * list Z) :=
  match carry_loop mul base d 0%nat length buf with
  | (buf', carry', i') => if carry' =? 0 then Ok (i', buf') else Abort
  end.

(** ---------------------------------------------------------------- encoder *)

Fixpoint count_leading (x : Z) (l : list Z) : nat :=
  match l with
  | c :: r => if c =? x then S (count_leading x r) else O
  | [] => O
  end.
Fixpoint drop_leading (x : Z) (l : list Z) : list Z :=
  match l with
  | c :: r => if c =? x then drop_leading x r else l
  | [] => []
  end.

(** size = (pend - pbegin) * 138 / 100 + 1 *)
Definition b58_enc_size (n : nat) : nat :=
  Z.to_nat (Z.of_nat n * b58_enc_size_num / b58_enc_size_den + b58_enc_size_add).

(** while (pbegin != pend) { carry = *pbegin; ... } *)
Fixpoint enc_loop (length : nat) (buf : list Z) (bs : list Z) : outcome (nat * list Z) :=
  match bs with
  | [] => Ok (length, buf)
  | b :: r =>
      match push_digit b58_enc_mul b58_enc_base b length buf with
      | Ok (i, buf') => enc_loop i buf' r
      | Invalid => Invalid
      | Abort => Abort
      end
  end.

Definition b58_encode (bs : list Z) : outcome (list Z) :=
  let zeroes := count_leading 0 bs in
  let rest := drop_leading 0 bs in
  let size := b58_enc_size (length rest) in
  match enc_loop 0%nat (repeat 0 size) rest with
  | Ok (len, buf) =>
      (* it = b58.begin() + (size - length); skip leading zero digits *)
      let digits := drop_leading 0 (rev (firstn len buf)) in
      Ok (repeat b58_one zeroes ++ map b58_char digits)
  | Invalid => Invalid
  | Abort => Abort
  end.

(** ---------------------------------------------------------------- decoder *)

(** In the decoder model the remaining C string is the list of characters
    before the NUL terminator ([ValidAsCString] guarantees the std::string has
    no embedded NUL); [[]] stands for "psz points at the terminator". Every read
    of the C++ code is guarded: [ *psz == '1'], [ *psz != 0 && ...] and
    [IsSpace( *psz)] are all false at the terminator (NUL is not a space and not
    '1': Base58Proofs.nul_not_space / b58_one_nonzero), so psz never moves
    beyond it. *)

Fixpoint skip_spaces (s : list Z) : list Z :=
  match s with
  | c :: r => if is_space c then skip_spaces r else s
  | [] => []
  end.

(** while ( *psz == '1') { zeroes++; if (zeroes > max_ret_len) return Invalid; psz++; } *)
Fixpoint count_ones (max_ret zeroes : nat) (s : list Z) : outcome (nat * list Z) :=
  match s with
  | c :: r =>
      if c =? b58_one then
        if (max_ret <? S zeroes)%nat then Invalid
        else count_ones max_ret (S zeroes) r
      else Ok (zeroes, s)
  | [] => Ok (zeroes, s)
  end.

(** size = strlen(psz) * 733 / 1000 + 1 *)
Definition b58_dec_size (n : nat) : nat :=
  Z.to_nat (Z.of_nat n * b58_dec_size_num / b58_dec_size_den + b58_dec_size_add).

(** while ( *psz && !IsSpace( *psz)) { carry = mapBase58[uint8_t( *psz)]; if (carry == -1) Invalid;
      carry loop; VBK_ASSERT(carry == 0); length = i;
      if (length + zeroes > max_ret_len) Invalid; psz++; }
    returns (length, buffer, remaining text) *)
Fixpoint dec_loop (max_ret zeroes length : nat) (buf : list Z) (s : list Z)
  : outcome (nat * list Z * list Z) :=
  match s with
  | [] => Ok (length, buf, [])
  | c :: r =>
      if is_space c then Ok (length, buf, s)
      else
        let d := lookup b58_map c in
        if d =? -1 then Invalid
        else
          match push_digit b58_dec_mul b58_dec_base d length buf with
          | Ok (i, buf') =>
              if (max_ret <? i + zeroes)%nat then Invalid
              else dec_loop max_ret zeroes i buf' r
          | Invalid => Invalid
          | Abort => Abort
          end
  end.

(** static DecodeBase58(const char* psz, vch, max_ret_len, state) on a C string
    without embedded NUL *)
Definition b58_decode_c (s : list Z) (max_ret : nat) : outcome (list Z) :=
  let s1 := skip_spaces s in
  match count_ones max_ret 0%nat s1 with
  | Ok (zeroes, s2) =>
      let size := b58_dec_size (length s2) in
      match dec_loop max_ret zeroes 0%nat (repeat 0 size) s2 with
      | Ok (len, buf, s3) =>
          match skip_spaces s3 with
          | [] => Ok (repeat 0 zeroes ++ rev (firstn len buf))
          | _ :: _ => Invalid
          end
      | Invalid => Invalid
      | Abort => Abort
      end
  | Invalid => Invalid
  | Abort => Abort
  end.

(** DecodeBase58(const std::string& str, out, state) *)
Definition b58_decode (s : list Z) : outcome (list Z) :=
  if existsb (fun c => c =? 0) s then Invalid   (* !ValidAsCString(str) *)
  else b58_decode_c s (length s + Z.to_nat b58_max_ret_add)%nat.
