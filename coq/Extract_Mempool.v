Require Extraction.
Require Import ExtrOcamlBasic.
From Coq Require Import ZArith NArith.
From VB Require Import Mempool.VsmDefs Mempool.PoolDefs Mempool.CountDefs.
Extraction "Mempool_model.ml" Nat.pred N.succ Z.succ
  VsmDefs.run VsmDefs.run_v0 VsmDefs.step VsmDefs.empty
  PoolDefs.pstep PoolDefs.submit PoolDefs.generate PoolDefs.removeAll PoolDefs.tryConnect PoolDefs.dropIds PoolDefs.cleanUp PoolDefs.clear PoolDefs.pempty PoolDefs.known PoolDefs.connected PoolDefs.inflight
  CountDefs.filter_fit CountDefs.fits CountDefs.est_kept CountDefs.popsize CountDefs.c0.
