(** Serde layer: ids / hashes as the code computes them, over ABSTRACT hash
    functions (Section variables): they are functions of the raw encodings only.
      BtcTx::getHash      = sha256d(tx)                         (btctx.cpp)
      BtcBlock::getHash   = reverse(sha256d(toRaw))             (btcblock.cpp)
      VbkBlock::getHash   = progPowHash(toRaw)                  (vbkblock.cpp)
      VbkTx/VbkPopTx::getHash = sha256(toRaw)                   (vbktx.cpp, vbkpoptx.cpp)
      ATV::getId          = sha256(tx.getHash() ++ blockOfProof.getHash())            (atv.cpp)
      VTB::getId          = sha256(btcTx.getHash() ++ sha256(blockOfProof.getHash() ++ containingBlock.getHash()))
    The memoised paths (hash_ caches) are exercised by the harness oracle, not modelled. *)
From Coq Require Import ZArith List Bool.
From VB Require Import Serde.StreamDefs Serde.CodecSpec Serde.EntityDefs.
Import ListNotations.
Local Open Scope Z_scope.

Section Ids.
  Variable addr_norm : Z -> list byte -> option (Z * list byte).
  Variables sha256 sha256d progpow : list byte -> list byte.

  Definition vbktx_raw (t : VbkTx) : list byte :=
    enc (c_vbktx_raw addr_norm) (tx_net t, (tx_src t, (tx_amount t, (tx_outputs t, (tx_sig_index t, tx_pub t))))).
  Definition vbkpoptx_raw (t : VbkPopTx) : list byte :=
    enc (c_vbkpoptx_raw addr_norm)
        (ptx_net t, (ptx_addr t, (ptx_published t, (ptx_btctx t, (ptx_merkle t, (ptx_bop t, ptx_context t)))))).

  Definition btctx_hash (tx : list byte) := sha256d tx.
  Definition btcblock_hash (b : BtcBlock) := rev (sha256d (enc c_btcblock_raw b)).
  Definition vbkblock_hash (b : VbkBlock) := progpow (enc c_vbkblock_raw b).
  Definition vbktx_hash (t : VbkTx) := sha256 (vbktx_raw t).
  Definition vbkpoptx_hash (t : VbkPopTx) := sha256 (vbkpoptx_raw t).
  Definition atv_id (a : ATV) := sha256 (vbktx_hash (atv_tx a) ++ vbkblock_hash (atv_block a)).
  Definition vtb_id (v : VTB) :=
    sha256 (btctx_hash (ptx_btctx (vtb_tx v)) ++
            sha256 (btcblock_hash (ptx_bop (vtb_tx v)) ++ vbkblock_hash (vtb_block v))).

  (** ids depend only on the raw encodings of the parts they hash — not on signature/public key,
      merkle paths, context, nor on how the value was obtained *)
  Lemma ids_of_content :
    (forall a b, enc c_vbkblock_raw a = enc c_vbkblock_raw b -> vbkblock_hash a = vbkblock_hash b) /\
    (forall a b, enc c_btcblock_raw a = enc c_btcblock_raw b -> btcblock_hash a = btcblock_hash b) /\
    (forall a b, vbktx_raw a = vbktx_raw b -> vbktx_hash a = vbktx_hash b) /\
    (forall a b, vbkpoptx_raw a = vbkpoptx_raw b -> vbkpoptx_hash a = vbkpoptx_hash b) /\
    (forall a b, vbktx_raw (atv_tx a) = vbktx_raw (atv_tx b) ->
                 enc c_vbkblock_raw (atv_block a) = enc c_vbkblock_raw (atv_block b) -> atv_id a = atv_id b) /\
    (forall a b, ptx_btctx (vtb_tx a) = ptx_btctx (vtb_tx b) ->
                 enc c_btcblock_raw (ptx_bop (vtb_tx a)) = enc c_btcblock_raw (ptx_bop (vtb_tx b)) ->
                 enc c_vbkblock_raw (vtb_block a) = enc c_vbkblock_raw (vtb_block b) -> vtb_id a = vtb_id b).
  Proof.
    unfold vbkblock_hash, btcblock_hash, vbktx_hash, vbkpoptx_hash, atv_id, vtb_id, btctx_hash,
           vbkblock_hash, btcblock_hash, vbktx_hash.
    repeat split; intros; congruence.
  Qed.

  (** two byte strings that decode to the same ATV give the same id (whatever non-canonical form they used) *)
  Lemma atv_id_of_decoded bs1 bs2 a r1 b r2 :
    dec (c_atv addr_norm) bs1 = Value a r1 -> dec (c_atv addr_norm) bs2 = Value b r2 -> a = b -> atv_id a = atv_id b.
  Proof. intros _ _ ->. reflexivity. Qed.
End Ids.
