(** Serde layer, part 3: endorsements, PopState, Stored*BlockAddon and
    StoredBlockIndex<Btc|Vbk|Alt> (entities/endorsement.hpp,
    blockchain/pop/pop_state.hpp, storage/stored_*_block_addon.cpp,
    storage/stored_block_index.hpp) as codecs. Executable; no proofs.
    PopState keeps its endorsements in a std::multimap keyed by id: the model
    value is the list in WIRE order; the C++ re-encodes in id order (the
    driver sorts by id before comparing, stable for equal ids). *)
From Coq Require Import ZArith List Bool.
From VB Require Import Gen.Consts Serde.StreamDefs Serde.EntityDefs.
Import ListNotations.
Local Open Scope Z_scope.

Record Endorsement := mkEndorsement {
  en_id : list byte; en_endorsed : list byte; en_containing : list byte; en_bop : list byte }.

Definition c_endorsement (idn mn1 mx1 bopn : Z) : codec Endorsement :=
  c_iso (fun e => (en_id e, (en_endorsed e, (en_containing e, en_bop e))))
        (fun '(i, (e, (c, b))) => mkEndorsement i e c b)
    (c_pair (c_sbl idn idn) (c_pair (c_sbl mn1 mx1) (c_pair (c_sbl mn1 mx1) (c_sbl bopn bopn)))).
(** VbkEndorsement: id 32, endorsed/containing = VBK hash 24, blockOfProof = BTC hash 32 *)
Definition c_vbk_endorsement : codec Endorsement :=
  c_endorsement VTB_ID_SIZE VBK_BLOCK_HASH_SIZE VBK_BLOCK_HASH_SIZE BTC_BLOCK_HASH_SIZE.
(** AltEndorsement: id 32, endorsed/containing = ALT hash (MIN..MAX), blockOfProof = VBK hash 24 *)
Definition c_alt_endorsement : codec Endorsement :=
  c_endorsement ATV_ID_SIZE MIN_ALT_HASH_SIZE MAX_ALT_HASH_SIZE VBK_BLOCK_HASH_SIZE.

(** readArrayOf(0, mx, readSingleByteLenValue(n, n)) / writeContainer(writeSingleByteLenValue) *)
Definition c_ids (n mx : Z) : codec (list (list byte)) := c_counted (c_count 0 mx) c_empty (c_sbl n n).
(** PopState<E>::toVbkEncoding / DeserializeFromVbkEncoding *)
Definition c_popstate (c : codec Endorsement) : codec (list Endorsement) :=
  c_counted (c_count 0 (Z.max MAX_POPDATA_ATV MAX_POPDATA_VTB)) c_empty c.

Record StoredBtcAddon := mkStoredBtcAddon { sba_bop_ids : list (list byte); sba_refs : list Z }.
Definition c_stored_btc_addon : codec StoredBtcAddon :=
  c_iso (fun a => (sba_bop_ids a, sba_refs a)) (fun p => mkStoredBtcAddon (fst p) (snd p))
    (c_pair (c_ids VTB_ID_SIZE MAX_POPDATA_VBK)
            (c_counted (c_count 0 MAX_BTCADDON_REFS) c_empty (c_be I32 4))).

Record StoredVbkAddon := mkStoredVbkAddon {
  sva_endorsed_by : list (list byte); sva_bop_ids : list (list byte); sva_ref_count : Z;
  sva_vtb_ids : list (list byte); sva_pop_state : list Endorsement }.
Definition c_stored_vbk_addon : codec StoredVbkAddon :=
  c_iso (fun a => (sva_endorsed_by a, (sva_bop_ids a, (sva_ref_count a, (sva_vtb_ids a, sva_pop_state a)))))
        (fun '(e, (b, (r, (v, p)))) => mkStoredVbkAddon e b r v p)
    (c_pair (c_ids VTB_ID_SIZE MAX_POPDATA_VBK) (c_pair (c_ids ATV_ID_SIZE MAX_POPDATA_VBK)
    (c_pair (c_be U32 4) (c_pair (c_ids VTB_ID_SIZE MAX_VBKPOPTX_PER_VBK_BLOCK) (c_popstate c_vbk_endorsement))))).

Record StoredAltAddon := mkStoredAltAddon {
  saa_endorsed_by : list (list byte); saa_atv_ids : list (list byte); saa_vtb_ids : list (list byte);
  saa_vbk_ids : list (list byte); saa_pop_state : list Endorsement }.
Definition c_stored_alt_addon : codec StoredAltAddon :=
  c_iso (fun a => (saa_endorsed_by a, (saa_atv_ids a, (saa_vtb_ids a, (saa_vbk_ids a, saa_pop_state a)))))
        (fun '(e, (a, (v, (b, p)))) => mkStoredAltAddon e a v b p)
    (c_pair (c_ids ATV_ID_SIZE MAX_POPDATA_VBK) (c_pair (c_ids ATV_ID_SIZE MAX_POPDATA_ATV)
    (c_pair (c_ids VTB_ID_SIZE MAX_POPDATA_VTB) (c_pair (c_ids VBK_ID_SIZE MAX_POPDATA_VBK) (c_popstate c_alt_endorsement))))).

(** StoredBlockIndex<Block>: height, header->toRaw, status, addon; value = (height, (header, (status, addon))) *)
Definition c_stored_index {H A} (hc : codec H) (ac : codec A) : codec (Z * (H * (Z * A))) :=
  c_pair (c_be I32 4) (c_pair hc (c_pair (c_be U32 4) ac)).
Definition c_stored_btc := c_stored_index c_btcblock_raw c_stored_btc_addon.
Definition c_stored_vbk := c_stored_index c_vbkblock_raw c_stored_vbk_addon.
Definition c_stored_alt := c_stored_index c_altblock c_stored_alt_addon.
