(** Serde layer: the time-bound statements exported to Properties_C06.v.
    [steps_bound s c a b]: the counted decoder [s] returns exactly what the decoder [dec c] returns,
    and takes at most a * |input| + b steps — on EVERY byte string, whatever counts and lengths it announces. *)
From Coq Require Import ZArith List Bool Lia.
From Coq Require Import Strings.Byte.
From VB Require Import Gen.Consts Serde.StreamDefs Serde.StreamLemmas Serde.StreamProofs Serde.EntityDefs
  Serde.StepsDefs Serde.StepsProofs.
Import ListNotations.
Local Open Scope Z_scope.
Ltac Zify.zify_post_hook ::= Z.div_mod_to_equations.

Definition steps_bound {A} (s : sdec A) (c : codec A) (a b : Z) : Prop :=
  forall bs, fst (s_run s bs) = dec c bs /\ 0 <= snd (s_run s bs) <= a * len bs + b.

Lemma steps_bound_of_ok {A} (s : sdec A) c a b :
  s_ok s -> s_codec s = c -> s_a s = a -> s_b s = b -> steps_bound s c a b.
Proof.
  intros (Ha & Hb & Hm & Hr & Hl) <- <- <- bs. split; [apply Hr|]. apply (lin_total _ _ _ _ Ha Hl).
Qed.

Section Entities.
  Variable an : Z -> list byte -> option (Z * list byte).
  Lemma output_steps : steps_bound (s_output an) (c_output an) 2 0.
  Proof. apply steps_bound_of_ok; [apply s_output_ok | reflexivity | vm_compute; reflexivity | vm_compute; reflexivity]. Qed.
  Lemma vbkblock_steps : steps_bound s_vbkblock c_vbkblock 2 0.
  Proof. apply steps_bound_of_ok; [apply s_vbkblock_ok | reflexivity | vm_compute; reflexivity | vm_compute; reflexivity]. Qed.
  Lemma btcblock_steps : steps_bound s_btcblock c_btcblock 2 0.
  Proof. apply steps_bound_of_ok; [apply s_btcblock_ok | reflexivity | vm_compute; reflexivity | vm_compute; reflexivity]. Qed.
  Lemma merklepath_steps : steps_bound s_merklepath c_merklepath 4 1.
  Proof. apply steps_bound_of_ok; [apply s_merklepath_ok | reflexivity | vm_compute; reflexivity | vm_compute; reflexivity]. Qed.
  Lemma vbkmerklepath_steps : steps_bound s_vbkmerklepath c_vbkmerklepath 2 1.
  Proof. apply steps_bound_of_ok; [apply s_vbkmerklepath_ok | reflexivity | vm_compute; reflexivity | vm_compute; reflexivity]. Qed.
  Lemma pubdata_steps : steps_bound s_pubdata c_pubdata 2 0.
  Proof. apply steps_bound_of_ok; [apply s_pubdata_ok | reflexivity | vm_compute; reflexivity | vm_compute; reflexivity]. Qed.
  Lemma vbktx_steps : steps_bound (s_vbktx an) (c_vbktx an) 6 1.
  Proof. apply steps_bound_of_ok; [apply s_vbktx_ok | reflexivity | vm_compute; reflexivity | vm_compute; reflexivity]. Qed.
  Lemma vbkpoptx_steps : steps_bound (s_vbkpoptx an) (c_vbkpoptx an) 6 2.
  Proof. apply steps_bound_of_ok; [apply s_vbkpoptx_ok | reflexivity | vm_compute; reflexivity | vm_compute; reflexivity]. Qed.
  Lemma atv_steps : steps_bound (s_atv an) (c_atv an) 6 2.
  Proof. apply steps_bound_of_ok; [apply s_atv_ok | reflexivity | vm_compute; reflexivity | vm_compute; reflexivity]. Qed.
  Lemma vtb_steps : steps_bound (s_vtb an) (c_vtb an) 6 3.
  Proof. apply steps_bound_of_ok; [apply s_vtb_ok | reflexivity | vm_compute; reflexivity | vm_compute; reflexivity]. Qed.
  Lemma popdata_steps : steps_bound (s_popdata an) (c_popdata an) 7 8.
  Proof. apply steps_bound_of_ok; [apply s_popdata_ok | reflexivity | vm_compute; reflexivity | vm_compute; reflexivity]. Qed.

  (** C06_steps_linear: the composite decoders *)
  Lemma steps_linear :
    steps_bound (s_vbktx an) (c_vbktx an) 6 1 /\ steps_bound (s_vbkpoptx an) (c_vbkpoptx an) 6 2 /\
    steps_bound (s_atv an) (c_atv an) 6 2 /\ steps_bound (s_vtb an) (c_vtb an) 6 3 /\
    steps_bound (s_popdata an) (c_popdata an) 7 8.
  Proof. exact (conj vbktx_steps (conj vbkpoptx_steps (conj atv_steps (conj vtb_steps popdata_steps)))). Qed.
  Lemma steps_linear_parts :
    steps_bound (s_output an) (c_output an) 2 0 /\ steps_bound s_vbkblock c_vbkblock 2 0 /\
    steps_bound s_btcblock c_btcblock 2 0 /\ steps_bound s_merklepath c_merklepath 4 1 /\
    steps_bound s_vbkmerklepath c_vbkmerklepath 2 1 /\ steps_bound s_pubdata c_pubdata 2 0.
  Proof. exact (conj output_steps (conj vbkblock_steps (conj btcblock_steps (conj merklepath_steps (conj vbkmerklepath_steps pubdata_steps))))). Qed.
End Entities.

(** the generic array combinator readArrayOf(min, max, readFunc) over ANY element reader that is itself
    linear (slope a, constant b) and consumes at least m >= 1 bytes when it succeeds: same results as
    [read_array_of], steps <= max(2, a + ceil((b+1)/m)) * |input| + b + 1 — no dependence on min, max or
    the announced count *)
Lemma array_steps {A} mn mx a b m (P : list byte -> sres A) p :
  refines P p -> 0 <= a -> 0 <= b -> 1 <= m -> lin a b m P ->
  forall bs, fst (read_array_of_s mn mx P bs) = read_array_of mn mx p bs /\
             0 <= snd (read_array_of_s mn mx P bs) <= Z.max 2 (a + amort b m) * len bs + (b + 1).
Proof.
  intros HP Ha Hb Hm Hl bs. split; [apply read_array_of_s_fst; exact HP|].
  assert (H2 : 0 <= Z.max 2 (a + amort b m)) by lia.
  apply (lin_total _ _ _ _ H2 (read_array_of_s_lin mn mx a b m P Ha Hb Hm Hl)).
Qed.

(** the element loop alone: whatever iteration count [n] it is started with *)
Lemma loop_steps_count_independent {A} a b m (P : list byte -> sres A) :
  0 <= a -> 0 <= b -> 1 <= m -> lin a b m P ->
  forall n bs, 0 <= snd (read_n_s P n bs) <= (a + amort b m) * len bs + (b + 1).
Proof.
  intros Ha Hb Hm Hl n bs. destruct (amort_ok b m Hb Hm) as [Hq Hqm].
  assert (H2 : 0 <= a + amort b m) by lia.
  apply (lin_total _ _ _ _ H2 (read_n_s_lin a b m (amort b m) P Ha Hb Hq Hqm Hl n)).
Qed.

(** * the count prefix costs at most 9 steps, and a count outside [min, max] stops the array there *)
Lemma read_sbl_s_cost mn mx bs :
  match fst (read_sbl_s mn mx bs) with
  | Value d r => snd (read_sbl_s mn mx bs) = 1 + len d
  | _ => 0 <= snd (read_sbl_s mn mx bs) <= 1
  end.
Proof.
  unfold read_sbl_s, read_be_s, read_slice_s.
  destruct (read_slice 1 bs) as [a r| | |] eqn:E; cbn [sbind sret fst snd]; try lia.
  apply read_slice_inv in E. destruct E as [_ E].
  destruct (check_range (wrap_t U8 (be_val a 0)) mn mx); cbn [sret fst snd]; [|lia].
  destruct (read_slice (wrap_t U8 (be_val a 0)) r) as [d r'| | |]; cbn [fst snd]; lia.
Qed.

Lemma read_single_be_s_const t bs : 0 <= ibytes t -> 0 <= snd (read_single_be_s t bs) <= 1 + 2 * ibytes t.
Proof.
  intros Ht. unfold read_single_be_s.
  pose proof (read_sbl_s_cost 0 (ibytes t) bs) as C. pose proof (read_sbl_s_fst 0 (ibytes t) bs) as F.
  destruct (fst (read_sbl_s 0 (ibytes t) bs)) as [d r| | |] eqn:E.
  - rewrite (sbind_value _ _ d r E). unfold in_sub_s. cbn [snd]. rewrite C.
    symmetry in F. apply read_sbl_inv in F. destruct F as (Hd & _ & _).
    assert (H1 : 0 <= 1) by lia.
    pose proof (lin_total 1 0 _ _ H1 (read_be_s_lin t (len d)) d) as Hb. lia.
  - destruct (sbind_fail (read_sbl_s 0 (ibytes t) bs) (fun d r => in_sub_s (read_be_s t (len d)) d r)) as [S1 _];
      [rewrite E; discriminate | rewrite S1; lia].
  - destruct (sbind_fail (read_sbl_s 0 (ibytes t) bs) (fun d r => in_sub_s (read_be_s t (len d)) d r)) as [S1 _];
      [rewrite E; discriminate | rewrite S1; lia].
  - destruct (sbind_fail (read_sbl_s 0 (ibytes t) bs) (fun d r => in_sub_s (read_be_s t (len d)) d r)) as [S1 _];
      [rewrite E; discriminate | rewrite S1; lia].
Qed.

(** checkRange(count, min, max) BEFORE reserve() and the loop: a count outside the declared limits ends the
    array after the <= 9 steps of its own prefix — no element reader is called, nothing is reserved *)
Lemma array_count_out_of_range {A} mn mx (P : list byte -> sres A) bs c r :
  fst (read_single_be_s I32 bs) = Value c r -> check_range c mn mx = false ->
  read_array_of_s mn mx P bs = (Invalid, snd (read_single_be_s I32 bs)) /\ snd (read_single_be_s I32 bs) <= 9.
Proof.
  intros E C. split.
  - unfold read_array_of_s, read_count_s.
    rewrite (sbind_value (read_single_be_s I32 bs) _ c r E). rewrite C. cbn [sret fst snd].
    unfold sbind. cbn [fst snd]. rewrite Z.add_0_r. reflexivity.
  - pose proof (read_single_be_s_const I32 bs ltac:(cbn; lia)) as H. cbn [ibytes I32] in H. lia.
Qed.

(** ... and WITHOUT that check the loop runs [count] times when an element can succeed on no bytes:
    5 input bytes, more than 2^31 steps. (For the real element types — every one consumes >= 1 byte —
    the loop stops at the first missing element, see [loop_steps_count_independent]; the check is what
    bounds reserve() and zero-size elements.) *)
Lemma read_n_s_empty : forall n bs, read_n_s (s_run s_empty) n bs = (Value (repeat tt n) bs, Z.of_nat n).
Proof.
  induction n as [|k IH]; intros bs; [reflexivity|].
  cbn [read_n_s]. rewrite (sbind_value _ _ tt bs) by reflexivity.
  rewrite IH. cbn [s_run s_empty tick sret sbind fst snd repeat]. f_equal. lia.
Qed.

Lemma unchecked_cost bs c r : fst (read_single_be_s I32 bs) = Value c r -> 0 <= c ->
  snd (read_array_unchecked_s (s_run s_empty) bs) = snd (read_single_be_s I32 bs) + c.
Proof.
  intros E Hc. unfold read_array_unchecked_s. rewrite (sbind_value _ _ c r E).
  rewrite read_n_s_empty. cbn [fst snd]. rewrite Z2Nat.id by exact Hc. reflexivity.
Qed.

Definition huge_count : list byte := [x04; x7f; xff; xff; xff].
Lemma huge_count_prefix : read_single_be_s I32 huge_count = (Value 2147483647 [], 9).
Proof. vm_compute. reflexivity. Qed.
Lemma unchecked_count_refuted :
  len huge_count = 5 /\
  2 ^ 31 <= snd (read_array_unchecked_s (s_run s_empty) huge_count) /\
  read_array_of_s 0 MAX_POPDATA_VTB (s_run s_empty) huge_count = (Invalid, 9).
Proof.
  split; [reflexivity|]. split.
  - rewrite (unchecked_cost huge_count 2147483647 []); [|rewrite huge_count_prefix; reflexivity | discriminate].
    rewrite huge_count_prefix. cbn [snd]. change (2 ^ 31) with 2147483648. lia.
  - pose proof (array_count_out_of_range 0 MAX_POPDATA_VTB (s_run s_empty) huge_count 2147483647 []) as H.
    rewrite huge_count_prefix in H. apply H; reflexivity.
Qed.
