(** Serde layer: every primitive codec and every combinator of StreamDefs.v
    satisfies [codec_ok] (round trip, decode => well-formed, estimateSize
    exact, total + memory safe). *)
From Coq Require Import ZArith NArith List Bool Lia.
From Coq Require Import Strings.Byte.
From VB Require Import Serde.StreamDefs Serde.CodecSpec Serde.StreamLemmas.
Import ListNotations.
Local Open Scope Z_scope.

Lemma andb3 a b c : a && b && c = true -> a = true /\ b = true /\ c = true.
Proof. destruct a, b, c; cbn; intuition congruence. Qed.

(** ** readBE / readLE *)
Lemma read_be_app t d r : read_be t (len d) (d ++ r) = Value (wrap_t t (be_val d 0)) r.
Proof. unfold read_be. rewrite read_slice_app. reflexivity. Qed.

Lemma read_be_inv t n bs v r : read_be t n bs = Value v r ->
  exists d, bs = d ++ r /\ len d = Z.max 0 n /\ v = wrap_t t (be_val d 0).
Proof.
  unfold read_be. destruct (read_slice n bs) as [d r'| | |] eqn:E; cbn [bind]; try discriminate.
  intros Hq; inversion Hq; subst. apply read_slice_inv in E. destruct E as [-> El]. exists d. auto.
Qed.

Lemma read_be_safe t n bs : safe bs (read_be t n bs).
Proof. unfold read_be. apply safe_bind; [apply read_slice_safe|]. intros. apply safe_value. Qed.

Lemma read_le_safe t bs : safe bs (read_le t bs).
Proof. unfold read_le. apply safe_bind; [apply read_slice_safe|]. intros. apply safe_value. Qed.

Lemma wrap_u8 b : wrap_t U8 (be_val [b] 0) = b2z b.
Proof.
  cbn [be_val]. unfold wrap_t. cbn [ibytes isigned U8]. pose proof (b2z_range b).
  apply wrap_unsigned. change (2 ^ (8 * 1)) with 256. lia.
Qed.

Lemma read_u8_cons b r : read_be U8 1 (b :: r) = Value (b2z b) r.
Proof. change (b :: r) with ([b] ++ r). change 1 with (len [b]). rewrite read_be_app, wrap_u8. reflexivity. Qed.

Lemma read_u8_inv bs v r : read_be U8 1 bs = Value v r -> exists b, bs = b :: r /\ v = b2z b.
Proof.
  intros H. apply read_be_inv in H. destruct H as (d & -> & Hl & ->).
  destruct d as [|b [|b' d]].
  - discriminate Hl.
  - exists b. rewrite wrap_u8. auto.
  - rewrite !len_cons in Hl. pose proof (len_nonneg d). lia.
Qed.

Lemma check_range_ok c mn mx : 0 <= c < 2 ^ 64 -> mn <= c <= mx -> check_range c mn mx = true.
Proof.
  intros Hc Hr. unfold check_range, u64. rewrite Z.mod_small by assumption.
  apply andb_true_iff. split; apply Z.leb_le; lia.
Qed.

Lemma check_range_nonneg c mn mx : 0 <= c < 2 ^ 64 -> check_range c mn mx = true -> mn <= c <= mx.
Proof.
  intros Hc. unfold check_range, u64. rewrite Z.mod_small by assumption.
  intros H. apply andb_true_iff in H. destruct H as [H1 H2]. apply Z.leb_le in H1. apply Z.leb_le in H2. lia.
Qed.

Lemma check_range_i32 c mn mx : mx < 2 ^ 31 -> - 2 ^ 31 <= c < 2 ^ 31 -> check_range c mn mx = true ->
  0 <= c /\ mn <= c <= mx /\ u64 c = c.
Proof.
  intros Hm Hc H. unfold check_range in H. apply andb_true_iff in H. destruct H as [H1 H2].
  apply Z.leb_le in H1. apply Z.leb_le in H2. unfold u64 in *.
  destruct (Z_lt_le_dec c 0).
  - rewrite mod_neg_once in H2 by lia. lia.
  - rewrite Z.mod_small in * by lia. lia.
Qed.

(** ** fixed-width integers and raw blobs *)
Lemma c_be_ok t n : 0 < n <= ibytes t -> codec_ok (c_be t n).
Proof.
  intros Hn. split.
  - intros x r Hw _. cbn [c_be enc dec wfd] in *.
    rewrite <- (len_write_be n x) at 1 by lia. rewrite read_be_app. f_equal.
    rewrite be_val_write_be by lia. apply wrap_t_rt; assumption.
  - intros bs x r H. cbn [c_be dec wfd] in *. apply read_be_inv in H. destruct H as (d & -> & Hl & ->).
    apply wrap_t_in_range; [assumption|]. pose proof (be_val_range d). rewrite pow2_8 by lia.
    replace n with (len d) by lia. assumption.
  - intros x _ _. cbn [c_be esize enc]. rewrite len_write_be; lia.
  - intros bs. apply read_be_safe.
Qed.

Lemma c_le_ok t : 0 < ibytes t -> codec_ok (c_le t).
Proof.
  intros Hn. split.
  - intros x r Hw _. cbn [c_le enc dec wfd] in *. unfold read_le, write_le.
    rewrite read_slice_app' by (rewrite len_rev, len_be_bytes; lia). cbn [bind]. f_equal.
    rewrite rev_involutive. fold (write_be (ibytes t) x). rewrite be_val_write_be by lia.
    apply wrap_t_rt; [lia|assumption].
  - intros bs x r H. cbn [c_le dec wfd] in *. unfold read_le in H.
    destruct (read_slice (ibytes t) bs) as [d r'| | |] eqn:E; cbn [bind] in H; try discriminate.
    inversion H; subst. apply read_slice_inv in E. destruct E as [_ El].
    apply wrap_t_in_range; [lia|]. pose proof (be_val_range (rev d)) as Hr. rewrite len_rev in Hr.
    rewrite pow2_8 by lia. replace (ibytes t) with (len d) by lia. assumption.
  - intros x _ _. cbn [c_le esize enc]. unfold write_le. rewrite len_rev, len_be_bytes. lia.
  - intros bs. apply read_le_safe.
Qed.

Lemma c_bytes_ok n : 0 <= n -> codec_ok (c_bytes n).
Proof.
  intros Hn. split.
  - intros x r Hw _. cbn [c_bytes enc dec wfd] in *. apply Z.eqb_eq in Hw. apply read_slice_app'. lia.
  - intros bs x r H. cbn [c_bytes dec wfd] in *. apply read_slice_inv in H. apply Z.eqb_eq. lia.
  - intros x _ _. reflexivity.
  - intros bs. apply read_slice_safe.
Qed.

(** ** single-byte-length values *)
Lemma read_sbl_enc mn mx v r : mn <= len v <= mx -> len v <= 255 ->
  read_sbl mn mx (z2b (len v) :: v ++ r) = Value v r.
Proof.
  intros Hr H255. unfold read_sbl. rewrite read_u8_cons. cbn [bind]. pose proof (len_nonneg v).
  rewrite b2z_z2b_small by lia.
  rewrite check_range_ok by lia.
  apply read_slice_app.
Qed.

Lemma read_sbl_inv mn mx bs v r : read_sbl mn mx bs = Value v r ->
  mn <= len v <= mx /\ len v <= 255 /\ exists pre, bs = pre ++ r.
Proof.
  unfold read_sbl. destruct (read_be U8 1 bs) as [n r0| | |] eqn:E; cbn [bind]; try discriminate.
  apply read_u8_inv in E. destruct E as (b & -> & ->). pose proof (b2z_range b) as Hb.
  destruct (check_range (b2z b) mn mx) eqn:C; [|discriminate].
  apply check_range_nonneg in C; [|lia].
  intros H. apply read_slice_inv in H. destruct H as [-> Hl].
  repeat split; try lia. exists (b :: v). reflexivity.
Qed.

Lemma read_sbl_safe mn mx bs : safe bs (read_sbl mn mx bs).
Proof.
  unfold read_sbl. apply safe_bind; [apply read_be_safe|]. intros n r _.
  destruct (check_range n mn mx); [apply read_slice_safe|exact I].
Qed.

Lemma c_sbl_ok mn mx : codec_ok (c_sbl mn mx).
Proof.
  split.
  - intros x r Hw _. cbn [c_sbl enc dec wfd] in *. apply andb3 in Hw. destruct Hw as (H1 & H2 & H3).
    apply Z.leb_le in H1, H2, H3. unfold write_sbl. cbn [app]. apply read_sbl_enc; lia.
  - intros bs x r H. cbn [c_sbl dec wfd] in *. apply read_sbl_inv in H. destruct H as (H1 & H2 & _).
    rewrite !andb_true_iff. repeat split; apply Z.leb_le; lia.
  - intros x _ _. cbn [c_sbl esize enc]. unfold write_sbl, sbl_size. rewrite len_cons. reflexivity.
  - intros bs. apply read_sbl_safe.
Qed.

(** ** single-BE values *)
Lemma read_single_be_enc t d r : len d <= ibytes t -> len d <= 255 ->
  read_single_be t (z2b (len d) :: d ++ r) = Value (wrap_t t (be_val d 0)) r.
Proof.
  intros H1 H2. unfold read_single_be. pose proof (len_nonneg d).
  rewrite read_sbl_enc by lia. cbn [bind]. unfold in_sub.
  rewrite <- (app_nil_r d) at 2. rewrite read_be_app. reflexivity.
Qed.

Lemma read_single_be_inv t bs v r : 0 < ibytes t -> read_single_be t bs = Value v r ->
  in_be_range t (ibytes t) v = true /\ exists pre, bs = pre ++ r.
Proof.
  intros Ht. unfold read_single_be.
  destruct (read_sbl 0 (ibytes t) bs) as [d r0| | |] eqn:E; cbn [bind]; try discriminate.
  apply read_sbl_inv in E. destruct E as (Hl & _ & Hpre).
  unfold in_sub. destruct (read_be t (len d) d) as [v' r'| | |] eqn:E2; try discriminate.
  intros Hq; inversion Hq; subst. split; [|assumption].
  apply read_be_inv in E2. destruct E2 as (d' & -> & Hl' & ->).
  apply wrap_t_in_range; [lia|]. pose proof (be_val_range d') as Hr. pose proof (len_nonneg d').
  split; [lia|]. eapply Z.lt_le_trans; [apply Hr|]. rewrite pow2_8 by lia.
  apply Z.pow_le_mono_r; [lia|]. rewrite len_app in Hl. pose proof (len_nonneg r'). lia.
Qed.

Lemma read_single_be_safe t bs : safe bs (read_single_be t bs).
Proof.
  unfold read_single_be. apply safe_bind; [apply read_sbl_safe|]. intros d r _.
  apply safe_in_sub. apply read_be_safe.
Qed.

Lemma in_range_i64 v : in_be_range I64 8 v = true -> - 2 ^ 63 <= v < 2 ^ 63.
Proof.
  unfold in_be_range, be_lo, be_hi. cbn [isigned ibytes I64 andb Z.eqb Pos.eqb]. change (8 * 8 - 1) with 63.
  intros H. apply andb_true_iff in H. destruct H as [H1 H2]. apply Z.leb_le in H1. apply Z.ltb_lt in H2. lia.
Qed.

Lemma in_range_i32 v : in_be_range I32 4 v = true -> - 2 ^ 31 <= v < 2 ^ 31.
Proof.
  unfold in_be_range, be_lo, be_hi. cbn [isigned ibytes I32 andb Z.eqb Pos.eqb]. change (8 * 4 - 1) with 31.
  intros H. apply andb_true_iff in H. destruct H as [H1 H2]. apply Z.leb_le in H1. apply Z.ltb_lt in H2. lia.
Qed.

Lemma single_be_size_len v : single_be_size v = len (write_single_be v).
Proof. unfold single_be_size, write_single_be. rewrite len_cons. reflexivity. Qed.

Lemma c_single_be64_ok : codec_ok c_single_be64.
Proof.
  split.
  - intros x r Hw _. cbn [c_single_be64 enc dec wfd] in *. apply in_range_i64 in Hw.
    unfold write_single_be. cbn [app]. pose proof (trim_x_range 7 x).
    rewrite read_single_be_enc by (rewrite len_trimmed; cbn [ibytes I64]; lia).
    rewrite trimmed_rt64 by assumption. reflexivity.
  - intros bs x r H. cbn [c_single_be64 dec wfd] in *. apply read_single_be_inv in H; [|cbn; lia]. apply H.
  - intros x _ _. apply single_be_size_len.
  - intros bs. apply read_single_be_safe.
Qed.

Lemma c_single_fixed_be_ok t : 0 < ibytes t <= 255 -> codec_ok (c_single_fixed_be t).
Proof.
  intros Ht. split.
  - intros x r Hw _. cbn [c_single_fixed_be enc dec wfd] in *. unfold write_single_fixed_be, write_sbl. cbn [app].
    rewrite read_single_be_enc by (rewrite len_write_be; lia). f_equal.
    rewrite be_val_write_be by lia. apply wrap_t_rt; [lia|assumption].
  - intros bs x r H. cbn [c_single_fixed_be dec wfd] in *. apply read_single_be_inv in H; [|lia]. apply H.
  - intros x _ _. cbn [c_single_fixed_be esize enc]. unfold single_fixed_be_size, write_single_fixed_be, write_sbl, sbl_size.
    rewrite len_cons, len_write_be; lia.
  - intros bs. apply read_single_be_safe.
Qed.

(** ** counts and var-len values (int32 length, range checked as uint64) *)
Lemma read_single_be32_count c r : 0 <= c < 2 ^ 31 ->
  read_single_be I32 (write_single_be c ++ r) = Value c r.
Proof.
  intros Hc. unfold write_single_be. cbn [app]. destruct (trimmed_rt32 c Hc) as [Hle Hv].
  pose proof (trim_x_range 7 c).
  rewrite read_single_be_enc by (rewrite len_trimmed; cbn [ibytes I32]; lia).
  rewrite Hv. reflexivity.
Qed.

Lemma c_count_ok mn mx : mx < 2 ^ 31 -> codec_ok (c_count mn mx).
Proof.
  intros Hm. split.
  - intros x r Hw _. cbn [c_count enc dec wfd] in *. apply andb3 in Hw. destruct Hw as (H1 & H2 & H3).
    apply Z.leb_le in H1, H2, H3. unfold read_count. rewrite read_single_be32_count by lia. cbn [bind].
    rewrite check_range_ok by lia. reflexivity.
  - intros bs x r H. cbn [c_count dec wfd] in *. unfold read_count in H.
    destruct (read_single_be I32 bs) as [c r0| | |] eqn:E; cbn [bind] in H; try discriminate.
    destruct (check_range c mn mx) eqn:C; [|discriminate]. inversion H; subst.
    apply read_single_be_inv in E; [|cbn; lia]. destruct E as [E _]. apply in_range_i32 in E.
    destruct (check_range_i32 _ _ _ Hm E C) as (Hc & Hr & _).
    rewrite !andb_true_iff. repeat split; apply Z.leb_le; lia.
  - intros x _ _. apply single_be_size_len.
  - intros bs. cbn [c_count dec]. unfold read_count. apply safe_bind; [apply read_single_be_safe|].
    intros c r _. destruct (check_range c mn mx); [apply safe_value|exact I].
Qed.

Lemma c_var_len_ok mn mx : mx < 2 ^ 31 -> codec_ok (c_var_len mn mx).
Proof.
  intros Hm. split.
  - intros x r Hw _. cbn [c_var_len enc dec wfd] in *. apply andb_true_iff in Hw. destruct Hw as (H1 & H2).
    apply Z.leb_le in H1, H2. pose proof (len_nonneg x). unfold read_var_len, write_var_len.
    rewrite <- app_assoc. rewrite read_single_be32_count by lia. cbn [bind].
    rewrite check_range_ok by lia.
    unfold u64. rewrite Z.mod_small by lia. apply read_slice_app.
  - intros bs x r H. cbn [c_var_len dec wfd] in *. unfold read_var_len in H.
    destruct (read_single_be I32 bs) as [c r0| | |] eqn:E; cbn [bind] in H; try discriminate.
    destruct (check_range c mn mx) eqn:C; [|discriminate].
    apply read_single_be_inv in E; [|cbn; lia]. destruct E as [E _]. apply in_range_i32 in E.
    destruct (check_range_i32 _ _ _ Hm E C) as (Hc & Hr & Hu). rewrite Hu in H.
    apply read_slice_inv in H. destruct H as [_ Hl].
    apply andb_true_iff. split; apply Z.leb_le; lia.
  - intros x _ _. cbn [c_var_len esize enc]. unfold var_len_size, write_var_len.
    rewrite len_app, single_be_size_len. reflexivity.
  - intros bs. cbn [c_var_len dec]. unfold read_var_len. apply safe_bind; [apply read_single_be_safe|].
    intros c r _. destruct (check_range c mn mx); [apply read_slice_safe|exact I].
Qed.

Lemma c_empty_ok : codec_ok c_empty.
Proof.
  split.
  - intros [] r _ _. reflexivity.
  - intros bs x r _. reflexivity.
  - intros x _ _. reflexivity.
  - intros bs. apply safe_value.
Qed.

(** ** combinators *)
Lemma c_pair_ok {A B} (ca : codec A) (cb : codec B) : codec_ok ca -> codec_ok cb -> codec_ok (c_pair ca cb).
Proof.
  intros Ha Hb. split.
  - intros [a b] r Hw Hf. cbn [c_pair enc dec wfd fits fst snd] in *.
    apply andb_true_iff in Hw, Hf. destruct Hw as [Hwa Hwb]. destruct Hf as [Hfa Hfb].
    rewrite <- app_assoc. rewrite (ok_rt _ Ha) by assumption. cbn [bind].
    rewrite (ok_rt _ Hb) by assumption. reflexivity.
  - intros bs [a b] r H. cbn [c_pair dec wfd fst snd] in *.
    destruct (dec ca bs) as [a' r1| | |] eqn:Ea; cbn [bind] in H; try discriminate.
    destruct (dec cb r1) as [b' r2| | |] eqn:Eb; cbn [bind] in H; try discriminate.
    inversion H; subst. apply andb_true_iff. split; [eapply (ok_wf _ Ha)|eapply (ok_wf _ Hb)]; eassumption.
  - intros [a b] Hw Hf. cbn [c_pair enc esize wfd fits fst snd] in *.
    apply andb_true_iff in Hw, Hf. destruct Hw as [Hwa Hwb]. destruct Hf as [Hfa Hfb].
    rewrite len_app, (ok_size _ Ha), (ok_size _ Hb) by assumption. reflexivity.
  - intros bs. cbn [c_pair dec]. apply safe_bind; [apply (ok_safe _ Ha)|]. intros a r _.
    apply safe_bind; [apply (ok_safe _ Hb)|]. intros b r' _. apply safe_value.
Qed.

Lemma c_iso_ok {A B} (f : B -> A) (g : A -> B) (c : codec A) :
  (forall b, g (f b) = b) -> (forall a, wfd c a = true -> f (g a) = a) ->
  codec_ok c -> codec_ok (c_iso f g c).
Proof.
  intros Hgf Hfg Hc. split.
  - intros b r Hw Hf. cbn [c_iso enc dec wfd fits] in *. rewrite (ok_rt _ Hc) by assumption. cbn [bind].
    rewrite Hgf. reflexivity.
  - intros bs b r H. cbn [c_iso dec wfd] in *.
    destruct (dec c bs) as [a r1| | |] eqn:Ea; cbn [bind] in H; try discriminate.
    inversion H; subst. pose proof (ok_wf _ Hc _ _ _ Ea) as Hw. rewrite Hfg by assumption. assumption.
  - intros b Hw Hf. cbn [c_iso enc esize wfd fits] in *. apply (ok_size _ Hc); assumption.
  - intros bs. cbn [c_iso dec]. apply safe_bind; [apply (ok_safe _ Hc)|]. intros. apply safe_value.
Qed.

Lemma c_refine_ok {A} (c : codec A) (p : A -> bool) : codec_ok c -> codec_ok (c_refine c p).
Proof.
  intros Hc. split.
  - intros a r Hw Hf. cbn [c_refine enc dec wfd fits] in *. apply andb_true_iff in Hw. destruct Hw as [Hw Hp].
    rewrite (ok_rt _ Hc) by assumption. cbn [bind]. rewrite Hp. reflexivity.
  - intros bs a r H. cbn [c_refine dec wfd] in *.
    destruct (dec c bs) as [a' r1| | |] eqn:Ea; cbn [bind] in H; try discriminate.
    destruct (p a') eqn:Hp; [|discriminate]. inversion H; subst.
    apply andb_true_iff. split; [eapply (ok_wf _ Hc); eassumption|assumption].
  - intros a Hw Hf. cbn [c_refine enc esize wfd fits] in *. apply andb_true_iff in Hw. apply (ok_size _ Hc); tauto.
  - intros bs. cbn [c_refine dec]. apply safe_bind; [apply (ok_safe _ Hc)|]. intros a r _.
    destruct (p a); [apply safe_value|exact I].
Qed.

Lemma c_nested_ok {A} (lc : codec (list byte)) (lsz : Z -> Z) (c : codec A) :
  codec_ok lc -> (forall d, fits lc d = true) ->
  (forall d, wfd lc d = true -> lsz (len d) = len (enc lc d)) ->
  codec_ok c -> codec_ok (c_nested lc lsz c).
Proof.
  intros Hl Hlf Hsz Hc. split.
  - intros x r Hw Hf. cbn [c_nested enc dec wfd fits] in *. apply andb_true_iff in Hf. destruct Hf as [Hf Hlw].
    rewrite (ok_rt _ Hl) by auto. cbn [bind]. unfold in_sub.
    rewrite <- (app_nil_r (enc c x)). rewrite (ok_rt _ Hc) by assumption. reflexivity.
  - intros bs x r H. cbn [c_nested dec wfd] in *.
    destruct (dec lc bs) as [d r1| | |] eqn:Ea; cbn [bind] in H; try discriminate.
    unfold in_sub in H. destruct (dec c d) as [x' r2| | |] eqn:Ed; try discriminate.
    inversion H; subst. eapply (ok_wf _ Hc); eassumption.
  - intros x Hw Hf. cbn [c_nested enc esize wfd fits] in *. apply andb_true_iff in Hf. destruct Hf as [Hf Hlw].
    rewrite (ok_size _ Hc) by assumption. apply Hsz. assumption.
  - intros bs. cbn [c_nested dec]. apply safe_bind; [apply (ok_safe _ Hl)|]. intros d r _.
    apply safe_in_sub. apply (ok_safe _ Hc).
Qed.

(** ** arrays *)
Lemma read_n_rt {A} (c : codec A) : rt_ok c -> forall xs r,
  forallb (wfd c) xs = true -> forallb (fits c) xs = true ->
  read_n (dec c) (length xs) (concat (map (enc c) xs) ++ r) = Value xs r.
Proof.
  intros Hc. induction xs as [|x xs IH]; intros r Hw Hf; cbn [length map concat read_n app]; [reflexivity|].
  cbn [forallb] in Hw, Hf. apply andb_true_iff in Hw, Hf. destruct Hw as [Hw Hws]. destruct Hf as [Hf Hfs].
  rewrite <- app_assoc. rewrite Hc by assumption. cbn [bind]. rewrite IH by assumption. reflexivity.
Qed.

Lemma read_n_wf {A} (c : codec A) : wf_ok c -> forall n bs xs r,
  read_n (dec c) n bs = Value xs r -> length xs = n /\ forallb (wfd c) xs = true.
Proof.
  intros Hc. induction n as [|n IH]; intros bs xs r H; cbn [read_n] in H.
  - inversion H; subst. split; reflexivity.
  - destruct (dec c bs) as [x r1| | |] eqn:Ex; cbn [bind] in H; try discriminate.
    destruct (read_n (dec c) n r1) as [xs' r2| | |] eqn:En; cbn [bind] in H; try discriminate.
    inversion H; subst. apply IH in En. destruct En as [El Ew]. cbn [length forallb].
    split; [congruence|]. apply andb_true_iff. split; [eapply Hc; eassumption|assumption].
Qed.

Lemma read_n_safe {A} (p : list byte -> res A) : (forall bs, safe bs (p bs)) -> forall n bs, safe bs (read_n p n bs).
Proof.
  intros Hp. induction n as [|n IH]; intros bs; cbn [read_n]; [apply safe_value|].
  apply safe_bind; [apply Hp|]. intros x r _. apply safe_bind; [apply IH|]. intros. apply safe_value.
Qed.

Lemma sum_sizes {A} (c : codec A) : size_ok c -> forall xs,
  forallb (wfd c) xs = true -> forallb (fits c) xs = true ->
  sumZ (map (esize c) xs) = len (concat (map (enc c) xs)).
Proof.
  intros Hc. induction xs as [|x xs IH]; intros Hw Hf; cbn [map sumZ concat]; [reflexivity|].
  cbn [forallb] in Hw, Hf. apply andb_true_iff in Hw, Hf. destruct Hw as [Hw Hws]. destruct Hf as [Hf Hfs].
  rewrite len_app, Hc, IH by assumption. reflexivity.
Qed.

Lemma c_counted_ok {A} (cc : codec Z) (mid : codec unit) (c : codec A) :
  codec_ok cc -> (forall n, fits cc n = true) -> (forall n, wfd cc n = true -> 0 <= n <= alloc_cap) ->
  codec_ok mid -> wfd mid tt = true -> fits mid tt = true ->
  codec_ok c -> codec_ok (c_counted cc mid c).
Proof.
  intros Hcc Hccf Hcap Hmid Hmw Hmf Hc. split.
  - intros xs r Hw Hf. cbn [c_counted enc dec wfd fits] in *. apply andb_true_iff in Hw. destruct Hw as [Hwn Hws].
    rewrite <- !app_assoc. rewrite (ok_rt _ Hcc) by auto. cbn [bind].
    rewrite (ok_rt _ Hmid) by auto. cbn [bind]. unfold reserve.
    pose proof (Hcap _ Hwn) as Hn.
    destruct (Z.leb_spec 0 (len xs)); [|lia]. destruct (Z.leb_spec (len xs) alloc_cap); [|lia]. cbn [andb].
    unfold len at 1. rewrite Nat2Z.id. apply read_n_rt; [apply (ok_rt _ Hc)|assumption|assumption].
  - intros bs xs r H. cbn [c_counted dec wfd] in *.
    destruct (dec cc bs) as [n r1| | |] eqn:En; cbn [bind] in H; try discriminate.
    destruct (dec mid r1) as [u r2| | |] eqn:Em; cbn [bind] in H; try discriminate.
    pose proof (ok_wf _ Hcc _ _ _ En) as Hwn. pose proof (Hcap _ Hwn) as Hn.
    unfold reserve in H. destruct ((0 <=? n) && (n <=? alloc_cap)); [|discriminate].
    apply (read_n_wf _ (ok_wf _ Hc)) in H. destruct H as [Hl Hws].
    apply andb_true_iff. split; [|assumption]. unfold len. rewrite Hl, Z2Nat.id by lia. assumption.
  - intros xs Hw Hf. cbn [c_counted enc esize wfd fits] in *. apply andb_true_iff in Hw. destruct Hw as [Hwn Hws].
    rewrite !len_app. rewrite (ok_size _ Hcc), (ok_size _ Hmid) by auto.
    rewrite (sum_sizes _ (ok_size _ Hc)) by assumption. lia.
  - intros bs. cbn [c_counted dec]. apply safe_bind; [apply (ok_safe _ Hcc)|]. intros n r En.
    apply safe_bind; [apply (ok_safe _ Hmid)|]. intros u r1 _.
    pose proof (Hcap _ (ok_wf _ Hcc _ _ _ En)) as Hn. unfold reserve.
    destruct (Z.leb_spec 0 n); [|lia]. destruct (Z.leb_spec n alloc_cap); [|lia]. cbn [andb].
    apply read_n_safe. apply (ok_safe _ Hc).
Qed.

(** the element count about to be reserved by readArrayOf is within the declared limit *)
Lemma read_count_bounded mn mx bs c r : mx < 2 ^ 31 -> read_count mn mx bs = Value c r -> 0 <= c /\ mn <= c <= mx.
Proof.
  intros Hm H. pose proof (ok_wf _ (c_count_ok mn mx Hm) bs c r H) as Hw. cbn [c_count wfd] in Hw.
  apply andb3 in Hw. destruct Hw as (H1 & H2 & H3). apply Z.leb_le in H1, H2, H3. lia.
Qed.

(** ** network byte pair *)
Lemma c_network_byte_ok ty : 0 <= ty < 256 -> codec_ok (c_network_byte ty).
Proof.
  intros Hty. split.
  - intros [[n|] t] r Hw _; cbn [c_network_byte enc dec wfd fst snd] in *.
    + rewrite !andb_true_iff in Hw. destruct Hw as ((((H1 & H2) & H3) & H4) & H5).
      apply Z.leb_le in H1, H4. apply Z.ltb_lt in H2, H5. apply negb_true_iff in H3.
      cbn [app]. rewrite read_u8_cons. cbn [bind]. rewrite b2z_z2b_small by lia. rewrite H3.
      rewrite read_u8_cons. cbn [bind]. rewrite b2z_z2b_small by lia. reflexivity.
    + apply Z.eqb_eq in Hw. subst t. cbn [app]. rewrite read_u8_cons. cbn [bind].
      rewrite b2z_z2b_small by lia. rewrite Z.eqb_refl. reflexivity.
  - intros bs x r H. cbn [c_network_byte dec wfd] in *.
    destruct (read_be U8 1 bs) as [b r1| | |] eqn:Eb; cbn [bind] in H; try discriminate.
    apply read_u8_inv in Eb. destruct Eb as (b0 & -> & ->). pose proof (b2z_range b0).
    destruct (b2z b0 =? ty) eqn:Et.
    + inversion H; subst. cbn [fst snd]. assumption.
    + destruct (read_be U8 1 r1) as [t r2| | |] eqn:E2; cbn [bind] in H; try discriminate.
      apply read_u8_inv in E2. destruct E2 as (b1 & -> & ->). pose proof (b2z_range b1).
      inversion H; subst. cbn [fst snd]. rewrite Et. cbn [negb].
      rewrite !andb_true_iff. repeat split; try (apply Z.leb_le; lia); apply Z.ltb_lt; lia.
  - intros [[n|] t] _ _; reflexivity.
  - intros bs. cbn [c_network_byte dec]. apply safe_bind; [apply read_be_safe|]. intros b r _.
    destruct (b =? ty); [apply safe_value|]. apply safe_bind; [apply read_be_safe|]. intros. apply safe_value.
Qed.

(** ** generic consequences *)
Theorem stable_of_ok {A} (c : codec A) : codec_ok c -> stable c.
Proof.
  intros Hc bs x r r' H Hf. apply (ok_rt _ Hc); [eapply (ok_wf _ Hc); eassumption|assumption].
Qed.

(** canonical encodings are unique: two well-formed values with the same encoding are equal *)
Theorem enc_injective {A} (c : codec A) : codec_ok c -> forall x y,
  wfd c x = true -> fits c x = true -> wfd c y = true -> fits c y = true -> enc c x = enc c y -> x = y.
Proof.
  intros Hc x y Hx Hfx Hy Hfy E.
  pose proof (ok_rt _ Hc x [] Hx Hfx) as R1. pose proof (ok_rt _ Hc y [] Hy Hfy) as R2.
  rewrite E in R1. rewrite R1 in R2. inversion R2. reflexivity.
Qed.
