(** Serde layer: the address-carrying codec theorems instantiated with the concrete address
    normalisation [addr_norm_c18 sha256] (AddrNorm.v) — the premise [addr_norm_sound] is discharged by
    AddrNormProofs.addr_norm_c18_sound, so only [sha256] stays abstract (no premise about it). *)
From Coq Require Import ZArith List.
From VB Require Import Gen.Consts Serde.StreamDefs Serde.CodecSpec Serde.EntityDefs Serde.Theorems Serde.FitsProofs
  Serde.Counting Serde.AddrNorm Serde.AddrNormProofs Text.TextCommon Text.AddressProofs.
From VB Require Mempool.CountDefs Mempool.CountProofs.
Import ListNotations.
Local Open Scope Z_scope.

Section Concrete.
  Variable sha256 : list Z -> list Z.
  Let an := addr_norm_c18 sha256.
  Let Hn : addr_norm_sound an := addr_norm_c18_sound sha256.

  Lemma address_c11_concrete : c11_ok (c_address an).   Proof. exact (address_c11 an Hn). Qed.
  Lemma output_c11_concrete : c11_ok (c_output an).     Proof. exact (output_c11 an Hn). Qed.
  Lemma vbktx_c11_concrete : c11_ok (c_vbktx an).       Proof. exact (vbktx_c11 an Hn). Qed.
  Lemma vbkpoptx_c11_concrete : c11_ok (c_vbkpoptx an). Proof. exact (vbkpoptx_c11 an Hn). Qed.
  Lemma atv_c11_concrete : c11_ok (c_atv an).           Proof. exact (atv_c11 an Hn). Qed.
  Lemma vtb_c11_concrete : c11_ok (c_vtb an).           Proof. exact (vtb_c11 an Hn). Qed.
  Lemma popdata_c11_concrete : c11_ok (c_popdata an).   Proof. exact (popdata_c11 an Hn). Qed.
  Lemma address_full_concrete : c11_full (c_address an). Proof. exact (address_full an Hn). Qed.
  Lemma output_full_concrete : c11_full (c_output an).   Proof. exact (output_full an Hn). Qed.

  Lemma address_c06_concrete : c06_ok (c_address an).   Proof. exact (address_c06 an Hn). Qed.
  Lemma output_c06_concrete : c06_ok (c_output an).     Proof. exact (output_c06 an Hn). Qed.
  Lemma vbktx_c06_concrete : c06_ok (c_vbktx an).       Proof. exact (vbktx_c06 an Hn). Qed.
  Lemma vbkpoptx_c06_concrete : c06_ok (c_vbkpoptx an). Proof. exact (vbkpoptx_c06 an Hn). Qed.
  Lemma atv_c06_concrete : c06_ok (c_atv an).           Proof. exact (atv_c06 an Hn). Qed.
  Lemma vtb_c06_concrete : c06_ok (c_vtb an).           Proof. exact (vtb_c06 an Hn). Qed.
  Lemma popdata_c06_concrete : c06_ok (c_popdata an).   Proof. exact (popdata_c06 an Hn). Qed.

  Lemma counting_figure_is_encoded_size_concrete p c r :
    CountProofs.agrees c r -> wfd (c_popdata an) p = true -> StreamDefs.fits (c_popdata an) p = true ->
    map Z.of_N (CountDefs.k_vbk r) = map (esize c_vbkblock) (pop_context p) ->
    map Z.of_N (CountDefs.k_vtb r) = map (esize (c_vtb an)) (pop_vtbs p) ->
    map Z.of_N (CountDefs.k_atv r) = map (esize (c_atv an)) (pop_atvs p) ->
    (CountDefs.len (CountDefs.k_vbk r) < 2 ^ 63)%N -> (CountDefs.len (CountDefs.k_vtb r) < 2 ^ 63)%N ->
    (CountDefs.len (CountDefs.k_atv r) < 2 ^ 63)%N ->
    Z.of_N (CountDefs.popsize c) = StreamDefs.len (enc (c_popdata an) p).
  Proof. exact (counting_figure_is_encoded_size an Hn p c r). Qed.
End Concrete.

(** The concrete normalisation is not vacuous, and it does normalise: with the stub sha256 of
    AddressProofs.sha_demo the text "V" ++ 24 x '1' ++ "US517" is a valid STANDARD address;
    - wire (1, DecodeBase58 text) is accepted unchanged;
    - wire (3, DecodeBase59 text) is accepted too, as the STANDARD address (type 1, DecodeBase58 text):
      the type comes from the text, not from the wire byte (the C++ does the same with the real sha256 on
      "V111111111111111111111111G3LuZ": type byte 3 + a95dc853..ee50 deserialises to the STANDARD address
      and re-serialises as 01 16 672a2145..1dd4);
    - wire (1, DecodeBase59 text) is rejected (its base58 text does not start with 'V'). *)
Definition demo_b58 : list byte := map z2b
  [103; 42; 33; 69; 142; 123; 202; 220; 27; 43; 140; 146; 191; 78; 119; 228; 10; 45; 146; 128; 227; 46].
Definition demo_b59 : list byte := map z2b
  [169; 93; 200; 83; 195; 201; 126; 23; 231; 150; 109; 94; 171; 114; 200; 54; 130; 196; 42; 140; 235; 148].

Example addr_norm_c18_nontrivial :
  addr_norm_c18 sha_demo 1 demo_b58 = Some (1, demo_b58) /\
  addr_norm_c18 sha_demo 3 demo_b59 = Some (1, demo_b58) /\
  addr_norm_c18 sha_demo 1 demo_b59 = None /\
  wfd (c_address (addr_norm_c18 sha_demo)) (mkAddress 1 demo_b58) = true /\
  wfd (c_address (addr_norm_c18 sha_demo)) (mkAddress 3 demo_b59) = false.
Proof. vm_compute. repeat split. Qed.
