(** Serde layer: [codec_ok] (round trip, decode => well-formed, estimateSize
    exact, total + memory-safe parse) for every entity codec of EntityDefs.v.
    One lemma per entity; the numeric side conditions (limits below 2^31,
    counts below [alloc_cap], header sizes) are re-checked by computation
    against the constants regenerated from the repository (Gen/Consts.v). *)
From Coq Require Import ZArith List Bool Lia.
From Coq Require Import Strings.Byte.
From VB Require Import Gen.Consts Serde.StreamDefs Serde.CodecSpec Serde.StreamLemmas Serde.StreamProofs Serde.EntityDefs.
Import ListNotations.
Local Open Scope Z_scope.

Ltac iso_tac :=
  intros;
  repeat match goal with
         | p : (_ * _)%type |- _ => destruct p
         | u : unit |- _ => destruct u
         end; try reflexivity.

Ltac side := first [ exact I | reflexivity | (cbn; lia) | (vm_compute; intuition congruence) ].

Lemma c_rev_bytes_ok n : 0 <= n -> codec_ok (c_rev_bytes n).
Proof.
  intros. apply c_iso_ok; [intros; apply rev_involutive | intros; apply rev_involutive | apply c_bytes_ok; assumption].
Qed.

Lemma c_count_fixed32_ok mn mx : codec_ok (c_count_fixed32 mn mx).
Proof. apply c_refine_ok. apply c_single_fixed_be_ok. cbn. lia. Qed.

Lemma c_count_fixed32_cap mn mx n : mx <= alloc_cap -> wfd (c_count_fixed32 mn mx) n = true -> 0 <= n <= alloc_cap.
Proof.
  intros Hm H. cbn [c_count_fixed32 c_refine wfd c_single_fixed_be] in H. apply andb_true_iff in H. destruct H as [Hr Hc].
  apply in_range_i32 in Hr. assert (Hm' : mx < 2 ^ 31) by (unfold alloc_cap in Hm; lia).
  destruct (check_range_i32 _ _ _ Hm' Hr Hc) as (? & ? & _). lia.
Qed.

Lemma c_count_cap mn mx n : mx <= alloc_cap -> wfd (c_count mn mx) n = true -> 0 <= n <= alloc_cap.
Proof.
  intros Hm H. cbn [c_count wfd] in H. apply andb3 in H. destruct H as (H1 & H2 & H3).
  apply Z.leb_le in H1, H2, H3. lia.
Qed.

Lemma c_u8_cap n : wfd (c_be U8 1) n = true -> 0 <= n <= alloc_cap.
Proof.
  cbn [c_be wfd]. unfold in_be_range, be_lo, be_hi. cbn [isigned U8 andb]. intros H.
  apply andb_true_iff in H. destruct H as [H1 H2]. apply Z.leb_le in H1. apply Z.ltb_lt in H2.
  change (2 ^ (8 * 1)) with 256 in H2. unfold alloc_cap. lia.
Qed.

Lemma sbl_lsz mn mx d : wfd (c_sbl mn mx) d = true -> sbl_size (len d) = len (enc (c_sbl mn mx) d).
Proof. intros _. cbn [c_sbl enc]. unfold write_sbl, sbl_size. rewrite len_cons. reflexivity. Qed.

Lemma var_len_lsz mn mx d : wfd (c_var_len mn mx) d = true -> var_len_size (len d) = len (enc (c_var_len mn mx) d).
Proof.
  intros _. cbn [c_var_len enc]. unfold write_var_len, var_len_size. rewrite len_app, single_be_size_len. reflexivity.
Qed.

Lemma nested_sbl_ok {A} mn mx (c : codec A) : codec_ok c -> codec_ok (c_nested (c_sbl mn mx) sbl_size c).
Proof. intros. apply c_nested_ok; [apply c_sbl_ok|reflexivity|apply sbl_lsz|assumption]. Qed.

Lemma nested_var_ok {A} mn mx (c : codec A) : mx < 2 ^ 31 -> codec_ok c -> codec_ok (c_nested (c_var_len mn mx) var_len_size c).
Proof. intros. apply c_nested_ok; [apply c_var_len_ok; assumption|reflexivity|apply var_len_lsz|assumption]. Qed.

Lemma counted_ok {A} mn mx (c : codec A) : mx <= alloc_cap -> codec_ok c ->
  codec_ok (c_counted (c_count mn mx) c_empty c).
Proof.
  intros Hm Hc. apply c_counted_ok; try reflexivity; try assumption.
  - apply c_count_ok. unfold alloc_cap in Hm. lia.
  - intros n. apply c_count_cap. assumption.
  - apply c_empty_ok.
Qed.

Lemma c_merkle_mid_ok : codec_ok c_merkle_mid.
Proof.
  unfold c_merkle_mid. apply c_iso_ok.
  - intros []. reflexivity.
  - intros [s1 s2] H. cbn [c_pair c_refine wfd fst snd] in H.
    rewrite !andb_true_iff in H. destruct H as [[_ H1] [_ H2]]. apply Z.eqb_eq in H1, H2. subst. reflexivity.
  - apply c_pair_ok; apply c_refine_ok; [apply c_single_fixed_be_ok|apply c_be_ok]; cbn; lia.
Qed.

Lemma c_version1_ok : codec_ok c_version1.
Proof. apply c_refine_ok. apply c_be_ok. cbn. lia. Qed.

Lemma c_altblock_ok : codec_ok c_altblock.
Proof.
  unfold c_altblock. apply c_iso_ok; [intros []; reflexivity|iso_tac|].
  repeat apply c_pair_ok; try apply c_sbl_ok; apply c_be_ok; cbn; lia.
Qed.
Lemma c_keystones_ok : codec_ok c_keystones.
Proof.
  unfold c_keystones. apply c_iso_ok; [intros []; reflexivity|intros []; reflexivity|].
  apply c_pair_ok; apply c_sbl_ok.
Qed.
Lemma c_ctxinfo_ok : codec_ok c_ctxinfo.
Proof.
  unfold c_ctxinfo. apply c_iso_ok; [intros []; reflexivity|intros []; reflexivity|].
  apply c_pair_ok; [apply c_be_ok; cbn; lia|apply c_keystones_ok].
Qed.
Lemma c_authctx_ok : codec_ok c_authctx.
Proof.
  unfold c_authctx. apply c_iso_ok; [intros []; reflexivity|intros []; reflexivity|].
  apply c_pair_ok; [apply c_ctxinfo_ok|apply c_bytes_ok; vm_compute; discriminate].
Qed.

Lemma bytes_eqb_refl a : bytes_eqb a a = true.
Proof. induction a as [|x a IH]; cbn [bytes_eqb]; [reflexivity|]. rewrite Byte.byte_dec_lb by reflexivity. exact IH. Qed.
Lemma bytes_eqb_eq a : forall b, bytes_eqb a b = true -> a = b.
Proof.
  induction a as [|x a IH]; intros [|y b] H; cbn [bytes_eqb] in H; try discriminate; [reflexivity|].
  apply andb_true_iff in H. destruct H as [H1 H2]. apply Byte.byte_dec_bl in H1. apply IH in H2. congruence.
Qed.

Section EntityProofs.
  Variable addr_norm : Z -> list byte -> option (Z * list byte).
  Hypothesis Hnorm : addr_norm_sound addr_norm.

  Lemma c_address_ok : codec_ok (c_address addr_norm).
  Proof.
    split.
    - intros [ty b] r Hw _. cbn [c_address enc dec wfd addr_type addr_bytes] in *.
      destruct (addr_norm ty b) as [[t' b']|] eqn:E; [|discriminate].
      apply andb_true_iff in Hw. destruct Hw as [Ht Hb]. apply Z.eqb_eq in Ht. apply bytes_eqb_eq in Hb. subst t' b'.
      destruct (Hnorm _ _ _ _ E) as (Hr & Hl & _).
      rewrite <- app_assoc. rewrite <- (len_write_be 1 ty) at 1 by lia. rewrite read_be_app. cbn [bind].
      unfold write_sbl. cbn [app]. pose proof (len_nonneg b).
      rewrite read_sbl_enc by (unfold VBK_ADDRESS_SIZE in *; lia). cbn [bind].
      rewrite be_val_write_be by lia. change (2 ^ (8 * 1)) with 256. rewrite Z.mod_small by lia.
      unfold wrap_t. cbn [ibytes isigned U8]. rewrite wrap_unsigned by (change (2 ^ (8 * 1)) with 256; lia).
      rewrite E. reflexivity.
    - intros bs a r H. cbn [c_address dec wfd] in *.
      destruct (read_be U8 1 bs) as [ty r1| | |]; cbn [bind] in H; try discriminate.
      destruct (read_sbl 0 VBK_ADDRESS_SIZE r1) as [b r2| | |]; cbn [bind] in H; try discriminate.
      destruct (addr_norm ty b) as [[t' b']|] eqn:E; [|discriminate]. inversion H; subst. cbn [addr_type addr_bytes].
      destruct (Hnorm _ _ _ _ E) as (_ & _ & Hi). rewrite Hi. rewrite Z.eqb_refl, bytes_eqb_refl. reflexivity.
    - intros [ty b] Hw _. cbn [c_address esize enc wfd addr_type addr_bytes] in *.
      rewrite len_app, len_write_be by lia. unfold write_sbl, sbl_size. rewrite len_cons. reflexivity.
    - intros bs. cbn [c_address dec]. apply safe_bind; [apply read_be_safe|]. intros ty r _.
      apply safe_bind; [apply read_sbl_safe|]. intros b r' _.
      destruct (addr_norm ty b) as [[t' b']|]; [apply safe_value|exact I].
  Qed.

  Lemma c_coin_ok : codec_ok c_coin.
  Proof. exact c_single_be64_ok. Qed.

  Lemma c_output_ok : codec_ok (c_output addr_norm).
  Proof.
    unfold c_output. apply c_iso_ok; [intros []; reflexivity|intros []; reflexivity|].
    apply c_pair_ok; [apply c_address_ok|apply c_coin_ok].
  Qed.

  Lemma c_btctx_ok : codec_ok c_btctx.
  Proof. apply c_var_len_ok. vm_compute. reflexivity. Qed.

  Lemma c_btcblock_raw_ok : codec_ok c_btcblock_raw.
  Proof.
    unfold c_btcblock_raw. apply c_iso_ok; [intros []; reflexivity|iso_tac|].
    repeat apply c_pair_ok; try (apply c_le_ok; cbn; lia); apply c_rev_bytes_ok; vm_compute; discriminate.
  Qed.

  Lemma c_btcblock_ok : codec_ok c_btcblock.
  Proof. apply nested_sbl_ok. apply c_btcblock_raw_ok. Qed.

  Lemma c_vbkblock_raw_ok : codec_ok c_vbkblock_raw.
  Proof.
    unfold c_vbkblock_raw. apply c_iso_ok; [intros []; reflexivity|iso_tac|].
    repeat apply c_pair_ok; try (apply c_be_ok; cbn; lia); apply c_bytes_ok; vm_compute; discriminate.
  Qed.

  Lemma c_vbkblock_ok : codec_ok c_vbkblock.
  Proof. apply nested_sbl_ok. apply c_vbkblock_raw_ok. Qed.

  Lemma c_layers_ok (mid : codec unit) : codec_ok mid -> wfd mid tt = true -> fits mid tt = true ->
    codec_ok (c_counted (c_count_fixed32 0 MAX_LAYER_COUNT_MERKLE) mid (c_sbl SHA256_HASH_SIZE SHA256_HASH_SIZE)).
  Proof.
    intros Hm Hw Hf. apply c_counted_ok; try assumption; try reflexivity.
    - apply c_count_fixed32_ok.
    - intros n. apply c_count_fixed32_cap. vm_compute. discriminate.
    - apply c_sbl_ok.
  Qed.

  Lemma c_merklepath_raw_ok : codec_ok c_merklepath_raw.
  Proof.
    unfold c_merklepath_raw. apply c_iso_ok; [intros []; reflexivity|intros []; reflexivity|].
    apply c_pair_ok; [apply c_single_fixed_be_ok; cbn; lia|].
    apply c_layers_ok; [apply c_merkle_mid_ok|vm_compute; reflexivity|reflexivity].
  Qed.

  Lemma c_merklepath_ok : codec_ok c_merklepath.
  Proof. apply nested_var_ok; [vm_compute; reflexivity|apply c_merklepath_raw_ok]. Qed.

  Lemma c_vbkmerklepath_ok : codec_ok c_vbkmerklepath.
  Proof.
    unfold c_vbkmerklepath. apply c_iso_ok; [intros []; reflexivity|iso_tac|].
    repeat apply c_pair_ok; try (apply c_single_fixed_be_ok; cbn; lia); try apply c_sbl_ok.
    apply c_layers_ok; [apply c_empty_ok|reflexivity|reflexivity].
  Qed.

  Lemma c_pubdata_ok : codec_ok c_pubdata.
  Proof.
    unfold c_pubdata. apply c_iso_ok; [intros []; reflexivity|iso_tac|].
    repeat apply c_pair_ok; try apply c_single_be64_ok; apply c_var_len_ok; vm_compute; reflexivity.
  Qed.

  Lemma c_vbktx_raw_ok : codec_ok (c_vbktx_raw addr_norm).
  Proof.
    unfold c_vbktx_raw. repeat apply c_pair_ok.
    - apply c_network_byte_ok. vm_compute. intuition congruence.
    - apply c_address_ok.
    - apply c_coin_ok.
    - apply c_counted_ok; try reflexivity.
      + apply c_be_ok. cbn. lia.
      + apply c_u8_cap.
      + apply c_empty_ok.
      + apply c_output_ok.
    - apply c_single_be64_ok.
    - apply nested_var_ok; [vm_compute; reflexivity|apply c_pubdata_ok].
  Qed.

  Lemma c_vbktx_ok : codec_ok (c_vbktx addr_norm).
  Proof.
    unfold c_vbktx. apply c_iso_ok; [intros []; reflexivity|iso_tac|].
    repeat apply c_pair_ok; try apply c_sbl_ok.
    apply nested_var_ok; [vm_compute; reflexivity|apply c_vbktx_raw_ok].
  Qed.

  Lemma c_vbkpoptx_raw_ok : codec_ok (c_vbkpoptx_raw addr_norm).
  Proof.
    unfold c_vbkpoptx_raw. repeat apply c_pair_ok.
    - apply c_network_byte_ok. vm_compute. intuition congruence.
    - apply c_address_ok.
    - apply c_vbkblock_ok.
    - apply c_btctx_ok.
    - apply c_merklepath_ok.
    - apply c_btcblock_ok.
    - apply counted_ok; [vm_compute; discriminate|apply c_btcblock_ok].
  Qed.

  Lemma c_vbkpoptx_ok : codec_ok (c_vbkpoptx addr_norm).
  Proof.
    unfold c_vbkpoptx. apply c_iso_ok; [intros []; reflexivity|iso_tac|].
    repeat apply c_pair_ok; try apply c_sbl_ok.
    apply nested_var_ok; [vm_compute; reflexivity|apply c_vbkpoptx_raw_ok].
  Qed.

  Lemma c_atv_ok : codec_ok (c_atv addr_norm).
  Proof.
    unfold c_atv. apply c_iso_ok; [intros []; reflexivity|iso_tac|].
    repeat apply c_pair_ok; [apply c_version1_ok|apply c_vbktx_ok|apply c_vbkmerklepath_ok|apply c_vbkblock_ok].
  Qed.

  Lemma c_vtb_ok : codec_ok (c_vtb addr_norm).
  Proof.
    unfold c_vtb. apply c_iso_ok; [intros []; reflexivity|iso_tac|].
    repeat apply c_pair_ok; [apply c_version1_ok|apply c_vbkpoptx_ok|apply c_vbkmerklepath_ok|apply c_vbkblock_ok].
  Qed.

  Lemma c_popdata_ok : codec_ok (c_popdata addr_norm).
  Proof.
    unfold c_popdata. apply c_iso_ok; [intros []; reflexivity|iso_tac|].
    repeat apply c_pair_ok; [apply c_version1_ok| | |];
      (apply counted_ok; [vm_compute; discriminate|]); [apply c_vbkblock_ok|apply c_vtb_ok|apply c_atv_ok].
  Qed.
End EntityProofs.
