(** Serde layer: the decoders of StreamDefs.v / EntityDefs.v with a STEP COUNTER.
    Executable; NO proofs in this file.

    A counted reader returns [(result, steps)]. One step =
      * one byte delivered by ReadStream::readSlice / read (so a byte that is first cut out as a
        length-prefixed slice and then parsed by a ReadStream of its own is paid once per level);
      * one iteration of the element loop of readArrayOf (entered iterations, including the one
        whose element fails).
    Range checks, the comparison of a refinement, reserve() and the external address normalisation
    (base58/59 + sha256 over at most VBK_ADDRESS_SIZE bytes) are not charged: their number is fixed
    by the shape of the decoder (resp. one per iteration), they touch no input-dependent amount of data.

    A counted decoder [sdec] carries the codec it counts ([s_codec] — the entity codecs below are
    DEFINITIONALLY the codecs of EntityDefs.v, see StepsProofs.v), its counted run, and the three
    static numbers of its bound: steps <= s_a * consumed + s_b, and at least [s_min] bytes are
    consumed by a successful run. *)
From Coq Require Import ZArith List Bool.
From Coq Require Import Strings.Byte.
From VB Require Import Gen.Consts Serde.StreamDefs Serde.EntityDefs.
Import ListNotations.
Local Open Scope Z_scope.

Definition sres (A : Type) : Type := (res A * Z)%type.
Definition sret {A} (r : res A) : sres A := (r, 0).
Definition sbind {A B} (x : sres A) (f : A -> list byte -> sres B) : sres B :=
  match fst x with
  | Value a r => let y := f a r in (fst y, snd x + snd y)
  | Invalid => (Invalid, snd x)
  | Oob => (Oob, snd x)
  | BadAlloc => (BadAlloc, snd x)
  end.
(** one more step *)
Definition tick {A} (x : sres A) : sres A := (fst x, 1 + snd x).

(** ** primitives *)
Definition read_slice_s (n : Z) (bs : list byte) : sres (list byte) :=
  match read_slice n bs with
  | Value a r => (Value a r, len a)
  | Invalid => (Invalid, 0) | Oob => (Oob, 0) | BadAlloc => (BadAlloc, 0)
  end.
Definition read_be_s (t : ity) (n : Z) (bs : list byte) : sres Z :=
  sbind (read_slice_s n bs) (fun d r => sret (Value (wrap_t t (be_val d 0)) r)).
Definition read_le_s (t : ity) (bs : list byte) : sres Z :=
  sbind (read_slice_s (ibytes t) bs) (fun d r => sret (Value (wrap_t t (be_val (rev d) 0)) r)).
Definition read_sbl_s (mn mx : Z) (bs : list byte) : sres (list byte) :=
  sbind (read_be_s U8 1 bs) (fun n r => if check_range n mn mx then read_slice_s n r else sret Invalid).
Definition in_sub_s {A} (p : list byte -> sres A) (d : list byte) (r : list byte) : sres A :=
  let y := p d in
  (match fst y with Value x _ => Value x r | Invalid => Invalid | Oob => Oob | BadAlloc => BadAlloc end, snd y).
Definition read_single_be_s (t : ity) (bs : list byte) : sres Z :=
  sbind (read_sbl_s 0 (ibytes t) bs) (fun d r => in_sub_s (read_be_s t (len d)) d r).
Definition read_var_len_s (mn mx : Z) (bs : list byte) : sres (list byte) :=
  sbind (read_single_be_s I32 bs) (fun n r => if check_range n mn mx then read_slice_s (u64 n) r else sret Invalid).
Definition read_count_s (mn mx : Z) (bs : list byte) : sres Z :=
  sbind (read_single_be_s I32 bs) (fun c r => if check_range c mn mx then sret (Value c r) else sret Invalid).
Definition reserve_s {A} (n : Z) (k : sres A) : sres A :=
  if (0 <=? n) && (n <=? alloc_cap) then k else sret BadAlloc.

(** the element loop of readArrayOf: one step per entered iteration + the steps of the element *)
Fixpoint read_n_s {A} (p : list byte -> sres A) (n : nat) (bs : list byte) : sres (list A) :=
  match n with
  | O => sret (Value [] bs)
  | S k => sbind (tick (p bs)) (fun x r => sbind (read_n_s p k r) (fun xs r' => sret (Value (x :: xs) r')))
  end.
Definition read_array_of_s {A} (mn mx : Z) (p : list byte -> sres A) (bs : list byte) : sres (list A) :=
  sbind (read_count_s mn mx bs) (fun c r => reserve_s c (read_n_s p (Z.to_nat c) r)).

(** ** counted decoders *)
Record sdec (A : Type) := mkS {
  s_codec : codec A;
  s_run : list byte -> sres A;
  s_a : Z;      (* steps per consumed byte *)
  s_b : Z;      (* additive constant *)
  s_min : Z;    (* bytes consumed by every successful run *)
}.
Arguments mkS {A}.
Arguments s_codec {A}.
Arguments s_run {A}.
Arguments s_a {A}.
Arguments s_b {A}.
Arguments s_min {A}.

Definition s_be (t : ity) (n : Z) : sdec Z := mkS (c_be t n) (read_be_s t n) 1 0 (Z.max 0 n).
Definition s_le (t : ity) : sdec Z := mkS (c_le t) (read_le_s t) 1 0 (Z.max 0 (ibytes t)).
Definition s_bytes (n : Z) : sdec (list byte) := mkS (c_bytes n) (read_slice_s n) 1 0 (Z.max 0 n).
Definition s_sbl (mn mx : Z) : sdec (list byte) := mkS (c_sbl mn mx) (read_sbl_s mn mx) 1 0 1.
Definition s_var_len (mn mx : Z) : sdec (list byte) := mkS (c_var_len mn mx) (read_var_len_s mn mx) 2 0 1.
Definition s_single_be64 : sdec Z := mkS c_single_be64 (read_single_be_s I64) 2 0 1.
Definition s_single_fixed_be (t : ity) : sdec Z := mkS (c_single_fixed_be t) (read_single_be_s t) 2 0 1.
Definition s_count (mn mx : Z) : sdec Z := mkS (c_count mn mx) (read_count_s mn mx) 2 0 1.
Definition s_empty : sdec unit := mkS c_empty (fun bs => sret (Value tt bs)) 0 0 0.

Definition s_pair {A B} (x : sdec A) (y : sdec B) : sdec (A * B) :=
  mkS (c_pair (s_codec x) (s_codec y))
      (fun bs => sbind (s_run x bs) (fun a r => sbind (s_run y r) (fun b r' => sret (Value (a, b) r'))))
      (Z.max (s_a x) (s_a y)) (s_b x + s_b y) (s_min x + s_min y).
Definition s_iso {A B} (f : B -> A) (g : A -> B) (x : sdec A) : sdec B :=
  mkS (c_iso f g (s_codec x))
      (fun bs => sbind (s_run x bs) (fun a r => sret (Value (g a) r)))
      (s_a x) (s_b x) (s_min x).
Definition s_refine {A} (x : sdec A) (p : A -> bool) : sdec A :=
  mkS (c_refine (s_codec x) p)
      (fun bs => sbind (s_run x bs) (fun a r => if p a then sret (Value a r) else sret Invalid))
      (s_a x) (s_b x) (s_min x).
(** the payload is paid by the length-prefix reader AND by the nested parser: slopes add *)
Definition s_nested {A} (lc : sdec (list byte)) (lsz : Z -> Z) (x : sdec A) : sdec A :=
  mkS (c_nested (s_codec lc) lsz (s_codec x))
      (fun bs => sbind (s_run lc bs) (fun d r => in_sub_s (s_run x) d r))
      (s_a lc + s_a x) (s_b lc + s_b x) (s_min lc).
(** per-iteration cost 1 + s_b e is amortised over the at least [s_min e] bytes of a successful element:
    q = ceil((1 + s_b e) / s_min e) more steps per byte; only the last, failing, iteration is additive *)
Definition amort (b m : Z) : Z := (b + m) / m.
Definition s_counted {A} (cc : sdec Z) (mid : sdec unit) (e : sdec A) : sdec (list A) :=
  mkS (c_counted (s_codec cc) (s_codec mid) (s_codec e))
      (fun bs => sbind (s_run cc bs) (fun n r =>
                 sbind (s_run mid r) (fun _ r1 =>
                 reserve_s n (read_n_s (s_run e) (Z.to_nat n) r1))))
      (Z.max (Z.max (s_a cc) (s_a mid)) (s_a e + amort (s_b e) (s_min e)))
      (s_b cc + s_b mid + (s_b e + 1))
      (s_min cc + s_min mid).
Definition s_network_byte (ty : Z) : sdec nbp :=
  mkS (c_network_byte ty)
      (fun bs => sbind (read_be_s U8 1 bs) (fun b r =>
                 if b =? ty then sret (Value (None, b) r)
                 else sbind (read_be_s U8 1 r) (fun t r' => sret (Value (Some b, t) r'))))
      1 0 1.

(** ** the entities, in the order of EntityDefs.v *)
Definition s_rev_bytes (n : Z) : sdec (list byte) := s_iso (@rev byte) (@rev byte) (s_bytes n).
Definition s_count_fixed32 (mn mx : Z) : sdec Z :=
  s_refine (s_single_fixed_be I32) (fun n => check_range n mn mx).

Definition s_altblock : sdec AltBlock :=
  s_iso (fun b => (ab_hash b, (ab_prev b, (ab_height b, ab_time b))))
        (fun '(h, (p, (ht, t))) => mkAltBlock h p ht t)
    (s_pair (s_sbl ALT_HASH_SIZE ALT_HASH_SIZE) (s_pair (s_sbl 0 ALT_HASH_SIZE) (s_pair (s_be I32 4) (s_be U32 4)))).

Section Entities.
  Variable addr_norm : Z -> list byte -> option (Z * list byte).

  Definition s_address : sdec Address :=
    mkS (c_address addr_norm)
        (fun bs => sbind (read_be_s U8 1 bs) (fun ty r =>
                   sbind (read_sbl_s 0 VBK_ADDRESS_SIZE r) (fun b r' =>
                   match addr_norm ty b with
                   | Some (t', b') => sret (Value (mkAddress t' b') r')
                   | None => sret Invalid
                   end)))
        1 0 2.
  Definition s_coin : sdec Z := s_single_be64.
  Definition s_output : sdec Output :=
    s_iso (fun o => (out_addr o, out_coin o)) (fun p => mkOutput (fst p) (snd p)) (s_pair s_address s_coin).
  Definition s_btctx : sdec (list byte) := s_var_len 0 BTC_TX_MAX_RAW_SIZE.
  Definition s_btcblock_raw : sdec BtcBlock :=
    s_iso (fun b => (bb_version b, (bb_prev b, (bb_merkle b, (bb_time b, (bb_bits b, bb_nonce b))))))
          (fun '(v, (p, (m, (t, (b, n))))) => mkBtcBlock v p m t b n)
      (s_pair (s_le I32) (s_pair (s_rev_bytes SHA256_HASH_SIZE) (s_pair (s_rev_bytes SHA256_HASH_SIZE)
      (s_pair (s_le U32) (s_pair (s_le U32) (s_le U32)))))).
  Definition s_btcblock : sdec BtcBlock :=
    s_nested (s_sbl BTC_HEADER_SIZE BTC_HEADER_SIZE) sbl_size s_btcblock_raw.
  Definition s_vbkblock_raw : sdec VbkBlock :=
    s_iso (fun b => (vb_height b, (vb_version b, (vb_prev b, (vb_ks1 b, (vb_ks2 b, (vb_merkle b,
                    (vb_time b, (vb_difficulty b, vb_nonce b)))))))))
          (fun '(h, (v, (p, (k1, (k2, (m, (t, (d, n)))))))) => mkVbkBlock h v p k1 k2 m t d n)
      (s_pair (s_be I32 4) (s_pair (s_be I16 2) (s_pair (s_bytes VBK_PREVIOUS_BLOCK_HASH_SIZE)
      (s_pair (s_bytes VBK_PREVIOUS_KEYSTONE_HASH_SIZE) (s_pair (s_bytes VBK_PREVIOUS_KEYSTONE_HASH_SIZE)
      (s_pair (s_bytes VBK_MERKLE_ROOT_HASH_SIZE) (s_pair (s_be U32 4) (s_pair (s_be I32 4) (s_be U64 5))))))))).
  Definition s_vbkblock : sdec VbkBlock :=
    s_nested (s_sbl VBK_HEADER_SIZE_PROGPOW VBK_HEADER_SIZE_PROGPOW) sbl_size s_vbkblock_raw.
  Definition s_merkle_mid : sdec unit :=
    s_iso (fun _ : unit => (4, SHA256_HASH_SIZE)) to_unit
      (s_pair (s_refine (s_single_fixed_be I32) (fun s => s =? 4))
              (s_refine (s_be I32 4) (fun s => s =? SHA256_HASH_SIZE))).
  Definition s_merklepath_raw : sdec MerklePath :=
    s_iso (fun m => (mp_index m, mp_layers m)) (fun p => mkMerklePath (fst p) (snd p))
      (s_pair (s_single_fixed_be I32)
              (s_counted (s_count_fixed32 0 MAX_LAYER_COUNT_MERKLE) s_merkle_mid
                         (s_sbl SHA256_HASH_SIZE SHA256_HASH_SIZE))).
  Definition s_merklepath : sdec MerklePath :=
    s_nested (s_var_len 0 MAX_POPDATA_SIZE) var_len_size s_merklepath_raw.
  Definition s_vbkmerklepath : sdec VbkMerklePath :=
    s_iso (fun m => (vmp_tree_index m, (vmp_index m, (vmp_subject m, vmp_layers m))))
          (fun '(t, (i, (s, l))) => mkVbkMerklePath t i s l)
      (s_pair (s_single_fixed_be I32) (s_pair (s_single_fixed_be I32)
      (s_pair (s_sbl SHA256_HASH_SIZE SHA256_HASH_SIZE)
              (s_counted (s_count_fixed32 0 MAX_LAYER_COUNT_MERKLE) s_empty
                         (s_sbl SHA256_HASH_SIZE SHA256_HASH_SIZE))))).
  Definition s_pubdata : sdec PublicationData :=
    s_iso (fun p => (pd_identifier p, (pd_header p, (pd_context p, pd_payout p))))
          (fun '(i, (h, (c, p))) => mkPublicationData i h c p)
      (s_pair s_single_be64 (s_pair (s_var_len 0 MAX_HEADER_SIZE_PUBLICATION_DATA)
      (s_pair (s_var_len 0 MAX_CONTEXT_SIZE_PUBLICATION_DATA) (s_var_len 0 MAX_PAYOUT_INFO_SIZE)))).
  Definition s_vbktx_raw : sdec (nbp * (Address * (Z * (list Output * (Z * PublicationData))))) :=
    s_pair (s_network_byte TX_TYPE_VBK_TX) (s_pair s_address (s_pair s_coin
    (s_pair (s_counted (s_be U8 1) s_empty s_output)
    (s_pair s_single_be64 (s_nested (s_var_len 0 MAX_PUBLICATIONDATA_SIZE) var_len_size s_pubdata))))).
  Definition s_vbktx : sdec VbkTx :=
    s_iso (fun t => ((tx_net t, (tx_src t, (tx_amount t, (tx_outputs t, (tx_sig_index t, tx_pub t))))),
                     (tx_signature t, tx_pubkey t)))
          (fun '((n, (s, (a, (o, (i, p))))), (sg, pk)) => mkVbkTx n s a o i p sg pk)
      (s_pair (s_nested (s_var_len 0 MAX_POPDATA_SIZE) var_len_size s_vbktx_raw)
              (s_pair (s_sbl 0 MAX_SIGNATURE_SIZE) (s_sbl 0 MAX_PUBLIC_KEY_SIZE))).
  Definition s_vbkpoptx_raw :
    sdec (nbp * (Address * (VbkBlock * (list byte * (MerklePath * (BtcBlock * list BtcBlock)))))) :=
    s_pair (s_network_byte TX_TYPE_VBK_POP_TX) (s_pair s_address (s_pair s_vbkblock (s_pair s_btctx
    (s_pair s_merklepath (s_pair s_btcblock
            (s_counted (s_count 0 MAX_BTC_BLOCKS_IN_VBKPOPTX) s_empty s_btcblock)))))).
  Definition s_vbkpoptx : sdec VbkPopTx :=
    s_iso (fun t => ((ptx_net t, (ptx_addr t, (ptx_published t, (ptx_btctx t, (ptx_merkle t,
                      (ptx_bop t, ptx_context t)))))), (ptx_signature t, ptx_pubkey t)))
          (fun '((n, (a, (p, (b, (m, (bop, ctx)))))), (sg, pk)) => mkVbkPopTx n a p b m bop ctx sg pk)
      (s_pair (s_nested (s_var_len 0 MAX_POPDATA_SIZE) var_len_size s_vbkpoptx_raw)
              (s_pair (s_sbl 0 MAX_SIGNATURE_SIZE) (s_sbl 0 MAX_PUBLIC_KEY_SIZE))).
  Definition s_version1 : sdec Z := s_refine (s_be U32 4) (fun v => v =? 1).
  Definition s_atv : sdec ATV :=
    s_iso (fun a => (atv_version a, (atv_tx a, (atv_merkle a, atv_block a))))
          (fun '(v, (t, (m, b))) => mkATV v t m b)
      (s_pair s_version1 (s_pair s_vbktx (s_pair s_vbkmerklepath s_vbkblock))).
  Definition s_vtb : sdec VTB :=
    s_iso (fun a => (vtb_version a, (vtb_tx a, (vtb_merkle a, vtb_block a))))
          (fun '(v, (t, (m, b))) => mkVTB v t m b)
      (s_pair s_version1 (s_pair s_vbkpoptx (s_pair s_vbkmerklepath s_vbkblock))).
  Definition s_popdata : sdec PopData :=
    s_iso (fun p => (pop_version p, (pop_context p, (pop_vtbs p, pop_atvs p))))
          (fun '(v, (c, (t, a))) => mkPopData v c t a)
      (s_pair s_version1
      (s_pair (s_counted (s_count 0 MAX_POPDATA_VBK) s_empty s_vbkblock)
      (s_pair (s_counted (s_count 0 MAX_POPDATA_VTB) s_empty s_vtb)
              (s_counted (s_count 0 MAX_POPDATA_ATV) s_empty s_atv)))).
End Entities.

(** ** the array loop WITHOUT the range check of the count (what readArrayOf would be without
    checkRange(count, min, max)), used only to show that the check is what bounds the iterations when
    an element can succeed on zero bytes *)
Definition read_array_unchecked_s {A} (p : list byte -> sres A) (bs : list byte) : sres (list A) :=
  sbind (read_single_be_s I32 bs) (fun c r => read_n_s p (Z.to_nat c) r).

(** ** the statements (proved in StepsProofs.v) *)
(** the counted run returns the result of the uncounted decoder *)
Definition refines {A} (R : list byte -> sres A) (p : list byte -> res A) : Prop := forall bs, fst (R bs) = p bs.
(** steps are linear in the bytes CONSUMED on success (at least [m], never more than available),
    in the bytes AVAILABLE on failure *)
Definition lin {A} (a b m : Z) (R : list byte -> sres A) : Prop :=
  forall bs, 0 <= snd (R bs) /\
    match fst (R bs) with
    | Value _ r => len r <= len bs /\ m <= len bs - len r /\ snd (R bs) <= a * (len bs - len r) + b
    | _ => snd (R bs) <= a * len bs + b
    end.
(** a length-prefix reader consumes at least the payload it returns *)
Definition payload_le (R : list byte -> sres (list byte)) : Prop :=
  forall bs, match fst (R bs) with Value d r => len d <= len bs - len r | _ => True end.
Definition s_ok {A} (s : sdec A) : Prop :=
  0 <= s_a s /\ 0 <= s_b s /\ 0 <= s_min s /\
  refines (s_run s) (dec (s_codec s)) /\ lin (s_a s) (s_b s) (s_min s) (s_run s).
