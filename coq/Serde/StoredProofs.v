(** Serde layer: [codec_ok] for endorsements, stored addons and stored block indices. *)
From Coq Require Import ZArith List Bool Lia.
From VB Require Import Gen.Consts Serde.StreamDefs Serde.CodecSpec Serde.StreamLemmas Serde.StreamProofs
  Serde.EntityDefs Serde.EntityProofs Serde.StoredDefs.
Import ListNotations.
Local Open Scope Z_scope.

Lemma c_endorsement_ok a b c d : codec_ok (c_endorsement a b c d).
Proof.
  unfold c_endorsement. apply c_iso_ok; [intros []; reflexivity|iso_tac|]. repeat apply c_pair_ok; apply c_sbl_ok.
Qed.

Lemma c_ids_ok n mx : mx <= alloc_cap -> codec_ok (c_ids n mx).
Proof. intros. apply counted_ok; [assumption|apply c_sbl_ok]. Qed.

Lemma c_popstate_ok c : codec_ok c -> codec_ok (c_popstate c).
Proof. intros. apply counted_ok; [vm_compute; discriminate|assumption]. Qed.

Lemma c_stored_btc_addon_ok : codec_ok c_stored_btc_addon.
Proof.
  unfold c_stored_btc_addon. apply c_iso_ok; [intros []; reflexivity|intros []; reflexivity|].
  apply c_pair_ok; [apply c_ids_ok; vm_compute; discriminate|].
  apply counted_ok; [vm_compute; discriminate|apply c_be_ok; cbn; lia].
Qed.

Lemma c_stored_vbk_addon_ok : codec_ok c_stored_vbk_addon.
Proof.
  unfold c_stored_vbk_addon. apply c_iso_ok; [intros []; reflexivity|iso_tac|].
  repeat apply c_pair_ok; try (apply c_ids_ok; vm_compute; discriminate).
  - apply c_be_ok. cbn. lia.
  - apply c_popstate_ok. apply c_endorsement_ok.
Qed.

Lemma c_stored_alt_addon_ok : codec_ok c_stored_alt_addon.
Proof.
  unfold c_stored_alt_addon. apply c_iso_ok; [intros []; reflexivity|iso_tac|].
  repeat apply c_pair_ok; try (apply c_ids_ok; vm_compute; discriminate).
  apply c_popstate_ok. apply c_endorsement_ok.
Qed.

Lemma c_stored_index_ok {H A} (hc : codec H) (ac : codec A) : codec_ok hc -> codec_ok ac -> codec_ok (c_stored_index hc ac).
Proof. intros. unfold c_stored_index. repeat apply c_pair_ok; try assumption; apply c_be_ok; cbn; lia. Qed.

Lemma c_stored_btc_ok : codec_ok c_stored_btc.
Proof. apply c_stored_index_ok; [apply c_btcblock_raw_ok|apply c_stored_btc_addon_ok]. Qed.
Lemma c_stored_vbk_ok : codec_ok c_stored_vbk.
Proof. apply c_stored_index_ok; [apply c_vbkblock_raw_ok|apply c_stored_vbk_addon_ok]. Qed.
Lemma c_stored_alt_ok : codec_ok c_stored_alt.
Proof. apply c_stored_index_ok; [apply c_altblock_ok|apply c_stored_alt_addon_ok]. Qed.

Lemma forallb_true_fits {A} (f : A -> bool) (l : list A) : (forall x, f x = true) -> forallb f l = true.
Proof. intros H. induction l; cbn [forallb]; [reflexivity|]. rewrite H. assumption. Qed.

(** [fits] is vacuous for all of them: no nested length-prefixed buffers *)
Lemma endorsement_fits a b c d x : fits (c_endorsement a b c d) x = true.
Proof. destruct x. reflexivity. Qed.
Lemma ids_fits n mx x : fits (c_ids n mx) x = true.
Proof. cbn [c_ids c_counted fits]. apply forallb_true_fits. reflexivity. Qed.
Lemma popstate_fits a b c d x : fits (c_popstate (c_endorsement a b c d)) x = true.
Proof. cbn [c_popstate c_counted fits]. apply forallb_true_fits. apply endorsement_fits. Qed.
Lemma stored_btc_addon_fits x : fits c_stored_btc_addon x = true.
Proof.
  destruct x as [i r]. cbn [c_stored_btc_addon c_iso c_pair fits fst snd sba_bop_ids sba_refs].
  rewrite ids_fits. cbn [andb c_counted fits]. apply forallb_true_fits. reflexivity.
Qed.
Lemma stored_vbk_addon_fits x : fits c_stored_vbk_addon x = true.
Proof.
  destruct x as [e b r v p].
  cbn [c_stored_vbk_addon c_iso c_pair fits fst snd sva_endorsed_by sva_bop_ids sva_ref_count sva_vtb_ids sva_pop_state].
  rewrite !ids_fits. unfold c_vbk_endorsement. rewrite popstate_fits. reflexivity.
Qed.
Lemma stored_alt_addon_fits x : fits c_stored_alt_addon x = true.
Proof.
  destruct x as [e a v b p].
  cbn [c_stored_alt_addon c_iso c_pair fits fst snd saa_endorsed_by saa_atv_ids saa_vtb_ids saa_vbk_ids saa_pop_state].
  rewrite !ids_fits. unfold c_alt_endorsement. rewrite popstate_fits. reflexivity.
Qed.
