(** Serde layer: non-vacuity of the step bounds — an honest PopData (3 context blocks, 2 VTBs, 1 ATV,
    2661 bytes) with its concrete step count, and the same bytes behind a count prefix announcing
    50000 context blocks. *)
From Coq Require Import ZArith List Bool.
From Coq Require Import Strings.Byte.
From VB Require Import Gen.Consts Serde.StreamDefs Serde.EntityDefs Serde.StepsDefs Serde.StepsTheorems.
Import ListNotations.
Local Open Scope Z_scope.

Definition an0 (t : Z) (b : list byte) : option (Z * list byte) := Some (t, b).
Definition ex_vbk : VbkBlock :=
  mkVbkBlock 5 2 (repeat x01 12) (repeat x02 9) (repeat x03 9) (repeat x04 16) 1000 (-7) 1099511627775.
Definition ex_btc : BtcBlock := mkBtcBlock 1 (repeat x05 32) (repeat x06 32) 7 8 9.
Definition ex_addr : Address := mkAddress 1 (repeat x11 22).
Definition ex_vmp : VbkMerklePath := mkVbkMerklePath 1 0 (repeat x07 32) [repeat x08 32; repeat x09 32].
Definition ex_poptx : VbkPopTx :=
  mkVbkPopTx (None, TX_TYPE_VBK_POP_TX) ex_addr ex_vbk (repeat x0a 200) (mkMerklePath 3 [repeat x0b 32; repeat x0c 32])
             ex_btc [ex_btc; ex_btc] (repeat x0d 70) (repeat x0e 88).
Definition ex_vtb : VTB := mkVTB 1 ex_poptx ex_vmp ex_vbk.
Definition ex_pub : PublicationData := mkPublicationData 7 (repeat x01 40) (repeat x02 10) (repeat x03 20).
Definition ex_tx : VbkTx :=
  mkVbkTx (None, TX_TYPE_VBK_TX) ex_addr 1000 [mkOutput ex_addr 5; mkOutput ex_addr 6] 3 ex_pub (repeat x0d 70) (repeat x0e 88).
Definition ex_atv : ATV := mkATV 1 ex_tx ex_vmp ex_vbk.
Definition ex_pop : PopData := mkPopData 1 [ex_vbk; ex_vbk; ex_vbk] [ex_vtb; ex_vtb] [ex_atv].
Definition ex_bytes : list byte := enc (c_popdata an0) ex_pop.

Example popdata_steps_example :
  len ex_bytes = 2661 /\ s_run (s_popdata an0) ex_bytes = (Value ex_pop [], 5428) /\
  dec (c_popdata an0) ex_bytes = Value ex_pop [] /\ 5428 <= 7 * len ex_bytes + 8.
Proof. repeat split; vm_compute; first [reflexivity | discriminate]. Qed.

(** version, then "context: 50000 blocks" (02 c3 50) in front of the 3 blocks, 2 VTBs, 1 ATV that are there:
    the loop ends at the fourth element, after 407 steps on 2662 bytes *)
Definition hostile_bytes : list byte := [x00; x00; x00; x01; x02; xc3; x50] ++ skipn 6 ex_bytes.
Example popdata_hostile_count_example :
  len hostile_bytes = 2662 /\ s_run (s_popdata an0) hostile_bytes = (Invalid, 407) /\
  dec (c_popdata an0) hostile_bytes = Invalid.
Proof. repeat split; vm_compute; reflexivity. Qed.

(** a count of 2^31-1 with nothing behind it: 9 steps *)
Example array_huge_count_example :
  read_array_of_s 0 MAX_POPDATA_VTB (s_run (s_vtb an0)) huge_count = (Invalid, 9) /\
  read_array_of_s 0 MAX_POPDATA_VTB (s_run (s_vtb an0)) [x02; xc3; x50] = (Invalid, 6).
Proof. split; vm_compute; reflexivity. Qed.
