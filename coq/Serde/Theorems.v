(** Serde layer: the statements exported to Properties_C11.v / Properties_C06.v. *)
From Coq Require Import ZArith List Bool Lia.
From Coq Require Import Strings.Byte.
From VB Require Import Gen.Consts Serde.StreamDefs Serde.CodecSpec Serde.StreamLemmas Serde.StreamProofs
  Serde.EntityDefs Serde.EntityProofs.
Import ListNotations.
Local Open Scope Z_scope.

Lemma c11_of_ok {A} (c : codec A) : codec_ok c -> c11_ok c.
Proof. intros H. repeat split; try apply H. apply stable_of_ok. exact H. Qed.

Lemma c06_of_ok {A} (c : codec A) : codec_ok c -> c06_ok c.
Proof. intros H. apply H. Qed.

(** primitives *)
Lemma single_be64_c11 : c11_ok c_single_be64. Proof. exact (c11_of_ok _ c_single_be64_ok). Qed.
Lemma var_len_c11 : forall mn mx, mx < 2 ^ 31 -> c11_ok (c_var_len mn mx).
Proof. intros. apply c11_of_ok. apply c_var_len_ok. assumption. Qed.
Lemma sbl_c11 : forall mn mx, c11_ok (c_sbl mn mx).
Proof. intros. apply c11_of_ok. apply c_sbl_ok. Qed.
Lemma array_c11 : forall A (c : codec A) mn mx, mx <= alloc_cap -> codec_ok c -> c11_ok (c_counted (c_count mn mx) c_empty c).
Proof. intros. apply c11_of_ok. apply counted_ok; assumption. Qed.
Lemma array_c06 : forall A (c : codec A) mn mx, mx <= alloc_cap -> codec_ok c -> c06_ok (c_counted (c_count mn mx) c_empty c).
Proof. intros. apply c06_of_ok. apply counted_ok; assumption. Qed.

(** the primitives never over-read on any input *)
Lemma primitives_safe : forall bs,
  (forall n, safe bs (read_slice n bs)) /\ (forall t n, safe bs (read_be t n bs)) /\ (forall t, safe bs (read_le t bs)) /\
  (forall mn mx, safe bs (read_sbl mn mx bs)) /\ (forall t, safe bs (read_single_be t bs)) /\
  (forall mn mx, safe bs (read_var_len mn mx bs)) /\ (forall mn mx, safe bs (read_count mn mx bs)).
Proof.
  intros bs. repeat split; intros.
  - apply read_slice_safe.
  - apply read_be_safe.
  - apply read_le_safe.
  - apply read_sbl_safe.
  - apply read_single_be_safe.
  - unfold read_var_len. apply safe_bind; [apply read_single_be_safe|]. intros c r _.
    destruct (check_range c mn mx); [apply read_slice_safe|exact I].
  - unfold read_count. apply safe_bind; [apply read_single_be_safe|]. intros c r _.
    destruct (check_range c mn mx); [apply safe_value|exact I].
Qed.

(** every reserve() of an entity decoder is preceded by a range check against a
    declared limit that is at most [alloc_cap] elements *)
Lemma declared_limits_below_cap :
  MAX_LAYER_COUNT_MERKLE <= alloc_cap /\ MAX_BTC_BLOCKS_IN_VBKPOPTX <= alloc_cap /\
  MAX_POPDATA_VBK <= alloc_cap /\ MAX_POPDATA_VTB <= alloc_cap /\ MAX_POPDATA_ATV <= alloc_cap /\ 255 <= alloc_cap.
Proof. vm_compute. repeat split; discriminate. Qed.

Section Entities.
  Variable addr_norm : Z -> list byte -> option (Z * list byte).
  Hypothesis Hnorm : addr_norm_sound addr_norm.
  Lemma address_c11 : c11_ok (c_address addr_norm). Proof. exact (c11_of_ok _ (c_address_ok addr_norm Hnorm)). Qed.
  Lemma coin_c11 : c11_ok c_coin. Proof. exact (c11_of_ok _ c_coin_ok). Qed.
  Lemma output_c11 : c11_ok (c_output addr_norm). Proof. exact (c11_of_ok _ (c_output_ok addr_norm Hnorm)). Qed.
  Lemma btctx_c11 : c11_ok c_btctx. Proof. exact (c11_of_ok _ c_btctx_ok). Qed.
  Lemma btcblock_c11 : c11_ok c_btcblock. Proof. exact (c11_of_ok _ c_btcblock_ok). Qed.
  Lemma btcblock_raw_c11 : c11_ok c_btcblock_raw. Proof. exact (c11_of_ok _ c_btcblock_raw_ok). Qed.
  Lemma vbkblock_c11 : c11_ok c_vbkblock. Proof. exact (c11_of_ok _ c_vbkblock_ok). Qed.
  Lemma vbkblock_raw_c11 : c11_ok c_vbkblock_raw. Proof. exact (c11_of_ok _ c_vbkblock_raw_ok). Qed.
  Lemma merklepath_c11 : c11_ok c_merklepath. Proof. exact (c11_of_ok _ c_merklepath_ok). Qed.
  Lemma vbkmerklepath_c11 : c11_ok c_vbkmerklepath. Proof. exact (c11_of_ok _ c_vbkmerklepath_ok). Qed.
  Lemma pubdata_c11 : c11_ok c_pubdata. Proof. exact (c11_of_ok _ c_pubdata_ok). Qed.
  Lemma vbktx_c11 : c11_ok (c_vbktx addr_norm). Proof. exact (c11_of_ok _ (c_vbktx_ok addr_norm Hnorm)). Qed.
  Lemma vbkpoptx_c11 : c11_ok (c_vbkpoptx addr_norm). Proof. exact (c11_of_ok _ (c_vbkpoptx_ok addr_norm Hnorm)). Qed.
  Lemma atv_c11 : c11_ok (c_atv addr_norm). Proof. exact (c11_of_ok _ (c_atv_ok addr_norm Hnorm)). Qed.
  Lemma vtb_c11 : c11_ok (c_vtb addr_norm). Proof. exact (c11_of_ok _ (c_vtb_ok addr_norm Hnorm)). Qed.
  Lemma popdata_c11 : c11_ok (c_popdata addr_norm). Proof. exact (c11_of_ok _ (c_popdata_ok addr_norm Hnorm)). Qed.

  Lemma address_c06 : c06_ok (c_address addr_norm). Proof. exact (c06_of_ok _ (c_address_ok addr_norm Hnorm)). Qed.
  Lemma output_c06 : c06_ok (c_output addr_norm). Proof. exact (c06_of_ok _ (c_output_ok addr_norm Hnorm)). Qed.
  Lemma btctx_c06 : c06_ok c_btctx. Proof. exact (c06_of_ok _ c_btctx_ok). Qed.
  Lemma btcblock_c06 : c06_ok c_btcblock. Proof. exact (c06_of_ok _ c_btcblock_ok). Qed.
  Lemma vbkblock_c06 : c06_ok c_vbkblock. Proof. exact (c06_of_ok _ c_vbkblock_ok). Qed.
  Lemma merklepath_c06 : c06_ok c_merklepath. Proof. exact (c06_of_ok _ c_merklepath_ok). Qed.
  Lemma vbkmerklepath_c06 : c06_ok c_vbkmerklepath. Proof. exact (c06_of_ok _ c_vbkmerklepath_ok). Qed.
  Lemma pubdata_c06 : c06_ok c_pubdata. Proof. exact (c06_of_ok _ c_pubdata_ok). Qed.
  Lemma vbktx_c06 : c06_ok (c_vbktx addr_norm). Proof. exact (c06_of_ok _ (c_vbktx_ok addr_norm Hnorm)). Qed.
  Lemma vbkpoptx_c06 : c06_ok (c_vbkpoptx addr_norm). Proof. exact (c06_of_ok _ (c_vbkpoptx_ok addr_norm Hnorm)). Qed.
  Lemma atv_c06 : c06_ok (c_atv addr_norm). Proof. exact (c06_of_ok _ (c_atv_ok addr_norm Hnorm)). Qed.
  Lemma vtb_c06 : c06_ok (c_vtb addr_norm). Proof. exact (c06_of_ok _ (c_vtb_ok addr_norm Hnorm)). Qed.
  Lemma popdata_c06 : c06_ok (c_popdata addr_norm). Proof. exact (c06_of_ok _ (c_popdata_ok addr_norm Hnorm)). Qed.
End Entities.

(** the hypotheses are satisfiable by non-trivial values, and the decoder really
    accepts non-canonical encodings (so byte equality would be false) *)
Definition ex_pub : PublicationData :=
  mkPublicationData (-5) [x01; x02; x03] [] [xff].
Example ex_pub_wf : wfd c_pubdata ex_pub && fits c_pubdata ex_pub = true.
Proof. vm_compute. reflexivity. Qed.
Example ex_pub_rt : dec c_pubdata (enc c_pubdata ex_pub ++ [x07]) = Value ex_pub [x07].
Proof. vm_compute. reflexivity. Qed.
Example ex_noncanonical : dec c_coin [x00] = Value 0 [] /\ dec c_coin [x02; x00; x00] = Value 0 [] /\ enc c_coin 0 = [x01; x00].
Proof. vm_compute. repeat split; reflexivity. Qed.
Definition ex_vbk : VbkBlock :=
  mkVbkBlock 5 2 (repeat x01 12) (repeat x02 9) (repeat x03 9) (repeat x04 16) 1000 (-7) 1099511627775.
Example ex_vbk_wf : wfd c_vbkblock ex_vbk && fits c_vbkblock ex_vbk = true.
Proof. vm_compute. reflexivity. Qed.
