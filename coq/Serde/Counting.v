(** Serde layer: the abstract container arithmetic of CountingContext
    (coq/Mempool/CountDefs.v, property C12: [prefix], [estimate], [popsize]) IS
    the overhead of the PopData codec of this development:
      CountDefs.prefix n            = singleBEValueSize(n)       (single_be_size)
      CountDefs.estimate sv st sa   = esize c_popdata p          when sv/st/sa are the esize of p's context/vtbs/atvs
    so the per-kind length prefix is tied to the counter of its own kind, and — with [codec_ok] of PopData —
    the running figure of CountingContext is the number of bytes toVbkEncoding() produces. *)
From Coq Require Import ZArith NArith List Bool Lia.
From VB Require Import Gen.Consts Serde.StreamDefs Serde.CodecSpec Serde.StreamLemmas Serde.StreamProofs
  Serde.EntityDefs Serde.EntityProofs Mempool.CountDefs Mempool.CountProofs.
Import ListNotations.
Local Open Scope Z_scope.

(** trim_x is the minimal byte count *)
Lemma trim_x_unique v k : 1 <= k <= 8 -> 0 <= v < 2 ^ (8 * k) -> (k = 1 \/ 2 ^ (8 * (k - 1)) <= v) -> trim_x 7 v = k.
Proof.
  intros Hk Hv Hlow.
  assert (Hle : trim_x 7 v <= k) by (apply trim_x_le; lia).
  pose proof (trim_x_range 7 v) as Hr.
  destruct Hlow as [->|Hlow]; [lia|].
  destruct (Z_lt_le_dec (trim_x 7 v) k) as [Hlt|]; [|lia]. exfalso.
  assert (Hup : v < 2 ^ (8 * trim_x 7 v)).
  { apply trim_x_upper. change (8 * (Z.of_nat 7 + 1)) with 64. split; [lia|].
    eapply Z.lt_le_trans; [apply Hv|]. apply pow2_mono. lia. }
  assert (2 ^ (8 * trim_x 7 v) <= 2 ^ (8 * (k - 1))) by (apply pow2_mono; lia). lia.
Qed.

Lemma prefix_is_single_be_size n : (n < 2 ^ 63)%N -> single_be_size (Z.of_N n) = Z.of_N (CountDefs.prefix n).
Proof.
  intros Hn. unfold single_be_size, CountDefs.prefix. rewrite len_trimmed. rewrite N2Z.inj_add. f_equal.
  unfold trimmed_len.
  repeat match goal with |- context [(?a <? ?b)%N] => destruct (N.ltb_spec a b) end;
    (apply trim_x_unique; [lia | lia | first [left; reflexivity | right; lia]]).
Qed.

Lemma sum_map (l : list N) : Z.of_N (CountDefs.sum l) = sumZ (map Z.of_N l).
Proof. induction l as [|x l IH]; cbn [CountDefs.sum fold_right map sumZ]; [reflexivity|]. fold (CountDefs.sum l). lia. Qed.

Lemma len_map_N (l : list N) (m : list Z) : map Z.of_N l = m -> Z.of_N (CountDefs.len l) = StreamDefs.len m.
Proof. intros <-. unfold CountDefs.len, StreamDefs.len. rewrite map_length. lia. Qed.

Section WithAddr.
  Variable addr_norm : Z -> list byte -> option (Z * list byte).

  (** estimateSize of PopData, field by field (popdata.cpp) *)
  Lemma popdata_esize p : esize (c_popdata addr_norm) p =
    4 + ((single_be_size (StreamDefs.len (pop_context p)) + 0 + sumZ (map (esize c_vbkblock) (pop_context p))) +
         ((single_be_size (StreamDefs.len (pop_vtbs p)) + 0 + sumZ (map (esize (c_vtb addr_norm)) (pop_vtbs p))) +
          (single_be_size (StreamDefs.len (pop_atvs p)) + 0 + sumZ (map (esize (c_atv addr_norm)) (pop_atvs p))))).
  Proof. destruct p. reflexivity. Qed.

  (** the composition: abstract sizes sv/st/sa = the estimateSize of the elements  ==>  CountDefs.estimate = esize PopData *)
  Theorem counting_estimate_is_popdata_esize p sv st sa :
    map Z.of_N sv = map (esize c_vbkblock) (pop_context p) ->
    map Z.of_N st = map (esize (c_vtb addr_norm)) (pop_vtbs p) ->
    map Z.of_N sa = map (esize (c_atv addr_norm)) (pop_atvs p) ->
    (CountDefs.len sv < 2 ^ 63)%N -> (CountDefs.len st < 2 ^ 63)%N -> (CountDefs.len sa < 2 ^ 63)%N ->
    Z.of_N (CountDefs.estimate sv st sa) = esize (c_popdata addr_norm) p.
  Proof.
    intros Ev Et Ea Lv Lt La. rewrite popdata_esize. unfold CountDefs.estimate.
    rewrite !N2Z.inj_add, !sum_map, Ev, Et, Ea.
    rewrite <- !prefix_is_single_be_size by assumption.
    rewrite (len_map_N _ _ Ev), (len_map_N _ _ Et), (len_map_N _ _ Ea).
    assert (Hl : forall (A : Type) (f : A -> Z) (l : list A), StreamDefs.len (map f l) = StreamDefs.len l)
      by (intros; unfold StreamDefs.len; rewrite map_length; reflexivity).
    rewrite !Hl. change (Z.of_N 4) with 4. lia.
  Qed.

  (** with C12's [popsize c = est_kept r] and [codec_ok] of PopData: the running figure = bytes written *)
  Corollary counting_figure_is_encoded_size (Hn : addr_norm_sound addr_norm) p c r :
    agrees c r -> wfd (c_popdata addr_norm) p = true -> StreamDefs.fits (c_popdata addr_norm) p = true ->
    map Z.of_N (k_vbk r) = map (esize c_vbkblock) (pop_context p) ->
    map Z.of_N (k_vtb r) = map (esize (c_vtb addr_norm)) (pop_vtbs p) ->
    map Z.of_N (k_atv r) = map (esize (c_atv addr_norm)) (pop_atvs p) ->
    (CountDefs.len (k_vbk r) < 2 ^ 63)%N -> (CountDefs.len (k_vtb r) < 2 ^ 63)%N -> (CountDefs.len (k_atv r) < 2 ^ 63)%N ->
    Z.of_N (popsize c) = StreamDefs.len (enc (c_popdata addr_norm) p).
  Proof.
    intros Ha Hw Hf Ev Et Ea Lv Lt La. rewrite (popsize_estimate c r Ha). unfold est_kept.
    rewrite (counting_estimate_is_popdata_esize p _ _ _ Ev Et Ea Lv Lt La).
    apply (ok_size _ (c_popdata_ok addr_norm Hn)); assumption.
  Qed.
End WithAddr.
