(** Serde layer: exported statements for endorsements and stored block indices. *)
From Coq Require Import ZArith List Bool Lia.
From VB Require Import Gen.Consts Serde.StreamDefs Serde.CodecSpec Serde.StreamProofs
  Serde.EntityDefs Serde.EntityProofs Serde.FitsProofs Serde.StoredDefs Serde.StoredProofs.
Local Open Scope Z_scope.

Lemma vbk_endorsement_full : c11_full c_vbk_endorsement.
Proof. apply c11_full_of; [apply c_endorsement_ok|intros; apply endorsement_fits]. Qed.
Lemma alt_endorsement_full : c11_full c_alt_endorsement.
Proof. apply c11_full_of; [apply c_endorsement_ok|intros; apply endorsement_fits]. Qed.

Lemma stored_index_fits {H A} (hc : codec H) (ac : codec A) :
  (forall h, fits hc h = true) -> (forall a, fits ac a = true) -> forall x, fits (c_stored_index hc ac) x = true.
Proof.
  intros Hh Ha [h [hd [s a]]]. cbn [c_stored_index c_pair fits fst snd c_be tt_true]. rewrite Hh, Ha. reflexivity.
Qed.

Lemma stored_btc_full : c11_full c_stored_btc.
Proof.
  apply c11_full_of; [apply c_stored_btc_ok|]. intros x _.
  apply stored_index_fits; [intros []; reflexivity|apply stored_btc_addon_fits].
Qed.
Lemma stored_vbk_full : c11_full c_stored_vbk.
Proof.
  apply c11_full_of; [apply c_stored_vbk_ok|]. intros x _.
  apply stored_index_fits; [intros []; reflexivity|apply stored_vbk_addon_fits].
Qed.
Lemma stored_alt_full : c11_full c_stored_alt.
Proof.
  apply c11_full_of; [apply c_stored_alt_ok|]. intros x _.
  apply stored_index_fits; [intros []; reflexivity|apply stored_alt_addon_fits].
Qed.

Lemma vbk_endorsement_c06 : c06_ok c_vbk_endorsement. Proof. apply c_endorsement_ok. Qed.
Lemma alt_endorsement_c06 : c06_ok c_alt_endorsement. Proof. apply c_endorsement_ok. Qed.
Lemma stored_btc_c06 : c06_ok c_stored_btc. Proof. apply c_stored_btc_ok. Qed.
Lemma stored_vbk_c06 : c06_ok c_stored_vbk. Proof. apply c_stored_vbk_ok. Qed.
Lemma stored_alt_c06 : c06_ok c_stored_alt. Proof. apply c_stored_alt_ok. Qed.
