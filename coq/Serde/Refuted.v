(** Serde layer: two boundary statements of C11 that are FALSE for the code as
    it is (witnesses replayed on the implementation by ./check C11):
    (a) a PublicationData whose every field is within its declared limit has a
        canonical encoding longer than MAX_PUBLICATIONDATA_SIZE, so the VbkTx
        that carries it encodes but its own encoding does not decode;
    (b) a decodable nested buffer that uses a shorter non-canonical form (here:
        MerklePath index 0 written as the empty single-BE value) re-encodes
        canonically into MORE bytes, so at the limit of the enclosing length
        prefix the re-encoding no longer decodes. Stated on lengths. *)
From Coq Require Import ZArith List Bool Lia.
From Coq Require Import Strings.Byte.
From VB Require Import Gen.Consts Serde.StreamDefs Serde.CodecSpec Serde.StreamLemmas Serde.StreamProofs Serde.EntityDefs.
Import ListNotations.
Local Open Scope Z_scope.

Definition zeros (n : Z) : list byte := repeat x00 (Z.to_nat n).

(** every field at its declared maximum, 8-byte identifier *)
Definition pub_max : PublicationData :=
  mkPublicationData (2 ^ 62) (zeros MAX_HEADER_SIZE_PUBLICATION_DATA)
                    (zeros MAX_CONTEXT_SIZE_PUBLICATION_DATA) (zeros MAX_PAYOUT_INFO_SIZE).

Definition c_pub_in_vbktx : codec PublicationData :=
  c_nested (c_var_len 0 MAX_PUBLICATIONDATA_SIZE) var_len_size c_pubdata.

Lemma pubdata_max_size_refuted :
  wfd c_pubdata pub_max = true /\ fits c_pubdata pub_max = true /\
  len (enc c_pubdata pub_max) = MAX_PUBLICATIONDATA_SIZE + 6 /\
  fits c_pub_in_vbktx pub_max = false /\
  dec c_pub_in_vbktx (enc c_pub_in_vbktx pub_max) = Invalid.
Proof. vm_compute. repeat split; reflexivity. Qed.

(** (b) the two raw MerklePath encodings of (index 0, no layers): the accepted short form and the canonical one *)
Definition mp0 : MerklePath := mkMerklePath 0 [].
Definition mp0_short_raw : list byte :=
  [x00] ++ write_single_fixed_be I32 0 ++ write_single_fixed_be I32 4 ++ write_be 4 SHA256_HASH_SIZE.

Lemma noncanonical_shorter_refuted :
  dec c_merklepath_raw mp0_short_raw = Value mp0 [] /\
  dec c_merklepath_raw (enc c_merklepath_raw mp0) = Value mp0 [] /\
  len (enc c_merklepath_raw mp0) = len mp0_short_raw + 4.
Proof. vm_compute. repeat split; reflexivity. Qed.

(** hence: a buffer of exactly [limit] bytes that contains the short form decodes, while the canonical
    re-encoding of the decoded value has [limit + 4] bytes and is rejected by the range check of the prefix *)
Lemma limit_plus_4_rejected limit : 0 <= limit -> limit + 4 < 2 ^ 31 ->
  forall payload, len payload = limit + 4 -> dec (c_var_len 0 limit) (enc (c_var_len 0 limit) payload) = Invalid.
Proof.
  intros H0 H1 payload Hl. cbn [c_var_len enc dec]. unfold write_var_len, read_var_len.
  assert (Hc : read_single_be I32 (write_single_be (len payload) ++ payload) = Value (len payload) payload).
  { apply Serde.StreamProofs.read_single_be32_count. lia. }
  rewrite Hc. cbn [bind]. unfold check_range, u64. rewrite Z.mod_small by lia.
  destruct (Z.leb_spec (len payload) limit); [lia|]. rewrite andb_false_r. reflexivity.
Qed.
