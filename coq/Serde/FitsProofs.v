(** Serde layer: for which entities [fits] (canonical sizes of nested buffers
    within the limit of their length prefix) is already implied by [wfd]. *)
From Coq Require Import ZArith List Bool Lia.
From VB Require Import Gen.Consts Serde.StreamDefs Serde.CodecSpec Serde.StreamLemmas Serde.StreamProofs
  Serde.EntityDefs Serde.EntityProofs.
Import ListNotations.
Local Open Scope Z_scope.

(** codecs whose well-formed values all have the same estimated (= encoded) size *)
Definition const_size {A} (c : codec A) (k : Z) : Prop := forall x, wfd c x = true -> esize c x = k.

Lemma const_size_pair {A B} (ca : codec A) (cb : codec B) k1 k2 :
  const_size ca k1 -> const_size cb k2 -> const_size (c_pair ca cb) (k1 + k2).
Proof.
  intros H1 H2 [a b] Hw. cbn [c_pair wfd esize fst snd] in *. apply andb_true_iff in Hw. destruct Hw as [Ha Hb].
  rewrite (H1 _ Ha), (H2 _ Hb). reflexivity.
Qed.
Lemma const_size_iso {A B} (f : B -> A) (g : A -> B) (c : codec A) k : const_size c k -> const_size (c_iso f g c) k.
Proof. intros H b Hw. cbn [c_iso wfd esize] in *. apply H. assumption. Qed.
Lemma const_size_le t : const_size (c_le t) (ibytes t).
Proof. intros x _. reflexivity. Qed.
Lemma const_size_be t n : const_size (c_be t n) n.
Proof. intros x _. reflexivity. Qed.
Lemma const_size_bytes n : const_size (c_bytes n) n.
Proof. intros x Hw. cbn [c_bytes wfd esize] in *. apply Z.eqb_eq in Hw. assumption. Qed.
Lemma const_size_rev_bytes n : const_size (c_rev_bytes n) n.
Proof. apply const_size_iso. apply const_size_bytes. Qed.

Lemma nested_sbl_fits {A} (c : codec A) n : 0 <= n <= 255 -> codec_ok c -> const_size c n ->
  (forall x, fits c x = true) -> forall x, wfd (c_nested (c_sbl n n) sbl_size c) x = true ->
  fits (c_nested (c_sbl n n) sbl_size c) x = true.
Proof.
  intros Hn Hc Hk Hf x Hw. cbn [c_nested wfd fits] in *. rewrite Hf. cbn [andb].
  pose proof (ok_size _ Hc x Hw (Hf x)) as Hs. rewrite (Hk x Hw) in Hs.
  cbn [c_sbl wfd]. rewrite <- Hs. rewrite !andb_true_iff. repeat split; apply Z.leb_le; lia.
Qed.

Lemma btcblock_raw_size : const_size c_btcblock_raw BTC_HEADER_SIZE.
Proof.
  change BTC_HEADER_SIZE with (ibytes I32 + (SHA256_HASH_SIZE + (SHA256_HASH_SIZE + (ibytes U32 + (ibytes U32 + ibytes U32))))).
  unfold c_btcblock_raw. apply const_size_iso.
  repeat apply const_size_pair; try apply const_size_le; apply const_size_rev_bytes.
Qed.

Lemma btcblock_fits x : wfd c_btcblock x = true -> fits c_btcblock x = true.
Proof.
  apply nested_sbl_fits; [vm_compute; intuition discriminate|apply c_btcblock_raw_ok|apply btcblock_raw_size|].
  intros []. reflexivity.
Qed.

Lemma vbkblock_raw_size : const_size c_vbkblock_raw VBK_HEADER_SIZE_PROGPOW.
Proof.
  change VBK_HEADER_SIZE_PROGPOW with (4 + (2 + (VBK_PREVIOUS_BLOCK_HASH_SIZE + (VBK_PREVIOUS_KEYSTONE_HASH_SIZE +
    (VBK_PREVIOUS_KEYSTONE_HASH_SIZE + (VBK_MERKLE_ROOT_HASH_SIZE + (4 + (4 + 5)))))))).
  unfold c_vbkblock_raw. apply const_size_iso.
  repeat apply const_size_pair; try apply const_size_be; apply const_size_bytes.
Qed.

Lemma vbkblock_fits x : wfd c_vbkblock x = true -> fits c_vbkblock x = true.
Proof.
  apply nested_sbl_fits; [vm_compute; intuition discriminate|apply c_vbkblock_raw_ok|apply vbkblock_raw_size|].
  intros []. reflexivity.
Qed.

(** the unconditional form of C11 for codecs whose [fits] follows from [wfd] *)
Definition c11_full {A} (c : codec A) : Prop :=
  (forall x r, wfd c x = true -> dec c (enc c x ++ r) = Value x r) /\
  (forall bs x r r', dec c bs = Value x r -> dec c (enc c x ++ r') = Value x r') /\
  (forall x, wfd c x = true -> esize c x = len (enc c x)).

Lemma c11_full_of {A} (c : codec A) : codec_ok c -> (forall x, wfd c x = true -> fits c x = true) -> c11_full c.
Proof.
  intros Hc Hf. repeat split.
  - intros x r Hw. apply (ok_rt _ Hc); auto.
  - intros bs x r r' Hd. pose proof (ok_wf _ Hc _ _ _ Hd) as Hw. apply (ok_rt _ Hc); auto.
  - intros x Hw. apply (ok_size _ Hc); auto.
Qed.

Lemma btcblock_full : c11_full c_btcblock.
Proof. apply c11_full_of; [apply c_btcblock_ok|apply btcblock_fits]. Qed.
Lemma vbkblock_full : c11_full c_vbkblock.
Proof. apply c11_full_of; [apply c_vbkblock_ok|apply vbkblock_fits]. Qed.
Lemma coin_full : c11_full c_coin.
Proof. apply c11_full_of; [apply c_coin_ok|reflexivity]. Qed.
Lemma btctx_full : c11_full c_btctx.
Proof. apply c11_full_of; [apply c_btctx_ok|reflexivity]. Qed.
Lemma pubdata_full : c11_full c_pubdata.
Proof. apply c11_full_of; [apply c_pubdata_ok|intros [] _; reflexivity]. Qed.

Lemma forallb_tt {A} (l : list A) : forallb (fun _ => true) l = true.
Proof. induction l; [reflexivity|assumption]. Qed.

Lemma vbkmerklepath_full : c11_full c_vbkmerklepath.
Proof.
  apply c11_full_of; [apply c_vbkmerklepath_ok|]. intros [t i s l] _.
  cbn [c_vbkmerklepath c_iso c_pair c_counted fits fst snd vmp_tree_index vmp_index vmp_subject vmp_layers
       c_single_fixed_be c_sbl tt_true andb]. apply forallb_tt.
Qed.

Lemma altblock_full : c11_full c_altblock.
Proof. apply c11_full_of; [apply c_altblock_ok|intros [] _; reflexivity]. Qed.
Lemma keystones_full : c11_full c_keystones.
Proof. apply c11_full_of; [apply c_keystones_ok|intros [] _; reflexivity]. Qed.
Lemma ctxinfo_full : c11_full c_ctxinfo.
Proof. apply c11_full_of; [apply c_ctxinfo_ok|intros [? []] _; reflexivity]. Qed.
Lemma authctx_full : c11_full c_authctx.
Proof. apply c11_full_of; [apply c_authctx_ok|intros [[? []] ?] _; reflexivity]. Qed.
Lemma altblock_c06 : c06_ok c_altblock. Proof. apply c_altblock_ok. Qed.
Lemma keystones_c06 : c06_ok c_keystones. Proof. apply c_keystones_ok. Qed.
Lemma ctxinfo_c06 : c06_ok c_ctxinfo. Proof. apply c_ctxinfo_ok. Qed.
Lemma authctx_c06 : c06_ok c_authctx. Proof. apply c_authctx_ok. Qed.

Section WithAddr.
  Variable addr_norm : Z -> list byte -> option (Z * list byte).
  Hypothesis Hnorm : addr_norm_sound addr_norm.
  Lemma address_full : c11_full (c_address addr_norm).
  Proof. apply c11_full_of; [apply c_address_ok; exact Hnorm|intros [] _; reflexivity]. Qed.
  Lemma output_full : c11_full (c_output addr_norm).
  Proof. apply c11_full_of; [apply c_output_ok; exact Hnorm|intros [[] ?] _; reflexivity]. Qed.
End WithAddr.
