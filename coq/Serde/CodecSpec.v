(** Serde layer: the statements proved about every codec (no proofs here). *)
From Coq Require Import ZArith List Bool.
From VB Require Import Serde.StreamDefs.
Import ListNotations.
Local Open Scope Z_scope.

(** outcome of a reader started on [bs] is memory-safe: it is a value whose
    rest is a suffix of [bs] (consumed <= available, cursor never moves back
    or past the end) or [Invalid]; never [Oob], never [BadAlloc] *)
Definition safe {A} (bs : list byte) (r : res A) : Prop :=
  match r with
  | Value _ rest => exists pre, bs = pre ++ rest
  | Invalid => True
  | Oob => False
  | BadAlloc => False
  end.

(** decode (encode x ++ rest) = x, rest   — for every well-formed x, any continuation *)
Definition rt_ok {A} (c : codec A) : Prop :=
  forall x r, wfd c x = true -> fits c x = true -> dec c (enc c x ++ r) = Value x r.
(** whatever decodes is well-formed *)
Definition wf_ok {A} (c : codec A) : Prop :=
  forall bs x r, dec c bs = Value x r -> wfd c x = true.
(** estimateSize = number of bytes written *)
Definition size_ok {A} (c : codec A) : Prop :=
  forall x, wfd c x = true -> fits c x = true -> esize c x = len (enc c x).
(** total and memory-safe on EVERY byte string *)
Definition safe_ok {A} (c : codec A) : Prop :=
  forall bs, safe bs (dec c bs).

Record codec_ok {A} (c : codec A) : Prop := mkOk {
  ok_rt : rt_ok c;
  ok_wf : wf_ok c;
  ok_size : size_ok c;
  ok_safe : safe_ok c;
}.

(** re-encode stability (NOT byte equality: the decoders accept non-canonical
    encodings — non-minimal or empty integer encodings, trailing bytes inside
    nested buffers): decoding the canonical re-encoding of a decoded value
    gives the same value *)
Definition stable {A} (c : codec A) : Prop :=
  forall bs x r r', dec c bs = Value x r -> fits c x = true -> dec c (enc c x ++ r') = Value x r'.

(** what property C11 claims of one codec *)
Definition c11_ok {A} (c : codec A) : Prop := rt_ok c /\ wf_ok c /\ size_ok c /\ stable c.
(** what property C06 claims of one decoder *)
Definition c06_ok {A} (c : codec A) : Prop := safe_ok c.
