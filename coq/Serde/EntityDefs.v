(** Serde layer, part 2: the pop entities of src/pop/entities/*.cpp as codecs
    (toVbkEncoding / toRaw, DeserializeFromVbkEncoding / DeserializeFromRaw,
    estimateSize), composed from the primitives of StreamDefs.v in the order
    the C++ reads/writes the fields. Executable; NO proofs in this file.

    Modelling notes
    * Address: the model value is (type byte, decoded base58/base59 bytes);
      the C++ keeps the text form. Validation and normalisation of the text
      (length, leading 'V', alphabet, multisig m/n rules, sha256 checksum, type
      derived from the text) is the external function [addr_norm], a Section
      variable here, the real function in the OCaml driver.
    * MerklePath::subject is not serialised (it is sha256d of the BTC tx and is
      supplied by the caller when decoding): not part of the model value.
    * memoised hashes (hash_) are not part of the value. *)
From Coq Require Import ZArith List Bool.
From Coq Require Import Strings.Byte.
From VB Require Import Gen.Consts Serde.StreamDefs.
Import ListNotations.
Local Open Scope Z_scope.

Record Address := mkAddress { addr_type : Z; addr_bytes : list byte }.
Record Output := mkOutput { out_addr : Address; out_coin : Z }.
Record BtcBlock := mkBtcBlock {
  bb_version : Z; bb_prev : list byte; bb_merkle : list byte; bb_time : Z; bb_bits : Z; bb_nonce : Z }.
Record VbkBlock := mkVbkBlock {
  vb_height : Z; vb_version : Z; vb_prev : list byte; vb_ks1 : list byte; vb_ks2 : list byte;
  vb_merkle : list byte; vb_time : Z; vb_difficulty : Z; vb_nonce : Z }.
Record MerklePath := mkMerklePath { mp_index : Z; mp_layers : list (list byte) }.
Record VbkMerklePath := mkVbkMerklePath {
  vmp_tree_index : Z; vmp_index : Z; vmp_subject : list byte; vmp_layers : list (list byte) }.
Record PublicationData := mkPublicationData {
  pd_identifier : Z; pd_header : list byte; pd_context : list byte; pd_payout : list byte }.
Record VbkTx := mkVbkTx {
  tx_net : nbp; tx_src : Address; tx_amount : Z; tx_outputs : list Output; tx_sig_index : Z;
  tx_pub : PublicationData; tx_signature : list byte; tx_pubkey : list byte }.
Record VbkPopTx := mkVbkPopTx {
  ptx_net : nbp; ptx_addr : Address; ptx_published : VbkBlock; ptx_btctx : list byte;
  ptx_merkle : MerklePath; ptx_bop : BtcBlock; ptx_context : list BtcBlock;
  ptx_signature : list byte; ptx_pubkey : list byte }.
Record ATV := mkATV { atv_version : Z; atv_tx : VbkTx; atv_merkle : VbkMerklePath; atv_block : VbkBlock }.
Record VTB := mkVTB { vtb_version : Z; vtb_tx : VbkPopTx; vtb_merkle : VbkMerklePath; vtb_block : VbkBlock }.
Record PopData := mkPopData { pop_version : Z; pop_context : list VbkBlock; pop_vtbs : list VTB; pop_atvs : list ATV }.

Record AltBlock := mkAltBlock { ab_hash : list byte; ab_prev : list byte; ab_height : Z; ab_time : Z }.
Record KeystoneContainer := mkKeystoneContainer { kc_first : list byte; kc_second : list byte }.
Record ContextInfoContainer := mkContextInfoContainer { ci_height : Z; ci_keystones : KeystoneContainer }.
Record AuthenticatedContextInfoContainer := mkAuthCtx { ac_ctx : ContextInfoContainer; ac_state_root : list byte }.

(** uint256 etc. written reversed: stream.write(x.reverse()) / x = slice.reverse() *)
Definition c_rev_bytes (n : Z) : codec (list byte) := c_iso (@rev byte) (@rev byte) (c_bytes n).

(** readSingleBEValue<int32_t> + checkRange(count, mn, mx), written with
    writeSingleFixedBEValue<int32_t> (MerklePath / VbkMerklePath layer counts) *)
Definition c_count_fixed32 (mn mx : Z) : codec Z :=
  c_refine (c_single_fixed_be I32) (fun n => check_range n mn mx).

Definition to_unit {A} (_ : A) : unit := tt.

Fixpoint bytes_eqb (a b : list byte) : bool :=
  match a, b with
  | [], [] => true
  | x :: a', y :: b' => Byte.eqb x y && bytes_eqb a' b'
  | _, _ => false
  end.

(** what the theorems assume about the external address normalisation: it yields a type byte, at most
    VBK_ADDRESS_SIZE bytes, and is idempotent (a normalised address is its own normal form) *)
Definition addr_norm_sound (addr_norm : Z -> list byte -> option (Z * list byte)) : Prop :=
  forall ty b t' b', addr_norm ty b = Some (t', b') ->
    0 <= t' < 256 /\ len b' <= VBK_ADDRESS_SIZE /\ addr_norm t' b' = Some (t', b').

(** altblock.cpp: toRaw = toVbkEncoding *)
Definition c_altblock : codec AltBlock :=
  c_iso (fun b => (ab_hash b, (ab_prev b, (ab_height b, ab_time b))))
        (fun '(h, (p, (ht, t))) => mkAltBlock h p ht t)
    (c_pair (c_sbl ALT_HASH_SIZE ALT_HASH_SIZE) (c_pair (c_sbl 0 ALT_HASH_SIZE) (c_pair (c_be I32 4) (c_be U32 4)))).

(** keystone_container.cpp *)
Definition c_keystones : codec KeystoneContainer :=
  c_iso (fun k => (kc_first k, kc_second k)) (fun p => mkKeystoneContainer (fst p) (snd p))
    (c_pair (c_sbl MIN_ALT_HASH_SIZE MAX_ALT_HASH_SIZE) (c_sbl MIN_ALT_HASH_SIZE MAX_ALT_HASH_SIZE)).

(** context_info_container.cpp *)
Definition c_ctxinfo : codec ContextInfoContainer :=
  c_iso (fun c => (ci_height c, ci_keystones c)) (fun p => mkContextInfoContainer (fst p) (snd p))
    (c_pair (c_be I32 4) c_keystones).
Definition c_authctx : codec AuthenticatedContextInfoContainer :=
  c_iso (fun c => (ac_ctx c, ac_state_root c)) (fun p => mkAuthCtx (fst p) (snd p))
    (c_pair c_ctxinfo (c_bytes SHA256_HASH_SIZE)).

Section Entities.
  (** [addr_norm ty bytes]: the address the C++ ends up with when the wire says (ty, bytes):
      text := EncodeBase58|59(bytes) by ty; Address::fromString(text) — which derives the type from the TEXT
      (multisig iff the last character is '0', whatever the wire type byte said) — and then
      (type, DecodeBase58|59(text) by that type); [None] = rejected. External (sha256, base58/59): a Section
      variable; the premise the theorems need about it is [addr_norm_sound] below. *)
  Variable addr_norm : Z -> list byte -> option (Z * list byte).

  (** address.cpp: Address::toVbkEncoding / DeserializeFromVbkEncoding(Address) *)
  Definition c_address : codec Address :=
    mkCodec (fun a => write_be 1 (addr_type a) ++ write_sbl (addr_bytes a))
            (fun bs => bind (read_be U8 1 bs) (fun ty r =>
                       bind (read_sbl 0 VBK_ADDRESS_SIZE r) (fun b r' =>
                       match addr_norm ty b with
                       | Some (t', b') => Value (mkAddress t' b') r'
                       | None => Invalid
                       end)))
            (fun a => match addr_norm (addr_type a) (addr_bytes a) with
                      | Some (t', b') => (t' =? addr_type a) && bytes_eqb b' (addr_bytes a)
                      | None => false
                      end)
            tt_true
            (fun a => 1 + sbl_size (len (addr_bytes a))).

  (** coin.cpp *)
  Definition c_coin : codec Z := c_single_be64.

  (** output.cpp *)
  Definition c_output : codec Output :=
    c_iso (fun o => (out_addr o, out_coin o)) (fun p => mkOutput (fst p) (snd p)) (c_pair c_address c_coin).

  (** btctx.cpp *)
  Definition c_btctx : codec (list byte) := c_var_len 0 BTC_TX_MAX_RAW_SIZE.

  (** btcblock.cpp: toRaw / DeserializeFromRaw (80 bytes, little endian, hashes reversed) *)
  Definition c_btcblock_raw : codec BtcBlock :=
    c_iso (fun b => (bb_version b, (bb_prev b, (bb_merkle b, (bb_time b, (bb_bits b, bb_nonce b))))))
          (fun '(v, (p, (m, (t, (b, n))))) => mkBtcBlock v p m t b n)
      (c_pair (c_le I32) (c_pair (c_rev_bytes SHA256_HASH_SIZE) (c_pair (c_rev_bytes SHA256_HASH_SIZE)
      (c_pair (c_le U32) (c_pair (c_le U32) (c_le U32)))))).
  (** toVbkEncoding: writeSingleByteLenValue(raw) / readSingleByteLenValue(80, 80) + DeserializeFromRaw *)
  Definition c_btcblock : codec BtcBlock :=
    c_nested (c_sbl BTC_HEADER_SIZE BTC_HEADER_SIZE) sbl_size c_btcblock_raw.

  (** vbkblock.cpp: toRaw / DeserializeFromRaw (65 bytes, big endian, trimmed hashes, 5-byte nonce) *)
  Definition c_vbkblock_raw : codec VbkBlock :=
    c_iso (fun b => (vb_height b, (vb_version b, (vb_prev b, (vb_ks1 b, (vb_ks2 b, (vb_merkle b,
                    (vb_time b, (vb_difficulty b, vb_nonce b)))))))))
          (fun '(h, (v, (p, (k1, (k2, (m, (t, (d, n)))))))) => mkVbkBlock h v p k1 k2 m t d n)
      (c_pair (c_be I32 4) (c_pair (c_be I16 2) (c_pair (c_bytes VBK_PREVIOUS_BLOCK_HASH_SIZE)
      (c_pair (c_bytes VBK_PREVIOUS_KEYSTONE_HASH_SIZE) (c_pair (c_bytes VBK_PREVIOUS_KEYSTONE_HASH_SIZE)
      (c_pair (c_bytes VBK_MERKLE_ROOT_HASH_SIZE) (c_pair (c_be U32 4) (c_pair (c_be I32 4) (c_be U64 5))))))))).
  Definition c_vbkblock : codec VbkBlock :=
    c_nested (c_sbl VBK_HEADER_SIZE_PROGPOW VBK_HEADER_SIZE_PROGPOW) sbl_size c_vbkblock_raw.

  (** merkle_path.cpp: index, numLayers (0..MAX_LAYER_COUNT_MERKLE), size-of-size == 4,
      size == 32, reserve(numLayers), layers *)
  Definition c_merkle_mid : codec unit :=
    c_iso (fun _ : unit => (4, SHA256_HASH_SIZE)) to_unit
      (c_pair (c_refine (c_single_fixed_be I32) (fun s => s =? 4))
              (c_refine (c_be I32 4) (fun s => s =? SHA256_HASH_SIZE))).
  Definition c_merklepath_raw : codec MerklePath :=
    c_iso (fun m => (mp_index m, mp_layers m)) (fun p => mkMerklePath (fst p) (snd p))
      (c_pair (c_single_fixed_be I32)
              (c_counted (c_count_fixed32 0 MAX_LAYER_COUNT_MERKLE) c_merkle_mid
                         (c_sbl SHA256_HASH_SIZE SHA256_HASH_SIZE))).
  Definition c_merklepath : codec MerklePath :=
    c_nested (c_var_len 0 MAX_POPDATA_SIZE) var_len_size c_merklepath_raw.

  (** vbk_merkle_path.cpp *)
  Definition c_vbkmerklepath : codec VbkMerklePath :=
    c_iso (fun m => (vmp_tree_index m, (vmp_index m, (vmp_subject m, vmp_layers m))))
          (fun '(t, (i, (s, l))) => mkVbkMerklePath t i s l)
      (c_pair (c_single_fixed_be I32) (c_pair (c_single_fixed_be I32)
      (c_pair (c_sbl SHA256_HASH_SIZE SHA256_HASH_SIZE)
              (c_counted (c_count_fixed32 0 MAX_LAYER_COUNT_MERKLE) c_empty
                         (c_sbl SHA256_HASH_SIZE SHA256_HASH_SIZE))))).

  (** publication_data.cpp *)
  Definition c_pubdata : codec PublicationData :=
    c_iso (fun p => (pd_identifier p, (pd_header p, (pd_context p, pd_payout p))))
          (fun '(i, (h, (c, p))) => mkPublicationData i h c p)
      (c_pair c_single_be64 (c_pair (c_var_len 0 MAX_HEADER_SIZE_PUBLICATION_DATA)
      (c_pair (c_var_len 0 MAX_CONTEXT_SIZE_PUBLICATION_DATA) (c_var_len 0 MAX_PAYOUT_INFO_SIZE)))).

  (** vbktx.cpp: toRaw / DeserializeFromRaw *)
  Definition c_vbktx_raw : codec (nbp * (Address * (Z * (list Output * (Z * PublicationData))))) :=
    c_pair (c_network_byte TX_TYPE_VBK_TX) (c_pair c_address (c_pair c_coin
    (c_pair (c_counted (c_be U8 1) c_empty c_output)
    (c_pair c_single_be64 (c_nested (c_var_len 0 MAX_PUBLICATIONDATA_SIZE) var_len_size c_pubdata))))).
  (** toVbkEncoding: var-len raw tx, signature, public key *)
  Definition c_vbktx : codec VbkTx :=
    c_iso (fun t => ((tx_net t, (tx_src t, (tx_amount t, (tx_outputs t, (tx_sig_index t, tx_pub t))))),
                     (tx_signature t, tx_pubkey t)))
          (fun '((n, (s, (a, (o, (i, p))))), (sg, pk)) => mkVbkTx n s a o i p sg pk)
      (c_pair (c_nested (c_var_len 0 MAX_POPDATA_SIZE) var_len_size c_vbktx_raw)
              (c_pair (c_sbl 0 MAX_SIGNATURE_SIZE) (c_sbl 0 MAX_PUBLIC_KEY_SIZE))).

  (** vbkpoptx.cpp *)
  Definition c_vbkpoptx_raw :
    codec (nbp * (Address * (VbkBlock * (list byte * (MerklePath * (BtcBlock * list BtcBlock)))))) :=
    c_pair (c_network_byte TX_TYPE_VBK_POP_TX) (c_pair c_address (c_pair c_vbkblock (c_pair c_btctx
    (c_pair c_merklepath (c_pair c_btcblock
            (c_counted (c_count 0 MAX_BTC_BLOCKS_IN_VBKPOPTX) c_empty c_btcblock)))))).
  Definition c_vbkpoptx : codec VbkPopTx :=
    c_iso (fun t => ((ptx_net t, (ptx_addr t, (ptx_published t, (ptx_btctx t, (ptx_merkle t,
                      (ptx_bop t, ptx_context t)))))), (ptx_signature t, ptx_pubkey t)))
          (fun '((n, (a, (p, (b, (m, (bop, ctx)))))), (sg, pk)) => mkVbkPopTx n a p b m bop ctx sg pk)
      (c_pair (c_nested (c_var_len 0 MAX_POPDATA_SIZE) var_len_size c_vbkpoptx_raw)
              (c_pair (c_sbl 0 MAX_SIGNATURE_SIZE) (c_sbl 0 MAX_PUBLIC_KEY_SIZE))).

  (** version == 1 *)
  Definition c_version1 : codec Z := c_refine (c_be U32 4) (fun v => v =? 1).

  (** atv.cpp *)
  Definition c_atv : codec ATV :=
    c_iso (fun a => (atv_version a, (atv_tx a, (atv_merkle a, atv_block a))))
          (fun '(v, (t, (m, b))) => mkATV v t m b)
      (c_pair c_version1 (c_pair c_vbktx (c_pair c_vbkmerklepath c_vbkblock))).

  (** vtb.cpp *)
  Definition c_vtb : codec VTB :=
    c_iso (fun a => (vtb_version a, (vtb_tx a, (vtb_merkle a, vtb_block a))))
          (fun '(v, (t, (m, b))) => mkVTB v t m b)
      (c_pair c_version1 (c_pair c_vbkpoptx (c_pair c_vbkmerklepath c_vbkblock))).

  (** popdata.cpp *)
  Definition c_popdata : codec PopData :=
    c_iso (fun p => (pop_version p, (pop_context p, (pop_vtbs p, pop_atvs p))))
          (fun '(v, (c, (t, a))) => mkPopData v c t a)
      (c_pair c_version1
      (c_pair (c_counted (c_count 0 MAX_POPDATA_VBK) c_empty c_vbkblock)
      (c_pair (c_counted (c_count 0 MAX_POPDATA_VTB) c_empty c_vtb)
              (c_counted (c_count 0 MAX_POPDATA_ATV) c_empty c_atv)))).
End Entities.
