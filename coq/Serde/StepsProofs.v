(** Serde layer: the counted decoders of StepsDefs.v return the results of the decoders of
    StreamDefs.v / EntityDefs.v (refinement) and take a number of steps linear in the bytes consumed
    (on failure: available), with slope and constant computed from the shape of the decoder. *)
From Coq Require Import ZArith List Bool Lia.
From Coq Require Import Strings.Byte.
From VB Require Import Gen.Consts Serde.StreamDefs Serde.StreamLemmas Serde.EntityDefs Serde.StepsDefs.
Import ListNotations.
Local Open Scope Z_scope.
Ltac Zify.zify_post_hook ::= Z.div_mod_to_equations.

(** * generic *)
Lemma fst_sbind {A B} (x : sres A) (f : A -> list byte -> sres B) :
  fst (sbind x f) = bind (fst x) (fun a r => fst (f a r)).
Proof. unfold sbind, bind. destruct (fst x); reflexivity. Qed.

Lemma bind_ext {A B} (x : res A) (f g : A -> list byte -> res B) :
  (forall a r, f a r = g a r) -> bind x f = bind x g.
Proof. intros H. destruct x; cbn [bind]; [apply H | reflexivity | reflexivity | reflexivity]. Qed.

Lemma sbind_value {A B} (x : sres A) (f : A -> list byte -> sres B) a r :
  fst x = Value a r -> sbind x f = (fst (f a r), snd x + snd (f a r)).
Proof. unfold sbind. intros ->. reflexivity. Qed.

Lemma sbind_fail {A B} (x : sres A) (f : A -> list byte -> sres B) :
  (forall a r, fst x <> Value a r) ->
  snd (sbind x f) = snd x /\ (forall b r, fst (sbind x f) <> Value b r).
Proof.
  unfold sbind. intros H. destruct (fst x) as [a r| | |]; cbn [fst snd]; try (split; [reflexivity | discriminate]).
  exfalso. apply (H a r). reflexivity.
Qed.

Lemma lin_total {A} a b m (R : list byte -> sres A) : 0 <= a -> lin a b m R ->
  forall bs, 0 <= snd (R bs) <= a * len bs + b.
Proof.
  intros Ha H bs. specialize (H bs). destruct H as [H0 H]. pose proof (len_nonneg bs) as Hl.
  destruct (fst (R bs)) as [x r| | |]; try lia.
  destruct H as (H1 & H2 & H3). pose proof (len_nonneg r) as Hr.
  assert (a * (len bs - len r) <= a * len bs) by (apply Z.mul_le_mono_nonneg_l; lia). lia.
Qed.

Lemma lin_weaken {A} a b m a' b' m' (R : list byte -> sres A) :
  0 <= a <= a' -> b <= b' -> m' <= m -> lin a b m R -> lin a' b' m' R.
Proof.
  intros Ha Hb Hm H bs. specialize (H bs). destruct H as [H0 H]. split; [exact H0|].
  pose proof (len_nonneg bs) as Hl.
  destruct (fst (R bs)) as [x r| | |].
  - destruct H as (H1 & H2 & H3). split; [exact H1|]. split; [lia|].
    assert (a * (len bs - len r) <= a' * (len bs - len r)) by (apply Z.mul_le_mono_nonneg_r; lia). lia.
  - assert (a * len bs <= a' * len bs) by (apply Z.mul_le_mono_nonneg_r; lia). lia.
  - assert (a * len bs <= a' * len bs) by (apply Z.mul_le_mono_nonneg_r; lia). lia.
  - assert (a * len bs <= a' * len bs) by (apply Z.mul_le_mono_nonneg_r; lia). lia.
Qed.

Lemma lin_sbind {A B} a b1 b2 m1 m2 b m (R : list byte -> sres A) (F : A -> list byte -> sres B) :
  0 <= a -> 0 <= b2 -> lin a b1 m1 R -> (forall x, lin a b2 m2 (F x)) -> b1 + b2 <= b -> m <= m1 + m2 ->
  lin a b m (fun bs => sbind (R bs) F).
Proof.
  intros Ha Hb2 HR HF Hb Hm bs. specialize (HR bs). destruct HR as [H0 HR]. pose proof (len_nonneg bs) as Hl.
  destruct (fst (R bs)) as [x r| | |] eqn:E.
  - rewrite (sbind_value _ _ x r E). cbn [fst snd].
    specialize (HF x r). destruct HF as [G0 HF]. destruct HR as (H1 & H2 & H3).
    split; [lia|].
    destruct (fst (F x r)) as [y r'| | |].
    + destruct HF as (G1 & G2 & G3). split; [lia|]. split; [lia|].
      replace (a * (len bs - len r')) with (a * (len bs - len r) + a * (len r - len r')) by ring. lia.
    + replace (a * len bs) with (a * (len bs - len r) + a * len r) by ring. lia.
    + replace (a * len bs) with (a * (len bs - len r) + a * len r) by ring. lia.
    + replace (a * len bs) with (a * (len bs - len r) + a * len r) by ring. lia.
  - destruct (sbind_fail (R bs) F) as [S1 S2]; [rewrite E; discriminate|]. rewrite S1. split; [exact H0|].
    destruct (fst (sbind (R bs) F)) as [y r'| | |]; try lia. exfalso. apply (S2 y r'). reflexivity.
  - destruct (sbind_fail (R bs) F) as [S1 S2]; [rewrite E; discriminate|]. rewrite S1. split; [exact H0|].
    destruct (fst (sbind (R bs) F)) as [y r'| | |]; try lia. exfalso. apply (S2 y r'). reflexivity.
  - destruct (sbind_fail (R bs) F) as [S1 S2]; [rewrite E; discriminate|]. rewrite S1. split; [exact H0|].
    destruct (fst (sbind (R bs) F)) as [y r'| | |]; try lia. exfalso. apply (S2 y r'). reflexivity.
Qed.

Lemma lin_value {A} a (v : list byte -> A) : lin a 0 0 (fun r => sret (Value (v r) r)).
Proof. intros bs. cbn [sret fst snd]. split; [lia|]. split; [lia|]. split; [lia|]. replace (len bs - len bs) with 0 by lia. lia. Qed.

Lemma lin_fail {A} a (e : res A) : 0 <= a -> (forall x r, e <> Value x r) -> lin a 0 0 (fun _ => sret e).
Proof.
  intros Ha He bs. cbn [sret fst snd]. split; [lia|]. pose proof (len_nonneg bs).
  destruct e as [x r| | |]; try nia. exfalso. apply (He x r). reflexivity.
Qed.

(** * primitives *)
Lemma read_slice_s_fst n : refines (read_slice_s n) (read_slice n).
Proof. intros bs. unfold read_slice_s. destruct (read_slice n bs); reflexivity. Qed.

Lemma read_slice_s_lin n : lin 1 0 (Z.max 0 n) (read_slice_s n).
Proof.
  intros bs. unfold read_slice_s. destruct (read_slice n bs) as [a r| | |] eqn:E; cbn [fst snd];
    pose proof (len_nonneg bs); try lia.
  apply read_slice_inv in E. destruct E as [-> E]. rewrite len_app in *. pose proof (len_nonneg a). lia.
Qed.

Lemma read_slice_s_payload n : payload_le (read_slice_s n).
Proof.
  intros bs. unfold read_slice_s. destruct (read_slice n bs) as [a r| | |] eqn:E; cbn [fst]; try exact I.
  apply read_slice_inv in E. destruct E as [-> E]. rewrite len_app. lia.
Qed.

Lemma read_be_s_fst t n : refines (read_be_s t n) (read_be t n).
Proof. intros bs. unfold read_be_s, read_be. rewrite fst_sbind, read_slice_s_fst. reflexivity. Qed.

Lemma read_be_s_lin t n : lin 1 0 (Z.max 0 n) (read_be_s t n).
Proof.
  unfold read_be_s. eapply (lin_sbind 1 0 0 (Z.max 0 n) 0); try lia.
  - apply read_slice_s_lin.
  - intros d. apply (lin_value 1 (fun _ => wrap_t t (be_val d 0))).
Qed.

Lemma read_le_s_fst t : refines (read_le_s t) (read_le t).
Proof. intros bs. unfold read_le_s, read_le. rewrite fst_sbind, read_slice_s_fst. reflexivity. Qed.

Lemma read_le_s_lin t : lin 1 0 (Z.max 0 (ibytes t)) (read_le_s t).
Proof.
  unfold read_le_s. eapply (lin_sbind 1 0 0 (Z.max 0 (ibytes t)) 0); try lia.
  - apply read_slice_s_lin.
  - intros d. apply (lin_value 1 (fun _ => wrap_t t (be_val (rev d) 0))).
Qed.

Lemma read_sbl_s_fst mn mx : refines (read_sbl_s mn mx) (read_sbl mn mx).
Proof.
  intros bs. unfold read_sbl_s, read_sbl. rewrite fst_sbind, read_be_s_fst. apply bind_ext. intros n r.
  destruct (check_range n mn mx); [apply read_slice_s_fst | reflexivity].
Qed.

Lemma read_sbl_s_lin mn mx : lin 1 0 1 (read_sbl_s mn mx).
Proof.
  unfold read_sbl_s. eapply (lin_sbind 1 0 0 1 0); try lia.
  - apply (read_be_s_lin U8 1).
  - intros n. destruct (check_range n mn mx).
    + eapply lin_weaken; [| | |apply (read_slice_s_lin n)]; lia.
    + apply lin_fail; [lia | discriminate].
Qed.

(** consumed >= payload, through a bind whose first part only moves forward *)
Lemma payload_sbind {A} a b m (R : list byte -> sres A) (F : A -> list byte -> sres (list byte)) :
  lin a b m R -> (forall x, payload_le (F x)) -> payload_le (fun bs => sbind (R bs) F).
Proof.
  intros HR HF bs. specialize (HR bs). destruct HR as [_ HR].
  destruct (fst (R bs)) as [x r| | |] eqn:E.
  - rewrite (sbind_value _ _ x r E). cbn [fst]. specialize (HF x r).
    destruct (fst (F x r)) as [d r'| | |]; try exact I. lia.
  - destruct (sbind_fail (R bs) F) as [_ S2]; [rewrite E; discriminate|].
    destruct (fst (sbind (R bs) F)) as [y r'| | |]; try exact I. exfalso. apply (S2 y r'). reflexivity.
  - destruct (sbind_fail (R bs) F) as [_ S2]; [rewrite E; discriminate|].
    destruct (fst (sbind (R bs) F)) as [y r'| | |]; try exact I. exfalso. apply (S2 y r'). reflexivity.
  - destruct (sbind_fail (R bs) F) as [_ S2]; [rewrite E; discriminate|].
    destruct (fst (sbind (R bs) F)) as [y r'| | |]; try exact I. exfalso. apply (S2 y r'). reflexivity.
Qed.

Lemma payload_fail (e : res (list byte)) : (forall x r, e <> Value x r) -> payload_le (fun _ => sret e).
Proof. intros He bs. cbn [sret fst]. destruct e as [x r| | |]; try exact I. exfalso. apply (He x r). reflexivity. Qed.

Lemma read_sbl_s_payload mn mx : payload_le (read_sbl_s mn mx).
Proof.
  unfold read_sbl_s. eapply payload_sbind; [apply (read_be_s_lin U8 1)|].
  intros n. destruct (check_range n mn mx); [apply read_slice_s_payload | apply payload_fail; discriminate].
Qed.

(** a length-prefixed slice parsed by a reader of its own: slopes add *)
Lemma in_sub_s_fst {A} (P : list byte -> sres A) (p : list byte -> res A) d r :
  refines P p -> fst (in_sub_s P d r) = in_sub p d r.
Proof. intros H. unfold in_sub_s, in_sub. cbn [fst]. rewrite H. reflexivity. Qed.

Lemma lin_nested {A} a1 b1 m1 a2 b2 (L : list byte -> sres (list byte)) (P : list byte -> list byte -> sres A) :
  0 <= a1 -> 0 <= a2 -> 0 <= b2 ->
  lin a1 b1 m1 L -> payload_le L -> (forall d x, 0 <= snd (P d x) <= a2 * len x + b2) ->
  lin (a1 + a2) (b1 + b2) m1 (fun bs => sbind (L bs) (fun d r => in_sub_s (P d) d r)).
Proof.
  intros Ha1 Ha2 Hb2 HL HP HB bs. specialize (HL bs). specialize (HP bs). destruct HL as [H0 HL].
  pose proof (len_nonneg bs) as Hl.
  destruct (fst (L bs)) as [d r| | |] eqn:E.
  - rewrite (sbind_value _ _ d r E). unfold in_sub_s. cbn [fst snd].
    specialize (HB d d). destruct HL as (H1 & H2 & H3). pose proof (len_nonneg d).
    assert (a2 * len d <= a2 * (len bs - len r)) by (apply Z.mul_le_mono_nonneg_l; lia).
    assert (a2 * (len bs - len r) <= a2 * len bs) by (pose proof (len_nonneg r); apply Z.mul_le_mono_nonneg_l; lia).
    assert (a1 * (len bs - len r) <= a1 * len bs) by (pose proof (len_nonneg r); apply Z.mul_le_mono_nonneg_l; lia).
    split; [lia|].
    destruct (fst (P d d)) as [y r'| | |]; [split; [lia|]; split; [lia|] | | | ]; lia.
  - destruct (sbind_fail (L bs) (fun d r => in_sub_s (P d) d r)) as [S1 S2]; [rewrite E; discriminate|].
    rewrite S1. split; [exact H0|]. assert (0 <= a2 * len bs) by lia.
    destruct (fst (sbind (L bs) (fun d r => in_sub_s (P d) d r))) as [y r'| | |]; try lia. exfalso. apply (S2 y r'). reflexivity.
  - destruct (sbind_fail (L bs) (fun d r => in_sub_s (P d) d r)) as [S1 S2]; [rewrite E; discriminate|].
    rewrite S1. split; [exact H0|]. assert (0 <= a2 * len bs) by lia.
    destruct (fst (sbind (L bs) (fun d r => in_sub_s (P d) d r))) as [y r'| | |]; try lia. exfalso. apply (S2 y r'). reflexivity.
  - destruct (sbind_fail (L bs) (fun d r => in_sub_s (P d) d r)) as [S1 S2]; [rewrite E; discriminate|].
    rewrite S1. split; [exact H0|]. assert (0 <= a2 * len bs) by lia.
    destruct (fst (sbind (L bs) (fun d r => in_sub_s (P d) d r))) as [y r'| | |]; try lia. exfalso. apply (S2 y r'). reflexivity.
Qed.

Lemma read_single_be_s_fst t : refines (read_single_be_s t) (read_single_be t).
Proof.
  intros bs. unfold read_single_be_s, read_single_be. rewrite fst_sbind, read_sbl_s_fst. apply bind_ext. intros d r.
  apply in_sub_s_fst. apply read_be_s_fst.
Qed.

Lemma read_single_be_s_lin t : lin 2 0 1 (read_single_be_s t).
Proof.
  unfold read_single_be_s.
  apply (lin_nested 1 0 1 1 0 (read_sbl_s 0 (ibytes t)) (fun d => read_be_s t (len d))); try lia.
  - apply read_sbl_s_lin.
  - apply read_sbl_s_payload.
  - intros d x. apply (lin_total 1 0 (Z.max 0 (len d))); [lia | apply read_be_s_lin].
Qed.


Lemma read_var_len_s_fst mn mx : refines (read_var_len_s mn mx) (read_var_len mn mx).
Proof.
  intros bs. unfold read_var_len_s, read_var_len. rewrite fst_sbind, read_single_be_s_fst. apply bind_ext. intros n r.
  destruct (check_range n mn mx); [apply read_slice_s_fst | reflexivity].
Qed.

Lemma read_var_len_s_lin mn mx : lin 2 0 1 (read_var_len_s mn mx).
Proof.
  unfold read_var_len_s. eapply (lin_sbind 2 0 0 1 0); try lia.
  - apply read_single_be_s_lin.
  - intros n. destruct (check_range n mn mx).
    + eapply lin_weaken; [| | |apply (read_slice_s_lin (u64 n))]; lia.
    + apply lin_fail; [lia | discriminate].
Qed.

Lemma read_var_len_s_payload mn mx : payload_le (read_var_len_s mn mx).
Proof.
  unfold read_var_len_s. eapply payload_sbind; [apply (read_single_be_s_lin I32)|].
  intros n. destruct (check_range n mn mx); [apply read_slice_s_payload | apply payload_fail; discriminate].
Qed.

Lemma read_count_s_fst mn mx : refines (read_count_s mn mx) (read_count mn mx).
Proof.
  intros bs. unfold read_count_s, read_count. rewrite fst_sbind, read_single_be_s_fst. apply bind_ext. intros n r.
  destruct (check_range n mn mx); reflexivity.
Qed.

Lemma read_count_s_lin mn mx : lin 2 0 1 (read_count_s mn mx).
Proof.
  unfold read_count_s. eapply (lin_sbind 2 0 0 1 0); try lia.
  - apply read_single_be_s_lin.
  - intros n. destruct (check_range n mn mx).
    + apply (lin_value 2 (fun _ => n)).
    + apply lin_fail; [lia | discriminate].
Qed.

(** * the element loop: the bound does not depend on the announced count [n] *)
Lemma read_n_s_fst {A} (P : list byte -> sres A) p : refines P p -> forall n, refines (read_n_s P n) (read_n p n).
Proof.
  intros HP. induction n as [|k IH]; intros bs; cbn [read_n_s read_n]; [reflexivity|].
  rewrite fst_sbind. unfold tick. cbn [fst]. rewrite HP. apply bind_ext. intros x r.
  rewrite fst_sbind, IH. reflexivity.
Qed.

Lemma read_n_s_lin {A} a b m q (E : list byte -> sres A) :
  0 <= a -> 0 <= b -> 0 <= q -> b + 1 <= q * m -> lin a b m E ->
  forall n, lin (a + q) (b + 1) 0 (read_n_s E n).
Proof.
  intros Ha Hb Hq Hqm HE. induction n as [|k IH]; intros bs.
  - cbn [read_n_s sret fst snd]. replace (len bs - len bs) with 0 by lia. lia.
  - cbn [read_n_s]. pose proof (len_nonneg bs) as Hl.
    specialize (HE bs). destruct HE as [H0 HE].
    destruct (fst (E bs)) as [x r| | |] eqn:Ex.
    + rewrite (sbind_value (tick (E bs)) _ x r) by (unfold tick; cbn [fst]; exact Ex).
      change (snd (tick (E bs))) with (1 + snd (E bs)). cbn [fst snd].
      destruct HE as (H1 & H2 & H3).
      assert (Hamort : 1 + snd (E bs) <= (a + q) * (len bs - len r)).
      { assert (q * m <= q * (len bs - len r)) by (apply Z.mul_le_mono_nonneg_l; lia).
        replace ((a + q) * (len bs - len r)) with (a * (len bs - len r) + q * (len bs - len r)) by ring. lia. }
      specialize (IH r). destruct IH as [G0 IH].
      destruct (fst (read_n_s E k r)) as [xs r'| | |] eqn:En.
      * rewrite (sbind_value (read_n_s E k r) _ xs r' En). cbn [sret fst snd].
        destruct IH as (G1 & G2 & G3). split; [lia|]. split; [lia|]. split; [lia|].
        replace ((a + q) * (len bs - len r')) with ((a + q) * (len bs - len r) + (a + q) * (len r - len r')) by ring. lia.
      * destruct (sbind_fail (read_n_s E k r) (fun xs r' => sret (Value (x :: xs) r'))) as [S1 S2]; [rewrite En; discriminate|].
        rewrite S1. split; [lia|].
        replace ((a + q) * len bs) with ((a + q) * (len bs - len r) + (a + q) * len r) by ring.
        destruct (fst (sbind (read_n_s E k r) (fun xs r' => sret (Value (x :: xs) r')))) as [y r'| | |]; try lia.
        exfalso. apply (S2 y r'). reflexivity.
      * destruct (sbind_fail (read_n_s E k r) (fun xs r' => sret (Value (x :: xs) r'))) as [S1 S2]; [rewrite En; discriminate|].
        rewrite S1. split; [lia|].
        replace ((a + q) * len bs) with ((a + q) * (len bs - len r) + (a + q) * len r) by ring.
        destruct (fst (sbind (read_n_s E k r) (fun xs r' => sret (Value (x :: xs) r')))) as [y r'| | |]; try lia.
        exfalso. apply (S2 y r'). reflexivity.
      * destruct (sbind_fail (read_n_s E k r) (fun xs r' => sret (Value (x :: xs) r'))) as [S1 S2]; [rewrite En; discriminate|].
        rewrite S1. split; [lia|].
        replace ((a + q) * len bs) with ((a + q) * (len bs - len r) + (a + q) * len r) by ring.
        destruct (fst (sbind (read_n_s E k r) (fun xs r' => sret (Value (x :: xs) r')))) as [y r'| | |]; try lia.
        exfalso. apply (S2 y r'). reflexivity.
    + match goal with |- context [sbind ?x ?g] =>
        destruct (sbind_fail x g) as [S1 S2]; [unfold tick; cbn [fst]; rewrite Ex; discriminate|]; rewrite S1;
        change (snd (tick (E bs))) with (1 + snd (E bs)); split; [lia|];
        assert (0 <= q * len bs) by lia;
        replace ((a + q) * len bs) with (a * len bs + q * len bs) by ring;
        destruct (fst (sbind x g)) as [y r'| | |]; try lia; exfalso; apply (S2 y r'); reflexivity end.
    + match goal with |- context [sbind ?x ?g] =>
        destruct (sbind_fail x g) as [S1 S2]; [unfold tick; cbn [fst]; rewrite Ex; discriminate|]; rewrite S1;
        change (snd (tick (E bs))) with (1 + snd (E bs)); split; [lia|];
        assert (0 <= q * len bs) by lia;
        replace ((a + q) * len bs) with (a * len bs + q * len bs) by ring;
        destruct (fst (sbind x g)) as [y r'| | |]; try lia; exfalso; apply (S2 y r'); reflexivity end.
    + match goal with |- context [sbind ?x ?g] =>
        destruct (sbind_fail x g) as [S1 S2]; [unfold tick; cbn [fst]; rewrite Ex; discriminate|]; rewrite S1;
        change (snd (tick (E bs))) with (1 + snd (E bs)); split; [lia|];
        assert (0 <= q * len bs) by lia;
        replace ((a + q) * len bs) with (a * len bs + q * len bs) by ring;
        destruct (fst (sbind x g)) as [y r'| | |]; try lia; exfalso; apply (S2 y r'); reflexivity end.
Qed.

Lemma amort_ok b m : 0 <= b -> 1 <= m -> 0 <= amort b m /\ b + 1 <= amort b m * m.
Proof.
  intros Hb Hm. unfold amort.
  pose proof (Z.div_mod (b + m) m ltac:(lia)) as D. pose proof (Z.mod_pos_bound (b + m) m ltac:(lia)) as M.
  assert (0 <= (b + m) / m) by (apply Z.div_pos; lia).
  split; [lia|]. rewrite Z.mul_comm. lia.
Qed.

Lemma reserve_s_fst {A} n (k : sres A) : fst (reserve_s n k) = reserve n (fst k).
Proof. unfold reserve_s, reserve. destruct ((0 <=? n) && (n <=? alloc_cap)); reflexivity. Qed.

Lemma lin_reserve {A} a b m n (K : list byte -> sres A) : 0 <= a -> 0 <= b -> lin a b m K -> lin a b m (fun bs => reserve_s n (K bs)).
Proof.
  intros Ha Hb HK bs. unfold reserve_s. destruct ((0 <=? n) && (n <=? alloc_cap)); [apply HK|].
  cbn [sret fst snd]. pose proof (len_nonneg bs). split; [lia|]. nia.
Qed.

(** * the combinators preserve [s_ok] *)
Lemma s_pair_ok {A B} (x : sdec A) (y : sdec B) : s_ok x -> s_ok y -> s_ok (s_pair x y).
Proof.
  intros (Ha & Hb & Hm & Hr & Hl) (Ha' & Hb' & Hm' & Hr' & Hl').
  unfold s_ok. cbn [s_pair s_a s_b s_min s_run s_codec].
  split; [lia|]. split; [lia|]. split; [lia|]. split.
  - intros bs. cbn [c_pair dec]. rewrite fst_sbind, Hr. apply bind_ext. intros a r.
    rewrite fst_sbind, Hr'. reflexivity.
  - eapply (lin_sbind _ (s_b x) (s_b y) (s_min x) (s_min y)); try lia.
    + eapply lin_weaken; [| | |exact Hl]; lia.
    + intros a. eapply (lin_sbind _ (s_b y) 0 (s_min y) 0); try lia.
      * eapply lin_weaken; [| | |exact Hl']; lia.
      * intros b. apply (lin_value _ (fun _ => (a, b))).
Qed.

Lemma s_iso_ok {A B} (f : B -> A) (g : A -> B) (x : sdec A) : s_ok x -> s_ok (s_iso f g x).
Proof.
  intros (Ha & Hb & Hm & Hr & Hl). unfold s_ok. cbn [s_iso s_a s_b s_min s_run s_codec].
  split; [lia|]. split; [lia|]. split; [lia|]. split.
  - intros bs. cbn [c_iso dec]. rewrite fst_sbind, Hr. reflexivity.
  - eapply (lin_sbind _ (s_b x) 0 (s_min x) 0); try lia; [exact Hl|].
    intros a. apply (lin_value _ (fun _ => g a)).
Qed.

Lemma s_refine_ok {A} (x : sdec A) (p : A -> bool) : s_ok x -> s_ok (s_refine x p).
Proof.
  intros (Ha & Hb & Hm & Hr & Hl). unfold s_ok. cbn [s_refine s_a s_b s_min s_run s_codec].
  split; [lia|]. split; [lia|]. split; [lia|]. split.
  - intros bs. cbn [c_refine dec]. rewrite fst_sbind, Hr. apply bind_ext. intros a r. destruct (p a); reflexivity.
  - eapply (lin_sbind _ (s_b x) 0 (s_min x) 0); try lia; [exact Hl|].
    intros a. destruct (p a); [apply (lin_value _ (fun _ => a)) | apply lin_fail; [lia | discriminate]].
Qed.

Lemma s_nested_ok {A} (lc : sdec (list byte)) lsz (x : sdec A) :
  s_ok lc -> payload_le (s_run lc) -> s_ok x -> s_ok (s_nested lc lsz x).
Proof.
  intros (Ha & Hb & Hm & Hr & Hl) Hp (Ha' & Hb' & Hm' & Hr' & Hl').
  unfold s_ok. cbn [s_nested s_a s_b s_min s_run s_codec].
  split; [lia|]. split; [lia|]. split; [lia|]. split.
  - intros bs. cbn [c_nested dec]. rewrite fst_sbind, Hr. apply bind_ext. intros d r.
    apply in_sub_s_fst. exact Hr'.
  - apply (lin_nested (s_a lc) (s_b lc) (s_min lc) (s_a x) (s_b x) (s_run lc) (fun _ => s_run x)); try lia; try assumption.
    intros d bs. apply (lin_total _ _ _ _ Ha' Hl').
Qed.

Lemma s_counted_ok {A} (cc : sdec Z) (mid : sdec unit) (e : sdec A) :
  s_ok cc -> s_ok mid -> s_ok e -> (1 <=? s_min e) = true -> s_ok (s_counted cc mid e).
Proof.
  intros (Ha & Hb & Hm & Hr & Hl) (Ha' & Hb' & Hm' & Hr' & Hl') (Ha'' & Hb'' & Hm'' & Hr'' & Hl'') Hmin.
  apply Z.leb_le in Hmin. destruct (amort_ok (s_b e) (s_min e) Hb'' Hmin) as [Hq Hqm].
  unfold s_ok. cbn [s_counted s_a s_b s_min s_run s_codec].
  split; [lia|]. split; [lia|]. split; [lia|]. split.
  - intros bs. cbn [c_counted dec]. rewrite fst_sbind, Hr. apply bind_ext. intros n r.
    rewrite fst_sbind, Hr'. apply bind_ext. intros u r1.
    rewrite reserve_s_fst. rewrite (read_n_s_fst (s_run e) (dec (s_codec e)) Hr''). reflexivity.
  - set (a := Z.max (Z.max (s_a cc) (s_a mid)) (s_a e + amort (s_b e) (s_min e))).
    eapply (lin_sbind a (s_b cc) (s_b mid + (s_b e + 1)) (s_min cc) (s_min mid)); try lia.
    + eapply lin_weaken; [| | |exact Hl]; lia.
    + intros n. eapply (lin_sbind a (s_b mid) (s_b e + 1) (s_min mid) 0); try lia.
      * eapply lin_weaken; [| | |exact Hl']; lia.
      * intros u. apply lin_reserve; [lia | lia |].
        eapply lin_weaken; [| | |apply (read_n_s_lin (s_a e) (s_b e) (s_min e) (amort (s_b e) (s_min e)) (s_run e) Ha'' Hb'' Hq Hqm Hl'')]; lia.
Qed.

(** the generic array combinator readArrayOf(min, max, readFunc) *)
Lemma read_array_of_s_fst {A} mn mx (P : list byte -> sres A) p :
  refines P p -> refines (read_array_of_s mn mx P) (read_array_of mn mx p).
Proof.
  intros HP bs. unfold read_array_of_s, read_array_of. rewrite fst_sbind, read_count_s_fst. apply bind_ext. intros c r.
  rewrite reserve_s_fst, (read_n_s_fst P p HP). reflexivity.
Qed.

Lemma read_array_of_s_lin {A} mn mx a b m (P : list byte -> sres A) :
  0 <= a -> 0 <= b -> 1 <= m -> lin a b m P ->
  lin (Z.max 2 (a + amort b m)) (b + 1) 1 (read_array_of_s mn mx P).
Proof.
  intros Ha Hb Hm HP. destruct (amort_ok b m Hb Hm) as [Hq Hqm].
  unfold read_array_of_s. eapply (lin_sbind _ 0 (b + 1) 1 0); try lia.
  - eapply lin_weaken; [| | |apply (read_count_s_lin mn mx)]; lia.
  - intros c. apply lin_reserve; [lia | lia |].
    eapply lin_weaken; [| | |apply (read_n_s_lin a b m (amort b m) P Ha Hb Hq Hqm HP)]; lia.
Qed.

(** * primitive and entity decoders *)
Lemma s_be_ok t n : s_ok (s_be t n).
Proof. unfold s_ok. cbn [s_be s_a s_b s_min s_run s_codec c_be dec]. split; [lia|]. split; [lia|]. split; [lia|]. split; [apply read_be_s_fst | apply read_be_s_lin]. Qed.
Lemma s_le_ok t : s_ok (s_le t).
Proof. unfold s_ok. cbn [s_le s_a s_b s_min s_run s_codec c_le dec]. split; [lia|]. split; [lia|]. split; [lia|]. split; [apply read_le_s_fst | apply read_le_s_lin]. Qed.
Lemma s_bytes_ok n : s_ok (s_bytes n).
Proof. unfold s_ok. cbn [s_bytes s_a s_b s_min s_run s_codec c_bytes dec]. split; [lia|]. split; [lia|]. split; [lia|]. split; [apply read_slice_s_fst | apply read_slice_s_lin]. Qed.
Lemma s_sbl_ok mn mx : s_ok (s_sbl mn mx).
Proof. unfold s_ok. cbn [s_sbl s_a s_b s_min s_run s_codec c_sbl dec]. split; [lia|]. split; [lia|]. split; [lia|]. split; [apply read_sbl_s_fst | apply read_sbl_s_lin]. Qed.
Lemma s_var_len_ok mn mx : s_ok (s_var_len mn mx).
Proof. unfold s_ok. cbn [s_var_len s_a s_b s_min s_run s_codec c_var_len dec]. split; [lia|]. split; [lia|]. split; [lia|]. split; [apply read_var_len_s_fst | apply read_var_len_s_lin]. Qed.
Lemma s_single_be64_ok : s_ok s_single_be64.
Proof. unfold s_ok. cbn [s_single_be64 s_a s_b s_min s_run s_codec c_single_be64 dec]. split; [lia|]. split; [lia|]. split; [lia|]. split; [apply read_single_be_s_fst | apply read_single_be_s_lin]. Qed.
Lemma s_single_fixed_be_ok t : s_ok (s_single_fixed_be t).
Proof. unfold s_ok. cbn [s_single_fixed_be s_a s_b s_min s_run s_codec c_single_fixed_be dec]. split; [lia|]. split; [lia|]. split; [lia|]. split; [apply read_single_be_s_fst | apply read_single_be_s_lin]. Qed.
Lemma s_count_ok mn mx : s_ok (s_count mn mx).
Proof. unfold s_ok. cbn [s_count s_a s_b s_min s_run s_codec c_count dec]. split; [lia|]. split; [lia|]. split; [lia|]. split; [apply read_count_s_fst | apply read_count_s_lin]. Qed.
Lemma s_empty_ok : s_ok s_empty.
Proof.
  unfold s_ok. cbn [s_empty s_a s_b s_min s_run s_codec c_empty dec].
  split; [lia|]. split; [lia|]. split; [lia|]. split; [intros bs; reflexivity|].
  apply (lin_value 0 (fun _ => tt)).
Qed.

Lemma s_network_byte_ok ty : s_ok (s_network_byte ty).
Proof.
  unfold s_ok. cbn [s_network_byte s_a s_b s_min s_run s_codec]. split; [lia|]. split; [lia|]. split; [lia|]. split.
  - intros bs. cbn [c_network_byte dec]. rewrite fst_sbind, read_be_s_fst. apply bind_ext. intros b r.
    destruct (b =? ty); [reflexivity|]. rewrite fst_sbind, read_be_s_fst. reflexivity.
  - eapply (lin_sbind 1 0 0 1 0); try lia; [apply (read_be_s_lin U8 1)|].
    intros b. destruct (b =? ty); [apply (lin_value 1 (fun _ => (None, b)))|].
    eapply (lin_sbind 1 0 0 1 0); try lia; [apply (read_be_s_lin U8 1)|].
    intros t. apply (lin_value 1 (fun _ => (Some b, t))).
Qed.

Lemma s_address_ok an : s_ok (s_address an).
Proof.
  unfold s_ok. cbn [s_address s_a s_b s_min s_run s_codec]. split; [lia|]. split; [lia|]. split; [lia|]. split.
  - intros bs. cbn [c_address dec]. rewrite fst_sbind, read_be_s_fst. apply bind_ext. intros ty r.
    rewrite fst_sbind, read_sbl_s_fst. apply bind_ext. intros b r'. destruct (an ty b) as [[t' b']|]; reflexivity.
  - eapply (lin_sbind 1 0 0 1 1); try lia; [apply (read_be_s_lin U8 1)|].
    intros ty. eapply (lin_sbind 1 0 0 1 0); try lia; [apply read_sbl_s_lin|].
    intros b. destruct (an ty b) as [[t' b']|]; [apply (lin_value 1 (fun _ => mkAddress t' b')) | apply lin_fail; [lia | discriminate]].
Qed.

Lemma sbl_payload mn mx : payload_le (s_run (s_sbl mn mx)).
Proof. apply read_sbl_s_payload. Qed.
Lemma var_len_payload mn mx : payload_le (s_run (s_var_len mn mx)).
Proof. apply read_var_len_s_payload. Qed.

Ltac ok_step :=
  lazymatch goal with
  | |- s_ok (s_pair _ _) => apply s_pair_ok
  | |- s_ok (s_iso _ _ _) => apply s_iso_ok
  | |- s_ok (s_refine _ _) => apply s_refine_ok
  | |- s_ok (s_nested _ _ _) => apply s_nested_ok
  | |- s_ok (s_counted _ _ _) => apply s_counted_ok
  | |- payload_le (s_run (s_sbl _ _)) => apply sbl_payload
  | |- payload_le (s_run (s_var_len _ _)) => apply var_len_payload
  | |- s_ok (s_be _ _) => apply s_be_ok
  | |- s_ok (s_le _) => apply s_le_ok
  | |- s_ok (s_bytes _) => apply s_bytes_ok
  | |- s_ok (s_sbl _ _) => apply s_sbl_ok
  | |- s_ok (s_var_len _ _) => apply s_var_len_ok
  | |- s_ok s_single_be64 => apply s_single_be64_ok
  | |- s_ok (s_single_fixed_be _) => apply s_single_fixed_be_ok
  | |- s_ok (s_count _ _) => apply s_count_ok
  | |- s_ok s_empty => apply s_empty_ok
  | |- s_ok (s_network_byte _) => apply s_network_byte_ok
  | |- s_ok (s_address _) => apply s_address_ok
  | |- (1 <=? _) = true => vm_compute; reflexivity
  end.
Ltac ok_tac := repeat ok_step.

Section Entities.
  Variable an : Z -> list byte -> option (Z * list byte).

  Lemma s_output_ok : s_ok (s_output an). Proof. unfold s_output, s_coin. ok_tac. Qed.
  Lemma s_btcblock_ok : s_ok s_btcblock. Proof. unfold s_btcblock, s_btcblock_raw, s_rev_bytes. ok_tac. Qed.
  Lemma s_vbkblock_ok : s_ok s_vbkblock. Proof. unfold s_vbkblock, s_vbkblock_raw. ok_tac. Qed.
  Lemma s_merklepath_ok : s_ok s_merklepath.
  Proof. unfold s_merklepath, s_merklepath_raw, s_merkle_mid, s_count_fixed32. ok_tac. Qed.
  Lemma s_vbkmerklepath_ok : s_ok s_vbkmerklepath.
  Proof. unfold s_vbkmerklepath, s_count_fixed32. ok_tac. Qed.
  Lemma s_pubdata_ok : s_ok s_pubdata. Proof. unfold s_pubdata. ok_tac. Qed.
  Lemma s_vbktx_ok : s_ok (s_vbktx an).
  Proof. unfold s_vbktx, s_vbktx_raw, s_coin. ok_tac; first [apply s_output_ok | apply s_pubdata_ok]. Qed.
  Lemma s_vbkpoptx_ok : s_ok (s_vbkpoptx an).
  Proof.
    unfold s_vbkpoptx, s_vbkpoptx_raw, s_btctx. ok_tac;
      first [apply s_vbkblock_ok | apply s_merklepath_ok | apply s_btcblock_ok].
  Qed.
  Lemma s_atv_ok : s_ok (s_atv an).
  Proof. unfold s_atv, s_version1. ok_tac; first [apply s_vbktx_ok | apply s_vbkmerklepath_ok | apply s_vbkblock_ok]. Qed.
  Lemma s_vtb_ok : s_ok (s_vtb an).
  Proof. unfold s_vtb, s_version1. ok_tac; first [apply s_vbkpoptx_ok | apply s_vbkmerklepath_ok | apply s_vbkblock_ok]. Qed.
  Lemma s_popdata_ok : s_ok (s_popdata an).
  Proof. unfold s_popdata, s_version1. ok_tac; first [apply s_vbkblock_ok | apply s_vtb_ok | apply s_atv_ok]. Qed.
End Entities.
