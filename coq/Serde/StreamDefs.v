(** Serde layer, part 1: ReadStream / WriteStream and the primitives of
    src/pop/serde.cpp + include/veriblock/pop/serde.hpp, as coded.
    Executable; NO proofs in this file.

    * [byte] is the 256-constructor type of the standard library (no side
      condition "0 <= b < 256" is ever needed); [b2z]/[z2b] convert.
    * A ReadStream is the list of bytes that REMAIN after the cursor
      (m_Buffer[m_Pos..m_Size)). Every reader returns one of
        [Value x rest]  success, cursor advanced to [rest]
        [Invalid]       state.Invalid(...)   (the only legal failure)
        [Oob]           the C++ would dereference m_Buffer outside [0, m_Size)
        [BadAlloc]      the C++ would reserve()/resize() more than [alloc_cap] elements
      [Oob] and [BadAlloc] are never totalised away: the bounds check
      ([has_more], [check_range]) and the raw access ([raw_take], [reserve])
      are separate definitions, so "never over-reads / never over-allocates"
      are real statements (StreamSafe.v).
    * Integers are unbounded [Z]; every C++ width is explicit ([ity], [wrap]). *)
From Coq Require Import ZArith NArith List Bool.
From Coq Require Import Strings.Byte.
Import ListNotations.
Local Open Scope Z_scope.

Definition byte := Byte.byte.
Definition b2z (b : byte) : Z := Z.of_N (Byte.to_N b).
Definition z2b (z : Z) : byte :=
  match Byte.of_N (Z.to_N (z mod 256)) with Some b => b | None => Byte.x00 end.
Definition len {A} (l : list A) : Z := Z.of_nat (length l).

Inductive res (A : Type) : Type :=
| Value (x : A) (rest : list byte)
| Invalid
| Oob
| BadAlloc.
Arguments Value {A} x rest.
Arguments Invalid {A}.
Arguments Oob {A}.
Arguments BadAlloc {A}.

Definition bind {A B} (r : res A) (f : A -> list byte -> res B) : res B :=
  match r with
  | Value x rest => f x rest
  | Invalid => Invalid
  | Oob => Oob
  | BadAlloc => BadAlloc
  end.

(** run [p] on the slice [d] as a stream of its own (ReadStream s(d)); bytes
    of [d] that [p] does not consume are silently dropped, as in the C++;
    the outer stream continues at [r] *)
Definition in_sub {A} (p : list byte -> res A) (d : list byte) (r : list byte) : res A :=
  match p d with
  | Value x _ => Value x r
  | Invalid => Invalid
  | Oob => Oob
  | BadAlloc => BadAlloc
  end.

(** ** ReadStream (read_stream.hpp / read_stream.cpp) *)

(** hasMore(n): remaining() >= n  (n is a size_t, never negative) *)
Fixpoint has_more (bs : list byte) (n : Z) {struct bs} : bool :=
  if n <=? 0 then true
  else match bs with [] => false | _ :: t => has_more t (n - 1) end.

(** the raw access m_Buffer[m_Pos .. m_Pos+n): [None] = leaves the buffer *)
Fixpoint raw_take (bs : list byte) (n : Z) {struct bs} : option (list byte * list byte) :=
  if n <=? 0 then Some ([], bs)
  else match bs with
       | [] => None
       | b :: t => match raw_take t (n - 1) with
                   | Some (a, r) => Some (b :: a, r)
                   | None => None
                   end
       end.

(** ReadStream::readSlice(n) and ReadStream::read(n, out) *)
Definition read_slice (n : Z) (bs : list byte) : res (list byte) :=
  if has_more bs n
  then match raw_take bs n with Some (a, r) => Value a r | None => Oob end
  else Invalid.

(** a C++ integral type: width in bytes and signedness *)
Record ity := mkIty { ibytes : Z; isigned : bool }.
Definition U8 := mkIty 1 false.
Definition I16 := mkIty 2 true.
Definition U16 := mkIty 2 false.
Definition I32 := mkIty 4 true.
Definition U32 := mkIty 4 false.
Definition I64 := mkIty 8 true.
Definition U64 := mkIty 8 false.

(** conversion of a mathematical integer to a [bits]-wide C++ integer *)
Definition wrap (bits : Z) (signed : bool) (v : Z) : Z :=
  let m := v mod 2 ^ bits in
  if signed && (2 ^ (bits - 1) <=? m) then m - 2 ^ bits else m.
Definition wrap_t (t : ity) (v : Z) : Z := wrap (8 * ibytes t) (isigned t) v.

Fixpoint be_val (l : list byte) (acc : Z) : Z :=
  match l with [] => acc | b :: t => be_val t (acc * 256 + b2z b) end.

(** readBE<T>(t, state, n): t += (T)((T)byte << shift), n <= sizeof(T) *)
Definition read_be (t : ity) (n : Z) (bs : list byte) : res Z :=
  bind (read_slice n bs) (fun d r => Value (wrap_t t (be_val d 0)) r).
(** readLE<T>(t, state) *)
Definition read_le (t : ity) (bs : list byte) : res Z :=
  bind (read_slice (ibytes t) bs) (fun d r => Value (wrap_t t (be_val (rev d) 0)) r).

(** ** WriteStream: append *)

(** the low [n] bytes of [v] (two's complement), most significant first:
    (num >> shift) & 0xff for the last n of sizeof(T) positions *)
Fixpoint be_bytes (n : nat) (v : Z) : list byte :=
  match n with O => [] | S k => be_bytes k (v / 256) ++ [z2b v] end.
(** writeBE<T>(v, n)  (VBK_ASSERT(n <= sizeof(T))) *)
Definition write_be (n : Z) (v : Z) : list byte := be_bytes (Z.to_nat n) v.
(** writeLE<T>(v) *)
Definition write_le (t : ity) (v : Z) : list byte := rev (be_bytes (Z.to_nat (ibytes t)) v).

(** ** serde.cpp *)

Definition u64 (v : Z) : Z := v mod 2 ^ 64.
(** checkRange(uint64_t num, uint64_t min, uint64_t max): [num] arrives
    converted to uint64_t (a negative int32_t becomes huge) *)
Definition check_range (num mn mx : Z) : bool := (mn <=? u64 num) && (u64 num <=? mx).

(** trimmedArray(int64_t): x = 8; do { if ((input >> ((x-1)*8)) != 0) break; x--; } while (x > 1);
    [trim_x k v] is the loop entered with x = k+1; >> on int64_t is arithmetic = Z.shiftr *)
Fixpoint trim_x (k : nat) (v : Z) : Z :=
  match k with
  | O => 1
  | S k' => if Z.shiftr v (8 * Z.of_nat k) =? 0 then trim_x k' v else Z.of_nat k + 1
  end.
Definition trimmed_array (v : Z) : list byte := be_bytes (Z.to_nat (trim_x 7 v)) v.

(** readSingleByteLenValue(stream, out, state, min, max) *)
Definition read_sbl (mn mx : Z) (bs : list byte) : res (list byte) :=
  bind (read_be U8 1 bs) (fun n r => if check_range n mn mx then read_slice n r else Invalid).
(** writeSingleByteLenValue (VBK_ASSERT(size <= 255)) / singleByteLenValueSize *)
Definition write_sbl (v : list byte) : list byte := z2b (len v) :: v.
Definition sbl_size (n : Z) : Z := 1 + n.

(** readSingleBEValue<T>: single-byte-length value of at most sizeof(T) bytes,
    then readBE<T> of exactly that many bytes on a stream of its own *)
Definition read_single_be (t : ity) (bs : list byte) : res Z :=
  bind (read_sbl 0 (ibytes t) bs) (fun d r => in_sub (read_be t (len d)) d r).
(** writeSingleBEValue(stream, int64_t) / singleBEValueSize *)
Definition write_single_be (v : Z) : list byte :=
  let d := trimmed_array v in z2b (len d) :: d.
Definition single_be_size (v : Z) : Z := 1 + len (trimmed_array v).
(** writeSingleFixedBEValue<T> / singleFixedBEValueSize<T> *)
Definition write_single_fixed_be (t : ity) (v : Z) : list byte := write_sbl (write_be (ibytes t) v).
Definition single_fixed_be_size (t : ity) : Z := sbl_size (ibytes t).

(** readVarLenValue: int32_t length; checkRange; readSlice((size_t)length) *)
Definition read_var_len (mn mx : Z) (bs : list byte) : res (list byte) :=
  bind (read_single_be I32 bs) (fun n r => if check_range n mn mx then read_slice (u64 n) r else Invalid).
Definition write_var_len (v : list byte) : list byte := write_single_be (len v) ++ v.
Definition var_len_size (n : Z) : Z := single_be_size n + n.

(** ** allocation requests: out.reserve(count) happens BEFORE any element is read *)
Definition alloc_cap : Z := 65536.
Definition reserve {A} (n : Z) (k : res A) : res A :=
  if (0 <=? n) && (n <=? alloc_cap) then k else BadAlloc.

(** first half of readArrayOf: the element count that is about to be reserved *)
Definition read_count (mn mx : Z) (bs : list byte) : res Z :=
  bind (read_single_be I32 bs) (fun c r => if check_range c mn mx then Value c r else Invalid).

Fixpoint read_n {A} (p : list byte -> res A) (n : nat) (bs : list byte) : res (list A) :=
  match n with
  | O => Value [] bs
  | S k => bind (p bs) (fun x r => bind (read_n p k r) (fun xs r' => Value (x :: xs) r'))
  end.

(** readArrayOf<T>(stream, out, state, min, max, readFunc) *)
Definition read_array_of {A} (mn mx : Z) (p : list byte -> res A) (bs : list byte) : res (list A) :=
  bind (read_count mn mx bs) (fun c r => reserve c (read_n p (Z.to_nat c) r)).

(** ** codecs: encoder + decoder + estimateSize of one type, and the two
    well-formedness predicates the theorems are stated with:
    [wfd] = what a successful decode guarantees about the value,
    [fits] = the encodings of nested parts respect the limit of the length
    prefix they are wrapped in (not implied by [wfd]: the decoder accepts
    non-canonical, shorter, encodings of the same value). *)
Record codec (A : Type) := mkCodec {
  enc : A -> list byte;
  dec : list byte -> res A;
  wfd : A -> bool;
  fits : A -> bool;
  esize : A -> Z;
}.
Arguments mkCodec {A}.
Arguments enc {A}.
Arguments dec {A}.
Arguments wfd {A}.
Arguments fits {A}.
Arguments esize {A}.

Definition tt_true {A} (_ : A) : bool := true.

(** range of the values produced by readBE<T>(.., n) *)
Definition be_lo (t : ity) (n : Z) : Z := if isigned t && (n =? ibytes t) then - 2 ^ (8 * n - 1) else 0.
Definition be_hi (t : ity) (n : Z) : Z := if isigned t && (n =? ibytes t) then 2 ^ (8 * n - 1) else 2 ^ (8 * n).
Definition in_be_range (t : ity) (n : Z) (v : Z) : bool := (be_lo t n <=? v) && (v <? be_hi t n).

(** writeBE<T>(v, n) / readBE<T>(v, state, n) *)
Definition c_be (t : ity) (n : Z) : codec Z :=
  mkCodec (write_be n) (read_be t n) (in_be_range t n) tt_true (fun _ => n).
(** writeLE<T> / readLE<T> *)
Definition c_le (t : ity) : codec Z :=
  mkCodec (write_le t) (read_le t) (in_be_range t (ibytes t)) tt_true (fun _ => ibytes t).
(** stream.write(blob) / readSlice(n) of a fixed size *)
Definition c_bytes (n : Z) : codec (list byte) :=
  mkCodec (fun v => v) (read_slice n) (fun v => len v =? n) tt_true (fun v => len v).
(** writeSingleByteLenValue / readSingleByteLenValue(min, max) *)
Definition c_sbl (mn mx : Z) : codec (list byte) :=
  mkCodec write_sbl (read_sbl mn mx)
          (fun v => (mn <=? len v) && (len v <=? mx) && (len v <=? 255)) tt_true
          (fun v => sbl_size (len v)).
(** writeVarLenValue / readVarLenValue(min, max) *)
Definition c_var_len (mn mx : Z) : codec (list byte) :=
  mkCodec write_var_len (read_var_len mn mx)
          (fun v => (mn <=? len v) && (len v <=? mx)) tt_true
          (fun v => var_len_size (len v)).
(** writeSingleBEValue(int64_t) / readSingleBEValue<int64_t> *)
Definition c_single_be64 : codec Z :=
  mkCodec write_single_be (read_single_be I64) (in_be_range I64 8) tt_true single_be_size.
(** writeSingleFixedBEValue<T> / readSingleBEValue<T> *)
Definition c_single_fixed_be (t : ity) : codec Z :=
  mkCodec (write_single_fixed_be t) (read_single_be t) (in_be_range t (ibytes t)) tt_true
          (fun _ => single_fixed_be_size t).
(** writeSingleBEValue((int64_t)size) / the count half of readArrayOf *)
Definition c_count (mn mx : Z) : codec Z :=
  mkCodec write_single_be (read_count mn mx) (fun c => (mn <=? c) && (c <=? mx) && (0 <=? c)) tt_true single_be_size.
(** nothing *)
Definition c_empty : codec unit :=
  mkCodec (fun _ => []) (fun bs => Value tt bs) tt_true tt_true (fun _ => 0).

(** sequence *)
Definition c_pair {A B} (ca : codec A) (cb : codec B) : codec (A * B) :=
  mkCodec (fun x => enc ca (fst x) ++ enc cb (snd x))
          (fun bs => bind (dec ca bs) (fun a r => bind (dec cb r) (fun b r' => Value (a, b) r')))
          (fun x => wfd ca (fst x) && wfd cb (snd x))
          (fun x => fits ca (fst x) && fits cb (snd x))
          (fun x => esize ca (fst x) + esize cb (snd x)).

(** change of representation (record <-> nested pairs) *)
Definition c_iso {A B} (f : B -> A) (g : A -> B) (c : codec A) : codec B :=
  mkCodec (fun b => enc c (f b))
          (fun bs => bind (dec c bs) (fun a r => Value (g a) r))
          (fun b => wfd c (f b)) (fun b => fits c (f b)) (fun b => esize c (f b)).

(** decode, then reject unless [p] holds (version == 1, size-of-size == 4, ...) *)
Definition c_refine {A} (c : codec A) (p : A -> bool) : codec A :=
  mkCodec (enc c)
          (fun bs => bind (dec c bs) (fun a r => if p a then Value a r else Invalid))
          (fun a => wfd c a && p a) (fits c) (esize c).

(** a value serialised into a buffer of its own which is then written as a
    length-prefixed byte string ([lc] = c_sbl / c_var_len, [lsz] = size of
    that wrapper as a function of the payload size); the reader parses the
    payload with a ReadStream of its own and ignores what is left of it *)
Definition c_nested {A} (lc : codec (list byte)) (lsz : Z -> Z) (c : codec A) : codec A :=
  mkCodec (fun x => enc lc (enc c x))
          (fun bs => bind (dec lc bs) (fun d r => in_sub (dec c) d r))
          (wfd c)
          (fun x => fits c x && wfd lc (enc c x))
          (fun x => lsz (esize c x)).

Fixpoint sumZ (l : list Z) : Z := match l with [] => 0 | x :: t => x + sumZ t end.

(** count [cc], then fixed fields [mid], then that many elements, with the
    reserve(count) of the C++ between count and elements *)
Definition c_counted {A} (cc : codec Z) (mid : codec unit) (c : codec A) : codec (list A) :=
  mkCodec (fun xs => enc cc (len xs) ++ enc mid tt ++ concat (map (enc c) xs))
          (fun bs => bind (dec cc bs) (fun n r =>
                     bind (dec mid r) (fun _ r1 =>
                     reserve n (read_n (dec c) (Z.to_nat n) r1))))
          (fun xs => wfd cc (len xs) && forallb (wfd c) xs)
          (fun xs => forallb (fits c) xs)
          (fun xs => esize cc (len xs) + esize mid tt + sumZ (map (esize c) xs)).

(** readNetworkByte(stream, type) / writeNetworkByte / networkByteSize.
    value = (Some network byte | None, typeId) *)
Definition nbp := (option Z * Z)%type.
Definition c_network_byte (ty : Z) : codec nbp :=
  mkCodec (fun x => match fst x with Some n => [z2b n; z2b (snd x)] | None => [z2b (snd x)] end)
          (fun bs => bind (read_be U8 1 bs) (fun b r =>
                     if b =? ty then Value (None, b) r
                     else bind (read_be U8 1 r) (fun t r' => Value (Some b, t) r')))
          (fun x => match fst x with
                    | Some n => (0 <=? n) && (n <? 256) && negb (n =? ty) && (0 <=? snd x) && (snd x <? 256)
                    | None => snd x =? ty
                    end)
          tt_true
          (fun x => match fst x with Some _ => 2 | None => 1 end).
