(** Serde layer: memoised hashes (BtcBlock::hash_, VbkBlock::hash_) as the code
    keeps them: getHash() answers the memo when it is set, otherwise computes
    hash(toRaw) and stores it; every setter changes one field and clears the
    memo; a freshly decoded object starts with an empty memo. Over an abstract
    hash function and an abstract raw encoding. *)
From Coq Require Import List.
From VB Require Import Serde.StreamDefs.
Import ListNotations.

Section Memo.
  Variable A : Type.                       (* the block fields *)
  Variable raw : A -> list byte.           (* toRaw *)
  Variable hash : list byte -> list byte.  (* sha256d / progpow *)

  Record memo_obj := mkMemo { mo_fields : A; mo_memo : option (list byte) }.

  Definition fresh (x : A) : memo_obj := mkMemo x None.                  (* decoded / constructed *)
  Definition get_hash (m : memo_obj) : list byte * memo_obj :=
    match mo_memo m with
    | Some h => (h, m)
    | None => let h := hash (raw (mo_fields m)) in (h, mkMemo (mo_fields m) (Some h))
    end.
  Definition set (f : A -> A) (m : memo_obj) : memo_obj := mkMemo (f (mo_fields m)) None.   (* setX: field := ..; invalidateHash() *)

  Inductive op := OpGet | OpSet (f : A -> A).

  (** the observable trace: every answer of getHash paired with the content at that time *)
  Fixpoint run (m : memo_obj) (ops : list op) : list (list byte * A) :=
    match ops with
    | [] => []
    | OpGet :: t => let '(h, m') := get_hash m in (h, mo_fields m) :: run m' t
    | OpSet f :: t => run (set f m) t
    end.

  Definition inv (m : memo_obj) : Prop :=
    match mo_memo m with Some h => h = hash (raw (mo_fields m)) | None => True end.

  Lemma inv_fresh x : inv (fresh x). Proof. exact I. Qed.
  Lemma inv_set f m : inv (set f m). Proof. exact I. Qed.
  Lemma inv_get m : inv m -> fst (get_hash m) = hash (raw (mo_fields m)) /\ inv (snd (get_hash m)) /\
                             mo_fields (snd (get_hash m)) = mo_fields m.
  Proof.
    unfold inv, get_hash. destruct (mo_memo m) as [h|] eqn:E; cbn [fst snd mo_fields mo_memo].
    - intros ->. rewrite E. auto.
    - intros _. auto.
  Qed.

  (** every sequence of setters and hash reads answers hash(raw(current content)) *)
  Theorem memo_transparent : forall ops m, inv m ->
    Forall (fun p => fst p = hash (raw (snd p))) (run m ops).
  Proof.
    induction ops as [|o t IH]; intros m Hm; cbn [run]; [constructor|].
    destruct o as [|f].
    - destruct (inv_get m Hm) as (H1 & H2 & H3). destruct (get_hash m) as [h m'] eqn:E. cbn [fst snd] in *.
      constructor; [cbn [fst snd]; exact H1|]. apply IH. exact H2.
    - apply IH. apply inv_set.
  Qed.

  (** consequently two objects with equal content answer equal hashes, whatever their histories *)
  Corollary memo_hash_of_content : forall ops1 ops2 x1 x2 h1 h2 c1 c2,
    In (h1, c1) (run (fresh x1) ops1) -> In (h2, c2) (run (fresh x2) ops2) -> raw c1 = raw c2 -> h1 = h2.
  Proof.
    intros ops1 ops2 x1 x2 h1 h2 c1 c2 I1 I2 E.
    pose proof (memo_transparent ops1 (fresh x1) (inv_fresh x1)) as F1.
    pose proof (memo_transparent ops2 (fresh x2) (inv_fresh x2)) as F2.
    rewrite Forall_forall in F1, F2. apply F1 in I1. apply F2 in I2. cbn [fst snd] in *. congruence.
  Qed.
End Memo.
