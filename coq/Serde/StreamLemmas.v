(** Serde layer: basic facts about bytes, lengths, big-endian conversion,
    [wrap], [trim_x] and the ReadStream primitives. *)
From Coq Require Import ZArith NArith List Bool Lia.
From Coq Require Import Strings.Byte.
From VB Require Import Serde.StreamDefs Serde.CodecSpec.
Import ListNotations.
Local Open Scope Z_scope.

(** ** bytes *)
Lemma b2z_range b : 0 <= b2z b < 256.
Proof. unfold b2z. pose proof (Byte.to_N_bounded b). lia. Qed.

Lemma z2b_b2z b : z2b (b2z b) = b.
Proof.
  unfold z2b. rewrite Z.mod_small by apply b2z_range.
  unfold b2z. rewrite N2Z.id. rewrite Byte.of_to_N. reflexivity.
Qed.

Lemma b2z_z2b z : b2z (z2b z) = z mod 256.
Proof.
  unfold z2b, b2z. pose proof (Z.mod_pos_bound z 256 ltac:(lia)) as Hm.
  destruct (Byte.of_N (Z.to_N (z mod 256))) eqn:E.
  - apply Byte.to_of_N in E. rewrite E. rewrite Z2N.id; lia.
  - apply Byte.of_N_None_iff in E. lia.
Qed.

Lemma b2z_z2b_small z : 0 <= z < 256 -> b2z (z2b z) = z.
Proof. intros. rewrite b2z_z2b. apply Z.mod_small. assumption. Qed.

Lemma z2b_mod z : z2b (z mod 256) = z2b z.
Proof. unfold z2b. rewrite Z.mod_mod by lia. reflexivity. Qed.

(** ** lengths *)
Lemma len_nil {A} : len (@nil A) = 0. Proof. reflexivity. Qed.
Lemma len_cons {A} (x : A) l : len (x :: l) = 1 + len l.
Proof. unfold len. cbn [length]. lia. Qed.
Lemma len_app {A} (a b : list A) : len (a ++ b) = len a + len b.
Proof. unfold len. rewrite app_length. lia. Qed.
Lemma len_nonneg {A} (l : list A) : 0 <= len l.
Proof. unfold len. lia. Qed.
Lemma len_rev {A} (l : list A) : len (rev l) = len l.
Proof. unfold len. rewrite rev_length. reflexivity. Qed.
Lemma len_0_nil {A} (l : list A) : len l = 0 -> l = [].
Proof. destruct l; [reflexivity|]. rewrite len_cons. pose proof (len_nonneg l). lia. Qed.

(** ** has_more / raw_take / read_slice *)
Lemma has_more_spec bs : forall n, has_more bs n = (n <=? len bs).
Proof.
  induction bs as [|b t IH]; intros n; cbn [has_more].
  - change (len (@nil byte)) with 0. destruct (n <=? 0); reflexivity.
  - rewrite len_cons. pose proof (len_nonneg t).
    destruct (Z.leb_spec n 0).
    + symmetry. apply Z.leb_le. lia.
    + rewrite IH. destruct (Z.leb_spec (n - 1) (len t)); symmetry; [apply Z.leb_le|apply Z.leb_gt]; lia.
Qed.

Lemma raw_take_0 bs n : n <= 0 -> raw_take bs n = Some ([], bs).
Proof. intros H. destruct bs; cbn [raw_take]; destruct (Z.leb_spec n 0); try lia; reflexivity. Qed.

Lemma raw_take_app a : forall r, raw_take (a ++ r) (len a) = Some (a, r).
Proof.
  induction a as [|b a IH]; intros r.
  - apply raw_take_0. change (len (@nil byte)) with 0. lia.
  - cbn [app raw_take]. rewrite len_cons. pose proof (len_nonneg a).
    destruct (Z.leb_spec (1 + len a) 0); [lia|].
    replace (1 + len a - 1) with (len a) by lia. rewrite IH. reflexivity.
Qed.

Lemma raw_take_some bs : forall n a r, raw_take bs n = Some (a, r) -> bs = a ++ r /\ len a = Z.max 0 n.
Proof.
  induction bs as [|b t IH]; intros n a r; cbn [raw_take].
  - destruct (Z.leb_spec n 0); [|discriminate]. intros Hq; inversion Hq; subst. split; [reflexivity|]. change (len (@nil byte)) with 0. lia.
  - destruct (Z.leb_spec n 0).
    + intros Hq; inversion Hq; subst. split; [reflexivity|]. change (len (@nil byte)) with 0. lia.
    + destruct (raw_take t (n - 1)) as [[a' r']|] eqn:E; [|discriminate].
      intros Hq; inversion Hq; subst. apply IH in E. destruct E as [-> El].
      split; [reflexivity|]. rewrite len_cons. lia.
Qed.

Lemma raw_take_has_more bs : forall n, has_more bs n = true -> raw_take bs n <> None.
Proof.
  induction bs as [|b t IH]; intros n; cbn [has_more raw_take].
  - destruct (n <=? 0); [discriminate|]. intros H; discriminate.
  - destruct (n <=? 0); [discriminate|]. intros H. apply IH in H.
    destruct (raw_take t (n - 1)) as [[? ?]|]; [discriminate|contradiction].
Qed.

Lemma read_slice_app a r : read_slice (len a) (a ++ r) = Value a r.
Proof.
  unfold read_slice. rewrite has_more_spec, len_app. pose proof (len_nonneg r).
  destruct (Z.leb_spec (len a) (len a + len r)); [|lia]. rewrite raw_take_app. reflexivity.
Qed.

Lemma read_slice_app' n a r : n = len a -> read_slice n (a ++ r) = Value a r.
Proof. intros ->. apply read_slice_app. Qed.

Lemma read_slice_all a : read_slice (len a) a = Value a [].
Proof. rewrite <- (app_nil_r a) at 2. apply read_slice_app. Qed.

Lemma read_slice_inv n bs a r : read_slice n bs = Value a r -> bs = a ++ r /\ len a = Z.max 0 n.
Proof.
  unfold read_slice. destruct (has_more bs n); [|discriminate].
  destruct (raw_take bs n) as [[a' r']|] eqn:E; [|discriminate].
  intros Hq; inversion Hq; subst. eapply raw_take_some; eassumption.
Qed.

(** ** safety plumbing *)
Lemma safe_value {A} bs (x : A) : safe bs (Value x bs).
Proof. exists []. reflexivity. Qed.

Lemma safe_bind {A B} bs (r : res A) (f : A -> list byte -> res B) :
  safe bs r -> (forall x rest, r = Value x rest -> safe rest (f x rest)) -> safe bs (bind r f).
Proof.
  destruct r as [x rest| | |]; cbn [safe bind]; intros H Hf; try assumption.
  destruct H as [pre ->]. specialize (Hf x rest eq_refl).
  destruct (f x rest) as [y rest'| | |]; cbn [safe] in *; try assumption.
  destruct Hf as [pre' ->]. exists (pre ++ pre'). rewrite app_assoc. reflexivity.
Qed.

Lemma safe_in_sub {A} (p : list byte -> res A) d r : safe d (p d) -> safe r (in_sub p d r).
Proof.
  unfold in_sub. destruct (p d); cbn [safe]; intros H; try assumption. exists []. reflexivity.
Qed.

Lemma safe_weaken {A} pre bs (r : res A) : safe bs r -> safe (pre ++ bs) r.
Proof.
  destruct r; cbn [safe]; intros H; try assumption. destruct H as [p ->]. exists (pre ++ p). rewrite app_assoc. reflexivity.
Qed.

Lemma read_slice_safe n bs : safe bs (read_slice n bs).
Proof.
  unfold read_slice. destruct (has_more bs n) eqn:Hm; [|exact I].
  pose proof (raw_take_has_more bs n Hm) as Hn.
  destruct (raw_take bs n) as [[a r]|] eqn:E; [|contradiction].
  apply raw_take_some in E. destruct E as [-> _]. exists a. reflexivity.
Qed.

(** ** powers *)
Lemma pow2_8 n : 0 <= n -> 2 ^ (8 * n) = 256 ^ n.
Proof. intros. rewrite Z.pow_mul_r by lia. reflexivity. Qed.
Lemma pow256_pos n : 0 <= n -> 0 < 256 ^ n.
Proof. intros. apply Z.pow_pos_nonneg; lia. Qed.
Lemma pow2_pos n : 0 <= n -> 0 < 2 ^ n.
Proof. intros. apply Z.pow_pos_nonneg; lia. Qed.
Lemma pow2_double n : 0 < n -> 2 ^ n = 2 * 2 ^ (n - 1).
Proof. intros. replace n with (Z.succ (n - 1)) at 1 by lia. apply Z.pow_succ_r. lia. Qed.
Lemma pow2_mono a b : 0 <= a <= b -> 2 ^ a <= 2 ^ b.
Proof. intros. apply Z.pow_le_mono_r; lia. Qed.

(** ** big-endian values *)
Lemma be_val_acc l : forall acc, be_val l acc = acc * 256 ^ (len l) + be_val l 0.
Proof.
  induction l as [|b t IH]; intros acc; cbn [be_val].
  - change (len (@nil byte)) with 0. cbn. lia.
  - rewrite (IH (acc * 256 + b2z b)), (IH (0 * 256 + b2z b)). rewrite len_cons.
    rewrite Z.pow_add_r by (pose proof (len_nonneg t); lia). lia.
Qed.

Lemma be_val_range l : 0 <= be_val l 0 < 256 ^ (len l).
Proof.
  induction l as [|b t IH]; cbn [be_val].
  - change (len (@nil byte)) with 0. cbn. lia.
  - rewrite be_val_acc, len_cons. pose proof (b2z_range b). pose proof (len_nonneg t).
    rewrite Z.pow_add_r by lia. pose proof (pow256_pos (len t) ltac:(lia)). nia.
Qed.

Lemma be_val_app l1 l2 acc : be_val (l1 ++ l2) acc = be_val l2 (be_val l1 acc).
Proof. revert acc. induction l1 as [|b t IH]; intros acc; cbn [app be_val]; [reflexivity|apply IH]. Qed.

Lemma be_bytes_length n : forall v, length (be_bytes n v) = n.
Proof. induction n as [|k IH]; intros v; cbn [be_bytes]; [reflexivity|]. rewrite app_length, IH. cbn. lia. Qed.

Lemma len_be_bytes n v : len (be_bytes n v) = Z.of_nat n.
Proof. unfold len. rewrite be_bytes_length. reflexivity. Qed.

Lemma len_write_be n v : 0 <= n -> len (write_be n v) = n.
Proof. intros. unfold write_be. rewrite len_be_bytes. lia. Qed.

Lemma be_val_be_bytes n : forall v, be_val (be_bytes n v) 0 = v mod 256 ^ (Z.of_nat n).
Proof.
  induction n as [|k IH]; intros v; cbn [be_bytes].
  - cbn. rewrite Z.mod_1_r. reflexivity.
  - rewrite be_val_app, IH. cbn [be_val]. rewrite b2z_z2b.
    replace (Z.of_nat (S k)) with (1 + Z.of_nat k) by lia.
    rewrite Z.pow_add_r by lia. change (256 ^ 1) with 256.
    rewrite Z.rem_mul_r by (pose proof (pow256_pos (Z.of_nat k)); lia). lia.
Qed.

Lemma be_val_write_be n v : 0 <= n -> be_val (write_be n v) 0 = v mod 2 ^ (8 * n).
Proof. intros. unfold write_be. rewrite be_val_be_bytes, Z2Nat.id, pow2_8 by lia. reflexivity. Qed.

Lemma be_bytes_be_val d : be_bytes (length d) (be_val d 0) = d.
Proof.
  induction d as [|b d IH] using rev_ind; [reflexivity|].
  rewrite app_length. cbn [length]. rewrite Nat.add_1_r. cbn [be_bytes].
  rewrite be_val_app. cbn [be_val]. pose proof (b2z_range b).
  replace ((be_val d 0 * 256 + b2z b) / 256) with (be_val d 0).
  2:{ symmetry. rewrite Z.div_add_l by lia. rewrite Z.div_small by lia. lia. }
  rewrite IH. f_equal. f_equal. rewrite <- z2b_mod.
  rewrite Z.add_comm, Z.mod_add by lia. rewrite Z.mod_small by lia. apply z2b_b2z.
Qed.

Lemma be_bytes_mod n : forall v, be_bytes n (v mod 256 ^ Z.of_nat n) = be_bytes n v.
Proof.
  intros v. rewrite <- be_val_be_bytes.
  rewrite <- (be_bytes_length n v) at 1. apply be_bytes_be_val.
Qed.

(** ** wrap *)
Lemma mod_neg_once v N : - N <= v < 0 -> v mod N = v + N.
Proof. intros. symmetry. apply Z.mod_unique with (q := -1); lia. Qed.

Lemma wrap_small bits s m : 0 < bits -> 0 <= m < 2 ^ (bits - 1) -> wrap bits s m = m.
Proof.
  intros Hb Hm. unfold wrap. pose proof (pow2_double bits Hb).
  rewrite Z.mod_small by lia.
  destruct (Z.leb_spec (2 ^ (bits - 1)) m); [lia|]. rewrite andb_false_r. reflexivity.
Qed.

Lemma wrap_unsigned bits m : 0 <= m < 2 ^ bits -> wrap bits false m = m.
Proof. intros. unfold wrap. cbn [andb]. apply Z.mod_small. assumption. Qed.

Lemma wrap_signed_rt bits v : 0 < bits -> - 2 ^ (bits - 1) <= v < 2 ^ (bits - 1) -> wrap bits true (v mod 2 ^ bits) = v.
Proof.
  intros Hb Hv. unfold wrap. rewrite Z.mod_mod by (pose proof (pow2_pos bits); lia).
  pose proof (pow2_double bits Hb) as Hd. cbn [andb].
  destruct (Z_lt_le_dec v 0).
  - rewrite mod_neg_once by lia. destruct (Z.leb_spec (2 ^ (bits - 1)) (v + 2 ^ bits)); lia.
  - rewrite Z.mod_small by lia. destruct (Z.leb_spec (2 ^ (bits - 1)) v); lia.
Qed.

Lemma wrap_range bits (s : bool) v : 0 < bits ->
  (if s then - 2 ^ (bits - 1) else 0) <= wrap bits s v < (if s then 2 ^ (bits - 1) else 2 ^ bits).
Proof.
  intros Hb. unfold wrap. pose proof (pow2_double bits Hb).
  pose proof (Z.mod_pos_bound v (2 ^ bits) (pow2_pos bits ltac:(lia))).
  destruct s; cbn [andb]; [|lia].
  destruct (Z.leb_spec (2 ^ (bits - 1)) (v mod 2 ^ bits)); lia.
Qed.

(** reading back [n] bytes of a value in the range of readBE<T>(.., n) *)
Lemma wrap_t_rt t n v : 0 < n <= ibytes t -> in_be_range t n v = true ->
  wrap_t t (v mod 2 ^ (8 * n)) = v.
Proof.
  intros Hn Hr. unfold in_be_range, be_lo, be_hi in Hr. unfold wrap_t.
  apply andb_true_iff in Hr. destruct Hr as [Hlo Hhi]. apply Z.leb_le in Hlo. apply Z.ltb_lt in Hhi.
  destruct (isigned t && (n =? ibytes t)) eqn:E.
  - apply andb_true_iff in E. destruct E as [Es En]. apply Z.eqb_eq in En. rewrite Es. subst n.
    apply wrap_signed_rt; lia.
  - rewrite Z.mod_small by lia.
    destruct (isigned t) eqn:Es.
    + cbn [andb] in E. apply Z.eqb_neq in E.
      apply wrap_small; [lia|]. split; [lia|].
      eapply Z.lt_le_trans; [exact Hhi|]. apply pow2_mono. lia.
    + apply wrap_unsigned. split; [lia|]. eapply Z.lt_le_trans; [exact Hhi|]. apply pow2_mono. lia.
Qed.

Lemma wrap_t_in_range t n m : 0 < n <= ibytes t -> 0 <= m < 2 ^ (8 * n) -> in_be_range t n (wrap_t t m) = true.
Proof.
  intros Hn Hm. unfold in_be_range, be_lo, be_hi, wrap_t.
  destruct (isigned t && (n =? ibytes t)) eqn:E.
  - apply andb_true_iff in E. destruct E as [Es En]. apply Z.eqb_eq in En. rewrite Es. subst n.
    pose proof (wrap_range (8 * ibytes t) true m ltac:(lia)) as W. cbn beta iota in W.
    apply andb_true_iff. split; [apply Z.leb_le|apply Z.ltb_lt]; lia.
  - destruct (isigned t) eqn:Es.
    + cbn [andb] in E. apply Z.eqb_neq in E.
      rewrite wrap_small; [|lia|].
      * apply andb_true_iff. split; [apply Z.leb_le|apply Z.ltb_lt]; lia.
      * split; [lia|]. eapply Z.lt_le_trans; [apply Hm|]. apply pow2_mono. lia.
    + rewrite wrap_unsigned.
      * apply andb_true_iff. split; [apply Z.leb_le|apply Z.ltb_lt]; lia.
      * split; [lia|]. eapply Z.lt_le_trans; [apply Hm|]. apply pow2_mono. lia.
Qed.

(** ** trimmedArray *)
Lemma shiftr_eq0 v k : 0 <= k -> (Z.shiftr v k =? 0) = true -> 0 <= v < 2 ^ k.
Proof.
  intros Hk H. apply Z.eqb_eq in H. rewrite Z.shiftr_div_pow2 in H by lia.
  pose proof (pow2_pos k Hk) as Hp. apply Z.div_small_iff in H; lia.
Qed.

Lemma shiftr_neq0_neg v k : 0 <= k -> v < 0 -> (Z.shiftr v k =? 0) = false.
Proof.
  intros Hk Hv. apply Z.eqb_neq. rewrite Z.shiftr_div_pow2 by lia. pose proof (pow2_pos k Hk) as Hp.
  intros Hd. apply Z.div_small_iff in Hd; lia.
Qed.

Lemma shiftr_neq0 v k : 0 <= k -> 0 <= v -> (Z.shiftr v k =? 0) = false -> 2 ^ k <= v.
Proof.
  intros Hk Hv H. apply Z.eqb_neq in H. rewrite Z.shiftr_div_pow2 in H by lia. pose proof (pow2_pos k Hk) as Hp.
  destruct (Z_lt_le_dec v (2 ^ k)); [|assumption]. exfalso. apply H. apply Z.div_small. lia.
Qed.

Lemma trim_x_range k v : 1 <= trim_x k v <= Z.of_nat k + 1.
Proof.
  induction k as [|k IH]; cbn [trim_x]; [lia|].
  destruct (Z.shiftr v (8 * Z.of_nat (S k)) =? 0); lia.
Qed.

Lemma trim_x_neg k v : v < 0 -> trim_x k v = Z.of_nat k + 1.
Proof.
  intros Hv. destruct k as [|k]; cbn [trim_x]; [reflexivity|].
  rewrite shiftr_neq0_neg by lia. reflexivity.
Qed.

(** for non-negative v the result is the minimal byte count (at least 1) *)
Lemma trim_x_upper k v : 0 <= v < 2 ^ (8 * (Z.of_nat k + 1)) -> v < 2 ^ (8 * trim_x k v).
Proof.
  induction k as [|k IH]; cbn [trim_x]; intros Hv; [exact (proj2 Hv)|].
  destruct (Z.shiftr v (8 * Z.of_nat (S k)) =? 0) eqn:E.
  - apply shiftr_eq0 in E; [|lia]. apply IH. replace (8 * (Z.of_nat k + 1)) with (8 * Z.of_nat (S k)) by lia. exact E.
  - exact (proj2 Hv).
Qed.

Lemma trim_x_minimal k v j : 0 <= v < 2 ^ (8 * j) -> 1 <= j -> trim_x k v <= Z.max j 1 \/ trim_x k v <= j.
Proof.
  intros Hv Hj. right. induction k as [|k IH]; cbn [trim_x]; [lia|].
  destruct (Z.shiftr v (8 * Z.of_nat (S k)) =? 0) eqn:E; [exact IH|].
  apply shiftr_neq0 in E; [|lia|lia].
  destruct (Z_lt_le_dec j (Z.of_nat (S k) + 1)); [|lia].
  exfalso. assert (2 ^ (8 * j) <= 2 ^ (8 * Z.of_nat (S k))) by (apply pow2_mono; lia). lia.
Qed.

Lemma trim_x_le k v j : 0 <= v < 2 ^ (8 * j) -> 1 <= j -> trim_x k v <= j.
Proof. intros. destruct (trim_x_minimal k v j); try assumption. lia. Qed.

Lemma len_trimmed v : len (trimmed_array v) = trim_x 7 v.
Proof. unfold trimmed_array. rewrite len_be_bytes. pose proof (trim_x_range 7 v). lia. Qed.

(** reading the trimmed bytes of an int64 back as int64 *)
Lemma trimmed_rt64 v : - 2 ^ 63 <= v < 2 ^ 63 ->
  wrap_t I64 (be_val (trimmed_array v) 0) = v.
Proof.
  intros Hv. unfold trimmed_array. pose proof (trim_x_range 7 v) as Hr.
  rewrite be_val_be_bytes, Z2Nat.id by lia. rewrite <- pow2_8 by lia.
  destruct (Z_lt_le_dec v 0).
  - rewrite trim_x_neg by assumption. change (Z.of_nat 7 + 1) with 8.
    apply (wrap_signed_rt 64); lia.
  - assert (v < 2 ^ (8 * trim_x 7 v)).
    { apply trim_x_upper. change (8 * (Z.of_nat 7 + 1)) with 64. split; [lia|].
      eapply Z.lt_le_trans; [apply Hv|]. apply pow2_mono. lia. }
    rewrite Z.mod_small by lia. unfold wrap_t. cbn [ibytes isigned I64]. change (8 * 8) with 64.
    rewrite <- (Z.mod_small v (2 ^ 64)) at 1 by (split; [lia|]; eapply Z.lt_le_trans; [apply Hv|]; apply pow2_mono; lia).
    apply (wrap_signed_rt 64); lia.
Qed.

(** reading the trimmed bytes of a non-negative value below 2^31 back as int32 *)
Lemma trimmed_rt32 v : 0 <= v < 2 ^ 31 ->
  trim_x 7 v <= 4 /\ wrap_t I32 (be_val (trimmed_array v) 0) = v.
Proof.
  intros Hv. pose proof (trim_x_range 7 v) as Hr.
  assert (Hle : trim_x 7 v <= 4).
  { apply trim_x_le; [|lia]. split; [lia|]. eapply Z.lt_le_trans; [apply Hv|]. apply pow2_mono. lia. }
  split; [exact Hle|].
  unfold trimmed_array. rewrite be_val_be_bytes, Z2Nat.id by lia. rewrite <- pow2_8 by lia.
  assert (v < 2 ^ (8 * trim_x 7 v)).
  { apply trim_x_upper. change (8 * (Z.of_nat 7 + 1)) with 64. split; [lia|].
    eapply Z.lt_le_trans; [apply Hv|]. apply pow2_mono. lia. }
  rewrite Z.mod_small by lia. unfold wrap_t. cbn [ibytes isigned I32]. change (8 * 4) with 32.
  apply wrap_small; [lia|]. change (32 - 1) with 31. lia.
Qed.
