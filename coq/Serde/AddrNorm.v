(** Serde layer: which address wire forms the deserializer accepts, stated over
    the address model of property C18 (coq/Text/AddressDefs.v, Base58/59Defs.v):
    [addr_norm_c18 sha256 ty bytes] rebuilds the text with EncodeBase58 (ty = 1)
    or EncodeBase59 (ty = 3), runs Address::fromString on it — which derives the
    address type from the TEXT — and decodes the text with the alphabet of that
    type. This is the function the Section variable [addr_norm] of EntityDefs.v
    stands for (the OCaml driver implements the same steps).
    Proved here: the shape of the result (type byte 1 or 3, accepted iff
    fromString accepts the rebuilt text). NOT discharged here: the idempotence
    and length parts of [addr_norm_sound] (they need the base58/base59
    re-encoding theorems of C18 on texts without blanks). *)
From Coq Require Import ZArith List Bool.
From VB Require Import Serde.StreamDefs Text.TextCommon Text.Base58Defs Text.Base59Defs Text.AddressDefs.
Import ListNotations.
Local Open Scope Z_scope.

Section AddrNorm.
  Variable sha256 : list Z -> list Z.

  Definition text_of_wire (ty : Z) (b : list byte) : outcome (list Z) :=
    if ty =? ADDR_STANDARD then b58_encode (map b2z b)
    else if ty =? ADDR_MULTISIG then Ok (b59_encode (map b2z b))
    else TextCommon.Invalid.

  Definition addr_norm_c18 (ty : Z) (b : list byte) : option (Z * list byte) :=
    match text_of_wire ty b with
    | Ok text =>
      match addr_from_string sha256 text with
      | Ok a =>
        match (if AddressDefs.addr_type a =? ADDR_MULTISIG then b59_decode text else b58_decode text) with
        | Ok v => Some (AddressDefs.addr_type a, map z2b v)
        | _ => None
        end
      | _ => None
      end
    | _ => None
    end.

  (** accepted wire forms: exactly those whose rebuilt text passes Address::fromString (and decodes) *)
  Lemma addr_norm_c18_accepts ty b t' b' : addr_norm_c18 ty b = Some (t', b') ->
    exists text a, text_of_wire ty b = Ok text /\ addr_from_string sha256 text = Ok a /\
                   t' = AddressDefs.addr_type a /\ (ty = ADDR_STANDARD \/ ty = ADDR_MULTISIG).
  Proof.
    unfold addr_norm_c18. destruct (text_of_wire ty b) as [text| |] eqn:Et; try discriminate.
    destruct (addr_from_string sha256 text) as [a| |] eqn:Ea; try discriminate.
    destruct (if AddressDefs.addr_type a =? ADDR_MULTISIG then b59_decode text else b58_decode text) as [v| |]; try discriminate.
    intros H. inversion H; subst. exists text, a. repeat split; try assumption.
    unfold text_of_wire in Et. destruct (Z.eqb_spec ty ADDR_STANDARD); [left; assumption|].
    destruct (Z.eqb_spec ty ADDR_MULTISIG); [right; assumption|discriminate].
  Qed.
End AddrNorm.
