(** Serde layer: MerklePath — the canonical raw encoding is bounded structurally
    (<= 40 layers of 33 bytes), so [fits] follows from [wfd]. *)
From Coq Require Import ZArith List Bool Lia.
From VB Require Import Gen.Consts Serde.StreamDefs Serde.CodecSpec Serde.StreamLemmas Serde.StreamProofs
  Serde.EntityDefs Serde.EntityProofs Serde.FitsProofs.
Import ListNotations.
Local Open Scope Z_scope.

Lemma sum_const {A} (c : codec A) k : const_size c k -> forall xs, forallb (wfd c) xs = true ->
  sumZ (map (esize c) xs) = k * len xs.
Proof.
  intros Hc. induction xs as [|x xs IH]; intros Hw; cbn [map sumZ].
  - change (len (@nil A)) with 0. lia.
  - cbn [forallb] in Hw. apply andb_true_iff in Hw. destruct Hw as [Hx Hxs].
    rewrite (Hc _ Hx), (IH Hxs), len_cons. lia.
Qed.

Lemma sbl_const n : const_size (c_sbl n n) (1 + n).
Proof.
  intros x Hw. cbn [c_sbl wfd esize] in *. apply andb3 in Hw. destruct Hw as (H1 & H2 & _).
  apply Z.leb_le in H1, H2. unfold sbl_size. lia.
Qed.

Lemma wfd_pair_inv {A B} (ca : codec A) (cb : codec B) a b :
  wfd (c_pair ca cb) (a, b) = true -> wfd ca a = true /\ wfd cb b = true.
Proof. cbn [c_pair wfd fst snd]. intros H. apply andb_true_iff in H. exact H. Qed.
Lemma esize_pair {A B} (ca : codec A) (cb : codec B) a b : esize (c_pair ca cb) (a, b) = esize ca a + esize cb b.
Proof. reflexivity. Qed.
Lemma wfd_counted_inv {A} cc mid (c : codec A) xs :
  wfd (c_counted cc mid c) xs = true -> wfd cc (len xs) = true /\ forallb (wfd c) xs = true.
Proof. cbn [c_counted wfd]. intros H. apply andb_true_iff in H. exact H. Qed.
Lemma esize_counted {A} cc mid (c : codec A) xs :
  esize (c_counted cc mid c) xs = esize cc (len xs) + esize mid tt + sumZ (map (esize c) xs).
Proof. reflexivity. Qed.
Lemma esize_mid : esize c_merkle_mid tt = 9.
Proof. reflexivity. Qed.
Lemma esize_fixed32 v : esize (c_single_fixed_be I32) v = 5.
Proof. reflexivity. Qed.
Lemma esize_count_fixed32 mn mx v : esize (c_count_fixed32 mn mx) v = 5.
Proof. reflexivity. Qed.
Lemma count_fixed32_le mn mx n : mx < 2 ^ 31 -> wfd (c_count_fixed32 mn mx) n = true -> n <= mx.
Proof.
  intros Hm H. cbn [c_count_fixed32 c_refine wfd c_single_fixed_be] in H. apply andb_true_iff in H. destruct H as [Hr Hc].
  apply in_range_i32 in Hr. destruct (check_range_i32 _ _ _ Hm Hr Hc) as (_ & Hle & _). lia.
Qed.

Lemma merklepath_raw_size x : wfd c_merklepath_raw x = true ->
  esize c_merklepath_raw x <= 19 + 33 * MAX_LAYER_COUNT_MERKLE.
Proof.
  destruct x as [i ls]. unfold c_merklepath_raw. intros Hw.
  change (wfd (c_pair (c_single_fixed_be I32)
            (c_counted (c_count_fixed32 0 MAX_LAYER_COUNT_MERKLE) c_merkle_mid (c_sbl SHA256_HASH_SIZE SHA256_HASH_SIZE)))
            (i, ls) = true) in Hw.
  change (esize (c_pair (c_single_fixed_be I32)
            (c_counted (c_count_fixed32 0 MAX_LAYER_COUNT_MERKLE) c_merkle_mid (c_sbl SHA256_HASH_SIZE SHA256_HASH_SIZE)))
            (i, ls) <= 19 + 33 * MAX_LAYER_COUNT_MERKLE).
  apply wfd_pair_inv in Hw. destruct Hw as [_ Hw]. apply wfd_counted_inv in Hw. destruct Hw as [Hn Hls].
  apply count_fixed32_le in Hn; [|vm_compute; reflexivity].
  rewrite esize_pair, esize_counted, esize_fixed32, esize_count_fixed32, esize_mid.
  rewrite (sum_const _ _ (sbl_const SHA256_HASH_SIZE) _ Hls).
  change SHA256_HASH_SIZE with 32. lia.
Qed.

Lemma merklepath_raw_fits x : fits c_merklepath_raw x = true.
Proof.
  destruct x as [i ls]. cbn [c_merklepath_raw c_iso c_pair c_counted fits fst snd mp_index mp_layers c_single_fixed_be tt_true andb].
  apply forallb_tt.
Qed.

Lemma merklepath_fits x : wfd c_merklepath x = true -> fits c_merklepath x = true.
Proof.
  intros Hw. cbn [c_merklepath c_nested wfd fits] in *. rewrite merklepath_raw_fits. cbn [andb].
  pose proof (ok_size _ c_merklepath_raw_ok x Hw (merklepath_raw_fits x)) as Hs.
  pose proof (merklepath_raw_size x Hw) as Hb. rewrite Hs in Hb.
  cbn [c_var_len wfd]. pose proof (len_nonneg (enc c_merklepath_raw x)).
  apply andb_true_iff. split; apply Z.leb_le; [lia|].
  eapply Z.le_trans; [exact Hb|]. vm_compute. discriminate.
Qed.

Lemma merklepath_full : c11_full c_merklepath.
Proof. apply c11_full_of; [apply c_merklepath_ok|apply merklepath_fits]. Qed.
