(** Serde layer: the premise [addr_norm_sound] of the address-carrying codec theorems
    (EntityDefs.v) discharged for the CONCRETE normalisation [addr_norm_c18] of
    AddrNorm.v, i.e. for what DeserializeFromVbkEncoding(Address) computes: bytes ->
    EncodeBase58|59 by the wire type -> Address::fromString (length, 'V', alphabet,
    multisig m/n, checksum; the type is derived from the TEXT) -> DecodeBase58|59 by that
    type. Only sha256 stays abstract, with NO premise about it.

    Argument (text-only, so that it also covers the wire forms whose type byte disagrees
    with the text, e.g. wire type 3 whose base59 text does not end in '0'):
    - every character EncodeBase58/EncodeBase59 emit is a byte and not a space (for
      EncodeBase59 this holds for inputs of ANY length, also where the size_t counter of
      the leading-'1' loop would wrap);
    - for a text [s] without spaces that fromString accepts with type [t] and whose
      decoding by [t] is [w]: [w] has at most |s| = 30 bytes, and re-encoding [w] by [t]
      gives [s] back (C18 converse round trips b58_decode_encode / b59_encode_decode);
    - hence normalising (t, w) again rebuilds the same text, the same Address, the same
      decoding. *)
From Coq Require Import ZArith List Bool Lia.
From VB Require Import Gen.Consts Gen.TextTables Serde.StreamDefs Serde.StreamLemmas Serde.EntityDefs Serde.AddrNorm
  Text.TextCommon Text.Base58Defs Text.Base58Proofs Text.Base58Proofs3 Text.Base58Proofs4 Text.Base58Proofs5
  Text.AddressDefs Text.AddressProofs Text.AddressProofs2.
From VB Require Text.Base59Defs Text.Base59Proofs Text.Base59Proofs2.
Import ListNotations.
Local Open Scope Z_scope.

(** * list byte <-> list Z *)
Lemma map_b2z_bytes (b : list byte) : bytes (map b2z b).
Proof.
  unfold bytes. apply Forall_forall. intros x Hx. apply in_map_iff in Hx.
  destruct Hx as [y [<- _]]. unfold is_byte. apply b2z_range.
Qed.

Lemma map_b2z_z2b (w : list Z) : bytes w -> map b2z (map z2b w) = w.
Proof.
  unfold bytes. induction w as [|x r IH]; intros H; [reflexivity|].
  inversion H as [|? ? Hx Hr]; subst. cbn [map]. rewrite IH by exact Hr.
  rewrite b2z_z2b_small by exact Hx. reflexivity.
Qed.

(** * characters of the encoders: bytes, never a space *)
Definition plain (c : Z) : Prop := is_byte c /\ is_space c = false.

Lemma b59_char_plain m : plain (Base59Defs.char_of_digit m).
Proof.
  unfold Base59Defs.char_of_digit.
  destruct (nth_in_or_default (Z.to_nat m) b59_alphabet 0) as [Hin|E].
  - split.
    + pose proof Base59Proofs.b59_alphabet_lt128 as A. rewrite Forall_forall in A.
      specialize (A _ Hin). cbv beta in A. unfold is_byte. lia.
    + pose proof b59_alphabet_no_space_nul_all as A. rewrite forallb_forall in A.
      specialize (A _ Hin). apply andb_true_iff in A. destruct A as [A1 _].
      apply negb_true_iff in A1. exact A1.
  - rewrite E. split; [unfold is_byte; lia|reflexivity].
Qed.

Lemma b59_enc_loop_plain : forall j input st acc r j',
  Forall plain acc -> Base59Defs.enc_loop j input st acc = Ok (r, j') -> Forall plain r.
Proof.
  induction j as [|j IH]; intros input st acc r j' Ha H; rewrite Base59Proofs2.enc_loop_unfold in H.
  - destruct (st <? length input)%nat; [discriminate|]. inversion H; subst. exact Ha.
  - destruct (st <? length input)%nat.
    + cbv zeta in H. eapply IH; [|exact H]. constructor; [apply b59_char_plain|exact Ha].
    + inversion H; subst. exact Ha.
Qed.

Lemma b59_strip_lead_plain x : forall acc j, Forall plain acc -> Forall plain (fst (Base59Defs.strip_lead x acc j)).
Proof.
  induction acc as [|c r IH]; intros j Ha; [exact Ha|]. cbn [Base59Defs.strip_lead].
  destruct (c =? x); [|exact Ha]. apply IH. inversion Ha; assumption.
Qed.

Lemma b59_ones_loop_plain : forall j zc acc r,
  Forall plain acc -> Base59Defs.ones_loop j zc acc = Ok r -> Forall plain r.
Proof.
  induction j as [|j IH]; intros zc acc r Ha H; rewrite Base59Proofs2.ones_loop_unfold in H.
  - destruct (zc =? Base59Defs.size_max); [|discriminate]. inversion H; subst. exact Ha.
  - destruct (zc =? Base59Defs.size_max).
    + inversion H; subst. exact Ha.
    + eapply IH; [|exact H]. constructor; [apply b59_char_plain|exact Ha].
Qed.

(** for every input, of any length *)
Lemma b59_encode_plain bs : Forall plain (Base59Defs.b59_encode bs).
Proof.
  unfold Base59Defs.b59_encode. destruct (Base59Defs.b59_encode_o bs) as [v| |] eqn:E; try constructor.
  unfold Base59Defs.b59_encode_o in E. destruct bs as [|b0 bt]; [inversion E; constructor|].
  destruct (Base59Defs.enc_loop (2 * length (b0 :: bt)) (b0 :: bt) (Base59Defs.zero_count (b0 :: bt)) [])
    as [[acc j]| |] eqn:EL; try discriminate.
  cbv zeta in E. eapply b59_ones_loop_plain; [|exact E].
  apply b59_strip_lead_plain. eapply b59_enc_loop_plain; [|exact EL]. constructor.
Qed.

Lemma b58_encode_plain bs s : bytes bs -> b58_encode bs = Ok s -> Forall plain s.
Proof.
  intros Hb E. pose proof (b58_encode_alphabet bs s Hb E) as A.
  eapply Forall_impl; [|exact A]. cbv beta. intros c Hc. split.
  - pose proof b58_map_length as L.
    destruct (in_dec Z.eq_dec c (zrange 0 256)) as [Hin|Hn].
    + clear -Hin. unfold is_byte.
      assert (G : forall n lo x, In x (zrange lo n) -> lo <= x < lo + Z.of_nat n).
      { induction n as [|n IH]; intros lo x Hx; [destruct Hx|]. cbn [zrange] in Hx.
        destruct Hx as [<-|Hx]; [lia|]. specialize (IH _ _ Hx). lia. }
      specialize (G _ _ _ Hin). lia.
    + exfalso. apply Hn. clear -Hc.
      assert (S : forallb (fun c => existsb (Z.eqb c) (zrange 0 256)) b58_alphabet = true)
        by (vm_compute; reflexivity).
      rewrite forallb_forall in S. specialize (S _ Hc). apply existsb_exists in S.
      destruct S as [y [Hy Ey]]. apply Z.eqb_eq in Ey. subst y. exact Hy.
  - apply (b58_alphabet_no_space c Hc).
Qed.

Lemma plain_bytes s : Forall plain s -> bytes s.
Proof. intros H. eapply Forall_impl; [|exact H]. intros c [Hc _]. exact Hc. Qed.

(** * output of the decoders *)
Lemma b59_decode_out s v : bytes s -> Base59Defs.b59_decode s = Ok v -> bytes v /\ (length v <= length s)%nat.
Proof.
  intros Hb E.
  assert (Hall : Forall (fun c => In c b59_alphabet) s).
  { apply Forall_forall. intros c Hc. exact (b59_ok_chars s v Hb E c Hc). }
  destruct (Base59Proofs.alphabet_text_digits s Hall) as [ds [Hds ->]].
  destruct (Base59Proofs2.b59_decode_digits ds Hds) as [bs' [E' [Hb' [_ Hl']]]].
  rewrite E' in E. injection E as <-. split.
  - apply Forall_app. split; [|apply Base59Proofs2.strip0_Forall; exact Hb'].
    apply Forall_forall. intros x Hx. apply repeat_spec in Hx. unfold is_byte. lia.
  - rewrite app_length, repeat_length, map_length.
    pose proof (Base59Proofs2.strip0_length_le bs') as L1.
    pose proof (Base59Proofs2.strip0_length ds) as L2. lia.
Qed.

(** a base58 text without spaces is the encoding of its decoding *)
Lemma b58_plain_reencodes s v : Forall plain s -> b58_decode s = Ok v ->
  bytes v /\ b58_encode v = Ok s /\ (length v <= length s)%nat.
Proof.
  intros Hp E. pose proof (plain_bytes s Hp) as Hb.
  pose proof (b58_decode_bytes s v Hb E) as Hv.
  destruct (b58_decode_encode s v Hb E) as [sp1 [body [sp2 [Es [A1 [A2 Eb]]]]]].
  assert (Nil : forall sp, all_space sp -> (forall c, In c sp -> In c s) -> sp = []).
  { intros sp A Hin. destruct sp as [|c r]; [reflexivity|exfalso].
    unfold all_space in A. inversion A as [|? ? Hc _]; subst.
    rewrite Forall_forall in Hp. destruct (Hp c (Hin c (or_introl eq_refl))) as [_ Hn]. congruence. }
  assert (E1 : sp1 = []).
  { apply Nil; [exact A1|]. intros c Hc. rewrite Es. apply in_or_app. left. exact Hc. }
  assert (E2 : sp2 = []).
  { apply Nil; [exact A2|]. intros c Hc. rewrite Es. apply in_or_app. right. apply in_or_app. right. exact Hc. }
  subst sp1 sp2. cbn [app] in Es. rewrite app_nil_r in Es. subst body.
  split; [exact Hv|]. split; [exact Eb|]. exact (b58_encode_length v s Hv Eb).
Qed.

Section AddrNormSound.
  Variable sha256 : list Z -> list Z.

  Lemma text_of_wire_plain ty b text : text_of_wire ty b = Ok text -> Forall plain text.
  Proof.
    unfold text_of_wire. destruct (ty =? ADDR_STANDARD).
    - apply b58_encode_plain, map_b2z_bytes.
    - destruct (ty =? ADDR_MULTISIG); [|discriminate]. intros H. inversion H; subst. apply b59_encode_plain.
  Qed.

  (** the heart: for an accepted text without spaces, (type of the text, its decoding) is at most
      30 bytes long and is rebuilt into the very same text *)
  Lemma accepted_text_renormalises text a w :
    Forall plain text -> addr_from_string sha256 text = Ok a ->
    (if AddressDefs.addr_type a =? ADDR_MULTISIG then Base59Defs.b59_decode text else b58_decode text) = Ok w ->
    (AddressDefs.addr_type a = ADDR_STANDARD \/ AddressDefs.addr_type a = ADDR_MULTISIG) /\
    Z.of_nat (length w) <= addr_size /\
    text_of_wire (AddressDefs.addr_type a) (map z2b w) = Ok text.
  Proof.
    intros Hp Ha Hw. pose proof (plain_bytes text Hp) as Hb.
    destruct (addr_from_string_sound sha256 text a Ha) as [_ [EL [_ [Ety _]]]].
    destruct (addr_is_multisig text); rewrite Ety in *; clear Ety.
    - change (ADDR_MULTISIG =? ADDR_MULTISIG) with true in Hw. cbv iota in Hw.
      destruct (b59_decode_out text w Hb Hw) as [Hv Hl].
      split; [right; reflexivity|]. split; [lia|].
      unfold text_of_wire. change (ADDR_MULTISIG =? ADDR_STANDARD) with false.
      change (ADDR_MULTISIG =? ADDR_MULTISIG) with true. cbv iota.
      rewrite (map_b2z_z2b w Hv). f_equal.
      apply Base59Proofs2.b59_encode_decode; [exact Hb| |exact Hw].
      rewrite EL. vm_compute. discriminate.
    - change (ADDR_STANDARD =? ADDR_MULTISIG) with false in Hw. cbv iota in Hw.
      destruct (b58_plain_reencodes text w Hp Hw) as [Hv [Ee Hl]].
      split; [left; reflexivity|]. split; [lia|].
      unfold text_of_wire. change (ADDR_STANDARD =? ADDR_STANDARD) with true. cbv iota.
      rewrite (map_b2z_z2b w Hv). exact Ee.
  Qed.

  (** [addr_norm_sound] holds for the concrete normalisation, for every sha256 *)
  Theorem addr_norm_c18_sound : addr_norm_sound (addr_norm_c18 sha256).
  Proof.
    unfold addr_norm_sound. intros ty b t' b' H. unfold addr_norm_c18 in H.
    destruct (text_of_wire ty b) as [text| |] eqn:Et; try discriminate.
    destruct (addr_from_string sha256 text) as [a| |] eqn:Ea; try discriminate.
    destruct (if AddressDefs.addr_type a =? ADDR_MULTISIG then Base59Defs.b59_decode text else b58_decode text)
      as [w| |] eqn:Ew; try discriminate.
    inversion H; subst t' b'. clear H.
    pose proof (text_of_wire_plain ty b text Et) as Hp.
    destruct (accepted_text_renormalises text a w Hp Ea Ew) as [Hty [Hl Hre]].
    split; [|split].
    - destruct Hty as [-> | ->]; vm_compute; split; congruence.
    - unfold len. rewrite map_length. change VBK_ADDRESS_SIZE with addr_size. exact Hl.
    - unfold addr_norm_c18. rewrite Hre, Ea, Ew. reflexivity.
  Qed.
End AddrNormSound.
