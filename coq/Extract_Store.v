Require Extraction.
Require Import ExtrOcamlBasic.
From Coq Require Import ZArith NArith List.
From VB Require Import Store.SaveLoadDefs Store.FinalizeDefs Store.StackDefs.
Extraction "Store_model.ml" Nat.pred N.succ Z.succ
  finalizeBlocks finalizeBlockImpl sp_finalize stack_finalize outdated descends cmp_shortcut setTip flookup
  run step save load init storage0 prims_fixed prims_v0 dirty_ids status_word full_dump lookup.
