(** C17 — property theorems only; each closed by [exact] of a lemma proved in Conc/CacheProofs.v.
    The vProgPoW kernel [hash], the epoch entry builder [mk] (light cache + DAG), the epoch function [ep] and the
    header-cache key [hk] (sha256twice) are universally quantified pure functions; the value every request
    must produce is [f h = hash h (mk (ep h))].  [hk] is assumed injective (sha256d collision-freeness).
    Clock readings are inputs of the operations and arbitrary. *)
From Coq Require Import List Bool NArith.
From VB Require Import Conc.ValidatorDefs Conc.CacheDefs Conc.CacheProofs.
Import ListNotations.

(** every value returned by progPowHash equals f(header): for every number of threads, every interleaving of the
    lock-granular steps (header-cache lookup / epoch-cache getOrDefault + kernel / header-cache insert), with
    cache clears and precomputed-hash insertions at any point - the latter under the premise [sop_ok]
    (the inserted hash is f of that header): lookup_transparent + precomputed_path_sound *)
Theorem C17_lookup_transparent :
  forall (Hdr Key Ep Ent V : Type) (hk : Hdr -> Key) (key_eqb : Key -> Key -> bool)
         (ep : Hdr -> Ep) (ep_eqb : Ep -> Ep -> bool) (mk : Ep -> Ent) (hash : Hdr -> Ent -> V),
    (forall a b : Key, key_eqb a b = true <-> a = b) ->
    (forall a b : Ep, ep_eqb a b = true <-> a = b) ->
    (forall h1 h2 : Hdr, hk h1 = hk h2 -> h1 = h2) ->
    forall (size : nat) (tw : N) (maxsize elast nthreads : nat) (ops : list (sop Hdr V)) (t : nat) (h : Hdr) (v : V),
      Forall (sop_ok Hdr Ep Ent V ep mk hash) ops ->
      let s := sys_run Hdr Key Ep Ent V hk key_eqb ep ep_eqb mk hash size tw maxsize elast ops
                       (sys_init Hdr Key Ep Ent V nthreads) in
      nth_error (thr Hdr Key Ep Ent V s) t = Some (TRet Hdr V h v) -> v = f Hdr Ep Ent V ep mk hash h.
Proof. exact lookup_transparent_lemma. Qed.
Print Assumptions C17_lookup_transparent.

(** capacity: never more than Size epoch entries / maxSize+elasticity header entries, no duplicate keys *)
Theorem C17_capacity :
  forall (Hdr Key Ep Ent V : Type) (hk : Hdr -> Key) (key_eqb : Key -> Key -> bool)
         (ep : Hdr -> Ep) (ep_eqb : Ep -> Ep -> bool) (mk : Ep -> Ent) (hash : Hdr -> Ent -> V),
    (forall a b : Key, key_eqb a b = true <-> a = b) ->
    (forall a b : Ep, ep_eqb a b = true <-> a = b) ->
    (forall h1 h2 : Hdr, hk h1 = hk h2 -> h1 = h2) ->
    forall (size : nat) (tw : N) (maxsize elast nthreads : nat) (ops : list (sop Hdr V)),
      Forall (sop_ok Hdr Ep Ent V ep mk hash) ops ->
      let s := sys_run Hdr Key Ep Ent V hk key_eqb ep ep_eqb mk hash size tw maxsize elast ops
                       (sys_init Hdr Key Ep Ent V nthreads) in
      length (ethc Hdr Key Ep Ent V s) <= size /\
      NoDup (map (ikey Ep Ent) (ethc Hdr Key Ep Ent V s)) /\
      (maxsize = 0 \/ length (hdrc Hdr Key Ep Ent V s) <= maxsize + elast) /\
      NoDup (map fst (hdrc Hdr Key Ep Ent V s)).
Proof. exact capacity_lemma. Qed.
Print Assumptions C17_capacity.

(** SmallLFRUCache alone: for every sequence of getOrDefault/clear with arbitrary clock readings, every answer
    is the factory's value for that key, whatever the eviction rule picked *)
Theorem C17_lfru_transparent :
  forall (Ep Ent : Type) (ep_eqb : Ep -> Ep -> bool) (mk : Ep -> Ent),
    (forall a b : Ep, ep_eqb a b = true <-> a = b) ->
    forall (size : nat) (tw : N) (ops : list (lfru_op Ep)) (l : list (item Ep Ent)),
      lfru_ok Ep Ent mk size l ->
      fst (lfru_run Ep Ent ep_eqb mk size tw ops l) = lfru_expected Ep Ent mk ops /\
      lfru_ok Ep Ent mk size (snd (lfru_run Ep Ent ep_eqb mk size tw ops l)).
Proof. exact lfru_transparent_lemma. Qed.
Print Assumptions C17_lfru_transparent.

(** lru11::Cache alone: a hit returns f of the requested header as long as only graph-of-f pairs were inserted *)
Theorem C17_lru_hit_sound :
  forall (Hdr Key Ep Ent V : Type) (hk : Hdr -> Key) (key_eqb : Key -> Key -> bool)
         (ep : Hdr -> Ep) (mk : Ep -> Ent) (hash : Hdr -> Ent -> V),
    (forall a b : Key, key_eqb a b = true <-> a = b) ->
    (forall h1 h2 : Hdr, hk h1 = hk h2 -> h1 = h2) ->
    forall (maxsize elast : nat) (h : Hdr) (l : list (Key * V)) (o : option V) (l' : lru Key V),
      lru_ok Hdr Key Ep Ent V hk ep mk hash maxsize elast l ->
      lru_try_get Key V key_eqb (hk h) l = (o, l') ->
      lru_ok Hdr Key Ep Ent V hk ep mk hash maxsize elast l' /\
      (forall v : V, o = Some v -> v = f Hdr Ep Ent V ep mk hash h).
Proof. exact lru_try_get_ok. Qed.
Print Assumptions C17_lru_hit_sound.

(** VbkBlock::hash_: for every sequence of setters / getHash / setPrecalculatedHash / deserialisation INTO the same
    object (with the all-zero default or a precalculated hash) / copy-move assignment - every supplied hash being
    the true hash of the content it is attached to, every assigned-from block being consistent ([bops_ok]) -
    every getHash answer is f of the current content *)
Theorem C17_memo_transparent :
  forall (Hdr Ep Ent V : Type) (ep : Hdr -> Ep) (mk : Ep -> Ent) (hash : Hdr -> Ent -> V)
         (is_zero : V -> bool) (zero : V),
    is_zero zero = true ->
    forall (ops : list (bop Hdr V)) (b : blk Hdr V),
      blk_ok Hdr Ep Ent V ep mk hash is_zero b ->
      bops_ok Hdr Ep Ent V ep mk hash is_zero zero ops b ->
      answers_ok Hdr Ep Ent V ep mk hash is_zero zero ops b.
Proof. exact memo_transparent_lemma. Qed.
Print Assumptions C17_memo_transparent.

(** after any setter the memo is empty (and whatever follows answers f of the new content) *)
Theorem C17_setter_invalidates_memo :
  forall (Hdr Key Ep Ent V : Type) (hk : Hdr -> Key) (ep : Hdr -> Ep) (mk : Ep -> Ent)
         (hash : Hdr -> Ent -> V) (is_zero : V -> bool) (zero : V),
    (forall h1 h2 : Hdr, hk h1 = hk h2 -> h1 = h2) ->
    is_zero zero = true ->
    forall (hf : Hdr -> V) (b : blk Hdr V) (h : Hdr),
      let b' := snd (blk_step Hdr V is_zero zero hf (BSet Hdr V h) b) in
      content Hdr V b' = h /\
      is_zero (memo Hdr V b') = true /\
      blk_ok Hdr Ep Ent V ep mk hash is_zero b' /\
      (forall ops : list (bop Hdr V),
         bops_ok Hdr Ep Ent V ep mk hash is_zero zero ops b' ->
         answers_ok Hdr Ep Ent V ep mk hash is_zero zero ops b').
Proof. exact setter_invalidates_memo_lemma. Qed.
Print Assumptions C17_setter_invalidates_memo.

(** deserialising into an existing object overwrites the memo with the supplied hash (all-zero default = empty),
    whatever the object memoised before; the result is consistent if the supplied hash is empty or f(header) *)
Theorem C17_deser_resets_memo :
  forall (Hdr Ep Ent V : Type) (ep : Hdr -> Ep) (mk : Ep -> Ent) (hash : Hdr -> Ent -> V)
         (is_zero : V -> bool) (zero : V) (hf : Hdr -> V) (b : blk Hdr V) (h : Hdr) (v : V),
    let b' := snd (blk_step Hdr V is_zero zero hf (BDeser Hdr V h v) b) in
    content Hdr V b' = h /\
    memo Hdr V b' = v /\
    (is_zero v = true \/ v = f Hdr Ep Ent V ep mk hash h -> blk_ok Hdr Ep Ent V ep mk hash is_zero b').
Proof. exact deser_resets_memo_lemma. Qed.
Print Assumptions C17_deser_resets_memo.

(** why the ethash mutex matters (documentation; the locked code is covered by C17_lookup_transparent, where
    getOrDefault = lookup + factory + insert is ONE atomic step): if those were separate unlocked steps of a
    last-epoch-only EthashCacheI, some schedule of three requests returns a value that is not f(header) *)
Theorem C17_unlocked_getOrDefault_refuted :
  exists h v, nth_error (uthreads nat nat nat nat CacheExample.unlocked_final) 2 = Some (UDone nat nat nat h v) /\
              v <> f nat nat nat nat CacheExample.epx CacheExample.mkx CacheExample.hashx h.
Proof. exact CacheExample.unlocked_getOrDefault_refuted_lemma. Qed.
Print Assumptions C17_unlocked_getOrDefault_refuted.
