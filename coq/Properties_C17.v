(** C17 — property theorems only; each closed by [exact] of a lemma proved in Conc/CacheProofs.v.
    The vProgPoW kernel [hash], the epoch entry builder [mk] (light cache + DAG), the epoch function [ep] and the
    header-cache key [hk] (sha256twice) are universally quantified pure functions; the value every request
    must produce is [f h = hash h (mk (ep h))].  [hk] is assumed injective (sha256d collision-freeness).
    Clock readings are inputs of the operations and arbitrary. *)
From Coq Require Import List Bool NArith.
From VB Require Import Conc.ValidatorDefs Conc.CacheDefs Conc.CacheProofs.
From VB Require Import Conc.HeaderDefs Conc.HeaderProofs Conc.LruMapDefs Conc.LruMapProofs.
From Coq Require Import ZArith.
Import ListNotations.

(** every value returned by progPowHash equals f(header): for every number of threads, every interleaving of the
    lock-granular steps (header-cache lookup / epoch-cache getOrDefault + kernel / header-cache insert), with
    cache clears and precomputed-hash insertions at any point - the latter under the premise [sop_ok]
    (the inserted hash is f of that header): lookup_transparent + precomputed_path_sound *)
Theorem C17_lookup_transparent :
  forall (Hdr Key Ep Ent V : Type) (hk : Hdr -> Key) (key_eqb : Key -> Key -> bool)
         (ep : Hdr -> Ep) (ep_eqb : Ep -> Ep -> bool) (mk : Ep -> Ent) (hash : Hdr -> Ent -> V),
    (forall a b : Key, key_eqb a b = true <-> a = b) ->
    (forall a b : Ep, ep_eqb a b = true <-> a = b) ->
    (forall h1 h2 : Hdr, hk h1 = hk h2 -> h1 = h2) ->
    forall (size : nat) (tw : N) (maxsize elast nthreads : nat) (ops : list (sop Hdr V)) (t : nat) (h : Hdr) (v : V),
      Forall (sop_ok Hdr Ep Ent V ep mk hash) ops ->
      let s := sys_run Hdr Key Ep Ent V hk key_eqb ep ep_eqb mk hash size tw maxsize elast ops
                       (sys_init Hdr Key Ep Ent V nthreads) in
      nth_error (thr Hdr Key Ep Ent V s) t = Some (TRet Hdr V h v) -> v = f Hdr Ep Ent V ep mk hash h.
Proof. exact lookup_transparent_lemma. Qed.
Print Assumptions C17_lookup_transparent.

(** capacity: never more than Size epoch entries / maxSize+elasticity header entries, no duplicate keys *)
Theorem C17_capacity :
  forall (Hdr Key Ep Ent V : Type) (hk : Hdr -> Key) (key_eqb : Key -> Key -> bool)
         (ep : Hdr -> Ep) (ep_eqb : Ep -> Ep -> bool) (mk : Ep -> Ent) (hash : Hdr -> Ent -> V),
    (forall a b : Key, key_eqb a b = true <-> a = b) ->
    (forall a b : Ep, ep_eqb a b = true <-> a = b) ->
    (forall h1 h2 : Hdr, hk h1 = hk h2 -> h1 = h2) ->
    forall (size : nat) (tw : N) (maxsize elast nthreads : nat) (ops : list (sop Hdr V)),
      Forall (sop_ok Hdr Ep Ent V ep mk hash) ops ->
      let s := sys_run Hdr Key Ep Ent V hk key_eqb ep ep_eqb mk hash size tw maxsize elast ops
                       (sys_init Hdr Key Ep Ent V nthreads) in
      length (ethc Hdr Key Ep Ent V s) <= size /\
      NoDup (map (ikey Ep Ent) (ethc Hdr Key Ep Ent V s)) /\
      (maxsize = 0 \/ length (hdrc Hdr Key Ep Ent V s) <= maxsize + elast) /\
      NoDup (map fst (hdrc Hdr Key Ep Ent V s)).
Proof. exact capacity_lemma. Qed.
Print Assumptions C17_capacity.

(** SmallLFRUCache alone: for every sequence of getOrDefault/clear with arbitrary clock readings, every answer
    is the factory's value for that key, whatever the eviction rule picked *)
Theorem C17_lfru_transparent :
  forall (Ep Ent : Type) (ep_eqb : Ep -> Ep -> bool) (mk : Ep -> Ent),
    (forall a b : Ep, ep_eqb a b = true <-> a = b) ->
    forall (size : nat) (tw : N) (ops : list (lfru_op Ep)) (l : list (item Ep Ent)),
      lfru_ok Ep Ent mk size l ->
      fst (lfru_run Ep Ent ep_eqb mk size tw ops l) = lfru_expected Ep Ent mk ops /\
      lfru_ok Ep Ent mk size (snd (lfru_run Ep Ent ep_eqb mk size tw ops l)).
Proof. exact lfru_transparent_lemma. Qed.
Print Assumptions C17_lfru_transparent.

(** lru11::Cache alone: a hit returns f of the requested header as long as only graph-of-f pairs were inserted *)
Theorem C17_lru_hit_sound :
  forall (Hdr Key Ep Ent V : Type) (hk : Hdr -> Key) (key_eqb : Key -> Key -> bool)
         (ep : Hdr -> Ep) (mk : Ep -> Ent) (hash : Hdr -> Ent -> V),
    (forall a b : Key, key_eqb a b = true <-> a = b) ->
    (forall h1 h2 : Hdr, hk h1 = hk h2 -> h1 = h2) ->
    forall (maxsize elast : nat) (h : Hdr) (l : list (Key * V)) (o : option V) (l' : lru Key V),
      lru_ok Hdr Key Ep Ent V hk ep mk hash maxsize elast l ->
      lru_try_get Key V key_eqb (hk h) l = (o, l') ->
      lru_ok Hdr Key Ep Ent V hk ep mk hash maxsize elast l' /\
      (forall v : V, o = Some v -> v = f Hdr Ep Ent V ep mk hash h).
Proof. exact lru_try_get_ok. Qed.
Print Assumptions C17_lru_hit_sound.

(** VbkBlock::hash_: for every sequence of setters / getHash / setPrecalculatedHash / deserialisation INTO the same
    object (with the all-zero default or a precalculated hash) / copy-move assignment - every supplied hash being
    the true hash of the content it is attached to, every assigned-from block being consistent ([bops_ok]) -
    every getHash answer is f of the current content *)
Theorem C17_memo_transparent :
  forall (Hdr Ep Ent V : Type) (ep : Hdr -> Ep) (mk : Ep -> Ent) (hash : Hdr -> Ent -> V)
         (is_zero : V -> bool) (zero : V),
    is_zero zero = true ->
    forall (ops : list (bop Hdr V)) (b : blk Hdr V),
      blk_ok Hdr Ep Ent V ep mk hash is_zero b ->
      bops_ok Hdr Ep Ent V ep mk hash is_zero zero ops b ->
      answers_ok Hdr Ep Ent V ep mk hash is_zero zero ops b.
Proof. exact memo_transparent_lemma. Qed.
Print Assumptions C17_memo_transparent.

(** after any setter the memo is empty (and whatever follows answers f of the new content) *)
Theorem C17_setter_invalidates_memo :
  forall (Hdr Key Ep Ent V : Type) (hk : Hdr -> Key) (ep : Hdr -> Ep) (mk : Ep -> Ent)
         (hash : Hdr -> Ent -> V) (is_zero : V -> bool) (zero : V),
    (forall h1 h2 : Hdr, hk h1 = hk h2 -> h1 = h2) ->
    is_zero zero = true ->
    forall (hf : Hdr -> V) (b : blk Hdr V) (h : Hdr),
      let b' := snd (blk_step Hdr V is_zero zero hf (BSet Hdr V h) b) in
      content Hdr V b' = h /\
      is_zero (memo Hdr V b') = true /\
      blk_ok Hdr Ep Ent V ep mk hash is_zero b' /\
      (forall ops : list (bop Hdr V),
         bops_ok Hdr Ep Ent V ep mk hash is_zero zero ops b' ->
         answers_ok Hdr Ep Ent V ep mk hash is_zero zero ops b').
Proof. exact setter_invalidates_memo_lemma. Qed.
Print Assumptions C17_setter_invalidates_memo.

(** deserialising into an existing object overwrites the memo with the supplied hash (all-zero default = empty),
    whatever the object memoised before; the result is consistent if the supplied hash is empty or f(header) *)
Theorem C17_deser_resets_memo :
  forall (Hdr Ep Ent V : Type) (ep : Hdr -> Ep) (mk : Ep -> Ent) (hash : Hdr -> Ent -> V)
         (is_zero : V -> bool) (zero : V) (hf : Hdr -> V) (b : blk Hdr V) (h : Hdr) (v : V),
    let b' := snd (blk_step Hdr V is_zero zero hf (BDeser Hdr V h v) b) in
    content Hdr V b' = h /\
    memo Hdr V b' = v /\
    (is_zero v = true \/ v = f Hdr Ep Ent V ep mk hash h -> blk_ok Hdr Ep Ent V ep mk hash is_zero b').
Proof. exact deser_resets_memo_lemma. Qed.
Print Assumptions C17_deser_resets_memo.

(** why the ethash mutex matters (documentation; the locked code is covered by C17_lookup_transparent, where
    getOrDefault = lookup + factory + insert is ONE atomic step): if those were separate unlocked steps of a
    last-epoch-only EthashCacheI, some schedule of three requests returns a value that is not f(header) *)
Theorem C17_unlocked_getOrDefault_refuted :
  exists h v, nth_error (uthreads nat nat nat nat CacheExample.unlocked_final) 2 = Some (UDone nat nat nat h v) /\
              v <> f nat nat nat nat CacheExample.epx CacheExample.mkx CacheExample.hashx h.
Proof. exact CacheExample.unlocked_getOrDefault_refuted_lemma. Qed.
Print Assumptions C17_unlocked_getOrDefault_refuted.

(* ---------------- header-field sensitivity: the hashed byte string (VbkBlock::toRaw) ---------------- *)

(** toRaw yields 65 bytes for every header whose fields are in the ranges of their C++ types *)
Theorem C17_header_raw_length :
  forall h : vhdr, hdr_wf h = true -> length (hdr_raw h) = 65 /\ forallb is_byte (hdr_raw h) = true.
Proof. exact hdr_raw_shape_lemma. Qed.
Print Assumptions C17_header_raw_length.

(** toRaw is injective in all nine fields (types' ranges; nonce below 2^40, the 5 bytes that are written) *)
Theorem C17_header_raw_injective :
  forall h1 h2 : vhdr,
    hdr_wf h1 = true -> hdr_wf h2 = true -> nonce40 h1 = true -> nonce40 h2 = true ->
    hdr_raw h1 = hdr_raw h2 -> h1 = h2.
Proof. exact hdr_raw_injective_lemma. Qed.
Print Assumptions C17_header_raw_injective.

(** a changed field changes the hash input *)
Theorem C17_header_field_sensitive :
  forall h1 h2 : vhdr,
    hdr_wf h1 = true -> hdr_wf h2 = true -> nonce40 h1 = true -> nonce40 h2 = true ->
    h1 <> h2 -> hdr_raw h1 <> hdr_raw h2.
Proof. exact hdr_field_sensitive_lemma. Qed.
Print Assumptions C17_header_field_sensitive.

(** ... and the header-cache key sha256twice(toRaw), for a collision-free sha256twice: together with
    C17_lookup_transparent (Hdr := byte strings) no two distinct headers share a cache entry *)
Theorem C17_header_key_injective :
  forall (Key : Type) (sha : list Z -> Key),
    (forall a b : list Z, sha a = sha b -> a = b) ->
    forall h1 h2 : vhdr,
      hdr_wf h1 = true -> hdr_wf h2 = true -> nonce40 h1 = true -> nonce40 h2 = true ->
      sha (hdr_raw h1) = sha (hdr_raw h2) -> h1 = h2.
Proof. exact hdr_key_injective_lemma. Qed.
Print Assumptions C17_header_key_injective.

(** full-strength variant without the 40-bit premise is FALSE: uint64_t nonce, 5 bytes written *)
Theorem C17_header_raw_injective_all_nonces_refuted :
  exists h1 h2 : vhdr, hdr_wf h1 = true /\ hdr_wf h2 = true /\ h1 <> h2 /\ hdr_raw h1 = hdr_raw h2.
Proof. exact hdr_raw_injective_all_nonces_refuted_lemma. Qed.
Print Assumptions C17_header_raw_injective_all_nonces_refuted.

(** what progPowHashImpl reads back from the bytes is the field that was written: height (sign included),
    epoch = (uint32)(height / 8000) + 323 (the key of the epoch cache), nonce mod 2^40 *)
Theorem C17_raw_height_epoch_nonce :
  forall h : vhdr, hdr_wf h = true ->
    raw_height (hdr_raw h) = h_height h /\
    raw_epoch (hdr_raw h) = ((((Z.quot (h_height h) 8000) mod 4294967296) + 323) mod 4294967296)%Z /\
    raw_nonce (hdr_raw h) = (h_nonce h mod 1099511627776)%Z.
Proof. exact raw_reads_lemma. Qed.
Print Assumptions C17_raw_height_epoch_nonce.

(** every one of the 65 bytes reaches the kernel: (height, nonce, first 60 bytes) determine the byte string *)
Theorem C17_kernel_inputs_injective :
  forall r1 r2 : list Z,
    bytes_n 65 r1 = true -> bytes_n 65 r2 = true -> kernel_inputs r1 = kernel_inputs r2 -> r1 = r2.
Proof. exact kernel_inputs_injective_lemma. Qed.
Print Assumptions C17_kernel_inputs_injective.

(** ... hence every header field *)
Theorem C17_kernel_inputs_field_sensitive :
  forall h1 h2 : vhdr,
    hdr_wf h1 = true -> hdr_wf h2 = true -> nonce40 h1 = true -> nonce40 h2 = true ->
    kernel_inputs (hdr_raw h1) = kernel_inputs (hdr_raw h2) -> h1 = h2.
Proof. exact kernel_inputs_field_sensitive_lemma. Qed.
Print Assumptions C17_kernel_inputs_field_sensitive.

(* ---------------- lru11::Cache as a lossy map (arbitrary values, not only graph-of-f pairs) ---------------- *)

(** for every sequence of insert / tryGet / clear with ARBITRARY keys and values, from every state satisfying the
    invariant (the empty cache does: lmap_inv_nil): every tryGet answer is a miss or the value most recently
    inserted under exactly that key since the last clear; capacity and key uniqueness hold at the end *)
Theorem C17_lru_refines_map :
  forall (Key V : Type) (key_eqb : Key -> Key -> bool),
    (forall a b : Key, key_eqb a b = true <-> a = b) ->
    forall (v_eqb : V -> V -> bool), (forall v, v_eqb v v = true) ->
    forall (maxsize elast : nat) (ops : list (lop Key V)) (l : lru Key V) (m : ideal Key V),
      lmap_inv Key V key_eqb maxsize elast l m ->
      answers_admissible Key V key_eqb v_eqb ops (fst (lop_run Key V key_eqb maxsize elast ops l)) m = true /\
      lmap_inv Key V key_eqb maxsize elast (snd (lop_run Key V key_eqb maxsize elast ops l))
               (fold_left (fun m o => ideal_step Key V o m) ops m).
Proof. exact lru_refines_map_lemma. Qed.
Print Assumptions C17_lru_refines_map.

(** an entry stored under key k is only ever returned for k, and never a stale one *)
Theorem C17_lru_key_confinement :
  forall (Key V : Type) (key_eqb : Key -> Key -> bool),
    (forall a b : Key, key_eqb a b = true <-> a = b) ->
    forall (maxsize elast : nat) (ops : list (lop Key V)) (l : lru Key V) (m : ideal Key V) (k : Key) (v : V) (l' : lru Key V),
      lmap_inv Key V key_eqb maxsize elast l m ->
      lop_step Key V key_eqb maxsize elast (LGet Key V k) (snd (lop_run Key V key_eqb maxsize elast ops l)) = (Some (Some v), l') ->
      ideal_get Key V key_eqb k (fold_left (fun m o => ideal_step Key V o m) ops m) = Some v.
Proof. exact lru_key_confinement_lemma. Qed.
Print Assumptions C17_lru_key_confinement.
