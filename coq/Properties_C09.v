(** C09 — property theorems only; each closed by [exact] of a lemma proved in Store/Finalize*.v.
    Model: Store/FinalizeDefs.v (isBlockOutdated, finalizeBlocks, finalizeBlockImpl incl. fix 057feaed,
    the TIP_IS_FINAL short-cuts of comparePopScore, setState with assertBlockCanBeUnapplied). *)
From Coq Require Import NArith List Bool.
From VB Require Import Store.FinalizeDefs Store.FinalizeProofs Store.FinalizeTheorems Store.FinalizeOutdated Store.FinalizeTips Store.FinalizeWindow Store.FinalizeBound.
Import ListNotations.
Local Open Scope N_scope.

(* once final, a block of the active chain stays on it and final under EVERY history of tip switches,
   finalizations, block additions and saves that does not abort - or it has been deallocated behind the root *)
Theorem C09_final_monotone :
  forall fuel ops t t' b,
  never_readds b ops = true ->
  In b (t_chain t) -> is_final t b = true ->
  frun fuel ops t = FOk t' ->
  (In b (t_chain t') /\ is_final t' b = true) \/ flookup (t_blocks t') b = None.
Proof. exact final_monotone. Qed.
Print Assumptions C09_final_monotone.

(* a successful setState never drops a final block from the active chain (assertBlockCanBeUnapplied) *)
Theorem C09_setState_keeps_final :
  forall fuel t to t' b,
  setTip fuel t to = FOk t' -> In b (t_chain t) -> is_final t b = true -> In b (t_chain t').
Proof. exact setTip_keeps_final. Qed.
Print Assumptions C09_setState_keeps_final.

(* fork resolution refuses every candidate whose fork point lies below a finalized block of the active chain,
   before touching any payload (TIP_IS_FINAL) *)
Theorem C09_cmp_refuses_below_final :
  forall fuel t cand fk f nx,
  consecutive t (t_chain t) -> final_prefix t (t_chain t) ->
  In f (t_chain t) -> is_final t f = true ->
  fork_block fuel t (tip_of t) cand = Some fk ->
  height_of t fk < height_of t f ->
  chain_at t (height_of t fk + 1) = Some nx ->
  cmp_shortcut fuel t cand = Some 1.
Proof. exact cmp_refuses_below_final. Qed.
Print Assumptions C09_cmp_refuses_below_final.

(* the finalized payload index keeps every entry and receives the payload ids of every active-chain block
   that is deallocated before it was marked final *)
Theorem C09_retained :
  forall fuel t idx preserve,
  (forall x, In x (t_fpidx t) -> In x (t_fpidx (finalizeBlockImpl fuel t idx preserve))) /\
  ((idx =? root_of t) = false ->
   forall tips' fin newRoot rp id b p,
   erase_tips fuel t (t_tips t) (lowest_dirty fuel t idx idx) = (tips', fin) ->
   chain_at t (N.max (height_of t (root_of t)) (height_of t fin - preserve)) = Some newRoot ->
   parent_of t newRoot = Some rp ->
   In id (unfinal_path fuel t rp) -> flookup (t_blocks t) id = Some b -> In p (f_pl b) ->
   In (p, id) (t_fpidx (finalizeBlockImpl fuel t idx preserve))).
Proof. exact retained. Qed.
Print Assumptions C09_retained.

(* every block that descends from the new root and is not under a sibling of the final block survives with
   the same height, payload ids, dirty bit and parent (the new root loses its parent).  PARTIAL: POP command
   execution is outside this model; see the comment at the lemma and known finding ctx-keystone-dealloc *)
Theorem C09_finalize_transparent_partial :
  forall fuel t idx preserve,
  (idx =? root_of t) = false ->
  forall tips' fin newRoot,
  erase_tips fuel t (t_tips t) (lowest_dirty fuel t idx idx) = (tips', fin) ->
  chain_at t (N.max (height_of t (root_of t)) (height_of t fin - preserve)) = Some newRoot ->
  forall id b,
  flookup (t_blocks t) id = Some b ->
  descends fuel t id newRoot = true ->
  (negb (newRoot =? root_of t) && under_sibling fuel t fin id) = false ->
  exists b', flookup (t_blocks (finalizeBlockImpl fuel t idx preserve)) id = Some b' /\
             f_height b' = f_height b /\ f_pl b' = f_pl b /\ f_dirty b' = f_dirty b /\
             (id <> newRoot -> f_parent b' = f_parent b).
Proof. exact finalize_transparent_partial. Qed.
Print Assumptions C09_finalize_transparent_partial.

(* isBlockOutdated decides as documented on the three clear cases *)
Theorem C09_outdated_cases :
  forall rec fuel t fin cand b,
  flookup (t_blocks t) cand = Some b ->
  (descends fuel t cand fin = true -> outdated rec fuel t fin cand = false) /\
  (height_of t cand < height_of t fin -> outdated rec fuel t fin cand = true) /\
  (height_of t cand = height_of t fin -> cand <> fin -> outdated rec fuel t fin cand = true).
Proof. exact outdated_cases. Qed.
Print Assumptions C09_outdated_cases.

(* on a well-formed tree isBlockOutdated(final, candidate) is exactly "candidate does not descend from final" *)
Theorem C09_outdated_iff_not_descendant :
  forall r fuel t fin cand bf bc,
  wf_tree t -> flookup (t_blocks t) fin = Some bf -> flookup (t_blocks t) cand = Some bc ->
  outdated (S r) fuel t fin cand = negb (descends fuel t cand fin).
Proof. exact outdated_iff_not_descends. Qed.
Print Assumptions C09_outdated_iff_not_descendant.

(* the tip erasure of finalizeBlockImpl keeps every tip that descends from the final block and does not lower the
   final block - EXCEPT when an outdated off-chain tip has an unsaved block on its branch (carved out by
   [no_dirty_outdated_forks], known finding tips-dirty-fork-erased) *)
Theorem C09_tips_kept_except_dirty_forks :
  forall fuel t fin tips tp,
  no_dirty_outdated_forks fuel t fin tips ->
  In tp tips -> descends fuel t tp fin = true ->
  In tp (fst (erase_tips fuel t tips fin)) /\ snd (erase_tips fuel t tips fin) = fin.
Proof. exact tips_kept_except_dirty_forks. Qed.
Print Assumptions C09_tips_kept_except_dirty_forks.

(* ... and without that condition the statement is false (corpus/C09/F10_dirty_fork_erased_from_tips.json):
   the final block is lowered to block 1, block 16 descends from it and is retained, but it is erased from tips_ *)
Theorem C09_tips_dirty_fork_erased_refuted :
  let t' := finalizeBlocks 40 f10_tree 8 12 1000000 in
  highest_final t' = Some 1 /\ descends 40 t' 16 1 = true /\ flookup (t_blocks t') 16 <> None /\
  ~ In 16 (t_tips t') /\ In 13 (t_tips t').
Proof. exact tips_dirty_fork_erased_refuted. Qed.
Print Assumptions C09_tips_dirty_fork_erased_refuted.

(* preserved window: every block of the active chain at or above max(old root, final - preserve) - the final block,
   the `preserve` blocks below it and the chain above it - is retained with unchanged height, payload ids, dirty
   bit and parent (the new root loses its parent) and stays on the active chain *)
Theorem C09_preserved_window :
  forall fuel t idx preserve,
  wf_tree t -> chain_is_path t ->
  (forall id b, flookup (t_blocks t) id = Some b -> (N.to_nat (f_height b) <= fuel)%nat) ->
  (idx =? root_of t) = false ->
  forall tips' fin newRoot,
  erase_tips fuel t (t_tips t) (lowest_dirty fuel t idx idx) = (tips', fin) ->
  In fin (t_chain t) ->
  chain_at t (N.max (height_of t (root_of t)) (height_of t fin - preserve)) = Some newRoot ->
  forall c b,
  In c (t_chain t) -> flookup (t_blocks t) c = Some b ->
  N.max (height_of t (root_of t)) (height_of t fin - preserve) <= height_of t c ->
  exists b', flookup (t_blocks (finalizeBlockImpl fuel t idx preserve)) c = Some b' /\
             f_height b' = f_height b /\ f_pl b' = f_pl b /\ f_dirty b' = f_dirty b /\
             (c <> newRoot -> f_parent b' = f_parent b) /\
             In c (t_chain (finalizeBlockImpl fuel t idx preserve)).
Proof. exact preserved_window. Qed.
Print Assumptions C09_preserved_window.

(* requested block [idx] vs actually finalized block [fin]: among the descendants of the new root only blocks
   under a sibling of the ACTUAL final block are deallocated *)
Theorem C09_only_siblings_of_actual_final :
  forall fuel t idx preserve,
  (idx =? root_of t) = false ->
  forall tips' fin newRoot,
  erase_tips fuel t (t_tips t) (lowest_dirty fuel t idx idx) = (tips', fin) ->
  chain_at t (N.max (height_of t (root_of t)) (height_of t fin - preserve)) = Some newRoot ->
  forall id b,
  flookup (t_blocks t) id = Some b ->
  descends fuel t id newRoot = true ->
  flookup (t_blocks (finalizeBlockImpl fuel t idx preserve)) id = None ->
  under_sibling fuel t fin id = true /\ (newRoot =? root_of t) = false.
Proof. exact only_siblings_of_actual_final. Qed.
Print Assumptions C09_only_siblings_of_actual_final.

(* VBK finalization takes the bound min_or_default(refs of the BTC tip) explicitly: if any reference of the BTC tip
   is at or below the VBK block finalization would request, nothing is finalized or deallocated *)
Theorem C09_vbk_finalization_bounded :
  forall fuel t maxReorg preserve refs fi r,
  (height_of t (tip_of t) <? maxReorg) = false ->
  chain_at t (N.max (height_of t (root_of t)) (height_of t (tip_of t) - maxReorg)) = Some fi ->
  In r refs -> r <= height_of t fi ->
  vbk_finalizeBlocks fuel t maxReorg preserve refs = t.
Proof. exact vbk_finalization_bounded. Qed.
Print Assumptions C09_vbk_finalization_bounded.

(* a min_or_default that answers the default when the minimum is the first element loses the bound *)
Theorem C09_min_or_default_first_bug_refuted :
  min_or_default [0] 2147483647 = 0 /\ min_or_default_first_bug [0] 2147483647 = 2147483647 /\
  min_or_default [5; 9] 2147483647 = 5 /\ min_or_default_first_bug [5; 9] 2147483647 = 2147483647.
Proof. exact min_or_default_first_bug_refuted. Qed.
Print Assumptions C09_min_or_default_first_bug_refuted.

(* ---- the final-block guard of the POP state machine (Store/FinalGuard.v): assertBlockCanBeUnapplied's
        `!index.finalized` is a VBK_ASSERT_MSG, i.e. an explicit abort in EVERY build (also with NDEBUG) *)
From VB Require Import Store.FinalGuard.

(* the walk PopStateMachine::unapply spelled out, with the guard, is the setState of the finalization model *)
Theorem C09_guarded_walk_is_setState :
  forall fuel t to, setTip_g true fuel t to = setTip fuel t to.
Proof. exact setTip_g_true. Qed.
Print Assumptions C09_guarded_walk_is_setState.

(* the walk stops AT the first finalized block from the tip: that block and everything below it stays applied *)
Theorem C09_guard_stops_at_first_final :
  forall t l x,
  unapply_walk true t l = UAbort x ->
  is_final t x = true /\ exists above below, l = above ++ x :: below /\ existsb (is_final t) above = false.
Proof. exact unapply_walk_stops. Qed.
Print Assumptions C09_guard_stops_at_first_final.

(* a direct setState whose path does not keep a finalized active block is an abort, never a success *)
Theorem C09_setState_below_final_aborts :
  forall fuel t to b,
  In b (t_chain t) -> is_final t b = true ->
  ~ In b (common_prefix (t_chain t) (path_to fuel t to [])) ->
  setTip_g true fuel t to = FAbort.
Proof. exact setTip_g_aborts_on_final. Qed.
Print Assumptions C09_setState_below_final_aborts.

(* removeSubtree / invalidateSubtree (their state change: setState(pprev) of an active block) keep every finalized
   block on the active chain whenever they return *)
Theorem C09_remove_invalidate_keep_final :
  forall fuel t a t' b,
  unapplyFrom true fuel t a = FOk t' -> In b (t_chain t) -> is_final t b = true ->
  In b (t_chain t') /\ t_blocks t' = t_blocks t.
Proof. exact unapplyFrom_keeps_final. Qed.
Print Assumptions C09_remove_invalidate_keep_final.

(* C09_final_monotone for histories that also contain direct remove / invalidate calls *)
Theorem C09_guarded_history_keeps_final :
  forall fuel ops t t' b,
  g_never_readds b ops = true ->
  In b (t_chain t) -> is_final t b = true ->
  grun true fuel ops t = FOk t' ->
  (In b (t_chain t') /\ is_final t' b = true) \/ flookup (t_blocks t') b = None.
Proof. exact guarded_history_keeps_final. Qed.
Print Assumptions C09_guarded_history_keeps_final.

(* ... and with the check compiled out (VBK_ASSERT_MSG_DEBUG in a Release build) the statement is false: the
   history of corpus/C09/G1_final_guard_stale_fork.fin (finalize at tip 20, setState onto the stale fork on block 4;
   removeSubtree of the active final block 7) succeeds and leaves finalized blocks off the active chain, while the
   code as it is aborts *)
Theorem C09_final_guard_debug_only_refuted :
  (exists t', setTip_g false 40 stale_fork_final 106 = FOk t' /\
              t_chain t' = [0;1;2;3;4;105;106] /\
              is_final t' 9 = true /\ ~ In 9 (t_chain t') /\ is_final t' 5 = true /\ ~ In 5 (t_chain t')) /\
  (exists t', unapplyFrom false 40 stale_fork_final 7 = FOk t' /\
              tip_of t' = 6 /\ is_final t' 7 = true /\ ~ In 7 (t_chain t') /\ is_final t' 9 = true /\ ~ In 9 (t_chain t')) /\
  (exists t', grun false 40 [GOp (FFinalize 11 10 1000000); GOp (FSetTip 106)] stale_fork_tree = FOk t' /\
              In 9 (t_chain stale_fork_final) /\ is_final t' 9 = true /\ ~ In 9 (t_chain t') /\
              flookup (t_blocks t') 9 <> None) /\
  grun true 40 [GOp (FFinalize 11 10 1000000); GOp (FSetTip 106)] stale_fork_tree = FAbort.
Proof. exact final_guard_debug_only_refuted. Qed.
Print Assumptions C09_final_guard_debug_only_refuted.

(* ---- read sets of the contextual checks vs. the window finalization retains (Store/Transparent*.v).
        Heights are Z, [m_previousKeystone] is what the generated getPreviousKeystoneHeight computes
        (Score/KeystoneProofs.v gen_getPreviousKeystoneHeight).  An ATV in a block of height hc endorsing a block of
        height he reads the height interval [second previous keystone of he .. hc] of the containing block's chain
        (CheckPublicationData: endorsed, endorsed->pprev, getAncestor(first), getAncestor(second);
        AddAltEndorsement: containing->getAncestor(he)); finalizeBlocks at tip height tipH retains the heights
        >= max(root, max(root, tipH - maxReorg) - preserve). *)
From Coq Require Import ZArith.
From VB Require Import Score.KeystoneDefs Store.TransparentDefs Store.TransparentArith Store.TransparentProofs Store.TransparentExamples.

(* the blocks the check names explicitly all lie in that interval *)
Theorem C09_read_marks_in_read_set :
  forall ki hc he h,
  (0 < ki)%Z -> (1 <= he)%Z -> (he <= hc)%Z -> In h (atv_read_marks ki hc he) -> atv_reads ki hc he h.
Proof. exact atv_read_marks_in_reads. Qed.
Print Assumptions C09_read_marks_in_read_set.

(* for every tip height, every containing block that is not outdated ([strict] = true: above the final block, the only
   blocks whose payloads can still be executed; false: the final block included) and every ATV that satisfies the
   settlement rule, every read that exists in the never-finalizing tree lies in the retained window, PROVIDED
   preserve >= settle + 2*ki (+ 1 when the final block is included) *)
Theorem C09_reads_within_window :
  forall strict ki settle preserve,
  (0 < ki)%Z -> (least_preserve strict ki settle <= preserve)%Z ->
  forall rootH tipH maxReorg hc he h,
  atv_situation strict settle rootH tipH maxReorg hc he ->
  atv_reads ki hc he h -> (rootH <= h)%Z ->
  (retained_low rootH tipH maxReorg preserve <= h)%Z.
Proof. exact reads_within_window. Qed.
Print Assumptions C09_reads_within_window.

(* ... and that bound is the exact least one, for every keystone interval and settlement interval *)
Theorem C09_reads_within_window_iff :
  forall strict ki settle preserve,
  (0 < ki)%Z -> (0 <= settle)%Z ->
  (reads_in_window strict ki settle preserve <-> (settle + 2 * ki + (if strict then 0 else 1) <= preserve)%Z).
Proof. exact reads_in_window_iff. Qed.
Print Assumptions C09_reads_within_window_iff.

(* the bound cannot be lowered by one: heights that satisfy the situation while the second previous keystone of the
   endorsed block exists in the never-finalizing tree but lies below the new root *)
Theorem C09_least_bound_tight :
  forall strict ki settle,
  (0 < ki)%Z -> (0 <= settle)%Z ->
  exists rootH tipH maxReorg hc he,
    window_miss strict ki settle (least_preserve strict ki settle - 1) rootH tipH maxReorg hc he.
Proof. exact least_bound_tight. Qed.
Print Assumptions C09_least_bound_tight.

(* the same on the tree model: ki 3, settle 4, block 13 final; an ATV in block 14 endorsing block 10 is accepted by the
   never-finalizing tree, rejected (bad-sf-context) after finalization with preserve = 9, accepted with preserve = 10 *)
Theorem C09_least_bound_tight_tree :
  let t := chain20 in
  let ctx := f_honest_ctx 40 t 3 10 in
  ctx = (10, Some 6, Some 3) /\
  highest_final (finalizeBlocks 40 t 7 9 1000000) = Some 13 /\
  root_of (finalizeBlocks 40 t 7 9 1000000) = 4 /\ root_of (finalizeBlocks 40 t 7 10 1000000) = 3 /\
  f_check_atv 40 t 3 4 14 10 ctx = AOk /\
  f_check_atv 40 (finalizeBlocks 40 t 7 9 1000000) 3 4 14 10 ctx = ASfContext /\
  f_check_atv 40 (finalizeBlocks 40 t 7 10 1000000) 3 4 14 10 ctx = AOk.
Proof. exact least_bound_tight_tree. Qed.
Print Assumptions C09_least_bound_tight_tree.

(* known finding ctx-keystone-dealloc on the model: with preserve = settle (the library's default and the only relation
   its parameters assert; here ki 3, settle = preserve = 4, maxReorg 8 as in corpus/C09/F12_ctx_keystone_dealloc.json)
   at tip 20 the fork block 113 on the final block 12 is not outdated, the ATV endorsing block 9 with the honest
   context (keystones 6 and 3) is accepted by the never-finalizing tree and rejected with bad-sf-context by the
   finalized one, which has deallocated both keystones (new root 8) *)
Theorem C09_preserve_equals_settle_refuted :
  (let t := chain20 in
   let t' := finalizeBlocks 40 t 8 4 1000000 in
   let ctx := f_honest_ctx 40 t 3 9 in
   t_chain t' = [8;9;10;11;12;13;14;15;16;17;18;19;20] /\ highest_final t' = Some 12 /\
   descends 40 t' 113 12 = true /\ outdated 40 40 t' 12 113 = false /\
   ctx = (9, Some 6, Some 3) /\
   prevks 9 3 0 = 6 /\ prevks 9 3 1 = 3 /\ flookup (t_blocks t') 6 = None /\ flookup (t_blocks t') 3 = None /\
   f_check_atv 40 t 3 4 113 9 ctx = AOk /\
   f_check_atv 40 t' 3 4 113 9 ctx = ASfContext /\
   f_honest_ctx 40 t' 3 9 = (9, None, None) /\
   f_check_atv 40 t 3 4 13 9 ctx = AOk /\ f_check_atv 40 t' 3 4 13 9 ctx = ASfContext) /\
  (final_height 0 20 8 = 12 /\ retained_low 0 20 8 4 = 8 /\
   atv_first_keystone 3 9 = 6 /\ atv_second_keystone 3 9 = 3 /\
   window_miss true 3 4 4 0 20 8 13 9)%Z.
Proof. exact (conj preserve_equals_settle_refuted_tree preserve_equals_settle_concrete). Qed.
Print Assumptions C09_preserve_equals_settle_refuted.

(* ... for EVERY keystone interval and settlement interval preserve = settle misses a keystone at some height *)
Theorem C09_preserve_equals_settle_never_suffices :
  forall strict ki settle,
  (0 < ki)%Z -> (0 <= settle)%Z ->
  (exists rootH tipH maxReorg hc he, window_miss strict ki settle settle rootH tipH maxReorg hc he) /\
  ~ reads_in_window strict ki settle settle.
Proof. exact preserve_equals_settle_misses. Qed.
Print Assumptions C09_preserve_equals_settle_never_suffices.

(* transparency of the ATV check as coded (CheckPublicationData + AddAltEndorsement over the finalization model's
   tree): under preserve >= settle + 2*ki the verdict for every ATV context in every non-outdated containing block
   above the final block ([strict] = false: the final block too, one more preserved block) is the same on the
   finalized and on the never-finalized tree.  Built on C09_finalize_transparent_partial *)
Theorem C09_finalize_transparent_atv_check :
  forall fuel t idx preserve tips' fin newRoot,
  wf_tree t -> chain_is_path t -> root_lowest t -> fuel_ok fuel t ->
  (idx =? root_of t) = false ->
  erase_tips fuel t (t_tips t) (lowest_dirty fuel t idx idx) = (tips', fin) ->
  In fin (t_chain t) ->
  chain_at t (N.max (height_of t (root_of t)) (height_of t fin - preserve)) = Some newRoot ->
  forall (strict : bool) ki settle c e ctx,
  0 < ki ->
  settle + 2 * ki + (if strict then 0 else 1) <= preserve ->
  anc t fin c ->
  (if strict then height_of t fin < height_of t c else True) ->
  anc t e c -> height_of t c - height_of t e <= settle ->
  height_of t (root_of t) < height_of t e ->
  height_of t (root_of t) <= prevks (height_of t e) ki 1 ->
  f_check_atv fuel (finalizeBlockImpl fuel t idx preserve) ki settle c e ctx = f_check_atv fuel t ki settle c e ctx.
Proof. exact finalize_transparent_atv_check. Qed.
Print Assumptions C09_finalize_transparent_atv_check.

(* ANY function that looks at the tree only through the blocks of the read set (height, pprev, dirty bit, payload
   ids) returns the same value on the finalized and on the never-finalized tree; one more preserved block than
   above because such a reader may follow the pprev of the lowest block it reaches, which finalization cuts at the
   new root (preserve >= settle + 2*ki + 1 above the final block, + 2 with the final block included) *)
Theorem C09_finalize_transparent_reads :
  forall fuel t idx preserve tips' fin newRoot,
  wf_tree t -> chain_is_path t -> root_lowest t -> fuel_ok fuel t ->
  (idx =? root_of t) = false ->
  erase_tips fuel t (t_tips t) (lowest_dirty fuel t idx idx) = (tips', fin) ->
  In fin (t_chain t) ->
  chain_at t (N.max (height_of t (root_of t)) (height_of t fin - preserve)) = Some newRoot ->
  forall (A : Type) (f : ftree -> A) (strict : bool) ki settle c e,
  0 < ki ->
  settle + 2 * ki + (if strict then 1 else 2) <= preserve ->
  anc t fin c ->
  (if strict then height_of t fin < height_of t c else True) ->
  anc t e c -> height_of t c - height_of t e <= settle ->
  height_of t (root_of t) < prevks (height_of t e) ki 1 ->
  reads_only (atv_read_ids t ki c e) f ->
  f (finalizeBlockImpl fuel t idx preserve) = f t.
Proof. exact finalize_transparent_reads. Qed.
Print Assumptions C09_finalize_transparent_reads.

(* getPopPayout(tip) reads the heights tip - (payoutDelay - 1) - difficultyAveragingInterval .. tip: inside the
   retained window iff payoutDelay - 1 + averagingInterval <= maxReorg + preserve *)
Theorem C09_payout_reads_within_window :
  forall delay avg preserve rootH tipH maxReorg h,
  (0 <= preserve -> maxReorg <= tipH -> delay - 1 + avg <= maxReorg + preserve ->
   payout_reads delay avg tipH h -> rootH <= h -> retained_low rootH tipH maxReorg preserve <= h)%Z.
Proof. exact payout_reads_within_window. Qed.
Print Assumptions C09_payout_reads_within_window.

Theorem C09_payout_bound_tight :
  forall delay avg maxReorg preserve,
  (1 <= delay -> 0 <= avg -> 0 <= maxReorg -> 0 <= preserve -> maxReorg + preserve < delay - 1 + avg ->
   let tipH := delay + avg + maxReorg in
   let h := tipH - (delay - 1) - avg in
   maxReorg <= tipH /\ payout_reads delay avg tipH h /\ 0 <= h /\ h < retained_low 0 tipH maxReorg preserve)%Z.
Proof. exact payout_bound_tight. Qed.
Print Assumptions C09_payout_bound_tight.

(* ---- the finalization cascade over the three trees (Store/StackDefs.v, Store/StackHistory.v):
        AltBlockTree::finalizeBlocks -> VbkBlockTree::finalizeBlocks (bounded by the refs of the BTC tip) ->
        BlockTree<BtcBlock>::finalizeBlocks; per-tree operations are what addPayloads / removePayloads / setState of
        the tree above do to an SP tree (tip switch through assertBlockCanBeUnapplied, block addition, save,
        removeSubtree / invalidateSubtree) *)
From VB Require Import Store.StackDefs Store.StackHistory.

(* a finalized block of the ALT, VBK or BTC best chain stays on that chain and final under EVERY history of
   per-tree operations on the three trees interleaved with cascades carrying any reference list (or has been
   deallocated behind the root) *)
Theorem C09_stack_history_keeps_final :
  forall fuel p ops s s' w b,
  s_never_readds w b ops = true ->
  In b (t_chain (tree_of s w)) -> is_final (tree_of s w) b = true ->
  srun true fuel p ops s = SOk s' ->
  (In b (t_chain (tree_of s' w)) /\ is_final (tree_of s' w) b = true) \/ flookup (t_blocks (tree_of s' w)) b = None.
Proof. exact stack_history_keeps_final. Qed.
Print Assumptions C09_stack_history_keeps_final.

(* a tip switch of any of the three trees that would leave a finalized block of it aborts *)
Theorem C09_sp_setState_below_final_aborts :
  forall fuel p s w to b,
  In b (t_chain (tree_of s w)) -> is_final (tree_of s w) b = true ->
  ~ In b (common_prefix (t_chain (tree_of s w)) (path_to fuel (tree_of s w) to [])) ->
  sstep true fuel p s (SOn w (GOp (FSetTip to))) = SAbort.
Proof. exact sp_setState_below_final_aborts. Qed.
Print Assumptions C09_sp_setState_below_final_aborts.

(* the VBK step of the cascade respects the bound: a reference of the BTC tip at or below the requested block
   leaves the VBK tree untouched *)
Theorem C09_cascade_vbk_bounded :
  forall fuel p refs s fi r,
  (height_of (s_vbk s) (tip_of (s_vbk s)) <? sp_vbk_maxreorg p) = false ->
  chain_at (s_vbk s) (N.max (height_of (s_vbk s) (root_of (s_vbk s)))
                            (height_of (s_vbk s) (tip_of (s_vbk s)) - sp_vbk_maxreorg p)) = Some fi ->
  In r refs -> r <= height_of (s_vbk s) fi ->
  s_vbk (stack_finalize fuel p refs s) = s_vbk s.
Proof. exact cascade_vbk_bounded. Qed.
Print Assumptions C09_cascade_vbk_bounded.

(* a BTC tree whose tip is below maxReorgBlocks (asserted >= 2016 by BtcChainParams) is untouched by the cascade *)
Theorem C09_cascade_tree_below_maxreorg_untouched :
  forall fuel p refs s,
  (height_of (s_btc s) (tip_of (s_btc s)) <? sp_btc_maxreorg p) = true ->
  s_btc (stack_finalize fuel p refs s) = s_btc s.
Proof. exact cascade_tree_below_maxreorg_untouched. Qed.
Print Assumptions C09_cascade_tree_below_maxreorg_untouched.

(* the hypotheses are met by a concrete stack (VBK 0..20 with a stale fork on block 4, cascade finalizes VBK 0..9) *)
Theorem C09_stack_cascade_satisfiable :
  highest_final (s_vbk demo_after) = Some 9 /\ root_of (s_vbk demo_after) = 0 /\ tip_of (s_vbk demo_after) = 20 /\
  In 9 (t_chain (tree_of demo_after TVbk)) /\ is_final (tree_of demo_after TVbk) 9 = true /\
  flookup (t_blocks (s_vbk demo_after)) 106 <> None /\
  s_vbk (stack_finalize 40 demo_params [15; 9] demo_stack) = s_vbk demo_stack /\
  s_btc demo_after = s_btc demo_stack /\ s_alt demo_after = s_alt demo_stack /\
  sstep true 40 demo_params demo_after (SOn TVbk (GOp (FSetTip 106))) = SAbort /\
  sstep true 40 demo_params demo_after (SOn TVbk (GUnapplyFrom 7)) = SAbort /\
  s_never_readds TVbk 9 [SCascade [15;12]; SOn TVbk (GOp (FAdd 21 20 [])); SOn TBtc (GOp (FAdd 9 5 [])); SOn TVbk (GOp (FSetTip 21))] = true /\
  (exists s', srun true 40 demo_params
                [SCascade [15;12]; SOn TVbk (GOp (FAdd 21 20 [])); SOn TBtc (GOp (FAdd 9 5 [])); SOn TVbk (GOp (FSetTip 21))]
                demo_stack = SOk s' /\ tip_of (s_vbk s') = 21 /\ In 9 (t_chain (s_vbk s'))).
Proof. exact stack_cascade_satisfiable. Qed.
Print Assumptions C09_stack_cascade_satisfiable.

(* with assertBlockCanBeUnapplied compiled out the SP statement is false: the stale VBK fork is activated and the
   finalized VBK block 9 is off the best chain while still in memory *)
Theorem C09_stack_guard_debug_only_refuted :
  (exists s', srun false 40 demo_params [SCascade [15;12]; SOn TVbk (GOp (FSetTip 106))] demo_stack = SOk s' /\
              is_final (s_vbk s') 9 = true /\ ~ In 9 (t_chain (s_vbk s')) /\ flookup (t_blocks (s_vbk s')) 9 <> None) /\
  srun true 40 demo_params [SCascade [15;12]; SOn TVbk (GOp (FSetTip 106))] demo_stack = SAbort.
Proof. exact stack_guard_debug_only_refuted. Qed.
Print Assumptions C09_stack_guard_debug_only_refuted.
