(** C11 — serialization round-trips exactly, estimateSize equals the encoded size.
    Property theorems only; each closed by [exact] of a lemma proved in Serde/.
    [c11_ok c] (Serde/CodecSpec.v) =
       (forall x r, wfd c x = true -> fits c x = true -> dec c (enc c x ++ r) = Value x r)
    /\ (forall bs x r, dec c bs = Value x r -> wfd c x = true)
    /\ (forall x, wfd c x = true -> fits c x = true -> esize c x = len (enc c x))
    /\ (forall bs x r r', dec c bs = Value x r -> fits c x = true -> dec c (enc c x ++ r') = Value x r'). *)
From Coq Require Import ZArith List.
From VB Require Import Gen.Consts Serde.StreamDefs Serde.CodecSpec Serde.StreamProofs Serde.EntityDefs Serde.Theorems Serde.FitsProofs Serde.StoredDefs Serde.StoredTheorems Serde.FitsMerkle Serde.Refuted Serde.Ids Serde.Memo Serde.Counting.
From VB Require Mempool.CountDefs Mempool.CountProofs.
Local Open Scope Z_scope.

Theorem C11_single_be_int64 : c11_ok c_single_be64.
Proof. exact single_be64_c11. Qed.
Print Assumptions C11_single_be_int64.

Theorem C11_var_len_value : forall mn mx, mx < 2 ^ 31 -> c11_ok (c_var_len mn mx).
Proof. exact var_len_c11. Qed.
Print Assumptions C11_var_len_value.

Theorem C11_single_byte_len_value : forall mn mx, c11_ok (c_sbl mn mx).
Proof. exact sbl_c11. Qed.
Print Assumptions C11_single_byte_len_value.

Theorem C11_array_of : forall A (c : codec A) mn mx, mx <= alloc_cap -> codec_ok c ->
  c11_ok (c_counted (c_count mn mx) c_empty c).
Proof. exact array_c11. Qed.
Print Assumptions C11_array_of.

Theorem C11_canonical_encoding_injective : forall A (c : codec A), codec_ok c -> forall x y,
  wfd c x = true -> fits c x = true -> wfd c y = true -> fits c y = true -> enc c x = enc c y -> x = y.
Proof. exact @enc_injective. Qed.
Print Assumptions C11_canonical_encoding_injective.

Theorem C11_Address : forall addr_norm, addr_norm_sound addr_norm -> c11_ok (c_address addr_norm).
Proof. exact address_c11. Qed.
Print Assumptions C11_Address.
Theorem C11_Coin : c11_ok c_coin.
Proof. exact coin_c11. Qed.
Print Assumptions C11_Coin.
Theorem C11_Output : forall addr_norm, addr_norm_sound addr_norm -> c11_ok (c_output addr_norm).
Proof. exact output_c11. Qed.
Print Assumptions C11_Output.
Theorem C11_BtcTx : c11_ok c_btctx.
Proof. exact btctx_c11. Qed.
Print Assumptions C11_BtcTx.
Theorem C11_BtcBlock : c11_ok c_btcblock.
Proof. exact btcblock_c11. Qed.
Print Assumptions C11_BtcBlock.
Theorem C11_BtcBlock_raw : c11_ok c_btcblock_raw.
Proof. exact btcblock_raw_c11. Qed.
Print Assumptions C11_BtcBlock_raw.
Theorem C11_VbkBlock : c11_ok c_vbkblock.
Proof. exact vbkblock_c11. Qed.
Print Assumptions C11_VbkBlock.
Theorem C11_VbkBlock_raw : c11_ok c_vbkblock_raw.
Proof. exact vbkblock_raw_c11. Qed.
Print Assumptions C11_VbkBlock_raw.
Theorem C11_MerklePath : c11_ok c_merklepath.
Proof. exact merklepath_c11. Qed.
Print Assumptions C11_MerklePath.
Theorem C11_VbkMerklePath : c11_ok c_vbkmerklepath.
Proof. exact vbkmerklepath_c11. Qed.
Print Assumptions C11_VbkMerklePath.
Theorem C11_PublicationData : c11_ok c_pubdata.
Proof. exact pubdata_c11. Qed.
Print Assumptions C11_PublicationData.
Theorem C11_VbkTx : forall addr_norm, addr_norm_sound addr_norm -> c11_ok (c_vbktx addr_norm).
Proof. exact vbktx_c11. Qed.
Print Assumptions C11_VbkTx.
Theorem C11_VbkPopTx : forall addr_norm, addr_norm_sound addr_norm -> c11_ok (c_vbkpoptx addr_norm).
Proof. exact vbkpoptx_c11. Qed.
Print Assumptions C11_VbkPopTx.
Theorem C11_ATV : forall addr_norm, addr_norm_sound addr_norm -> c11_ok (c_atv addr_norm).
Proof. exact atv_c11. Qed.
Print Assumptions C11_ATV.
Theorem C11_VTB : forall addr_norm, addr_norm_sound addr_norm -> c11_ok (c_vtb addr_norm).
Proof. exact vtb_c11. Qed.
Print Assumptions C11_VTB.
Theorem C11_PopData : forall addr_norm, addr_norm_sound addr_norm -> c11_ok (c_popdata addr_norm).
Proof. exact popdata_c11. Qed.
Print Assumptions C11_PopData.

(** Unconditional forms (no [fits] premise) where the canonical sizes of nested buffers are bounded structurally.
    [c11_full c] (Serde/FitsProofs.v) =
       (forall x r, wfd c x = true -> dec c (enc c x ++ r) = Value x r)
    /\ (forall bs x r r', dec c bs = Value x r -> dec c (enc c x ++ r') = Value x r')
    /\ (forall x, wfd c x = true -> esize c x = len (enc c x)).
    For VbkTx/VbkPopTx/ATV/VTB/PopData only the [c11_ok] form above is proved (they are the [_partial] ones):
    the full statement
       forall bs x r r', dec (c_vtb a) bs = Value x r -> dec (c_vtb a) (enc (c_vtb a) x ++ r') = Value x r'
    is FALSE at the size limits (the decoder accepts non-canonical encodings that are shorter than the canonical one). *)
Theorem C11_full_Address : forall addr_norm, addr_norm_sound addr_norm -> c11_full (c_address addr_norm).
Proof. exact address_full. Qed.
Print Assumptions C11_full_Address.
Theorem C11_full_Coin : c11_full c_coin.
Proof. exact coin_full. Qed.
Print Assumptions C11_full_Coin.
Theorem C11_full_Output : forall addr_norm, addr_norm_sound addr_norm -> c11_full (c_output addr_norm).
Proof. exact output_full. Qed.
Print Assumptions C11_full_Output.
Theorem C11_full_BtcTx : c11_full c_btctx.
Proof. exact btctx_full. Qed.
Print Assumptions C11_full_BtcTx.
Theorem C11_full_BtcBlock : c11_full c_btcblock.
Proof. exact btcblock_full. Qed.
Print Assumptions C11_full_BtcBlock.
Theorem C11_full_VbkBlock : c11_full c_vbkblock.
Proof. exact vbkblock_full. Qed.
Print Assumptions C11_full_VbkBlock.
Theorem C11_full_VbkMerklePath : c11_full c_vbkmerklepath.
Proof. exact vbkmerklepath_full. Qed.
Print Assumptions C11_full_VbkMerklePath.
Theorem C11_full_PublicationData : c11_full c_pubdata.
Proof. exact pubdata_full. Qed.
Print Assumptions C11_full_PublicationData.
Theorem C11_full_AltBlock : c11_full c_altblock.
Proof. exact altblock_full. Qed.
Print Assumptions C11_full_AltBlock.
Theorem C11_full_KeystoneContainer : c11_full c_keystones.
Proof. exact keystones_full. Qed.
Print Assumptions C11_full_KeystoneContainer.
Theorem C11_full_ContextInfoContainer : c11_full c_ctxinfo.
Proof. exact ctxinfo_full. Qed.
Print Assumptions C11_full_ContextInfoContainer.
Theorem C11_full_AuthenticatedContextInfoContainer : c11_full c_authctx.
Proof. exact authctx_full. Qed.
Print Assumptions C11_full_AuthenticatedContextInfoContainer.
Theorem C11_full_VbkEndorsement : c11_full c_vbk_endorsement.
Proof. exact vbk_endorsement_full. Qed.
Print Assumptions C11_full_VbkEndorsement.
Theorem C11_full_AltEndorsement : c11_full c_alt_endorsement.
Proof. exact alt_endorsement_full. Qed.
Print Assumptions C11_full_AltEndorsement.
Theorem C11_full_StoredBlockIndex_Btc : c11_full c_stored_btc.
Proof. exact stored_btc_full. Qed.
Print Assumptions C11_full_StoredBlockIndex_Btc.
Theorem C11_full_StoredBlockIndex_Vbk : c11_full c_stored_vbk.
Proof. exact stored_vbk_full. Qed.
Print Assumptions C11_full_StoredBlockIndex_Vbk.
Theorem C11_full_StoredBlockIndex_Alt : c11_full c_stored_alt.
Proof. exact stored_alt_full. Qed.
Print Assumptions C11_full_StoredBlockIndex_Alt.
Theorem C11_full_MerklePath : c11_full c_merklepath.
Proof. exact merklepath_full. Qed.
Print Assumptions C11_full_MerklePath.

(** Boundary statements of C11 that are FALSE for the code as it is; the witnesses are replayed on the
    implementation by ./check C11 (keys C11:pubdata-max-size-6-short, C11:noncanonical-at-size-limit). *)
Theorem C11_VbkTx_pubdata_max_size_refuted :
  wfd c_pubdata pub_max = true /\ fits c_pubdata pub_max = true /\
  len (enc c_pubdata pub_max) = MAX_PUBLICATIONDATA_SIZE + 6 /\
  fits c_pub_in_vbktx pub_max = false /\
  dec c_pub_in_vbktx (enc c_pub_in_vbktx pub_max) = Invalid.
Proof. exact pubdata_max_size_refuted. Qed.
Print Assumptions C11_VbkTx_pubdata_max_size_refuted.

Theorem C11_reencode_at_size_limit_refuted :
  (dec c_merklepath_raw mp0_short_raw = Value mp0 nil /\
   dec c_merklepath_raw (enc c_merklepath_raw mp0) = Value mp0 nil /\
   len (enc c_merklepath_raw mp0) = len mp0_short_raw + 4) /\
  (forall limit, 0 <= limit -> limit + 4 < 2 ^ 31 -> forall payload, len payload = limit + 4 ->
     dec (c_var_len 0 limit) (enc (c_var_len 0 limit) payload) = Invalid).
Proof. exact (conj noncanonical_shorter_refuted limit_plus_4_rejected). Qed.
Print Assumptions C11_reencode_at_size_limit_refuted.

(** ids / hashes are functions of the raw encodings only (abstract hash functions) *)
Theorem C11_ids_of_content : forall addr_norm sha256 sha256d progpow,
  (forall a b, enc c_vbkblock_raw a = enc c_vbkblock_raw b -> vbkblock_hash progpow a = vbkblock_hash progpow b) /\
  (forall a b, enc c_btcblock_raw a = enc c_btcblock_raw b -> btcblock_hash sha256d a = btcblock_hash sha256d b) /\
  (forall a b, vbktx_raw addr_norm a = vbktx_raw addr_norm b -> vbktx_hash addr_norm sha256 a = vbktx_hash addr_norm sha256 b) /\
  (forall a b, vbkpoptx_raw addr_norm a = vbkpoptx_raw addr_norm b ->
               vbkpoptx_hash addr_norm sha256 a = vbkpoptx_hash addr_norm sha256 b) /\
  (forall a b, vbktx_raw addr_norm (atv_tx a) = vbktx_raw addr_norm (atv_tx b) ->
               enc c_vbkblock_raw (atv_block a) = enc c_vbkblock_raw (atv_block b) ->
               atv_id addr_norm sha256 progpow a = atv_id addr_norm sha256 progpow b) /\
  (forall a b, ptx_btctx (vtb_tx a) = ptx_btctx (vtb_tx b) ->
               enc c_btcblock_raw (ptx_bop (vtb_tx a)) = enc c_btcblock_raw (ptx_bop (vtb_tx b)) ->
               enc c_vbkblock_raw (vtb_block a) = enc c_vbkblock_raw (vtb_block b) ->
               vtb_id sha256 sha256d progpow a = vtb_id sha256 sha256d progpow b).
Proof. exact ids_of_content. Qed.
Print Assumptions C11_ids_of_content.

(** memoised hashes (hash_ of VbkBlock / BtcBlock): any sequence of setters and getHash calls, starting from a fresh
    (decoded or constructed) object, answers hash(toRaw(current content)) — stated for every field type, raw encoding
    and hash function, hence in particular for [enc c_vbkblock_raw] / [enc c_btcblock_raw]. *)
Theorem C11_id_memo_transparent : forall (A : Type) (raw : A -> list byte) (hash : list byte -> list byte) ops m,
  inv A raw hash m -> List.Forall (fun p => fst p = hash (raw (snd p))) (run A raw hash m ops).
Proof. exact memo_transparent. Qed.
Print Assumptions C11_id_memo_transparent.

Theorem C11_id_memo_VbkBlock : forall progpow ops1 ops2 (x1 x2 : VbkBlock) h1 h2 c1 c2,
  List.In (h1, c1) (run VbkBlock (enc c_vbkblock_raw) progpow (fresh VbkBlock x1) ops1) ->
  List.In (h2, c2) (run VbkBlock (enc c_vbkblock_raw) progpow (fresh VbkBlock x2) ops2) ->
  enc c_vbkblock_raw c1 = enc c_vbkblock_raw c2 -> h1 = h2.
Proof. exact (fun progpow => memo_hash_of_content VbkBlock (enc c_vbkblock_raw) progpow). Qed.
Print Assumptions C11_id_memo_VbkBlock.

(** CountingContext (property C12's abstract container arithmetic, coq/Mempool/CountDefs.v) is tied to the PopData
    codec: [prefix] is singleBEValueSize, and [estimate] over the elements' estimateSize is the estimateSize of the
    PopData — each kind's length prefix priced from the counter of that kind; with codec_ok of PopData the running
    figure of CountingContext is the number of bytes toVbkEncoding() writes. *)
Theorem C11_counting_prefix_is_singleBEValueSize : forall n, (n < 2 ^ 63)%N ->
  single_be_size (Z.of_N n) = Z.of_N (CountDefs.prefix n).
Proof. exact prefix_is_single_be_size. Qed.
Print Assumptions C11_counting_prefix_is_singleBEValueSize.

Theorem C11_counting_estimate_is_popdata_esize : forall addr_norm p sv st sa,
  List.map Z.of_N sv = List.map (esize c_vbkblock) (pop_context p) ->
  List.map Z.of_N st = List.map (esize (c_vtb addr_norm)) (pop_vtbs p) ->
  List.map Z.of_N sa = List.map (esize (c_atv addr_norm)) (pop_atvs p) ->
  (CountDefs.len sv < 2 ^ 63)%N -> (CountDefs.len st < 2 ^ 63)%N -> (CountDefs.len sa < 2 ^ 63)%N ->
  Z.of_N (CountDefs.estimate sv st sa) = esize (c_popdata addr_norm) p.
Proof. exact counting_estimate_is_popdata_esize. Qed.
Print Assumptions C11_counting_estimate_is_popdata_esize.

Theorem C11_counting_figure_is_encoded_size : forall addr_norm, addr_norm_sound addr_norm -> forall p c r,
  CountProofs.agrees c r -> wfd (c_popdata addr_norm) p = true -> StreamDefs.fits (c_popdata addr_norm) p = true ->
  List.map Z.of_N (CountDefs.k_vbk r) = List.map (esize c_vbkblock) (pop_context p) ->
  List.map Z.of_N (CountDefs.k_vtb r) = List.map (esize (c_vtb addr_norm)) (pop_vtbs p) ->
  List.map Z.of_N (CountDefs.k_atv r) = List.map (esize (c_atv addr_norm)) (pop_atvs p) ->
  (CountDefs.len (CountDefs.k_vbk r) < 2 ^ 63)%N -> (CountDefs.len (CountDefs.k_vtb r) < 2 ^ 63)%N -> (CountDefs.len (CountDefs.k_atv r) < 2 ^ 63)%N ->
  Z.of_N (CountDefs.popsize c) = StreamDefs.len (enc (c_popdata addr_norm) p).
Proof. exact counting_figure_is_encoded_size. Qed.
Print Assumptions C11_counting_figure_is_encoded_size.

(** BFI bitcoin wire types (include/veriblock/bfi/bitcoin/serialize.hpp, transaction.hpp, block.hpp); model
    coq/Bfi/BfiDefs.v, proofs coq/Bfi/BfiProofs.v. A C++ exception is the outcome [Err kind].
    [codec_ok c wf] =
       (forall a tl, wf a -> dec c (enc c a ++ tl) = Ok a tl)                       round trip, tail untouched
    /\ (forall a, ssize c a = blen (enc c a))                                       GetSerializeSize = bytes written
    /\ (forall bs a rest, dec c bs = Ok a rest -> wf a /\ bs = enc c a ++ rest)     what decodes is canonical *)
From VB Require Bfi.BfiDefs Bfi.BfiProofs.

Theorem C11_bfi_compact_size_round_trip : forall n tl, (n <= BfiDefs.MAX_SIZE)%N ->
  BfiDefs.read_compact (BfiDefs.write_compact n ++ tl) = BfiDefs.Ok n tl.
Proof. exact BfiProofs.compact_round_trip. Qed.
Print Assumptions C11_bfi_compact_size_round_trip.

Theorem C11_bfi_compact_size_length : forall n,
  BfiDefs.blen (BfiDefs.write_compact n) = BfiDefs.size_of_compact n.
Proof. exact BfiProofs.compact_size_length. Qed.
Print Assumptions C11_bfi_compact_size_length.

Theorem C11_bfi_compact_size_canonical : forall bs n rest, BfiDefs.read_compact bs = BfiDefs.Ok n rest ->
  (n <= BfiDefs.MAX_SIZE)%N /\ bs = BfiDefs.write_compact n ++ rest.
Proof. exact BfiProofs.compact_canonical. Qed.
Print Assumptions C11_bfi_compact_size_canonical.

Theorem C11_bfi_compact_size_injective : forall n m r r', (n <= BfiDefs.MAX_SIZE)%N -> (m <= BfiDefs.MAX_SIZE)%N ->
  BfiDefs.write_compact n ++ r = BfiDefs.write_compact m ++ r' -> n = m /\ r = r'.
Proof. exact BfiProofs.compact_injective. Qed.
Print Assumptions C11_bfi_compact_size_injective.

Theorem C11_bfi_compact_size_le253_writer_refuted :
  ~ (forall n tl, (n <= BfiDefs.MAX_SIZE)%N ->
       BfiDefs.read_compact (BfiDefs.write_compact_le253 n ++ tl) = BfiDefs.Ok n tl) /\
  ~ (forall n, BfiDefs.blen (BfiDefs.write_compact_le253 n) = BfiDefs.size_of_compact n) /\
  ~ (forall n, (n <= BfiDefs.MAX_SIZE)%N -> exists rest,
       BfiDefs.read_compact (BfiDefs.write_compact_le253 n) = BfiDefs.Ok n rest).
Proof. exact BfiProofs.compact_le253_refuted. Qed.
Print Assumptions C11_bfi_compact_size_le253_writer_refuted.

Theorem C11_bfi_uint_le : forall k, BfiDefs.codec_ok (BfiDefs.c_uint k) (BfiDefs.wf_uint k).
Proof. exact BfiProofs.uint_ok. Qed.
Print Assumptions C11_bfi_uint_le.

Theorem C11_bfi_sint_le : forall k, BfiDefs.codec_ok (BfiDefs.c_sint k) (BfiDefs.wf_sint k).
Proof. exact BfiProofs.sint_ok. Qed.
Print Assumptions C11_bfi_sint_le.

Theorem C11_bfi_blob : forall k, BfiDefs.codec_ok (BfiDefs.c_blob k) (BfiDefs.wf_blob k).
Proof. exact BfiProofs.blob_ok. Qed.
Print Assumptions C11_bfi_blob.

Theorem C11_bfi_byte_vector : BfiDefs.codec_ok BfiDefs.c_bytes BfiDefs.wf_bytes.
Proof. exact BfiProofs.bytes_ok. Qed.
Print Assumptions C11_bfi_byte_vector.

Theorem C11_bfi_vector : forall A (c : BfiDefs.codec A) wf, BfiDefs.codec_ok c wf ->
  BfiDefs.codec_ok (BfiDefs.c_vec c) (BfiDefs.wf_vec wf).
Proof. exact BfiProofs.vec_ok. Qed.
Print Assumptions C11_bfi_vector.

Theorem C11_bfi_vector_loop : forall A (d : list Byte.byte -> BfiDefs.res A) n bs,
  BfiDefs.dec_count d n bs = BfiDefs.dec_rep d (N.to_nat n) bs.
Proof. exact BfiProofs.dec_count_rep. Qed.
Print Assumptions C11_bfi_vector_loop.

Theorem C11_bfi_stream_reads : forall k n bs,
  BfiDefs.read_le k bs = (if (length bs <? k)%nat then BfiDefs.Err BfiDefs.EEof
                          else BfiDefs.Ok (BfiDefs.le_val (firstn k bs)) (skipn k bs)) /\
  BfiDefs.read_bytes n bs = (if (BfiDefs.blen bs <? n)%N then BfiDefs.Err BfiDefs.EEof
                             else BfiDefs.Ok (firstn (N.to_nat n) bs) (skipn (N.to_nat n) bs)).
Proof. exact (fun k n bs => conj (BfiProofs.read_le_eq k bs) (BfiProofs.read_bytes_eq n bs)). Qed.
Print Assumptions C11_bfi_stream_reads.

Theorem C11_bfi_fields : forall A B (ca : BfiDefs.codec A) (cb : BfiDefs.codec B) wa wb,
  BfiDefs.codec_ok ca wa -> BfiDefs.codec_ok cb wb -> BfiDefs.codec_ok (BfiDefs.c_pair ca cb) (BfiDefs.wf_pair wa wb).
Proof. exact BfiProofs.pair_ok. Qed.
Print Assumptions C11_bfi_fields.

Theorem C11_bfi_canonical_encoding_injective : forall A (c : BfiDefs.codec A) wf, BfiDefs.codec_ok c wf ->
  forall x y r r', wf x -> wf y -> BfiDefs.enc c x ++ r = BfiDefs.enc c y ++ r' -> x = y /\ r = r'.
Proof. exact BfiProofs.codec_injective. Qed.
Print Assumptions C11_bfi_canonical_encoding_injective.

Theorem C11_bfi_reencode_stable : forall A (c : BfiDefs.codec A) wf, BfiDefs.codec_ok c wf ->
  forall bs x rest tl, BfiDefs.dec c bs = BfiDefs.Ok x rest -> BfiDefs.dec c (BfiDefs.enc c x ++ tl) = BfiDefs.Ok x tl.
Proof. exact BfiProofs.codec_reencode_stable. Qed.
Print Assumptions C11_bfi_reencode_stable.

Theorem C11_bfi_premises_satisfiable :
  let v := ((Byte.x01 :: Byte.x02 :: nil) :: nil :: List.repeat Byte.xff 253 :: nil) in
  BfiDefs.wf_vec BfiDefs.wf_bytes v /\
  BfiDefs.dec (BfiDefs.c_vec BfiDefs.c_bytes) (BfiDefs.enc (BfiDefs.c_vec BfiDefs.c_bytes) v ++ Byte.xaa :: nil)
    = BfiDefs.Ok v (Byte.xaa :: nil) /\
  BfiDefs.ssize (BfiDefs.c_vec BfiDefs.c_bytes) v = 261%N /\
  BfiDefs.blen (BfiDefs.enc (BfiDefs.c_vec BfiDefs.c_bytes) v) = 261%N.
Proof. exact BfiProofs.vec_bytes_nontrivial. Qed.
Print Assumptions C11_bfi_premises_satisfiable.

(** BFI wire types of transaction.hpp / block.hpp (coq/Bfi/BfiWire.v). [wf_tx allow] carries the two facts the
    format itself imposes: with witnesses allowed a transaction without inputs round-trips only without outputs
    (an empty vin is read as the extended-format marker; C11_bfi_tx_empty_vin_with_output_refuted), and under
    SERIALIZE_TRANSACTION_NO_WITNESS the witness stacks are not written. *)
From VB Require Bfi.BfiWire.

Theorem C11_bfi_OutPoint : BfiDefs.codec_ok BfiDefs.c_outpoint BfiDefs.wf_outpoint.
Proof. exact BfiWire.outpoint_ok. Qed.
Print Assumptions C11_bfi_OutPoint.

Theorem C11_bfi_TxIn : BfiDefs.codec_ok BfiDefs.c_txin BfiDefs.wf_txin.
Proof. exact BfiWire.txin_ok. Qed.
Print Assumptions C11_bfi_TxIn.

Theorem C11_bfi_TxOut : BfiDefs.codec_ok BfiDefs.c_txout BfiDefs.wf_txout.
Proof. exact BfiWire.txout_ok. Qed.
Print Assumptions C11_bfi_TxOut.

Theorem C11_bfi_ScriptWitness : BfiDefs.codec_ok BfiDefs.c_wstack BfiDefs.wf_wstack.
Proof. exact BfiWire.wstack_ok. Qed.
Print Assumptions C11_bfi_ScriptWitness.

Theorem C11_bfi_Transaction : forall allow_witness,
  BfiDefs.codec_ok (BfiDefs.c_tx allow_witness) (BfiDefs.wf_tx allow_witness).
Proof. exact BfiWire.tx_ok. Qed.
Print Assumptions C11_bfi_Transaction.

Theorem C11_bfi_BlockHeader : BfiDefs.codec_ok BfiDefs.c_header BfiDefs.wf_header.
Proof. exact BfiWire.header_ok. Qed.
Print Assumptions C11_bfi_BlockHeader.

Theorem C11_bfi_Block : forall allow_witness,
  BfiDefs.codec_ok (BfiDefs.c_block allow_witness) (BfiDefs.wf_block allow_witness).
Proof. exact BfiWire.block_ok. Qed.
Print Assumptions C11_bfi_Block.

Theorem C11_bfi_tx_empty_vin_with_output_refuted :
  let t := BfiDefs.mk_tx nil (BfiDefs.mk_txout 1%Z nil :: nil) 1%Z 0%N in
  BfiDefs.dec_tx true (BfiDefs.enc_tx true t) <> BfiDefs.Ok t nil /\
  BfiDefs.dec_tx false (BfiDefs.enc_tx false t) = BfiDefs.Ok t nil.
Proof. exact BfiWire.tx_empty_vin_with_output_refuted. Qed.
Print Assumptions C11_bfi_tx_empty_vin_with_output_refuted.

Theorem C11_bfi_tx_premises_satisfiable :
  let o := BfiDefs.mk_outpoint (List.repeat Byte.x11 32) 1%N in
  let tw := BfiDefs.mk_tx (BfiDefs.mk_txin o (Byte.xaa :: nil) 4294967295%N ((Byte.xff :: Byte.x4c :: nil) :: nil :: nil)
                           :: BfiDefs.mk_txin o nil 0%N nil :: nil)
                          (BfiDefs.mk_txout (-5)%Z (Byte.xbb :: nil) :: nil) 2%Z 7%N in
  let tp := BfiDefs.mk_tx (BfiDefs.mk_txin o (Byte.xaa :: nil) 4294967295%N nil :: nil)
                          (BfiDefs.mk_txout 4999990000%Z (List.repeat Byte.xcc 253) :: nil) 1%Z 0%N in
  BfiDefs.wf_tx true tw /\ BfiDefs.wf_tx true tp /\ BfiDefs.wf_tx false tp /\
  BfiDefs.dec_tx true (BfiDefs.enc_tx true tw ++ Byte.x01 :: nil) = BfiDefs.Ok tw (Byte.x01 :: nil) /\
  BfiDefs.enc_tx true tp = BfiDefs.enc_tx false tp.
Proof. exact BfiWire.tx_nontrivial. Qed.
Print Assumptions C11_bfi_tx_premises_satisfiable.

(** Address normalisation made concrete (Serde/AddrNorm.v, AddrNormProofs.v, AddrNormConcrete.v): [addr_norm_c18 sha256] is what
    DeserializeFromVbkEncoding(Address) computes, composed from the C18 text model (EncodeBase58|59 by wire type -> Address::fromString
    incl. length/'V'/alphabet/multisig m,n/checksum, type taken from the TEXT -> DecodeBase58|59 by that type). It satisfies the premise
    [addr_norm_sound] for every wire type, every byte string and every sha256 (no premise about sha256), so the address-carrying theorems
    above hold for it outright; only [sha256] stays abstract. *)
From VB Require Serde.AddrNorm Serde.AddrNormProofs Serde.AddrNormConcrete Text.AddressProofs.
Theorem C11_addr_norm_sound_discharged : forall sha256, addr_norm_sound (AddrNorm.addr_norm_c18 sha256).
Proof. exact AddrNormProofs.addr_norm_c18_sound. Qed.
Print Assumptions C11_addr_norm_sound_discharged.
Theorem C11_Address_concrete : forall sha256, c11_ok (c_address (AddrNorm.addr_norm_c18 sha256)).
Proof. exact AddrNormConcrete.address_c11_concrete. Qed.
Print Assumptions C11_Address_concrete.
Theorem C11_Output_concrete : forall sha256, c11_ok (c_output (AddrNorm.addr_norm_c18 sha256)).
Proof. exact AddrNormConcrete.output_c11_concrete. Qed.
Print Assumptions C11_Output_concrete.
Theorem C11_VbkTx_concrete : forall sha256, c11_ok (c_vbktx (AddrNorm.addr_norm_c18 sha256)).
Proof. exact AddrNormConcrete.vbktx_c11_concrete. Qed.
Print Assumptions C11_VbkTx_concrete.
Theorem C11_VbkPopTx_concrete : forall sha256, c11_ok (c_vbkpoptx (AddrNorm.addr_norm_c18 sha256)).
Proof. exact AddrNormConcrete.vbkpoptx_c11_concrete. Qed.
Print Assumptions C11_VbkPopTx_concrete.
Theorem C11_ATV_concrete : forall sha256, c11_ok (c_atv (AddrNorm.addr_norm_c18 sha256)).
Proof. exact AddrNormConcrete.atv_c11_concrete. Qed.
Print Assumptions C11_ATV_concrete.
Theorem C11_VTB_concrete : forall sha256, c11_ok (c_vtb (AddrNorm.addr_norm_c18 sha256)).
Proof. exact AddrNormConcrete.vtb_c11_concrete. Qed.
Print Assumptions C11_VTB_concrete.
Theorem C11_PopData_concrete : forall sha256, c11_ok (c_popdata (AddrNorm.addr_norm_c18 sha256)).
Proof. exact AddrNormConcrete.popdata_c11_concrete. Qed.
Print Assumptions C11_PopData_concrete.
Theorem C11_full_Address_concrete : forall sha256, c11_full (c_address (AddrNorm.addr_norm_c18 sha256)).
Proof. exact AddrNormConcrete.address_full_concrete. Qed.
Print Assumptions C11_full_Address_concrete.
Theorem C11_full_Output_concrete : forall sha256, c11_full (c_output (AddrNorm.addr_norm_c18 sha256)).
Proof. exact AddrNormConcrete.output_full_concrete. Qed.
Print Assumptions C11_full_Output_concrete.
Theorem C11_counting_figure_is_encoded_size_concrete : forall sha256 p c r,
  CountProofs.agrees c r ->
  wfd (c_popdata (AddrNorm.addr_norm_c18 sha256)) p = true -> StreamDefs.fits (c_popdata (AddrNorm.addr_norm_c18 sha256)) p = true ->
  List.map Z.of_N (CountDefs.k_vbk r) = List.map (esize c_vbkblock) (pop_context p) ->
  List.map Z.of_N (CountDefs.k_vtb r) = List.map (esize (c_vtb (AddrNorm.addr_norm_c18 sha256))) (pop_vtbs p) ->
  List.map Z.of_N (CountDefs.k_atv r) = List.map (esize (c_atv (AddrNorm.addr_norm_c18 sha256))) (pop_atvs p) ->
  (CountDefs.len (CountDefs.k_vbk r) < 2 ^ 63)%N -> (CountDefs.len (CountDefs.k_vtb r) < 2 ^ 63)%N -> (CountDefs.len (CountDefs.k_atv r) < 2 ^ 63)%N ->
  Z.of_N (CountDefs.popsize c) = StreamDefs.len (enc (c_popdata (AddrNorm.addr_norm_c18 sha256)) p).
Proof. exact AddrNormConcrete.counting_figure_is_encoded_size_concrete. Qed.
Print Assumptions C11_counting_figure_is_encoded_size_concrete.
(** not vacuous, and it does normalise (stub sha256 = AddressProofs.sha_demo): wire (1, base58 bytes) of a valid STANDARD text is accepted
    unchanged; wire (3, base59 bytes of the same text) is accepted as that STANDARD address, i.e. it is a second, non-canonical wire form
    (wfd = false for it); wire (1, those base59 bytes) is rejected *)
Theorem C11_addr_norm_concrete_nontrivial :
  AddrNorm.addr_norm_c18 AddressProofs.sha_demo 1 AddrNormConcrete.demo_b58 = Some (1, AddrNormConcrete.demo_b58) /\
  AddrNorm.addr_norm_c18 AddressProofs.sha_demo 3 AddrNormConcrete.demo_b59 = Some (1, AddrNormConcrete.demo_b58) /\
  AddrNorm.addr_norm_c18 AddressProofs.sha_demo 1 AddrNormConcrete.demo_b59 = None /\
  wfd (c_address (AddrNorm.addr_norm_c18 AddressProofs.sha_demo)) (mkAddress 1 AddrNormConcrete.demo_b58) = true /\
  wfd (c_address (AddrNorm.addr_norm_c18 AddressProofs.sha_demo)) (mkAddress 3 AddrNormConcrete.demo_b59) = false.
Proof. exact AddrNormConcrete.addr_norm_c18_nontrivial. Qed.
Print Assumptions C11_addr_norm_concrete_nontrivial.
