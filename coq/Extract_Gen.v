Require Extraction.
Require Import ExtrOcamlBasic.
From Coq Require Import ZArith NArith.
From VB Require Import Mempool.CountDefs Mempool.RelDefs Mempool.GenDefs.
Extraction "Gen_model.ml" Nat.pred N.succ Z.succ
  CountDefs.can_fit CountDefs.popsize CountDefs.update CountDefs.keep CountDefs.filter_fit CountDefs.est_kept
  CountDefs.fits CountDefs.c0 CountDefs.len CountDefs.estimate
  GenDefs.raw GenDefs.filterPop GenDefs.generatePop GenDefs.out_fits GenDefs.sort_rels.
