(** C07 — property theorems only.  [Inv_flags] is the part of Inv_tree proved for the model
    (proper tree, heights follow parents, failed parent => FAILED_CHILD, live blocks >= VALID_TREE).
    _partial: the conjuncts "tips = usable blocks without usable child", "active chain = root..tip, all ACTIVE,
    appliedBlockCount", "connected => ancestors connected", and the operations hdr / body / rmpl are not proved;
    they are checked on the implementation after every step by harness/invariants.hpp. *)
From Coq Require Import ZArith NArith List Bool.
From VB Require Import Tree.TreeDefs Tree.TreeInv Tree.TreePass Tree.TreeProofs.
Import ListNotations.

Theorem C07_init_alt : forall h, Inv_flags (alt_init h).
Proof. exact alt_init_inv. Qed.
Print Assumptions C07_init_alt.

Theorem C07_init_pow : forall h w, Inv_flags (pow_init h w).
Proof. exact pow_init_inv. Qed.
Print Assumptions C07_init_pow.

Theorem C07_step_partial : forall s o, Inv_flags s -> flag_op o -> Inv_flags (step s o).
Proof. exact step_inv_partial. Qed.
Print Assumptions C07_step_partial.

Theorem C07_run_partial : forall ops, Forall flag_op ops -> forall s, Inv_flags s -> Inv_flags (run s ops).
Proof. exact run_inv_partial. Qed.
Print Assumptions C07_run_partial.

(* a block is valid only if its parent is not failed *)
Theorem C07_valid_parent_not_failed :
  forall s, Inv_flags s -> forall p x q y,
    find_blk p (blocks s) = Some x -> bparent x = Some q -> find_blk q (blocks s) = Some y ->
    is_valid L_TREE (bst x) = true -> failed (bst y) = false.
Proof. exact valid_parent_not_failed. Qed.
Print Assumptions C07_valid_parent_not_failed.
