(** C07 — property theorems only.  [Inv_tree] is the part of the invariant proved for the model, for EVERY operation of
    both trees (hdr / body / set / inv / reval / rm / rmpl; ALT with empty payloads and the PoW tree), without _partial:
      Inv_flags : proper tree, heights follow parents, failed parent => FAILED_CHILD, live blocks >= VALID_TREE;
      S3_ok     : a removed block is at VALID_UNKNOWN, carries no ACTIVE / HAS_PAYLOADS and has only removed children;
      Tips_ok   : tips = { b | canBeATip b and no child canBeATip };
    together with [tip_ok]: the best chain root..tip runs through non-failed blocks only.
      lm_ok     : the validity level of a block never exceeds the level of its parent (connected => ancestors connected);
    [Inv_all] = Inv_tree + lm_ok + tip_ok is ONE invariant preserved by every operation.
    "ACTIVE <=> on the best chain" and "appliedBlockCount = |chain|" (invariants C1, C2 of harness/invariants.hpp) are
    proved at the end of this file on the as-coded POP state machine Pop/SmDefs.v, which has the unapply/apply/rollback
    loops of PopStateMachine::setState and comparePopScore: for EVERY reachable state (any history of connectBlock /
    setState / comparePopScore with any scorer, failing and rolled-back walks included)
      C07_active_iff_on_chain, C07_off_chain_not_applied, C07_chain_iff_applied_block : a block is flagged applied iff
        it is on the chain root..tip - nothing off the chain stays applied;
      C07_applied_count_exact, C07_applied_set_is_chain : appliedBlockCount = |chain| = number of ACTIVE blocks;
      C07_chain_is_parent_path, C07_parent_path_unique : the chain is exactly the parent path root..tip;
      C07_active_nonvacuous : a reachable state with forks off the chain.
    Not proved (checked on the implementation after every step by the invariant checker): the same two facts across
    invalidateSubtree / revalidateSubtree / removeSubtree / removePayloads / finalization - operations the POP machine
    model does not have; for the Tree model above, which has them, the ACTIVE / applied-count facts are not stated. *)
From Coq Require Import ZArith NArith List Bool.
From VB Require Import Tree.TreeDefs Tree.TreeInv Tree.TreePass Tree.TreeProofs Tree.TreeExact Tree.TreeMono
  Tree.TreeSteps Tree.TreeChain Tree.TreeTips Tree.TreeTipsOps Tree.TreeTipsUp Tree.TreeTipsAlt Tree.TreeDeleted Tree.TreeTipsAll Tree.TreeLevels Tree.TreeAll.
Import ListNotations.

Theorem C07_init_alt : forall h, Inv_flags (alt_init h) /\ tip_ok (alt_init h).
Proof. exact alt_init_good. Qed.
Print Assumptions C07_init_alt.

Theorem C07_init_pow : forall h w, Inv_flags (pow_init h w) /\ tip_ok (pow_init h w).
Proof. exact pow_init_good. Qed.
Print Assumptions C07_init_pow.

Theorem C07_step : forall s o, Inv_flags s /\ tip_ok s -> Inv_flags (step s o) /\ tip_ok (step s o).
Proof. exact step_good. Qed.
Print Assumptions C07_step.

Theorem C07_run : forall ops s, Inv_flags s /\ tip_ok s -> Inv_flags (run s ops) /\ tip_ok (run s ops).
Proof. exact run_good. Qed.
Print Assumptions C07_run.

(* Inv_tree = Inv_flags + S3 + tips conjunct: initial states, every step, every op list *)
Theorem C07_Inv_tree_init_alt : forall h, Inv_tree (alt_init h).
Proof. exact Inv_tree_init_alt. Qed.
Print Assumptions C07_Inv_tree_init_alt.

Theorem C07_Inv_tree_init_pow : forall h w, Inv_tree (pow_init h w).
Proof. exact Inv_tree_init_pow. Qed.
Print Assumptions C07_Inv_tree_init_pow.

Theorem C07_Inv_tree_step : forall s o, Inv_tree s -> Inv_tree (step s o).
Proof. exact Inv_tree_step. Qed.
Print Assumptions C07_Inv_tree_step.

Theorem C07_Inv_tree_run : forall ops s, Inv_tree s -> Inv_tree (run s ops).
Proof. exact Inv_tree_run. Qed.
Print Assumptions C07_Inv_tree_run.

(* everything at once: Inv_tree + level monotonicity + non-failed best-chain tip *)
Theorem C07_Inv_all_init_alt : forall h, Inv_all (alt_init h).
Proof. exact Inv_all_init_alt. Qed.
Print Assumptions C07_Inv_all_init_alt.

Theorem C07_Inv_all_init_pow : forall h w, Inv_all (pow_init h w).
Proof. exact Inv_all_init_pow. Qed.
Print Assumptions C07_Inv_all_init_pow.

Theorem C07_Inv_all_step : forall s o, Inv_all s -> Inv_all (step s o).
Proof. exact Inv_all_step. Qed.
Print Assumptions C07_Inv_all_step.

Theorem C07_Inv_all_run : forall ops s, Inv_all s -> Inv_all (run s ops).
Proof. exact Inv_all_run. Qed.
Print Assumptions C07_Inv_all_run.

(* a connected ALT block has only connected ancestors *)
Theorem C07_connected_ancestors :
  forall s, Inv_all s -> forall c x, find_blk c (blocks s) = Some x -> valid_upto L_CONNECTED (bst x) = true ->
  forall a z, In a (path (blocks s) c) -> find_blk a (blocks s) = Some z -> valid_upto L_CONNECTED (bst z) = true.
Proof. exact connected_ancestors_connected. Qed.
Print Assumptions C07_connected_ancestors.

(* a block is valid only if its parent is not failed; every child of a failed block is failed *)
Theorem C07_valid_parent_not_failed :
  forall s, Inv_flags s -> forall p x q y,
    find_blk p (blocks s) = Some x -> bparent x = Some q -> find_blk q (blocks s) = Some y ->
    is_valid L_TREE (bst x) = true -> failed (bst y) = false.
Proof. exact valid_parent_not_failed. Qed.
Print Assumptions C07_valid_parent_not_failed.

Theorem C07_failed_parent_failed_child :
  forall s, Inv_flags s -> forall p x q y,
    find_blk p (blocks s) = Some x -> bparent x = Some q -> find_blk q (blocks s) = Some y ->
    failed (bst y) = true -> fchild (bst x) = true.
Proof. exact failed_parent_failed_child. Qed.
Print Assumptions C07_failed_parent_failed_child.

(* every descendant of a failed block carries FAILED_CHILD *)
Theorem C07_descendants_of_failed :
  forall l t yt, wf l -> fl_ok l -> find_blk t l = Some yt -> failed (bst yt) = true ->
  forall p y, find_blk p l = Some y -> sub l t p = true -> p <> t -> fchild (bst y) = true.
Proof. exact desc_failed_fchild. Qed.
Print Assumptions C07_descendants_of_failed.

(* the best chain runs through non-failed blocks only *)
Theorem C07_best_chain_valid :
  forall s, Inv_flags s -> tip_ok s ->
  forall a z, In a (path (blocks s) (tip s)) -> find_blk a (blocks s) = Some z -> failed (bst z) = false.
Proof. exact chain_valid. Qed.
Print Assumptions C07_best_chain_valid.

(* ---- BLOCK_ACTIVE <=> on the active chain, appliedBlockCount, parent path ----
   As-coded POP state machine (Pop/SmDefs.v: applyBlock / unapplyBlock / unapplyWhile / unapply / apply with rollback /
   PopStateMachine::setState / comparator setState + overrideTip / comparePopScore; every assert an explicit Abort).
   [reachable base s]: s is produced from the bootstrapped tree by ANY history of connectBlock / setState /
   comparePopScore (any scorer, any keystone predicate), including failing walks that were rolled back.
   The Pop modules are required without Import (their names clash with the Tree model above). *)
From VB Require Pop.SmDefs Pop.SmProofs Pop.SmWf Pop.SmActive.

Theorem C07_active_iff_on_chain :
  forall base s, SmProofs.reachable base s ->
  forall b, In b (SmDefs.blocks _ _ s) ->
    (SmDefs.b_act _ b = true <-> In (SmDefs.b_id _ b) (SmWf.chain s)).
Proof. exact SmActive.active_iff_on_chain. Qed.
Print Assumptions C07_active_iff_on_chain.

(* nothing off the active chain stays applied *)
Theorem C07_off_chain_not_applied :
  forall base s, SmProofs.reachable base s ->
  forall b, In b (SmDefs.blocks _ _ s) -> ~ In (SmDefs.b_id _ b) (SmWf.chain s) -> SmDefs.b_act _ b = false.
Proof. exact SmActive.off_chain_not_applied. Qed.
Print Assumptions C07_off_chain_not_applied.

(* by ids: the chain consists of known blocks, exactly the applied ones *)
Theorem C07_chain_iff_applied_block :
  forall base s, SmProofs.reachable base s ->
  forall j, In j (SmWf.chain s) <->
            exists b, SmDefs.find SmDefs.ccmd (SmDefs.blocks _ _ s) j = Some b /\ SmDefs.b_act _ b = true.
Proof. exact SmActive.chain_iff_applied_block. Qed.
Print Assumptions C07_chain_iff_applied_block.

(* appliedBlockCount = |chain| = number of blocks flagged BLOCK_ACTIVE *)
Theorem C07_applied_count_exact :
  forall base s, SmProofs.reachable base s ->
    SmDefs.napp _ _ s = N.of_nat (length (SmWf.chain s)) /\
    SmDefs.napp _ _ s = N.of_nat (length (filter (SmDefs.b_act SmDefs.ccmd) (SmDefs.blocks _ _ s))).
Proof. exact SmActive.applied_count_exact. Qed.
Print Assumptions C07_applied_count_exact.

Theorem C07_applied_set_is_chain :
  forall base s, SmProofs.reachable base s ->
    Permutation.Permutation
      (map (SmDefs.b_id SmDefs.ccmd) (filter (SmDefs.b_act SmDefs.ccmd) (SmDefs.blocks _ _ s))) (SmWf.chain s).
Proof. exact SmActive.applied_set_is_chain. Qed.
Print Assumptions C07_applied_set_is_chain.

(* the chain (listed tip first; reversed: root..tip) is the parent path: starts at the root, ends at the tip, known
   blocks only, each element's parent is the element before it at height root + position, no block twice
   (SmActive.is_parent_path) - and it is the only list with these properties *)
Theorem C07_chain_is_parent_path :
  forall base s, SmProofs.reachable base s -> SmActive.is_parent_path s (rev (SmWf.chain s)).
Proof. exact SmActive.chain_is_parent_path. Qed.
Print Assumptions C07_chain_is_parent_path.

Theorem C07_parent_path_unique :
  forall base s, SmProofs.reachable base s -> forall p, SmActive.is_parent_path s p -> p = rev (SmWf.chain s).
Proof. exact SmActive.parent_path_unique. Qed.
Print Assumptions C07_parent_path_unique.

(* non-vacuity: a reachable state (after a rolled-back failing setState and comparisons with either verdict) with
   chain 0-3-15, block 6 on an abandoned fork not applied *)
Theorem C07_active_nonvacuous :
  exists s, SmProofs.reachable SmProofs.ex_base s /\ SmWf.chain s = [15; 3; 0]%N /\ SmDefs.napp _ _ s = 3%N /\
            length (SmDefs.blocks _ _ s) = 6%nat /\
            SmActive.is_parent_path s [0; 3; 15]%N /\
            (exists b, In b (SmDefs.blocks _ _ s) /\ SmDefs.b_id _ b = 6%N /\
                       ~ In (SmDefs.b_id _ b) (SmWf.chain s) /\ SmDefs.b_act _ b = false) /\
            (exists b, In b (SmDefs.blocks _ _ s) /\ SmDefs.b_id _ b = 15%N /\
                       In (SmDefs.b_id _ b) (SmWf.chain s) /\ SmDefs.b_act _ b = true).
Proof. exact SmActive.ex_fork_state. Qed.
Print Assumptions C07_active_nonvacuous.
