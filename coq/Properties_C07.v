(** C07 — property theorems only.  [Inv_tree] is the part of the invariant proved for the model, for EVERY operation of
    both trees (hdr / body / set / inv / reval / rm / rmpl; ALT with empty payloads and the PoW tree), without _partial:
      Inv_flags : proper tree, heights follow parents, failed parent => FAILED_CHILD, live blocks >= VALID_TREE;
      S3_ok     : a removed block is at VALID_UNKNOWN, carries no ACTIVE / HAS_PAYLOADS and has only removed children;
      Tips_ok   : tips = { b | canBeATip b and no child canBeATip };
    together with [tip_ok]: the best chain root..tip runs through non-failed blocks only.
      lm_ok     : the validity level of a block never exceeds the level of its parent (connected => ancestors connected);
    [Inv_all] = Inv_tree + lm_ok + tip_ok is ONE invariant preserved by every operation.
    Not proved in the model (checked on the implementation after every step by harness/invariants.hpp C1, C2):
    "ACTIVE <=> on the best chain" and "appliedBlockCount = |chain|" (they need the unapply/apply loops of
    PopStateMachine::setState related to the parent paths of both tips). *)
From Coq Require Import ZArith NArith List Bool.
From VB Require Import Tree.TreeDefs Tree.TreeInv Tree.TreePass Tree.TreeProofs Tree.TreeExact Tree.TreeMono
  Tree.TreeSteps Tree.TreeChain Tree.TreeTips Tree.TreeTipsOps Tree.TreeTipsUp Tree.TreeTipsAlt Tree.TreeDeleted Tree.TreeTipsAll Tree.TreeLevels Tree.TreeAll.
Import ListNotations.

Theorem C07_init_alt : forall h, Inv_flags (alt_init h) /\ tip_ok (alt_init h).
Proof. exact alt_init_good. Qed.
Print Assumptions C07_init_alt.

Theorem C07_init_pow : forall h w, Inv_flags (pow_init h w) /\ tip_ok (pow_init h w).
Proof. exact pow_init_good. Qed.
Print Assumptions C07_init_pow.

Theorem C07_step : forall s o, Inv_flags s /\ tip_ok s -> Inv_flags (step s o) /\ tip_ok (step s o).
Proof. exact step_good. Qed.
Print Assumptions C07_step.

Theorem C07_run : forall ops s, Inv_flags s /\ tip_ok s -> Inv_flags (run s ops) /\ tip_ok (run s ops).
Proof. exact run_good. Qed.
Print Assumptions C07_run.

(* Inv_tree = Inv_flags + S3 + tips conjunct: initial states, every step, every op list *)
Theorem C07_Inv_tree_init_alt : forall h, Inv_tree (alt_init h).
Proof. exact Inv_tree_init_alt. Qed.
Print Assumptions C07_Inv_tree_init_alt.

Theorem C07_Inv_tree_init_pow : forall h w, Inv_tree (pow_init h w).
Proof. exact Inv_tree_init_pow. Qed.
Print Assumptions C07_Inv_tree_init_pow.

Theorem C07_Inv_tree_step : forall s o, Inv_tree s -> Inv_tree (step s o).
Proof. exact Inv_tree_step. Qed.
Print Assumptions C07_Inv_tree_step.

Theorem C07_Inv_tree_run : forall ops s, Inv_tree s -> Inv_tree (run s ops).
Proof. exact Inv_tree_run. Qed.
Print Assumptions C07_Inv_tree_run.

(* everything at once: Inv_tree + level monotonicity + non-failed best-chain tip *)
Theorem C07_Inv_all_init_alt : forall h, Inv_all (alt_init h).
Proof. exact Inv_all_init_alt. Qed.
Print Assumptions C07_Inv_all_init_alt.

Theorem C07_Inv_all_init_pow : forall h w, Inv_all (pow_init h w).
Proof. exact Inv_all_init_pow. Qed.
Print Assumptions C07_Inv_all_init_pow.

Theorem C07_Inv_all_step : forall s o, Inv_all s -> Inv_all (step s o).
Proof. exact Inv_all_step. Qed.
Print Assumptions C07_Inv_all_step.

Theorem C07_Inv_all_run : forall ops s, Inv_all s -> Inv_all (run s ops).
Proof. exact Inv_all_run. Qed.
Print Assumptions C07_Inv_all_run.

(* a connected ALT block has only connected ancestors *)
Theorem C07_connected_ancestors :
  forall s, Inv_all s -> forall c x, find_blk c (blocks s) = Some x -> valid_upto L_CONNECTED (bst x) = true ->
  forall a z, In a (path (blocks s) c) -> find_blk a (blocks s) = Some z -> valid_upto L_CONNECTED (bst z) = true.
Proof. exact connected_ancestors_connected. Qed.
Print Assumptions C07_connected_ancestors.

(* a block is valid only if its parent is not failed; every child of a failed block is failed *)
Theorem C07_valid_parent_not_failed :
  forall s, Inv_flags s -> forall p x q y,
    find_blk p (blocks s) = Some x -> bparent x = Some q -> find_blk q (blocks s) = Some y ->
    is_valid L_TREE (bst x) = true -> failed (bst y) = false.
Proof. exact valid_parent_not_failed. Qed.
Print Assumptions C07_valid_parent_not_failed.

Theorem C07_failed_parent_failed_child :
  forall s, Inv_flags s -> forall p x q y,
    find_blk p (blocks s) = Some x -> bparent x = Some q -> find_blk q (blocks s) = Some y ->
    failed (bst y) = true -> fchild (bst x) = true.
Proof. exact failed_parent_failed_child. Qed.
Print Assumptions C07_failed_parent_failed_child.

(* every descendant of a failed block carries FAILED_CHILD *)
Theorem C07_descendants_of_failed :
  forall l t yt, wf l -> fl_ok l -> find_blk t l = Some yt -> failed (bst yt) = true ->
  forall p y, find_blk p l = Some y -> sub l t p = true -> p <> t -> fchild (bst y) = true.
Proof. exact desc_failed_fchild. Qed.
Print Assumptions C07_descendants_of_failed.

(* the best chain runs through non-failed blocks only *)
Theorem C07_best_chain_valid :
  forall s, Inv_flags s -> tip_ok s ->
  forall a z, In a (path (blocks s) (tip s)) -> find_blk a (blocks s) = Some z -> failed (bst z) = false.
Proof. exact chain_valid. Qed.
Print Assumptions C07_best_chain_valid.
