(** Proofs about the ValueSortedMap model: after ANY operation sequence the
    multiset of set values equals the multiset of map values, the set is
    sorted by the comparator and the sizes agree, so none of the C++
    assertions fires. The pre-913f84f9 erase is refuted by a witness. *)
From Coq Require Import List NArith Bool Lia Permutation PeanoNat.
From VB Require Import Mempool.VsmDefs.
Import ListNotations.
Local Open Scope N_scope.

Section P.
  Variable height : N -> N.
  Notation lt := (lt height).
  Notation ms_insert := (ms_insert height).
  Notation ms_erase_exact := (ms_erase_exact height).
  Notation sorted := (sorted height).

  Lemma lt_irrefl a : lt a a = false.
  Proof. unfold VsmDefs.lt. apply N.ltb_irrefl. Qed.

  Lemma ms_insert_perm v s : Permutation (ms_insert v s) (v :: s).
  Proof.
    induction s as [|x r IH]; cbn [VsmDefs.ms_insert]; [reflexivity|].
    destruct (lt v x); [reflexivity|].
    rewrite IH. apply perm_swap.
  Qed.

  Lemma forallb_perm (f : N -> bool) l l' : Permutation l l' -> forallb f l = true -> forallb f l' = true.
  Proof.
    intros P H. rewrite forallb_forall in *. intros y Hy. apply H.
    eapply Permutation_in; [symmetry; exact P | exact Hy].
  Qed.

  Lemma ms_insert_sorted v s : sorted s = true -> sorted (ms_insert v s) = true.
  Proof.
    induction s as [|x r IH]; cbn [VsmDefs.ms_insert VsmDefs.sorted]; intro H.
    - reflexivity.
    - apply andb_true_iff in H. destruct H as [H1 H2].
      destruct (lt v x) eqn:E.
      + cbn [VsmDefs.sorted forallb]. rewrite H1, H2.
        assert (negb (lt x v) = true) as ->.
        { unfold VsmDefs.lt in *. apply N.ltb_lt in E. apply negb_true_iff, N.ltb_ge. lia. }
        cbn [andb].
        rewrite andb_true_r.
        rewrite forallb_forall in *. intros y Hy. specialize (H1 y Hy).
        unfold VsmDefs.lt in *. apply N.ltb_lt in E. apply negb_true_iff in H1. apply N.ltb_ge in H1.
        apply negb_true_iff, N.ltb_ge. lia.
      + cbn [VsmDefs.sorted]. rewrite (IH H2), andb_true_r.
        apply forallb_perm with (l := v :: r); [symmetry; apply ms_insert_perm|].
        cbn [forallb]. rewrite H1, E. reflexivity.
  Qed.

  Lemma ms_erase_exact_spec v s :
    sorted s = true -> In v s ->
    exists s', ms_erase_exact v s = Some s' /\ Permutation s (v :: s') /\ sorted s' = true.
  Proof.
    induction s as [|x r IH]; intros Hs Hin; [destruct Hin|].
    cbn [VsmDefs.sorted] in Hs. apply andb_true_iff in Hs. destruct Hs as [H1 H2].
    cbn [VsmDefs.ms_erase_exact].
    destruct (lt x v) eqn:E1.
    - assert (In v r) as Hr.
      { destruct Hin as [->|]; [rewrite lt_irrefl in E1; discriminate | assumption]. }
      destruct (IH H2 Hr) as (s' & -> & P & S). exists (x :: s'). cbn [option_map]. split; [reflexivity|]. split.
      + rewrite P. apply perm_swap.
      + cbn [VsmDefs.sorted]. rewrite S, andb_true_r.
        apply forallb_perm with (l' := v :: s') in H1; [|exact P]. cbn [forallb] in H1.
        apply andb_true_iff in H1. apply H1.
    - destruct (lt v x) eqn:E2.
      + exfalso. destruct Hin as [->|Hr]; [rewrite lt_irrefl in E2; discriminate|].
        rewrite forallb_forall in H1. specialize (H1 v Hr). rewrite E2 in H1. discriminate.
      + destruct (x =? v) eqn:E3.
        * apply N.eqb_eq in E3. subst x. exists r. repeat split; [reflexivity | exact H2].
        * assert (In v r) as Hr.
          { destruct Hin as [->|]; [rewrite N.eqb_refl in E3; discriminate | assumption]. }
          destruct (IH H2 Hr) as (s' & -> & P & S). exists (x :: s'). cbn [option_map]. split; [reflexivity|]. split.
          -- rewrite P. apply perm_swap.
          -- cbn [VsmDefs.sorted]. rewrite S, andb_true_r.
             apply forallb_perm with (l' := v :: s') in H1; [|exact P]. cbn [forallb] in H1.
             apply andb_true_iff in H1. apply H1.
  Qed.

  (** the association list *)
  Lemma m_find_remove_perm k m v :
    m_find k m = Some v -> Permutation (map snd m) (v :: map snd (m_remove k m)).
  Proof.
    induction m as [|[k' v'] r IH]; cbn [m_find m_remove map snd]; [discriminate|].
    destruct (k' =? k); intro H.
    - injection H as ->. reflexivity.
    - cbn [map snd]. rewrite (IH H). apply perm_swap.
  Qed.

  Lemma m_set_found_perm k v m old :
    m_find k m = Some old -> Permutation (map snd (m_set k v m)) (v :: map snd (m_remove k m)).
  Proof.
    induction m as [|[k' v'] r IH]; cbn [m_find m_remove m_set map snd]; [discriminate|].
    destruct (k' =? k); intro H.
    - reflexivity.
    - cbn [map snd]. rewrite (IH H). apply perm_swap.
  Qed.

  Lemma m_set_fresh_perm k v m :
    m_find k m = None -> Permutation (map snd (m_set k v m)) (v :: map snd m).
  Proof.
    induction m as [|[k' v'] r IH]; cbn [m_find m_set map snd]; [reflexivity|].
    destruct (k' =? k); [discriminate|]. intro H.
    cbn [map snd]. rewrite (IH H). apply perm_swap.
  Qed.

  Lemma m_find_in k m v : m_find k m = Some v -> In v (map snd m).
  Proof.
    intro H. apply m_find_remove_perm in H. eapply Permutation_in; [symmetry; exact H | left; reflexivity].
  Qed.

  (** keys stay unique *)
  Lemma m_remove_keys_incl k m x : In x (map fst (m_remove k m)) -> In x (map fst m).
  Proof.
    induction m as [|[k' v'] r IH]; cbn [m_remove map fst]; [tauto|].
    destruct (k' =? k); cbn [map fst In]; tauto.
  Qed.
  Lemma m_remove_nodup k m : NoDup (map fst m) -> NoDup (map fst (m_remove k m)).
  Proof.
    induction m as [|[k' v'] r IH]; cbn [m_remove map fst]; intro H; [constructor|].
    inversion H; subst. destruct (k' =? k); [assumption|].
    cbn [map fst]. constructor; [|auto]. intro X. apply m_remove_keys_incl in X. contradiction.
  Qed.
  Lemma m_set_keys k v m x : In x (map fst (m_set k v m)) -> x = k \/ In x (map fst m).
  Proof.
    induction m as [|[k' v'] r IH]; cbn [m_set map fst In]; [intuition auto|].
    destruct (k' =? k) eqn:E; cbn [map fst In].
    - apply N.eqb_eq in E. subst. intuition auto.
    - intros [->|H]; [tauto|]. destruct (IH H); tauto.
  Qed.
  Lemma m_set_nodup k v m : NoDup (map fst m) -> NoDup (map fst (m_set k v m)).
  Proof.
    induction m as [|[k' v'] r IH]; cbn [m_set map fst]; intro H.
    - constructor; [intros []|constructor].
    - inversion H; subst. destruct (k' =? k) eqn:E.
      + apply N.eqb_eq in E. subst. cbn [map fst]. constructor; assumption.
      + cbn [map fst]. constructor; [|auto]. intro X. apply m_set_keys in X.
        destruct X as [->|X]; [rewrite N.eqb_refl in E; discriminate | contradiction].
  Qed.

  Definition Inv (s : vsm) : Prop :=
    Permutation (vset s) (map snd (vmap s)) /\ sorted (vset s) = true /\ NoDup (map fst (vmap s)).

  Lemma inv_checked s : Inv s -> checked s = Ok s.
  Proof.
    intros (P & _). unfold checked.
    rewrite (Permutation_length P), map_length, Nat.eqb_refl. reflexivity.
  Qed.

  Lemma inv_empty : Inv empty.
  Proof. repeat split; cbn; constructor. Qed.

  Lemma erase_inv k s : Inv s -> exists s', erase height k s = Ok s' /\ Inv s'.
  Proof.
    intros (P & S & ND). unfold erase, erase_with.
    destruct (m_find k (vmap s)) as [v|] eqn:F; [|exists s; split; [reflexivity | repeat split; assumption]].
    assert (In v (vset s)) as Hin.
    { eapply Permutation_in; [symmetry; exact P | eapply m_find_in; exact F]. }
    destruct (ms_erase_exact_spec v (vset s) S Hin) as (s' & -> & P' & S').
    assert (Inv (mk s' (m_remove k (vmap s)))) as I.
    { repeat split; cbn [vset vmap]; [|assumption|apply m_remove_nodup; assumption].
      apply Permutation_cons_inv with (a := v).
      rewrite <- P', P. apply m_find_remove_perm. exact F. }
    exists (mk s' (m_remove k (vmap s))). split; [apply inv_checked; exact I | exact I].
  Qed.

  Lemma insert_inv k v s : Inv s -> exists s', insert height k v s = Ok s' /\ Inv s'.
  Proof.
    intros (P & S & ND). unfold insert, insert_with.
    destruct (m_find k (vmap s)) as [old|] eqn:F.
    - assert (In old (vset s)) as Hin.
      { eapply Permutation_in; [symmetry; exact P | eapply m_find_in; exact F]. }
      destruct (ms_erase_exact_spec old (vset s) S Hin) as (s' & -> & P' & S').
      assert (Inv (mk (ms_insert v s') (m_set k v (vmap s)))) as I.
      { repeat split; cbn [vset vmap]; [|apply ms_insert_sorted; assumption|apply m_set_nodup; assumption].
        rewrite ms_insert_perm, (m_set_found_perm k v _ old F). constructor.
        apply Permutation_cons_inv with (a := old).
        rewrite <- P', P. apply m_find_remove_perm. exact F. }
      eexists. split; [apply inv_checked; exact I | exact I].
    - assert (Inv (mk (ms_insert v (vset s)) (m_set k v (vmap s)))) as I.
      { repeat split; cbn [vset vmap]; [|apply ms_insert_sorted; assumption|apply m_set_nodup; assumption].
        rewrite ms_insert_perm, (m_set_fresh_perm k v _ F). constructor. exact P. }
      eexists. split; [apply inv_checked; exact I | exact I].
  Qed.

  Lemma step_inv s o : Inv s -> exists s', step height s o = Ok s' /\ Inv s'.
  Proof.
    intro I. destruct o as [k v|k|]; cbn [step].
    - apply insert_inv; assumption.
    - apply erase_inv; assumption.
    - unfold clear. rewrite (inv_checked s I). exists empty. split; [reflexivity | apply inv_empty].
  Qed.

  Lemma run_inv ops : forall s, Inv s -> exists s', run height s ops = Ok s' /\ Inv s'.
  Proof.
    induction ops as [|o r IH]; intros s I; cbn [run run_with].
    - exists s. split; [reflexivity | assumption].
    - destruct (step_inv s o I) as (s1 & E & I1). unfold run in *. rewrite E. apply IH. exact I1.
  Qed.

  (** the theorem: any operation sequence from the empty container succeeds (no assertion fires) and leaves the
      two views in step *)
  Theorem vsm_refines_map_lemma :
    forall ops, exists s,
      run height empty ops = Ok s /\
      Permutation (vset s) (map snd (vmap s)) /\
      sorted (vset s) = true /\
      length (vset s) = length (vmap s) /\
      NoDup (map fst (vmap s)).
  Proof.
    intro ops. destruct (run_inv ops empty inv_empty) as (s & E & (P & S & ND)).
    exists s. repeat split; try assumption.
    rewrite (Permutation_length P), map_length. reflexivity.
  Qed.
End P.

(** The code before commit 913f84f9 (erase the FIRST equivalent element): with a comparator on v/10,
    insert(1,11), insert(2,12), erase(2) leaves 12 in the sorted view and 11 in the map. *)
Definition h10 (v : N) : N := v / 10.
Lemma vsm_v0_refuted_lemma :
  exists ops s, run_v0 h10 empty ops = Ok s /\ ~ Permutation (vset s) (map snd (vmap s)).
Proof.
  exists [Insert 1 11; Insert 2 12; Erase 2], (mk [12] [(1, 11)]).
  split; [vm_compute; reflexivity|].
  cbn. intro P. apply Permutation_length_1 in P. discriminate.
Qed.
(** the same sequence on the code as it is now *)
Example vsm_now_witness :
  run h10 empty [Insert 1 11; Insert 2 12; Erase 2] = Ok (mk [11] [(1, 11)]).
Proof. vm_compute. reflexivity. Qed.
