(** Proofs about the abstract pool (PoolDefs.v). *)
From Coq Require Import List NArith Bool Lia Permutation PeanoNat.
From VB Require Import Mempool.VsmDefs Mempool.VsmProofs Mempool.PoolDefs.
Import ListNotations.
Local Open Scope N_scope.

(** ** erase while iterating *)
Lemma iterate_safe act nodes :
  (forall a, In a nodes -> act a <> EraseThenUse) ->
  iterate act nodes = Done (filter (fun a => match act a with Keep => true | _ => false end) nodes).
Proof.
  induction nodes as [|a r IH]; intro H; cbn [iterate filter]; [reflexivity|].
  assert (forall a0, In a0 r -> act a0 <> EraseThenUse) as Hr by (intros; apply H; right; assumption).
  specialize (H a (or_introl eq_refl)).
  destruct (act a); [rewrite (IH Hr); reflexivity | apply IH; exact Hr | contradiction].
Qed.

Lemma erase_while_iterating_safe_lemma :
  (forall atvs stored, cleanup_tooold atvs stored =
                       Done (filter (fun x => negb (existsb (N.eqb x) atvs)) stored)) /\
  (forall valid nodes, cleanup_stale valid nodes = Done (filter valid nodes)).
Proof.
  split.
  - intros atvs stored. unfold cleanup_tooold. rewrite iterate_safe by (intros; discriminate).
    replace (filter (fun _ : N => true) atvs) with atvs; [reflexivity|].
    induction atvs as [|a r IH]; cbn [filter]; [reflexivity | rewrite <- IH; reflexivity].
  - intros valid nodes. unfold cleanup_stale. rewrite iterate_safe.
    + f_equal. apply filter_ext. intro a. destruct (valid a); reflexivity.
    + intros a _. destruct (valid a); discriminate.
Qed.

Lemma cleanup_v0_uaf_refuted_lemma :
  forall a atvs stored, cleanup_tooold_v0 (a :: atvs) stored = Uaf.
Proof. reflexivity. Qed.

Lemma mem_In x l : mem x l = true <-> In x l.
Proof.
  unfold mem. rewrite existsb_exists. split.
  - intros (y & Hy & E). apply N.eqb_eq in E. subst. exact Hy.
  - intro H. exists x. split; [exact H | apply N.eqb_refl].
Qed.
Lemma mem_false x l : mem x l = false <-> ~ In x l.
Proof. rewrite <- mem_In. destruct (mem x l); intuition congruence. Qed.


(** ** one pass in height order connects everything connectable *)
Section Pass.
  Variable ht : N -> N.
  Variable par : N -> N.
  Variable blk : N -> N.
  Variable hb : N -> N.     (* height of a VBK block *)

  Lemma pass_conn base stale l : forall c c' k,
    pass par blk base stale l c = (c', k) ->
    (forall x, In x c' -> In x c \/ In x l) /\ (forall x, In x c -> In x c') /\
    (forall x, In x l -> In x c' \/ In x k) /\ (forall x, In x k -> In x l).
  Proof.
    induction l as [|p r IH]; intros c c' k; cbn [pass].
    - intro H. injection H as <- <-. repeat split; intros; cbn in *; tauto.
    - destruct (negb (mem p stale) && present blk base c (par p)).
      + intro H. destruct (IH _ _ _ H) as (A & B & C & D). repeat split; intros x Hx.
        * destruct (A x Hx) as [[->|]|]; cbn; tauto.
        * apply B. right. exact Hx.
        * destruct Hx as [->|Hx]; [left; apply B; left; reflexivity | apply C; exact Hx].
        * right. apply D. exact Hx.
      + destruct (pass par blk base stale r c) as [c2 k2] eqn:E. intro H. injection H as <- <-.
        destruct (IH _ _ _ E) as (A & B & C & D). repeat split; intros x Hx.
        * destruct (A x Hx); cbn; tauto.
        * apply B. exact Hx.
        * destruct Hx as [->|Hx]; [right; left; reflexivity|]. destruct (C x Hx); [left | right; right]; assumption.
        * destruct Hx as [->|Hx]; [left; reflexivity | right; apply D; exact Hx].
  Qed.

  (** height-sortedness: context blocks come before their dependants *)
  Lemma pass_complete_lemma base stale :
    (forall q, hb (blk q) = ht q) -> (forall q, hb (par q) < ht q) ->
    forall l c c' k,
      sorted ht l = true ->
      pass par blk base stale l c = (c', k) ->
      forall p, In p k -> mem p stale = false -> present blk base c' (par p) = false.
  Proof.
    intros Hblk Hpar. induction l as [|p0 r IH]; intros c c' k S; cbn [pass].
    - intro H. injection H as <- <-. intros p [].
    - cbn [sorted] in S. apply andb_true_iff in S. destruct S as [S1 S2].
      destruct (negb (mem p0 stale) && present blk base c (par p0)) eqn:Cnd.
      + intro H. apply (IH _ _ _ S2 H).
      + destruct (pass par blk base stale r c) as [c2 k2] eqn:E. intro H. injection H as <- <-.
        intros p [<-|Hp] Hst; [|apply (IH _ _ _ S2 E p Hp Hst)].
        rewrite Hst in Cnd. cbn [negb andb] in Cnd.
        unfold present in *. apply orb_false_iff in Cnd. destruct Cnd as [C1 C2].
        rewrite C1. cbn [orb]. apply mem_false. intro X.
        apply in_map_iff in X. destruct X as (q & Bq & Xq).
        destruct (pass_conn _ _ _ _ _ _ E) as (A & _).
        destruct (A _ Xq) as [Y|Y].
        * apply mem_false in C2. apply C2. apply in_map_iff. exists q. split; assumption.
        * rewrite forallb_forall in S1. specialize (S1 _ Y).
          unfold lt in S1. apply negb_true_iff, N.ltb_ge in S1.
          pose proof (Hpar p0) as H1. pose proof (Hblk q) as H2. rewrite Bq in H2. lia.
  Qed.
End Pass.

(** ** the pool invariant *)
Section Inv.
  Variable ht : N -> N.
  Variable par : N -> N.
  Variable blk : N -> N.
  Notation Inv := (Inv ht).
  Notation submit := (submit ht par blk).
  Notation connect_pass := (connect_pass ht par blk).

  (* association-list facts *)
  Lemma m_remove_absent k m : m_find k m = None -> m_remove k m = m.
  Proof.
    induction m as [|[k' v'] r IH]; cbn [m_find m_remove]; [reflexivity|].
    destruct (k' =? k); [discriminate|]. intro H. rewrite (IH H). reflexivity.
  Qed.
  Lemma m_find_remove_other q k m : q <> k -> m_find q (m_remove k m) = m_find q m.
  Proof.
    intro Hq. induction m as [|[k' v'] r IH]; cbn [m_find m_remove]; [reflexivity|].
    destruct (k' =? k) eqn:E.
    - apply N.eqb_eq in E. subst k'. destruct (k =? q) eqn:E2; [apply N.eqb_eq in E2; congruence | reflexivity].
    - cbn [m_find]. rewrite IH. reflexivity.
  Qed.
  Lemma m_find_in_keys q m : In q (map fst m) -> m_find q m <> None.
  Proof.
    induction m as [|[k' v'] r IH]; cbn [m_find map fst In]; [tauto|].
    intros [->|H]; [rewrite N.eqb_refl; discriminate|].
    destruct (k' =? q); [discriminate | apply IH; exact H].
  Qed.
  Lemma m_find_keys q m v : m_find q m = Some v -> In q (map fst m).
  Proof.
    induction m as [|[k' v'] r IH]; cbn [m_find map fst In]; [discriminate|].
    destruct (k' =? q) eqn:E; [apply N.eqb_eq in E; left; exact E | intro H; right; apply IH; exact H].
  Qed.
  Lemma m_find_remove_same k m : NoDup (map fst m) -> m_find k (m_remove k m) = None.
  Proof.
    induction m as [|[k' v'] r IH]; cbn [m_find m_remove map fst]; intro ND; [reflexivity|].
    inversion ND; subst. destruct (k' =? k) eqn:E.
    - apply N.eqb_eq in E. subst k'. destruct (m_find k r) eqn:F; [|reflexivity].
      exfalso. apply H1. eapply m_find_keys; exact F.
    - cbn [m_find]. rewrite E. apply IH. assumption.
  Qed.
  Lemma m_find_remove_none q k m : m_find q m = None -> m_find q (m_remove k m) = None.
  Proof.
    intro H. destruct (N.eq_dec q k) as [->|Hn].
    - rewrite m_remove_absent; assumption.
    - rewrite m_find_remove_other; assumption.
  Qed.
  Lemma m_find_set_same k v m : m_find k (m_set k v m) = Some v.
  Proof.
    induction m as [|[k' v'] r IH]; cbn [m_find m_set]; [rewrite N.eqb_refl; reflexivity|].
    destruct (k' =? k) eqn:E; cbn [m_find]; [rewrite N.eqb_refl; reflexivity | rewrite E; exact IH].
  Qed.
  Lemma m_find_set_other q k v m : q <> k -> m_find q (m_set k v m) = m_find q m.
  Proof.
    intro Hq. induction m as [|[k' v'] r IH]; cbn [m_find m_set].
    - destruct (k =? q) eqn:E; [apply N.eqb_eq in E; congruence | reflexivity].
    - destruct (k' =? k) eqn:E; cbn [m_find].
      + apply N.eqb_eq in E. subst k'. destruct (k =? q) eqn:E2; [apply N.eqb_eq in E2; congruence | reflexivity].
      + rewrite IH. reflexivity.
  Qed.

  Definition kv_same (m : amap) : Prop := forall k v, In (k, v) m -> v = k.
  Lemma kv_same_remove k m : kv_same m -> kv_same (m_remove k m).
  Proof.
    unfold kv_same. induction m as [|[k' v'] r IH]; cbn [m_remove]; intro H; [exact H|].
    destruct (k' =? k).
    - intros a b X. apply H. right. exact X.
    - intros a b [X|X]; [apply H; left; exact X | apply IH; [intros; apply H; right; assumption | exact X]].
  Qed.
  Lemma kv_same_set k m : kv_same m -> kv_same (m_set k k m).
  Proof.
    unfold kv_same. induction m as [|[k' v'] r IH]; cbn [m_set]; intro H.
    - intros a b [X|[]]. injection X as <- <-. reflexivity.
    - destruct (k' =? k).
      + intros a b [X|X]; [injection X as <- <-; reflexivity | apply H; right; exact X].
      + intros a b [X|X]; [apply H; left; exact X | apply IH; [intros; apply H; right; assumption | exact X]].
  Qed.
  Lemma kv_same_map m : kv_same m -> map snd m = map fst m.
  Proof.
    unfold kv_same. induction m as [|[k' v'] r IH]; intro H; [reflexivity|].
    cbn [map fst snd]. rewrite (H k' v' (or_introl eq_refl)), IH; [reflexivity | intros; apply H; right; assumption].
  Qed.

  (* the container operations with their effect on the map *)
  Lemma erase_shape k f : Inv f -> exists f', erase ht k f = Ok f' /\ Inv f' /\ vmap f' = m_remove k (vmap f).
  Proof.
    intro I. destruct (erase_inv ht k f I) as (f' & E & I'). exists f'. split; [exact E|]. split; [exact I'|].
    unfold erase, erase_with in E. destruct (m_find k (vmap f)) eqn:F.
    - destruct (ms_erase_exact ht n (vset f)); [|discriminate]. unfold checked in E. cbn [vset vmap] in E.
      destruct (Nat.eqb _ _); [|discriminate]. injection E as <-. reflexivity.
    - injection E as <-. symmetry. apply m_remove_absent. exact F.
  Qed.
  Lemma insert_shape k v f : Inv f -> exists f', insert ht k v f = Ok f' /\ Inv f' /\ vmap f' = m_set k v (vmap f).
  Proof.
    intro I. destruct (insert_inv ht k v f I) as (f' & E & I'). exists f'. split; [exact E|]. split; [exact I'|].
    unfold insert, insert_with in E. destruct (m_find k (vmap f)) eqn:F.
    - destruct (ms_erase_exact ht n (vset f)); [|discriminate]. unfold checked in E. cbn [vset vmap] in E.
      destruct (Nat.eqb _ _); [|discriminate]. injection E as <-. reflexivity.
    - unfold checked in E. cbn [vset vmap] in E. destruct (Nat.eqb _ _); [|discriminate]. injection E as <-. reflexivity.
  Qed.

  Definition PInv (s : pool) : Prop :=
    Inv (infl s) /\ NoDup (conn s) /\ kv_same (vmap (infl s)) /\
    (forall p, connected s p = true -> inflight s p = false).

  Lemma pinv_empty : PInv pempty.
  Proof.
    unfold PInv. cbn [conn infl pempty]. refine (conj (inv_empty ht) (conj (NoDup_nil _) (conj _ _))).
    - intros k v [].
    - intros p H. reflexivity.
  Qed.

  (** submit under the caller contract *)
  Lemma submit_inv base v p s :
    PInv s -> connected s p = false ->
    exists s', submit base v p s = POk s' /\ PInv s' /\
      (forall q, q <> p -> connected s' q = connected s q /\ inflight s' q = inflight s q) /\
      (v <> Stateless -> known s' p = true /\ (connected s' p = true -> inflight s' p = false)) /\
      (v = Stateless -> s' = s).
  Proof.
    intros (I & ND & KV & DJ) Hc. unfold submit.
    destruct v.
    - exists s. split; [reflexivity|]. split; [exact (conj I (conj ND (conj KV DJ)))|]. split; [tauto|].
      split; [intro X; exfalso; apply X; reflexivity | reflexivity].
    - (* Stale: in flight *)
      cbn [fine andb]. destruct (insert_shape p p (infl s) I) as (f' & -> & I' & Vm).
      exists (mkp (conn s) f'). split; [reflexivity|]. split; [|split; [|split]].
      + unfold PInv. cbn [conn infl]. refine (conj I' (conj ND (conj _ _))).
        * rewrite Vm. apply kv_same_set. exact KV.
        * intros q Hq. unfold inflight. cbn [infl]. rewrite Vm.
          assert (q <> p) by (intro; subst; unfold connected in *; cbn [conn] in *; congruence).
          rewrite m_find_set_other by assumption. apply DJ. exact Hq.
      + intros q Hq. unfold connected, inflight. cbn [conn infl]. rewrite Vm, m_find_set_other by assumption. tauto.
      + intros _. unfold known, connected, inflight. cbn [conn infl]. rewrite Vm, m_find_set_same.
        split; [apply orb_true_r | intro X; unfold connected in Hc; congruence].
      + discriminate.
    - cbn [fine andb]. destruct (present blk base (conn s) (par p)).
      + destruct (erase_shape p (infl s) I) as (f' & -> & I' & Vm).
        unfold connected in Hc. rewrite Hc.
        exists (mkp (p :: conn s) f'). split; [reflexivity|]. split; [|split; [|split]].
        * destruct I as (_ & _ & NDk).
          unfold PInv. cbn [conn infl]. refine (conj I' (conj _ (conj _ _))).
          -- constructor; [apply mem_false; exact Hc | exact ND].
          -- rewrite Vm. apply kv_same_remove. exact KV.
          -- intros q Hq. unfold inflight. cbn [infl]. rewrite Vm.
             unfold connected in Hq. cbn [conn mem existsb] in Hq. apply orb_true_iff in Hq. destruct Hq as [Hq|Hq].
             ++ apply N.eqb_eq in Hq. subst q. rewrite m_find_remove_same by exact NDk. reflexivity.
             ++ specialize (DJ q Hq). unfold inflight in DJ. destruct (m_find q (vmap (infl s))) eqn:F; [discriminate|].
                rewrite m_find_remove_none by exact F. reflexivity.
        * intros q Hq. unfold connected, inflight. cbn [conn infl mem existsb]. rewrite Vm, m_find_remove_other by assumption.
          destruct (q =? p) eqn:E; [apply N.eqb_eq in E; congruence|]. cbn [orb]. tauto.
        * intros _. unfold known, connected, inflight. cbn [conn infl mem existsb]. rewrite N.eqb_refl. cbn [orb].
          split; [reflexivity|]. intros _. rewrite Vm. destruct I as (_ & _ & NDk). rewrite m_find_remove_same by exact NDk. reflexivity.
        * discriminate.
      + destruct (insert_shape p p (infl s) I) as (f' & -> & I' & Vm).
        exists (mkp (conn s) f'). split; [reflexivity|]. split; [|split; [|split]].
        * unfold PInv. cbn [conn infl]. refine (conj I' (conj ND (conj _ _))).
          -- rewrite Vm. apply kv_same_set. exact KV.
          -- intros q Hq. unfold inflight. cbn [infl]. rewrite Vm.
             assert (q <> p) by (intro; subst; unfold connected in *; cbn [conn] in *; congruence).
             rewrite m_find_set_other by assumption. apply DJ. exact Hq.
        * intros q Hq. unfold connected, inflight. cbn [conn infl]. rewrite Vm, m_find_set_other by assumption. tauto.
        * intros _. unfold known, connected, inflight. cbn [conn infl]. rewrite Vm, m_find_set_same.
          split; [apply orb_true_r | intro X; unfold connected in Hc; congruence].
        * discriminate.
  Qed.

  Lemma known_split s q : known s q = connected s q || inflight s q.
  Proof. reflexivity. Qed.

  Lemma vd_not_stateless stale p : vd stale p <> Stateless.
  Proof. unfold vd. destruct (mem p stale); discriminate. Qed.

  Lemma connect_pass_inv base stale : forall l s,
    PInv s -> NoDup l -> (forall q, In q l -> connected s q = false) ->
    exists s', connect_pass base stale l s = POk s' /\ PInv s' /\
      (forall q, ~ In q l -> connected s' q = connected s q /\ inflight s' q = inflight s q) /\
      (forall q, known s q = true -> known s' q = true).
  Proof.
    induction l as [|p r IH]; intros s I ND Hc; cbn [PoolDefs.connect_pass].
    - exists s. split; [reflexivity|]. split; [exact I|]. split; [intros; split; reflexivity | auto].
    - inversion ND as [|? ? Hp NDr]; subst.
      destruct (submit_inv base (vd stale p) p s I (Hc p (or_introl eq_refl))) as (s1 & -> & I1 & Oth & Kn & _).
      assert (forall q, In q r -> connected s1 q = false) as Hc1.
      { intros q Hq. assert (q <> p) by (intro; subst; contradiction).
        rewrite (proj1 (Oth q H)). apply Hc. right. exact Hq. }
      destruct (IH s1 I1 NDr Hc1) as (s' & -> & I' & Oth' & Kn').
      exists s'. split; [reflexivity|]. split; [exact I'|]. split.
      + intros q Hq. assert (q <> p) by (intro; subst; apply Hq; left; reflexivity).
        assert (~ In q r) by (intro; apply Hq; right; assumption).
        destruct (Oth' q H0) as [A B]. destruct (Oth q H) as [C D]. rewrite A, B, C, D. tauto.
      + intros q Hq. apply Kn'. destruct (N.eq_dec q p) as [->|Hn].
        * apply (Kn (vd_not_stateless stale p)).
        * rewrite known_split in *. destruct (Oth q Hn) as [C D]. rewrite C, D. exact Hq.
  Qed.

  Lemma inflight_in_set s q : PInv s -> In q (vset (infl s)) -> inflight s q = true.
  Proof.
    intros ((P & _ & _) & _ & KV & _) Hq.
    assert (In q (map fst (vmap (infl s)))) as X.
    { rewrite <- (kv_same_map _ KV). eapply Permutation_in; [exact P | exact Hq]. }
    apply m_find_in_keys in X. unfold inflight. destruct (m_find q (vmap (infl s))); [reflexivity | contradiction].
  Qed.

  Lemma tryConnect_inv base stale s :
    PInv s ->
    exists s', tryConnect ht par blk base stale s = POk s' /\ PInv s' /\
      (forall q, known s q = false -> known s' q = false) /\
      (forall q, known s q = true -> known s' q = true).
  Proof.
    intro I. unfold tryConnect.
    assert (NoDup (vset (infl s))) as ND.
    { destruct I as ((P & _ & NDk) & _ & KV & _).
      eapply Permutation_NoDup; [symmetry; exact P|]. rewrite (kv_same_map _ KV). exact NDk. }
    assert (forall q, In q (vset (infl s)) -> connected s q = false) as Hc.
    { intros q Hq. pose proof (inflight_in_set s q I Hq) as F. destruct I as (_ & _ & _ & DJ).
      destruct (connected s q) eqn:C; [rewrite (DJ q C) in F; discriminate | reflexivity]. }
    destruct (connect_pass_inv base stale _ s I ND Hc) as (s' & E & I' & Oth & Kn).
    exists s'. split; [exact E|]. split; [exact I'|]. split; [|exact Kn].
    intros q Hq. rewrite known_split in *. apply orb_false_iff in Hq. destruct Hq as [C F].
    assert (~ In q (vset (infl s))) as Nin.
    { intro X. rewrite (inflight_in_set s q I X) in F. discriminate. }
    destruct (Oth q Nin) as [A B]. rewrite A, B, C, F. reflexivity.
  Qed.

  Lemma erase_all_inv ks : forall f, Inv f -> kv_same (vmap f) ->
    exists f', erase_all ht ks f = Ok f' /\ Inv f' /\ kv_same (vmap f') /\
      (forall q, m_find q (vmap f) = None -> m_find q (vmap f') = None).
  Proof.
    induction ks as [|k r IH]; intros f I KV; cbn [PoolDefs.erase_all].
    - exists f. split; [reflexivity|]. split; [exact I|]. split; [exact KV | auto].
    - destruct (erase_shape k f I) as (f1 & -> & I1 & Vm).
      assert (kv_same (vmap f1)) as KV1 by (rewrite Vm; apply kv_same_remove; exact KV).
      destruct (IH f1 I1 KV1) as (f' & -> & I' & KV' & Nn).
      exists f'. split; [reflexivity|]. split; [exact I'|]. split; [exact KV'|].
      intros q Hq. apply Nn. rewrite Vm. apply m_find_remove_none. exact Hq.
  Qed.

  Lemma filter_pinv (g : N -> bool) s : PInv s -> PInv (mkp (filter g (conn s)) (infl s)).
  Proof.
    intros (I & ND & KV & DJ). unfold PInv. cbn [conn infl]. refine (conj I (conj (NoDup_filter _ ND) (conj KV _))).
    intros q Hq. apply DJ. unfold connected in *. cbn [conn] in Hq. apply mem_In in Hq. apply filter_In in Hq.
    apply mem_In. tauto.
  Qed.
  Lemma filter_known (g : N -> bool) s q : known s q = false -> known (mkp (filter g (conn s)) (infl s)) q = false.
  Proof.
    rewrite !known_split. unfold connected, inflight. cbn [conn infl]. intro H. apply orb_false_iff in H.
    destruct H as [C F]. rewrite F, orb_false_r. apply mem_false. apply mem_false in C. intro X. apply filter_In in X. tauto.
  Qed.

  Lemma cleanUp_inv stale gf s :
    PInv s -> exists s', cleanUp ht stale gf s = POk s' /\ PInv s' /\ (forall q, known s q = false -> known s' q = false).
  Proof.
    intros I. pose proof I as (If & ND & KV & DJ). unfold cleanUp.
    destruct (erase_all_inv (filter (fun k => mem k gf) (map fst (vmap (infl s)))) (infl s) If KV)
      as (f' & -> & I' & KV' & Nn).
    exists (mkp (filter (fun p => negb (mem p stale)) (conn s)) f'). split; [reflexivity|]. split.
    - unfold PInv. cbn [conn infl]. refine (conj I' (conj (NoDup_filter _ ND) (conj KV' _))).
      intros q Hq. unfold connected in Hq. cbn [conn] in Hq. apply mem_In in Hq. apply filter_In in Hq.
      destruct Hq as [Hq _]. apply mem_In in Hq. specialize (DJ q Hq). unfold inflight in *. cbn [infl].
      destruct (m_find q (vmap (infl s))) eqn:F; [discriminate|]. rewrite (Nn q F). reflexivity.
    - intros q. rewrite !known_split. unfold connected, inflight. cbn [conn infl]. intro H. apply orb_false_iff in H.
      destruct H as [C F]. destruct (m_find q (vmap (infl s))) eqn:G; [discriminate|]. rewrite (Nn q G), orb_false_r.
      apply mem_false. apply mem_false in C. intro X. apply filter_In in X. tauto.
  Qed.

  Definition targets (o : pop) (p : N) : Prop := match o with Submit _ _ q => q = p | _ => False end.

  Lemma pstep_inv s o :
    PInv s -> (match o with Submit _ _ p => connected s p = false | _ => True end) ->
    exists s', pstep ht par blk s o = POk s' /\ PInv s' /\
      (forall p, ~ targets o p -> known s p = false -> known s' p = false).
  Proof.
    intros I C. destruct o as [base v p|base stale gone gf|ids base stale gone gf|stale gf|]; cbn [pstep].
    - destruct (submit_inv base v p s I C) as (s' & E & I' & Oth & _ & _).
      exists s'. split; [exact E|]. split; [exact I'|]. intros q Hq. cbn [targets] in Hq.
      assert (q <> p) by congruence. rewrite !known_split. destruct (Oth q H) as [A B]. rewrite A, B. tauto.
    - unfold generate. destruct (tryConnect_inv base stale s I) as (s1 & -> & I1 & Kf & _).
      destruct (cleanUp_inv gone gf s1 I1) as (s' & -> & I' & Kf').
      exists s'. split; [reflexivity|]. split; [exact I'|]. intros p _ Hp. apply Kf', Kf. exact Hp.
    - unfold removeAll, dropIds.
      destruct (cleanUp_inv gone gf _ (filter_pinv (fun p => negb (mem p ids)) s I)) as (s1 & -> & I1 & Kf1).
      destruct (tryConnect_inv base stale s1 I1) as (s' & -> & I' & Kf & _).
      exists s'. split; [reflexivity|]. split; [exact I'|]. intros p _ Hp. apply Kf, Kf1, filter_known. exact Hp.
    - destruct (cleanUp_inv stale gf s I) as (s' & -> & I' & Kf). exists s'.
      split; [reflexivity|]. split; [exact I'|]. intros p _ Hp. apply Kf. exact Hp.
    - unfold clear. destruct I as (If & _). unfold VsmDefs.clear. rewrite (inv_checked ht _ If).
      exists (mkp [] empty). split; [reflexivity|]. split; [apply pinv_empty|]. intros; reflexivity.
  Qed.

  (** every history that respects the caller contract runs without a failing assertion and keeps the invariant *)
  Lemma prun_inv ops : forall s, PInv s -> contract ht par blk s ops ->
    exists s', prun ht par blk s ops = POk s' /\ PInv s'.
  Proof.
    induction ops as [|o r IH]; intros s I C; cbn [prun].
    - exists s. split; [reflexivity | exact I].
    - cbn [contract] in C. destruct C as [C1 C2].
      destruct (pstep_inv s o I C1) as (s1 & E & I1 & _). rewrite E in *. apply IH; assumption.
  Qed.

  Lemma partition_lemma ops :
    contract ht par blk pempty ops ->
    exists s, prun ht par blk pempty ops = POk s /\
      NoDup (conn s) /\
      (forall p, ~ (connected s p = true /\ inflight s p = true)) /\
      (forall p, known s p = true <-> (connected s p = true \/ inflight s p = true)).
  Proof.
    intro C. destruct (prun_inv ops pempty pinv_empty C) as (s & E & (_ & ND & _ & DJ)).
    exists s. split; [exact E|]. split; [exact ND|]. split.
    - intros p [A B]. rewrite (DJ p A) in B. discriminate.
    - intro p. rewrite known_split. apply orb_true_iff.
  Qed.

  Lemma views_agree_lemma ops :
    contract ht par blk pempty ops ->
    exists s, prun ht par blk pempty ops = POk s /\
      Permutation (vset (infl s)) (map fst (vmap (infl s))) /\
      sorted ht (vset (infl s)) = true /\
      NoDup (vset (infl s)) /\
      (forall p, inflight s p = true <-> In p (vset (infl s))).
  Proof.
    intro C. destruct (prun_inv ops pempty pinv_empty C) as (s & E & I).
    pose proof I as ((P & S & NDk) & _ & KV & _).
    exists s. split; [exact E|]. rewrite <- (kv_same_map _ KV). split; [exact P|]. split; [exact S|]. split.
    - eapply Permutation_NoDup; [symmetry; exact P|]. rewrite (kv_same_map _ KV). exact NDk.
    - intro p. split; [|apply inflight_in_set; exact I].
      unfold inflight. destruct (m_find p (vmap (infl s))) eqn:F; [|discriminate]. intros _.
      eapply Permutation_in; [symmetry; exact P|]. rewrite (kv_same_map _ KV). eapply m_find_keys. exact F.
  Qed.

  Lemma removed_stay_removed_lemma s o s' p :
    PInv s -> (match o with Submit _ _ q => connected s q = false | _ => True end) ->
    ~ targets o p -> known s p = false -> pstep ht par blk s o = POk s' -> known s' p = false.
  Proof.
    intros I C T K E. destruct (pstep_inv s o I C) as (s1 & E1 & _ & Kf). rewrite E in E1. injection E1 as <-.
    apply Kf; assumption.
  Qed.

  (** never lost: a submit that is not a stateless failure makes the payload known, and a connect pass keeps
      every known payload known *)
  Lemma never_lost_lemma :
    (forall base v p s s', PInv s -> connected s p = false -> v <> Stateless ->
       submit base v p s = POk s' -> known s' p = true) /\
    (forall base stale s s', PInv s -> tryConnect ht par blk base stale s = POk s' ->
       forall q, known s q = true -> known s' q = true).
  Proof.
    split.
    - intros base v p s s' I C V E. destruct (submit_inv base v p s I C) as (s1 & E1 & _ & _ & Kn & _).
      rewrite E in E1. injection E1 as <-. apply (Kn V).
    - intros base stale s s' I E. destruct (tryConnect_inv base stale s I) as (s1 & E1 & _ & _ & Kn).
      rewrite E in E1. injection E1 as <-. exact Kn.
  Qed.

  (** *** the pass of tryConnectPayloads takes exactly the decisions of [pass] *)
  Lemma submit_conn base v p s s' :
    submit base v p s = POk s' -> connected s p = false ->
    conn s' = if fine v && present blk base (conn s) (par p) then p :: conn s else conn s.
  Proof.
    unfold PoolDefs.submit, connected. intros E Hc. destruct v; cbn [fine andb] in *.
    - injection E as <-. reflexivity.
    - destruct (insert ht p p (infl s)); [injection E as <-; reflexivity | discriminate].
    - destruct (present blk base (conn s) (par p)).
      + destruct (erase ht p (infl s)); [injection E as <-; cbn [conn]; rewrite Hc; reflexivity | discriminate].
      + destruct (insert ht p p (infl s)); [injection E as <-; reflexivity | discriminate].
  Qed.

  Lemma fine_vd stale p : fine (vd stale p) = negb (mem p stale).
  Proof. unfold vd. destruct (mem p stale); reflexivity. Qed.

  Lemma connect_pass_conn base stale : forall l s s',
    PInv s -> NoDup l -> (forall q, In q l -> connected s q = false) ->
    connect_pass base stale l s = POk s' ->
    conn s' = fst (pass par blk base stale l (conn s)).
  Proof.
    induction l as [|p r IH]; intros s s' I ND Hc; cbn [PoolDefs.connect_pass pass].
    - intro E. injection E as <-. reflexivity.
    - inversion ND as [|? ? Hp NDr]; subst.
      destruct (submit_inv base (vd stale p) p s I (Hc p (or_introl eq_refl))) as (s1 & E1 & I1 & Oth & _ & _).
      rewrite E1. intro E.
      assert (forall q, In q r -> connected s1 q = false) as Hc1.
      { intros q Hq. assert (q <> p) by (intro; subst; contradiction).
        rewrite (proj1 (Oth q H)). apply Hc. right. exact Hq. }
      rewrite (IH s1 s' I1 NDr Hc1 E).
      rewrite (submit_conn _ _ _ _ _ E1 (Hc p (or_introl eq_refl))), fine_vd.
      destruct (negb (mem p stale) && present blk base (conn s) (par p)); [reflexivity|].
      destruct (pass par blk base stale r (conn s)); reflexivity.
  Qed.

  (** after the missing context was submitted, ONE tryConnectPayloads pass connects every in-flight payload that
      passes the contextual check and whose context block is present afterwards - whatever the submission order
      was. Uses the height order of the in-flight view: a context block is lower than its dependants. *)
  Variable hb : N -> N.
  Lemma inflight_eventually_connected_lemma base stale s s' :
    (forall q, hb (blk q) = ht q) -> (forall q, hb (par q) < ht q) ->
    PInv s -> tryConnect ht par blk base stale s = POk s' ->
    forall p, inflight s' p = true -> mem p stale = false ->
      present blk base (conn s') (par p) = false.
  Proof.
    intros Hblk Hpar I E p Fp St.
    destruct (tryConnect_inv base stale s I) as (s1 & E1 & I' & Kf & _). rewrite E in E1. injection E1 as <-.
    unfold tryConnect in E.
    pose proof I as ((P & S & NDk) & _ & KV & DJ).
    assert (NoDup (vset (infl s))) as ND.
    { eapply Permutation_NoDup; [symmetry; exact P|]. rewrite (kv_same_map _ KV). exact NDk. }
    assert (forall q, In q (vset (infl s)) -> connected s q = false) as Hc.
    { intros q Hq. pose proof (inflight_in_set s q I Hq) as F.
      destruct (connected s q) eqn:C; [rewrite (DJ q C) in F; discriminate | reflexivity]. }
    pose proof (connect_pass_conn base stale _ s s' I ND Hc E) as Cn.
    destruct (pass par blk base stale (vset (infl s)) (conn s)) as [c' k] eqn:Ps. cbn [fst] in Cn.
    destruct (pass_conn ht par blk hb base stale _ _ _ _ Ps) as (_ & Mono & Cover & _).
    (* p is not connected afterwards *)
    assert (connected s' p = false) as NC.
    { destruct I' as (_ & _ & _ & DJ'). destruct (connected s' p) eqn:C; [rewrite (DJ' p C) in Fp; discriminate | reflexivity]. }
    (* p was in flight before *)
    assert (known s p = true) as K.
    { destruct (known s p) eqn:K0; [reflexivity|]. specialize (Kf p K0). rewrite known_split, Fp, orb_true_r in Kf. discriminate. }
    assert (In p (vset (infl s))) as Pin.
    { rewrite known_split in K. apply orb_true_iff in K. destruct K as [C|F].
      - exfalso. unfold connected in *. apply mem_In in C. apply Mono in C. rewrite <- Cn in C. apply mem_In in C. congruence.
      - unfold inflight in F. destruct (m_find p (vmap (infl s))) eqn:G; [|discriminate].
        eapply Permutation_in; [symmetry; exact P|]. rewrite (kv_same_map _ KV). eapply m_find_keys. exact G. }
    destruct (Cover p Pin) as [X|X].
    - exfalso. rewrite <- Cn in X. apply mem_In in X. unfold connected in NC. congruence.
    - rewrite Cn. eapply (pass_complete_lemma ht par blk hb base stale Hblk Hpar); [exact S | exact Ps | exact X | exact St].
  Qed.
End Inv.

(** ** the sort key matters
    [inflight_eventually_connected_lemma] needs the in-flight view to be sorted by the height of the CARRIED block
    ([hb (blk q) = ht q], as coded: containing block / block of proof / the block itself). With any other key it is
    false. Witness: payload 1 carries block 12 (parent 11) and has key 5, payload 2 carries block 11 (parent 10)
    and has key 8 (e.g. the heights of the ENDORSED blocks); both are in flight, block 10 arrives: the pass
    re-tries 1 before 2, connects 2 only, and 1 stays in flight although its parent 11 is now present. *)
Definition wk_key (q : N) : N := if q =? 1 then 5 else if q =? 2 then 8 else 0.
Definition wk_blk (q : N) : N := if q =? 1 then 12 else if q =? 2 then 11 else 1.
Definition wk_par (q : N) : N := if q =? 1 then 11 else if q =? 2 then 10 else 0.
Definition wk_ops : list pop := [Submit [] Fine 2; Submit [] Fine 1].

Lemma inflight_other_key_refuted_lemma :
  (forall q, wk_par q < wk_blk q) /\
  contract wk_key wk_par wk_blk pempty wk_ops /\
  exists s s',
    prun wk_key wk_par wk_blk pempty wk_ops = POk s /\
    tryConnect wk_key wk_par wk_blk [10] [] s = POk s' /\
    inflight s' 1 = true /\ mem 1 [] = false /\
    present wk_blk [10] (conn s') (wk_par 1) = true.
Proof.
  split.
  - intro q. unfold wk_par, wk_blk. destruct (q =? 1); [reflexivity|]. destruct (q =? 2); reflexivity.
  - split; [vm_compute; repeat split; reflexivity|].
    eexists. eexists. split; [vm_compute; reflexivity|]. split; [vm_compute; reflexivity|].
    repeat split; vm_compute; reflexivity.
Qed.

(** the same history with the key of the code (height of the carried block): both connect *)
Example inflight_carried_key_witness :
  exists s s',
    prun wk_blk wk_par wk_blk pempty wk_ops = POk s /\
    tryConnect wk_blk wk_par wk_blk [10] [] s = POk s' /\
    inflight s' 1 = false /\ inflight s' 2 = false /\ connected s' 1 = true /\ connected s' 2 = true.
Proof. eexists. eexists. split; [vm_compute; reflexivity|]. split; [vm_compute; reflexivity|]. repeat split; vm_compute; reflexivity. Qed.
