(** ValueSortedMap<K,V> (include/veriblock/pop/value_sorted_map.hpp) as coded NOW.

    [set_] is a std::multiset<V, cmp>: modelled as the ordered list libstdc++
    maintains (insert = after the last element that is not greater, i.e. at
    the upper bound). [map_] is an association list with unique keys.
    Keys and values are numbers; the comparator is "height v1 < height v2"
    for an arbitrary height function (the mempool uses the VBK height of the
    payload, so many distinct values are equivalent).

    A failing VBK_ASSERT is an explicit outcome [Abort], never totalised away.
    Definitions only (executable, extracted); proofs are in VsmProofs.v. *)
From Coq Require Import List NArith Bool.
Import ListNotations.
Local Open Scope N_scope.

Section Vsm.
  Variable height : N -> N.          (* the comparator: cmp a b := height a < height b *)

  Definition lt (a b : N) : bool := height a <? height b.
  Definition equiv (a b : N) : bool := height a =? height b.

  (** multiset::insert : before the first element strictly greater *)
  Fixpoint ms_insert (v : N) (s : list N) : list N :=
    match s with
    | [] => [v]
    | x :: r => if lt v x then v :: x :: r else x :: ms_insert v r
    end.

  (** findInSet + erase(iterator): within the equal range of [v] remove the
      first element that IS v; None = findInSet returned end() *)
  Fixpoint ms_erase_exact (v : N) (s : list N) : option (list N) :=
    match s with
    | [] => None
    | x :: r =>
      if lt x v then option_map (cons x) (ms_erase_exact v r)       (* before the equal range *)
      else if lt v x then None                                          (* past the equal range *)
      else if x =? v then Some r
      else option_map (cons x) (ms_erase_exact v r)
    end.

  (** the code before commit 913f84f9: set_.find(value) = FIRST element the
      comparator deems equivalent; that element is erased *)
  Fixpoint ms_erase_v0 (v : N) (s : list N) : option (list N) :=
    match s with
    | [] => None
    | x :: r =>
      if lt x v then option_map (cons x) (ms_erase_v0 v r)
      else if lt v x then None
      else Some r
    end.

  Definition amap := list (N * N).

  Fixpoint m_find (k : N) (m : amap) : option N :=
    match m with
    | [] => None
    | (k', v) :: r => if k' =? k then Some v else m_find k r
    end.
  Fixpoint m_remove (k : N) (m : amap) : amap :=
    match m with
    | [] => []
    | (k', v) :: r => if k' =? k then r else (k', v) :: m_remove k r
    end.
  Fixpoint m_set (k v : N) (m : amap) : amap :=
    match m with
    | [] => [(k, v)]
    | (k', v') :: r => if k' =? k then (k, v) :: r else (k', v') :: m_set k v r
    end.

  Record vsm := mk { vset : list N; vmap : amap }.
  Definition empty : vsm := mk [] [].

  Inductive outcome := Ok (s : vsm) | Abort.

  (** the size assertion at the end of every mutator *)
  Definition checked (s : vsm) : outcome :=
    if Nat.eqb (length (vset s)) (length (vmap s)) then Ok s else Abort.

  Definition erase_with (er : N -> list N -> option (list N)) (k : N) (s : vsm) : outcome :=
    match m_find k (vmap s) with
    | None => Ok s
    | Some v =>
      match er v (vset s) with
      | None => Abort                                   (* VBK_ASSERT(set_it != set_.end()) *)
      | Some set' => checked (mk set' (m_remove k (vmap s)))
      end
    end.

  Definition insert_with (er : N -> list N -> option (list N)) (k v : N) (s : vsm) : outcome :=
    match m_find k (vmap s) with
    | Some old =>
      match er old (vset s) with
      | None => Abort
      | Some set' => checked (mk (ms_insert v set') (m_set k v (vmap s)))
      end
    | None => checked (mk (ms_insert v (vset s)) (m_set k v (vmap s)))
    end.

  Definition erase := erase_with ms_erase_exact.
  Definition insert := insert_with ms_erase_exact.
  Definition erase_v0 := erase_with ms_erase_v0.
  Definition insert_v0 := insert_with ms_erase_v0.

  (** clear() asserts the sizes first *)
  Definition clear (s : vsm) : outcome :=
    match checked s with Ok _ => Ok empty | Abort => Abort end.

  Inductive op := Insert (k v : N) | Erase (k : N) | Clear.

  Definition step (s : vsm) (o : op) : outcome :=
    match o with
    | Insert k v => insert k v s
    | Erase k => erase k s
    | Clear => clear s
    end.
  Definition step_v0 (s : vsm) (o : op) : outcome :=
    match o with
    | Insert k v => insert_v0 k v s
    | Erase k => erase_v0 k s
    | Clear => clear s
    end.

  Fixpoint run_with (st : vsm -> op -> outcome) (s : vsm) (ops : list op) : outcome :=
    match ops with
    | [] => Ok s
    | o :: r => match st s o with Ok s' => run_with st s' r | Abort => Abort end
    end.
  Definition run := run_with step.
  Definition run_v0 := run_with step_v0.

  (** the set is sorted w.r.t. the comparator: no later element is strictly less than an earlier one *)
  Fixpoint sorted (s : list N) : bool :=
    match s with
    | [] => true
    | x :: r => forallb (fun y => negb (lt y x)) r && sorted r
    end.
End Vsm.
