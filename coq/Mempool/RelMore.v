(** Relations bookkeeping, second part: connected/in-flight disjointness and duplicate-free relations under the caller
    contract, what cleanUp / removeAll / clear remove exactly, nothing reappears without a submit. *)
From Coq Require Import List NArith Bool Permutation Lia.
From VB Require Import Mempool.RelDefs Mempool.RelProofs.
Import ListNotations.
Local Open Scope N_scope.

Section More.
  Variable bop cont : N -> N.
  Notation RInv := (RInv bop cont).

  (** Prop versions of MemPool::get != nullptr *)
  Definition KA (s : mp) (a : N) : Prop := In a (satvs s) \/ In a (fa s).
  Definition KV (s : mp) (t : N) : Prop := In t (svtbs s) \/ In t (fv s).

  Record DInv (s : mp) : Prop := mkDI {
    di_a : forall a, In a (fa s) -> ~ In a (satvs s);
    di_v : forall t, In t (fv s) -> ~ In t (svtbs s);
    di_nv : forall r, In r (rels s) -> NoDup (rvtbs r);
    di_na : forall r, In r (rels s) -> NoDup (ratvs r) }.

  Lemma dinv0 : DInv mp0.
  Proof. constructor; simpl; tauto. Qed.

  Lemma put_rel_nd (proj : rel -> list N) b s :
    proj (mkr b [] []) = [] ->
    (forall r, In r (rels s) -> NoDup (proj r)) -> forall r, In r (rels (put_rel b s)) -> NoDup (proj r).
  Proof.
    intros E H r. unfold put_rel; simpl. destruct (has_rel b (rels s)); auto.
    intros [<-|Hr]; auto. rewrite E. constructor.
  Qed.

  Lemma submitA_dinv v a s : RInv s -> DInv s -> ~ In a (satvs s) -> DInv (submitA bop v a s).
  Proof.
    intros I [DA DV NV NA] Hn. destruct v; simpl; [constructor; auto| |].
    - constructor; simpl; auto. intros x Hx. apply sadd_In in Hx. destruct Hx as [->|Hx]; auto.
    - pose proof (put_rel_inv bop cont (bop a) s I) as I1.
      constructor; simpl; auto.
      + intros x Hx. apply sdel_In in Hx. rewrite sadd_In. intros [E|H]; [tauto|]. apply (DA x); tauto.
      + intros r Hr. apply on_rel_In in Hr. destruct Hr as [r0 [Hr0 ->]].
        assert (NoDup (rvtbs r0)) by (apply (put_rel_nd rvtbs (bop a) s eq_refl NV r0 Hr0)).
        destruct (hdr r0 =? bop a); auto.
      + intros r Hr. apply on_rel_In in Hr. destruct Hr as [r0 [Hr0 ->]].
        assert (NoDup (ratvs r0)) by (apply (put_rel_nd ratvs (bop a) s eq_refl NA r0 Hr0)).
        destruct (hdr r0 =? bop a); auto. simpl. constructor; auto.
        intros Hin. apply Hn. change (satvs s) with (satvs (put_rel (bop a) s)).
        apply (ri_ca _ _ _ I1). exists r0; auto.
  Qed.
  Lemma submitV_dinv v t s : RInv s -> DInv s -> ~ In t (svtbs s) -> DInv (submitV cont v t s).
  Proof.
    intros I [DA DV NV NA] Hn. destruct v; simpl; [constructor; auto| |].
    - constructor; simpl; auto. intros x Hx. apply sadd_In in Hx. destruct Hx as [->|Hx]; auto.
    - pose proof (put_rel_inv bop cont (cont t) s I) as I1.
      constructor; simpl; auto.
      + intros x Hx. apply sdel_In in Hx. rewrite sadd_In. intros [E|H]; [tauto|]. apply (DV x); tauto.
      + intros r Hr. apply on_rel_In in Hr. destruct Hr as [r0 [Hr0 ->]].
        assert (NoDup (rvtbs r0)) by (apply (put_rel_nd rvtbs (cont t) s eq_refl NV r0 Hr0)).
        destruct (hdr r0 =? cont t); auto. simpl.
        apply (Permutation_NoDup (Permutation_cons_append (rvtbs r0) t)). constructor; auto.
        intros Hin. apply Hn. change (svtbs s) with (svtbs (put_rel (cont t) s)).
        apply (ri_cv _ _ _ I1). exists r0; auto.
      + intros r Hr. apply on_rel_In in Hr. destruct Hr as [r0 [Hr0 ->]].
        assert (NoDup (ratvs r0)) by (apply (put_rel_nd ratvs (cont t) s eq_refl NA r0 Hr0)).
        destruct (hdr r0 =? cont t); auto.
  Qed.
  Lemma submitB_dinv v st b s : DInv s -> DInv (submitB v st b s).
  Proof.
    intros [DA DV NV NA]. destruct v; simpl; [constructor; auto|constructor; simpl; auto|].
    destruct st; constructor; simpl; auto.
    - apply (put_rel_nd rvtbs b s eq_refl NV).
    - apply (put_rel_nd ratvs b s eq_refl NA).
  Qed.

  (** what a submit does to the known sets *)
  Lemma submitA_KA v a s x : KA (submitA bop v a s) x <-> KA s x \/ (x = a /\ v <> Stateless).
  Proof.
    unfold KA. destruct v; simpl.
    - intuition congruence.
    - rewrite sadd_In. intuition congruence.
    - rewrite sadd_In, sdel_In. destruct (N.eq_dec x a); intuition congruence.
  Qed.
  Lemma submitV_KV v t s x : KV (submitV cont v t s) x <-> KV s x \/ (x = t /\ v <> Stateless).
  Proof.
    unfold KV. destruct v; simpl.
    - intuition congruence.
    - rewrite sadd_In. intuition congruence.
    - rewrite sadd_In, sdel_In. destruct (N.eq_dec x t); intuition congruence.
  Qed.
  Lemma submitA_other v a s : svtbs (submitA bop v a s) = svtbs s /\ fv (submitA bop v a s) = fv s.
  Proof. destruct v; simpl; auto. Qed.
  Lemma submitV_other v t s : satvs (submitV cont v t s) = satvs s /\ fa (submitV cont v t s) = fa s.
  Proof. destruct v; simpl; auto. Qed.
  Lemma submitB_other v st b s :
    svtbs (submitB v st b s) = svtbs s /\ fv (submitB v st b s) = fv s /\
    satvs (submitB v st b s) = satvs s /\ fa (submitB v st b s) = fa s.
  Proof. destruct v; simpl; auto; destruct st; simpl; auto. Qed.
  Lemma submitA_satvs v a s x : In x (satvs (submitA bop v a s)) -> x = a \/ In x (satvs s).
  Proof. destruct v; simpl; auto. rewrite sadd_In. tauto. Qed.
  Lemma submitV_svtbs v t s x : In x (svtbs (submitV cont v t s)) -> x = t \/ In x (svtbs s).
  Proof. destruct v; simpl; auto. rewrite sadd_In. tauto. Qed.

  (** the passes of tryConnectPayloads *)
  Lemma passB_all c l : forall s, RInv s -> DInv s ->
    let s' := passB c l s in
    RInv s' /\ DInv s' /\ svtbs s' = svtbs s /\ fv s' = fv s /\ satvs s' = satvs s /\ fa s' = fa s.
  Proof.
    induction l as [|b l IH]; simpl; intros s I D; [tauto|].
    destruct (submitB_other (vB c s b) (stB c s b) b s) as [E1 [E2 [E3 E4]]].
    destruct (IH (submitB (vB c s b) (stB c s b) b s)) as [I' [D' [F1 [F2 [F3 F4]]]]];
      auto using submitB_inv, submitB_dinv.
    rewrite F1, F2, F3, F4. tauto.
  Qed.
  Lemma passV_all c l : forall s, NoDup l -> (forall t, In t l -> ~ In t (svtbs s)) -> RInv s -> DInv s ->
    let s' := passV cont c l s in
    RInv s' /\ DInv s' /\ satvs s' = satvs s /\ fa s' = fa s /\ (forall x, KV s' x -> KV s x \/ In x l).
  Proof.
    induction l as [|t l IH]; simpl; intros s ND Hn I D; [tauto|]. inversion ND; subst.
    destruct (submitV_other (vV c s t) t s) as [E1 E2].
    destruct (IH (submitV cont (vV c s t) t s)) as [I' [D' [F1 [F2 F3]]]]; auto using submitV_inv.
    - intros t' Ht' Hin. apply submitV_svtbs in Hin. destruct Hin as [->|Hin]; [auto|]. apply (Hn t'); auto.
    - apply submitV_dinv; auto.
    - split; [exact I'|]. split; [exact D'|]. split; [congruence|]. split; [congruence|].
      intros x Hx. apply F3 in Hx. destruct Hx as [Hx|Hx]; [|auto]. apply submitV_KV in Hx. destruct Hx as [Hx|[-> _]]; auto.
  Qed.
  Lemma passA_all c l : forall s, NoDup l -> (forall a, In a l -> ~ In a (satvs s)) -> RInv s -> DInv s ->
    let s' := passA bop c l s in
    RInv s' /\ DInv s' /\ svtbs s' = svtbs s /\ fv s' = fv s /\ (forall x, KA s' x -> KA s x \/ In x l).
  Proof.
    induction l as [|a l IH]; simpl; intros s ND Hn I D; [tauto|]. inversion ND; subst.
    destruct (submitA_other (vA c s a) a s) as [E1 E2].
    destruct (IH (submitA bop (vA c s a) a s)) as [I' [D' [F1 [F2 F3]]]]; auto using submitA_inv.
    - intros a' Ha' Hin. apply submitA_satvs in Hin. destruct Hin as [->|Hin]; [auto|]. apply (Hn a'); auto.
    - apply submitA_dinv; auto.
    - split; [exact I'|]. split; [exact D'|]. split; [congruence|]. split; [congruence|].
      intros x Hx. apply F3 in Hx. destruct Hx as [Hx|Hx]; [|auto]. apply submitA_KA in Hx. destruct Hx as [Hx|[-> _]]; auto.
  Qed.

  Lemma tryConnect_all c s : RInv s -> DInv s ->
    let s' := tryConnect bop cont c s in
    DInv s' /\ (forall x, KA s' x -> KA s x) /\ (forall x, KV s' x -> KV s x).
  Proof.
    intros I D. unfold tryConnect.
    destruct (passB_all c (fb s) s I D) as [I1 [D1 [B1 [B2 [B3 B4]]]]]. set (s1 := passB c (fb s) s) in *.
    destruct (passV_all c (fv s1) s1) as [I2 [D2 [V1 [V2 V3]]]]; auto.
    { apply (ri_fv _ _ _ I1). } { apply (di_v _ D1). }
    set (s2 := passV cont c (fv s1) s1) in *.
    destruct (passA_all c (fa s2) s2) as [I3 [D3 [A1 [A2 A3]]]]; auto.
    { apply (ri_fa _ _ _ I2). } { apply (di_a _ D2). }
    set (s3 := passA bop c (fa s2) s2) in *. simpl. split; [exact D3|]. split.
    - intros x Hx. apply A3 in Hx. assert (KA s2 x) by (destruct Hx; [auto|right; auto]).
      unfold KA in *. rewrite V1, V2, B3, B4 in *. auto.
    - intros x Hx. unfold KV in Hx. rewrite A1, A2 in Hx. fold (KV s2 x) in Hx. apply V3 in Hx.
      assert (KV s1 x) by (destruct Hx; [auto|right; auto]). unfold KV in *. rewrite B1, B2 in *. auto.
  Qed.

  (** shrinking operations *)
  Lemma keep_nd (g : rel -> option rel) (proj : rel -> list N) rs :
    (forall r r', g r = Some r' -> NoDup (proj r) -> NoDup (proj r')) ->
    (forall r, In r rs -> NoDup (proj r)) -> forall r', In r' (keep g rs) -> NoDup (proj r').
  Proof. intros Hg H r' Hr'. apply keep_In in Hr'. destruct Hr' as [r [Hr E]]. eauto. Qed.

  Lemma cl_rel_nd o r r' : cl_rel o r = Some r' ->
    (NoDup (rvtbs r) -> NoDup (rvtbs r')) /\ (NoDup (ratvs r) -> NoDup (ratvs r')).
  Proof.
    unfold cl_rel, cl_atvs0. destruct (tooOld o (hdr r) && is_nil (rvtbs r)); [discriminate|].
    match goal with |- context [if ?c then None else _] => destruct c end; [discriminate|].
    intros [= <-]. simpl. split; intros; [apply NoDup_filter; auto|].
    destruct (tooOld o (hdr r)); simpl; [constructor|apply NoDup_filter; auto].
  Qed.
  Lemma rm_rel_nd pb pv pa r r' : rm_rel pb pv pa r = Some r' ->
    (NoDup (rvtbs r) -> NoDup (rvtbs r')) /\ (NoDup (ratvs r) -> NoDup (ratvs r')).
  Proof.
    unfold rm_rel. match goal with |- context [if ?c then None else _] => destruct c end; [discriminate|].
    intros [= <-]. simpl. split; intros; apply NoDup_filter; auto.
  Qed.

  Lemma clean_state_dinv o s : DInv s -> DInv (clean_state o s).
  Proof.
    intros [DA DV NV NA]. constructor; simpl.
    - intros a Ha Hin. apply filter_In in Ha. apply del_all_In in Hin. apply (DA a); tauto.
    - intros t Ht Hin. apply filter_In in Ht. apply del_all_In in Hin. apply (DV t); tauto.
    - apply keep_nd; auto. intros r r' E. apply (cl_rel_nd o r r' E).
    - apply keep_nd; auto. intros r r' E. apply (cl_rel_nd o r r' E).
  Qed.
  Lemma dropPop_dinv pb pv pa s : DInv s -> DInv (dropPop pb pv pa s).
  Proof.
    intros [DA DV NV NA]. rewrite dropPop_shape. constructor; simpl.
    - intros a Ha Hin. apply del_all_In in Hin. apply (DA a); tauto.
    - intros t Ht Hin. apply del_all_In in Hin. apply (DV t); tauto.
    - apply keep_nd; auto. intros r r' E. apply (rm_rel_nd pb pv pa r r' E).
    - apply keep_nd; auto. intros r r' E. apply (rm_rel_nd pb pv pa r r' E).
  Qed.
  Lemma clean_state_K o s x : (KA (clean_state o s) x -> KA s x) /\ (KV (clean_state o s) x -> KV s x).
  Proof.
    unfold KA, KV; simpl. rewrite !del_all_In, !filter_In. tauto.
  Qed.
  Lemma dropPop_K pb pv pa s x : (KA (dropPop pb pv pa s) x -> KA s x) /\ (KV (dropPop pb pv pa s) x -> KV s x).
  Proof.
    rewrite dropPop_shape. unfold KA, KV; simpl. rewrite !del_all_In. tauto.
  Qed.

  Lemma rstep_dinv s op s' :
    RInv s -> DInv s -> allowed s op -> rstep bop cont s op = ROk s' -> DInv s'.
  Proof.
    intros I D Al. destruct op; simpl in *.
    - intros [= <-]. apply submitA_dinv; auto.
    - intros [= <-]. apply submitV_dinv; auto.
    - intros [= <-]. apply submitB_dinv; auto.
    - unfold generate. rewrite (cleanUp_ok bop cont) by (apply tryConnect_inv; auto). intros [= <-].
      apply clean_state_dinv. apply tryConnect_all; auto.
    - unfold removeAll. rewrite (cleanUp_ok bop cont) by (apply dropPop_inv; auto). intros [= <-].
      apply tryConnect_all; [apply clean_state_inv, dropPop_inv; auto|apply clean_state_dinv, dropPop_dinv; auto].
    - rewrite (cleanUp_ok bop cont) by auto. intros [= <-]. apply clean_state_dinv; auto.
    - intros [= <-]. apply dinv0.
  Qed.

  Lemma rrun_all ops : forall s, RInv s -> DInv s -> rcontract bop cont s ops ->
    exists s', rrun bop cont s ops = ROk s' /\ RInv s' /\ DInv s'.
  Proof.
    induction ops as [|op ops IH]; simpl; intros s I D C; [eauto|]. destruct C as [Al C].
    destruct (rstep_inv bop cont s op I) as [s1 [E I1]]. rewrite E in *.
    apply IH; auto. apply (rstep_dinv s op s1); auto.
  Qed.

  (** ** the statements *)

  (** every operation sequence: no assertion, the redundant views describe the same sets *)
  Lemma relations_consistent_lemma ops :
    exists s, rrun bop cont mp0 ops = ROk s /\
      NoDup (map hdr (rels s)) /\ NoDup (vbks s) /\ NoDup (svtbs s) /\ NoDup (satvs s) /\
      NoDup (fb s) /\ NoDup (fv s) /\ NoDup (fa s) /\
      (forall b, In b (vbks s) <-> exists r, In r (rels s) /\ hdr r = b) /\
      (forall t, In t (svtbs s) <-> exists r, In r (rels s) /\ In t (rvtbs r)) /\
      (forall a, In a (satvs s) <-> exists r, In r (rels s) /\ In a (ratvs r)) /\
      (forall r t, In r (rels s) -> In t (rvtbs r) -> cont t = hdr r) /\
      (forall r a, In r (rels s) -> In a (ratvs r) -> bop a = hdr r).
  Proof.
    destruct (rrun_inv bop cont ops mp0 (rinv0 bop cont)) as [s [E [K VB SM CV CA HV HA SV SA FB FV FA]]].
    exists s. repeat split; auto; try apply CV; try apply CA.
    - intros H. apply SM in H. apply in_map_iff in H. destruct H as [r [H1 H2]]. exists r; auto.
    - intros [r [H1 H2]]. apply SM. apply in_map_iff. exists r; auto.
  Qed.

  (** under the caller contract: an ATV / VTB is never connected and in flight at once, no relation lists an id twice,
      and (with the lemma above: one relation per block, each payload in the relation of its block) no id is listed by
      two relations *)
  Lemma relations_disjoint_lemma ops :
    rcontract bop cont mp0 ops ->
    exists s, rrun bop cont mp0 ops = ROk s /\
      (forall a, ~ (In a (satvs s) /\ In a (fa s))) /\
      (forall t, ~ (In t (svtbs s) /\ In t (fv s))) /\
      (forall r, In r (rels s) -> NoDup (rvtbs r) /\ NoDup (ratvs r)) /\
      (forall r1 r2 x, In r1 (rels s) -> In r2 (rels s) ->
         (In x (rvtbs r1) /\ In x (rvtbs r2)) \/ (In x (ratvs r1) /\ In x (ratvs r2)) -> r1 = r2).
  Proof.
    intros C. destruct (rrun_all ops mp0 (rinv0 bop cont) dinv0 C) as [s [E [I [DA DV NV NA]]]].
    exists s. repeat split; auto.
    - intros a [H1 H2]. apply (DA a); auto.
    - intros t [H1 H2]. apply (DV t); auto.
    - intros r1 r2 x H1 H2 H. destruct I. apply (NoDup_map_inj hdr (rels s)); auto.
      destruct H as [[Ha Hb]|[Ha Hb]].
      + rewrite <- (ri_hv r1 x), <- (ri_hv r2 x); auto.
      + rewrite <- (ri_ha r1 x), <- (ri_ha r2 x); auto.
  Qed.

  (** cleanUp removes exactly: the contextually invalid VTBs; the contextually invalid ATVs and all ATVs of a too old
      block of proof; the contextually invalid in-flight payloads; the relations [cl_rel] erases. Everything else stays,
      in place. *)
  Lemma cleanUp_exact_lemma o s :
    RInv s ->
    exists s', cleanUp o s = ROk s' /\
      svtbs s' = filter (validV o) (svtbs s) /\
      satvs s' = filter (fun a => validA o a && negb (tooOld o (bop a))) (satvs s) /\
      fb s' = filter (validB o) (fb s) /\ fv s' = filter (validV o) (fv s) /\ fa s' = filter (validA o) (fa s) /\
      (forall b, In b (vbks s') <-> exists r, In r (rels s) /\ hdr r = b /\ cl_rel o r <> None) /\
      (forall r', In r' (rels s') <-> exists r, In r (rels s) /\ cl_rel o r = Some r').
  Proof.
    intros I. exists (clean_state o s). split; [apply (cleanUp_ok bop cont); auto|].
    pose proof (clean_state_inv bop cont o s I) as I'. destruct I as [K VB SM CV CA HV HA SV SA FB FV FA].
    simpl. repeat split; auto.
    - unfold del_all. apply filter_ext_in. intros x Hx. apply CV in Hx. destruct Hx as [r [Hr Hx]].
      destruct (validV o x) eqn:V.
      + apply negb_true_iff, rmem_false. intros H. apply in_flat_map in H. destruct H as [r2 [_ H2]].
        unfold cl_ev in H2. apply filter_In in H2. rewrite V in H2. destruct H2; discriminate.
      + apply negb_false_iff, rmem_In, in_flat_map. exists r. split; auto. apply filter_In. rewrite V; auto.
    - unfold del_all. apply filter_ext_in. intros x Hx. apply CA in Hx. destruct Hx as [r [Hr Hx]].
      pose proof (HA r x Hr Hx) as Hb.
      destruct (validA o x && negb (tooOld o (bop x))) eqn:G.
      + apply andb_true_iff in G. destruct G as [V T]. apply negb_true_iff in T.
        apply negb_true_iff, rmem_false. intros H. apply in_flat_map in H. destruct H as [r2 [Hr2 H2]].
        pose proof (HA r2 x Hr2 (cl_ea_sub bop cont o r2 x H2)) as Hb2.
        unfold cl_ea in H2. rewrite <- Hb2, T in H2. apply filter_In in H2. rewrite V in H2. destruct H2; discriminate.
      + apply negb_false_iff, rmem_In, in_flat_map. exists r. split; auto. unfold cl_ea. rewrite <- Hb.
        destruct (tooOld o (bop x)); auto. apply filter_In. split; auto.
        rewrite andb_true_r in G. rewrite G. auto.
    - intros H. apply (ri_same _ _ _ I') in H. simpl in H. apply in_map_iff in H. destruct H as [r' [E Hr']].
      apply keep_In in Hr'. destruct Hr' as [r [Hr Eg]]. exists r. repeat split; auto.
      + rewrite <- E. symmetry. eapply cl_rel_hdr; eauto.
      + congruence.
    - intros [r [Hr [E Hn]]]. apply (ri_same _ _ _ I'). simpl. destruct (cl_rel o r) as [r'|] eqn:Eg; [|congruence].
      apply in_map_iff. exists r'. split; [rewrite <- E; eapply cl_rel_hdr; eauto|]. apply keep_In. exists r; auto.
    - apply keep_In.
    - apply keep_In.
  Qed.

  Lemma dropPop_satvs pb pv pa s a : RInv s -> In a pa -> ~ In a (satvs (dropPop pb pv pa s)).
  Proof.
    intros I Ha H. rewrite dropPop_shape in H. simpl in H. apply del_all_In in H. destruct H as [H Hn].
    apply Hn. apply (ri_ca _ _ _ I) in H. destruct H as [r [Hr Hx]]. apply in_flat_map. exists r. split; auto.
    apply filter_In. split; auto. apply rmem_In; auto.
  Qed.
  Lemma dropPop_svtbs pb pv pa s t : RInv s -> In t pv -> ~ In t (svtbs (dropPop pb pv pa s)).
  Proof.
    intros I Ha H. rewrite dropPop_shape in H. simpl in H. apply del_all_In in H. destruct H as [H Hn].
    apply Hn. apply (ri_cv _ _ _ I) in H. destruct H as [r [Hr Hx]]. apply in_flat_map. exists r. split; auto.
    apply filter_In. split; auto. apply rmem_In; auto.
  Qed.
  Lemma clean_state_conn o s x :
    (In x (satvs (clean_state o s)) -> In x (satvs s)) /\ (In x (svtbs (clean_state o s)) -> In x (svtbs s)).
  Proof. simpl. rewrite !del_all_In. tauto. Qed.
  Lemma clean_state_infl o s x :
    (In x (fa (clean_state o s)) -> In x (fa s) /\ validA o x = true) /\
    (In x (fv (clean_state o s)) -> In x (fv s) /\ validV o x = true).
  Proof. simpl. rewrite !filter_In. tauto. Qed.

  (** removeAll(PopData): afterwards an ATV / VTB of the PopData is known to the mempool only if it was in flight
      before (removeAll takes nothing out of the in-flight maps) and passes the contextual check of cleanUp; a context
      block of the PopData keeps its relation after the first loop only while that relation still lists payloads *)
  Lemma removeAll_forgets_lemma pb pv pa o c s :
    RInv s -> DInv s ->
    exists s', removeAll bop cont pb pv pa o c s = ROk s' /\
      (forall a, In a pa -> KA s' a -> In a (fa s) /\ validA o a = true) /\
      (forall t, In t pv -> KV s' t -> In t (fv s) /\ validV o t = true) /\
      (forall b, In b pb -> In b (vbks (dropPop pb pv pa s)) ->
         exists r, In r (rels (dropPop pb pv pa s)) /\ hdr r = b /\ (rvtbs r <> [] \/ ratvs r <> [])).
  Proof.
    intros I D. pose proof (dropPop_inv bop cont pb pv pa s I) as I1. pose proof (dropPop_dinv pb pv pa s D) as D1.
    pose proof (clean_state_inv bop cont o _ I1) as I2. pose proof (clean_state_dinv o _ D1) as D2.
    unfold removeAll. rewrite (cleanUp_ok bop cont) by auto. eexists. split; [reflexivity|].
    destruct (tryConnect_all c _ I2 D2) as [_ [TA TV]]. split; [|split].
    - intros a Ha Hk. apply TA in Hk. destruct Hk as [Hk|Hk].
      + exfalso. apply clean_state_conn in Hk. revert Hk. apply dropPop_satvs; auto.
      + apply clean_state_infl in Hk. exact Hk.
    - intros t Ht Hk. apply TV in Hk. destruct Hk as [Hk|Hk].
      + exfalso. apply clean_state_conn in Hk. revert Hk. apply dropPop_svtbs; auto.
      + apply clean_state_infl in Hk. exact Hk.
    - intros b Hb Hin. apply (ri_same _ _ _ I1) in Hin. apply in_map_iff in Hin. destruct Hin as [r' [E Hr']].
      exists r'. repeat split; auto. rewrite dropPop_shape in Hr'. simpl in Hr'. apply keep_In in Hr'.
      destruct Hr' as [r [Hr Eg]]. pose proof (rm_rel_hdr _ _ _ _ _ Eg) as Eh. unfold rm_rel in Eg.
      rewrite <- Eh, E in Eg. apply rmem_In in Hb. rewrite Hb in Eg. simpl in Eg.
      match type of Eg with (if ?c then _ else _) = _ => destruct c eqn:Ec end; [discriminate|].
      injection Eg as <-. simpl. apply andb_false_iff in Ec. destruct Ec as [Ec|Ec]; [left|right]; intros Z;
        rewrite Z in Ec; discriminate.
  Qed.

  (** nothing reappears without a submit: an ATV / VTB unknown before an operation other than its own submit is
      unknown afterwards (clear, cleanUp, removeAll, generatePopData included); after clear nothing is known *)
  Lemma no_resurrection_lemma s op s' :
    RInv s -> DInv s -> rstep bop cont s op = ROk s' ->
    (forall a, KA s' a -> KA s a \/ exists v, op = SubA v a) /\
    (forall t, KV s' t -> KV s t \/ exists v, op = SubV v t) /\
    (op = Clr -> s' = mp0).
  Proof.
    intros I D. destruct op; simpl.
    - intros [= <-]. repeat split; try discriminate.
      + intros x Hx. apply submitA_KA in Hx. destruct Hx as [Hx|[-> _]]; eauto.
      + intros x Hx. left. unfold KV in *. destruct (submitA_other v a s) as [E1 E2]. rewrite E1, E2 in Hx. auto.
    - intros [= <-]. repeat split; try discriminate.
      + intros x Hx. left. unfold KA in *. destruct (submitV_other v t s) as [E1 E2]. rewrite E1, E2 in Hx. auto.
      + intros x Hx. apply submitV_KV in Hx. destruct Hx as [Hx|[-> _]]; eauto.
    - intros [= <-]. destruct (submitB_other v st b s) as [E1 [E2 [E3 E4]]].
      repeat split; try discriminate; intros x Hx; left; unfold KA, KV in *; congruence.
    - unfold generate. rewrite (cleanUp_ok bop cont) by (apply tryConnect_inv; auto). intros [= <-].
      destruct (tryConnect_all c s I D) as [_ [TA TV]].
      repeat split; try discriminate; intros x Hx; left; apply clean_state_K in Hx; auto.
    - unfold removeAll. rewrite (cleanUp_ok bop cont) by (apply dropPop_inv; auto). intros [= <-].
      destruct (tryConnect_all c (clean_state o (dropPop pb pv pa s))) as [_ [TA TV]];
        [apply clean_state_inv, dropPop_inv; auto|apply clean_state_dinv, dropPop_dinv; auto|].
      repeat split; try discriminate; intros x Hx; left.
      + apply TA in Hx. apply clean_state_K in Hx. apply dropPop_K in Hx. auto.
      + apply TV in Hx. apply clean_state_K in Hx. apply dropPop_K in Hx. auto.
    - rewrite (cleanUp_ok bop cont) by auto. intros [= <-].
      repeat split; try discriminate; intros x Hx; left; apply clean_state_K in Hx; auto.
    - intros [= <-]. repeat split; auto; intros x [[]|[]].
  Qed.

  (** a VBK block the tree accepts does not survive a connect pass in flight (in particular the in-flight copy of a
      block that became a relation header through an ATV / VTB is gone after the next pass) *)
  Lemma submitB_fb v st x s y : In y (fb (submitB v st x s)) -> y = x \/ In y (fb s).
  Proof.
    destruct v; simpl; auto.
    - rewrite sadd_In. tauto.
    - destruct st; simpl; rewrite sdel_In; tauto.
  Qed.
  Lemma passB_fb c b : (forall s', vB c s' b = Fine) ->
    forall l s, In b l \/ ~ In b (fb s) -> ~ In b (fb (passB c l s)).
  Proof.
    intros Hv. induction l as [|x l IH]; intros s H.
    - destruct H as [[]|H]; exact H.
    - change (passB c (x :: l) s) with (passB c l (submitB (vB c s x) (stB c s x) x s)). apply IH.
      destruct (N.eq_dec x b) as [->|Hne].
      + right. rewrite Hv. simpl. destruct (stB c s b); simpl; rewrite sdel_In; tauto.
      + destruct H as [[E|H]|H]; [congruence|left; exact H|right].
        intros Hin. apply submitB_fb in Hin. destruct Hin; [congruence|auto].
  Qed.
  Lemma passV_fb c l : forall s, fb (passV cont c l s) = fb s.
  Proof.
    induction l as [|t l IH]; intros s; [reflexivity|].
    change (passV cont c (t :: l) s) with (passV cont c l (submitV cont (vV c s t) t s)). rewrite IH.
    destruct (vV c s t); reflexivity.
  Qed.
  Lemma passA_fb c l : forall s, fb (passA bop c l s) = fb s.
  Proof.
    induction l as [|a l IH]; intros s; [reflexivity|].
    change (passA bop c (a :: l) s) with (passA bop c l (submitA bop (vA c s a) a s)). rewrite IH.
    destruct (vA c s a); reflexivity.
  Qed.
  Lemma inflight_block_resolved_lemma c s b :
    (forall s', vB c s' b = Fine) -> ~ In b (fb (tryConnect bop cont c s)).
  Proof.
    intros Hv. unfold tryConnect. rewrite passA_fb, passV_fb. apply passB_fb; auto.
    destruct (in_dec N.eq_dec b (fb s)); auto.
  Qed.
End More.


(** ** examples *)
Definition ex_bop (a : N) : N := 7.
Definition ex_cont (t : N) : N := 8.
Definition all_fine : coracle :=
  mkco (fun _ _ => Fine) (fun _ _ => false) (fun _ _ => Fine) (fun _ _ => Fine).
Definition all_valid : oracle := mko (fun _ => false) (fun _ => false) (fun _ => true) (fun _ => true) (fun _ => true).

(** getOrPutVbkRelation ignores the in-flight blocks: a VBK block waiting in flight becomes the header of a relation
    when an ATV carrying it connects - connected AND in flight; the next connect pass erases the in-flight entry *)
Lemma vbk_header_both_example :
  let ops := [SubB Stateful false 7; SubA Fine 1] in
  rcontract ex_bop ex_cont mp0 ops /\
  (exists s, rrun ex_bop ex_cont mp0 ops = ROk s /\ In 7 (vbks s) /\ In 7 (fb s)) /\
  (exists s, rrun ex_bop ex_cont mp0 (ops ++ [Gen all_fine all_valid]) = ROk s /\ In 7 (vbks s) /\ fb s = []).
Proof.
  simpl. repeat split; auto.
  - eexists. split; [vm_compute; reflexivity|]. simpl; auto.
  - eexists. split; [vm_compute; reflexivity|]. simpl; auto.
Qed.

(** without the caller contract: a connected ATV submitted again is listed twice by its relation, and when the second
    submit fails statefully it is connected and in flight at once *)
Lemma resubmit_example :
  (exists s, rrun ex_bop ex_cont mp0 [SubA Fine 1; SubA Fine 1] = ROk s /\ rels s = [mkr 7 [] [1; 1]]) /\
  (exists s, rrun ex_bop ex_cont mp0 [SubA Fine 1; SubA Stateful 1] = ROk s /\ In 1 (satvs s) /\ In 1 (fa s)).
Proof.
  split; eexists; (split; [vm_compute; reflexivity|]); simpl; auto.
Qed.

(** a history that exercises every operation; cleanUp with a too old block 7 and an invalid VTB 3 *)
Definition ex_ops : list (rop) :=
  [SubA Fine 1; SubA Fine 2; SubV Fine 3; SubV Fine 4; SubV Stateful 5; SubB Fine false 9; SubB Stateful false 10;
   Clean (mko (fun b => b =? 7) (fun b => b =? 9) (fun _ => true) (fun t => negb (t =? 3)) (fun _ => true))].
Lemma ex_ops_result :
  rcontract ex_bop ex_cont mp0 ex_ops /\
  rrun ex_bop ex_cont mp0 ex_ops = ROk (mkm [mkr 8 [4] []] [8] [4] [] [10] [5] []).
Proof. split; [simpl; intuition discriminate | vm_compute; reflexivity]. Qed.
