(** CountingContext (include/veriblock/pop/blockchain/pop/counting_context.hpp) against
    PopData::estimateSize, and the add-temp-block / execute / remove machine of
    MemPoolBlockTree::filterInvalidPayloads.

    Sizes are abstract: a payload is represented by its estimateSize (the Serde
    development proves estimateSize = encoded length per entity; here only the
    container arithmetic matters). [prefix n] is singleBEValueSize(n): one length
    byte plus the trimmed big-endian bytes of n (trimmedArray keeps at least one). *)
From Coq Require Import List NArith Bool.
Import ListNotations.
Local Open Scope N_scope.

Definition trimmed_len (n : N) : N :=
  if n <? 256 then 1 else if n <? 65536 then 2 else if n <? 16777216 then 3 else
  if n <? 4294967296 then 4 else if n <? 1099511627776 then 5 else
  if n <? 281474976710656 then 6 else if n <? 72057594037927936 then 7 else 8.
Definition prefix (n : N) : N := 1 + trimmed_len n.

Definition sum (l : list N) : N := fold_right N.add 0 l.
Definition len (l : list N) : N := N.of_nat (length l).

(** PopData::estimateSize: version + three arrays (context, vtbs, atvs) *)
Definition estimate (vbks vtbs atvs : list N) : N :=
  4 + (prefix (len vbks) + sum vbks) + (prefix (len vtbs) + sum vtbs) + (prefix (len atvs) + sum atvs).

Inductive kind := KVbk | KVtb | KAtv.
Record limits := mkl { max_vbk : N; max_vtb : N; max_atv : N; max_size : N }.
Record counter := mkc { n_vbk : N; n_vtb : N; n_atv : N; s_vbk : N; s_vtb : N; s_atv : N }.
Definition c0 : counter := mkc 0 0 0 0 0 0.

(** the running figure of canFitSize *)
Definition popsize (c : counter) : N :=
  4 + prefix (n_atv c) + s_atv c + prefix (n_vtb c) + s_vtb c + prefix (n_vbk c) + s_vbk c.

(** lengthPrefixGrowth(count) = singleBEValueSize(count + 1) - singleBEValueSize(count), size_t arithmetic *)
Definition growth (n : N) : N := prefix (n + 1) - prefix n.

Definition count_ok (L : limits) (c : counter) (k : kind) : bool :=
  match k with
  | KVbk => n_vbk c <? max_vbk L
  | KVtb => n_vtb c <? max_vtb L
  | KAtv => n_atv c <? max_atv L
  end.
Definition count_of (c : counter) (k : kind) : N :=
  match k with KVbk => n_vbk c | KVtb => n_vtb c | KAtv => n_atv c end.

(** canFit as coded now: the size passed to canFitSize includes the growth of the kind's length prefix *)
Definition can_fit (L : limits) (c : counter) (k : kind) (size : N) : bool :=
  count_ok L c k && (popsize c + (size + growth (count_of c k)) <=? max_size L).
(** canFit before the repair: the prefix of the CURRENT count is priced *)
Definition can_fit_v0 (L : limits) (c : counter) (k : kind) (size : N) : bool :=
  count_ok L c k && (popsize c + size <=? max_size L).

Definition update (c : counter) (k : kind) (size : N) : counter :=
  match k with
  | KVbk => mkc (n_vbk c + 1) (n_vtb c) (n_atv c) (s_vbk c + size) (s_vtb c) (s_atv c)
  | KVtb => mkc (n_vbk c) (n_vtb c + 1) (n_atv c) (s_vbk c) (s_vtb c + size) (s_atv c)
  | KAtv => mkc (n_vbk c) (n_vtb c) (n_atv c + 1) (s_vbk c) (s_vtb c) (s_atv c + size)
  end.

(** applyPayloadsOrRemoveIfInvalid: a candidate is (kind, size, verdict of mutator.add); kept payloads per kind *)
Record kept := mkk { k_vbk : list N; k_vtb : list N; k_atv : list N }.
Definition keep (r : kept) (k : kind) (size : N) : kept :=
  match k with
  | KVbk => mkk (size :: k_vbk r) (k_vtb r) (k_atv r)
  | KVtb => mkk (k_vbk r) (size :: k_vtb r) (k_atv r)
  | KAtv => mkk (k_vbk r) (k_vtb r) (size :: k_atv r)
  end.

Fixpoint filter_fit_with (cf : limits -> counter -> kind -> N -> bool)
         (L : limits) (cands : list (kind * N * bool)) (c : counter) (r : kept) : counter * kept :=
  match cands with
  | [] => (c, r)
  | (k, size, valid) :: rest =>
    if cf L c k size && valid then filter_fit_with cf L rest (update c k size) (keep r k size)
    else filter_fit_with cf L rest c r
  end.
Definition filter_fit := filter_fit_with can_fit.
Definition filter_fit_v0 := filter_fit_with can_fit_v0.

Definition est_kept (r : kept) : N := estimate (k_vbk r) (k_vtb r) (k_atv r).
(** assertPopDataFits *)
Definition fits (L : limits) (r : kept) : bool :=
  (len (k_vbk r) <=? max_vbk L) && (len (k_vtb r) <=? max_vtb L) && (len (k_atv r) <=? max_atv L) &&
  (est_kept r <=? max_size L).

(** ** the temporary-block machine *)
Section Machine.
  Variable S P : Type.
  Variable add_temp remove_temp : S -> S.
  Variable exec : P -> S -> option S.      (* BlockPayloadMutator::add: execute or leave the state untouched *)
  Variable unexec : P -> S -> S.           (* removeSubtree un-executes the applied commands, last first *)

  Fixpoint apply_all (ps : list P) (s : S) (applied : list P) : S * list P :=
    match ps with
    | [] => (s, applied)
    | p :: r => match exec p s with
                | Some s' => apply_all r s' (p :: applied)
                | None => apply_all r s applied
                end
    end.
  Fixpoint unapply_all (applied : list P) (s : S) : S :=
    match applied with
    | [] => s
    | p :: r => unapply_all r (unexec p s)
    end.
  (** filterInvalidPayloads with its two pre-tests (canFit, stateless duplicate), which only look at the candidate
      and at what has been kept so far; [applied] is in reverse order *)
  Variable pre : P -> list P -> bool.
  Fixpoint filter_apply (ps : list P) (s : S) (applied : list P) : S * list P :=
    match ps with
    | [] => (s, applied)
    | p :: r =>
      if pre p applied then
        match exec p s with
        | Some s' => filter_apply r s' (p :: applied)
        | None => filter_apply r s applied
        end
      else filter_apply r s applied
    end.
  (** a block body: every payload must execute, in order *)
  Fixpoint exec_all (ps : list P) (s : S) : option S :=
    match ps with
    | [] => Some s
    | p :: r => match exec p s with Some s' => exec_all r s' | None => None end
    end.
  (** what generatePopData returns: the kept payloads in their final order *)
  Definition generated (s : S) (ps : list P) : list P := rev (snd (filter_apply ps (add_temp s) [])).

  Definition generate_machine (s : S) (ps : list P) : S :=
    let '(s1, ap) := apply_all ps (add_temp s) [] in remove_temp (unapply_all ap s1).
End Machine.

(** ** the application order is explicit
    filterInvalidPayloads applies the three candidate lists one after the other (each stage sees everything kept so
    far); a block body executes context, then VTBs, then ATVs. [filter3 l1 l2 l3] filters in the order l1, l2, l3 and
    returns the kept payloads per stage. *)
Section Order.
  Variable S P : Type.
  Variable exec : P -> S -> option S.
  Variable pre : P -> list P -> bool.

  Definition stage (ps : list P) (s : S) (prev : list P) : S * list P :=
    filter_apply S P exec (fun p ap => pre p (ap ++ prev)) ps s [].

  Definition filter3 (l1 l2 l3 : list P) (s : S) : S * list P * list P * list P :=
    let '(s1, m1) := stage l1 s [] in
    let '(s2, m2) := stage l2 s1 m1 in
    let '(s3, m3) := stage l3 s2 (m2 ++ m1) in
    (s3, rev m1, rev m2, rev m3).

  (** the body of a real block: context, VTBs, ATVs *)
  Definition exec_body (ctx vtbs atvs : list P) (s : S) : option S := exec_all S P exec (ctx ++ vtbs ++ atvs) s.

  (** as coded: the filter order IS the execution order *)
  Definition filter_as_coded (ctx vtbs atvs : list P) (s : S) : S * list P * list P * list P :=
    filter3 ctx vtbs atvs s.
  (** a filter that applies ATVs before VTBs; the returned PopData is (context, vtbs, atvs) all the same *)
  Definition filter_atvs_first (ctx vtbs atvs : list P) (s : S) : S * list P * list P * list P :=
    let '(s3, kc, ka, kv) := filter3 ctx atvs vtbs s in (s3, kc, kv, ka).
End Order.

(** a machine on which the order matters: state = known VBK blocks; ATV 1 brings its block of proof 2 along,
    VTB 3 needs its containing block 2 to be known *)
Definition om_exec (p : N) (s : list N) : option (list N) :=
  if p =? 1 then Some (2 :: s)
  else if p =? 3 then (if existsb (N.eqb 2) s then Some s else None)
  else None.

