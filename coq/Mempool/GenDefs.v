(** The selection of MemPool::generatePopData AS CODED (src/pop/mempool.cpp:42-82) followed by
    MemPoolBlockTree::filterInvalidPayloads (src/pop/blockchain/mempool_block_tree.cpp:285-383), on the relations
    structure of RelDefs, with payload ids (CountDefs has the size arithmetic only).

    generatePopData copies relations_ (an unordered_map) into a vector and std::sorts it by header height: the order
    among equal heights is unspecified, so the theorems quantify over EVERY height-sorted permutation [order] of the
    relations. It then appends, per relation, the header to context, all its ATVs and all its VTBs: no limit is applied
    here. filterInvalidPayloads applies context, then VTBs, then ATVs on the temporary block; a candidate is kept iff
    canFit (CountingContext), it is not a stateless duplicate (an id kept before), and BlockPayloadMutator::add
    succeeds. What [add] answers is the tree's business, given here by oracles:
      dupB/dupV/dupA   isStatefulDuplicate: the id is in a block of the active chain (payloads / finalized index)
      treeB            the VBK block is known to the VBK tree as seen from the tip
      okB/okV/okA      everything else the command checks; may depend on what was applied before
    and by the one structural fact the commands code: a VBK block needs its previous block (bad-prev-block) unless it is
    known already, a VTB its containing block (bad-containing), an ATV its block of proof (no-blockofproof), in the
    tree or among the context blocks applied before. Definitions only. *)
From Coq Require Import List NArith Bool Permutation.
From VB Require Import Mempool.CountDefs Mempool.RelDefs.
Import ListNotations.
Local Open Scope N_scope.

Record popout := mkout { o_ctx : list N; o_vtbs : list N; o_atvs : list N }.

Section Gen.
  Variable hgt : N -> N.                 (* header->getHeight() *)
  Variable par : N -> N.                 (* previous block *)
  Variable bop cont : N -> N.
  Variable szB szV szA : N -> N.         (* estimateSize *)
  Variable L : limits.
  Variable treeB : N -> bool.
  Variable dupB dupV dupA : N -> bool.
  Variable okB : list N -> N -> bool.
  Variable okV : list N -> list N -> N -> bool.
  Variable okA : list N -> list N -> list N -> N -> bool.

  (** the loop of generatePopData over the sorted vector *)
  Definition raw (order : list rel) : popout :=
    mkout (map hdr order) (flat_map rvtbs order) (flat_map ratvs order).

  (** ascending heights *)
  Fixpoint asc (l : list N) : Prop :=
    match l with
    | [] => True
    | x :: r => (forall y, In y r -> hgt x <= hgt y) /\ asc r
    end.
  Definition is_order (rs order : list rel) : Prop :=
    Permutation order rs /\ asc (map hdr order).

  (** applyPayloadsOrRemoveIfInvalid (std::remove_if keeps the relative order): [adm kept x] is mutator.add *)
  Fixpoint stage (k : kind) (sz : N -> N) (adm : list N -> N -> bool)
           (cands : list N) (c : counter) (kept : list N) : counter * list N :=
    match cands with
    | [] => (c, kept)
    | x :: r =>
      if can_fit L c k (sz x) && negb (rmem x kept) && adm kept x
      then stage k sz adm r (update c k (sz x)) (kept ++ [x])
      else stage k sz adm r c kept
    end.

  Definition admB (kept : list N) (b : N) : bool :=
    negb (dupB b) && (treeB b || treeB (par b) || rmem (par b) kept) && okB kept b.
  Definition admV (kb kept : list N) (t : N) : bool :=
    negb (dupV t) && (treeB (cont t) || rmem (cont t) kb) && okV kb kept t.
  Definition admA (kb kv kept : list N) (a : N) : bool :=
    negb (dupA a) && (treeB (bop a) || rmem (bop a) kb) && okA kb kv kept a.

  Definition filterPop (p : popout) : popout :=
    let '(c1, kb) := stage KVbk szB admB (o_ctx p) c0 [] in
    let '(c2, kv) := stage KVtb szV (admV kb) (o_vtbs p) c1 [] in
    let '(c3, ka) := stage KAtv szA (admA kb kv) (o_atvs p) c2 [] in
    mkout kb kv ka.

  (** generatePopData, the returned value, for the order the sort produced *)
  Definition generatePop (order : list rel) : popout := filterPop (raw order).

  (** assertPopDataFits on ids *)
  Definition out_fits (p : popout) : bool :=
    (len (o_ctx p) <=? max_vbk L) && (len (o_vtbs p) <=? max_vtb L) && (len (o_atvs p) <=? max_atv L) &&
    (estimate (map szB (o_ctx p)) (map szV (o_vtbs p)) (map szA (o_atvs p)) <=? max_size L).
End Gen.

(** a sort of the relations by header height (stable insertion sort): ONE of the orders std::sort may produce *)
Section Sort.
  Variable hgt : N -> N.
  Fixpoint ins_rel (r : rel) (l : list rel) : list rel :=
    match l with
    | [] => [r]
    | x :: t => if hgt (hdr r) <? hgt (hdr x) then r :: x :: t else x :: ins_rel r t
    end.
  Definition sort_rels (l : list rel) : list rel := fold_right ins_rel [] l.
End Sort.
